(** C19 — model of pkg/shed (index.go, db.go, field_uint64.go, vector_uint64.go,
    field_string.go) over the leveldb driver (pkg/shed/leveldb/{leveldb,schema}.go),
    as it is AFTER proposed/C19/fix-reverse-start-absent.patch and
    proposed/C19/fix-last-upper-bound.patch.  Definitions only.

    The backend (goleveldb) is the ordered map + cursor of [Aurora.C18.KV].
    Index keys/values are the ENCODED byte strings (after IndexFuncs.EncodeKey /
    EncodeValue); an index is addressed by its one-byte key prefix as returned
    by [NewIndex] (observed by the harness and checked against the schema
    model). *)
From Coq Require Import List NArith ZArith Bool.
Import ListNotations.
Require Import Aurora.Consts Aurora.C18.KV.
Local Open Scope N_scope.

Definition u8 (n : N) : N := n mod 256.
Definition u64 (n : N) : N := n mod 18446744073709551616.

(** constants of pkg/shed/leveldb/schema.go, re-read from the source on every run *)
Definition key_schema : bytes := [0].
Definition prefix_fields : N := Z.to_N Consts.sleveldb_keyPrefixFields.
Definition prefix_index_start : N := Z.to_N Consts.sleveldb_keyPrefixIndexStart.

(** * schema: index name -> prefix byte (schema.go CreateIndex) *)

Definition schema := list (bytes * N).

(** the loop of [CreateIndex]: nextID (a Go [byte]) climbs above every stored
    prefix; a stored index of the same name is returned as soon as it is met *)
Fixpoint create_index_loop (name : bytes) (ixs : schema) (nextID : N) : N + N :=
  match ixs with
  | [] => inr nextID                                    (* not found: new id *)
  | (n, p) :: rest =>
      let nextID' := if nextID <=? p then u8 (p + 1) else nextID in
      if beq n name then inl p else create_index_loop name rest nextID'
  end.
Definition create_index (name : bytes) (ixs : schema) : schema * N :=
  match create_index_loop name ixs prefix_index_start with
  | inl p => (ixs, p)
  | inr id => (ixs ++ [(name, id)], id)
  end.

(** * batches *)

Inductive bwrite := WPut (k v : bytes) | WDel (k : bytes).   (* complete keys *)
Definition apply_write (db : list kv) (w : bwrite) : list kv :=
  match w with WPut k v => db_put k v db | WDel k => db_del k db end.
(** leveldb [DB.Write(batch)]: the records are replayed in order; the batch is not reset *)
Definition commit (db : list kv) (b : list bwrite) : list kv := fold_left apply_write b db.

(** * shed.Index on the backend *)

Definition ikey (i : N) (k : bytes) : bytes := i :: k.          (* encodeKeyFunc: id ++ key *)
Definition strip (e : kv) : kv := (tl (fst e), snd e).            (* decodeKeyFunc: key[1:] *)

(** a LARGE batch described by a generator descriptor instead of a list of operations: the
    [n]-th of [count] batched operations (n = 0, 1, …) goes to index [i1] (n even) or [i2] (n odd),
    on the 2-byte key number [(n * stride + offset) mod nkeys]; every third one is a DeleteInBatch,
    the others PutInBatch of the 2-byte value [n mod 256; n / 256 mod 256].  The harness expands the
    same descriptor into real PutInBatch / DeleteInBatch calls. *)
Definition bulk_write (i1 i2 nkeys stride offset n : N) : bwrite :=
  let j := (n * stride + offset) mod nkeys in
  let key := ikey (if N.even n then i1 else i2) [j / 256; j mod 256] in
  if n mod 3 =? 2 then WDel key else WPut key [n mod 256; (n / 256) mod 256].
Definition bulk_step (i1 i2 nkeys stride offset : N) (st : N * list bwrite) : N * list bwrite :=
  (fst st + 1, bulk_write i1 i2 nkeys stride offset (fst st) :: snd st).
Definition bulk_writes (i1 i2 count nkeys stride offset : N) : list bwrite :=
  rev (snd (N.iter count (bulk_step i1 i2 nkeys stride offset) (0, []))).

(** [bytesIncrement] *)
Definition bytes_increment (p : bytes) : option bytes := prefix_limit p.

(** [LevelDB.Search(Query{Prefix: k})] without MatchPrefix: iterator over the whole
    database, [Seek(k)] *)
Definition search (db : list kv) (k : bytes) : cursor := seek_from [] db k.

(** [itemFromIterator(it, totalPrefix)] : None = driver.ErrNotFound *)
Definition item_from_iterator (c : cursor) (total : bytes) : option kv :=
  if has_prefix total (cur_key c) then Some (strip (cur_key c, cur_value c)) else None.

Inductive iter_res :=
| IterNil                       (* nil *)
| IterCb (code : N)             (* the callback's error, wrapped *)
| IterBadPrefix                 (* "index iterator invalid prefix" *)
| IterStuck.                    (* model out of fuel: never *)

(** the loop of [Index.Iterate]:
      for ; ok; ok = itSeekerFn() { item, err := f.itemFromIterator(it, prefix); … } *)
Fixpoint iter_loop (fuel : nat) (seeker : cursor -> cursor) (total : bytes) (cb : cbfun) (n : nat) (c : cursor)
  : list kv * iter_res :=
  match fuel with
  | O => ([], IterStuck)
  | S f =>
      if cur_valid c then
        match item_from_iterator c total with
        | None => ([], IterNil)                                   (* ErrNotFound: break *)
        | Some (k, v) =>
            let '(stop, err) := cb n k v in
            match err with
            | Some e => ([(k, v)], IterCb e)
            | None => if stop then ([(k, v)], IterNil)
                      else let '(vis, r) := iter_loop f seeker total cb (S n) (seeker c) in ((k, v) :: vis, r)
            end
        end
      else ([], IterNil)
  end.

(** positioning of the cursor before the loop; [inr r] = early return *)
Definition iter_position (db : list kv) (total startKey : bytes) (has_start rev : bool) : cursor + iter_res :=
  let it0 := search db startKey in
  if rev then
    if negb has_start then
      let it1 := cur_to_last it0 in                                (* ok = it.Last() *)
      if negb (cur_valid it1) then inr IterNil
      else if has_prefix total (cur_key it1) then inl it1
      else match bytes_increment total with
           | None => inr IterBadPrefix
           | Some inc =>
               let it2 := cur_seek it1 inc in
               if negb (cur_valid it2) then inr IterNil
               else let it3 := cur_prev it2 in
                    if negb (cur_valid it3) then inr IterNil else inl it3
           end
    else if negb (cur_valid it0) then inl (cur_to_last it0)        (* repaired: ok = it.Last() *)
    else if negb (beq startKey (cur_key it0)) then inl (cur_prev it0)   (* repaired: ok = it.Prev() *)
    else inl it0
  else inl it0.

Definition shed_iterate (db : list kv) (i : N) (start : option bytes) (skip : bool) (pfx : bytes) (rev : bool)
    (cb : cbfun) : list kv * iter_res :=
  let total := ikey i pfx in
  let startKey := match start with Some s => ikey i s | None => total end in
  match iter_position db total startKey (match start with Some _ => true | None => false end) rev with
  | inr r => ([], r)
  | inl it =>
      let seeker := if rev then cur_prev else cur_next in
      let it' := if skip && beq startKey (cur_key it) then seeker it else it in
      iter_loop (S (length db)) seeker total cb 0 it'
  end.

(** [First(prefix)] *)
Definition shed_first (db : list kv) (i : N) (p : bytes) : option kv :=
  item_from_iterator (search db (ikey i p)) (ikey i p).

(** [Last(prefix)] (repaired): Seek(bytesIncrement(id ++ prefix)); Prev() — or Last() *)
Definition shed_last (db : list kv) (i : N) (p : bytes) : option kv :=
  let it := search db [i] in
  let total := ikey i p in
  let it' := match bytes_increment total with
             | Some np => cur_prev (cur_seek it np)
             | None => cur_to_last it
             end in
  item_from_iterator it' total.

(** the loop of [Count]/[CountFrom]: for ok := it.Valid(); ok; ok = it.Next() { if key[0] != prefix[0] {break}; count++ } *)
Fixpoint count_loop (fuel : nat) (i : N) (c : cursor) (acc : N) : option N :=
  match fuel with
  | O => None
  | S f =>
      if cur_valid c then
        match cur_key c with
        | b :: _ => if b =? i then count_loop f i (cur_next c) (acc + 1) else Some acc
        | [] => None                                              (* key[0] of an empty key: panic; never (keys carry a prefix byte) *)
        end
      else Some acc
  end.
Definition shed_count (db : list kv) (i : N) : option N := count_loop (S (length db)) i (search db [i]) 0.
Definition shed_count_from (db : list kv) (i : N) (k : bytes) : option N :=
  count_loop (S (length db)) i (search db (ikey i k)) 0.

(** [Fill]: items are filled in order; the first missing key ends with an error *)
Fixpoint shed_fill (db : list kv) (i : N) (ks : list bytes) : list bytes * bool :=
  match ks with
  | [] => ([], true)
  | k :: t => match db_get (ikey i k) db with
              | None => ([], false)
              | Some v => let '(vs, ok) := shed_fill db i t in (v :: vs, ok)
              end
  end.

(** * fields *)

Definition field_key (name : bytes) : bytes := prefix_fields :: name.       (* CreateField: {keyPrefixFields} ++ name *)
Fixpoint be_bytes (n : nat) (v : N) : bytes :=                               (* big endian, n bytes *)
  match n with O => [] | S m => be_bytes m (v / 256) ++ [v mod 256] end.
Definition be64 (v : N) : bytes := be_bytes 8 v.
Definition vec_key (name : bytes) (i : N) : bytes := field_key name ++ be64 i.   (* indexKey *)
Definition be_value (b : bytes) : N := fold_left (fun a x => a * 256 + x) b 0.
(** [binary.BigEndian.Uint64(b)]: index-out-of-range panic under 8 bytes *)
Definition dec64 (b : bytes) : option N :=
  if Nat.ltb (length b) 8 then None else Some (be_value (firstn 8 b)).

Inductive fres := FVal (v : N) | FPanic.
(** Uint64Field.Get / Uint64Vector.Get: not found -> 0 *)
Definition field_get (db : list kv) (fk : bytes) : fres :=
  match db_get fk db with
  | None => FVal 0
  | Some b => match dec64 b with Some v => FVal v | None => FPanic end
  end.

(** * histories *)

Record state := mk_state { st_db : list kv; st_schema : schema; st_batch : list bwrite }.

Inductive op :=
| ONewIndex (name : bytes)
| OPut (i : N) (k v : bytes)
| ODelete (i : N) (k : bytes)
| OGet (i : N) (k : bytes)
| OHas (i : N) (k : bytes)
| OHasMulti (i : N) (ks : list bytes)
| OFill (i : N) (ks : list bytes)
| OIter (i : N) (start : option bytes) (skip : bool) (pfx : bytes) (rev : bool) (cb : cbspec)
| OFirst (i : N) (p : bytes)
| OLast (i : N) (p : bytes)
| OCount (i : N)
| OCountFrom (i : N) (k : bytes)
| OBatchNew                                   (* db.NewBatch(): the previous batch object is dropped *)
| OBPut (i : N) (k v : bytes)                 (* PutInBatch *)
| OBDelete (i : N) (k : bytes)                (* DeleteInBatch *)
| OBCommit
| OFGet (fk : bytes)                          (* Uint64Field.Get / Uint64Vector.Get(i) on field key fk *)
| OFPut (fk : bytes) (v : N)
| OFInc (fk : bytes)
| OFDec (fk : bytes)
| OFPutB (fk : bytes) (v : N)                 (* …InBatch variants *)
| OFIncB (fk : bytes)
| OFDecB (fk : bytes)
| OSGet (fk : bytes)                          (* StringField *)
| OSPut (fk : bytes) (s : bytes)
| OSPutB (fk : bytes) (s : bytes)
| OReopen                                     (* Close, NewDB on the same directory, NewIndex/New…Field again *)
| OBBulk (i1 i2 count nkeys stride offset : N).   (* [count] PutInBatch / DeleteInBatch calls, see [bulk_write] *)

Inductive obs :=
| BOk
| BNotFound
| BPrefix (p : N)
| BVal (v : bytes)
| BBool (b : bool)
| BBools (l : list bool)
| BFill (vs : list bytes) (ok : bool)
| BIter (vis : list kv) (r : iter_res)
| BItem (k v : bytes)
| BCount (n : N)
| BU64 (v : N)
| BPanic
| BStuck.

Definition fobs (r : fres) : obs := match r with FVal v => BU64 v | FPanic => BPanic end.

(** Inc / Dec (and the InBatch variants): read the COMMITTED value, write val+1 (uint64 wrap) / val-1 (0 stays 0) *)
Definition inc_val (v : N) : N := u64 (v + 1).
Definition dec_val (v : N) : N := if v =? 0 then 0 else v - 1.

Definition with_db (s : state) (db : list kv) : state := mk_state db (st_schema s) (st_batch s).
Definition with_batch (s : state) (b : list bwrite) : state := mk_state (st_db s) (st_schema s) b.

Definition step (s : state) (o : op) : state * obs :=
  let db := st_db s in
  match o with
  | ONewIndex name => let '(sc, p) := create_index name (st_schema s) in (mk_state db sc (st_batch s), BPrefix p)
  | OPut i k v => (with_db s (db_put (ikey i k) v db), BOk)
  | ODelete i k => (with_db s (db_del (ikey i k) db), BOk)
  | OGet i k => (s, match db_get (ikey i k) db with Some v => BVal v | None => BNotFound end)
  | OHas i k => (s, BBool (match db_get (ikey i k) db with Some _ => true | None => false end))
  | OHasMulti i ks => (s, BBools (map (fun k => match db_get (ikey i k) db with Some _ => true | None => false end) ks))
  | OFill i ks => (s, let '(vs, ok) := shed_fill db i ks in BFill vs ok)
  | OIter i start skip pfx rev cb => (s, let '(vis, r) := shed_iterate db i start skip pfx rev (cb_of cb) in BIter vis r)
  | OFirst i p => (s, match shed_first db i p with Some (k, v) => BItem k v | None => BNotFound end)
  | OLast i p => (s, match shed_last db i p with Some (k, v) => BItem k v | None => BNotFound end)
  | OCount i => (s, match shed_count db i with Some n => BCount n | None => BStuck end)
  | OCountFrom i k => (s, match shed_count_from db i k with Some n => BCount n | None => BStuck end)
  | OBatchNew => (with_batch s [], BOk)
  | OBPut i k v => (with_batch s (st_batch s ++ [WPut (ikey i k) v]), BOk)
  | OBDelete i k => (with_batch s (st_batch s ++ [WDel (ikey i k)]), BOk)
  | OBCommit => (with_db s (commit db (st_batch s)), BOk)
  | OFGet fk => (s, fobs (field_get db fk))
  | OFPut fk v => (with_db s (db_put fk (be64 v) db), BOk)
  | OFInc fk => match field_get db fk with
                | FVal v => (with_db s (db_put fk (be64 (inc_val v)) db), BU64 (inc_val v))
                | FPanic => (s, BPanic)
                end
  | OFDec fk => match field_get db fk with
                | FVal v => (with_db s (db_put fk (be64 (dec_val v)) db), BU64 (dec_val v))
                | FPanic => (s, BPanic)
                end
  | OFPutB fk v => (with_batch s (st_batch s ++ [WPut fk (be64 v)]), BOk)
  | OFIncB fk => match field_get db fk with
                 | FVal v => (with_batch s (st_batch s ++ [WPut fk (be64 (inc_val v))]), BU64 (inc_val v))
                 | FPanic => (s, BPanic)
                 end
  | OFDecB fk => match field_get db fk with
                 | FVal v => (with_batch s (st_batch s ++ [WPut fk (be64 (dec_val v))]), BU64 (dec_val v))
                 | FPanic => (s, BPanic)
                 end
  | OSGet fk => (s, BVal (match db_get fk db with Some b => b | None => [] end))
  | OSPut fk v => (with_db s (db_put fk v db), BOk)
  | OSPutB fk v => (with_batch s (st_batch s ++ [WPut fk v]), BOk)
  | OReopen => (with_batch s [], BOk)                 (* content and schema are on disk; the batch object is gone *)
  | OBBulk i1 i2 count nkeys stride offset =>
      (with_batch s (st_batch s ++ bulk_writes i1 i2 count nkeys stride offset), BOk)
  end.

Fixpoint run (s : state) (h : list op) : state * list obs :=
  match h with
  | [] => (s, [])
  | o :: t => let '(s1, b) := step s o in let '(s2, bs) := run s1 t in (s2, b :: bs)
  end.

(** a fresh database: only the schema record (its JSON value is never observed) *)
Definition init_state : state := mk_state [(key_schema, [])] [] [].
