(** C19 — the abstraction: every index of a shed database IS an independent
    sorted map ([index_map]); writes act on it as sorted-map insert/delete and
    leave the other indexes alone; every read of the index is a function of it. *)
From Coq Require Import List NArith ZArith Bool Lia Arith Sorting.Sorted.
Import ListNotations.
Require Import Aurora.C18.KV Aurora.C18.Proofs Aurora.C19.Model Aurora.C19.Sorted Aurora.C19.Proofs.
Local Open Scope N_scope.

(** the sorted map of index [i]: its entries, index byte removed *)
Definition index_map (db : list kv) (i : N) : list kv := map strip (filter (pfx_of [i]) db).

Lemma pfx1 i e : pfx_of [i] e = match fst e with b :: _ => i =? b | [] => false end.
Proof. unfold pfx_of. destruct (fst e) as [|b k]; cbn; [reflexivity | apply andb_true_r]. Qed.

Lemma beq_cons i k k' : beq (i :: k) (i :: k') = beq k k'.
Proof. unfold beq. cbn. now rewrite N.compare_refl. Qed.
Lemma beq_cons_neq i j k k' : i <> j -> beq (i :: k) (j :: k') = false.
Proof. intros H. apply beq_neq. intros E. inversion E. contradiction. Qed.
Lemma bcmp_cons i k k' : bcmp (i :: k) (i :: k') = bcmp k k'.
Proof. cbn. now rewrite N.compare_refl. Qed.

Lemma index_map_get db i k : db_get k (index_map db i) = db_get (ikey i k) db.
Proof.
  unfold index_map, ikey. induction db as [|[key v] t IH]; [reflexivity|]. cbn [filter]. rewrite pfx1. cbn [fst].
  destruct key as [|b key]; cbn [db_get].
  - rewrite IH. destruct (beq (i :: k) []) eqn:E; [apply beq_eq in E; discriminate | reflexivity].
  - destruct (i =? b) eqn:Eb.
    + apply N.eqb_eq in Eb; subst b. cbn [map strip fst snd tl db_get]. rewrite beq_cons.
      destruct (beq k key); [reflexivity | exact IH].
    + apply N.eqb_neq in Eb. rewrite (beq_cons_neq i b k key Eb). exact IH.
Qed.

Lemma index_map_sorted db i : sorted_db db -> sorted_db (index_map db i).
Proof.
  intros Hs. unfold index_map. pose proof (filter_sorted (pfx_of [i]) db Hs) as Hf.
  assert (Hall : all_b (pfx_of [i]) (filter (pfx_of [i]) db)) by (intros e He; apply filter_In in He; tauto).
  induction (filter (pfx_of [i]) db) as [|x l IH]; [constructor|].
  destruct (sorted_db_tail _ _ Hf) as [Hs' Hlt]. unfold sorted_db, sorted_keys in *. cbn.
  constructor; [apply IH; auto; intros e He; apply Hall; now right|].
  rewrite Forall_forall. intros k Hk. unfold keys_of in Hk. rewrite map_map in Hk. apply in_map_iff in Hk as [e [<- He]].
  pose proof (Hall x (or_introl eq_refl)) as Hx. pose proof (Hall e (or_intror He)) as He'.
  rewrite pfx1 in Hx, He'. specialize (Hlt e He). apply blt_lt in Hlt.
  destruct x as [[|bx kx] vx]; [discriminate|]. destruct e as [[|be ke] ve]; [discriminate|]. cbn [fst] in *.
  apply N.eqb_eq in Hx, He'. subst bx be. rewrite bcmp_cons in Hlt. exact Hlt.
Qed.

(** ** writes *)

Lemma index_map_put db i j k v : sorted_db db ->
  index_map (db_put (ikey i k) v db) j = if j =? i then db_put k v (index_map db i) else index_map db j.
Proof.
  intros Hs. apply sorted_db_ext.
  - apply index_map_sorted. now apply db_put_sorted.
  - destruct (j =? i); [apply db_put_sorted|]; now apply index_map_sorted.
  - intros k'. rewrite index_map_get, db_get_put. unfold ikey. destruct (j =? i) eqn:E.
    + apply N.eqb_eq in E; subst j. rewrite beq_cons, db_get_put, index_map_get. reflexivity.
    + apply N.eqb_neq in E. rewrite (beq_cons_neq j i k' k E). now rewrite index_map_get.
Qed.

Lemma index_map_del db i j k : sorted_db db ->
  index_map (db_del (ikey i k) db) j = if j =? i then db_del k (index_map db i) else index_map db j.
Proof.
  intros Hs. pose proof (sorted_nodup _ Hs) as Hnd. apply sorted_db_ext.
  - apply index_map_sorted. now apply db_del_sorted.
  - destruct (j =? i); [apply db_del_sorted|]; now apply index_map_sorted.
  - intros k'. rewrite index_map_get, db_get_del by exact Hnd. unfold ikey. destruct (j =? i) eqn:E.
    + apply N.eqb_eq in E; subst j. rewrite beq_cons, db_get_del, index_map_get; [reflexivity|].
      apply sorted_nodup. now apply index_map_sorted.
    + apply N.eqb_neq in E. rewrite (beq_cons_neq j i k' k E). now rewrite index_map_get.
Qed.

(** a write to a key outside index [j] (another index, a field, the schema record) *)
Lemma index_map_put_other db key v j : sorted_db db -> pfx_of [j] (key, v) = false ->
  index_map (db_put key v db) j = index_map db j.
Proof.
  intros Hs Hp. apply sorted_db_ext; try (apply index_map_sorted; auto using db_put_sorted).
  intros k'. rewrite !index_map_get, db_get_put. unfold ikey.
  destruct (beq (j :: k') key) eqn:E; [|reflexivity]. apply beq_eq in E. subst key.
  rewrite pfx1 in Hp. cbn in Hp. now rewrite N.eqb_refl in Hp.
Qed.
Lemma index_map_del_other db key j : sorted_db db -> pfx_of [j] (key, @nil N) = false ->
  index_map (db_del key db) j = index_map db j.
Proof.
  intros Hs Hp. pose proof (sorted_nodup _ Hs) as Hnd.
  apply sorted_db_ext; try (apply index_map_sorted; auto using db_del_sorted).
  intros k'. rewrite !index_map_get, db_get_del by exact Hnd. unfold ikey.
  destruct (beq (j :: k') key) eqn:E; [|reflexivity]. apply beq_eq in E. subst key.
  rewrite pfx1 in Hp. cbn in Hp. now rewrite N.eqb_refl in Hp.
Qed.

(** ** reads are functions of [index_map] *)

Lemma strip_filter i (g g' : kv -> bool) : forall db,
  (forall e, In e db -> g e = true -> pfx_of [i] e = true) ->
  (forall e, In e db -> pfx_of [i] e = true -> g e = g' (strip e)) ->
  map strip (filter g db) = filter g' (index_map db i).
Proof.
  unfold index_map. induction db as [|x l IH]; intros H1 H2; [reflexivity|]. cbn [filter].
  assert (IH' : map strip (filter g l) = filter g' (map strip (filter (pfx_of [i]) l))).
  { apply IH; intros e He; [apply H1 | apply H2]; now right. }
  destruct (pfx_of [i] x) eqn:Ep.
  - cbn [map filter]. rewrite <- (H2 x (or_introl eq_refl) Ep). destruct (g x); cbn [map]; now rewrite IH'.
  - destruct (g x) eqn:Eg; [|exact IH']. rewrite (H1 x (or_introl eq_refl) Eg) in Ep. discriminate.
Qed.

Lemma pfx_of_ikey i p e : pfx_of [i] e = true -> pfx_of (ikey i p) e = pfx_of p (strip e).
Proof.
  rewrite pfx1. unfold pfx_of, ikey, strip. destruct e as [[|b k] v]; cbn [fst snd tl]; [discriminate|].
  intros H. cbn. now rewrite H.
Qed.
Lemma pfx_of_ikey_imp i p e : pfx_of (ikey i p) e = true -> pfx_of [i] e = true.
Proof.
  rewrite pfx1. unfold pfx_of, ikey. destruct (fst e) as [|b k]; cbn; [discriminate|].
  intros H. now apply andb_true_iff in H as [H _].
Qed.
Lemma kcmp_ikey i s e : pfx_of [i] e = true -> bcmp (fst e) (ikey i s) = bcmp (fst (strip e)) s.
Proof.
  rewrite pfx1. unfold ikey, strip. destruct e as [[|b k] v]; cbn [fst snd tl]; [discriminate|].
  intros H. apply N.eqb_eq in H; subst b. apply bcmp_cons.
Qed.
Lemma kle_ikey i s e : pfx_of [i] e = true -> kle (ikey i s) e = kle s (strip e).
Proof. intros H. unfold kle, ble. now rewrite (kcmp_ikey i s e H). Qed.
Lemma klt_ikey i s e : pfx_of [i] e = true -> klt (ikey i s) e = klt s (strip e).
Proof. intros H. unfold klt, blt. now rewrite (kcmp_ikey i s e H). Qed.
Lemma kge_ikey i s e : pfx_of [i] e = true -> kge (ikey i s) e = kge s (strip e).
Proof. intros H. rewrite !kge_negb_klt. now rewrite klt_ikey. Qed.
Lemma kgt_ikey i s e : pfx_of [i] e = true -> kgt (ikey i s) e = kgt s (strip e).
Proof. intros H. rewrite !kgt_negb_kle. now rewrite kle_ikey. Qed.

(** the reference selection on the complete keys is the reference selection on the index's own map *)
Lemma ref_select_index db i pfx start skip rv :
  map strip (ref_select db (ikey i pfx) (option_map (ikey i) start) skip rv) =
  ref_select (index_map db i) pfx start skip rv.
Proof.
  unfold ref_select. destruct start as [s|]; cbn [option_map]; destruct rv; rewrite ?map_rev; try f_equal;
    apply strip_filter; intros e He H;
    try (apply andb_true_iff in H as [H _]); try (exact (pfx_of_ikey_imp i pfx e H));
    rewrite (pfx_of_ikey i pfx e H); try reflexivity; f_equal; destruct skip;
    auto using kle_ikey, klt_ikey, kge_ikey, kgt_ikey.
Qed.

Lemma hd_error_map {A B} (f : A -> B) l : hd_error (map f l) = option_map f (hd_error l).
Proof. destruct l; reflexivity. Qed.

Section Reads.
  Variables (db : list kv) (i : N).
  Hypothesis Hs : sorted_db db.
  Hypothesis Hkb : keys_bytes db.
  Hypothesis Hi : i < 255.

  Let M := index_map db i.

  Lemma isbyte_i : isbyte i.
  Proof. unfold isbyte. lia. Qed.

  Theorem abs_get k : db_get (ikey i k) db = db_get k M.
  Proof. symmetry. apply index_map_get. Qed.

  Theorem abs_fill : forall ks,
    shed_fill db i ks =
    (fix go ks := match ks with
                  | [] => ([], true)
                  | k :: t => match db_get k M with
                              | None => ([], false)
                              | Some v => let '(vs, ok) := go t in (v :: vs, ok)
                              end
                  end) ks.
  Proof.
    induction ks as [|k t IH]; [reflexivity|]. cbn [shed_fill]. rewrite abs_get, IH. reflexivity.
  Qed.

  Theorem abs_iterate start skip pfx rv cb : isbytes pfx ->
    (forall s, start = Some s -> has_prefix pfx s = true /\ isbytes s) ->
    (start = None -> skip = false) ->
    shed_iterate db i start skip pfx rv cb = to_res (walk cb 0 (ref_select M pfx start skip rv)).
  Proof.
    intros Hp Hstart Hskip. rewrite shed_iterate_spec; auto.
    - now rewrite ref_select_index.
    - constructor; [apply isbyte_i | exact Hp].
    - intros s E. destruct (Hstart s E) as [H1 H2]. split; [exact H1|]. constructor; [apply isbyte_i | exact H2].
  Qed.

  Theorem abs_first p : isbytes p ->
    shed_first db i p = hd_error (filter (pfx_of p) M).
  Proof.
    intros Hp. rewrite shed_first_spec; auto; [|constructor; [apply isbyte_i | exact Hp]].
    rewrite <- hd_error_map. f_equal. apply strip_filter; intros e He H.
    - exact (pfx_of_ikey_imp i p e H).
    - now apply pfx_of_ikey.
  Qed.

  Theorem abs_last p : isbytes p ->
    shed_last db i p = hd_error (rev (filter (pfx_of p) M)).
  Proof.
    intros Hp. rewrite shed_last_spec; auto; [|constructor; [apply isbyte_i | exact Hp]].
    rewrite <- hd_error_map, map_rev. do 2 f_equal. apply strip_filter; intros e He H.
    - exact (pfx_of_ikey_imp i p e H).
    - now apply pfx_of_ikey.
  Qed.

  Theorem abs_count : shed_count db i = Some (N.of_nat (length M)).
  Proof. rewrite shed_count_spec; auto using isbyte_i. unfold M, index_map. now rewrite map_length. Qed.

  Theorem abs_count_from k :
    shed_count_from db i k = Some (N.of_nat (length (filter (kge k) M))).
  Proof.
    rewrite shed_count_from_spec; auto using isbyte_i. do 2 f_equal.
    rewrite <- (map_length strip). f_equal. apply strip_filter; intros e He H.
    - now apply andb_true_iff in H as [H _].
    - rewrite H. cbn [andb]. now apply kge_ikey.
  Qed.
End Reads.
