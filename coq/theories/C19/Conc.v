(** C19 — bulk readers against concurrent batch commits.

    [Index.Fill] and [Index.HasMulti] (pkg/shed/index.go) first take a database snapshot
    ([backend.GetSnapshot]) and then do one lookup per item AGAINST THE SNAPSHOT; between two
    lookups (each is preceded by a call of the user's EncodeKey function) other goroutines run.
    A writer commits batches ([Batch.Commit] = one atomic leveldb write).

    Threads are lists of atomic actions, a schedule is a list of thread ids; any number of
    reader and writer threads.  Theorem ([bulk_read_atomic]): for EVERY schedule, a reader
    running the snapshot program returns exactly the lookups of ONE database state that occurred
    along the execution (the state at its snapshot point) — never a mix of a batch's old and new
    values.  The per-item-Get program (no snapshot) is refuted by a three-step schedule. *)
From Coq Require Import List NArith Bool Lia Arith.
Import ListNotations.
Require Import Aurora.C18.KV Aurora.C19.Model.
Local Open Scope N_scope.

Inductive action :=
| ASnap                         (* reader: snapshot := the current database *)
| ARead (k : bytes)             (* reader: look the complete key up — in its snapshot when it has one, else in the current database *)
| ACommit (ws : list bwrite).   (* writer: one atomic batch write *)

Record thread := mkT { prog : list action; snap : option (list kv); res : list (option bytes) }.

Definition exec (db : list kv) (t : thread) : list kv * thread :=
  match prog t with
  | [] => (db, t)
  | ASnap :: p => (db, mkT p (Some db) (res t))
  | ARead k :: p =>
      (db, mkT p (snap t) (res t ++ [db_get k (match snap t with Some s => s | None => db end)]))
  | ACommit ws :: p => (commit db ws, mkT p (snap t) (res t))
  end.

Definition sys := (list kv * list thread)%type.

Fixpoint upd_nth (i : nat) (t : thread) (l : list thread) : list thread :=
  match l, i with
  | [], _ => []
  | _ :: r, O => t :: r
  | x :: r, S j => x :: upd_nth j t r
  end.

(** one scheduling step: thread [i] executes its next action (a finished or absent thread idles) *)
Definition sstep (s : sys) (i : nat) : sys :=
  match nth_error (snd s) i with
  | None => s
  | Some t => let '(db', t') := exec (fst s) t in (db', upd_nth i t' (snd s))
  end.
Definition run_sched (s : sys) (sched : list nat) : sys := fold_left sstep sched s.

(** the database states that occur along the execution *)
Fixpoint dbs_along (s : sys) (sched : list nat) : list (list kv) :=
  fst s :: match sched with [] => [] | i :: r => dbs_along (sstep s i) r end.

(** programs *)
Definition snapshot_reader (ks : list bytes) : thread := mkT (ASnap :: map ARead ks) None [].   (* Fill / HasMulti at HEAD *)
Definition per_item_reader (ks : list bytes) : thread := mkT (map ARead ks) None [].            (* one db.Get per item *)
Definition writer (wss : list (list bwrite)) : thread := mkT (map ACommit wss) None [].

(** what the caller of [Fill] sees: the values up to the first missing key, and whether all were found;
    of [HasMulti]: one boolean per key *)
Fixpoint fill_result (r : list (option bytes)) : list bytes * bool :=
  match r with
  | [] => ([], true)
  | None :: _ => ([], false)
  | Some v :: t => let '(vs, ok) := fill_result t in (v :: vs, ok)
  end.
Definition hasmulti_result (r : list (option bytes)) : list bool :=
  map (fun o => match o with Some _ => true | None => false end) r.

(** * proofs *)

Lemma nth_upd_same i t : forall l x, nth_error l i = Some x -> nth_error (upd_nth i t l) i = Some t.
Proof.
  induction i as [|i IH]; intros [|y l] x H; cbn in *; try discriminate; [reflexivity|]. eapply IH; eauto.
Qed.
Lemma nth_upd_other i t : forall l r, r <> i -> nth_error (upd_nth i t l) r = nth_error l r.
Proof.
  induction i as [|i IH]; intros [|y l] r H; cbn; try reflexivity.
  - destruct r; [contradiction | reflexivity].
  - destruct r; [reflexivity|]. cbn. apply IH. intros E. apply H. now f_equal.
Qed.

(** the reader has taken snapshot [S], read [ks1], has [ks2] left *)
Definition in_progress (S : list kv) (ks : list bytes) (t : thread) : Prop :=
  exists ks1 ks2, ks = ks1 ++ ks2 /\ prog t = map ARead ks2 /\ snap t = Some S /\
                  res t = map (fun k => db_get k S) ks1.

Lemma sstep_thread s i r t : nth_error (snd s) r = Some t ->
  nth_error (snd (sstep s i)) r = Some (if Nat.eqb i r then snd (exec (fst s) t) else t).
Proof.
  intros Hr. unfold sstep. destruct (Nat.eqb i r) eqn:E.
  - apply Nat.eqb_eq in E; subst i. rewrite Hr. destruct (exec (fst s) t) as [db' t'] eqn:Ee. cbn [snd].
    eapply nth_upd_same; eauto.
  - apply Nat.eqb_neq in E. destruct (nth_error (snd s) i) as [ti|]; [|exact Hr].
    destruct (exec (fst s) ti) as [db' t']. cbn [snd]. rewrite nth_upd_other; auto.
Qed.

Lemma exec_in_progress S ks db t : in_progress S ks t -> in_progress S ks (snd (exec db t)).
Proof.
  intros (ks1 & ks2 & Hk & Hp & Hs & Hr). unfold exec. rewrite Hp.
  destruct ks2 as [|k ks2]; cbn [map]; [exists ks1, []; auto|].
  cbn [snd]. exists (ks1 ++ [k]), ks2. cbn [prog snap res]. rewrite Hs, Hr.
  repeat split; [now rewrite <- app_assoc | now rewrite map_app].
Qed.

Lemma run_in_progress S ks r : forall sched s t, nth_error (snd s) r = Some t -> in_progress S ks t ->
  exists t', nth_error (snd (run_sched s sched)) r = Some t' /\ in_progress S ks t'.
Proof.
  induction sched as [|i sched IH]; intros s t Hr Hi; [exists t; auto|].
  cbn [run_sched fold_left]. pose proof (sstep_thread s i r t Hr) as Hn.
  eapply IH; [exact Hn|]. destruct (Nat.eqb i r); [now apply exec_in_progress | exact Hi].
Qed.

Lemma dbs_along_head s sched : In (fst s) (dbs_along s sched).
Proof. destruct sched; cbn; auto. Qed.

Lemma run_snapshot_reader ks r : forall sched s, nth_error (snd s) r = Some (snapshot_reader ks) ->
  exists t', nth_error (snd (run_sched s sched)) r = Some t' /\
    (t' = snapshot_reader ks \/ exists S, In S (dbs_along s sched) /\ in_progress S ks t').
Proof.
  induction sched as [|i sched IH]; intros s Hr; [exists (snapshot_reader ks); auto|].
  cbn [run_sched fold_left dbs_along]. pose proof (sstep_thread s i r _ Hr) as Hn.
  destruct (Nat.eqb i r) eqn:E.
  - (* the reader takes its snapshot now *)
    cbn [snapshot_reader exec prog snd res] in Hn.
    destruct (run_in_progress (fst s) ks r sched (sstep s i) _ Hn) as (t' & Ht' & Hp).
    { exists [], ks. cbn. auto. }
    exists t'. split; [exact Ht'|]. right. exists (fst s). split; [now left | exact Hp].
  - destruct (IH (sstep s i) Hn) as (t' & Ht' & [E'|(S & HS & Hp)]).
    + exists t'. split; [exact Ht' | now left].
    + exists t'. split; [exact Ht'|]. right. exists S. split; [now right | exact Hp].
Qed.

(** a finished snapshot reader holds the lookups of ONE state that occurred along the execution *)
Theorem bulk_read_atomic (db0 : list kv) (ths : list thread) (r : nat) (ks : list bytes) (sched : list nat) t' :
  nth_error ths r = Some (snapshot_reader ks) ->
  nth_error (snd (run_sched (db0, ths) sched)) r = Some t' -> prog t' = [] ->
  exists S, In S (dbs_along (db0, ths) sched) /\ res t' = map (fun k => db_get k S) ks.
Proof.
  intros Hr Ht Hdone. destruct (run_snapshot_reader ks r sched (db0, ths) Hr) as (t2 & Ht2 & H).
  rewrite Ht in Ht2. inversion Ht2; subst t2. destruct H as [E|(S & HS & ks1 & ks2 & Hk & Hp & _ & Hres)].
  - subst t'. discriminate.
  - exists S. split; [exact HS|]. rewrite Hdone in Hp. destruct ks2; [|discriminate].
    rewrite app_nil_r in Hk. now subst ks1.
Qed.

(** the per-item-Get reader: two keys, a writer rewriting both in one batch, schedule
    reader / writer / reader — the result is old,new: the lookups of NO state of the execution *)
Definition w_db0 : list kv := [([2; 97], [111]); ([2; 98], [111])].
Definition w_ths (reader : thread) : list thread :=
  [reader; writer [[WPut [2; 97] [110]; WPut [2; 98] [110]]]].
Definition w_keys : list bytes := [[2; 97]; [2; 98]].
Definition w_sched : list nat := [0; 1; 0]%nat.

Theorem per_item_reader_refuted :
  exists t', nth_error (snd (run_sched (w_db0, w_ths (per_item_reader w_keys)) w_sched)) 0 = Some t' /\
    prog t' = [] /\
    ~ exists S, In S (dbs_along (w_db0, w_ths (per_item_reader w_keys)) w_sched) /\
                res t' = map (fun k => db_get k S) w_keys.
Proof.
  eexists. split; [vm_compute; reflexivity|]. split; [reflexivity|].
  intros (S & HS & Hres). vm_compute in HS.
  repeat (destruct HS as [<-|HS]; [vm_compute in Hres; discriminate|]). exact HS.
Qed.

(** the same schedule with the snapshot program returns old,old *)
Example snapshot_reader_witness :
  option_map res (nth_error (snd (run_sched (w_db0, w_ths (snapshot_reader w_keys)) (0%nat :: w_sched))) 0)
  = Some [Some [111]; Some [111]].
Proof. vm_compute. reflexivity. Qed.
