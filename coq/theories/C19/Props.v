(** C19 — property theorems only.  "Each named index behaves as an
    independent sorted map …".  The model is that of pkg/shed after
    proposed/C19/fix-reverse-start-absent.patch and proposed/C19/fix-last-upper-bound.patch.

    Vocabulary:
    - a state [s] has the committed key/value content [st_db s] (the goleveldb
      contract: ascending byte order), the schema and the pending batch;
      [wf_state s] holds in every state reachable from [init_state] ([C19_reachable_wf]);
    - [index_map (st_db s) i] is THE sorted map of the index with prefix byte [i]:
      its (encoded key, value) entries in ascending key order;
    - [ref_select M pfx start skip rev]: the entries of the sorted map [M] under [pfx],
      at or after [start] (strictly after when [skip]) — or at or before it, descending, when [rev];
    - [walk cb 0 l]: call the callback on the entries of [l] until it stops or fails;
    - [trace s h]: the writes that reach the database while history [h] runs from [s]
      (a batch's writes appear where it is committed). *)
From Coq Require Import List NArith ZArith Bool.
Import ListNotations.
Require Import Aurora.Consts Aurora.C18.KV Aurora.C18.Proofs.
Require Import Aurora.C19.Model Aurora.C19.Sorted Aurora.C19.Proofs Aurora.C19.Abs Aurora.C19.State Aurora.C19.Iso Aurora.C19.Conc.
Local Open Scope N_scope.

(** side conditions on the constants of pkg/shed/leveldb/schema.go, re-checked on every run *)
Lemma consts_ok_C19 : (prefix_index_start =? 2) && (prefix_fields =? 1) && (prefix_fields <? prefix_index_start) = true.
Proof. vm_compute. reflexivity. Qed.

(** every reachable state is well formed *)
Theorem C19_reachable_wf : forall h : list op, Forall op_ok h -> wf_state (fst (run init_state h)).
Proof. intros h Hh. exact (run_wf h init_state init_wf Hh). Qed.
Print Assumptions C19_reachable_wf.

(** an index is a sorted map; Put / Delete on index [i] are sorted-map insert /
    remove on ITS map and do not touch the map of any other index *)
Theorem C19_put_delete : forall (db : list kv) (i j : N) (k v : bytes), sorted_db db ->
  sorted_db (index_map db j) /\
  index_map (db_put (ikey i k) v db) j = (if j =? i then db_put k v (index_map db i) else index_map db j) /\
  index_map (db_del (ikey i k) db) j = (if j =? i then db_del k (index_map db i) else index_map db j).
Proof.
  intros db i j k v Hs.
  exact (conj (index_map_sorted db j Hs) (conj (index_map_put db i j k v Hs) (index_map_del db i j k Hs))).
Qed.
Print Assumptions C19_put_delete.

(** lookups, existence checks and bulk fills read the index's map *)
Theorem C19_lookup : forall (s : state) (i : N) (k : bytes) (ks : list bytes),
  let M := index_map (st_db s) i in
  snd (step s (OGet i k)) = match db_get k M with Some v => BVal v | None => BNotFound end /\
  snd (step s (OHas i k)) = BBool (match db_get k M with Some _ => true | None => false end) /\
  snd (step s (OHasMulti i ks)) = BBools (map (fun k => match db_get k M with Some _ => true | None => false end) ks) /\
  shed_fill (st_db s) i ks =
    (fix go ks := match ks with
                  | [] => ([], true)
                  | k :: t => match db_get k M with
                              | None => ([], false)
                              | Some v => let '(vs, ok) := go t in (v :: vs, ok)
                              end
                  end) ks.
Proof.
  intros s i k ks M. cbn [step snd]. unfold M. rewrite <- !index_map_get.
  split; [reflexivity|]. split; [reflexivity|]. split.
  - f_equal. apply map_ext. intros k'. now rewrite index_map_get.
  - apply abs_fill.
Qed.
Print Assumptions C19_lookup.

(** iteration with prefix, start item, skip-start and reverse order *)
Theorem C19_iterate : forall (s : state) (i : N) (start : option bytes) (skip : bool) (pfx : bytes) (rv : bool) (cb : cbfun),
  wf_db (st_db s) -> i < 255 -> iter_dom start skip pfx ->
  shed_iterate (st_db s) i start skip pfx rv cb =
  to_res (walk cb 0 (ref_select (index_map (st_db s) i) pfx start skip rv)).
Proof. intros s i start skip pfx rv cb [Hs Hk] Hi (Hp & Hst & Hsk). now apply abs_iterate. Qed.
Print Assumptions C19_iterate.

(** First / Last under a prefix, Count, CountFrom *)
Theorem C19_first_last_count : forall (s : state) (i : N) (p k : bytes),
  wf_db (st_db s) -> i < 255 -> isbytes p ->
  let M := index_map (st_db s) i in
  shed_first (st_db s) i p = hd_error (filter (pfx_of p) M) /\
  shed_last (st_db s) i p = hd_error (rev (filter (pfx_of p) M)) /\
  shed_count (st_db s) i = Some (N.of_nat (length M)) /\
  shed_count_from (st_db s) i k = Some (N.of_nat (length (filter (kge k) M))).
Proof.
  intros s i p k [Hs Hk] Hi Hp M.
  exact (conj (abs_first _ i Hs Hk Hi p Hp) (conj (abs_last _ i Hs Hk Hi p Hp)
        (conj (abs_count _ i Hs Hk Hi) (abs_count_from _ i Hs Hk Hi k)))).
Qed.
Print Assumptions C19_first_last_count.

(** isolation: a history none of whose database writes carries the byte of index [j]
    (operations on other indexes, on fields, batches of such writes) does not change
    ANY observation of index [j] *)
Theorem C19_isolated : forall (s : state) (h : list op) (r : op) (j : N),
  wf_state s -> Forall op_ok h -> j < 255 -> Forall (outside j) (trace s h) -> reads_index r j ->
  snd (step (fst (run s h)) r) = snd (step s r).
Proof. exact isolated. Qed.
Print Assumptions C19_isolated.

(** after any history the value under a key is the one of the last write that
    reached the database (batched writes count when and where they are committed) *)
Theorem C19_last_write_wins : forall (s : state) (h : list op) (k : bytes),
  wf_state s -> Forall op_ok h ->
  db_get k (st_db (fst (run s h))) =
  match last_write k (trace s h) None with Some w => w | None => db_get k (st_db s) end.
Proof. exact history_last_write. Qed.
Print Assumptions C19_last_write_wins.

(** batched writes take effect only, and entirely, on commit *)
Theorem C19_batch_atomic : forall (s : state) (bs : list op), Forall pure_batch_write bs ->
  let s1 := fst (run (fst (step s OBatchNew)) bs) in
  st_db s1 = st_db s /\
  (forall r, snd (step s1 r) = snd (step s r)) /\
  st_db (fst (step s1 OBCommit)) = st_db (fst (run s (map direct bs))).
Proof. exact batch_atomic. Qed.
Print Assumptions C19_batch_atomic.

(** named fields and vectors return their last written value *)
Theorem C19_fields : forall (s : state) (fk : bytes) (h : list op),
  wf_state s -> isbytes fk -> Forall op_ok h ->
  (forall v, v < u64max -> Forall (fun w => wkey w <> fk) (trace (fst (step s (OFPut fk v))) h) ->
     snd (step (fst (run s (OFPut fk v :: h))) (OFGet fk)) = BU64 v) /\
  (forall x, Forall (fun w => wkey w <> fk) (trace (fst (step s (OSPut fk x))) h) ->
     snd (step (fst (run s (OSPut fk x :: h))) (OSGet fk)) = BVal x) /\
  (forall v, field_get (st_db s) fk = FVal v ->
     snd (step s (OFInc fk)) = BU64 (u64 (v + 1)) /\
     field_get (st_db (fst (step s (OFInc fk)))) fk = FVal (u64 (v + 1)) /\
     snd (step s (OFDec fk)) = BU64 (if v =? 0 then 0 else v - 1) /\
     (v < u64max -> field_get (st_db (fst (step s (OFDec fk)))) fk = FVal (if v =? 0 then 0 else v - 1))).
Proof.
  intros s fk h Hs Hfk Hh. split; [|split].
  - intros v Hv Hn. now apply field_read_back.
  - intros x Hn. now apply string_read_back.
  - intros v Hg. now apply field_inc_dec.
Qed.
Print Assumptions C19_fields.

(** distinct slots of a vector are distinct keys; field keys are outside every index *)
Theorem C19_field_keys : forall (name : bytes) (a b j : N),
  (a < u64max -> b < u64max -> vec_key name a = vec_key name b -> a = b) /\
  (j <> prefix_fields -> outside j (WPut (field_key name) []) /\ outside j (WPut (vec_key name a) [])).
Proof.
  intros name a b j. split; [apply vec_key_inj|]. intros Hj. split.
  - now apply field_outside.
  - unfold outside, vec_key, field_key. cbn [wkey app]. rewrite pfx1. cbn. now apply N.eqb_neq.
Qed.
Print Assumptions C19_field_keys.

(** reopening keeps content and schema: every observation is unchanged, an
    uncommitted batch is gone *)
Theorem C19_reopen : forall (s : state) (r : op),
  st_db (fst (step s OReopen)) = st_db s /\ st_schema (fst (step s OReopen)) = st_schema s /\
  st_batch (fst (step s OReopen)) = [] /\
  snd (step (fst (step s OReopen)) r) = snd (step s r).
Proof.
  intros s r. split; [reflexivity|]. split; [reflexivity|]. split; [reflexivity|].
  now apply obs_db_only.
Qed.
Print Assumptions C19_reopen.

(** index names and prefix bytes: a known name keeps its byte (also after reopen, the
    schema being part of the content), a new name gets a byte no other index has *)
Theorem C19_index_prefixes : forall (name : bytes) (sc : schema),
  seq_schema sc -> NoDup (map fst sc) -> (length sc < 253)%nat ->
  let '(sc', p) := create_index name sc in
  seq_schema sc' /\ NoDup (map fst sc') /\ In (name, p) sc' /\
  (In name (map fst sc) -> sc' = sc) /\
  (~ In name (map fst sc) -> sc' = sc ++ [(name, p)] /\ p = N.of_nat (2 + length sc) /\ ~ In p (map snd sc)).
Proof.
  intros name sc H1 H2 H3. apply create_index_spec; [exact H1 | exact H2 | exact H3 |].
  pose proof consts_ok_C19 as Hc. apply andb_true_iff in Hc as [Hc _]. apply andb_true_iff in Hc as [Hc _].
  now apply N.eqb_eq.
Qed.
Print Assumptions C19_index_prefixes.

(** bulk readers against concurrent batch commits, over ALL schedules and any number of threads:
    a reader running the program of Fill / HasMulti (snapshot, then one lookup per key, other
    threads free to run between any two of its actions) ends with exactly the lookups of ONE
    database state that occurred along the execution — a batch committed meanwhile is seen
    entirely or not at all *)
Theorem C19_bulk_read_atomic : forall (db0 : list kv) (ths : list thread) (r : nat) (ks : list bytes)
    (sched : list nat) (t' : thread),
  nth_error ths r = Some (snapshot_reader ks) ->
  nth_error (snd (run_sched (db0, ths) sched)) r = Some t' -> prog t' = [] ->
  exists S, In S (dbs_along (db0, ths) sched) /\ res t' = map (fun k => db_get k S) ks.
Proof. exact bulk_read_atomic. Qed.
Print Assumptions C19_bulk_read_atomic.

(** the variant that does one db.Get per item instead (no snapshot) does NOT have this property:
    two keys, one batch rewriting both, schedule reader / writer / reader.  (A statement about the
    variant program, not about the code under test.) *)
Theorem C19_fill_per_item_get_refuted :
  exists t', nth_error (snd (run_sched (w_db0, w_ths (per_item_reader w_keys)) w_sched)) 0 = Some t' /\
    prog t' = [] /\
    ~ exists S, In S (dbs_along (w_db0, w_ths (per_item_reader w_keys)) w_sched) /\
                res t' = map (fun k => db_get k S) w_keys.
Proof. exact per_item_reader_refuted. Qed.
Print Assumptions C19_fill_per_item_get_refuted.

(** non-vacuity: a concrete history (two indexes, a batch, a field) reaches a well-formed
    state in which a reverse iteration from an absent start item under a prefix is in the
    domain of [C19_iterate] and returns the reference answer *)
Example C19_hyps_satisfiable :
  let h := [ONewIndex [97]; ONewIndex [98]; OPut 2 [49] [1]; OPut 2 [51] [3]; OPut 2 [53] [5]; OPut 3 [122] [9];
            OBatchNew; OBPut 2 [52; 48] [7]; OFIncB (field_key [102]); OBCommit] in
  let s := fst (run init_state h) in
  index_map (st_db s) 2 = [([49], [1]); ([51], [3]); ([52; 48], [7]); ([53], [5])] /\
  index_map (st_db s) 3 = [([122], [9])] /\
  snd (step s (OIter 2 (Some [52]) false [] true CbNever)) = BIter [([51], [3]); ([49], [1])] IterNil /\
  snd (step s (OLast 2 [])) = BItem [53] [5] /\
  snd (step s (OFGet (field_key [102]))) = BU64 1 /\
  snd (run init_state [ONewIndex [97]; ONewIndex [98]; ONewIndex [97]]) = [BPrefix 2; BPrefix 3; BPrefix 2].
Proof. vm_compute. repeat split; reflexivity. Qed.
