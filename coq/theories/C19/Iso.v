(** C19 — isolation of indexes and fields over histories; fields read back. *)
From Coq Require Import List NArith ZArith Bool Lia Arith Sorting.Sorted.
Import ListNotations.
Require Import Aurora.C18.KV Aurora.C18.Proofs Aurora.C19.Model Aurora.C19.Sorted Aurora.C19.Proofs Aurora.C19.Abs Aurora.C19.State.
Local Open Scope N_scope.

(** a read of index [j] whose arguments are in the domain of the reference
    (byte strings; a start item lies under the prefix; skip-start only with a start item) *)
Definition iter_dom (start : option bytes) (skip : bool) (pfx : bytes) : Prop :=
  isbytes pfx /\ (forall s, start = Some s -> has_prefix pfx s = true /\ isbytes s) /\ (start = None -> skip = false).

Definition reads_index (o : op) (j : N) : Prop :=
  match o with
  | OGet i _ | OHas i _ | OHasMulti i _ | OFill i _ | OCount i | OCountFrom i _ => i = j
  | OFirst i p | OLast i p => i = j /\ isbytes p
  | OIter i start skip pfx _ _ => i = j /\ iter_dom start skip pfx
  | _ => False
  end.

(** every read of index [j] is a function of the index's own sorted map *)
Theorem read_fn_of_index_map s s' o j : wf_db (st_db s) -> wf_db (st_db s') -> j < 255 ->
  reads_index o j -> index_map (st_db s) j = index_map (st_db s') j ->
  snd (step s o) = snd (step s' o).
Proof.
  intros [Hs Hk] [Hs' Hk'] Hj Hr Hm.
  destruct o; cbn [reads_index] in Hr; try contradiction; cbn [step snd].
  - subst i. now rewrite !abs_get, Hm.
  - subst i. now rewrite !abs_get, Hm.
  - subst i. f_equal. apply map_ext. intros k. now rewrite !abs_get, Hm.
  - subst i. rewrite !abs_fill, Hm. reflexivity.
  - destruct Hr as [-> (Hp & Hst & Hsk)]. rewrite !abs_iterate by assumption. now rewrite Hm.
  - destruct Hr as [-> Hp]. rewrite !abs_first by assumption. now rewrite Hm.
  - destruct Hr as [-> Hp]. rewrite !abs_last by assumption. now rewrite Hm.
  - subst i. rewrite !abs_count by assumption. now rewrite Hm.
  - subst i. rewrite !abs_count_from by assumption. now rewrite Hm.
Qed.

(** a write whose key does not carry the index byte [j] *)
Definition outside (j : N) (w : bwrite) : Prop := pfx_of [j] (wkey w, @nil N) = false.

Lemma commit_index_map j : forall ws db, wf_db db -> wf_writes ws -> Forall (outside j) ws ->
  index_map (commit db ws) j = index_map db j.
Proof.
  induction ws as [|w t IH]; intros db Hd Hw Ho; [reflexivity|].
  inversion Hw as [|? ? Hw1 Hw2]; inversion Ho as [|? ? Ho1 Ho2]; subst.
  cbn [commit fold_left]. fold (commit (apply_write db w) t).
  rewrite IH; [| now apply apply_write_wf | assumption | assumption].
  destruct Hd as [Hs _]. destruct w as [k v|k]; cbn [apply_write]; unfold outside in Ho1; cbn [wkey] in Ho1.
  - apply index_map_put_other; [exact Hs|]. exact Ho1.
  - apply index_map_del_other; [exact Hs|]. exact Ho1.
Qed.

(** whatever a history does to other indexes, to fields, through batches: the
    observations of index [j] do not change *)
Theorem isolated s h r j : wf_state s -> Forall op_ok h -> j < 255 ->
  Forall (outside j) (trace s h) -> reads_index r j ->
  snd (step (fst (run s h)) r) = snd (step s r).
Proof.
  intros Hs Ho Hj Hout Hr.
  apply (read_fn_of_index_map _ _ r j); auto.
  - apply (run_wf h s Hs Ho).
  - apply Hs.
  - rewrite run_db. apply commit_index_map; [apply Hs | now apply trace_wf | exact Hout].
Qed.

(** the writes of an operation on index [i], on a field, … are outside index [j <> i] *)
Lemma outside_ikey i j k : i <> j -> pfx_of [j] (ikey i k, @nil N) = false.
Proof. intros H. rewrite pfx1. cbn. apply N.eqb_neq. congruence. Qed.

(** * keys never written *)

Lemma last_write_none k : forall ws, Forall (fun w => wkey w <> k) ws -> last_write k ws None = None.
Proof.
  induction ws as [|w t IH]; intros H; [reflexivity|]. inversion H as [|? ? H1 H2]; subst.
  destruct w as [k' v|k']; cbn [last_write wkey] in *;
    (destruct (beq k k') eqn:E; [apply beq_eq in E; congruence | now apply IH]).
Qed.

Lemma last_write_app k a b : last_write k (a ++ b) None =
  match last_write k b None with Some w => Some w | None => last_write k a None end.
Proof.
  revert b. induction a as [|w t IH] using rev_ind; intros b; [cbn; now destruct (last_write k b None)|].
  rewrite <- app_assoc. cbn [app]. rewrite IH.
  destruct w as [k' v|k']; cbn [last_write]; rewrite (last_write_acc k b);
    destruct (last_write k b None); try reflexivity; rewrite IH; cbn [last_write];
    destruct (beq k k'); reflexivity.
Qed.

(** * fields: the value written is the value read, until the key is written again *)

Definition u64max : N := 18446744073709551616.

Theorem field_read_back s fk v h : wf_state s -> isbytes fk -> Forall op_ok h -> v < u64max ->
  Forall (fun w => wkey w <> fk) (trace (fst (step s (OFPut fk v))) h) ->
  snd (step (fst (run s (OFPut fk v :: h))) (OFGet fk)) = BU64 v.
Proof.
  intros Hs Hfk Ho Hv Hn. cbn [step snd]. unfold fobs, field_get.
  rewrite (history_last_write s (OFPut fk v :: h) fk Hs) by (constructor; [exact Hfk | exact Ho]).
  cbn [trace db_writes]. rewrite last_write_app, (last_write_none fk _ Hn). cbn [last_write]. rewrite beq_refl.
  now rewrite dec64_be64.
Qed.

Theorem string_read_back s fk x h : wf_state s -> isbytes fk -> Forall op_ok h ->
  Forall (fun w => wkey w <> fk) (trace (fst (step s (OSPut fk x))) h) ->
  snd (step (fst (run s (OSPut fk x :: h))) (OSGet fk)) = BVal x.
Proof.
  intros Hs Hfk Ho Hn. cbn [step snd].
  rewrite (history_last_write s (OSPut fk x :: h) fk Hs) by (constructor; [exact Hfk | exact Ho]).
  cbn [trace db_writes]. rewrite last_write_app, (last_write_none fk _ Hn). cbn [last_write]. now rewrite beq_refl.
Qed.

(** Inc / Dec: uint64 successor with wrap-around, predecessor with floor 0; the result is stored *)
Theorem field_inc_dec s fk v : field_get (st_db s) fk = FVal v ->
  snd (step s (OFInc fk)) = BU64 (u64 (v + 1)) /\
  field_get (st_db (fst (step s (OFInc fk)))) fk = FVal (u64 (v + 1)) /\
  snd (step s (OFDec fk)) = BU64 (if v =? 0 then 0 else v - 1) /\
  (v < u64max -> field_get (st_db (fst (step s (OFDec fk)))) fk = FVal (if v =? 0 then 0 else v - 1)).
Proof.
  intros Hg. cbn [step]. rewrite Hg. cbn [fst snd st_db with_db]. unfold inc_val, dec_val.
  split; [reflexivity|]. split; [apply field_get_put; apply u64_lt|]. split; [reflexivity|].
  intros Hv. apply field_get_put. destruct (v =? 0); unfold u64max in *; lia.
Qed.

(** an absent field reads as zero (Go zero value), an absent string field as "" *)
Lemma field_absent s fk : db_get fk (st_db s) = None ->
  snd (step s (OFGet fk)) = BU64 0 /\ snd (step s (OSGet fk)) = BVal [].
Proof. intros H. cbn [step snd]. unfold field_get. now rewrite H. Qed.

(** distinct slots of a vector have distinct keys *)
Lemma be64_inj a b : a < u64max -> b < u64max -> be64 a = be64 b -> a = b.
Proof.
  intros Ha Hb E. pose proof (dec64_be64 a Ha) as H1. pose proof (dec64_be64 b Hb) as H2.
  rewrite E in H1. congruence.
Qed.
Lemma vec_key_inj name a b : a < u64max -> b < u64max -> vec_key name a = vec_key name b -> a = b.
Proof. intros Ha Hb E. unfold vec_key in E. apply app_inv_head in E. now apply be64_inj. Qed.

(** field keys are outside every index [j] other than the field prefix *)
Lemma field_outside name j : j <> prefix_fields -> pfx_of [j] (field_key name, @nil N) = false.
Proof. intros H. rewrite pfx1. cbn. now apply N.eqb_neq. Qed.
