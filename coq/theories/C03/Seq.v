(** C03 — the caller alone (Write*, Hash): which sections are started, for every split of the writes. *)
From Coq Require Import List NArith Arith Bool Lia.
Import ListNotations.
Require Import Aurora.C03.Ref Aurora.C03.Model Aurora.C03.Util Aurora.C03.Inv Aurora.C03.Edges
               Aurora.C03.NodeStep Aurora.C03.PresTok Aurora.C03.PresUser Aurora.C03.Final.

Section Seq.
Variable H HF : list N -> list N.
Variable D : nat.

Lemma user_step_frame s :
  live (step H HF D s CUser) = live s /\ hist (step H HF D s CUser) = hist s /\
  todo (step H HF D s CUser) = tl (todo s).
Proof.
  unfold step. destruct (todo s) as [|[b|] r] eqn:Et; [now rewrite Et| |].
  - unfold write_op, set_todo. cbn. auto.
  - unfold hash_op, set_todo. cbn [size]. destruct (size s =? 0); cbn; auto.
Qed.

Lemma user_run_frame n : forall s,
  live (run H HF D s (repeat CUser n)) = live s /\ hist (run H HF D s (repeat CUser n)) = hist s /\
  todo (run H HF D s (repeat CUser n)) = skipn n (todo s).
Proof.
  induction n as [|n IH]; intros s; [unfold run; cbn [repeat fold_left skipn]; auto|].
  cbn [repeat run fold_left]. destruct (IH (step H HF D s CUser)) as (A & B & C).
  destruct (user_step_frame s) as (A' & B' & C'). unfold run in *. rewrite A, B, C, A', B', C'.
  repeat split. destruct (todo s); [now rewrite !skipn_nil | reflexivity].
Qed.

Theorem seq_sections buf0 ns0 hdr ws : tree_ok D buf0 ns0 ->
  let s := run H HF D (init buf0 ns0 hdr ws) (repeat CUser (length ws + 1)) in
  let vb := if negb (fsize D ws =? 0) then Nat.min (fsize D ws + 64) (maxsize D) else 0 in
  todo s = [] /\ live s = [] /\ size s = fsize D ws /\ pos s = pf D ws /\
  (forall j, Sc j false s = Nat.b2n (j <? pf D ws)) /\
  (forall j, Sc j true s = Nat.b2n (negb (fsize D ws =? 0) && (j =? pf D ws))) /\
  firstn vb (buf s) = firstn vb (pad (maxsize D) (concat ws)).
Proof.
  intros Hok s vb.
  assert (I : Inv H HF D ws hdr s) by (apply (run_inv H HF D ws hdr), init_inv, Hok).
  destruct (user_run_frame (length ws + 1) (init buf0 ns0 hdr ws)) as (A & B & C). fold s in A, B, C.
  cbn [init live hist todo] in A, B, C.
  assert (Ht : todo s = []).
  { rewrite C. apply skipn_all2. rewrite app_length, map_length. cbn [length]. lia. }
  destruct (I_user _ _ _ _ _ _ I) as (done & rest & Hws & Htodo & Hsize & Hposs & Hlen & _ & Hvb). cbv zeta in Hvb.
  destruct Htodo as [Ht'|(_ & Hr)]; [rewrite Ht in Ht'; destruct rest; discriminate|].
  subst rest. rewrite app_nil_r in Hws. subst done.
  assert (Hfs : size s = fsize D ws) by exact Hsize.
  assert (Hpf : pos s = pf D ws) by (rewrite Hposs, Hfs; reflexivity).
  assert (Hh : hashed s = true) by (unfold hashed; now rewrite Ht).
  destruct (I_leaf _ _ _ _ _ _ I) as (L1 & L2 & _).
  assert (E0 : forall k l j, Ec k l j s = 0) by (intros; unfold Ec; now rewrite A, B).
  repeat split; auto.
  - intros j. specialize (L1 j). rewrite E0, Hpf in L1. lia.
  - intros j. specialize (L2 j). rewrite E0, Hh, Hfs in L2. cbn [andb] in L2. lia.
  - rewrite Hh, Hfs in Hvb. cbn [andb] in Hvb. subst vb. destruct (negb (fsize D ws =? 0)); [exact Hvb | reflexivity].
Qed.

End Seq.
