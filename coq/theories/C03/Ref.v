(** C03 — reference definition of the BMT hash (pkg/bmt/reference/reference.go)
    and the node-indexed view of it used by the proofs.

    Everything is parametric in the base hash [H] (a Section variable); no
    property of [H] is assumed in this file.  Sizes: a segment is 32 bytes
    (the base hash size, [hasher().Size()]), a section is two segments. *)
From Coq Require Import List NArith Arith Lia Bool.
Import ListNotations.

Definition SEG : nat := 32.
Definition SEC : nat := 64.

Definition zeros (n : nat) : list N := repeat 0%N n.
(** [RefHasher.Hash]: [d := make([]byte, maxDataLength); copy(d, data[:min])] *)
Definition pad (n : nat) (d : list N) : list N := firstn n (d ++ zeros n).
(** the j-th 64-byte section of a buffer: [buffer[64j : 64j+64]] *)
Definition section (data : list N) (j : nat) : list N := firstn SEC (skipn (SEC * j) data).

Lemma skipn_skipn' {A} : forall (x y : nat) (l : list A), skipn x (skipn y l) = skipn (y + x) l.
Proof.
  intros x y; revert x; induction y as [|y IH]; intros x l; [reflexivity|].
  destruct l as [|a l]; cbn [skipn plus]; [now rewrite skipn_nil | apply IH].
Qed.

Section Ref.
Variable H : list N -> list N.

(** [RefHasher.hash(data, length)] with [length = 64 * 2^d] *)
Fixpoint bmt_root (d : nat) (data : list N) : list N :=
  match d with
  | O => H data
  | S d' => let half := SEC * 2 ^ d' in
            H (bmt_root d' (firstn half data) ++ bmt_root d' (skipn half data))
  end.

(** value of the node [j] on level [l] (level 0 = hash of a section) *)
Fixpoint val (data : list N) (l j : nat) : list N :=
  match l with
  | O => H (section data j)
  | S l' => H (val data l' (2 * j) ++ val data l' (2 * j + 1))
  end.

(** the table [zerohashes] of [bmt.NewConf]: [zh 0 = 32 zero bytes],
    [zh (k+1) = H (zh k ++ zh k)] *)
Fixpoint zh (k : nat) : list N :=
  match k with O => zeros SEG | S k' => H (zh k' ++ zh k') end.

Variable HF : list N -> list N.
(** the chunk hash for trees of [2^D] sections ([2^(D+1)] segments):
    final hash over span ++ root; in the code the final hash is always
    Keccak ([sha3hash]) whatever base hasher the tree was configured with,
    hence a second function [HF]. *)
Definition bmt_hash (D : nat) (span data : list N) : list N :=
  HF (span ++ bmt_root D (pad (SEC * 2 ^ D) data)).

(** ---- lemmas ---- *)

Lemma pad_length n d : length (pad n d) = n.
Proof.
  unfold pad, zeros. rewrite firstn_length, app_length, repeat_length. lia.
Qed.

Lemma bmt_root_val_gen : forall d data j,
  bmt_root d (firstn (SEC * 2 ^ d) (skipn (SEC * 2 ^ d * j) data)) = val data d j.
Proof.
  induction d as [|d IH]; intros data j.
  - cbn [bmt_root val]. unfold section. now rewrite Nat.pow_0_r, !Nat.mul_1_r.
  - cbn [bmt_root val]. pose proof (Nat.pow_succ_r' 2 d) as P2. f_equal. f_equal.
    + rewrite firstn_firstn.
      replace (Nat.min (SEC * 2 ^ d) (SEC * 2 ^ S d)) with (SEC * 2 ^ d) by lia.
      replace (SEC * 2 ^ S d * j) with (SEC * 2 ^ d * (2 * j)) by lia.
      apply IH.
    + rewrite skipn_firstn_comm, skipn_skipn'.
      replace (SEC * 2 ^ S d - SEC * 2 ^ d) with (SEC * 2 ^ d) by lia.
      replace (SEC * 2 ^ S d * j + SEC * 2 ^ d) with (SEC * 2 ^ d * (2 * j + 1)) by lia.
      apply IH.
Qed.

Lemma bmt_root_val : forall d data, length data = SEC * 2 ^ d -> bmt_root d data = val data d 0.
Proof.
  intros d data Hl. rewrite <- bmt_root_val_gen. rewrite Nat.mul_0_r. cbn [skipn].
  now rewrite <- Hl, firstn_all.
Qed.

Lemma val_ext : forall l j d1 d2,
  (forall k, section d1 k = section d2 k) -> val d1 l j = val d2 l j.
Proof.
  induction l as [|l IH]; intros j d1 d2 E; cbn [val].
  - now rewrite E.
  - now rewrite (IH (2*j) d1 d2 E), (IH (2*j+1) d1 d2 E).
Qed.

End Ref.
