(** C03 — the caller's steps (Hasher.Write, Hasher.Hash) and the first half of processSection
    (hashing a section out of the shared buffer) preserve the invariant. *)
From Coq Require Import List NArith Arith Bool Lia.
Import ListNotations.
Require Import Aurora.C03.Ref Aurora.C03.Model Aurora.C03.Util Aurora.C03.Inv Aurora.C03.Edges Aurora.C03.NodeStep Aurora.C03.PresTok.

Lemma firstn_add {A} (l : list A) n m : firstn (n + m) l = firstn n l ++ firstn m (skipn n l).
Proof.
  revert l; induction n as [|n IH]; intros l; [reflexivity|].
  destruct l as [|x l]; cbn [Nat.add firstn skipn app]; [now rewrite firstn_nil | now rewrite IH].
Qed.

Lemma b2n_ltb_cases x y : (x < y /\ b2n (x <? y) = 1) \/ (y <= x /\ b2n (x <? y) = 0).
Proof. destruct (Nat.ltb_spec x y); cbn [b2n]; auto. Qed.
Lemma b2n_range_cases from j n :
  (from <= j < from + n /\ b2n ((from <=? j) && (j <? from + n)) = 1) \/
  ((j < from \/ from + n <= j) /\ b2n ((from <=? j) && (j <? from + n)) = 0).
Proof. destruct (Nat.leb_spec from j), (Nat.ltb_spec j (from + n)); cbn [andb b2n]; lia. Qed.

Section PresUser.
Variable H HF : list N -> list N.
Variable D : nat.
Variable ws : list (list N).
Variable hdr : list N.
Notation Inv := (Inv H HF D ws hdr).
Notation tok_ok := (tok_ok H D ws).
Notation fidx := (fidx D ws).
Notation vl := (vl H D ws).
Notation msz := (msz D).
Notation pdata := (pdata D ws).
Notation alld := (alld ws).
Notation fsize := (fsize D ws).
Notation pf := (pf D ws).
Notation posof := (posof D).

Lemma msz_pos : 64 <= msz.
Proof. rewrite msz_eq. pose proof (pow2_pos D). unfold SEC. lia. Qed.
Lemma msz_div : msz / SEC = 2 ^ D.
Proof. rewrite msz_eq, Nat.mul_comm, Nat.div_mul; [reflexivity | unfold SEC; lia]. Qed.

Lemma pdata_prefix n : n <= fsize -> firstn n pdata = firstn n alld.
Proof.
  intros Hn. unfold Inv.pdata, pad, Inv.fsize in *.
  rewrite firstn_firstn, Nat.min_l by lia. rewrite firstn_app.
  replace (n - length alld) with 0 by lia. cbn [firstn]. now rewrite app_nil_r.
Qed.
Lemma pdata_tail : skipn fsize pdata = zeros (msz - fsize).
Proof.
  unfold Inv.pdata, pad, Inv.fsize. destruct (Nat.le_gt_cases (length alld) msz) as [Hle|Hgt].
  - rewrite Nat.min_l by lia. rewrite skipn_firstn_comm, skipn_app, skipn_all, Nat.sub_diag. cbn [app skipn].
    unfold zeros. rewrite firstn_repeat. f_equal. lia.
  - rewrite Nat.min_r by lia. rewrite skipn_firstn_comm, Nat.sub_diag. reflexivity.
Qed.

Lemma posof_bound sz : sz <= msz -> SEC * posof sz <= sz /\ (sz = msz -> SEC * (posof sz + 1) = msz) /\
                                     (sz < msz -> sz < SEC * (posof sz + 1)).
Proof.
  intros Hle. unfold Inv.posof. pose proof (pow2_pos D) as P. pose proof msz_eq D as M.
  destruct (Nat.eqb_spec sz msz) as [E|E].
  - subst sz. repeat split; try lia. unfold SEC in *. nia.
  - pose proof (Nat.mul_div_le sz SEC). pose proof (Nat.mul_succ_div_gt sz SEC). unfold SEC in *.
    repeat split; try lia.
Qed.

(** ---- processSection reads its section ---- *)
Theorem step_start_inv s k : Inv s -> Inv (step H HF D s (CStart k)).
Proof.
  intros I. unfold step. destruct (pick k (starts s)) as [[[j fin] r]|] eqn:Hp; [|exact I].
  destruct (I_leaf _ _ _ _ _ _ I) as (L1 & L2 & L3).
  pose proof (I_user _ _ _ _ _ _ I) as U.
  pose proof (pos_le_pf D ws hdr s U) as Hpos.
  assert (HS : forall j' fin', Sc j' fin' s = b2n (son j' fin' (j, fin)) + cntf (son j' fin') r).
  { intros. unfold Sc. now rewrite (cntf_pick _ _ _ _ _ Hp). }
  set (t0 := start_tok H (buf s) j fin).
  assert (Hl0 : tlev t0 = 0 /\ tidx t0 = j /\ tkind t0 = if fin then KS else KR).
  { unfold t0, start_tok. now destruct fin. }
  destruct Hl0 as (T1 & T2 & T3).
  assert (HE : forall k' l' j', Ec k' l' j' (mkS (buf s) (size s) (pos s) (span s) (ns s) (todo s) r (t0 :: live s) (hist s) (results s) (out s))
                               = b2n (on k' l' j' t0) + Ec k' l' j' s).
  { intros. unfold Ec. cbn [live hist]. rewrite cntf_cons. destruct (on k' l' j' t0); cbn [b2n]; lia. }
  assert (Hsz : size s <> 0).
  { intros Hz. destruct (I_empty _ _ _ _ _ _ I Hz) as (Hst & _). rewrite Hst in Hp. destruct k; discriminate. }
  (* the section read is the section of the padded data *)
  assert (Hsec : (fin = false -> j < pos s) /\ (fin = true -> j = pf /\ hashed s = true) ).
  { split; intros ->.
    - specialize (L1 j). rewrite HS in L1. unfold son in L1. cbn [fst snd] in L1. rewrite Nat.eqb_refl in L1. cbn [Bool.eqb andb b2n] in L1.
      destruct (j <? pos s) eqn:E; [now apply Nat.ltb_lt | ]. cbn [b2n] in L1; lia.
    - specialize (L2 j). rewrite HS in L2. unfold son in L2. cbn [fst snd] in L2. rewrite Nat.eqb_refl in L2. cbn [Bool.eqb andb b2n] in L2.
      destruct (hashed s) eqn:Eh; destruct (size s =? 0) eqn:Ez; destruct (j =? pf) eqn:Ej;
        cbn [negb andb b2n] in L2; try lia. split; [now apply Nat.eqb_eq | reflexivity]. }
  assert (Hval : H (section (buf s) j) = vl 0 j).
  { unfold Inv.vl. cbn [val]. f_equal.
    destruct U as (done & rest & Hws & Htodo & Hsize & Hposs & Hlen & _ & Hvb). cbv zeta in Hvb.
    assert (Hsm : size s <= msz) by lia.
    destruct (posof_bound (size s) Hsm) as (P1 & P2 & P3). rewrite <- Hposs in *.
    eapply section_prefix; [exact Hvb|].
    destruct Hsec as (S1 & S2). destruct fin.
    - destruct (S2 eq_refl) as (-> & Hh). rewrite Hh. destruct (Nat.eqb_spec (size s) 0); [contradiction|]. cbn [negb andb].
      assert (Hfs : size s = fsize).
      { unfold hashed in Hh. destruct Htodo as [Ht|(Ht & Hr)]; [rewrite Ht in Hh; destruct rest; discriminate|].
        subst rest. rewrite app_nil_r in Hws. subst done. exact Hsize. }
      assert (pos s = pf) as Epf by (rewrite Hposs, Hfs; reflexivity).
      rewrite <- Epf. pose proof (posof_lt D (size s) Hsm) as PL. rewrite <- Hposs in PL. pose proof (msz_eq D) as ME.
      unfold SEC in *. destruct (Nat.eq_dec (size s) msz); [specialize (P2 e)|]; lia.
    - specialize (S1 eq_refl).
      assert (SEC * (j + 1) <= size s) by (unfold SEC in *; nia).
      destruct (hashed s && negb (size s =? 0)); lia. }
  constructor.
  - exact U.
  - assert (K1 : forall j', son j' false (j, fin) = on KR 0 j' t0).
    { intros j'. unfold son, on. rewrite T1, T2, T3. cbn [fst snd].
      destruct fin; cbn [k3_eqb Bool.eqb Nat.eqb andb]; destruct (j =? j'); reflexivity. }
    assert (K2 : forall j', son j' true (j, fin) = on KS 0 j' t0).
    { intros j'. unfold son, on. rewrite T1, T2, T3. cbn [fst snd].
      destruct fin; cbn [k3_eqb Bool.eqb Nat.eqb andb]; destruct (j =? j'); reflexivity. }
    unfold leaf_inv. repeat split; intros j'; rewrite HE; unfold Sc; cbn [starts pos size todo];
      [specialize (L1 j'); rewrite HS, K1 in L1 | specialize (L2 j'); rewrite HS, K2 in L2 | specialize (L3 j')].
    + lia.
    + change (hashed (mkS _ _ _ _ _ _ _ _ _ _ _)) with (hashed s). lia.
    + rewrite on_other; [cbn [b2n]; lia|]. left. rewrite T3. destruct fin; discriminate.
  - intros Hz. contradiction.
  - cbn [live hist]. constructor; [|exact (I_toks _ _ _ _ _ _ I)].
    unfold t0, start_tok. destruct Hsec as (S1 & S2). destruct fin.
    + destruct (S2 eq_refl) as (Ej & _). unfold Inv.tok_ok. repeat split; try lia.
      * now rewrite fidx_0.
      * intros v Ev. inversion Ev. exact Hval.
    + specialize (S1 eq_refl). unfold Inv.tok_ok. repeat split; try lia.
      * rewrite fidx_0. lia.
      * exact Hval.
  - intros l2 i2 Hl2. unfold Inv.node_inv. cbn [ns].
    eapply node_rel_ext; [| | |exact (I_node _ _ _ _ _ _ I l2 i2 Hl2)]; intros k'; try reflexivity.
    rewrite HE, on_other; [reflexivity|]. right. left. lia.
  - exact (I_res _ _ _ _ _ _ I).
Qed.

(** ---- Hasher.Write ---- *)
Lemma hashed_false_todo s rest : todo s = map UWrite rest ++ [UHash] -> hashed s = false.
Proof. intros E. unfold hashed. rewrite E. now destruct rest. Qed.

Lemma Sc_app_seq s j from n : 
  cntf (son j false) (starts s ++ map (fun i => (i, false)) (seq from n)) =
  Sc j false s + b2n ((from <=? j) && (j <? from + n)).
Proof.
  rewrite cntf_app. unfold Sc. f_equal. rewrite (cntf_seq_map j); [reflexivity|].
  intros i. unfold son. cbn [fst snd Bool.eqb]. now rewrite andb_true_r.
Qed.
Lemma Sc_app_seq_true s j from n : 
  cntf (son j true) (starts s ++ map (fun i => (i, false)) (seq from n)) = Sc j true s.
Proof.
  rewrite cntf_app. unfold Sc. rewrite (cntf_zero_forall (son j true) (map _ _)); [apply Nat.add_0_r|].
  intros x Hx. apply in_map_iff in Hx as (i & <- & _). unfold son. cbn [fst snd Bool.eqb]. apply andb_false_r.
Qed.

Lemma write_inv s b rest0 : Inv s -> todo s = UWrite b :: rest0 -> Inv (write_op D (set_todo s rest0) b).
Proof.
  intros I Et.
  destruct (I_user _ _ _ _ _ _ I) as (done & rest & Hws & Htodo & Hsize & Hposs & Hlen & Hspan & Hvb). cbv zeta in Hvb.
  destruct Htodo as [Ht|(Ht & _)]; [|rewrite Ht in Et; discriminate].
  rewrite Et in Ht. destruct rest as [|b' rest']; [discriminate|]. cbn [map app] in Ht. inversion Ht; subst b' rest0. clear Ht.
  pose proof (hashed_false_todo s (b :: rest') Et) as Hh. rewrite Hh in Hvb. cbn [andb] in Hvb.
  pose proof msz_pos as MP. pose proof msz_div as MD. pose proof (msz_eq D) as ME.
  destruct (I_leaf _ _ _ _ _ _ I) as (L1 & L2 & L3).
  set (l := Nat.min (length b) (msz - size s)).
  assert (Hsm : size s <= msz) by lia.
  assert (Hsize' : size s + l = Nat.min (length (concat (done ++ [b]))) msz).
  { rewrite concat_app, app_length. cbn [concat]. rewrite app_nil_r. unfold l. lia. }
  assert (Hsm' : size s + l <= msz) by lia.
  assert (Hpos' : (if l =? msz - size s then (size s + l) / SEC - 1 else (size s + l) / SEC) = posof (size s + l)).
  { unfold Inv.posof. destruct (Nat.eqb_spec l (msz - size s)), (Nat.eqb_spec (size s + l) msz); try lia.
    rewrite e0, MD. reflexivity. }
  assert (Hmono : pos s <= posof (size s + l)) by (rewrite Hposs; apply posof_mono; lia).
  assert (Hfrom : size s / SEC = pos s \/ (size s = msz /\ posof (size s + l) = pos s)).
  { rewrite Hposs. unfold Inv.posof at 1. destruct (Nat.eqb_spec (size s) msz) as [E|E]; [right|left; reflexivity].
    split; [exact E|]. f_equal. unfold l. lia. }
  unfold write_op, set_todo. cbn [buf size pos span ns todo starts live hist results out]. fold msz. fold l. rewrite Hpos'.
  constructor.
  - (* user *)
    exists (done ++ [b]), rest'. cbn [todo size pos buf span].
    split; [now rewrite <- app_assoc|]. split; [now left|]. split; [exact Hsize'|]. split; [reflexivity|].
    split; [rewrite copy_at_length; lia|]. split; [exact Hspan|].
    assert (Hh' : hashed (mkS (copy_at (buf s) (size s) b) (size s + l) (posof (size s + l)) (span s) (ns s)
                            (map UWrite rest' ++ [UHash])
                            (starts s ++ map (fun i => (i, false)) (seq (size s / SEC) (posof (size s + l) - size s / SEC)))
                            (live s) (hist s) (results s) (out s)) = false) by (unfold hashed; cbn [todo]; now destruct rest').
    rewrite Hh'. cbn [andb].
    assert (Hfs : size s + l <= fsize).
    { unfold Inv.fsize, Inv.alld. rewrite Hws, concat_app, app_length. cbn [concat]. rewrite app_length. unfold l. lia. }
    rewrite pdata_prefix by exact Hfs.
    pose proof (copy_at_prefix (buf s) (size s) b) as CP. cbv zeta in CP. rewrite Hlen in CP. fold l in CP. rewrite CP by lia.
    rewrite Hvb, pdata_prefix by lia. rewrite firstn_add. f_equal.
    destruct (Nat.eq_dec l 0) as [E0|E0]; [now rewrite E0|].
    assert (Hsc : size s = length (concat done)) by (unfold l in E0; lia).
    unfold Inv.alld. rewrite Hws, concat_app. cbn [concat]. rewrite Hsc, skipn_app, skipn_all, Nat.sub_diag. cbn [app skipn].
    rewrite firstn_app. replace (l - length b) with 0 by (unfold l; lia). cbn [firstn]. now rewrite app_nil_r.
  - (* leaf *)
    unfold leaf_inv, Sc, Ec. cbn [starts live hist pos size todo].
    repeat split; intros j.
    + rewrite Sc_app_seq. specialize (L1 j). unfold Ec in L1.
      destruct Hfrom as [Hf|(Hf1 & Hf2)].
      * rewrite Hf. pose proof (b2n_range_cases (pos s) j (posof (size s + l) - pos s)).
        pose proof (b2n_ltb_cases j (pos s)). pose proof (b2n_ltb_cases j (posof (size s + l))). lia.
      * pose proof (posof_lt D (size s) Hsm) as PL. rewrite <- Hposs in PL.
        rewrite Hf2. rewrite Hf1, MD. replace (pos s - 2 ^ D) with 0 by lia.
        pose proof (b2n_range_cases (2 ^ D) j 0). lia.
    + rewrite Sc_app_seq_true. specialize (L2 j). unfold Ec in L2. rewrite Hh in L2. cbn [andb] in L2.
      assert (Hh2 : hashed (mkS (copy_at (buf s) (size s) b) (size s + l) (posof (size s + l)) (span s) (ns s)
                            (map UWrite rest' ++ [UHash])
                            (starts s ++ map (fun i => (i, false)) (seq (size s / SEC) (posof (size s + l) - size s / SEC)))
                            (live s) (hist s) (results s) (out s)) = false) by (unfold hashed; cbn [todo]; now destruct rest').
      rewrite Hh2. cbn [andb]. exact L2.
    + exact (L3 j).
  - (* empty *)
    intros Hz. cbn [size] in Hz. assert (Hz0 : size s = 0) by lia. assert (Hl0 : l = 0) by lia.
    destruct (I_empty _ _ _ _ _ _ I Hz0) as (E1 & E2 & E3 & E4). cbn [starts live hist results].
    rewrite E1, Hz0, Hl0. unfold Inv.posof. destruct (Nat.eqb_spec (0 + 0) msz); [lia|]. cbn. auto.
  - exact (I_toks _ _ _ _ _ _ I).
  - intros l2 i2 Hl2. exact (I_node _ _ _ _ _ _ I l2 i2 Hl2).
  - destruct (I_res _ _ _ _ _ _ I) as (R1 & R2 & R3). unfold res_inv. cbn [results out span size hist].
    split; [exact R1|]. split; [exact R2|].
    assert (Hh2 : hashed (mkS (copy_at (buf s) (size s) b) (size s + l) (posof (size s + l)) (span s) (ns s)
                            (map UWrite rest' ++ [UHash])
                            (starts s ++ map (fun i => (i, false)) (seq (size s / SEC) (posof (size s + l) - size s / SEC)))
                            (live s) (hist s) (results s) (out s)) = false) by (unfold hashed; cbn [todo]; now destruct rest').
    rewrite Hh2. cbn [andb]. rewrite R3, Hh. reflexivity.
Qed.

(** ---- Hasher.Hash up to the receive ---- *)
Lemma hash_inv s rest0 : Inv s -> todo s = UHash :: rest0 -> Inv (hash_op H HF D (set_todo s rest0)).
Proof.
  intros I Et.
  destruct (I_user _ _ _ _ _ _ I) as (done & rest & Hws & Htodo & Hsize & Hposs & Hlen & Hspan & Hvb). cbv zeta in Hvb.
  destruct Htodo as [Ht|(Ht & _)]; [|rewrite Ht in Et; discriminate].
  pose proof (hashed_false_todo s rest Ht) as Hh. rewrite Hh in Hvb. cbn [andb] in Hvb.
  rewrite Et in Ht. destruct rest as [|b' rest']; [|discriminate]. cbn [map app] in Ht. inversion Ht; subst rest0. clear Ht.
  rewrite app_nil_r in Hws. subst done.
  assert (Hfs : size s = fsize) by exact Hsize.
  assert (Hpf : pos s = pf) by (rewrite Hposs, Hfs; reflexivity).
  pose proof msz_pos as MP. pose proof (msz_eq D) as ME.
  destruct (I_leaf _ _ _ _ _ _ I) as (L1 & L2 & L3).
  destruct (I_res _ _ _ _ _ _ I) as (R1 & R2 & R3).
  unfold hash_op, set_todo. cbn [buf size pos span ns todo starts live hist results out].
  destruct (Nat.eqb_spec (size s) 0) as [Ez|Ez].
  - (* empty input: zerohashes[depth] *)
    destruct (I_empty _ _ _ _ _ _ I Ez) as (E1 & E2 & E3 & E4).
    constructor.
    + exists ws, []. cbn [todo size pos buf span hashed]. rewrite app_nil_r. repeat split; auto.
      rewrite Ez. cbn [Nat.eqb negb andb]. rewrite <- Ez. exact Hvb.
    + unfold leaf_inv, Sc, Ec, hashed. cbn [starts live hist pos size todo]. rewrite Ez. cbn [Nat.eqb negb andb b2n].
      repeat split; intros j.
      * specialize (L1 j). unfold Sc, Ec in L1. exact L1.
      * specialize (L2 j). unfold Sc, Ec in L2. now rewrite Hh in L2.
      * exact (L3 j).
    + intros _. cbn [starts live hist results]. auto.
    + exact (I_toks _ _ _ _ _ _ I).
    + intros l2 i2 Hl2. exact (I_node _ _ _ _ _ _ I l2 i2 Hl2).
    + unfold res_inv, hashed. cbn [results out span size hist todo]. split; [exact R1|]. split; [exact R2|].
      rewrite E4, Ez. reflexivity.
  - (* final section spawned *)
    constructor.
    + exists ws, []. cbn [todo size pos buf span hashed]. rewrite app_nil_r.
      split; [reflexivity|]. split; [now right|]. split; [exact Hsize|]. split; [exact Hposs|].
      split; [rewrite copy_at_length; lia|]. split; [exact Hspan|].
      destruct (Nat.eqb_spec (size s) 0); [contradiction|]. cbn [negb andb].
      pose proof (copy_at_prefix (buf s) (size s) (zeros 64)) as CP. cbv zeta in CP. rewrite Hlen in CP.
      unfold zeros in CP at 1 3. rewrite repeat_length in CP.
      replace (Nat.min (size s + 64) msz) with (size s + Nat.min 64 (msz - size s)) by lia.
      rewrite CP by lia. rewrite firstn_add, Hvb. f_equal.
      rewrite Hfs, pdata_tail. unfold zeros. rewrite !firstn_repeat. f_equal. lia.
    + unfold leaf_inv, Sc, Ec, hashed. cbn [starts live hist pos size todo].
      destruct (Nat.eqb_spec (size s) 0); [contradiction|]. cbn [negb andb].
      repeat split; intros j; rewrite ?cntf_app, ?cntf_cons, ?cntf_nil.
      * specialize (L1 j). unfold Sc, Ec in L1. unfold son at 2. cbn [fst snd Bool.eqb]. rewrite andb_false_r. lia.
      * specialize (L2 j). unfold Sc, Ec in L2. rewrite Hh in L2. cbn [andb b2n] in L2.
        unfold son at 2. cbn [fst snd Bool.eqb].
        rewrite andb_true_r, Hpf, (Nat.eqb_sym pf j). destruct (j =? pf); cbn [b2n]; lia.
      * exact (L3 j).
    + intros Hz. cbn [size] in Hz. contradiction.
    + exact (I_toks _ _ _ _ _ _ I).
    + intros l2 i2 Hl2. exact (I_node _ _ _ _ _ _ I l2 i2 Hl2).
    + unfold res_inv, hashed. cbn [results out span size hist todo]. split; [exact R1|]. split; [exact R2|].
      rewrite R3, Hh. destruct (Nat.eqb_spec (size s) 0); [contradiction|]. reflexivity.
Qed.

Theorem step_user_inv s : Inv s -> Inv (step H HF D s CUser).
Proof.
  intros I. unfold step. destruct (todo s) as [|[b|] rest0] eqn:Et; [exact I| |].
  - now apply write_inv.
  - now apply hash_inv.
Qed.

Theorem step_inv s c : Inv s -> Inv (step H HF D s c).
Proof.
  intros I. destruct c as [|k|k].
  - now apply step_user_inv.
  - now apply step_start_inv.
  - now apply (PresTok.step_tok_inv H HF D ws hdr).
Qed.

Theorem run_inv s sched : Inv s -> Inv (run H HF D s sched).
Proof.
  revert s. induction sched as [|c sched IH]; intros s I; [exact I|].
  cbn [run fold_left]. apply IH. now apply step_inv.
Qed.

End PresUser.
