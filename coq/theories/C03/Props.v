(** C03 — property theorems.  Every statement is closed: the base hash [H] of the tree and the
    final span hash [HF] (hard-wired Keccak in bmt.Hasher.Hash) are universally quantified and
    nothing is assumed about them. *)
From Coq Require Import List NArith ZArith Bool Arith Lia.
Import ListNotations.
Require Import Aurora.Consts Aurora.C03.Ref Aurora.C03.Model Aurora.C03.Util Aurora.C03.Inv
               Aurora.C03.Final Aurora.C03.Term Aurora.C03.PresUser Aurora.C03.Pool Aurora.C03.Seq Aurora.C03.Toy Aurora.C03.Alias.

(** ---- constants: bmtpool's configuration is the tree with D = 12 (8192 segments, 256 KiB) ---- *)
Definition realD : nat := 12.
Lemma consts_ok_C03 :
  match size_to_params (Z.to_N Consts.boson_BmtBranches) with
  | Some (c, d) => (d =? N.of_nat (S realD))%N && (Z.of_N c * Z.of_nat SEG =? Consts.boson_ChunkSize)%Z
  | None => false
  end
  && (Consts.boson_HashSize =? Z.of_nat SEG)%Z && (Consts.boson_SectionSize =? Z.of_nat SEG)%Z
  && (Z.of_nat (maxsize realD) =? Consts.boson_ChunkSize)%Z && (Consts.bmt_SpanSize =? 8)%Z
  && (1 <=? Consts.bmtpool_Capacity)%Z = true.
Proof. vm_compute. reflexivity. Qed.

Definition hdr_span (hdr : list N) : list N := copy_at (zeros 8) 0 hdr.   (* SetHeader on a fresh Hasher *)

(** the reference recursion is the node-indexed tree the proofs use *)
Theorem C03_ref_is_node_tree : forall (H : list N -> list N) d data,
  length data = SEC * 2 ^ d -> bmt_root H d data = val H data d 0.
Proof. exact bmt_root_val. Qed.
Print Assumptions C03_ref_is_node_tree.

(** SetHeader with an 8-byte header installs exactly that header *)
Theorem C03_header8 : forall hdr : list N, length hdr = 8 -> hdr_span hdr = hdr.
Proof.
  intros hdr Hl. unfold hdr_span, copy_at. cbn [firstn app zeros repeat length Nat.sub Nat.add].
  rewrite Hl. cbn [Nat.min skipn repeat]. rewrite app_nil_r. rewrite <- Hl. apply firstn_all.
Qed.
Print Assumptions C03_header8.

(** empty input: the zerohashes[depth] shortcut of Hash is the reference hash of no data *)
Theorem C03_zero_len : forall (H HF : list N -> list N) D span,
  bmt_hash H HF D span [] = HF (span ++ zh H (S D)).
Proof.
  intros H HF D span. unfold bmt_hash. f_equal. f_equal.
  pose proof (vl_root H D []) as E1. pose proof (vl_all_zero H D [] eq_refl) as E2.
  unfold pdata, alld, msz, maxsize in E1. cbn [concat] in E1. now rewrite <- E1, E2.
Qed.
Print Assumptions C03_zero_len.

(** which sections the caller starts, for every split of the writes: non-final [0, pos), final pos,
    and the bytes those goroutines will read are the zero-padded data (stale buffer content beyond
    the data is overwritten by the 64 zero bytes of Hash or never read) *)
Theorem C03_seq_sections : forall (H HF : list N -> list N) D buf0 ns0 hdr ws, tree_ok D buf0 ns0 ->
  let s := run H HF D (init buf0 ns0 hdr ws) (repeat CUser (length ws + 1)) in
  let vb := if negb (fsize D ws =? 0) then Nat.min (fsize D ws + 64) (maxsize D) else 0 in
  todo s = [] /\ live s = [] /\ size s = fsize D ws /\ pos s = pf D ws /\
  (forall j, Sc j false s = Nat.b2n (j <? pf D ws)) /\
  (forall j, Sc j true s = Nat.b2n (negb (fsize D ws =? 0) && (j =? pf D ws))) /\
  firstn vb (buf s) = firstn vb (pad (maxsize D) (concat ws)).
Proof. exact seq_sections. Qed.
Print Assumptions C03_seq_sections.

(** ALL schedules, safety: whatever the interleaving of the caller and the section goroutines, at
    every moment at most one value has been sent on the result channel and it is the reference
    root; Hash has returned nothing or the reference hash *)
Theorem C03_conc_safety : forall (H HF : list N -> list N) D buf0 ns0 hdr ws sched, tree_ok D buf0 ns0 ->
  let s := run H HF D (init buf0 ns0 hdr ws) sched in
  (results s = [] \/ results s = [bmt_root H D (pad (maxsize D) (concat ws))]) /\
  (out s = None \/ out s = Some (bmt_hash H HF D (hdr_span hdr) (concat ws))).
Proof.
  intros H HF D buf0 ns0 hdr ws sched Hok s.
  exact (inv_safety H HF D ws hdr s (run_inv H HF D ws hdr _ sched (init_inv H HF D ws hdr buf0 ns0 Hok))).
Qed.
Print Assumptions C03_conc_safety.

(** ALL schedules, result: when nothing is left to run, Hash has returned the reference hash, and
    the tree is again a valid pool tree (buffer length, every toggle even) *)
Theorem C03_conc_result : forall (H HF : list N -> list N) D buf0 ns0 hdr ws sched, tree_ok D buf0 ns0 ->
  let s := run H HF D (init buf0 ns0 hdr ws) sched in
  quiescent s ->
  out s = Some (bmt_hash H HF D (hdr_span hdr) (concat ws)) /\ tree_ok D (buf s) (ns s).
Proof.
  intros H HF D buf0 ns0 hdr ws sched Hok s Q.
  destruct (inv_quiescent H HF D ws hdr s (run_inv H HF D ws hdr _ sched (init_inv H HF D ws hdr buf0 ns0 Hok)) Q) as (A & B & C).
  split; [exact A | split; assumption].
Qed.
Print Assumptions C03_conc_result.

Theorem C03_toggles_even : forall (H HF : list N -> list N) D buf0 ns0 hdr ws sched, tree_ok D buf0 ns0 ->
  let s := run H HF D (init buf0 ns0 hdr ws) sched in
  quiescent s -> forall l i, l < D -> par (ns s (S l) i) = false.
Proof.
  intros H HF D buf0 ns0 hdr ws sched Hok s Q.
  exact (proj2 (proj2 (C03_conc_result H HF D buf0 ns0 hdr ws sched Hok Q))).
Qed.
Print Assumptions C03_toggles_even.

(** ALL schedules, write-once discipline behind the step granularity: in one use, the left and the
    right register of every node are each written by at most one goroutine step (counted over the
    steps taken so far: [Cc]); the only reads of the registers are by the goroutine whose toggle
    came second, after both writes *)
Theorem C03_registers_written_once : forall (H HF : list N -> list N) D buf0 ns0 hdr ws sched, tree_ok D buf0 ns0 ->
  let s := run H HF D (init buf0 ns0 hdr ws) sched in
  forall l i, l < D ->
  Cc KR l (2 * i) s + Cc KS l (2 * i) s <= 1 /\
  Cc KR l (2 * i + 1) s + Cc KS l (2 * i + 1) s + Cc KS l (2 * i) s + Cc KN l (2 * i) s <= 1.
Proof.
  intros H HF D buf0 ns0 hdr ws sched Hok s l i Hl.
  exact (registers_written_once H HF D ws hdr s l i (run_inv H HF D ws hdr _ sched (init_inv H HF D ws hdr buf0 ns0 Hok)) Hl).
Qed.
Print Assumptions C03_registers_written_once.

(** ALL schedules, termination: no step increases the measure, every state that is not quiescent
    has a step that decreases it, so every execution can be completed and none is infinite; the
    number of effective steps is at most (writes + 1) * (2^D (D + 2) + 1) *)
Theorem C03_conc_terminates : forall (H HF : list N -> list N) D buf0 ns0 hdr ws sched, tree_ok D buf0 ns0 ->
  let s := run H HF D (init buf0 ns0 hdr ws) sched in
  mu D s <= (length ws + 1) * W D /\
  (forall c, mu D (step H HF D s c) <= mu D s) /\
  (forall c, next_choice s = Some c -> mu D (step H HF D s c) < mu D s) /\
  (next_choice s = None -> quiescent s) /\
  (forall fuel, mu D s <= fuel -> quiescent (drain H HF D fuel s)).
Proof.
  intros H HF D buf0 ns0 hdr ws sched Hok s.
  pose proof (init_inv H HF D ws hdr buf0 ns0 Hok) as I0.
  pose proof (run_inv H HF D ws hdr _ sched I0) as I.
  split; [|split; [|split; [|split]]].
  - rewrite <- (mu_init D ws hdr buf0 ns0). now apply (mu_run_le H HF D ws hdr).
  - intros c. now apply (mu_step_le H HF D ws hdr).
  - intros c. now apply (next_choice_dec H HF D ws hdr).
  - apply next_choice_none.
  - intros fuel. now apply (drain_quiescent H HF D ws hdr).
Qed.
Print Assumptions C03_conc_terminates.

(** the packaged statement: every split of the writes, every schedule prefix, every initial buffer
    and register content: the use returns hash(span || root(zero-padded data)) and leaves a valid tree *)
Theorem C03_all_splits_all_schedules : forall (H HF : list N -> list N) D ws hdr buf0 ns0 sched fuel,
  tree_ok D buf0 ns0 -> (length ws + 1) * W D <= fuel ->
  exists tr', use_tree H HF D (buf0, ns0) hdr ws sched fuel
              = Some (Some (bmt_hash H HF D (hdr_span hdr) (concat ws)), tr') /\
              tree_ok D (fst tr') (snd tr').
Proof. exact use_tree_correct. Qed.
Print Assumptions C03_all_splits_all_schedules.

(** the result does not depend on what the reused tree contained, nor on how the data was cut *)
Theorem C03_stale_buffer : forall (H HF : list N -> list N) D hdr ws1 ws2 buf1 ns1 buf2 ns2 sched1 sched2 fuel,
  tree_ok D buf1 ns1 -> tree_ok D buf2 ns2 -> concat ws1 = concat ws2 ->
  (length ws1 + 1) * W D <= fuel -> (length ws2 + 1) * W D <= fuel ->
  option_map fst (use_tree H HF D (buf1, ns1) hdr ws1 sched1 fuel) =
  option_map fst (use_tree H HF D (buf2, ns2) hdr ws2 sched2 fuel).
Proof.
  intros H HF D hdr ws1 ws2 buf1 ns1 buf2 ns2 sched1 sched2 fuel O1 O2 Ec F1 F2.
  destruct (use_tree_correct H HF D ws1 hdr buf1 ns1 sched1 fuel O1 F1) as (t1 & E1 & _).
  destruct (use_tree_correct H HF D ws2 hdr buf2 ns2 sched2 fuel O2 F2) as (t2 & E2 & _).
  rewrite E1, E2. cbn. unfold the_hash. now rewrite Ec.
Qed.
Print Assumptions C03_stale_buffer.

(** ownership of the bytes.  The caller feeds the hasher from ONE scratch buffer: [CFill g]
    overwrites it with arbitrary bytes g, [CWrite n] is Write(buffer[:n]); Hash follows.  Write
    copies into the tree buffer before it starts workers and workers read the tree buffer only
    ([xstep false] = the base model's steps; a [CFill] never reaches the hasher state), so for
    ALL schedules and ALL later contents of the caller's buffer the result is the reference hash
    of the bytes handed over at the time of each Write call ([writes_of]); and at every moment
    the writes still pending are slices of the caller's CURRENT buffer ([synced]) *)
Theorem C03_caller_may_reuse_buffer : forall (H HF : list N -> list N) D buf0 ns0 hdr prog cb0 sched,
  tree_ok D buf0 ns0 ->
  let x := xrun H HF D false (xinit buf0 ns0 hdr prog cb0) sched in
  synced x /\
  (out (xs x) = None \/ out (xs x) = Some (bmt_hash H HF D (hdr_span hdr) (concat (writes_of prog cb0)))) /\
  (quiescent (xs x) ->
     out (xs x) = Some (bmt_hash H HF D (hdr_span hdr) (concat (writes_of prog cb0))) /\ tree_ok D (buf (xs x)) (ns (xs x))).
Proof.
  intros H HF D buf0 ns0 hdr prog cb0 sched Hok x.
  split; [apply xrun_synced, xinit_synced|].
  unfold x. rewrite (proj1 (xrun_faithful H HF D sched _)). cbn [xinit xs xprog].
  split.
  - exact (proj2 (C03_conc_safety H HF D buf0 ns0 hdr _ _ Hok)).
  - exact (C03_conc_result H HF D buf0 ns0 hdr _ _ Hok).
Qed.
Print Assumptions C03_caller_may_reuse_buffer.

(** the variant in which a section worker hashes a sub-slice of the CALLER's slice is wrong:
    witness (toy hash, two sections): write the buffer, refill it, write again; the first worker
    runs after the refill.  The same program and schedule under the code as it is give the
    reference hash. *)
Theorem C03_worker_reads_caller_slice_refuted :
  exists (H HF : list N -> list N) D buf0 ns0 hdr prog cb0 sched,
    tree_ok D buf0 ns0 /\
    let x := xrun H HF D true (xinit buf0 ns0 hdr prog cb0) sched in
    quiescentb (xs x) = true /\
    out (xs x) <> Some (bmt_hash H HF D (hdr_span hdr) (concat (writes_of prog cb0))) /\
    out (xs (xrun H HF D false (xinit buf0 ns0 hdr prog cb0) sched))
      = Some (bmt_hash H HF D (hdr_span hdr) (concat (writes_of prog cb0))).
Proof.
  exists toy, toy, 1, (fresh_buf 1), fresh_nodes, [1;2;3;4;5;6;7;8]%N, alias_prog, (@nil N), alias_sched.
  split; [split; [reflexivity | intros; reflexivity]|]. exact alias_variant_wrong.
Qed.
Print Assumptions C03_worker_reads_caller_slice_refuted.

(** trees handed from user to user through the pool channel *)
Theorem C03_pool_reuse : forall (H HF : list N -> list N) D fuel us p,
  p <> [] -> Forall (fun t => tree_ok D (fst t) (snd t)) p ->
  Forall (fun u => user_cost D u <= fuel) us ->
  pool_seq H HF D fuel p us = Some (map (expected H HF D) us).
Proof. intros H HF D fuel. exact (pool_seq_correct H HF D fuel). Qed.
Print Assumptions C03_pool_reuse.

(** many hashers at the same time, each on the tree it received from the pool: any global
    interleaving is, for hasher j, one of its own schedules *)
Theorem C03_concurrent_users : forall (H HF : list N -> list N) D ss gsched j buf0 ns0 hdr ws,
  nth_error ss j = Some (init buf0 ns0 hdr ws) -> tree_ok D buf0 ns0 ->
  exists s, nth_error (grun H HF D ss gsched) j = Some s /\
    (out s = None \/ out s = Some (bmt_hash H HF D (hdr_span hdr) (concat ws))) /\
    (results s = [] \/ results s = [bmt_root H D (pad (maxsize D) (concat ws))]) /\
    (quiescent s -> out s = Some (bmt_hash H HF D (hdr_span hdr) (concat ws)) /\ tree_ok D (buf s) (ns s)).
Proof.
  intros H HF D ss gsched j buf0 ns0 hdr ws Hn Hok.
  exists (run H HF D (init buf0 ns0 hdr ws) (proj j gsched)). split; [now rewrite grun_proj, Hn|].
  destruct (C03_conc_safety H HF D buf0 ns0 hdr ws (proj j gsched) Hok) as (A & B).
  split; [exact B|]. split; [exact A|]. exact (C03_conc_result H HF D buf0 ns0 hdr ws (proj j gsched) Hok).
Qed.
Print Assumptions C03_concurrent_users.

(** at bmtpool's parameters: capacity 256 KiB = ChunkSize *)
Theorem C03_chunk_hasher : forall (H HF : list N -> list N) ws hdr buf0 ns0 sched fuel,
  tree_ok realD buf0 ns0 -> (length ws + 1) * W realD <= fuel ->
  Z.of_nat (maxsize realD) = Consts.boson_ChunkSize /\
  exists tr', use_tree H HF realD (buf0, ns0) hdr ws sched fuel
              = Some (Some (HF (hdr_span hdr ++ bmt_root H realD (pad (maxsize realD) (concat ws)))), tr') /\
              tree_ok realD (fst tr') (snd tr').
Proof.
  intros H HF ws hdr buf0 ns0 sched fuel Hok Hf. split; [vm_compute; reflexivity|].
  exact (use_tree_correct H HF realD ws hdr buf0 ns0 sched fuel Hok Hf).
Qed.
Print Assumptions C03_chunk_hasher.

(** non-vacuity: a fresh tree is a valid tree, and a run with a concrete hash, three writes that
    do not respect section boundaries, an over-long tail and a schedule prefix that interleaves
    goroutines with the caller ends quiescent with the reference hash *)
Example C03_hyps_satisfiable :
  tree_ok 2 (fresh_buf 2) fresh_nodes /\
  let ws := [toy_out 70 1%N; toy_out 100 2%N; toy_out 120 3%N] in
  let sched := [CUser; CUser; CStart 0; CTok 0; CUser; CStart 1; CUser; CTok 0; CStart 0] in
  option_map fst (use_tree toy toy 2 (fresh_buf 2, fresh_nodes) [1;2;3;4;5;6;7;8]%N ws sched 200)
  = Some (Some (bmt_hash toy toy 2 [1;2;3;4;5;6;7;8]%N (concat ws))).
Proof. split; [split; [reflexivity | intros; reflexivity] | vm_compute; reflexivity]. Qed.
