(** C03 — property theorems (under construction) *)
From Coq Require Import List NArith ZArith Bool Arith.
Import ListNotations.
Require Import Aurora.Consts Aurora.C03.Ref Aurora.C03.Model.

Theorem C03_ref_is_node_tree : forall (H : list N -> list N) d data,
  length data = SEC * 2 ^ d -> bmt_root H d data = val H data d 0.
Proof. exact bmt_root_val. Qed.
Print Assumptions C03_ref_is_node_tree.
