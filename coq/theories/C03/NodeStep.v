(** C03 — one loop iteration of writeNode / writeFinalNode preserves the node relation:
    one lemma per token kind and side. *)
From Coq Require Import List NArith Arith Bool Lia.
Import ListNotations.
Require Import Aurora.C03.Ref Aurora.C03.Model Aurora.C03.Util Aurora.C03.Inv Aurora.C03.Edges.

Lemma odd_small T : T <= 2 -> Nat.odd T = (T =? 1).
Proof. intros Hle. destruct T as [|[|[|T]]]; try reflexivity; lia. Qed.
Lemma negb_odd_succ T : negb (Nat.odd T) = Nat.odd (S T).
Proof. now rewrite Nat.odd_succ, Nat.negb_odd. Qed.
Lemma half_even j : Nat.even j = true -> j = 2 * (j / 2).
Proof.
  intros Ev. pose proof (Nat.div_mod_eq j 2) as E. rewrite <- Nat.bit0_mod, Nat.bit0_odd, <- Nat.negb_even, Ev in E.
  cbn [negb b2n] in E. lia.
Qed.
Lemma half_odd j : Nat.even j = false -> j = 2 * (j / 2) + 1.
Proof.
  intros Ev. pose proof (Nat.div_mod_eq j 2) as E. rewrite <- Nat.bit0_mod, Nat.bit0_odd, <- Nat.negb_even, Ev in E.
  cbn [negb b2n] in E. lia.
Qed.
Lemma upd_same ns l i x : upd ns l i x l i = x.
Proof. unfold upd. now rewrite !Nat.eqb_refl. Qed.
Lemma upd_other ns l i x l2 i2 : l2 <> l \/ i2 <> i -> upd ns l i x l2 i2 = ns l2 i2.
Proof.
  intros Hne. unfold upd. destruct (Nat.eqb_spec l2 l), (Nat.eqb_spec i2 i); cbn [andb]; try reflexivity. lia.
Qed.

Definition inc (K : k3) (c : k3 -> nat) : k3 -> nat := fun k => b2n (k3_eqb K k) + c k.

Section NodeStep.
Variable H : list N -> list N.
Variable D : nat.
Variable ws : list (list N).
Notation vl := (vl H D ws).
Notation fidx := (fidx D ws).
Notation tok_ok := (tok_ok H D ws).
Notation node_rel := (node_rel H D ws).

Definition cbounds (a : k3 -> nat) (l j : nat) : Prop :=
  a KR + a KS <= 1 /\ a KN <= 1 /\ a KS + a KN <= 1 /\
  (j <> fidx l -> a KS = 0 /\ a KN = 0) /\ (fidx l < j -> a KR = 0).

Lemma node_rel_ext n a b u a' b' u' l i :
  (forall k, a k = a' k) -> (forall k, b k = b' k) -> (forall k, u k = u' k) ->
  node_rel n a b u l i -> node_rel n a' b' u' l i.
Proof.
  intros Ea Eb Eu. unfold node_rel. cbv zeta. now rewrite !Ea, !Eb, !Eu.
Qed.

Lemma vl_S l i : vl (S l) i = H (vl l (2 * i) ++ vl l (2 * i + 1)).
Proof. reflexivity. Qed.

(** exclusion between the children: if the left child is on the final path the right subtree is all zero *)
Lemma excl a b l i : cbounds a l (2 * i) -> cbounds b l (2 * i + 1) ->
  (1 <= a KS + a KN -> b KR = 0 /\ b KS = 0 /\ b KN = 0) /\ a KR + b KR + b KS + a KN <= 2.
Proof.
  intros (A1 & A2 & A3 & A4 & A5) (B1 & B2 & B3 & B4 & B5).
  assert (X : 2 * i <> fidx l \/ (2 * i = fidx l /\ 2 * i + 1 <> fidx l /\ fidx l < 2 * i + 1)) by lia.
  destruct X as [X|(X1 & X2 & X3)].
  - destruct (A4 X). lia.
  - destruct (B4 X2). pose proof (B5 X3). lia.
Qed.

Lemma odd_cases T : T <= 2 -> (Nat.odd T = true /\ T = 1) \/ (Nat.odd T = false /\ (T = 0 \/ T = 2)).
Proof. intros Hle. destruct T as [|[|[|T]]]; cbn; try lia. Qed.
Lemma b2n_eqb_cases x y : (x = y /\ b2n (x =? y) = 1) \/ (x <> y /\ b2n (x =? y) = 0).
Proof. destruct (Nat.eqb_spec x y); cbn [b2n]; auto. Qed.

Ltac prep Hrel HA HB :=
  let P := fresh "P" in let L := fresh "L" in let R := fresh "R" in
  let U1 := fresh "U1" in let U2 := fresh "U2" in let U3 := fresh "U3" in let U4 := fresh "U4" in
  destruct (excl _ _ _ _ HA HB) as (X1 & X2);
  unfold node_rel in Hrel; cbv zeta in Hrel; destruct Hrel as (P & L & R & U1 & U2 & U3 & U4);
  unfold cbounds in HA, HB; unfold inc in *; cbn [k3_eqb b2n Nat.add] in *;
  destruct HA as (A1 & A2 & A3 & A4 & A5); destruct HB as (B1 & B2 & B3 & B4 & B5);
  match type of U1 with context [b2n (?x =? ?y)] => pose proof (b2n_eqb_cases x y) end.

Ltac open_rel :=
  unfold node_rel; cbv zeta; cbn [par lft rgt k3_eqb b2n Nat.add];
  match goal with |- context [b2n (?x =? ?y)] => pose proof (b2n_eqb_cases x y) end.

Ltac fin Hpar O1 L R :=
  repeat split; try (exfalso; lia); try lia; auto;
  try (cbn [par] in Hpar; rewrite Hpar; first [reflexivity | symmetry; exact O1 | rewrite <- O1; f_equal; lia]);
  try (intros; first [apply L | apply R]; lia).

(** regular token from the left child *)
Lemma rel_R_left n a b u l i v :
  node_rel n a b u l i -> cbounds (inc KR a) l (2 * i) -> cbounds b l (2 * i + 1) -> v = vl l (2 * i) ->
  let n1 := mkN (negb (par n)) v (rgt n) in
  node_rel n1 (inc KR a) b (if par n1 then u else inc KR u) l i /\
  (par n1 = false -> H (lft n1 ++ rgt n1) = vl (S l) i).
Proof.
  intros Hrel HA HB Hv n1. prep Hrel HA HB.
  assert (Hpar : par n1 = Nat.odd (S (a KR + b KR + b KS + a KN))).
  { subst n1. cbn [par]. now rewrite P, negb_odd_succ. }
  destruct (odd_cases (S (a KR + b KR + b KS + a KN))) as [[O1 O2]|[O1 O2]]; try lia;
    rewrite O1 in Hpar; rewrite Hpar; subst n1; (split; [|intros Hf; try discriminate]).
  - open_rel; fin Hpar O1 L R.
  - unfold inc. open_rel; fin Hpar O1 L R.
  - cbn [lft rgt]. rewrite vl_S, Hv. f_equal. f_equal. apply R. lia.
Qed.

(** regular token from the right child *)
Lemma rel_R_right n a b u l i v :
  node_rel n a b u l i -> cbounds a l (2 * i) -> cbounds (inc KR b) l (2 * i + 1) -> v = vl l (2 * i + 1) ->
  let n1 := mkN (negb (par n)) (lft n) v in
  node_rel n1 a (inc KR b) (if par n1 then u else inc KR u) l i /\
  (par n1 = false -> H (lft n1 ++ rgt n1) = vl (S l) i).
Proof.
  intros Hrel HA HB Hv n1. prep Hrel HA HB.
  assert (Hpar : par n1 = Nat.odd (S (a KR + b KR + b KS + a KN))).
  { subst n1. cbn [par]. now rewrite P, negb_odd_succ. }
  destruct (odd_cases (S (a KR + b KR + b KS + a KN))) as [[O1 O2]|[O1 O2]]; try lia;
    rewrite O1 in Hpar; rewrite Hpar; subst n1; (split; [|intros Hf; try discriminate]).
  - open_rel; fin Hpar O1 L R.
  - unfold inc. open_rel; fin Hpar O1 L R.
  - cbn [lft rgt]. rewrite vl_S, Hv. f_equal. f_equal. apply L. lia.
Qed.

Ltac fin0 L R :=
  repeat split; try (exfalso; lia); try lia; auto;
  try (intros; first [apply L | apply R]; lia).

(** final token carrying a hash, from the left child: no toggle *)
Lemma rel_S_left n a b u l i v :
  node_rel n a b u l i -> cbounds (inc KS a) l (2 * i) -> cbounds b l (2 * i + 1) ->
  v = vl l (2 * i) -> zh H (S l) = vl l (2 * i + 1) ->
  let n1 := mkN (par n) v (zh H (S l)) in
  node_rel n1 (inc KS a) b (inc KS u) l i /\ H (lft n1 ++ rgt n1) = vl (S l) i.
Proof.
  intros Hrel HA HB Hv Hz n1. prep Hrel HA HB. subst n1. split.
  - open_rel; fin0 L R.
  - cbn [lft rgt]. now rewrite vl_S, Hv, Hz.
Qed.

(** final token carrying nil, from the left child *)
Lemma rel_N_left n a b u l i :
  node_rel n a b u l i -> cbounds (inc KN a) l (2 * i) -> cbounds b l (2 * i + 1) ->
  zh H (S l) = vl l (2 * i + 1) ->
  let n1 := mkN (negb (par n)) (lft n) (zh H (S l)) in
  node_rel n1 (inc KN a) b (if par n1 then inc KN u else inc KS u) l i /\
  (par n1 = false -> H (lft n1 ++ rgt n1) = vl (S l) i).
Proof.
  intros Hrel HA HB Hz n1. prep Hrel HA HB.
  assert (Hpar : par n1 = Nat.odd (S (a KR + b KR + b KS + a KN))).
  { subst n1. cbn [par]. now rewrite P, negb_odd_succ. }
  destruct (odd_cases (S (a KR + b KR + b KS + a KN))) as [[O1 O2]|[O1 O2]]; try lia;
    rewrite O1 in Hpar; rewrite Hpar; subst n1; (split; [|intros Hf; try discriminate]).
  - unfold inc. open_rel; fin Hpar O1 L R.
  - unfold inc. open_rel; fin Hpar O1 L R.
  - cbn [lft rgt]. rewrite vl_S, Hz. f_equal. f_equal. apply L. lia.
Qed.

(** final token carrying a hash, from the right child *)
Lemma rel_S_right n a b u l i v :
  node_rel n a b u l i -> cbounds a l (2 * i) -> cbounds (inc KS b) l (2 * i + 1) -> v = vl l (2 * i + 1) ->
  let n1 := mkN (negb (par n)) (lft n) v in
  node_rel n1 a (inc KS b) (if par n1 then inc KN u else inc KS u) l i /\
  (par n1 = false -> H (lft n1 ++ rgt n1) = vl (S l) i).
Proof.
  intros Hrel HA HB Hv n1. prep Hrel HA HB.
  assert (Hpar : par n1 = Nat.odd (S (a KR + b KR + b KS + a KN))).
  { subst n1. cbn [par]. now rewrite P, negb_odd_succ. }
  destruct (odd_cases (S (a KR + b KR + b KS + a KN))) as [[O1 O2]|[O1 O2]]; try lia;
    rewrite O1 in Hpar; rewrite Hpar; subst n1; (split; [|intros Hf; try discriminate]).
  - unfold inc. open_rel; fin Hpar O1 L R.
  - unfold inc. open_rel; fin Hpar O1 L R.
  - cbn [lft rgt]. rewrite vl_S, Hv. f_equal. f_equal. apply L. lia.
Qed.

(** final token carrying nil, from the right child: nothing happens at the node *)
Lemma rel_N_right n a b u l i :
  node_rel n a b u l i -> cbounds a l (2 * i) -> cbounds (inc KN b) l (2 * i + 1) ->
  node_rel n a (inc KN b) (inc KN u) l i.
Proof.
  intros Hrel HA HB. prep Hrel HA HB. open_rel; fin0 L R.
Qed.

End NodeStep.
