(** C03 — model of the concurrent BMT hasher: pkg/bmt/bmt.go (Hasher.Write,
    Hash, processSection, writeNode, writeFinalNode) and pkg/bmt/pool.go
    (NewConf, tree, node.toggle, Pool.Get/Put).  Definitions only.

    Tree addressing.  Sections (pairs of segments) are level 0, indices
    0 .. 2^D-1; the Go [tree.leaves[j]] hashes section j.  Internal nodes are
    (l, i) with 1 <= l <= D; the Go [level] variable of writeFinalNode is this
    l; the root is (D, 0) and its parent is nil.  Go's [depth] is D+1.
    A goroutine walking up is a token sitting on the edge from (l, j) to its
    parent (l+1, j/2); [isLeft] of the child is [even j].

    One model step = one iteration of the [for] loop of writeNode /
    writeFinalNode: plain write of the register(s), the atomic toggle, the
    hash of left|right if this goroutine goes on, move to the parent.
    The Go buffer, node registers and toggle state survive in the tree between
    uses, so the initial buffer/registers are arbitrary inputs of [init].

    Not modelled: the error channel (doHash fails only if the base hasher's
    Write fails, which hash.Hash forbids). *)
From Coq Require Import List NArith Arith Bool Lia.
Import ListNotations.
Require Import Aurora.C03.Ref.

(** [sizeToParams]: c = 2; for c < n { c *= 2; d++ }; return c, d+1 *)
Fixpoint s2p_loop (fuel : nat) (c d n : N) : option (N * N) :=
  match fuel with
  | O => None
  | S f => if (c <? n)%N then s2p_loop f (2 * c)%N (d + 1)%N n else Some (c, (d + 1)%N)
  end.
Definition size_to_params (n : N) : option (N * N) := s2p_loop 64 2%N 0%N n.

(** Go [copy(buf[off:], b)] (off <= len buf in every reachable call) *)
Definition copy_at (buf : list N) (off : nat) (b : list N) : list N :=
  let n := Nat.min (length b) (length buf - off) in
  firstn off buf ++ firstn n b ++ skipn (off + n) buf.

Fixpoint pick {A} (k : nat) (l : list A) : option (A * list A) :=
  match l with
  | [] => None
  | x :: t => match k with
              | O => Some (x, t)
              | S k' => match pick k' t with Some (y, r) => Some (y, x :: r) | None => None end
              end
  end.

(** node: toggle parity ([par = true]: state is odd, "active/waiting"), registers *)
Record nst := mkN { par : bool; lft : list N; rgt : list N }.
Definition nodes := nat -> nat -> nst.
Definition upd (ns : nodes) (l i : nat) (x : nst) : nodes :=
  fun l' i' => if (l' =? l) && (i' =? i) then x else ns l' i'.

(** a goroutine between two loop iterations: regular (writeNode, always carries
    a hash) or final (writeFinalNode, may carry nil) *)
Inductive tok := TR (l j : nat) (v : list N) | TF (l j : nat) (o : option (list N)).
Inductive uop := UWrite (b : list N) | UHash.
Inductive choice := CUser | CStart (k : nat) | CTok (k : nat).

Record sys := mkS {
  buf : list N; size : nat; pos : nat; span : list N;      (* tree.buffer, Hasher.size/pos/span *)
  ns : nodes;
  todo : list uop;                 (* what the calling goroutine still does *)
  starts : list (nat * bool);      (* spawned processSection(i, final) that have not hashed their section yet *)
  live : list tok;
  hist : list tok;                 (* ghost: tokens that have taken their step (never read) *)
  results : list (list N);         (* values sent on h.result *)
  out : option (list N)            (* what Hash returned *)
}.

Section Model.
Variable H HF : list N -> list N.
Variable D : nat.

Definition maxsize : nat := SEC * 2 ^ D.

(** one loop iteration of writeNode (TR) / writeFinalNode (TF):
    new node table, continuing goroutine if any, value sent on the result channel if any *)
Definition tok_step (ns : nodes) (t : tok) : nodes * option tok * option (list N) :=
  match t with
  | TR l j v =>
      if l =? D then (ns, None, Some v)
      else
        let i := j / 2 in
        let n := ns (S l) i in
        let n1 := if Nat.even j then mkN (negb (par n)) v (rgt n) else mkN (negb (par n)) (lft n) v in
        if par n1 then (upd ns (S l) i n1, None, None)
        else (upd ns (S l) i n1, Some (TR (S l) i (H (lft n1 ++ rgt n1))), None)
  | TF l j o =>
      if l =? D then (ns, None, o)
      else
        let i := j / 2 in
        let n := ns (S l) i in
        if Nat.even j then
          match o with
          | Some v =>
              let n1 := mkN (par n) v (zh H (S l)) in
              (upd ns (S l) i n1, Some (TF (S l) i (Some (H (lft n1 ++ rgt n1)))), None)
          | None =>
              let n1 := mkN (negb (par n)) (lft n) (zh H (S l)) in
              if par n1 then (upd ns (S l) i n1, Some (TF (S l) i None), None)
              else (upd ns (S l) i n1, Some (TF (S l) i (Some (H (lft n1 ++ rgt n1)))), None)
          end
        else
          match o with
          | Some v =>
              let n1 := mkN (negb (par n)) (lft n) v in
              if par n1 then (upd ns (S l) i n1, Some (TF (S l) i None), None)
              else (upd ns (S l) i n1, Some (TF (S l) i (Some (H (lft n1 ++ rgt n1)))), None)
          | None => (ns, Some (TF (S l) i None), None)
          end
  end.

(** Hasher.Write *)
Definition write_op (s : sys) (b : list N) : sys :=
  let max := maxsize - size s in
  let l := Nat.min (length b) max in
  let from := size s / SEC in
  let size' := size s + l in
  let to0 := size' / SEC in
  let to := if l =? max then to0 - 1 else to0 in
  mkS (copy_at (buf s) (size s) b) size' to (span s) (ns s) (todo s)
      (starts s ++ map (fun i => (i, false)) (seq from (to - from)))
      (live s) (hist s) (results s) (out s).

(** Hasher.Hash up to the blocking receive *)
Definition hash_op (s : sys) : sys :=
  if size s =? 0 then
    mkS (buf s) (size s) (pos s) (span s) (ns s) (todo s) (starts s) (live s) (hist s) (results s)
        (Some (HF (span s ++ zh H (S D))))
  else
    mkS (copy_at (buf s) (size s) (zeros 64)) (size s) (pos s) (span s) (ns s) (todo s)
        (starts s ++ [(pos s, true)]) (live s) (hist s) (results s) (out s).

Definition set_todo (s : sys) (r : list uop) : sys :=
  mkS (buf s) (size s) (pos s) (span s) (ns s) r (starts s) (live s) (hist s) (results s) (out s).

(** first part of processSection: hash the section out of the shared buffer *)
Definition start_tok (b : list N) (j : nat) (fin : bool) : tok :=
  let v := H (section b j) in if fin then TF 0 j (Some v) else TR 0 j v.

Definition step (s : sys) (c : choice) : sys :=
  match c with
  | CUser =>
      match todo s with
      | [] => s
      | UWrite b :: r => write_op (set_todo s r) b
      | UHash :: r => hash_op (set_todo s r)
      end
  | CStart k =>
      match pick k (starts s) with
      | None => s
      | Some ((j, fin), r) =>
          mkS (buf s) (size s) (pos s) (span s) (ns s) (todo s) r
              (start_tok (buf s) j fin :: live s) (hist s) (results s) (out s)
      end
  | CTok k =>
      match pick k (live s) with
      | None => s
      | Some (t, r) =>
          let '(ns', nt, res) := tok_step (ns s) t in
          mkS (buf s) (size s) (pos s) (span s) ns' (todo s) (starts s)
              (match nt with Some t' => t' :: r | None => r end)
              (t :: hist s)
              (match res with Some v => results s ++ [v] | None => results s end)
              (match res, out s with Some v, None => Some (HF (span s ++ v)) | _, o => o end)
      end
  end.

Definition run (s : sys) (sched : list choice) : sys := fold_left step sched s.

(** a deterministic scheduler: caller first, then goroutines in spawn order *)
Definition next_choice (s : sys) : option choice :=
  match todo s, starts s, live s with
  | _ :: _, _, _ => Some CUser
  | [], _ :: _, _ => Some (CStart 0)
  | [], [], _ :: _ => Some (CTok 0)
  | [], [], [] => None
  end.
Fixpoint drain (fuel : nat) (s : sys) : sys :=
  match fuel with
  | O => s
  | S f => match next_choice s with Some c => drain f (step s c) | None => s end
  end.

Definition quiescentb (s : sys) : bool :=
  match todo s, starts s, live s with [], [], [] => true | _, _, _ => false end.

(** Pool.Get (fresh Hasher around a pooled tree) + SetHeader + the calls of one user *)
Definition init (buf0 : list N) (ns0 : nodes) (hdr : list N) (ws : list (list N)) : sys :=
  mkS buf0 0 0 (copy_at (zeros 8) 0 hdr) ns0 (map UWrite ws ++ [UHash]) [] [] [] [] None.

(** newTree: zero buffer, nil registers, toggles 0 *)
Definition fresh_nodes : nodes := fun _ _ => mkN false [] [].
Definition fresh_buf : list N := zeros maxsize.

(** one complete use of a pooled tree under a schedule prefix, then run to
    quiescence; [None] when [fuel] did not suffice *)
Definition use_tree (tr : list N * nodes) (hdr : list N) (ws : list (list N))
           (sched : list choice) (fuel : nat) : option (option (list N) * (list N * nodes)) :=
  let s := drain fuel (run (init (fst tr) (snd tr) hdr ws) sched) in
  if quiescentb s then Some (out s, (buf s, ns s)) else None.

End Model.
