(** C03 — the invariant of the concurrent hasher (DESIGN.md 9b), stated with
    per-edge token counts over [live ++ hist] (emitted) and [hist] (consumed). *)
From Coq Require Import List NArith Arith Bool Lia.
Import ListNotations.
Require Import Aurora.C03.Ref Aurora.C03.Model Aurora.C03.Util.

Inductive k3 := KR | KS | KN.   (* regular; final carrying a hash; final carrying nil *)
Definition k3_eqb (a b : k3) : bool :=
  match a, b with KR, KR | KS, KS | KN, KN => true | _, _ => false end.
Definition tkind (t : tok) : k3 :=
  match t with TR _ _ _ => KR | TF _ _ (Some _) => KS | TF _ _ None => KN end.
Definition tlev (t : tok) : nat := match t with TR l _ _ | TF l _ _ => l end.
Definition tidx (t : tok) : nat := match t with TR _ j _ | TF _ j _ => j end.
Definition on (k : k3) (l j : nat) (t : tok) : bool :=
  k3_eqb (tkind t) k && (tlev t =? l) && (tidx t =? j).
Definition son (j : nat) (fin : bool) (x : nat * bool) : bool := (fst x =? j) && Bool.eqb (snd x) fin.

Definition Cc (k : k3) (l j : nat) (s : sys) : nat := cntf (on k l j) (hist s).
Definition Ec (k : k3) (l j : nat) (s : sys) : nat := cntf (on k l j) (live s) + cntf (on k l j) (hist s).
Definition Sc (j : nat) (fin : bool) (s : sys) : nat := cntf (son j fin) (starts s).
Definition hashed (s : sys) : bool := match todo s with [] => true | _ => false end.
Notation b2n := Nat.b2n.

Section Inv.
Variable H HF : list N -> list N.
Variable D : nat.
Variable ws : list (list N).
Variable hdr : list N.

Definition msz : nat := maxsize D.
Definition alld : list N := concat ws.
Definition pdata : list N := pad msz alld.
Definition fsize : nat := Nat.min (length alld) msz.
Definition posof (sz : nat) : nat := if sz =? msz then 2 ^ D - 1 else sz / SEC.
Definition pf : nat := posof fsize.
Definition fidx (l : nat) : nat := pf / 2 ^ l.
Definition vl (l j : nat) : list N := val H pdata l j.

Definition tok_ok (t : tok) : Prop :=
  match t with
  | TR l j v => l <= D /\ j <= fidx l /\ v = vl l j
  | TF l j o => l <= D /\ j = fidx l /\ (forall v, o = Some v -> v = vl l j)
  end.

Definition user_inv (s : sys) : Prop :=
  exists done rest, ws = done ++ rest /\
    (todo s = map UWrite rest ++ [UHash] \/ (todo s = [] /\ rest = [])) /\
    size s = Nat.min (length (concat done)) msz /\
    pos s = posof (size s) /\
    length (buf s) = msz /\
    span s = copy_at (zeros 8) 0 hdr /\
    let vb := if hashed s && negb (size s =? 0) then Nat.min (size s + 64) msz else size s in
    firstn vb (buf s) = firstn vb pdata.

Definition leaf_inv (s : sys) : Prop :=
  (forall j, Sc j false s + Ec KR 0 j s = b2n (j <? pos s)) /\
  (forall j, Sc j true s + Ec KS 0 j s = b2n (hashed s && negb (size s =? 0) && (j =? pf))) /\
  (forall j, Ec KN 0 j s = 0).

Definition empty_inv (s : sys) : Prop :=
  size s = 0 -> starts s = [] /\ live s = [] /\ hist s = [] /\ results s = [].

(** node (l+1, i) with children (l, 2i), (l, 2i+1).  [a k], [b k]: tokens of kind k that
    have acted on the node coming from the left / right child; [u k]: tokens the node has sent
    upward.  [T] is the number of toggles so far: regular tokens always toggle, a hash-carrying
    final token toggles only when it comes from the right, a nil-carrying one only from the left.
    One formula covers complete, final and all-zero subtrees (which kinds can occur where is
    [tok_ok]). *)
Definition node_rel (n : nst) (a b u : k3 -> nat) (l i : nat) : Prop :=
  let T := a KR + b KR + b KS + a KN in
  par n = Nat.odd T /\
  (1 <= a KR + a KS -> lft n = vl l (2 * i)) /\
  (1 <= b KR + b KS + a KS + a KN -> rgt n = vl l (2 * i + 1)) /\
  u KS + u KR = b2n (T =? 2) + a KS /\
  u KN + u KS = a KS + a KN + b KS + b KN /\
  u KS <= a KS + a KN + b KS /\
  u KR <= a KR + b KR.
Definition node_inv (s : sys) (l i : nat) : Prop :=
  node_rel (ns s (S l) i) (fun k => Cc k l (2 * i) s) (fun k => Cc k l (2 * i + 1) s)
           (fun k => Ec k (S l) i s) l i.

(** what can have been sent over the edge above (l, j) so far *)
Definition edge_ok (s : sys) (l j : nat) : Prop :=
  Ec KR l j s + Ec KS l j s <= 1 /\ Ec KN l j s <= 1 /\ Ec KS l j s + Ec KN l j s <= 1 /\
  (j <> fidx l -> Ec KS l j s = 0 /\ Ec KN l j s = 0) /\ (fidx l < j -> Ec KR l j s = 0).

Definition res_inv (s : sys) : Prop :=
  length (results s) = Cc KR D 0 s + Cc KS D 0 s /\
  Forall (fun r => r = vl D 0) (results s) /\
  out s = match results s with
          | r :: _ => Some (HF (span s ++ r))
          | [] => if hashed s && (size s =? 0) then Some (HF (span s ++ zh H (S D))) else None
          end.

Record Inv (s : sys) : Prop := mkInv {
  I_user : user_inv s;
  I_leaf : leaf_inv s;
  I_empty : empty_inv s;
  I_toks : Forall tok_ok (live s ++ hist s);
  I_node : forall l i, l < D -> node_inv s l i;
  I_res : res_inv s
}.

(** ---- arithmetic of the final path ---- *)
Lemma pow2_pos n : 0 < 2 ^ n.
Proof. induction n as [|n IH]; [cbn; lia | rewrite Nat.pow_succ_r'; lia]. Qed.

Lemma msz_eq : msz = SEC * 2 ^ D. Proof. reflexivity. Qed.

Lemma posof_lt sz : sz <= msz -> posof sz < 2 ^ D.
Proof.
  intros Hle. unfold posof. pose proof (pow2_pos D) as P.
  destruct (Nat.eqb_spec sz msz) as [E|E]; [lia|].
  apply Nat.div_lt_upper_bound; [unfold SEC; lia|]. rewrite msz_eq in *. lia.
Qed.
Lemma posof_mono a b : a <= b -> b <= msz -> posof a <= posof b.
Proof.
  intros Hab Hb. unfold posof. pose proof (pow2_pos D) as P.
  destruct (Nat.eqb_spec a msz) as [Ea|Ea], (Nat.eqb_spec b msz) as [Eb|Eb]; try lia.
  - assert (a / SEC < 2 ^ D); [|lia].
    apply Nat.div_lt_upper_bound; [unfold SEC; lia|]. rewrite msz_eq in *. lia.
  - apply Nat.div_le_mono; [unfold SEC; lia | lia].
Qed.
Lemma fsize_le : fsize <= msz. Proof. unfold fsize. lia. Qed.
Lemma pf_lt : pf < 2 ^ D. Proof. apply posof_lt, fsize_le. Qed.

Lemma fidx_0 : fidx 0 = pf. Proof. unfold fidx. now rewrite Nat.pow_0_r, Nat.div_1_r. Qed.
Lemma fidx_S l : fidx (S l) = fidx l / 2.
Proof.
  unfold fidx. rewrite Nat.pow_succ_r', (Nat.mul_comm 2), <- Nat.div_div; auto.
  pose proof (pow2_pos l); lia.
Qed.
Lemma fidx_D : fidx D = 0. Proof. unfold fidx. apply Nat.div_small, pf_lt. Qed.
Lemma fidx_bound l : l <= D -> (fidx l + 1) * 2 ^ l <= 2 ^ D.
Proof.
  intros Hl. unfold fidx. pose proof (pow2_pos l) as P. pose proof pf_lt as Q.
  replace (2 ^ D) with (2 ^ (D - l) * 2 ^ l) in *.
  2:{ rewrite <- Nat.pow_add_r. f_equal. lia. }
  assert (pf / 2 ^ l < 2 ^ (D - l)) as B.
  { apply Nat.div_lt_upper_bound; [lia|]. lia. }
  apply Nat.mul_le_mono_r. lia.
Qed.
Lemma fidx_gt l : pf < (fidx l + 1) * 2 ^ l.
Proof.
  unfold fidx. pose proof (pow2_pos l) as P.
  pose proof (Nat.mul_succ_div_gt pf (2 ^ l)). lia.
Qed.
Lemma fidx_parity l : fidx l = 2 * fidx (S l) + b2n (Nat.odd (fidx l)).
Proof.
  rewrite fidx_S, <- Nat.bit0_odd, Nat.bit0_mod. apply Nat.div_mod_eq.
Qed.

(** ---- all-zero subtrees ---- *)
Lemma val_zero_range (d : list N) : forall l j,
  (forall k, j * 2 ^ l <= k < (j + 1) * 2 ^ l -> section d k = zeros SEC) -> val H d l j = zh H (S l).
Proof.
  induction l as [|l IH]; intros j Hz.
  - cbn [val zh]. rewrite Hz by (rewrite Nat.pow_0_r; lia).
    unfold zeros, SEC, SEG. now rewrite <- repeat_app.
  - cbn [val]. pose proof (Nat.pow_succ_r' 2 l) as P.
    rewrite (IH (2 * j)), (IH (2 * j + 1)); [reflexivity | |]; intros k Hk; apply Hz; nia.
Qed.

Lemma section_pdata_zero k : pf < k -> k < 2 ^ D -> section pdata k = zeros SEC.
Proof.
  intros Hk Hd. unfold pdata. apply section_pad_zero.
  - rewrite msz_eq. nia.
  - fold fsize. unfold pf, posof in Hk. destruct (Nat.eqb_spec fsize msz) as [E|E].
    + lia.
    + pose proof (Nat.mul_succ_div_gt fsize SEC). unfold SEC in *. lia.
Qed.

Lemma vl_zero l j : S l <= D -> 2 * j = fidx l -> vl l (2 * j + 1) = zh H (S l).
Proof.
  intros Hl Hj. unfold vl. apply val_zero_range. intros k [Hk1 Hk2].
  pose proof (fidx_gt l) as G. pose proof (fidx_bound (S l) Hl) as B.
  rewrite fidx_S, <- Hj in B. replace (2 * j / 2) with j in B by (rewrite Nat.mul_comm, Nat.div_mul; lia).
  rewrite Nat.pow_succ_r' in B.
  apply section_pdata_zero; nia.
Qed.

Lemma vl_all_zero : fsize = 0 -> vl D 0 = zh H (S D).
Proof.
  intros Hz. unfold vl. apply val_zero_range. intros k [_ Hk]. rewrite Nat.add_0_l, Nat.mul_1_l in Hk.
  unfold pdata. apply section_pad_zero.
  - rewrite msz_eq. nia.
  - fold fsize. lia.
Qed.

End Inv.
