(** C03 — correspondence.  A case is a pool of capacity 1 built by
    [bmt.NewPool(bmt.NewConf(toy, segcount, 1))] and a sequence of users, each
    [Get; SetHeader; Write*; Hash; Put] on the REAL code with the toy base
    hasher.  The model runs the same users on one tree state threaded through
    (so stale buffer / registers are exercised), each under a schedule prefix
    chosen by the harness and then to quiescence.  The final span hash of
    bmt.Hasher.Hash is hard-wired Keccak ([sha3hash]); it enters as the table
    [hf] computed by the harness (preimage -> keccak256), a miss is a mismatch. *)
From Coq Require Import List NArith ZArith Bool Arith.
Import ListNotations.
Require Import Aurora.Base.Corr Aurora.C03.Ref Aurora.C03.Model Aurora.C03.Toy.

(** data of a user = [toy_out total dseed] with the last [ztail] bytes zeroed (the same generator in
    the harness), cut into writes of lengths [wlens] *)
(** 32-byte hashes travel as one big-endian number; the schedule is [slen] bytes of the same
    generator from [sseed] *)
Inductive use := Use (hdr : list N) (dseed ztail : N) (wlens : list N) (sseed slen : N) (obs : option N).

Definition be (l : list N) : N := fold_left (fun acc b => N.lor (N.shiftl acc 8) (N.land b 255)) l 0%N.
Fixpoint to_be_acc (n : nat) (v : N) (acc : list N) : list N :=
  match n with O => acc | S n' => to_be_acc n' (N.shiftr v 8) (N.land v 255 :: acc) end.
Definition to_be (n : nat) (v : N) : list N := to_be_acc n v [].

Fixpoint split_lens (d : list N) (lens : list N) : list (list N) :=
  match lens with
  | [] => []
  | k :: r => firstn (N.to_nat k) d :: split_lens (skipn (N.to_nat k) d) r
  end.
Definition use_writes (dseed ztail : N) (wlens : list N) : list (list N) :=
  let n := N.to_nat (fold_left N.add wlens 0%N) in
  let zt := Nat.min (N.to_nat ztail) n in
  split_lens (firstn (n - zt) (toy_out n dseed) ++ zeros zt) wlens.
Inductive case := CPool (segcount : N) (uses : list use) (hf : list (N * N)).   (* be(40-byte preimage) -> be(keccak256) *)

Fixpoint lookup (t : list (N * N)) (x : N) : option N :=
  match t with
  | [] => None
  | (k, v) :: r => if N.eqb k x then Some v else lookup r x
  end.
Definition hf_of (t : list (N * N)) (x : list N) : list N :=
  if Nat.eqb (length x) 40 then match lookup t (be x) with Some v => to_be 32 v | None => [999%N] end
  else [999%N].

(** schedule numbers are decoded against the current state so that most of them name an enabled action *)
Definition decode (s : sys) (c : N) : choice :=
  let k := N.to_nat (c / 4) in
  match (c mod 4)%N with
  | 0%N => CUser
  | 1%N => CStart (k mod Nat.max 1 (length (starts s)))
  | _ => CTok (k mod Nat.max 1 (length (live s)))
  end.
Fixpoint run_dec (H HF : list N -> list N) (D : nat) (s : sys) (sched : list N) : sys :=
  match sched with [] => s | c :: r => run_dec H HF D (step H HF D s (decode s c)) r end.

Definition FUEL : nat := 5000.

Definition use_dec (H HF : list N -> list N) (D : nat) (tr : list N * nodes) (u : use)
  : option (option (list N) * (list N * nodes)) :=
  match u with Use hdr dseed ztail wlens sseed slen _ =>
    let ws := use_writes dseed ztail wlens in
    let sched := toy_out (N.to_nat slen) sseed in
    let s := drain H HF D FUEL (run_dec H HF D (init (fst tr) (snd tr) hdr ws) sched) in
    if quiescentb s then Some (out s, (buf s, ns s)) else None
  end.

Fixpoint model_uses (H HF : list N -> list N) (D : nat) (tr : list N * nodes) (us : list use)
  : list (option (list N)) :=
  match us with
  | [] => []
  | u :: r => match use_dec H HF D tr u with
              | Some (o, tr') => o :: model_uses H HF D tr' r
              | None => [None]      (* model stuck: everything after is undefined *)
              end
  end.

Definition model_out (c : case) : list (option (list N)) :=
  match c with CPool sc us hf =>
    match size_to_params sc with
    | Some (_, depth) => let D := N.to_nat depth - 1 in
                         model_uses toy (hf_of hf) D (fresh_buf D, fresh_nodes) us
    | None => []
    end
  end.
Definition obs_out (c : case) : list (option N) :=
  match c with CPool _ us _ => map (fun u => match u with Use _ _ _ _ _ _ o => o end) us end.
(** a model output that is not 32 bytes long can match nothing *)
Definition pack (o : option (list N)) : option N :=
  match o with Some l => if Nat.eqb (length l) 32 then Some (be l) else Some (N.shiftl 1 300) | None => None end.

Definition check_case (c : case) : bool := list_eqb (option_eqb N.eqb) (map pack (model_out c)) (obs_out c).
Definition explain_case (c : case) := (map pack (model_out c), obs_out c).
