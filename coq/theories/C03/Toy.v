(** C03 — a toy 32-byte base hash, defined identically in the harness
    (harness/cmd/c03/main.go: toySum / toyOut).  Only used to RUN the model and
    the real bmt code on the same base hasher inside the correspondence;
    no theorem mentions it.  Jenkins one-at-a-time style on a uint32 state
    (adds, shifts, xors only: cheap under vm_compute); reduction mod 2^32 is a
    mask. *)
From Coq Require Import List NArith.
Import ListNotations.
Local Open Scope N_scope.

Definition M32 : N := 4294967295.
Definition m32 (x : N) : N := N.land x M32.

Definition absorb (a b : N) : N :=
  let a := m32 (a + N.land b 255) in
  let a := m32 (a + N.shiftl a 10) in
  N.lxor a (N.shiftr a 6).

Definition squeeze (a : N) : N :=
  let a := m32 (a + N.shiftl a 3) in
  let a := N.lxor a (N.shiftr a 11) in
  let a := m32 (a + N.shiftl a 15) in
  m32 (a + 2654435769).

(** [n] output bytes from state [a] (also the data / schedule generator of the cases) *)
Fixpoint toy_out (n : nat) (a : N) : list N :=
  match n with
  | O => []
  | S n' => let a' := squeeze a in N.shiftr a' 24 :: toy_out n' a'
  end.

Definition toy (d : list N) : list N :=
  toy_out 32 (fold_left absorb d (m32 (N.of_nat (length d) + 2166136261))).
