(** C03 — a goroutine step (one loop iteration of writeNode/writeFinalNode) preserves the invariant. *)
From Coq Require Import List NArith Arith Bool Lia.
Import ListNotations.
Require Import Aurora.C03.Ref Aurora.C03.Model Aurora.C03.Util Aurora.C03.Inv Aurora.C03.Edges Aurora.C03.NodeStep.

Section PresTok.
Variable H HF : list N -> list N.
Variable D : nat.
Variable ws : list (list N).
Variable hdr : list N.
Notation Inv := (Inv H HF D ws hdr).
Notation tok_ok := (tok_ok H D ws).
Notation fidx := (fidx D ws).
Notation vl := (vl H D ws).
Notation node_rel := (node_rel H D ws).
Notation node_inv := (node_inv H D ws).
Notation cbounds := (cbounds D ws).

(** the state after a token step, for any outcome of [tok_step] *)
Definition after (s : sys) (t : tok) (r : list tok) (ns' : nodes) (nt : option tok) (res : option (list N)) : sys :=
  mkS (buf s) (size s) (pos s) (span s) ns' (todo s) (starts s)
      (match nt with Some t' => t' :: r | None => r end) (t :: hist s)
      (match res with Some v => results s ++ [v] | None => results s end)
      (match res, out s with Some v, None => Some (HF (span s ++ v)) | _, o => o end).

Definition ntc (nt : option tok) (k : k3) (l j : nat) : nat :=
  match nt with Some t' => b2n (on k l j t') | None => 0 end.

Lemma Cc_after s t r ns' nt res k l j : Cc k l j (after s t r ns' nt res) = b2n (on k l j t) + Cc k l j s.
Proof. unfold Cc, after. cbn [hist]. now rewrite cntf_cons. Qed.
Lemma Ec_after s t r ns' nt res kk k l j : pick kk (live s) = Some (t, r) ->
  Ec k l j (after s t r ns' nt res) = ntc nt k l j + Ec k l j s.
Proof.
  intros Hp. unfold Ec, after, ntc. cbn [hist live]. rewrite (cntf_pick (on k l j) _ _ _ _ Hp), cntf_cons.
  destruct nt as [t'|]; [rewrite cntf_cons; destruct (on k l j t')|]; destruct (on k l j t); cbn [b2n]; lia.
Qed.
Lemma Sc_after s t r ns' nt res j fin : Sc j fin (after s t r ns' nt res) = Sc j fin s.
Proof. reflexivity. Qed.

Lemma new_le_Ec s kk t r k l j : pick kk (live s) = Some (t, r) -> b2n (on k l j t) + Cc k l j s <= Ec k l j s.
Proof.
  intros Hp. unfold Cc, Ec. rewrite (cntf_pick (on k l j) _ _ _ _ Hp). destruct (on k l j t); cbn [b2n]; lia.
Qed.

Lemma cb_new s kk t r l j : Inv s -> pick kk (live s) = Some (t, r) -> l <= D ->
  cbounds (fun k => b2n (on k l j t) + Cc k l j s) l j.
Proof.
  intros I Hp Hl. destruct (edges_ok H HF D ws hdr s I l Hl j) as (E1 & E2 & E3 & E4 & E5).
  pose proof (new_le_Ec s kk t r KR l j Hp). pose proof (new_le_Ec s kk t r KS l j Hp).
  pose proof (new_le_Ec s kk t r KN l j Hp).
  unfold NodeStep.cbounds. split; [lia|]. split; [lia|]. split; [lia|]. split.
  - intros Hj. destruct (E4 Hj). lia.
  - intros Hj. specialize (E5 Hj). lia.
Qed.

Lemma cbounds_ext a a' l j : (forall k, a k = a' k) -> cbounds a l j -> cbounds a' l j.
Proof. intros E. unfold NodeStep.cbounds. now rewrite !E. Qed.

Lemma tok_ok_live s kk t r : Inv s -> pick kk (live s) = Some (t, r) -> tok_ok t.
Proof.
  intros I Hp. pose proof (I_toks _ _ _ _ _ _ I) as Hall. rewrite Forall_forall in Hall.
  apply Hall. apply in_or_app. left. exact (proj1 (pick_In _ _ _ _ Hp)).
Qed.

(** ---- frame: everything except the node acted upon ---- *)
Lemma inv_after_mid s kk t r ns' nt : Inv s -> pick kk (live s) = Some (t, r) -> tlev t < D ->
  (forall l2 i2, l2 <> S (tlev t) \/ i2 <> tidx t / 2 -> ns' l2 i2 = ns s l2 i2) ->
  (forall t', nt = Some t' -> tok_ok t' /\ tlev t' = S (tlev t) /\ tidx t' = tidx t / 2) ->
  node_rel (ns' (S (tlev t)) (tidx t / 2))
           (fun k => b2n (on k (tlev t) (2 * (tidx t / 2)) t) + Cc k (tlev t) (2 * (tidx t / 2)) s)
           (fun k => b2n (on k (tlev t) (2 * (tidx t / 2) + 1) t) + Cc k (tlev t) (2 * (tidx t / 2) + 1) s)
           (fun k => ntc nt k (S (tlev t)) (tidx t / 2) + Ec k (S (tlev t)) (tidx t / 2) s)
           (tlev t) (tidx t / 2) ->
  Inv (after s t r ns' nt None).
Proof.
  intros I Hp HlD Hns Hnt Hrel.
  set (l := tlev t) in *. set (i := tidx t / 2) in *.
  assert (NT0 : forall k j, ntc nt k 0 j = 0).
  { intros k j. unfold ntc. destruct nt as [t'|]; [|reflexivity].
    destruct (Hnt t' eq_refl) as (_ & Hl' & _). rewrite on_other; [reflexivity|]. right. left. lia. }
  constructor.
  - (* user *) exact (I_user _ _ _ _ _ _ I).
  - (* leaf *)
    destruct (I_leaf _ _ _ _ _ _ I) as (L1 & L2 & L3). unfold leaf_inv.
    repeat split; intros j; rewrite ?Sc_after, (Ec_after _ _ _ _ _ _ kk _ _ _ Hp), NT0; cbn [Nat.add];
      [apply L1 | apply L2 | apply L3].
  - (* empty *)
    intros Hz. destruct (I_empty _ _ _ _ _ _ I Hz) as (_ & Hl & _). rewrite Hl in Hp. destruct kk; discriminate.
  - (* tokens *)
    pose proof (I_toks _ _ _ _ _ _ I) as Hall. rewrite Forall_forall in *.
    intros x Hx. unfold after in Hx. cbn [live hist] in Hx.
    destruct (pick_In _ _ _ _ Hp) as (Ht & Hr).
    apply in_app_or in Hx. destruct Hx as [Hx|[Hx|Hx]].
    + destruct nt as [t'|].
      * destruct Hx as [Hx|Hx]; [subst x; exact (proj1 (Hnt t' eq_refl))|].
        apply Hall, in_or_app. left. now apply Hr.
      * apply Hall, in_or_app. left. now apply Hr.
    + subst x. apply Hall, in_or_app. now left.
    + apply Hall, in_or_app. now right.
  - (* nodes *)
    intros l2 i2 Hl2. unfold Inv.node_inv.
    destruct (Nat.eq_dec l2 l) as [El|El]; [destruct (Nat.eq_dec i2 i) as [Ei|Ei]|].
    + subst l2 i2. eapply node_rel_ext; [| | |exact Hrel].
      * intros k. now rewrite Cc_after.
      * intros k. now rewrite Cc_after.
      * intros k. now rewrite (Ec_after _ _ _ _ _ _ kk _ _ _ Hp).
    + subst l2. change (ns (after s t r ns' nt None)) with ns'. rewrite Hns by (right; exact Ei).
      eapply node_rel_ext; [| | |exact (I_node _ _ _ _ _ _ I l i2 Hl2)].
      * intros k. rewrite Cc_after, on_other; [reflexivity|]. right. right.
        fold i. intros E. apply Ei. unfold i. rewrite E, Nat.mul_comm, Nat.div_mul; lia.
      * intros k. rewrite Cc_after, on_other; [reflexivity|]. right. right.
        fold i. intros E. apply Ei. unfold i. rewrite E, Nat.mul_comm, Nat.div_add_l, Nat.div_small; lia.
      * intros k. rewrite (Ec_after _ _ _ _ _ _ kk _ _ _ Hp). unfold ntc. destruct nt as [t'|]; [|reflexivity].
        destruct (Hnt t' eq_refl) as (_ & _ & Hi'). rewrite on_other; [reflexivity|]. right. right. fold i in Hi'. lia.
    + change (ns (after s t r ns' nt None)) with ns'. rewrite Hns by (left; fold l; lia).
      eapply node_rel_ext; [| | |exact (I_node _ _ _ _ _ _ I l2 i2 Hl2)].
      * intros k. rewrite Cc_after, on_other; [reflexivity|]. right. left. fold l. lia.
      * intros k. rewrite Cc_after, on_other; [reflexivity|]. right. left. fold l. lia.
      * intros k. rewrite (Ec_after _ _ _ _ _ _ kk _ _ _ Hp). unfold ntc. destruct nt as [t'|]; [|reflexivity].
        destruct (Hnt t' eq_refl) as (_ & Hl' & _). rewrite on_other; [reflexivity|]. right. left. fold l in Hl'. lia.
  - (* results *)
    destruct (I_res _ _ _ _ _ _ I) as (R1 & R2 & R3). unfold res_inv, after. cbn [results out hist span size todo].
    split; [|split; [exact R2 | exact R3]].
    rewrite R1. unfold Cc. cbn [hist]. rewrite !cntf_cons, !on_other; [reflexivity | |]; right; left; fold l; lia.
Qed.


(** ---- the node acted upon ---- *)
Lemma on_here t k : b2n (on k (tlev t) (tidx t) t) = b2n (k3_eqb (tkind t) k).
Proof. unfold on. now rewrite !Nat.eqb_refl, !andb_true_r. Qed.
Lemma on_sib t k j : j <> tidx t -> b2n (on k (tlev t) j t) = 0.
Proof. intros Hne. rewrite on_other; [reflexivity|]. right. right. lia. Qed.
Lemma fidx_half_le l j : j <= fidx l -> j / 2 <= fidx (S l).
Proof. intros Hle. rewrite fidx_S. apply Nat.div_le_mono; lia. Qed.
Lemma fidx_half_eq l j : j = fidx l -> j / 2 = fidx (S l).
Proof. intros ->. now rewrite fidx_S. Qed.

Definition mid_ok (s : sys) (t : tok) (ns' : nodes) (nt : option tok) : Prop :=
  (forall l2 i2, l2 <> S (tlev t) \/ i2 <> tidx t / 2 -> ns' l2 i2 = ns s l2 i2) /\
  (forall t', nt = Some t' -> tok_ok t' /\ tlev t' = S (tlev t) /\ tidx t' = tidx t / 2) /\
  node_rel (ns' (S (tlev t)) (tidx t / 2))
           (fun k => b2n (on k (tlev t) (2 * (tidx t / 2)) t) + Cc k (tlev t) (2 * (tidx t / 2)) s)
           (fun k => b2n (on k (tlev t) (2 * (tidx t / 2) + 1) t) + Cc k (tlev t) (2 * (tidx t / 2) + 1) s)
           (fun k => ntc nt k (S (tlev t)) (tidx t / 2) + Ec k (S (tlev t)) (tidx t / 2) s)
           (tlev t) (tidx t / 2).

Lemma tok_mid s kk t r : Inv s -> pick kk (live s) = Some (t, r) -> tlev t < D ->
  exists ns' nt, tok_step H D (ns s) t = (ns', nt, None) /\ mid_ok s t ns' nt.
Proof.
  intros I Hp HlD. pose proof (tok_ok_live s kk t r I Hp) as Hok.
  pose proof (cb_new s kk t r (tlev t) (2 * (tidx t / 2)) I Hp (Nat.lt_le_incl _ _ HlD)) as CA.
  pose proof (cb_new s kk t r (tlev t) (2 * (tidx t / 2) + 1) I Hp (Nat.lt_le_incl _ _ HlD)) as CB.
  pose proof (I_node _ _ _ _ _ _ I (tlev t) (tidx t / 2) HlD) as Hn. unfold Inv.node_inv in Hn.
  unfold mid_ok.
  destruct t as [l j v|l j o]; cbn [tlev tidx] in *; unfold tok_step;
    (destruct (Nat.eqb_spec l D) as [E|_]; [lia|]); cbv zeta;
    set (i := j / 2) in *; destruct (Nat.even j) eqn:Ev;
    [pose proof (half_even j Ev) as Hj | pose proof (half_odd j Ev) as Hj | pose proof (half_even j Ev) as Hj | pose proof (half_odd j Ev) as Hj];
    fold i in Hj.
  - (* regular, from the left *)
    destruct Hok as (_ & Hjf & Hv).
    assert (EA : forall k, b2n (on k l (2 * i) (TR l j v)) + Cc k l (2 * i) s = inc KR (fun k => Cc k l (2 * i) s) k).
    { intros k. rewrite <- Hj. now rewrite (on_here (TR l j v)). }
    assert (EB : forall k, b2n (on k l (2 * i + 1) (TR l j v)) + Cc k l (2 * i + 1) s = Cc k l (2 * i + 1) s).
    { intros k. rewrite (on_sib (TR l j v)); [reflexivity | cbn [tidx]; lia]. }
    destruct (rel_R_left H D ws _ _ _ _ l i v Hn (cbounds_ext _ _ _ _ EA CA) (cbounds_ext _ _ _ _ EB CB)) as (Hr & Hh).
    { now rewrite Hv, Hj. }
    cbv zeta in Hr, Hh. cbn [par] in Hr, Hh |- *.
    destruct (negb (par (ns s (S l) i))).
    + eexists _, None. split; [reflexivity|]. split; [intros; now apply upd_other|]. split; [discriminate|].
      rewrite upd_same. eapply node_rel_ext; [| | |exact Hr]; intros k; cbn [ntc Nat.add]; auto.
    + eexists _, (Some _). split; [reflexivity|]. split; [intros; now apply upd_other|]. split.
      * intros t' Ht'. inversion Ht'; subst t'. cbn [tlev tidx]. repeat split; try lia.
        -- now apply fidx_half_le.
        -- apply Hh. reflexivity.
      * rewrite upd_same. eapply node_rel_ext; [| | |exact Hr]; intros k; auto.
        unfold inc, ntc. now rewrite (on_here (TR (S l) i _)).
  - (* regular, from the right *)
    destruct Hok as (_ & Hjf & Hv).
    assert (EA : forall k, b2n (on k l (2 * i) (TR l j v)) + Cc k l (2 * i) s = Cc k l (2 * i) s).
    { intros k. rewrite (on_sib (TR l j v)); [reflexivity | cbn [tidx]; lia]. }
    assert (EB : forall k, b2n (on k l (2 * i + 1) (TR l j v)) + Cc k l (2 * i + 1) s = inc KR (fun k => Cc k l (2 * i + 1) s) k).
    { intros k. rewrite <- Hj. now rewrite (on_here (TR l j v)). }
    destruct (rel_R_right H D ws _ _ _ _ l i v Hn (cbounds_ext _ _ _ _ EA CA) (cbounds_ext _ _ _ _ EB CB)) as (Hr & Hh).
    { now rewrite Hv, Hj. }
    cbv zeta in Hr, Hh. cbn [par] in Hr, Hh |- *.
    destruct (negb (par (ns s (S l) i))).
    + eexists _, None. split; [reflexivity|]. split; [intros; now apply upd_other|]. split; [discriminate|].
      rewrite upd_same. eapply node_rel_ext; [| | |exact Hr]; intros k; cbn [ntc Nat.add]; auto.
    + eexists _, (Some _). split; [reflexivity|]. split; [intros; now apply upd_other|]. split.
      * intros t' Ht'. inversion Ht'; subst t'. cbn [tlev tidx]. repeat split; try lia.
        -- now apply fidx_half_le.
        -- apply Hh. reflexivity.
      * rewrite upd_same. eapply node_rel_ext; [| | |exact Hr]; intros k; auto.
        unfold inc, ntc. now rewrite (on_here (TR (S l) i _)).
  - (* final, from the left *)
    destruct Hok as (_ & Hjf & Hv).
    assert (Hz : zh H (S l) = vl l (2 * i + 1)).
    { symmetry. apply vl_zero; [lia | now rewrite <- Hj]. }
    assert (EB : forall k, b2n (on k l (2 * i + 1) (TF l j o)) + Cc k l (2 * i + 1) s = Cc k l (2 * i + 1) s).
    { intros k. rewrite (on_sib (TF l j o)); [reflexivity | cbn [tidx]; lia]. }
    destruct o as [v|].
    + assert (EA : forall k, b2n (on k l (2 * i) (TF l j (Some v))) + Cc k l (2 * i) s = inc KS (fun k => Cc k l (2 * i) s) k).
      { intros k. rewrite <- Hj. now rewrite (on_here (TF l j (Some v))). }
      destruct (rel_S_left H D ws _ _ _ _ l i v Hn (cbounds_ext _ _ _ _ EA CA) (cbounds_ext _ _ _ _ EB CB)) as (Hr & Hh); auto.
      { rewrite <- Hj. now apply Hv. }
      cbv zeta in Hr, Hh.
      eexists _, (Some _). split; [reflexivity|]. split; [intros; now apply upd_other|]. split.
      * intros t' Ht'. inversion Ht'; subst t'. cbn [tlev tidx]. repeat split; try lia.
        -- now apply fidx_half_eq.
        -- intros v' Ev'. inversion Ev'. exact Hh.
      * rewrite upd_same. eapply node_rel_ext; [| | |exact Hr]; intros k; auto.
        unfold inc, ntc. now rewrite (on_here (TF (S l) i (Some _))).
    + assert (EA : forall k, b2n (on k l (2 * i) (TF l j None)) + Cc k l (2 * i) s = inc KN (fun k => Cc k l (2 * i) s) k).
      { intros k. rewrite <- Hj. now rewrite (on_here (TF l j None)). }
      destruct (rel_N_left H D ws _ _ _ _ l i Hn (cbounds_ext _ _ _ _ EA CA) (cbounds_ext _ _ _ _ EB CB) Hz) as (Hr & Hh).
      cbv zeta in Hr, Hh. cbn [par] in Hr, Hh |- *.
      destruct (negb (par (ns s (S l) i))).
      * eexists _, (Some _). split; [reflexivity|]. split; [intros; now apply upd_other|]. split.
        -- intros t' Ht'. inversion Ht'; subst t'. cbn [tlev tidx]. repeat split; try lia.
           ++ now apply fidx_half_eq.
           ++ discriminate.
        -- rewrite upd_same. eapply node_rel_ext; [| | |exact Hr]; intros k; auto.
           unfold inc, ntc. now rewrite (on_here (TF (S l) i None)).
      * eexists _, (Some _). split; [reflexivity|]. split; [intros; now apply upd_other|]. split.
        -- intros t' Ht'. inversion Ht'; subst t'. cbn [tlev tidx]. repeat split; try lia.
           ++ now apply fidx_half_eq.
           ++ intros v' Ev'. inversion Ev'. now apply Hh.
        -- rewrite upd_same. eapply node_rel_ext; [| | |exact Hr]; intros k; auto.
           unfold inc, ntc. now rewrite (on_here (TF (S l) i (Some _))).
  - (* final, from the right *)
    destruct Hok as (_ & Hjf & Hv).
    assert (EA : forall k, b2n (on k l (2 * i) (TF l j o)) + Cc k l (2 * i) s = Cc k l (2 * i) s).
    { intros k. rewrite (on_sib (TF l j o)); [reflexivity | cbn [tidx]; lia]. }
    destruct o as [v|].
    + assert (EB : forall k, b2n (on k l (2 * i + 1) (TF l j (Some v))) + Cc k l (2 * i + 1) s = inc KS (fun k => Cc k l (2 * i + 1) s) k).
      { intros k. rewrite <- Hj. now rewrite (on_here (TF l j (Some v))). }
      destruct (rel_S_right H D ws _ _ _ _ l i v Hn (cbounds_ext _ _ _ _ EA CA) (cbounds_ext _ _ _ _ EB CB)) as (Hr & Hh).
      { rewrite <- Hj. now apply Hv. }
      cbv zeta in Hr, Hh. cbn [par] in Hr, Hh |- *.
      destruct (negb (par (ns s (S l) i))).
      * eexists _, (Some _). split; [reflexivity|]. split; [intros; now apply upd_other|]. split.
        -- intros t' Ht'. inversion Ht'; subst t'. cbn [tlev tidx]. repeat split; try lia.
           ++ now apply fidx_half_eq.
           ++ discriminate.
        -- rewrite upd_same. eapply node_rel_ext; [| | |exact Hr]; intros k; auto.
           unfold inc, ntc. now rewrite (on_here (TF (S l) i None)).
      * eexists _, (Some _). split; [reflexivity|]. split; [intros; now apply upd_other|]. split.
        -- intros t' Ht'. inversion Ht'; subst t'. cbn [tlev tidx]. repeat split; try lia.
           ++ now apply fidx_half_eq.
           ++ intros v' Ev'. inversion Ev'. now apply Hh.
        -- rewrite upd_same. eapply node_rel_ext; [| | |exact Hr]; intros k; auto.
           unfold inc, ntc. now rewrite (on_here (TF (S l) i (Some _))).
    + assert (EB : forall k, b2n (on k l (2 * i + 1) (TF l j None)) + Cc k l (2 * i + 1) s = inc KN (fun k => Cc k l (2 * i + 1) s) k).
      { intros k. rewrite <- Hj. now rewrite (on_here (TF l j None)). }
      pose proof (rel_N_right H D ws _ _ _ _ l i Hn (cbounds_ext _ _ _ _ EA CA) (cbounds_ext _ _ _ _ EB CB)) as Hr.
      eexists _, (Some _). split; [reflexivity|]. split; [reflexivity|]. split.
      * intros t' Ht'. inversion Ht'; subst t'. cbn [tlev tidx]. repeat split; try lia.
        -- now apply fidx_half_eq.
        -- discriminate.
      * eapply node_rel_ext; [| | |exact Hr]; intros k; auto.
        unfold inc, ntc. now rewrite (on_here (TF (S l) i None)).
Qed.

(** ---- a token at the root: the send on the result channel ---- *)
Definition payload (t : tok) : option (list N) := match t with TR _ _ v => Some v | TF _ _ o => o end.

Lemma tok_root s t : tlev t = D -> tok_step H D (ns s) t = (ns s, None, payload t).
Proof. intros E. destruct t as [l j v|l j o]; cbn [tlev] in E; subst l; unfold tok_step; now rewrite Nat.eqb_refl. Qed.

Lemma inv_after_root s kk t r : Inv s -> pick kk (live s) = Some (t, r) -> tlev t = D ->
  Inv (after s t r (ns s) None (payload t)).
Proof.
  intros I Hp HlD. pose proof (tok_ok_live s kk t r I Hp) as Hok.
  assert (Hsz : size s <> 0).
  { intros Hz. destruct (I_empty _ _ _ _ _ _ I Hz) as (_ & Hl & _). rewrite Hl in Hp. destruct kk; discriminate. }
  assert (Hidx : tidx t = 0 /\ forall v, payload t = Some v -> v = vl D 0).
  { destruct t as [l j v|l j o]; cbn [tlev tidx payload] in *; subst l.
    - destruct Hok as (_ & Hj & Hv). rewrite fidx_D in Hj. split; [lia|]. intros v' E. inversion E; subst v'.
      replace j with 0 in Hv by lia. exact Hv.
    - destruct Hok as (_ & Hj & Hv). rewrite fidx_D in Hj. split; [lia|]. intros v' E. subst j. now apply Hv. }
  destruct Hidx as (Hi0 & Hpay).
  constructor.
  - exact (I_user _ _ _ _ _ _ I).
  - destruct (I_leaf _ _ _ _ _ _ I) as (L1 & L2 & L3). unfold leaf_inv.
    repeat split; intros j; rewrite ?Sc_after, (Ec_after _ _ _ _ _ _ kk _ _ _ Hp); cbn [ntc Nat.add];
      [apply L1 | apply L2 | apply L3].
  - intros Hz. exfalso. exact (Hsz Hz).
  - pose proof (I_toks _ _ _ _ _ _ I) as Hall. rewrite Forall_forall in *.
    intros x Hx. unfold after in Hx. cbn [live hist] in Hx.
    destruct (pick_In _ _ _ _ Hp) as (Ht & Hr).
    apply in_app_or in Hx. destruct Hx as [Hx|[Hx|Hx]].
    + apply Hall, in_or_app. left. now apply Hr.
    + subst x. apply Hall, in_or_app. now left.
    + apply Hall, in_or_app. now right.
  - intros l2 i2 Hl2. unfold Inv.node_inv. change (ns (after s t r (ns s) None (payload t))) with (ns s).
    eapply node_rel_ext; [| | |exact (I_node _ _ _ _ _ _ I l2 i2 Hl2)].
    + intros k. rewrite Cc_after, on_other; [reflexivity|]. right. left. lia.
    + intros k. rewrite Cc_after, on_other; [reflexivity|]. right. left. lia.
    + intros k. now rewrite (Ec_after _ _ _ _ _ _ kk _ _ _ Hp).
  - destruct (I_res _ _ _ _ _ _ I) as (R1 & R2 & R3). unfold res_inv.
    rewrite !Cc_after. unfold after. cbn [results out span size todo hashed].
    replace (on KR D 0 t) with (k3_eqb (tkind t) KR) by (unfold on; now rewrite HlD, Hi0, !Nat.eqb_refl, !andb_true_r).
    replace (on KS D 0 t) with (k3_eqb (tkind t) KS) by (unfold on; now rewrite HlD, Hi0, !Nat.eqb_refl, !andb_true_r).
    destruct (payload t) as [v|] eqn:Epay.
    + assert (Hk : b2n (k3_eqb (tkind t) KR) + b2n (k3_eqb (tkind t) KS) = 1).
      { destruct t as [? ? ?|? ? [?|]]; cbn in *; try reflexivity. discriminate. }
      split; [rewrite app_length; cbn [length]; lia|]. split.
      * apply Forall_app. split; [exact R2|]. constructor; [|constructor]. now apply Hpay.
      * destruct (results s) as [|r0 rs] eqn:Er.
        -- cbn [app]. rewrite R3. change (hashed s) with (match todo s with [] => true | _ => false end).
           destruct (Nat.eqb_spec (size s) 0) as [E|E]; [contradiction|]. now rewrite andb_false_r.
        -- cbn [app]. now rewrite R3.
    + assert (Hk : b2n (k3_eqb (tkind t) KR) + b2n (k3_eqb (tkind t) KS) = 0).
      { destruct t as [? ? ?|? ? [?|]]; cbn in *; try reflexivity; discriminate. }
      split; [lia|]. split; [exact R2|]. rewrite R3. now destruct (results s).
Qed.

Theorem step_tok_inv s k : Inv s -> Inv (step H HF D s (CTok k)).
Proof.
  intros I. unfold step. destruct (pick k (live s)) as [[t r]|] eqn:Hp; [|exact I].
  pose proof (tok_ok_live s k t r I Hp) as Hok.
  assert (Hl : tlev t <= D) by (destruct t; cbn in *; tauto).
  destruct (Nat.eq_dec (tlev t) D) as [E|E].
  - rewrite (tok_root s t E). exact (inv_after_root s k t r I Hp E).
  - destruct (tok_mid s k t r I Hp) as (ns' & nt & Ets & M1 & M2 & M3); [lia|].
    rewrite Ets. apply (inv_after_mid s k t r ns' nt I Hp); auto. lia.
Qed.

End PresTok.
