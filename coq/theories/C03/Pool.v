(** C03 — trees reused through the channel-backed pool (pkg/bmt/pool.go Get/Put), and several
    hashers running at the same time on their own trees. *)
From Coq Require Import List NArith Arith Bool Lia.
Import ListNotations.
Require Import Aurora.C03.Ref Aurora.C03.Model Aurora.C03.Util Aurora.C03.Inv Aurora.C03.Edges
               Aurora.C03.NodeStep Aurora.C03.PresTok Aurora.C03.PresUser Aurora.C03.Final Aurora.C03.Term.

Definition tree : Type := (list N * nodes)%type.
(** one user of the pool: header, writes, and the schedule prefix under which its goroutines run *)
Definition user : Type := (list N * list (list N) * list choice)%type.

Section Pool.
Variable H HF : list N -> list N.
Variable D : nat.

(** [Pool.c] is a buffered channel: Get receives the oldest tree, Put sends to the back.
    Users come one after the other; [None]: a Get on an empty pool blocks forever, or a use did
    not finish within [fuel]. *)
Fixpoint pool_seq (fuel : nat) (p : list tree) (us : list user) : option (list (option (list N))) :=
  match us with
  | [] => Some []
  | (hdr, ws, sched) :: r =>
      match p with
      | [] => None
      | t :: p' =>
          match use_tree H HF D t hdr ws sched fuel with
          | Some (o, t') =>
              match pool_seq fuel (p' ++ [t']) r with Some os => Some (o :: os) | None => None end
          | None => None
          end
      end
  end.

Definition expected (u : user) : option (list N) :=
  match u with (hdr, ws, _) => Some (bmt_hash H HF D (copy_at (zeros 8) 0 hdr) (concat ws)) end.
Definition user_cost (u : user) : nat := match u with (_, ws, _) => (length ws + 1) * W D end.

Theorem pool_seq_correct fuel : forall us p,
  p <> [] -> Forall (fun t => tree_ok D (fst t) (snd t)) p ->
  Forall (fun u => user_cost u <= fuel) us ->
  pool_seq fuel p us = Some (map expected us).
Proof.
  induction us as [|[[hdr ws] sched] us IH]; intros p Hne Hok Hfuel; [reflexivity|].
  destruct p as [|[b0 n0] p']; [contradiction|]. cbn [pool_seq].
  inversion Hok as [|? ? Hok1 Hok2]; subst. inversion Hfuel as [|? ? Hf1 Hf2]; subst. cbn [fst snd user_cost] in *.
  destruct (use_tree_correct H HF D ws hdr b0 n0 sched fuel Hok1 Hf1) as (tr' & E & Hok').
  rewrite E. rewrite IH; auto.
  - destruct p'; discriminate.
  - apply Forall_app. split; [exact Hok2|]. constructor; [exact Hok'|constructor].
Qed.

(** ---- several hashers at the same time, each on the tree it got from the pool ---- *)
Fixpoint gstep (ss : list sys) (i : nat) (c : choice) : list sys :=
  match ss, i with
  | [], _ => []
  | s :: r, O => step H HF D s c :: r
  | s :: r, S i' => s :: gstep r i' c
  end.
Definition grun (ss : list sys) (sched : list (nat * choice)) : list sys :=
  fold_left (fun ss ic => gstep ss (fst ic) (snd ic)) sched ss.
Definition proj (i : nat) (sched : list (nat * choice)) : list choice :=
  map snd (filter (fun ic => fst ic =? i) sched).

Lemma gstep_nth ss i c j :
  nth_error (gstep ss i c) j =
  if j =? i then option_map (fun s => step H HF D s c) (nth_error ss j) else nth_error ss j.
Proof.
  revert i j. induction ss as [|s r IH]; intros i j.
  - cbn [gstep]. destruct (j =? i), j; reflexivity.
  - destruct i as [|i], j as [|j]; cbn [gstep nth_error Nat.eqb option_map]; try reflexivity. apply IH.
Qed.

Theorem grun_proj sched : forall ss j,
  nth_error (grun ss sched) j = option_map (fun s => run H HF D s (proj j sched)) (nth_error ss j).
Proof.
  induction sched as [|[i c] sched IH]; intros ss j.
  - cbn. now destruct (nth_error ss j).
  - cbn [grun fold_left fst snd]. fold (grun (gstep ss i c) sched). rewrite IH, gstep_nth.
    unfold proj. cbn [filter fst]. rewrite (Nat.eqb_sym i j).
    destruct (j =? i); cbn [map snd]; destruct (nth_error ss j); reflexivity.
Qed.

End Pool.
