(** C03 — consequences of the invariant: what each edge can have carried. *)
From Coq Require Import List NArith Arith Bool Lia.
Import ListNotations.
Require Import Aurora.C03.Ref Aurora.C03.Model Aurora.C03.Util Aurora.C03.Inv.

Lemma k3_eqb_spec a b : k3_eqb a b = true <-> a = b.
Proof. destruct a, b; cbn; split; intros E; try reflexivity; discriminate. Qed.

Lemma on_spec k l j t : on k l j t = true <-> tkind t = k /\ tlev t = l /\ tidx t = j.
Proof.
  unfold on. rewrite !andb_true_iff, k3_eqb_spec, !Nat.eqb_eq. tauto.
Qed.
Lemma on_self t : on (tkind t) (tlev t) (tidx t) t = true.
Proof. apply on_spec. auto. Qed.
Lemma on_other k l j t : (tkind t <> k \/ tlev t <> l \/ tidx t <> j) -> on k l j t = false.
Proof.
  intros Hne. destruct (on k l j t) eqn:E; [|reflexivity]. apply on_spec in E. tauto.
Qed.

Lemma Ec_app k l j s : Ec k l j s = cntf (on k l j) (live s ++ hist s).
Proof. unfold Ec. now rewrite cntf_app. Qed.
Lemma Cc_le_Ec k l j s : Cc k l j s <= Ec k l j s.
Proof. unfold Cc, Ec. lia. Qed.

Section Edges.
Variable H HF : list N -> list N.
Variable D : nat.
Variable ws : list (list N).
Variable hdr : list N.
Notation Inv := (Inv H HF D ws hdr).
Notation tok_ok := (tok_ok H D ws).
Notation fidx := (fidx D ws).
Notation edge_ok := (edge_ok D ws).
Notation pf := (pf D ws).

Lemma toks_zero s k l j :
  Forall tok_ok (live s ++ hist s) ->
  (forall t, tok_ok t -> tkind t = k -> tlev t = l -> tidx t = j -> False) -> Ec k l j s = 0.
Proof.
  intros Hall Hno. rewrite Ec_app. apply cntf_zero_forall. intros t Ht.
  destruct (on k l j t) eqn:E; [|reflexivity]. apply on_spec in E as (E1 & E2 & E3).
  exfalso. rewrite Forall_forall in Hall. exact (Hno t (Hall t Ht) E1 E2 E3).
Qed.

Lemma toks_F_pos s k l j : Forall tok_ok (live s ++ hist s) -> k <> KR -> j <> fidx l -> Ec k l j s = 0.
Proof.
  intros Hall Hk Hj. apply toks_zero; [exact Hall|]. intros [l' j' v|l' j' o] Hok E1 E2 E3; cbn in *.
  - congruence.
  - destruct Hok as (_ & Hf & _). subst. congruence.
Qed.
Lemma toks_R_pos s l j : Forall tok_ok (live s ++ hist s) -> fidx l < j -> Ec KR l j s = 0.
Proof.
  intros Hall Hj. apply toks_zero; [exact Hall|]. intros [l' j' v|l' j' o] Hok E1 E2 E3; cbn in *.
  - destruct Hok as (_ & Hf & _). subst. lia.
  - destruct o; discriminate.
Qed.

Lemma pos_le_pf s : user_inv D ws hdr s -> pos s <= pf.
Proof.
  intros (done & rest & Hws & _ & Hsz & Hpos & _). rewrite Hpos. apply posof_mono; [|apply fsize_le].
  rewrite Hsz. unfold fsize, alld. rewrite Hws, concat_app, app_length. lia.
Qed.

Lemma edges_ok s : Inv s -> forall l, l <= D -> forall j, edge_ok s l j.
Proof.
  intros I. pose proof (I_toks _ _ _ _ _ _ I) as Hall.
  induction l as [|l IH]; intros Hl j.
  - destruct (I_leaf _ _ _ _ _ _ I) as (L1 & L2 & L3).
    pose proof (pos_le_pf s (I_user _ _ _ _ _ _ I)) as Hp.
    specialize (L1 j). specialize (L2 j). specialize (L3 j).
    unfold edge_ok. rewrite fidx_0.
    assert (K : Ec KR 0 j s + Ec KS 0 j s <= 1 /\ Ec KS 0 j s <= 1).
    { destruct (j <? pos s) eqn:E1; destruct (j =? pf) eqn:E2;
        destruct (hashed s && negb (size s =? 0)) eqn:E3; cbn [b2n andb] in L1, L2;
        try apply Nat.ltb_lt in E1; try apply Nat.eqb_eq in E2; lia. }
    repeat split.
    + lia.
    + lia.
    + lia.
    + apply toks_F_pos; [exact Hall | discriminate | now rewrite fidx_0].
    + lia.
    + intros Hj. apply toks_R_pos; [exact Hall | now rewrite fidx_0].
  - assert (Hl' : l < D) by lia.
    pose proof (I_node _ _ _ _ _ _ I l j Hl') as Hn.
    destruct (IH (Nat.lt_le_incl _ _ Hl') (2 * j)) as (A1 & A2 & A3 & A4 & A5).
    destruct (IH (Nat.lt_le_incl _ _ Hl') (2 * j + 1)) as (B1 & B2 & B3 & B4 & B5).
    unfold node_inv, node_rel in Hn. cbv zeta beta in Hn.
    destruct Hn as (_ & _ & _ & U1 & U2 & U3 & U4).
    pose proof (Cc_le_Ec KR l (2 * j) s). pose proof (Cc_le_Ec KS l (2 * j) s). pose proof (Cc_le_Ec KN l (2 * j) s).
    pose proof (Cc_le_Ec KR l (2 * j + 1) s). pose proof (Cc_le_Ec KS l (2 * j + 1) s). pose proof (Cc_le_Ec KN l (2 * j + 1) s).
    assert (X : 2 * j <> fidx l \/ (2 * j = fidx l /\ 2 * j + 1 <> fidx l /\ fidx l < 2 * j + 1)) by lia.
    unfold edge_ok.
    assert (F1 : j <> fidx (S l) -> Ec KS (S l) j s = 0 /\ Ec KN (S l) j s = 0).
    { intros Hj. split; apply toks_F_pos; auto; discriminate. }
    assert (F2 : fidx (S l) < j -> Ec KR (S l) j s = 0) by (intros Hj; now apply toks_R_pos).
    destruct (Nat.eqb_spec (Cc KR l (2 * j) s + Cc KR l (2 * j + 1) s + Cc KS l (2 * j + 1) s + Cc KN l (2 * j) s) 2) as [ET|ET];
      cbn [b2n] in U1;
      (destruct X as [X|(X1 & X2 & X3)];
       [destruct (A4 X) as (Z1 & Z2) | destruct (B4 X2) as (Z1 & Z2); pose proof (B5 X3) as Z3]);
      repeat split; try assumption; lia.
Qed.

End Edges.
