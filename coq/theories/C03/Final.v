(** C03 — initial state, safety, result at quiescence, termination. *)
From Coq Require Import List NArith Arith Bool Lia.
Import ListNotations.
Require Import Aurora.C03.Ref Aurora.C03.Model Aurora.C03.Util Aurora.C03.Inv Aurora.C03.Edges
               Aurora.C03.NodeStep Aurora.C03.PresTok Aurora.C03.PresUser.

Ltac gen_counts s l i :=
  set (aR := Ec KR l (2 * i) s) in *; set (aS := Ec KS l (2 * i) s) in *; set (aN := Ec KN l (2 * i) s) in *;
  set (bR := Ec KR l (2 * i + 1) s) in *; set (bS := Ec KS l (2 * i + 1) s) in *; set (bN := Ec KN l (2 * i + 1) s) in *;
  set (uR := Ec KR (S l) i s) in *; set (uS := Ec KS (S l) i s) in *; set (uN := Ec KN (S l) i s) in *;
  clearbody aR aS aN bR bS bN uR uS uN.

Section Final.
Variable H HF : list N -> list N.
Variable D : nat.
Variable ws : list (list N).
Variable hdr : list N.
Notation Inv := (Inv H HF D ws hdr).
Notation fidx := (fidx D ws).
Notation vl := (vl H D ws).
Notation msz := (msz D).
Notation pdata := (pdata D ws).
Notation fsize := (fsize D ws).
Notation pf := (pf D ws).

Definition tree_ok (buf0 : list N) (ns0 : nodes) : Prop :=
  length buf0 = maxsize D /\ forall l i, l < D -> par (ns0 (S l) i) = false.

Lemma init_inv buf0 ns0 : tree_ok buf0 ns0 -> Inv (init buf0 ns0 hdr ws).
Proof.
  intros (Hlen & Hpar). unfold init. constructor.
  - exists [], ws. cbn [todo size pos buf span hashed concat length]. repeat split; auto.
    + unfold posof. pose proof (msz_pos D). destruct (Nat.eqb_spec 0 msz); [lia|]. reflexivity.
    + assert (Hh : hashed (mkS buf0 0 0 (copy_at (zeros 8) 0 hdr) ns0 (map UWrite ws ++ [UHash]) [] [] [] [] None) = false)
        by (unfold hashed; cbn [todo]; now destruct ws).
      now rewrite Hh.
  - unfold leaf_inv, Sc, Ec. cbn [starts live hist pos size todo].
    assert (Hh : hashed (mkS buf0 0 0 (copy_at (zeros 8) 0 hdr) ns0 (map UWrite ws ++ [UHash]) [] [] [] [] None) = false)
      by (unfold hashed; cbn [todo]; now destruct ws).
    rewrite Hh. repeat split; intros j; rewrite !cntf_nil; reflexivity.
  - intros _. cbn. auto.
  - cbn. constructor.
  - intros l i Hl. unfold node_inv, node_rel, Cc, Ec. cbn [ns live hist]. rewrite !cntf_nil. cbn [Nat.add Nat.eqb b2n Nat.odd Nat.even negb].
    rewrite (Hpar l i Hl). repeat split; try lia; intros; lia.
  - unfold res_inv, Cc. cbn [results out hist span size todo]. rewrite !cntf_nil.
    assert (Hh : hashed (mkS buf0 0 0 (copy_at (zeros 8) 0 hdr) ns0 (map UWrite ws ++ [UHash]) [] [] [] [] None) = false)
      by (unfold hashed; cbn [todo]; now destruct ws).
    rewrite Hh. repeat split; auto.
Qed.

Lemma vl_root : vl D 0 = bmt_root H D pdata.
Proof. unfold Inv.vl. symmetry. apply bmt_root_val. unfold Inv.pdata. apply pad_length. Qed.

Definition the_span : list N := copy_at (zeros 8) 0 hdr.
Definition the_hash : list N := bmt_hash H HF D the_span (concat ws).

Lemma the_hash_eq : the_hash = HF (the_span ++ vl D 0).
Proof. unfold the_hash, bmt_hash. now rewrite vl_root. Qed.

(** ---- safety: at most one value is ever sent, and it is the reference root ---- *)
Theorem inv_safety s : Inv s ->
  (results s = [] \/ results s = [bmt_root H D pdata]) /\ (out s = None \/ out s = Some the_hash).
Proof.
  intros I. destruct (I_res _ _ _ _ _ _ I) as (R1 & R2 & R3).
  destruct (edges_ok H HF D ws hdr s I D (Nat.le_refl D) 0) as (E1 & _).
  pose proof (Cc_le_Ec KR D 0 s). pose proof (Cc_le_Ec KS D 0 s).
  destruct (I_user _ _ _ _ _ _ I) as (done & rest & Hws & Htodo & Hsize & _ & _ & Hspan & _).
  rewrite the_hash_eq, <- vl_root. unfold the_span. rewrite <- Hspan.
  destruct (results s) as [|r0 [|r1 rs]] eqn:Er; cbn [length] in R1; try lia.
  - split; [now left|]. rewrite R3.
    destruct (hashed s) eqn:Eh; cbn [andb]; [|now left].
    destruct (Nat.eqb_spec (size s) 0) as [Ez|Ez]; [|now left]. right.
    assert (fsize = 0) as Ef.
    { unfold hashed in Eh. destruct Htodo as [Ht|(Ht & Hr)]; [rewrite Ht in Eh; destruct rest; discriminate|].
      subst rest. rewrite app_nil_r in Hws. subst done. unfold Inv.fsize, alld. lia. }
    now rewrite (vl_all_zero H D ws Ef).
  - inversion R2; subst. split; [now right|]. rewrite R3. now right.
Qed.

(** ---- write-once discipline: per use, each register of a node is written by at most one
    goroutine step ([Cc] counts the tokens that have acted: regular and hash-carrying final tokens
    write the register of their side; a final token from the left also writes the right register) ---- *)
Theorem registers_written_once s l i : Inv s -> l < D ->
  Cc KR l (2 * i) s + Cc KS l (2 * i) s <= 1 /\
  Cc KR l (2 * i + 1) s + Cc KS l (2 * i + 1) s + Cc KS l (2 * i) s + Cc KN l (2 * i) s <= 1.
Proof.
  intros I Hl.
  destruct (edges_ok H HF D ws hdr s I l (Nat.lt_le_incl _ _ Hl) (2 * i)) as (A1 & A2 & A3 & A4 & A5).
  destruct (edges_ok H HF D ws hdr s I l (Nat.lt_le_incl _ _ Hl) (2 * i + 1)) as (B1 & B2 & B3 & B4 & B5).
  pose proof (Cc_le_Ec KR l (2 * i) s). pose proof (Cc_le_Ec KS l (2 * i) s). pose proof (Cc_le_Ec KN l (2 * i) s).
  pose proof (Cc_le_Ec KR l (2 * i + 1) s). pose proof (Cc_le_Ec KS l (2 * i + 1) s).
  assert (X : 2 * i <> fidx l \/ (2 * i = fidx l /\ 2 * i + 1 <> fidx l /\ fidx l < 2 * i + 1)) by lia.
  destruct X as [X|(X1 & X2 & X3)].
  - destruct (A4 X). lia.
  - destruct (B4 X2). pose proof (B5 X3). lia.
Qed.

(** ---- completion: at quiescence everything has been delivered ---- *)
Definition quiescent (s : sys) : Prop := todo s = [] /\ starts s = [] /\ live s = [].

Lemma quiescentb_spec s : quiescentb s = true <-> quiescent s.
Proof.
  unfold quiescentb, quiescent. destruct (todo s), (starts s), (live s); split; intros E; try discriminate; auto;
    destruct E as (E1 & E2 & E3); discriminate.
Qed.

Definition full (s : sys) (l : nat) : Prop :=
  (forall j, j < fidx l -> Ec KR l j s = 1) /\
  (Ec KS l (fidx l) s = 1 \/ (Ec KN l (fidx l) s = 1 /\ Ec KR l (fidx l) s = 1)).

Lemma quiescent_Ec s k l j : quiescent s -> Ec k l j s = Cc k l j s.
Proof. intros (_ & _ & Hl). unfold Ec, Cc. now rewrite Hl. Qed.

Lemma quiescent_hashed s : Inv s -> quiescent s -> hashed s = true /\ size s = fsize /\ pos s = pf.
Proof.
  intros I (Ht & _ & _).
  destruct (I_user _ _ _ _ _ _ I) as (done & rest & Hws & Htodo & Hsize & Hposs & _).
  destruct Htodo as [Ht'|(_ & Hr)]; [rewrite Ht in Ht'; destruct rest; discriminate|].
  subst rest. rewrite app_nil_r in Hws. subst done.
  assert (size s = fsize) as Hf by exact Hsize.
  repeat split; [unfold hashed; now rewrite Ht | exact Hf | rewrite Hposs, Hf; reflexivity].
Qed.

Lemma full_all s : Inv s -> quiescent s -> size s <> 0 -> forall l, l <= D -> full s l.
Proof.
  intros I Q Hsz. destruct (quiescent_hashed s I Q) as (Hh & Hfs & Hpf).
  pose proof (I_toks _ _ _ _ _ _ I) as Hall.
  induction l as [|l IH]; intros Hl.
  - destruct (I_leaf _ _ _ _ _ _ I) as (L1 & L2 & _). destruct Q as (_ & Hst & _).
    unfold full. rewrite fidx_0. split.
    + intros j Hj. specialize (L1 j). unfold Sc in L1. rewrite Hst, cntf_nil, Hpf in L1.
      destruct (Nat.ltb_spec j pf); [exact L1 | lia].
    + left. specialize (L2 pf). unfold Sc in L2. rewrite Hst, cntf_nil, Hh, Nat.eqb_refl in L2.
      destruct (Nat.eqb_spec (size s) 0); [contradiction | exact L2].
  - assert (Hl' : l < D) by lia. destruct (IH (Nat.lt_le_incl _ _ Hl')) as (F1 & F2).
    pose proof (fidx_parity D ws l) as FP.
    assert (Hnode : forall i, i <= fidx (S l) ->
              (i < fidx (S l) -> Ec KR (S l) i s = 1) /\
              (i = fidx (S l) -> Ec KS (S l) i s = 1 \/ (Ec KN (S l) i s = 1 /\ Ec KR (S l) i s = 1))).
    { intros i Hi. pose proof (I_node _ _ _ _ _ _ I l i Hl') as Hn. unfold node_inv, node_rel in Hn. cbv zeta beta in Hn.
      destruct Hn as (_ & _ & _ & U1 & U2 & U3 & U4).
      rewrite <- !(quiescent_Ec s _ _ _ Q) in *.
      destruct (edges_ok H HF D ws hdr s I l (Nat.lt_le_incl _ _ Hl') (2 * i)) as (A1 & A2 & A3 & A4 & A5).
      destruct (edges_ok H HF D ws hdr s I l (Nat.lt_le_incl _ _ Hl') (2 * i + 1)) as (B1 & B2 & B3 & B4 & B5).
      pose proof (b2n_eqb_cases (Ec KR l (2 * i) s + Ec KR l (2 * i + 1) s + Ec KS l (2 * i + 1) s + Ec KN l (2 * i) s) 2) as BC.
      assert (FS : Ec KS (S l) i s = 0 /\ Ec KN (S l) i s = 0 \/ i = fidx (S l)).
      { destruct (Nat.eq_dec i (fidx (S l))); [now right|left]. split; apply (toks_F_pos H D ws); auto; discriminate. }
      destruct (Nat.odd (fidx l)) eqn:Eo; cbn [b2n] in FP.
      - (* final path through the right child of fidx (S l) *)
        split; intros Hi'.
        + pose proof (F1 (2 * i) ltac:(lia)) as G1. pose proof (F1 (2 * i + 1) ltac:(lia)) as G2.
          destruct (A4 ltac:(lia)) as (G3 & G4). destruct (B4 ltac:(lia)) as (G5 & G6). clear F1 F2 IH.
          gen_counts s l i. destruct FS as [(Z1 & Z2)|]; lia.
        + pose proof (F1 (2 * i) ltac:(lia)) as G1. destruct (A4 ltac:(lia)) as (G3 & G4).
          replace (fidx l) with (2 * i + 1) in F2 by lia. clear F1 IH.
          gen_counts s l i. destruct F2 as [F2|(F2 & F3)]; lia.
      - (* final path through the left child *)
        split; intros Hi'.
        + pose proof (F1 (2 * i) ltac:(lia)) as G1. pose proof (F1 (2 * i + 1) ltac:(lia)) as G2.
          destruct (A4 ltac:(lia)) as (G3 & G4). destruct (B4 ltac:(lia)) as (G5 & G6). clear F1 F2 IH.
          gen_counts s l i. destruct FS as [(Z1 & Z2)|]; lia.
        + destruct (B4 ltac:(lia)) as (G5 & G6). pose proof (B5 ltac:(lia)) as G7.
          replace (fidx l) with (2 * i) in F2 by lia. clear F1 IH.
          gen_counts s l i. destruct F2 as [F2|(F2 & F3)]; lia. }
    split.
    + intros j Hj. now apply (Hnode j (Nat.lt_le_incl _ _ Hj)).
    + now apply (Hnode (fidx (S l)) (Nat.le_refl _)).
Qed.

Theorem inv_quiescent s : Inv s -> quiescent s ->
  out s = Some the_hash /\ length (buf s) = maxsize D /\ (forall l i, l < D -> par (ns s (S l) i) = false).
Proof.
  intros I Q. destruct (quiescent_hashed s I Q) as (Hh & Hfs & Hpf).
  destruct (I_res _ _ _ _ _ _ I) as (R1 & R2 & R3).
  destruct (I_user _ _ _ _ _ _ I) as (done & rest & Hws & Htodo & Hsize & _ & Hlen & Hspan & _).
  pose proof (I_toks _ _ _ _ _ _ I) as Hall.
  split; [|split; [exact Hlen|]].
  - rewrite the_hash_eq. unfold the_span. rewrite <- Hspan.
    destruct (Nat.eq_dec (size s) 0) as [Ez|Ez].
    + destruct (I_empty _ _ _ _ _ _ I Ez) as (_ & _ & _ & Er). rewrite R3, Er, Hh, Ez. cbn [Nat.eqb andb].
      rewrite (vl_all_zero H D ws); [reflexivity | lia].
    + destruct (full_all s I Q Ez D (Nat.le_refl D)) as (_ & F2). rewrite (fidx_D D ws) in F2.
      rewrite !(quiescent_Ec s _ _ _ Q) in F2.
      destruct (results s) as [|r0 rs] eqn:Er; [cbn [length] in R1; lia|].
      inversion R2; subst. now rewrite R3.
  - intros l i Hl. pose proof (I_node _ _ _ _ _ _ I l i Hl) as Hn. unfold node_inv, node_rel in Hn. cbv zeta beta in Hn.
    destruct Hn as (P & _). rewrite P.
    destruct (Nat.eq_dec (size s) 0) as [Ez|Ez].
    + destruct (I_empty _ _ _ _ _ _ I Ez) as (_ & _ & Eh & _). unfold Cc. rewrite Eh, !cntf_nil. reflexivity.
    + rewrite <- !(quiescent_Ec s _ _ _ Q).
      destruct (full_all s I Q Ez l (Nat.lt_le_incl _ _ Hl)) as (F1 & F2).
      destruct (edges_ok H HF D ws hdr s I l (Nat.lt_le_incl _ _ Hl) (2 * i)) as (A1 & A2 & A3 & A4 & A5).
      destruct (edges_ok H HF D ws hdr s I l (Nat.lt_le_incl _ _ Hl) (2 * i + 1)) as (B1 & B2 & B3 & B4 & B5).
      assert (T : Ec KR l (2 * i) s + Ec KR l (2 * i + 1) s + Ec KS l (2 * i + 1) s + Ec KN l (2 * i) s = 0 \/
                  Ec KR l (2 * i) s + Ec KR l (2 * i + 1) s + Ec KS l (2 * i + 1) s + Ec KN l (2 * i) s = 2).
      { destruct (Nat.lt_trichotomy (2 * i + 1) (fidx l)) as [C|[C|C]].
        - pose proof (F1 (2 * i) ltac:(lia)) as G1. pose proof (F1 (2 * i + 1) ltac:(lia)) as G2.
          destruct (A4 ltac:(lia)) as (G3 & G4). destruct (B4 ltac:(lia)) as (G5 & G6). clear F1 F2 P.
          gen_counts s l i. lia.
        - pose proof (F1 (2 * i) ltac:(lia)) as G1. destruct (A4 ltac:(lia)) as (G3 & G4).
          rewrite <- C in F2. clear F1 P. gen_counts s l i. destruct F2 as [F2|(F2 & F3)]; lia.
        - destruct (B4 ltac:(lia)) as (G5 & G6). pose proof (B5 ltac:(lia)) as G7.
          destruct (Nat.eq_dec (2 * i) (fidx l)) as [C2|C2].
          + rewrite <- C2 in F2. clear F1 P. gen_counts s l i. destruct F2 as [F2|(F2 & F3)]; lia.
          + destruct (A4 C2) as (G3 & G4). pose proof (A5 ltac:(lia)) as G8. clear F1 F2 P. gen_counts s l i. lia. }
      destruct T as [T|T]; rewrite T; reflexivity.
Qed.

End Final.
