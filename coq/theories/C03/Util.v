(** C03 — list, counting and buffer lemmas used by the proofs. *)
From Coq Require Import List NArith Arith Bool Lia.
Import ListNotations.
Require Import Aurora.C03.Ref Aurora.C03.Model.

(** ---- pick ---- *)
Lemma pick_split {A} : forall k (l : list A) x r,
  pick k l = Some (x, r) -> exists l1 l2, l = l1 ++ x :: l2 /\ r = l1 ++ l2.
Proof.
  induction k as [|k IH]; intros [|y t] x r Hp; cbn [pick] in Hp; try discriminate.
  - inversion Hp; subst. now exists [], r.
  - destruct (pick k t) as [[z r']|] eqn:E; [|discriminate]. inversion Hp; subst.
    destruct (IH _ _ _ E) as (l1 & l2 & -> & ->). now exists (y :: l1), l2.
Qed.

Definition cntf {A} (f : A -> bool) (l : list A) : nat := length (filter f l).
Lemma cntf_app {A} (f : A -> bool) l1 l2 : cntf f (l1 ++ l2) = cntf f l1 + cntf f l2.
Proof. unfold cntf. now rewrite filter_app, app_length. Qed.
Lemma cntf_cons {A} (f : A -> bool) x l : cntf f (x :: l) = (if f x then 1 else 0) + cntf f l.
Proof. unfold cntf. cbn [filter]. now destruct (f x). Qed.
Lemma cntf_nil {A} (f : A -> bool) : cntf f [] = 0.
Proof. reflexivity. Qed.
Lemma cntf_pick {A} (f : A -> bool) k l x r :
  pick k l = Some (x, r) -> cntf f l = (if f x then 1 else 0) + cntf f r.
Proof.
  intros Hp. destruct (pick_split _ _ _ _ Hp) as (l1 & l2 & -> & ->).
  rewrite !cntf_app, cntf_cons. lia.
Qed.
Lemma pick_In {A} k (l : list A) x r : pick k l = Some (x, r) -> In x l /\ (forall y, In y r -> In y l).
Proof.
  intros Hp. destruct (pick_split _ _ _ _ Hp) as (l1 & l2 & -> & ->). split.
  - apply in_or_app. right. now left.
  - intros y Hy. apply in_app_or in Hy. apply in_or_app. destruct Hy; [now left | right; now right].
Qed.
Lemma pick_length {A} k (l : list A) x r : pick k l = Some (x, r) -> length l = S (length r).
Proof.
  intros Hp. destruct (pick_split _ _ _ _ Hp) as (l1 & l2 & -> & ->).
  rewrite !app_length. cbn [length]. lia.
Qed.
Lemma pick_0 {A} (x : A) l : pick 0 (x :: l) = Some (x, l).
Proof. reflexivity. Qed.
Lemma cntf_zero_forall {A} (f : A -> bool) l : (forall x, In x l -> f x = false) -> cntf f l = 0.
Proof.
  induction l as [|x l IH]; intros Hf; [reflexivity|]. rewrite cntf_cons, Hf by now left.
  rewrite IH; [reflexivity|]. intros y Hy. apply Hf. now right.
Qed.
Lemma cntf_seq_map (j from n : nat) (f : nat * bool -> bool) :
  (forall i, f (i, false) = (i =? j)) ->
  cntf f (map (fun i => (i, false)) (seq from n)) = if (from <=? j) && (j <? from + n) then 1 else 0.
Proof.
  intros Hf. revert from. induction n as [|n IH]; intros from.
  - cbn [seq map]. rewrite cntf_nil.
    destruct (Nat.leb_spec from j), (Nat.ltb_spec j (from + 0)); cbn [andb]; try reflexivity; lia.
  - cbn [seq map]. rewrite cntf_cons, IH, Hf.
    destruct (Nat.eqb_spec from j), (Nat.leb_spec from j), (Nat.leb_spec (S from) j),
      (Nat.ltb_spec j (S from + n)), (Nat.ltb_spec j (from + S n)); cbn [andb]; try reflexivity; lia.
Qed.

(** ---- buffers ---- *)
Lemma copy_at_length buf off b : off <= length buf -> length (copy_at buf off b) = length buf.
Proof.
  intros Ho. unfold copy_at. rewrite !app_length, !firstn_length, skipn_length. lia.
Qed.

Lemma firstn_app_exact {A} (l1 l2 : list A) n : n = length l1 -> firstn n (l1 ++ l2) = l1.
Proof. intros ->. rewrite firstn_app, Nat.sub_diag, firstn_all. cbn. now rewrite app_nil_r. Qed.

(** after [copy(buf[off:], b)] the first [off + min(len b, room)] bytes are the old prefix followed by b's *)
Lemma copy_at_prefix buf off b : off <= length buf ->
  let n := Nat.min (length b) (length buf - off) in
  firstn (off + n) (copy_at buf off b) = firstn off buf ++ firstn n b.
Proof.
  intros Ho n. unfold copy_at. fold n. rewrite app_assoc. apply firstn_app_exact.
  rewrite app_length, !firstn_length. subst n. lia.
Qed.

Lemma firstn_firstn_le {A} (l : list A) n m : n <= m -> firstn n (firstn m l) = firstn n l.
Proof. intros Hle. rewrite firstn_firstn. now rewrite Nat.min_l. Qed.

Lemma firstn_eq_le {A} (a b : list A) n m : m <= n -> firstn n a = firstn n b -> firstn m a = firstn m b.
Proof. intros Hle E. rewrite <- (firstn_firstn_le a m n Hle), <- (firstn_firstn_le b m n Hle). now rewrite E. Qed.

Lemma section_prefix (a b : list N) n j : firstn n a = firstn n b -> SEC * (j + 1) <= n -> section a j = section b j.
Proof.
  intros E Hle. unfold section.
  assert (P : forall x : list N, firstn SEC (skipn (SEC * j) x) = firstn SEC (skipn (SEC * j) (firstn n x))).
  { intros x. rewrite skipn_firstn_comm, firstn_firstn. f_equal. lia. }
  now rewrite (P a), (P b), E.
Qed.

Lemma skipn_repeat {A} (x : A) n k : skipn k (repeat x n) = repeat x (n - k).
Proof.
  revert n; induction k as [|k IH]; intros n; [now rewrite Nat.sub_0_r|].
  destruct n as [|n]; [reflexivity|]. cbn [repeat skipn]. apply IH.
Qed.
Lemma firstn_repeat {A} (x : A) n k : firstn k (repeat x n) = repeat x (Nat.min k n).
Proof.
  revert n; induction k as [|k IH]; intros n; [reflexivity|].
  destruct n as [|n]; [reflexivity|]. cbn [repeat firstn Nat.min]. f_equal. apply IH.
Qed.

(** sections of the padded data that start at or after the data's end are zero *)
Lemma section_pad_zero (d : list N) n j : SEC * (j + 1) <= n -> Nat.min (length d) n <= SEC * j ->
  section (pad n d) j = zeros SEC.
Proof.
  intros Hle Hz. unfold section, pad.
  rewrite skipn_firstn_comm, firstn_firstn, Nat.min_l by lia.
  destruct (Nat.le_gt_cases (length d) n) as [Hd|Hd].
  - rewrite Nat.min_l in Hz by lia. rewrite skipn_app, (skipn_all2 d) by lia. cbn [app].
    unfold zeros. rewrite skipn_repeat, firstn_repeat. f_equal. lia.
  - rewrite Nat.min_r in Hz by lia. unfold SEC in *. lia.
Qed.
