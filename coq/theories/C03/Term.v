(** C03 — termination measure, the deterministic drain, and the packaged theorems. *)
From Coq Require Import List NArith Arith Bool Lia.
Import ListNotations.
Require Import Aurora.C03.Ref Aurora.C03.Model Aurora.C03.Util Aurora.C03.Inv Aurora.C03.Edges
               Aurora.C03.NodeStep Aurora.C03.PresTok Aurora.C03.PresUser Aurora.C03.Final.

Section Term.
Variable H HF : list N -> list N.
Variable D : nat.

Definition tw (t : tok) : nat := D + 1 - tlev t.
Definition W : nat := 2 ^ D * (D + 2) + 1.
Definition mu (s : sys) : nat :=
  length (todo s) * W + length (starts s) * (D + 2) + list_sum (map tw (live s)).

Lemma sum_pick k (l : list tok) t r : pick k l = Some (t, r) ->
  list_sum (map tw l) = tw t + list_sum (map tw r).
Proof.
  intros Hp. destruct (pick_split _ _ _ _ Hp) as (l1 & l2 & -> & ->).
  rewrite !map_app, !list_sum_app. cbn [map].
  change (list_sum (tw t :: map tw l2)) with (tw t + list_sum (map tw l2)). lia.
Qed.

Section WithWs.
Variable ws : list (list N).
Variable hdr : list N.
Notation Inv := (Inv H HF D ws hdr).

Lemma mu_tok s k t r : Inv s -> pick k (live s) = Some (t, r) -> mu (step H HF D s (CTok k)) < mu s.
Proof.
  intros I Hp. unfold step. rewrite Hp.
  pose proof (tok_ok_live H HF D ws hdr s k t r I Hp) as Hok.
  assert (Hl : tlev t <= D) by (destruct t; cbn in *; tauto).
  assert (Htw : 1 <= tw t /\ tw t = D + 1 - tlev t) by (unfold tw; lia).
  unfold mu at 2. rewrite (sum_pick _ _ _ _ Hp).
  destruct (Nat.eq_dec (tlev t) D) as [E|E].
  - rewrite (tok_root H D s t E). unfold mu. cbn [todo starts live]. lia.
  - destruct (tok_mid H HF D ws hdr s k t r I Hp) as (ns' & nt & Ets & _ & M2 & _); [lia|].
    rewrite Ets. unfold mu. cbn [todo starts live]. destruct nt as [t'|].
    + destruct (M2 t' eq_refl) as (_ & Hl' & _). cbn [map].
      change (list_sum (tw t' :: map tw r)) with (tw t' + list_sum (map tw r)).
      assert (tw t' = D + 1 - S (tlev t)) by (unfold tw; now rewrite Hl'). lia.
    + lia.
Qed.

Lemma mu_start s k x r : pick k (starts s) = Some (x, r) -> mu (step H HF D s (CStart k)) < mu s.
Proof.
  intros Hp. unfold step. rewrite Hp. destruct x as [j fin]. unfold mu. cbn [todo starts live map].
  change (list_sum (tw (start_tok H (buf s) j fin) :: map tw (live s)))
    with (tw (start_tok H (buf s) j fin) + list_sum (map tw (live s))).
  rewrite (pick_length _ _ _ _ Hp).
  assert (tw (start_tok H (buf s) j fin) = D + 1) by (unfold tw, start_tok; destruct fin; cbn [tlev]; lia).
  lia.
Qed.

Lemma mu_user s : Inv s -> todo s <> [] -> mu (step H HF D s CUser) < mu s.
Proof.
  intros I Hne. unfold step. destruct (todo s) as [|[b|] rest0] eqn:Et; [contradiction| |].
  - destruct (I_user _ _ _ _ _ _ I) as (done & rest & _ & _ & Hsize & _).
    unfold write_op, set_todo, mu. cbn [todo starts live size]. rewrite Et, app_length, map_length, seq_length.
    set (l := Nat.min (length b) (maxsize D - size s)).
    set (sz' := size s + l).
    assert (Hsz' : sz' <= msz D) by (unfold sz', l, msz in *; lia).
    pose proof (posof_lt D sz' Hsz') as PL. pose proof (msz_div D) as MD.
    set (to := if l =? maxsize D - size s then sz' / SEC - 1 else sz' / SEC).
    assert (Hto : to <= 2 ^ D).
    { unfold to. unfold posof in PL. unfold msz in *.
      destruct (Nat.eqb_spec l (maxsize D - size s)) as [El|El].
      - assert (Es : sz' = maxsize D) by (unfold sz'; lia). rewrite Es, MD. lia.
      - destruct (Nat.eqb_spec sz' (maxsize D)) as [Es|Es]; [unfold sz' in Es; lia | lia]. }
    assert (Hg : (to - size s / SEC) * (D + 2) <= 2 ^ D * (D + 2)) by (apply Nat.mul_le_mono_r; lia).
    unfold W. cbn [length]. rewrite Nat.mul_add_distr_r.
    remember (2 ^ D * (D + 2)) as K eqn:EK. remember ((to - size s / SEC) * (D + 2)) as G eqn:EG.
    remember (length (starts s) * (D + 2)) as S0 eqn:ES. clear EK EG ES. nia.
  - unfold hash_op, set_todo, mu. cbn [todo starts live size]. rewrite Et. pose proof (pow2_pos D) as P.
    assert (Hw : D + 2 < W) by (unfold W; nia).
    destruct (size s =? 0); cbn [todo starts live length]; rewrite ?app_length; cbn [length]; lia.
Qed.

Lemma mu_step_le s c : Inv s -> mu (step H HF D s c) <= mu s.
Proof.
  intros I. destruct c as [|k|k].
  - destruct (todo s) eqn:Et; [unfold step; now rewrite Et | apply Nat.lt_le_incl, mu_user; [exact I | now rewrite Et]].
  - destruct (pick k (starts s)) as [[x r]|] eqn:Hp; [apply Nat.lt_le_incl; eapply mu_start; eauto | unfold step; now rewrite Hp].
  - destruct (pick k (live s)) as [[t r]|] eqn:Hp; [apply Nat.lt_le_incl; eapply mu_tok; eauto | unfold step; now rewrite Hp].
Qed.

Lemma mu_run_le s sched : Inv s -> mu (run H HF D s sched) <= mu s.
Proof.
  revert s. induction sched as [|c sched IH]; intros s I; [apply Nat.le_refl|].
  cbn [run fold_left]. etransitivity; [apply IH; now apply (step_inv H HF D ws hdr) | now apply mu_step_le].
Qed.

Lemma next_choice_dec s c : Inv s -> next_choice s = Some c -> mu (step H HF D s c) < mu s.
Proof.
  intros I Hc. unfold next_choice in Hc.
  destruct (todo s) as [|o r] eqn:Et.
  - destruct (starts s) as [|x r] eqn:Es.
    + destruct (live s) as [|t r] eqn:El; [discriminate|]. inversion Hc; subst c.
      eapply mu_tok; [exact I|]. rewrite El. reflexivity.
    + inversion Hc; subst c. eapply mu_start. rewrite Es. reflexivity.
  - inversion Hc; subst c. apply mu_user; [exact I | now rewrite Et].
Qed.

Lemma next_choice_none s : next_choice s = None -> quiescent s.
Proof.
  unfold next_choice, quiescent. destruct (todo s), (starts s), (live s); intros E; try discriminate; auto.
Qed.

Lemma drain_inv fuel s : Inv s -> Inv (drain H HF D fuel s).
Proof.
  revert s. induction fuel as [|f IH]; intros s I; [exact I|]. cbn [drain].
  destruct (next_choice s) as [c|]; [apply IH; now apply (step_inv H HF D ws hdr) | exact I].
Qed.

Lemma drain_quiescent fuel s : Inv s -> mu s <= fuel -> quiescent (drain H HF D fuel s).
Proof.
  revert s. induction fuel as [|f IH]; intros s I Hm; cbn [drain].
  - destruct (next_choice s) as [c|] eqn:Ec; [|now apply next_choice_none].
    pose proof (next_choice_dec s c I Ec). lia.
  - destruct (next_choice s) as [c|] eqn:Ec; [|now apply next_choice_none].
    apply IH; [now apply (step_inv H HF D ws hdr)|]. pose proof (next_choice_dec s c I Ec). lia.
Qed.

Lemma drain_is_run fuel s : exists sched, drain H HF D fuel s = run H HF D s sched.
Proof.
  revert s. induction fuel as [|f IH]; intros s; [now exists []|]. cbn [drain].
  destruct (next_choice s) as [c|]; [|now exists []].
  destruct (IH (step H HF D s c)) as (sc & E). exists (c :: sc). exact E.
Qed.

Lemma mu_init buf0 ns0 : mu (init buf0 ns0 hdr ws) = (length ws + 1) * W.
Proof.
  unfold mu, init. cbn [todo starts live]. rewrite app_length, map_length. cbn [length map].
  change (list_sum []) with 0. lia.
Qed.

(** the packaged statement for one use of a tree *)
Theorem use_tree_correct buf0 ns0 sched fuel :
  tree_ok D buf0 ns0 -> (length ws + 1) * W <= fuel ->
  exists tr', use_tree H HF D (buf0, ns0) hdr ws sched fuel = Some (Some (the_hash H HF D ws hdr), tr') /\
              tree_ok D (fst tr') (snd tr').
Proof.
  intros Hok Hf. unfold use_tree. cbn [fst snd].
  set (s1 := run H HF D (init buf0 ns0 hdr ws) sched).
  assert (I1 : Inv s1) by (apply (run_inv H HF D ws hdr), init_inv, Hok).
  assert (M1 : mu s1 <= fuel).
  { etransitivity; [apply mu_run_le, init_inv, Hok|]. now rewrite mu_init. }
  pose proof (drain_inv fuel s1 I1) as I2. pose proof (drain_quiescent fuel s1 I1 M1) as Q.
  destruct (inv_quiescent H HF D ws hdr _ I2 Q) as (Ho & Hlen & Hpar).
  rewrite (proj2 (quiescentb_spec _) Q). eexists. split; [now rewrite Ho|]. split; assumption.
Qed.

End WithWs.
End Term.
