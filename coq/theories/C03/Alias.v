(** C03 — who owns the bytes: the caller's slice versus the tree buffer.

    Go: [Write(b)] does [copy(h.bmt.buffer[h.size:], b)] BEFORE it starts the section workers, and
    [processSection] reads [h.bmt.buffer] only.  So after Write returns the caller may refill
    its slice (io.Copy, any read loop with one scratch buffer).

    The caller is modelled with ONE scratch buffer [cb]; its program is a list of
    [CFill g] (overwrite the scratch buffer with arbitrary bytes g) and [CWrite n] (Write(cb[:n]));
    when the list is exhausted the caller calls Hash.  [xstep false] is the code as it is: a caller action is the base model's
    [step _ CUser] (Write copies by value), worker actions are the base model's steps and never
    look at [cb].  [xstep true] is the variant in which a worker started by Write for a section
    lying entirely inside b hashes a sub-slice of the CALLER's buffer (offset recorded in
    [srcs]) at the time it runs. *)
From Coq Require Import List NArith Arith Bool Lia.
Import ListNotations.
Require Import Aurora.C03.Ref Aurora.C03.Model Aurora.C03.Final Aurora.C03.Term Aurora.C03.Toy.

Inductive cop := CFill (g : list N) | CWrite (n : nat).

(** the bytes handed over at the time of each Write call *)
Fixpoint writes_of (prog : list cop) (cb : list N) : list (list N) :=
  match prog with
  | [] => []
  | CFill g :: r => writes_of r g
  | CWrite n :: r => firstn n cb :: writes_of r cb
  end.

Record xst := mkX { xs : sys; xcb : list N; xprog : list cop; xsrcs : list (nat * nat) }.

Section Alias.
Variable H HF : list N -> list N.
Variable D : nat.

Definition xinit (buf0 : list N) (ns0 : nodes) (hdr : list N) (prog : list cop) (cb0 : list N) : xst :=
  mkX (init buf0 ns0 hdr (writes_of prog cb0)) cb0 prog [].

Fixpoint src_of (srcs : list (nat * nat)) (j : nat) : option nat :=
  match srcs with [] => None | (i, o) :: r => if i =? j then Some o else src_of r j end.

(** sections [from, to) started by a Write that began at byte [start]: those lying inside b *)
Definition new_srcs (start from to : nat) : list (nat * nat) :=
  flat_map (fun i => if start <=? i * SEC then [(i, i * SEC - start)] else []) (seq from (to - from)).

Definition xstep (alias : bool) (x : xst) (c : choice) : xst :=
  match c with
  | CUser =>
      match xprog x with
      | [] => mkX (step H HF D (xs x) CUser) (xcb x) [] (xsrcs x)          (* Hash *)
      | CFill g :: r => mkX (xs x) g r (xsrcs x)
      | CWrite n :: r =>
          let s' := step H HF D (xs x) CUser in
          mkX s' (xcb x) r
              (if alias then new_srcs (size (xs x)) (size (xs x) / SEC) (pos s') ++ xsrcs x else xsrcs x)
      end
  | CStart k =>
      if alias then
        match pick k (starts (xs x)) with
        | Some ((j, false), r) =>
            match src_of (xsrcs x) j with
            | Some o =>
                let s := xs x in
                mkX (mkS (buf s) (size s) (pos s) (span s) (ns s) (todo s) r
                         (TR 0 j (H (firstn SEC (skipn o (xcb x)))) :: live s) (hist s) (results s) (out s))
                    (xcb x) (xprog x) (xsrcs x)
            | None => mkX (step H HF D (xs x) c) (xcb x) (xprog x) (xsrcs x)
            end
        | _ => mkX (step H HF D (xs x) c) (xcb x) (xprog x) (xsrcs x)
        end
      else mkX (step H HF D (xs x) c) (xcb x) (xprog x) (xsrcs x)
  | CTok k => mkX (step H HF D (xs x) c) (xcb x) (xprog x) (xsrcs x)
  end.

Definition xrun (alias : bool) (x : xst) (sched : list choice) : xst := fold_left (xstep alias) sched x.

(** the base-model schedule an extended schedule amounts to: a [CFill] consumes a caller turn
    without touching the hasher *)
Fixpoint base_sched (prog : list cop) (sched : list choice) : list choice :=
  match sched with
  | [] => []
  | CUser :: r =>
      match prog with
      | [] => CUser :: base_sched [] r
      | CFill _ :: p => base_sched p r
      | _ :: p => CUser :: base_sched p r
      end
  | c :: r => c :: base_sched prog r
  end.

(** the code as it is: the hasher part of an extended run is a run of the base model on the
    bytes handed over at call time — whatever the caller writes into its buffer afterwards *)
Lemma xrun_faithful sched : forall x,
  xs (xrun false x sched) = run H HF D (xs x) (base_sched (xprog x) sched) /\
  xprog (xrun false x sched) = xprog (xrun false x sched).
Proof.
  induction sched as [|c sched IH]; intros x; [split; reflexivity|].
  split; [|reflexivity].
  cbn [xrun fold_left]. fold (xrun false (xstep false x c) sched).
  destruct c as [|k|k]; cbn [xstep base_sched].
  - destruct (xprog x) as [|[g|n] r] eqn:Ep.
    + rewrite (proj1 (IH _)). cbn [xs xprog]. reflexivity.
    + rewrite (proj1 (IH _)). cbn [xs xprog]. reflexivity.
    + rewrite (proj1 (IH _)). cbn [xs xprog]. reflexivity.
  - rewrite (proj1 (IH _)). cbn [xs xprog]. reflexivity.
  - rewrite (proj1 (IH _)). cbn [xs xprog]. reflexivity.
Qed.

(** what Write is given is what the caller's buffer holds at the time of the call: the base
    model's pending writes are always the slices [cb[:n]] of the caller's CURRENT buffer for the
    Writes still to come — later [CFill]s do not reach back *)
Definition synced (x : xst) : Prop :=
  todo (xs x) = map UWrite (writes_of (xprog x) (xcb x)) ++ [UHash] \/ (xprog x = [] /\ todo (xs x) = []).

Lemma step_todo_other s c : c <> CUser -> todo (step H HF D s c) = todo s.
Proof.
  intros Hc. destruct c as [|k|k]; [contradiction| |]; unfold step.
  - destruct (pick k (starts s)) as [[[j fin] r]|]; reflexivity.
  - destruct (pick k (live s)) as [[t r]|]; [|reflexivity]. destruct (tok_step H D (ns s) t) as [[a b] c]. reflexivity.
Qed.

Lemma xstep_synced x c : synced x -> synced (xstep false x c).
Proof.
  intros Hs. destruct c as [|k|k]; cbn [xstep].
  - destruct (xprog x) as [|[g|n] r] eqn:Ep; unfold synced in *; cbn [xs xcb xprog]; rewrite Ep in Hs; cbn [writes_of map app] in Hs.
    + right. split; [reflexivity|]. unfold step. destruct Hs as [Hs|(_ & Hs)].
      * rewrite Hs. unfold hash_op, set_todo. cbn [size]. destruct (size (xs x) =? 0); reflexivity.
      * rewrite Hs. exact Hs.
    + destruct Hs as [Hs|(Hs & _)]; [left; exact Hs | discriminate].
    + destruct Hs as [Hs|(Hs & _)]; [|discriminate]. left. unfold step. rewrite Hs. reflexivity.
  - unfold synced in *. cbn [xs xcb xprog]. now rewrite step_todo_other.
  - unfold synced in *. cbn [xs xcb xprog]. now rewrite step_todo_other.
Qed.

Lemma xrun_synced sched : forall x, synced x -> synced (xrun false x sched).
Proof.
  induction sched as [|c sched IH]; intros x Hs; [exact Hs|]. cbn [xrun fold_left]. apply IH. now apply xstep_synced.
Qed.

Lemma xinit_synced buf0 ns0 hdr prog cb0 : synced (xinit buf0 ns0 hdr prog cb0).
Proof. left. reflexivity. Qed.

End Alias.

(** the variant in which workers read the caller's slice: one tree of two sections, the caller
    writes its 64-byte buffer, refills it, writes again; the worker of the first section runs
    after the refill and hashes the second piece twice *)
Definition alias_prog : list cop := [CFill (toy_out 64 1%N); CWrite 64; CFill (toy_out 64 2%N); CWrite 64].
Definition alias_sched : list choice := [CUser; CUser; CUser; CUser; CUser; CStart 0; CStart 0; CTok 0; CTok 0; CTok 0; CTok 0].
Lemma alias_variant_wrong :
  let x := xrun toy toy 1 true (xinit (fresh_buf 1) fresh_nodes [1;2;3;4;5;6;7;8]%N alias_prog []) alias_sched in
  quiescentb (xs x) = true /\
  out (xs x) <> Some (bmt_hash toy toy 1 [1;2;3;4;5;6;7;8]%N (concat (writes_of alias_prog []))) /\
  out (xs (xrun toy toy 1 false (xinit (fresh_buf 1) fresh_nodes [1;2;3;4;5;6;7;8]%N alias_prog []) alias_sched))
    = Some (bmt_hash toy toy 1 [1;2;3;4;5;6;7;8]%N (concat (writes_of alias_prog []))).
Proof. vm_compute. split; [reflexivity|]. split; [discriminate | reflexivity]. Qed.
