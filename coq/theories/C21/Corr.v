(** C21 — correspondence: one case is a whole history run on a real
    [pslice.PSlice]: the operations (updates, queries, iterations whose
    callback stops / skips / returns an error / updates the structure while
    iterating), what every operation returned, and a final dump of all bins
    ([BinPeers], exact slice order).  [check_case] replays the history on the
    heap-level model and compares every observation. *)
From Coq Require Import List NArith ZArith Bool Arith.
Import ListNotations.
Require Import Aurora.Base.Corr Aurora.Consts.
Require Export Aurora.C21.Model.

Definition MaxPO : N := Z.to_N Consts.boson_MaxPO.

Inductive case :=
| Case (maxBins : nat) (base : addr) (ops : list op) (observed : list (option obs)) (dump : list (list addr)).

Definition yield_eqb (x y : addr * N) : bool := addr_eqb (fst x) (fst y) && N.eqb (snd x) (snd y).

Definition obs_eqb (a b : obs) : bool :=
  match a, b with
  | ObsUnit, ObsUnit => true
  | ObsBool x, ObsBool y => Bool.eqb x y
  | ObsN x, ObsN y => N.eqb x y
  | ObsPeers x, ObsPeers y => list_eqb addr_eqb x y
  | ObsSE i n, ObsSE j m => N.eqb i j && Bool.eqb n m
  | ObsEach ys e, ObsEach zs f => list_eqb yield_eqb ys zs && Bool.eqb e f
  | _, _ => false
  end.

Definition model_out (c : case) : list (option obs) * list (list addr) :=
  match c with
  | Case mb base ops _ _ =>
      let r := run go_grow (po_of MaxPO base mb) (init mb) ops in
      (snd r, view (fst r))
  end.
Definition obs_out (c : case) : list (option obs) * list (list addr) :=
  match c with Case _ _ _ o d => (o, d) end.

Definition out_eqb (x y : list (option obs) * list (list addr)) : bool :=
  list_eqb (option_eqb obs_eqb) (fst x) (fst y) && list_eqb (list_eqb addr_eqb) (snd x) (snd y).

Definition check_case (c : case) : bool := out_eqb (model_out c) (obs_out c).
Definition explain_case (c : case) := (model_out c, obs_out c).
