(** C21 — every update of the heap model keeps the state well-formed, is an
    [ext]ension (published prefixes untouched) and acts on [view] like the
    value-level update [v_upd]. *)
From Coq Require Import List NArith Arith Bool Lia.
Import ListNotations.
Require Import Aurora.Base.Corr Aurora.C21.Model Aurora.C21.Abs Aurora.C21.Heap.

Lemma addr_eqb_eq a b : addr_eqb a b = true <-> a = b.
Proof. apply bytes_eqb_eq. Qed.
Lemma addr_eqb_refl a : addr_eqb a a = true.
Proof. now apply addr_eqb_eq. Qed.
Lemma addr_eqb_sym a b : addr_eqb a b = addr_eqb b a.
Proof.
  destruct (addr_eqb a b) eqn:E1, (addr_eqb b a) eqn:E2; auto.
  - apply addr_eqb_eq in E1. subst. now rewrite addr_eqb_refl in E2.
  - apply addr_eqb_eq in E2. subst. now rewrite addr_eqb_refl in E1.
Qed.

Lemma mem_In a l : mem a l = true <-> In a l.
Proof.
  induction l as [|x l IH]; cbn; [split; [discriminate|tauto]|].
  rewrite orb_true_iff, IH, addr_eqb_eq. tauto.
Qed.
Lemma mem_app a l1 l2 : mem a (l1 ++ l2) = mem a l1 || mem a l2.
Proof. induction l1 as [|x l1 IH]; cbn; auto. now rewrite IH, orb_assoc. Qed.

Lemma index_of_mem a l k : (match index_of a l k with Some _ => true | None => false end) = mem a l.
Proof.
  revert k; induction l as [|x l IH]; intros k; cbn; auto.
  destruct (addr_eqb x a); cbn; auto.
Qed.

Lemma index_of_spec a l k i : index_of a l k = Some i ->
  k <= i /\ i - k < length l /\ nth (i - k) l nilA = a /\ forall j, j < i - k -> nth j l nilA <> a.
Proof.
  revert k; induction l as [|x l IH]; intros k; cbn; [discriminate|].
  destruct (addr_eqb x a) eqn:E.
  - intros Hq; inversion Hq; subst. apply addr_eqb_eq in E. rewrite Nat.sub_diag.
    repeat split; auto; try lia.
  - intros Hq. destruct (IH _ Hq) as (Hle & Hlt & Hnth & Hfirst).
    replace (i - k) with (S (i - S k)) by lia. repeat split; try lia; auto.
    intros [|j] Hj; [intros ->; now rewrite addr_eqb_refl in E|]. apply Hfirst. lia.
Qed.

Lemma upd_nth_same {A} (l : list A) i x : nth_error l i = Some x -> upd_nth l i x = l.
Proof. revert i; induction l as [|y l IH]; intros [|i]; cbn; intros Hq; try discriminate; auto.
  - now inversion Hq.
  - f_equal; auto.
Qed.

Lemma view_length s : length (view s) = length (bins s).
Proof. unfold view. apply map_length. Qed.

Lemma view_nth_error s po h : nth_error (bins s) po = Some h -> nth_error (view s) po = Some (elems (heap s) h).
Proof. intros Hn. unfold view. now rewrite nth_error_map, Hn. Qed.

Lemma view_nth s po h : nth_error (bins s) po = Some h -> nth po (view s) [] = elems (heap s) h.
Proof. intros Hn. apply nth_error_nth'. now apply view_nth_error. Qed.

(** [good s s']: what every transition provides *)
Definition good (s s' : st) : Prop := WF s' /\ ext s s' /\ length (bins s') = length (bins s).

Lemma good_refl s : WF s -> good s s.
Proof. intros Hwf. split; [exact Hwf|split; [apply ext_refl|reflexivity]]. Qed.
Lemma good_trans s1 s2 s3 : good s1 s2 -> good s2 s3 -> good s1 s3.
Proof. intros (W2 & E12 & L12) (W3 & E23 & L23). split; [exact W3|split; [eapply ext_trans; eauto|congruence]]. Qed.

Section Refine.
Variable grow : nat -> nat -> nat.
Variable pof : addr -> option nat.

Lemma append_bin_good s po h a :
  WF s -> nth_error (bins s) po = Some h ->
  good s (append_bin grow s po h a) /\
  view (append_bin grow s po h a) = upd_nth (view s) po (nth po (view s) [] ++ [a]).
Proof.
  intros Hwf Hn. rewrite (view_nth s po h Hn). pose proof (hdr_ok_of s po h Hwf Hn) as Hok.
  unfold append_bin. destruct (h_len h <? h_cap h) eqn:Hroom.
  - apply Nat.ltb_lt in Hroom. change (St _ _ _) with (inplace_bin s po h a).
    split; [split; [|split]|].
    + now apply inplace_WF.
    + now apply inplace_ext.
    + cbn. now rewrite upd_nth_length.
    + now apply inplace_view.
  - cbv zeta. set (c := Nat.max (grow (h_cap h) (S (h_len h))) (S (h_len h))).
    set (cs := elems (heap s) h ++ a :: repeat nilA (c - S (h_len h))).
    assert (Hcs : length cs = c).
    { unfold cs. rewrite app_length, (elems_length _ _ Hok). cbn. rewrite repeat_length. lia. }
    rewrite <- Hcs. change (St _ _ _) with (alloc_bin s po cs (S (h_len h))).
    split; [split; [|split]|].
    + apply alloc_bin_WF; auto. lia.
    + now apply alloc_bin_ext.
    + cbn. now rewrite upd_nth_length.
    + rewrite alloc_bin_view by exact Hwf. f_equal. unfold cs.
      generalize (elems_length _ _ Hok). generalize (elems (heap s) h). intros l0 Hl0.
      rewrite firstn_app, Hl0.
      rewrite firstn_all2 by lia.
      replace (S (h_len h) - h_len h) with 1 by lia. reflexivity.
Qed.

Lemma regrow_good s i h c :
  WF s -> nth_error (bins s) i = Some h ->
  good s (regrow s i h c) /\ view (regrow s i h c) = view s.
Proof.
  intros Hwf Hn. pose proof (hdr_ok_of s i h Hwf Hn) as Hok.
  set (cs := elems (heap s) h ++ repeat nilA c).
  assert (Hcs : length cs = h_len h + c).
  { unfold cs. now rewrite app_length, (elems_length _ _ Hok), repeat_length. }
  unfold regrow. rewrite <- Hcs. change (St _ _ _) with (alloc_bin s i cs (h_len h)).
  split; [split; [|split]|].
  - apply alloc_bin_WF; auto. lia.
  - now apply alloc_bin_ext.
  - cbn. now rewrite upd_nth_length.
  - rewrite alloc_bin_view by exact Hwf. apply upd_nth_same.
    rewrite (view_nth_error s i h Hn). f_equal. unfold cs.
    generalize (elems_length _ _ Hok). generalize (elems (heap s) h). intros l0 Hl0.
    rewrite firstn_app, Hl0, Nat.sub_diag. cbn. rewrite app_nil_r.
    symmetry. apply firstn_all2. lia.
Qed.

Lemma pregrow_bin_good plan s i : WF s -> good s (pregrow_bin plan s i) /\ view (pregrow_bin plan s i) = view s.
Proof.
  intros Hwf. unfold pregrow_bin. destruct (nth_error (bins s) i) as [h|] eqn:Hn.
  - destruct (_ && _); [now apply regrow_good|split; [now apply good_refl|reflexivity]].
  - split; [now apply good_refl|reflexivity].
Qed.

Lemma pregrow_fold_good plan idx : forall s, WF s ->
  good s (fold_left (pregrow_bin plan) idx s) /\ view (fold_left (pregrow_bin plan) idx s) = view s.
Proof.
  induction idx as [|i idx IH]; intros s Hwf; cbn [fold_left].
  - split; [now apply good_refl|reflexivity].
  - destruct (pregrow_bin_good plan s i Hwf) as [Hg Hv].
    destruct (IH _ (proj1 Hg)) as [Hg' Hv']. split; [eapply good_trans; eauto|congruence].
Qed.

Lemma pregrow_good plan s : WF s -> good s (pregrow plan s) /\ view (pregrow plan s) = view s.
Proof. intros Hwf. now apply pregrow_fold_good. Qed.

(** value-level form of the plan produced by the first loop *)
Fixpoint v_scan (v0 : list (list addr)) (l seen : list addr) : list (addr * nat * bool) :=
  match l with
  | [] => []
  | a :: t =>
      match pof a with
      | None => []
      | Some po =>
          if mem a (nth po v0 []) then (a, po, true) :: v_scan v0 t seen
          else if mem a seen then (a, po, true) :: v_scan v0 t seen
          else (a, po, false) :: v_scan v0 t (a :: seen)
      end
  end.

Fixpoint v_apply (plan : list (addr * nat * bool)) (vb : list (list addr)) : list (list addr) :=
  match plan with
  | [] => vb
  | (a, po, ex) :: t => if ex then v_apply t vb else v_apply t (upd_nth vb po (nth po vb [] ++ [a]))
  end.

Definition in_range (n : nat) (a : addr) : Prop := exists po, pof a = Some po /\ po < n.

Lemma scan_batch_spec s : forall l seen plan,
  scan_batch pof s l seen = Ok plan ->
  plan = v_scan (view s) l seen /\ Forall (in_range (length (bins s))) l.
Proof.
  induction l as [|a t IH]; intros seen plan; cbn [scan_batch v_scan].
  - intros Hq; inversion Hq; auto.
  - destruct (pof a) as [po|] eqn:Hp; [|discriminate].
    destruct (nth_error (bins s) po) as [h|] eqn:Hn; [|discriminate].
    rewrite (view_nth s po h Hn).
    assert (Hr : in_range (length (bins s)) a).
    { exists po. split; auto. eapply nth_error_Some_lt; eauto. }
    pose proof (index_of_mem a (elems (heap s) h) 0) as Him.
    destruct (index_of a (elems (heap s) h) 0) as [k|].
    + rewrite <- Him. destruct (scan_batch pof s t seen) as [r|] eqn:Hs; [|discriminate].
      cbn. intros Hq; inversion Hq; subst. destruct (IH _ _ Hs) as [-> Hf]. auto.
    + rewrite <- Him. destruct (mem a seen).
      * destruct (scan_batch pof s t seen) as [r|] eqn:Hs; [|discriminate].
        cbn. intros Hq; inversion Hq; subst. destruct (IH _ _ Hs) as [-> Hf]. auto.
      * destruct (scan_batch pof s t (a :: seen)) as [r|] eqn:Hs; [|discriminate].
        cbn. intros Hq; inversion Hq; subst. destruct (IH _ _ Hs) as [-> Hf]. auto.
Qed.

Lemma append_plan_good : forall plan s s',
  WF s -> append_plan grow plan s = Ok s' ->
  good s s' /\ view s' = v_apply plan (view s).
Proof.
  induction plan as [|[[a po] ex] t IH]; intros s s' Hwf; cbn [append_plan v_apply].
  - intros Hq; inversion Hq; subst. split; [now apply good_refl|reflexivity].
  - destruct ex; [now apply IH|].
    destruct (nth_error (bins s) po) as [h|] eqn:Hn; [|discriminate].
    intros Hq. destruct (append_bin_good s po h a Hwf Hn) as [Hg Hv].
    destruct (IH _ _ (proj1 Hg) Hq) as [Hg' Hv']. split; [eapply good_trans; eauto|].
    now rewrite Hv', Hv.
Qed.

(** the plan applied to the bins = adding the addresses one at a time *)
Lemma v_apply_scan v0 : forall l seen vb,
  length vb = length v0 ->
  Forall (in_range (length v0)) l ->
  (forall x p, pof x = Some p -> mem x (nth p vb []) = mem x (nth p v0 []) || mem x seen) ->
  v_apply (v_scan v0 l seen) vb = v_add pof vb l.
Proof.
  induction l as [|a t IH]; intros seen vb Hlen Hr Hinv; cbn [v_scan v_apply v_add fold_left]; [reflexivity|].
  inversion Hr as [|? ? (po & Hp & Hlt) Hr']; subst.
  unfold v_add1 at 2. rewrite Hp. rewrite (Hinv a po Hp).
  destruct (mem a (nth po v0 [])) eqn:E0; cbn [orb v_apply].
  - now apply IH.
  - destruct (mem a seen) eqn:Es; cbn [v_apply].
    + now apply IH.
    + apply IH; auto.
      * now rewrite upd_nth_length.
      * intros x p Hx. cbn [mem]. destruct (Nat.eq_dec po p) as [<-|Hne].
        -- rewrite nth_upd_nth_eq by lia. rewrite mem_app, (Hinv x po Hx). cbn [mem]. rewrite orb_false_r.
           rewrite (orb_comm (addr_eqb a x)). now rewrite orb_assoc.
        -- rewrite nth_upd_nth_neq by exact Hne. rewrite (Hinv x p Hx).
           destruct (addr_eqb a x) eqn:Eax; [|reflexivity].
           apply addr_eqb_eq in Eax. subst x. congruence.
Qed.

Lemma add1_good s a s' :
  WF s -> add1 grow pof s a = Ok s' -> good s s' /\ view s' = v_add1 pof (view s) a.
Proof.
  intros Hwf. unfold add1, v_add1. destruct (pof a) as [po|]; [|discriminate].
  destruct (nth_error (bins s) po) as [h|] eqn:Hn; [|discriminate].
  rewrite (view_nth s po h Hn). rewrite <- (index_of_mem a (elems (heap s) h) 0).
  destruct (index_of a (elems (heap s) h) 0).
  - intros Hq; inversion Hq; subst. split; [now apply good_refl|reflexivity].
  - intros Hq; inversion Hq; subst. destruct (append_bin_good s po h a Hwf Hn) as [Hg Hv].
    split; auto. rewrite Hv. now rewrite (view_nth s po h Hn).
Qed.

Lemma addN_good s l s' :
  WF s -> addN grow pof s l = Ok s' -> good s s' /\ view s' = v_add pof (view s) l.
Proof.
  intros Hwf. unfold addN. destruct (scan_batch pof s l []) as [plan|] eqn:Hs; [|discriminate].
  cbn [bind]. intros Hq. destruct (scan_batch_spec s l [] plan Hs) as [-> Hr].
  destruct (pregrow_good (v_scan (view s) l []) s Hwf) as [Hg1 Hv1].
  destruct (append_plan_good _ _ _ (proj1 Hg1) Hq) as [Hg2 Hv2].
  split; [eapply good_trans; eauto|]. rewrite Hv2, Hv1.
  apply v_apply_scan; auto.
  - now rewrite view_length.
  - intros x p _. cbn [mem]. now rewrite orb_false_r.
Qed.

Lemma add_good s l s' :
  WF s -> add grow pof s l = Ok s' -> good s s' /\ view s' = v_add pof (view s) l.
Proof.
  intros Hwf. unfold add. destruct l as [|a [|b t]].
  - now apply addN_good.
  - intros Hq. now apply add1_good.
  - now apply addN_good.
Qed.

Lemma remove_good s a s' :
  WF s -> remove pof s a = Ok s' -> good s s' /\ view s' = v_remove pof (view s) a.
Proof.
  intros Hwf. unfold remove, v_remove. cbv zeta. destruct (pof a) as [po|]; [|discriminate].
  destruct (nth_error (bins s) po) as [h|] eqn:Hn; [|discriminate].
  rewrite (view_nth s po h Hn). pose proof (hdr_ok_of s po h Hwf Hn) as Hok.
  destruct (index_of a (elems (heap s) h) 0) as [i|] eqn:Hi.
  - intros Hq; inversion Hq; subst; clear Hq.
    apply index_of_spec in Hi as (_ & Hlt & _). rewrite Nat.sub_0_r, (elems_length _ _ Hok) in Hlt.
    set (nl := h_len h - 1).
    set (cpy' := if i =? nl then firstn nl (arr (heap s) (h_arr h))
                 else upd_nth (firstn nl (arr (heap s) (h_arr h))) i (nth nl (arr (heap s) (h_arr h)) nilA)).
    destruct Hok as (Ha & Hle & Hlen).
    assert (Hcl : length cpy' = nl).
    { unfold cpy'. destruct (i =? nl); [|rewrite upd_nth_length]; rewrite firstn_length; lia. }
    replace (Hdr (length (heap s)) nl nl) with (Hdr (length (heap s)) nl (length cpy')) by (now rewrite Hcl).
    change (St _ _ _) with (alloc_bin s po cpy' nl).
    split; [split; [|split]|].
    + apply alloc_bin_WF; auto. lia.
    + now apply alloc_bin_ext.
    + cbn. now rewrite upd_nth_length.
    + rewrite alloc_bin_view by exact Hwf. f_equal.
      rewrite firstn_all2 by lia. unfold vremove_at, cpy', elems.
      rewrite firstn_length. replace (Nat.min (h_len h) (length (arr (heap s) (h_arr h))) - 1) with nl by (unfold nl; lia).
      rewrite firstn_firstn. replace (Nat.min nl (h_len h)) with nl by (unfold nl; lia).
      destruct (i =? nl); [reflexivity|]. f_equal.
      rewrite <- (firstn_skipn (h_len h) (arr (heap s) (h_arr h))) at 1.
      rewrite app_nth1; [reflexivity|]. rewrite firstn_length. unfold nl; lia.
  - intros Hq; inversion Hq; subst. split; [now apply good_refl|reflexivity].
Qed.

Lemma upd_good s u s' :
  WF s -> upd grow pof s u = Ok s' -> good s s' /\ view s' = v_upd pof (view s) u.
Proof. intros Hwf. destruct u; cbn [upd v_upd]; [now apply add_good|now apply remove_good]. Qed.

Lemma upds_good : forall us s s',
  WF s -> upds grow pof s us = Ok s' -> good s s' /\ view s' = v_upds pof (view s) us.
Proof.
  induction us as [|u t IH]; intros s s' Hwf; cbn [upds v_upds fold_left].
  - intros Hq; inversion Hq; subst. split; [now apply good_refl|reflexivity].
  - destruct (upd grow pof s u) as [s1|] eqn:Hu; [|discriminate]. cbn [bind]. intros Hq.
    destruct (upd_good s u s1 Hwf Hu) as [Hg1 Hv1].
    destruct (IH _ _ (proj1 Hg1) Hq) as [Hg2 Hv2]. split; [eapply good_trans; eauto|].
    rewrite Hv2, Hv1. reflexivity.
Qed.

(** no panic when [pof] is total and in range *)
Lemma upd_no_panic s u :
  (forall a, in_range (length (bins s)) a) -> exists s', upd grow pof s u = Ok s'.
Proof.
  intros Hr. destruct u as [l|a]; cbn [upd].
  - assert (Hscan : forall l seen, exists plan, scan_batch pof s l seen = Ok plan /\
                      Forall (fun e => match e with (_, po, _) => po < length (bins s) end) plan).
    { induction l0 as [|a t IH]; intros seen; cbn [scan_batch]; [eauto|].
      destruct (Hr a) as (po & Hp & Hlt). rewrite Hp.
      destruct (nth_error (bins s) po) as [h|] eqn:Hn; [|apply nth_error_None in Hn; lia].
      destruct (index_of a (elems (heap s) h) 0).
      - destruct (IH seen) as (r & -> & Hf). cbn. eauto.
      - destruct (mem a seen).
        + destruct (IH seen) as (r & -> & Hf). cbn. eauto.
        + destruct (IH (a :: seen)) as (r & -> & Hf). cbn. eauto. }
    assert (Happ : forall plan s0, length (bins s0) = length (bins s) ->
               Forall (fun e => match e with (_, po, _) => po < length (bins s) end) plan ->
               exists s', append_plan grow plan s0 = Ok s').
    { induction plan as [|[[a po] ex] t IH]; intros s0 Hl Hf; cbn [append_plan]; [eauto|].
      inversion Hf; subst. destruct ex; [now apply IH|].
      destruct (nth_error (bins s0) po) as [h|] eqn:Hn; [|apply nth_error_None in Hn; lia].
      apply IH; auto. unfold append_bin. destruct (_ <? _); cbn; now rewrite upd_nth_length. }
    assert (Hpl : forall plan idx s0, length (bins (fold_left (pregrow_bin plan) idx s0)) = length (bins s0)).
    { intros plan. induction idx as [|i idx IH]; intros s0; cbn [fold_left]; [reflexivity|].
      rewrite IH. unfold pregrow_bin. destruct (nth_error (bins s0) i); [|reflexivity].
      destruct (_ && _); [|reflexivity]. cbn. now rewrite upd_nth_length. }
    unfold add. destruct l as [|a [|b t]].
    + unfold addN. cbn. eauto.
    + unfold add1. destruct (Hr a) as (po & Hp & Hlt). rewrite Hp.
      destruct (nth_error (bins s) po) as [h|] eqn:Hn; [|apply nth_error_None in Hn; lia].
      destruct (index_of _ _ _); eauto.
    + unfold addN. destruct (Hscan (a :: b :: t) []) as (plan & -> & Hf). cbn [bind].
      apply Happ; auto. apply Hpl.
  - unfold remove. destruct (Hr a) as (po & Hp & Hlt). rewrite Hp.
    destruct (nth_error (bins s) po) as [h|] eqn:Hn; [|apply nth_error_None in Hn; lia].
    destruct (index_of _ _ _); eauto.
Qed.

End Refine.
