(** C21 — assembly of the statements used by Props.v. *)
From Coq Require Import List NArith Arith Bool Lia Permutation.
Import ListNotations.
Require Import Aurora.Base.Corr Aurora.C20.Model Aurora.C20.Proofs.
Require Import Aurora.C21.Model Aurora.C21.Abs Aurora.C21.Heap Aurora.C21.Refine Aurora.C21.SetSem Aurora.C21.Iter.

Lemma view_init n : view (init n) = repeat [] n.
Proof.
  unfold view, init; cbn [bins heap]. induction n as [|n IH]; cbn; [reflexivity|].
  f_equal. exact IH.
Qed.

Section Main.
Variable grow : nat -> nat -> nat.
Variable pof : addr -> option nat.
Variable maxBins : nat.
Hypothesis pof_ok : forall a, in_range pof maxBins a.

(** states reachable from [New(maxBins, base)] by updates *)
Definition reach (us : list uop) (s : st) : Prop := upds grow pof (init maxBins) us = Ok s.

Lemma reach_facts us s : reach us s ->
  WF s /\ length (bins s) = maxBins /\ VInv pof maxBins (view s) (s_upds [] us).
Proof.
  intros Hr. destruct (upds_good grow pof us _ _ (WF_init maxBins) Hr) as [(Hwf & _ & Hl) Hv].
  split; [exact Hwf|]. split; [rewrite Hl; cbn; apply repeat_length|].
  rewrite Hv, view_init. apply VInv_upds; auto. apply VInv_init.
Qed.

Lemma upds_total : forall us s, length (bins s) = maxBins -> WF s -> exists s', upds grow pof s us = Ok s'.
Proof.
  induction us as [|u t IH]; intros s Hl Hwf; cbn [upds]; [eauto|].
  destruct (upd_no_panic grow pof s u) as (s1 & Hu); [now rewrite Hl|].
  rewrite Hu. cbn [bind]. destruct (upd_good grow pof _ _ _ Hwf Hu) as [(Hwf1 & _ & Hl1) _].
  apply IH; [congruence|exact Hwf1].
Qed.

Lemma no_panic us : exists s, reach us s.
Proof. apply upds_total; [cbn; apply repeat_length|apply WF_init]. Qed.

(** membership, one occurrence, right bin *)
Lemma set_semantics us s : reach us s ->
  let S := s_upds [] us in
  NoDup S /\ NoDup (concat (view s)) /\ Permutation (concat (view s)) S /\
  length (view s) = maxBins /\
  (forall i, Permutation (nth i (view s) []) (s_bin pof S i)) /\
  (forall i a, In a (nth i (view s) []) -> pof a = Some i).
Proof.
  intros Hr S. destruct (reach_facts us s Hr) as (Hwf & Hl & Hinv).
  pose proof Hinv as (Hlen & Hpo & Hnd & HndS & Hmem).
  split; [exact HndS|]. split; [now apply (NoDup_concat_bins pof maxBins pof_ok)|].
  split; [now apply (VInv_all pof maxBins pof_ok)|]. split; [exact Hlen|].
  split; [intros i; now apply (VInv_bin pof maxBins)|exact Hpo].
Qed.

(** ---- queries ---- *)

Lemma fold_len_acc (l : list hdr) acc : fold_left (fun a h => a + h_len h) l acc = acc + fold_left (fun a h => a + h_len h) l 0.
Proof. revert acc; induction l as [|h l IH]; intros acc; cbn; [lia|]. rewrite IH, (IH (h_len h)). lia. Qed.

Lemma q_length_view s : WF s -> q_length s = length (concat (view s)).
Proof.
  intros [Hf _]. unfold q_length, view. induction (bins s) as [|h l IH]; cbn; [reflexivity|].
  inversion Hf; subst. rewrite app_length, fold_len_acc, IH by assumption. now rewrite elems_length.
Qed.

Lemma q_length_spec us s : reach us s -> q_length s = length (s_upds [] us).
Proof.
  intros Hr. destruct (reach_facts us s Hr) as (Hwf & _ & _).
  destruct (set_semantics us s Hr) as (_ & _ & Hperm & _). rewrite q_length_view by exact Hwf.
  now apply Permutation_length.
Qed.

Lemma q_exists_spec us s a : reach us s -> q_exists pof s a = Ok (mem a (s_upds [] us)).
Proof.
  intros Hr. destruct (reach_facts us s Hr) as (Hwf & Hl & (Hlen & Hpo & Hnd & HndS & Hmem)).
  unfold q_exists. destruct (pof_ok a) as (po & Hp & Hlt). rewrite Hp.
  destruct (nth_error (bins s) po) as [h|] eqn:Hn; [|apply nth_error_None in Hn; lia].
  rewrite index_of_mem, <- (view_nth s po h Hn). f_equal.
  apply eq_true_iff_eq. rewrite !mem_In. symmetry. now apply Hmem.
Qed.

Lemma s_bin_beyond S i : maxBins <= i -> s_bin pof S i = [].
Proof.
  intros Hle. unfold s_bin. induction S as [|a S IH]; cbn; [reflexivity|].
  destruct (pof_ok a) as (po & Hp & Hlt). rewrite Hp.
  destruct (Nat.eqb_spec po i); [lia|exact IH].
Qed.

Lemma q_binpeers_spec us s b : reach us s -> Permutation (q_binpeers s b) (s_bin pof (s_upds [] us) (N.to_nat b)).
Proof.
  intros Hr. destruct (reach_facts us s Hr) as (Hwf & Hl & Hinv).
  destruct (set_semantics us s Hr) as (_ & _ & _ & _ & Hbin & _).
  unfold q_binpeers. destruct (nth_error (bins s) (N.to_nat b)) as [h|] eqn:Hn.
  - rewrite <- (view_nth s _ h Hn). apply Hbin.
  - apply nth_error_None in Hn. rewrite s_bin_beyond by lia. constructor.
Qed.

Lemma q_binsize_spec us s b : reach us s -> q_binsize s b = length (s_bin pof (s_upds [] us) (N.to_nat b)).
Proof.
  intros Hr. destruct (reach_facts us s Hr) as (Hwf & Hl & Hinv).
  rewrite <- (Permutation_length (q_binpeers_spec us s b Hr)).
  unfold q_binsize, q_binpeers. destruct (nth_error (bins s) (N.to_nat b)) as [h|] eqn:Hn; [|reflexivity].
  symmetry. apply elems_length. eapply hdr_ok_of; eauto.
Qed.

Lemma shallowest_empty_from_spec (l : list hdr) : forall k,
  k + length l <= 256 ->
  match shallowest_empty_from l k with
  | (se, false) => exists i, se = N.of_nat (k + i) /\ i < length l /\
                             (exists h, nth_error l i = Some h /\ h_len h = 0) /\
                             forall j h, j < i -> nth_error l j = Some h -> h_len h <> 0
  | (se, true) => se = 0%N /\ forall j h, nth_error l j = Some h -> h_len h <> 0
  end.
Proof.
  induction l as [|h l IH]; intros k Hk; cbn [shallowest_empty_from].
  - split; [reflexivity|]. intros [|j] h'; discriminate.
  - destruct (Nat.eqb_spec (h_len h) 0) as [H0|Hn0].
    + exists 0. rewrite Nat.add_0_r. cbn [length] in *. split; [apply u8_small; lia|]. split; [lia|]. split; [exists h; auto|].
      intros j h' Hj; lia.
    + cbn [length] in Hk. specialize (IH (S k) ltac:(lia)).
      destruct (shallowest_empty_from l (S k)) as [se [|]].
      * destruct IH as [-> Hall]. split; [reflexivity|]. intros [|j] h' Hq; cbn in Hq; [inversion Hq; subst; exact Hn0|eauto].
      * destruct IH as (i & -> & Hi & (h0 & Hh0 & Hz) & Hbefore). exists (S i).
        split; [f_equal; lia|]. split; [cbn; lia|]. split; [exists h0; auto|].
        intros [|j] h' Hj Hq; cbn in Hq; [inversion Hq; subst; exact Hn0|]. eapply Hbefore; eauto. lia.
Qed.

(** [ShallowestEmpty]: the first bin without a member of the set *)
Lemma q_shallowest_empty_spec us s : reach us s -> maxBins <= 256 ->
  let S := s_upds [] us in
  match q_shallowest_empty s with
  | (se, false) => N.to_nat se < maxBins /\ s_bin pof S (N.to_nat se) = [] /\
                   forall j, j < N.to_nat se -> s_bin pof S j <> []
  | (se, true) => se = 0%N /\ forall j, j < maxBins -> s_bin pof S j <> []
  end.
Proof.
  intros Hr H256 S. destruct (reach_facts us s Hr) as (Hwf & Hl & Hinv).
  destruct (set_semantics us s Hr) as (_ & _ & _ & _ & Hbin & _).
  assert (Hempty : forall j h, nth_error (bins s) j = Some h -> (h_len h = 0 <-> s_bin pof S j = [])).
  { intros j h Hn. pose proof (Hbin j) as Hp. rewrite (view_nth s j h Hn) in Hp.
    pose proof (elems_length _ _ (hdr_ok_of s j h Hwf Hn)) as Hel. split.
    - intros H0. rewrite H0 in Hel. apply length_zero_iff_nil in Hel. rewrite Hel in Hp.
      now apply Permutation_nil in Hp.
    - intros Hq. fold S in Hp. rewrite Hq in Hp. apply Permutation_sym, Permutation_nil in Hp.
      rewrite Hp in Hel. cbn in Hel. lia. }
  unfold q_shallowest_empty. pose proof (shallowest_empty_from_spec (bins s) 0 ltac:(lia)) as Hspec.
  destruct (shallowest_empty_from (bins s) 0) as [se [|]].
  - destruct Hspec as [-> Hall]. split; [reflexivity|]. intros j Hj.
    destruct (nth_error (bins s) j) as [h|] eqn:Hn; [|apply nth_error_None in Hn; lia].
    intros Hq. apply (Hall j h Hn). now apply (Hempty j h Hn).
  - destruct Hspec as (i & -> & Hi & (h0 & Hh0 & Hz) & Hbefore). cbn [plus]. rewrite Nat2N.id.
    split; [lia|]. split; [now apply (Hempty i h0 Hh0)|].
    intros j Hj. destruct (nth_error (bins s) j) as [h|] eqn:Hn; [|apply nth_error_None in Hn; lia].
    intros Hq. apply (Hbefore j h Hj Hn). now apply (Hempty j h Hn).
Qed.

(** ---- iteration ---- *)

(** the state after an iteration is reachable by the updates its callbacks made *)
Lemma each_bins_state order s sc s' ys e :
  WF s -> each_bins grow pof order s sc = Ok (s', ys, e) -> good s s'.
Proof. intros Hwf. rewrite each_bins_snapshot by exact Hwf. now apply v_each_bins_good. Qed.

Lemma bin_order_props rev s : length (bins s) <= 256 ->
  NoDup (bin_order rev s) /\ Forall (fun i => i < 256) (bin_order rev s) /\
  Forall (fun i => i < length (view s)) (bin_order rev s).
Proof.
  intros H256. unfold bin_order.
  assert (Hseq : NoDup (seq 0 (length (bins s))) /\
                 forall i, In i (seq 0 (length (bins s))) -> i < length (bins s)).
  { split; [apply seq_NoDup|]. intros i Hin. apply in_seq in Hin. lia. }
  destruct Hseq as [Hnd Hin]. rewrite view_length. destruct rev.
  - split; [exact Hnd|]. split; apply Forall_forall; intros i Hi; apply Hin in Hi; lia.
  - split; [now apply NoDup_rev|]. split; apply Forall_forall; intros i Hi; apply in_rev in Hi; apply Hin in Hi; lia.
Qed.

(** iteration whose callbacks do not update: the reference walk over the bins,
    deepest bin first ([rev = false]) or shallowest first ([rev = true]) *)
Lemma each_pure rev s sc : WF s -> length (bins s) <= 256 -> pure sc ->
  let w := cut None (map ctl_of sc) (full_walk (bin_order rev s) (view s)) in
  each_bins grow pof (bin_order rev s) s sc = Ok (s, fst w, snd w).
Proof.
  intros Hwf H256 Hp. destruct (bin_order_props rev s H256) as (Hnd & H1 & H2).
  cbv zeta. rewrite each_bins_snapshot by exact Hwf. now apply v_each_bins_pure.
Qed.

Lemma cut_all w : cut None [] w = (w, false).
Proof. induction w as [|y w IH]; cbn [cut]; [reflexivity|]. now rewrite IH. Qed.

Definition visit_order (rev : bool) : list nat :=
  if rev then seq 0 maxBins else List.rev (seq 0 maxBins).

Lemma each_pure_reach us s rev sc : reach us s -> maxBins <= 256 -> pure sc ->
  let w := cut None (map ctl_of sc) (full_walk (visit_order rev) (view s)) in
  each_bins grow pof (bin_order rev s) s sc = Ok (s, fst w, snd w).
Proof.
  intros Hr H256 Hp. destruct (reach_facts us s Hr) as (Hwf & Hl & _).
  replace (visit_order rev) with (bin_order rev s) by (unfold visit_order, bin_order; now rewrite Hl).
  apply each_pure; auto. lia.
Qed.

Lemma each_full_reach us s rev : reach us s -> maxBins <= 256 ->
  each_bins grow pof (bin_order rev s) s [] = Ok (s, full_walk (visit_order rev) (view s), false).
Proof.
  intros Hr H256. pose proof (each_pure_reach us s rev [] Hr H256 (Forall_nil _)) as Hq.
  cbv zeta in Hq. cbn [map] in Hq. now rewrite cut_all in Hq.
Qed.

(** iteration with updating callbacks: yields = iteration over each bin as it
    was when its header was copied; the state afterwards is the one reached by
    the consumed callbacks' updates *)
Lemma each_snapshot_reach us s order sc : reach us s ->
  each_bins grow pof order s sc = v_each_bins grow pof order s sc /\
  forall s' ys e, each_bins grow pof order s sc = Ok (s', ys, e) ->
    exists k, reach (us ++ flat_map cb_upd (firstn k sc)) s'.
Proof.
  intros Hr. destruct (reach_facts us s Hr) as (Hwf & _ & _).
  split; [now apply each_bins_snapshot|].
  intros s' ys e Hq. rewrite each_bins_snapshot in Hq by exact Hwf.
  destruct (v_each_bins_upds grow pof _ _ _ _ _ _ Hq) as (k & Hu). exists k.
  unfold reach. rewrite upds_app. unfold reach in Hr. rewrite Hr. exact Hu.
Qed.

(** ---- published prefixes are never written again ---- *)
Lemma snapshot_safe us1 us2 s1 s2 i h :
  reach us1 s1 -> upds grow pof s1 us2 = Ok s2 -> nth_error (bins s1) i = Some h ->
  elems (heap s2) h = elems (heap s1) h /\
  exists w, wlog s2 = wlog s1 ++ w /\ forall j, In (h_arr h, j) w -> h_len h <= j.
Proof.
  intros Hr Hu Hn. destruct (reach_facts us1 s1 Hr) as (Hwf & _ & _).
  destruct (upds_good grow pof _ _ _ Hwf Hu) as [(_ & (_ & Hs & w & Hw & Hd) & _) _].
  pose proof (hdr_ok_of s1 i h Hwf Hn) as (Ha & _ & _).
  pose proof (Safe_own s1 i h Hwf Hn) as Hsafe.
  destruct (Hs _ _ Ha Hsafe) as [_ Hpre]. split; [exact Hpre|].
  exists w. split; [exact Hw|]. intros j Hin. eapply Hd; eauto.
Qed.

End Main.

(** ---- [PSlice.po] ---- *)

Lemma prox_loop_total capped maxpo : forall b one other i,
  b <= length one -> b <= length other -> exists p, prox_loop capped maxpo one other i b = Ret p.
Proof.
  induction b as [|b IH]; intros one other i H1 H2; cbn [prox_loop]; [eauto|].
  destruct one as [|x one]; [cbn in H1; lia|]. destruct other as [|y other]; [cbn in H2; lia|].
  destruct (scan_bits (N.lxor x y) 0 8); [eauto|]. apply IH; cbn in *; lia.
Qed.

Lemma proximity_total capped maxpo x y : exists p, proximity_gen capped maxpo x y = Ret p.
Proof.
  unfold proximity_gen.
  assert (Hu : forall n, (u8 (N.of_nat n) <= N.of_nat n)%N) by (intros n; unfold u8; apply N.mod_le; discriminate).
  pose proof (Hu (length x)) as Hx. pose proof (Hu (length y)) as Hy.
  cbv zeta. set (b0 := u8 (maxpo / 8 + 1)).
  set (l1 := u8 (N.of_nat (length x))) in *. set (l2 := u8 (N.of_nat (length y))) in *.
  set (b1 := if (l1 <? b0)%N then l1 else b0).
  assert (Hb1 : (b1 <= l1)%N) by (unfold b1; destruct (N.ltb_spec l1 b0); lia).
  set (b2 := if (l2 <? b1)%N then l2 else b1).
  assert (Hb2 : (b2 <= l2 /\ b2 <= b1)%N) by (unfold b2; destruct (N.ltb_spec l2 b1); lia).
  apply prox_loop_total; lia.
Qed.

Lemma last_bin maxBins : 1 <= maxBins <= 256 -> N.to_nat (u8 (u8 (N.of_nat maxBins) + 255)) = maxBins - 1.
Proof.
  intros [H1 H2]. destruct (Nat.eq_dec maxBins 256) as [->|Hne]; [reflexivity|].
  rewrite u8_small by lia. unfold u8.
  replace (N.of_nat maxBins + 255)%N with (N.of_nat (maxBins - 1) + 1 * 256)%N by lia.
  rewrite N.mod_add by discriminate. rewrite N.mod_small by lia. lia.
Qed.

Lemma po_of_ok maxpo base maxBins : 1 <= maxBins <= 256 -> forall a, in_range (po_of maxpo base maxBins) maxBins a.
Proof.
  intros Hb a. unfold in_range, po_of. destruct (proximity_total false maxpo base a) as (p & ->).
  destruct (N.leb_spec (N.of_nat maxBins) p).
  - eexists; split; [reflexivity|]. rewrite last_bin by exact Hb. lia.
  - eexists; split; [reflexivity|]. lia.
Qed.

(** the bin of an address: number of leading bits shared with the base, capped
    at [MaxPO] and at the last bin *)
Lemma po_of_spec maxpo base maxBins a :
  (maxpo mod 8 = 7)%N -> (maxpo < 248)%N -> 1 <= maxBins <= 256 ->
  length base = length a -> length base < 256 -> (maxpo < 8 * N.of_nat (length base))%N ->
  po_of maxpo base maxBins a = Some (Nat.min (Nat.min (lcp_bits base a) (N.to_nat maxpo)) (maxBins - 1)).
Proof.
  intros Hm Hlt Hb Hl H256 Hlong. unfold po_of.
  rewrite (proximity_uncapped maxpo base a Hm Hlt Hl H256 Hlong).
  destruct (N.leb_spec (N.of_nat maxBins) (N.min (N.of_nat (lcp_bits base a)) maxpo)).
  - rewrite last_bin by exact Hb. f_equal. lia.
  - f_equal. lia.
Qed.
