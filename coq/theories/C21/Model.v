(** C21 — model of pkg/topology/pslice/pslice.go (with proposed/C21/fix-batch-dup.patch
    applied).  Definitions only.

    Go slices are modelled as headers [(array id, len, cap)] over a heap of
    arrays, because the property is also about iteration running while the
    structure is updated: [EachBin]/[EachBinRev] copy a bin's slice header
    under the read lock and then read the cells [0,len) of the backing array
    WITHOUT the lock, while [Add] may write into the same backing array
    (append within capacity) and [Remove] allocates.  Every in-place write
    into an already existing array is recorded in [wlog].

    The growth policy of the Go runtime ([append] beyond capacity) is the
    Section variable [grow]; nothing is assumed about it (the model takes
    [max (grow cap need) need]).  [pof] is [PSlice.po]: proximity to the base
    capped at the last bin; it is instantiated with the C20 model of
    [boson.Proximity] at the end of the file. *)
From Coq Require Import List NArith Arith Bool.
Import ListNotations.
Require Import Aurora.Base.Corr Aurora.C20.Model.

Definition addr := list N.
Definition addr_eqb : addr -> addr -> bool := bytes_eqb.
Definition nilA : addr := [].

Inductive res (A : Type) : Type := Ok (x : A) | Panic.
Arguments Ok {A} x.
Arguments Panic {A}.

Definition bind {A B} (r : res A) (f : A -> res B) : res B :=
  match r with Ok x => f x | Panic => Panic end.

Fixpoint upd_nth {A} (l : list A) (i : nat) (x : A) : list A :=
  match l, i with
  | [], _ => []
  | _ :: t, O => x :: t
  | y :: t, S i' => y :: upd_nth t i' x
  end.

(** slice header *)
Record hdr := Hdr { h_arr : nat; h_len : nat; h_cap : nat }.
(** [heap]: array id -> cells (length = capacity); [bins]: [s.peers];
    [wlog]: (array, index) of every write into an array that existed before
    the operation started *)
Record st := St { heap : list (list addr); bins : list hdr; wlog : list (nat * nat) }.

Definition arr (hp : list (list addr)) (a : nat) : list addr := nth a hp [].
Definition elems (hp : list (list addr)) (h : hdr) : list addr := firstn (h_len h) (arr hp (h_arr h)).

(** [PSlice.index]: first position of [a] *)
Fixpoint index_of (a : addr) (l : list addr) (i : nat) : option nat :=
  match l with
  | [] => None
  | x :: t => if addr_eqb x a then Some i else index_of a t (S i)
  end.

Fixpoint mem (a : addr) (l : list addr) : bool :=
  match l with [] => false | x :: t => addr_eqb x a || mem a t end.

(** [New(maxBins, base)]: every bin is the nil slice; array 0 is the empty array *)
Definition init (maxBins : nat) : st := St [[]] (repeat (Hdr 0 0 0) maxBins) [].

Inductive uop := UAdd (l : list addr) | URemove (a : addr).

(** callback behaviour for one yielded peer: the returned (stop, next, err)
    and the updates the callback performs on the same PSlice before returning *)
Record cb := Cb { cb_stop : bool; cb_next : bool; cb_err : bool; cb_upd : list uop }.

Inductive flow := FNext | FStop | FErr.

Inductive op :=
| OUpd (u : uop)
| OExists (a : addr)
| OLength
| OBinSize (b : N)
| OBinPeers (b : N)
| OShallowestEmpty
| OEach (rev : bool) (script : list cb).

Inductive obs :=
| ObsUnit
| ObsBool (b : bool)
| ObsN (n : N)
| ObsPeers (l : list addr)
| ObsSE (i : N) (none : bool)
| ObsEach (ys : list (addr * N)) (err : bool).

Section PSlice.
Variable grow : nat -> nat -> nat.
Variable pof : addr -> option nat.

(** [s.peers[po] = append(s.peers[po], a)] where [h] is the current header of bin [po] *)
Definition append_bin (s : st) (po : nat) (h : hdr) (a : addr) : st :=
  if h_len h <? h_cap h then
    St (upd_nth (heap s) (h_arr h) (upd_nth (arr (heap s) (h_arr h)) (h_len h) a))
       (upd_nth (bins s) po (Hdr (h_arr h) (S (h_len h)) (h_cap h)))
       (wlog s ++ [(h_arr h, h_len h)])
  else
    let c := Nat.max (grow (h_cap h) (S (h_len h))) (S (h_len h)) in
    St (heap s ++ [elems (heap s) h ++ a :: repeat nilA (c - S (h_len h))])
       (upd_nth (bins s) po (Hdr (length (heap s)) (S (h_len h)) c))
       (wlog s).

(** single-address path of [Add] *)
Definition add1 (s : st) (a : addr) : res st :=
  match pof a with
  | None => Panic
  | Some po =>
      match nth_error (bins s) po with
      | None => Panic                       (* index out of range *)
      | Some h =>
          match index_of a (elems (heap s) h) 0 with
          | Some _ => Ok s
          | None => Ok (append_bin s po h a)
          end
      end
  end.

(** first loop of the batched path: (address, po, exists) for each argument;
    [seen] = the new addresses met earlier in the batch (the repair) *)
Fixpoint scan_batch (s : st) (l : list addr) (seen : list addr) : res (list (addr * nat * bool)) :=
  match l with
  | [] => Ok []
  | a :: t =>
      match pof a with
      | None => Panic
      | Some po =>
          match nth_error (bins s) po with
          | None => Panic
          | Some h =>
              match index_of a (elems (heap s) h) 0 with
              | Some _ => bind (scan_batch s t seen) (fun r => Ok ((a, po, true) :: r))
              | None =>
                  if mem a seen then bind (scan_batch s t seen) (fun r => Ok ((a, po, true) :: r))
                  else bind (scan_batch s t (a :: seen)) (fun r => Ok ((a, po, false) :: r))
              end
          end
      end
  end.

(** [binChange[i]] *)
Definition bin_change (plan : list (addr * nat * bool)) (i : nat) : nat :=
  length (filter (fun e => match e with (_, po, ex) => Nat.eqb po i && negb ex end) plan).

(** [newPeers := make(len, len+count); copy(newPeers, peers); s.peers[i] = newPeers] *)
Definition regrow (s : st) (i : nat) (h : hdr) (count : nat) : st :=
  St (heap s ++ [elems (heap s) h ++ repeat nilA count])
     (upd_nth (bins s) i (Hdr (length (heap s)) (h_len h) (h_len h + count)))
     (wlog s).

Definition pregrow_bin (plan : list (addr * nat * bool)) (s : st) (i : nat) : st :=
  match nth_error (bins s) i with
  | None => s
  | Some h =>
      let c := bin_change plan i in
      if (0 <? c) && (h_cap h <? h_len h + c) then regrow s i h c else s
  end.

Definition pregrow (plan : list (addr * nat * bool)) (s : st) : st :=
  fold_left (pregrow_bin plan) (seq 0 (length (bins s))) s.

(** third loop *)
Fixpoint append_plan (plan : list (addr * nat * bool)) (s : st) : res st :=
  match plan with
  | [] => Ok s
  | (a, po, ex) :: t =>
      if ex then append_plan t s
      else match nth_error (bins s) po with
           | None => Panic
           | Some h => append_plan t (append_bin s po h a)
           end
  end.

Definition addN (s : st) (l : list addr) : res st :=
  bind (scan_batch s l []) (fun plan => append_plan plan (pregrow plan s)).

Definition add (s : st) (l : list addr) : res st :=
  match l with
  | [a] => add1 s a
  | _ => addN s l
  end.

Definition remove (s : st) (a : addr) : res st :=
  match pof a with
  | None => Panic
  | Some po =>
      match nth_error (bins s) po with
      | None => Panic
      | Some h =>
          match index_of a (elems (heap s) h) 0 with
          | None => Ok s
          | Some i =>
              let nl := h_len h - 1 in
              let cpy := firstn nl (arr (heap s) (h_arr h)) in
              let cpy' := if i =? nl then cpy else upd_nth cpy i (nth nl (arr (heap s) (h_arr h)) nilA) in
              Ok (St (heap s ++ [cpy']) (upd_nth (bins s) po (Hdr (length (heap s)) nl nl)) (wlog s))
          end
      end
  end.

Definition upd (s : st) (u : uop) : res st :=
  match u with UAdd l => add s l | URemove a => remove s a end.

Fixpoint upds (s : st) (us : list uop) : res st :=
  match us with
  | [] => Ok s
  | u :: t => bind (upd s u) (fun s' => upds s' t)
  end.

(** ---- queries ---- *)
Definition q_exists (s : st) (a : addr) : res bool :=
  match pof a with
  | None => Panic
  | Some po =>
      match nth_error (bins s) po with
      | None => Panic
      | Some h => Ok (match index_of a (elems (heap s) h) 0 with Some _ => true | None => false end)
      end
  end.

Definition q_length (s : st) : nat := fold_left (fun acc h => acc + h_len h) (bins s) 0.

(** [bin] is a uint8; [int(bin) >= maxBins] gives 0 / nil *)
Definition q_binsize (s : st) (b : N) : nat :=
  match nth_error (bins s) (N.to_nat b) with Some h => h_len h | None => 0 end.
Definition q_binpeers (s : st) (b : N) : list addr :=
  match nth_error (bins s) (N.to_nat b) with Some h => elems (heap s) h | None => [] end.

Fixpoint shallowest_empty_from (l : list hdr) (i : nat) : N * bool :=
  match l with
  | [] => (0%N, true)
  | h :: t => if h_len h =? 0 then (u8 (N.of_nat i), false) else shallowest_empty_from t (S i)
  end.
Definition q_shallowest_empty (s : st) : N * bool := shallowest_empty_from (bins s) 0.

(** ---- iteration ---- *)

(** the [for _, peer := range peers] loop over the header copy [h] of bin [bin]:
    cells [j, j+n) are read from the heap AS IT IS WHEN THE LOOP REACHES THEM;
    the callback may update the structure *)
Fixpoint each_cells (h : hdr) (bin : nat) (j n : nat) (s : st) (sc : list cb)
  : res (st * list cb * list (addr * N) * flow) :=
  match n with
  | O => Ok (s, sc, [], FNext)
  | S n' =>
      let y := (nth j (arr (heap s) (h_arr h)) nilA, u8 (N.of_nat bin)) in
      match sc with
      | [] => bind (each_cells h bin (S j) n' s [])
                (fun r => match r with (s', sc', ys, f) => Ok (s', sc', y :: ys, f) end)
      | c :: sc' =>
          bind (upds s (cb_upd c)) (fun s1 =>
            if cb_err c then Ok (s1, sc', [y], FErr)
            else if cb_stop c then Ok (s1, sc', [y], FStop)
            else if cb_next c then Ok (s1, sc', [y], FNext)
            else bind (each_cells h bin (S j) n' s1 sc')
                   (fun r => match r with (s', sc'', ys, f) => Ok (s', sc'', y :: ys, f) end))
      end
  end.

Fixpoint each_bins (order : list nat) (s : st) (sc : list cb) : res (st * list (addr * N) * bool) :=
  match order with
  | [] => Ok (s, [], false)
  | i :: rest =>
      match nth_error (bins s) i with
      | None => Panic
      | Some h =>                                   (* header copied under RLock *)
          bind (each_cells h i 0 (h_len h) s sc) (fun r =>
            match r with
            | (s1, sc1, ys, FNext) =>
                bind (each_bins rest s1 sc1) (fun r2 =>
                  match r2 with (s2, ys2, e) => Ok (s2, ys ++ ys2, e) end)
            | (s1, _, ys, FStop) => Ok (s1, ys, false)
            | (s1, _, ys, FErr) => Ok (s1, ys, true)
            end)
      end
  end.

Definition bin_order (rev : bool) (s : st) : list nat :=
  if rev then seq 0 (length (bins s)) else List.rev (seq 0 (length (bins s))).

Definition step (s : st) (o : op) : res (st * obs) :=
  match o with
  | OUpd u => bind (upd s u) (fun s' => Ok (s', ObsUnit))
  | OExists a => bind (q_exists s a) (fun b => Ok (s, ObsBool b))
  | OLength => Ok (s, ObsN (N.of_nat (q_length s)))
  | OBinSize b => Ok (s, ObsN (N.of_nat (q_binsize s b)))
  | OBinPeers b => Ok (s, ObsPeers (q_binpeers s b))
  | OShallowestEmpty => let r := q_shallowest_empty s in Ok (s, ObsSE (fst r) (snd r))
  | OEach rev sc =>
      bind (each_bins (bin_order rev s) s sc) (fun r =>
        match r with (s', ys, e) => Ok (s', ObsEach ys e) end)
  end.

(** run a history; [None] in the output list marks the operation that panicked
    (the history stops there) *)
Fixpoint run (s : st) (os : list op) : st * list (option obs) :=
  match os with
  | [] => (s, [])
  | o :: t =>
      match step s o with
      | Panic => (s, [None])
      | Ok (s', ob) => let r := run s' t in (fst r, Some ob :: snd r)
      end
  end.

End PSlice.

(** [PSlice.po]: [boson.Proximity(base, peer)], and [uint8(maxBins) - 1] when
    that is [>= maxBins] *)
Definition po_of (maxpo : N) (base : addr) (maxBins : nat) (a : addr) : option nat :=
  match proximity_gen false maxpo base a with
  | Ret p =>
      if (N.of_nat maxBins <=? p)%N
      then Some (N.to_nat (u8 (u8 (N.of_nat maxBins) + 255)))
      else Some (N.to_nat p)
  | _ => None
  end.

(** a Go-like growth function used by the correspondence run (any function
    would do: capacities are not observable through the exported methods) *)
Definition go_grow (oldcap need : nat) : nat :=
  if oldcap * 2 <? need then need else if oldcap <? 256 then oldcap * 2 else oldcap + oldcap / 4.

(** current contents of all bins (the abstraction used by the proofs) *)
Definition view (s : st) : list (list addr) := map (elems (heap s)) (bins s).
