(** C21 — iteration.  (1) The loop of [EachBin]/[EachBinRev], which reads the
    backing array cell by cell while the callback updates the structure, yields
    exactly the contents the bin had when its header was copied
    ([each_bins_snapshot]).  (2) With callbacks that do not update, the yields
    are the reference walk [cut] over the bins in visiting order. *)
From Coq Require Import List NArith Arith Bool Lia.
Import ListNotations.
Require Import Aurora.Base.Corr Aurora.C20.Model Aurora.C21.Model Aurora.C21.Abs Aurora.C21.Heap Aurora.C21.Refine.

Section Iter.
Variable grow : nat -> nat -> nat.
Variable pof : addr -> option nat.

(** iteration over a captured list (value semantics): what a reader that
    copied the whole bin under the lock would yield *)
Fixpoint v_each_cells (l : list addr) (bin : nat) (s : st) (sc : list cb)
  : res (st * list cb * list (addr * N) * flow) :=
  match l with
  | [] => Ok (s, sc, [], FNext)
  | x :: l' =>
      let y := (x, u8 (N.of_nat bin)) in
      match sc with
      | [] => bind (v_each_cells l' bin s [])
                (fun r => match r with (s', sc', ys, f) => Ok (s', sc', y :: ys, f) end)
      | c :: sc' =>
          bind (upds grow pof s (cb_upd c)) (fun s1 =>
            if cb_err c then Ok (s1, sc', [y], FErr)
            else if cb_stop c then Ok (s1, sc', [y], FStop)
            else if cb_next c then Ok (s1, sc', [y], FNext)
            else bind (v_each_cells l' bin s1 sc')
                   (fun r => match r with (s', sc'', ys, f) => Ok (s', sc'', y :: ys, f) end))
      end
  end.

Fixpoint v_each_bins (order : list nat) (s : st) (sc : list cb) : res (st * list (addr * N) * bool) :=
  match order with
  | [] => Ok (s, [], false)
  | i :: rest =>
      match nth_error (view s) i with
      | None => Panic
      | Some l =>
          bind (v_each_cells l i s sc) (fun r =>
            match r with
            | (s1, sc1, ys, FNext) =>
                bind (v_each_bins rest s1 sc1) (fun r2 =>
                  match r2 with (s2, ys2, e) => Ok (s2, ys ++ ys2, e) end)
            | (s1, _, ys, FStop) => Ok (s1, ys, false)
            | (s1, _, ys, FErr) => Ok (s1, ys, true)
            end)
      end
  end.

Lemma v_each_cells_good : forall l bin s sc s1 sc1 ys f,
  WF s -> v_each_cells l bin s sc = Ok (s1, sc1, ys, f) -> good s s1.
Proof.
  induction l as [|x l IH]; intros bin s sc s1 sc1 ys f Hwf; cbn [v_each_cells].
  - intros Hq; inversion Hq; subst. now apply good_refl.
  - destruct sc as [|c sc'].
    + destruct (v_each_cells l bin s []) as [[[[s' sc''] ys'] f']|] eqn:Hr; [|discriminate].
      cbn [bind]. intros Hq; inversion Hq; subst. eapply IH; eauto.
    + destruct (upds grow pof s (cb_upd c)) as [s0|] eqn:Hu; [|discriminate]. cbn [bind].
      destruct (upds_good grow pof _ _ _ Hwf Hu) as [Hg _].
      destruct (cb_err c); [intros Hq; inversion Hq; subst; exact Hg|].
      destruct (cb_stop c); [intros Hq; inversion Hq; subst; exact Hg|].
      destruct (cb_next c); [intros Hq; inversion Hq; subst; exact Hg|].
      destruct (v_each_cells l bin s0 sc') as [[[[s' sc''] ys'] f']|] eqn:Hr; [|discriminate].
      cbn [bind]. intros Hq; inversion Hq; subst.
      eapply good_trans; [exact Hg|]. eapply IH; [apply Hg|exact Hr].
Qed.

Lemma nth_of_firstn_app (X pre l : list addr) x n :
  firstn n X = pre ++ x :: l -> nth (length pre) X nilA = x.
Proof.
  intros Hq. assert (Hn : length pre < n).
  { assert (Hl : length (firstn n X) = length (pre ++ x :: l)) by now rewrite Hq.
    rewrite firstn_length, app_length in Hl. cbn in Hl. lia. }
  assert (H1 : nth (length pre) (firstn n X) nilA = x).
  { rewrite Hq. rewrite app_nth2 by lia. now rewrite Nat.sub_diag. }
  rewrite <- H1. clear -Hn. revert X n Hn. generalize (length pre) as k.
  induction k as [|k IH]; intros [|y X] [|n] Hn; cbn; auto; try lia. apply IH. lia.
Qed.

(** the cell-by-cell loop = iteration over the captured contents *)
Lemma each_cells_snapshot (h : hdr) (bin : nat) : forall l pre s sc,
  WF s -> h_arr h < length (heap s) ->
  Safe s (h_arr h) (length pre + length l) ->
  firstn (length pre + length l) (arr (heap s) (h_arr h)) = pre ++ l ->
  each_cells grow pof h bin (length pre) (length l) s sc = v_each_cells l bin s sc.
Proof.
  induction l as [|x l IH]; intros pre s sc Hwf Ha Hsafe Hfirst; cbn [each_cells v_each_cells length]; [reflexivity|].
  rewrite (nth_of_firstn_app _ _ _ _ _ Hfirst).
  assert (Hlen : length (pre ++ [x]) + length l = length pre + length (x :: l)).
  { rewrite app_length. cbn. lia. }
  destruct sc as [|c sc'].
  - replace (S (length pre)) with (length (pre ++ [x])) by (rewrite app_length; cbn; lia).
    rewrite (IH (pre ++ [x]) s []); auto.
    + now rewrite Hlen.
    + rewrite Hlen, <- app_assoc. exact Hfirst.
  - destruct (upds grow pof s (cb_upd c)) as [s1|] eqn:Hu; [|reflexivity]. cbn [bind].
    destruct (cb_err c); [reflexivity|]. destruct (cb_stop c); [reflexivity|]. destruct (cb_next c); [reflexivity|].
    destruct (upds_good grow pof _ _ _ Hwf Hu) as [(Hwf1 & (Hl1 & Hs1 & _) & _) _].
    destruct (Hs1 _ _ Ha Hsafe) as [Hsafe1 Hpre1].
    replace (S (length pre)) with (length (pre ++ [x])) by (rewrite app_length; cbn; lia).
    rewrite (IH (pre ++ [x]) s1 sc'); auto.
    + lia.
    + now rewrite Hlen.
    + rewrite Hlen, <- app_assoc. cbn [length] in *. now rewrite Hpre1.
Qed.

Theorem each_bins_snapshot : forall order s sc,
  WF s -> each_bins grow pof order s sc = v_each_bins order s sc.
Proof.
  induction order as [|i rest IH]; intros s sc Hwf; cbn [each_bins v_each_bins]; [reflexivity|].
  destruct (nth_error (bins s) i) as [h|] eqn:Hn.
  - rewrite (view_nth_error s i h Hn). pose proof (hdr_ok_of s i h Hwf Hn) as Hok.
    pose proof (elems_length _ _ Hok) as Hel.
    assert (Hcells : each_cells grow pof h i 0 (h_len h) s sc = v_each_cells (elems (heap s) h) i s sc).
    { rewrite <- Hel. apply (each_cells_snapshot h i (elems (heap s) h) [] s sc); auto.
      - apply Hok.
      - cbn [length plus]. rewrite Hel. eapply Safe_own; eauto.
      - cbn [length plus app]. rewrite Hel. reflexivity. }
    rewrite Hcells.
    destruct (v_each_cells (elems (heap s) h) i s sc) as [[[[s1 sc1] ys] f]|] eqn:Hr; [|reflexivity].
    cbn [bind]. destruct f; auto. rewrite IH; auto.
    apply (v_each_cells_good _ _ _ _ _ _ _ _ Hwf Hr).
  - unfold view. rewrite nth_error_map, Hn. reflexivity.
Qed.

Lemma v_each_bins_good : forall order s sc s' ys e,
  WF s -> v_each_bins order s sc = Ok (s', ys, e) -> good s s'.
Proof.
  induction order as [|i rest IH]; intros s sc s' ys e Hwf; cbn [v_each_bins].
  - intros Hq; inversion Hq; subst. now apply good_refl.
  - destruct (nth_error (view s) i) as [l|]; [|discriminate].
    destruct (v_each_cells l i s sc) as [[[[s1 sc1] ys1] f]|] eqn:Hr; [|discriminate]. cbn [bind].
    pose proof (v_each_cells_good _ _ _ _ _ _ _ _ Hwf Hr) as Hg.
    destruct f; try (intros Hq; inversion Hq; subst; exact Hg).
    destruct (v_each_bins rest s1 sc1) as [[[s2 ys2] e2]|] eqn:Hr2; [|discriminate]. cbn [bind].
    intros Hq; inversion Hq; subst. eapply good_trans; [exact Hg|]. eapply IH; [apply Hg|exact Hr2].
Qed.

(** ---- the state after an iteration: the consumed callbacks' updates, in order ---- *)

Lemma upds_app us1 : forall s us2,
  upds grow pof s (us1 ++ us2) = bind (upds grow pof s us1) (fun s1 => upds grow pof s1 us2).
Proof.
  induction us1 as [|u t IH]; intros s us2; cbn [upds app bind]; [reflexivity|].
  destruct (upd grow pof s u) as [s1|]; cbn [bind]; [apply IH|reflexivity].
Qed.

Lemma firstn_plus {A} (l : list A) k1 k2 : firstn (k1 + k2) l = firstn k1 l ++ firstn k2 (skipn k1 l).
Proof.
  revert l; induction k1 as [|k1 IH]; intros l; cbn; [reflexivity|].
  destruct l as [|x l]; cbn; [now rewrite firstn_nil|]. now rewrite IH.
Qed.

Lemma v_each_cells_upds : forall l bin s sc s1 sc1 ys f,
  v_each_cells l bin s sc = Ok (s1, sc1, ys, f) ->
  exists k, sc1 = skipn k sc /\ upds grow pof s (flat_map cb_upd (firstn k sc)) = Ok s1.
Proof.
  induction l as [|x l IH]; intros bin s sc s1 sc1 ys f; cbn [v_each_cells].
  - intros Hq; inversion Hq; subst. exists 0. split; reflexivity.
  - destruct sc as [|c sc'].
    + destruct (v_each_cells l bin s []) as [[[[s' sc''] ys'] f']|] eqn:Hr; [|discriminate].
      cbn [bind]. intros Hq; inversion Hq; subst. destruct (IH _ _ _ _ _ _ _ Hr) as (k & Hs & Hu).
      exists k. split; [exact Hs|exact Hu].
    + destruct (upds grow pof s (cb_upd c)) as [s0|] eqn:Hu; [|discriminate]. cbn [bind].
      assert (H1 : forall ys0 f0, Ok (s0, sc', ys0, f0) = Ok (s1, sc1, ys, f) ->
                   exists k, sc1 = skipn k (c :: sc') /\ upds grow pof s (flat_map cb_upd (firstn k (c :: sc'))) = Ok s1).
      { intros ys0 f0 Hq; inversion Hq; subst. exists 1. split; [reflexivity|].
        cbn [firstn flat_map]. now rewrite app_nil_r. }
      destruct (cb_err c); [apply H1|]. destruct (cb_stop c); [apply H1|]. destruct (cb_next c); [apply H1|].
      destruct (v_each_cells l bin s0 sc') as [[[[s' sc''] ys'] f']|] eqn:Hr; [|discriminate].
      cbn [bind]. intros Hq; inversion Hq; subst. destruct (IH _ _ _ _ _ _ _ Hr) as (k & Hs & Hu').
      exists (S k). split; [exact Hs|]. cbn [firstn flat_map]. rewrite upds_app, Hu. exact Hu'.
Qed.

Lemma v_each_bins_upds : forall order s sc s' ys e,
  v_each_bins order s sc = Ok (s', ys, e) ->
  exists k, upds grow pof s (flat_map cb_upd (firstn k sc)) = Ok s'.
Proof.
  induction order as [|i rest IH]; intros s sc s' ys e; cbn [v_each_bins].
  - intros Hq; inversion Hq; subst. exists 0. reflexivity.
  - destruct (nth_error (view s) i) as [l|]; [|discriminate].
    destruct (v_each_cells l i s sc) as [[[[s1 sc1] ys1] f]|] eqn:Hr; [|discriminate]. cbn [bind].
    destruct (v_each_cells_upds _ _ _ _ _ _ _ _ Hr) as (k & Hs & Hu).
    destruct f; try (intros Hq; inversion Hq; subst; exists k; exact Hu).
    destruct (v_each_bins rest s1 sc1) as [[[s2 ys2] e2]|] eqn:Hr2; [|discriminate]. cbn [bind].
    intros Hq; inversion Hq; subst. destruct (IH _ _ _ _ _ Hr2) as (k2 & Hu2).
    exists (k + k2). rewrite firstn_plus, flat_map_app, upds_app, Hu. exact Hu2.
Qed.

(** ---- callbacks that do not update: the reference walk ---- *)

Definition pure (sc : list cb) : Prop := Forall (fun c => cb_upd c = []) sc.

Lemma cut_skip_absent b sc w : Forall (fun y : addr * N => snd y <> b) w -> cut (Some b) sc w = cut None sc w.
Proof.
  intros Hf. destruct w as [|y w']; cbn [cut]; [reflexivity|].
  inversion Hf; subst. destruct (N.eqb_spec (snd y) b); [contradiction|reflexivity].
Qed.

Lemma cut_skip_bin b sc (l : list addr) w :
  cut (Some b) sc (map (fun a => (a, b)) l ++ w) = cut (Some b) sc w.
Proof. induction l as [|x l IH]; cbn [map app cut snd]; auto. now rewrite N.eqb_refl. Qed.

Lemma v_each_cells_pure : forall l bin s sc, pure sc ->
  exists sc1 ys f, v_each_cells l bin s sc = Ok (s, sc1, ys, f) /\ pure sc1 /\
    forall w', Forall (fun y : addr * N => snd y <> u8 (N.of_nat bin)) w' ->
      cut None (map ctl_of sc) (map (fun a => (a, u8 (N.of_nat bin))) l ++ w') =
      match f with
      | FNext => let r := cut None (map ctl_of sc1) w' in (ys ++ fst r, snd r)
      | FStop => (ys, false)
      | FErr => (ys, true)
      end.
Proof.
  induction l as [|x l IH]; intros bin s sc Hp; cbn [v_each_cells].
  - exists sc, [], FNext. split; [reflexivity|]. split; [exact Hp|].
    intros w' _. cbn. now destruct (cut None (map ctl_of sc) w').
  - destruct sc as [|c sc'].
    + destruct (IH bin s [] Hp) as (sc1 & ys & f & Hr & Hp1 & Hcut). rewrite Hr. cbn [bind].
      exists sc1, ((x, u8 (N.of_nat bin)) :: ys), f. split; [reflexivity|]. split; [exact Hp1|].
      intros w' Hw. cbn [map app cut]. specialize (Hcut w' Hw). cbn [map] in Hcut. rewrite Hcut.
      destruct f; reflexivity.
    + inversion Hp as [|? ? Hc Hp']; subst. rewrite Hc. cbn [upds bind].
      cbn [map app]. change (ctl_of c) with (cb_stop c, cb_next c, cb_err c). cbn [cut snd].
      destruct (cb_err c).
      { exists sc', [(x, u8 (N.of_nat bin))], FErr. repeat split; auto. }
      destruct (cb_stop c).
      { exists sc', [(x, u8 (N.of_nat bin))], FStop. repeat split; auto. }
      destruct (cb_next c).
      { exists sc', [(x, u8 (N.of_nat bin))], FNext. split; [reflexivity|]. split; [exact Hp'|].
        intros w' Hw. cbn [snd]. rewrite !cut_skip_bin, !(cut_skip_absent _ _ _ Hw). reflexivity. }
      destruct (IH bin s sc' Hp') as (sc1 & ys & f & Hr & Hp1 & Hcut). rewrite Hr. cbn [bind].
      exists sc1, ((x, u8 (N.of_nat bin)) :: ys), f. split; [reflexivity|]. split; [exact Hp1|].
      intros w' Hw. rewrite (Hcut w' Hw). destruct f; reflexivity.
Qed.

Lemma u8_small i : i < 256 -> u8 (N.of_nat i) = N.of_nat i.
Proof. intros Hlt. unfold u8. apply N.mod_small. lia. Qed.

Lemma full_walk_bins rest vb i :
  i < 256 -> Forall (fun j => j < 256) rest -> ~ In i rest ->
  Forall (fun y : addr * N => snd y <> u8 (N.of_nat i)) (full_walk rest vb).
Proof.
  intros Hi Hr Hnin. unfold full_walk. apply Forall_forall. intros y Hy.
  apply in_flat_map in Hy as (j & Hj & Hy). apply in_map_iff in Hy as (a & <- & _). cbn [snd].
  assert (Hj' : j < 256) by (eapply Forall_forall in Hr; eauto).
  rewrite !u8_small by assumption. intros Hq. apply Nat2N.inj in Hq. subst. contradiction.
Qed.

Theorem v_each_bins_pure : forall order s sc,
  pure sc -> NoDup order -> Forall (fun i => i < 256) order -> Forall (fun i => i < length (view s)) order ->
  v_each_bins order s sc =
  Ok (s, fst (cut None (map ctl_of sc) (full_walk order (view s))),
         snd (cut None (map ctl_of sc) (full_walk order (view s)))).
Proof.
  induction order as [|i rest IH]; intros s sc Hp Hnd H256 Hlen; cbn [v_each_bins].
  - reflexivity.
  - inversion Hnd; subst. inversion H256; subst. inversion Hlen; subst.
    destruct (nth_error (view s) i) as [l|] eqn:Hn; [|apply nth_error_None in Hn; lia].
    destruct (v_each_cells_pure l i s sc Hp) as (sc1 & ys & f & Hr & Hp1 & Hcut).
    rewrite Hr. cbn [bind].
    assert (Hw : full_walk (i :: rest) (view s) =
                 map (fun a => (a, u8 (N.of_nat i))) l ++ full_walk rest (view s)).
    { unfold full_walk. cbn [flat_map]. now rewrite (nth_error_nth' _ _ [] _ Hn). }
    rewrite Hw, (Hcut _ (full_walk_bins rest (view s) i ltac:(assumption) ltac:(assumption) ltac:(assumption))).
    destruct f; try reflexivity.
    rewrite (IH s sc1); auto.
Qed.

End Iter.
