(** C21 — regression witness (seeded/C21-3): a [Remove] that, when the removed
    peer is the LAST element of its bin, re-slices the bin in place
    ([s.peers[po] = s.peers[po][:n-1]]) instead of copying it.  The shortened
    header keeps the spare capacity, so the next append writes IN PLACE into a
    cell below the length of a header published earlier: the discipline of
    [C21_snapshot_safe_partial] fails for this variant. *)
From Coq Require Import List NArith Arith Bool.
Import ListNotations.
Require Import Aurora.Base.Corr Aurora.C21.Model.

Section Variant.
Variable grow : nat -> nat -> nat.
Variable pof : addr -> option nat.

Definition remove_trunc (s : st) (a : addr) : res st :=
  match pof a with
  | None => Panic
  | Some po =>
      match nth_error (bins s) po with
      | None => Panic
      | Some h =>
          match index_of a (elems (heap s) h) 0 with
          | None => Ok s
          | Some i =>
              if i =? h_len h - 1
              then Ok (St (heap s) (upd_nth (bins s) po (Hdr (h_arr h) (h_len h - 1) (h_cap h))) (wlog s))
              else remove pof s a
          end
      end
  end.
End Variant.

Definition rw_base : addr := [165; 165; 165; 165]%N.
Definition rw_pof : addr -> option nat := po_of 31 rw_base 4.
Definition rw_a : addr := [133; 0; 0; 1]%N.
Definition rw_b : addr := [133; 0; 0; 2]%N.
Definition rw_c : addr := [133; 0; 0; 3]%N.

(** bin 2 = {a, b, c} (one batched Add: capacity 3) *)
Definition rw_s1 : res st := add go_grow rw_pof (init 4) [rw_a; rw_b; rw_c].
(** the demo's callback: Remove(c), Remove(b), Add(c), Add(b) *)
Definition rw_s2 : res st :=
  bind rw_s1 (fun s => bind (remove_trunc rw_pof s rw_c) (fun s => bind (remove_trunc rw_pof s rw_b)
    (fun s => bind (add go_grow rw_pof s [rw_c]) (fun s => add go_grow rw_pof s [rw_b])))).

Theorem truncating_remove_refuted :
  exists s1 s2 h,
    rw_s1 = Ok s1 /\ rw_s2 = Ok s2 /\ nth_error (bins s1) 2 = Some h /\
    (* an iterator that copied [h] and reads its cells later sees a, c, b ... *)
    elems (heap s1) h = [rw_a; rw_b; rw_c] /\ elems (heap s2) h = [rw_a; rw_c; rw_b] /\
    (* ... because an in-place write landed below the published length *)
    exists w j, wlog s2 = wlog s1 ++ w /\ In (h_arr h, j) w /\ j < h_len h.
Proof.
  vm_compute. do 3 eexists. split; [reflexivity|]. split; [reflexivity|]. split; [reflexivity|].
  split; [reflexivity|]. split; [reflexivity|]. exists [(1, 1); (1, 2)], 1.
  split; [reflexivity|]. split; [now left|]. repeat constructor.
Qed.
