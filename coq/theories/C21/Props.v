(** C21 — property theorems only.  [grow] (the runtime's slice growth policy)
    is universally quantified everywhere; [po base maxBins] is [PSlice.po] at
    the constant [MaxPO] re-extracted from pkg/boson on every run.

    Reading guide:
      [reach grow pof n us s]   = [upds grow pof (init n) us = Ok s]: [s] is the state of
                                  [pslice.New(n, base)] after the updates [us] (single and batched
                                  [Add], [Remove]), no step having panicked;
      [s_upds [] us]            = the set of the statement: added and not removed, as a
                                  duplicate-free list;
      [view s]                  = contents of the bins (slice order);
      [s_bin pof S i]           = members of [S] whose bin is [i]. *)
From Coq Require Import List NArith ZArith Arith Bool Permutation.
Import ListNotations.
Require Import Aurora.Consts Aurora.C20.Model.
Require Import Aurora.C21.Model Aurora.C21.Abs Aurora.C21.Heap Aurora.C21.Refine Aurora.C21.SetSem Aurora.C21.Iter Aurora.C21.Proofs Aurora.C21.Regress.

Definition MaxPO : N := Z.to_N Consts.boson_MaxPO.
Definition po (base : addr) (maxBins : nat) : addr -> option nat := po_of MaxPO base maxBins.

Lemma consts_ok_C21 : ((MaxPO mod 8 =? 7) && (MaxPO <? 248))%N && (0 <=? Consts.boson_MaxPO)%Z = true.
Proof. vm_compute. reflexivity. Qed.
Lemma MaxPO_mod : (MaxPO mod 8 = 7)%N. Proof. vm_compute. reflexivity. Qed.
Lemma MaxPO_lt : (MaxPO < 248)%N. Proof. vm_compute. reflexivity. Qed.

(** no operation sequence panics on a PSlice with 1..256 bins *)
Theorem C21_no_panic : forall grow base maxBins, 1 <= maxBins <= 256 ->
  forall us, exists s, reach grow (po base maxBins) maxBins us s.
Proof. intros grow base maxBins Hb. exact (no_panic grow _ maxBins (po_of_ok MaxPO base maxBins Hb)). Qed.
Print Assumptions C21_no_panic.

(** "contains exactly the added and not removed addresses, each once, in the
    bin given by its proximity to the base" *)
Theorem C21_set_semantics : forall grow base maxBins, 1 <= maxBins <= 256 ->
  forall us s, reach grow (po base maxBins) maxBins us s ->
  let S := s_upds [] us in
  NoDup S /\
  NoDup (concat (view s)) /\
  Permutation (concat (view s)) S /\
  length (view s) = maxBins /\
  (forall i, Permutation (nth i (view s) []) (s_bin (po base maxBins) S i)) /\
  (forall i a, In a (nth i (view s) []) -> po base maxBins a = Some i).
Proof. intros grow base maxBins Hb. exact (set_semantics grow _ maxBins (po_of_ok MaxPO base maxBins Hb)). Qed.
Print Assumptions C21_set_semantics.

(** "(capped at the last bin)": the bin is the number of leading bits shared
    with the base, capped at MaxPO and at [maxBins - 1] *)
Theorem C21_bin_is_capped_proximity : forall base maxBins a,
  1 <= maxBins <= 256 -> length base = length a -> length base < 256 ->
  (MaxPO < 8 * N.of_nat (length base))%N ->
  po base maxBins a = Some (Nat.min (Nat.min (lcp_bits base a) (N.to_nat MaxPO)) (maxBins - 1)).
Proof. intros base maxBins a. exact (po_of_spec MaxPO base maxBins a MaxPO_mod MaxPO_lt). Qed.
Print Assumptions C21_bin_is_capped_proximity.

(** "sizes, emptiness queries ... agree with that set" *)
Theorem C21_sizes : forall grow base maxBins, 1 <= maxBins <= 256 ->
  forall us s, reach grow (po base maxBins) maxBins us s ->
  let S := s_upds [] us in
  q_length s = length S /\
  (forall a, q_exists (po base maxBins) s a = Ok (mem a S)) /\
  (forall b, q_binsize s b = length (s_bin (po base maxBins) S (N.to_nat b))) /\
  (forall b, Permutation (q_binpeers s b) (s_bin (po base maxBins) S (N.to_nat b))) /\
  match q_shallowest_empty s with
  | (se, false) => N.to_nat se < maxBins /\ s_bin (po base maxBins) S (N.to_nat se) = [] /\
                   forall j, j < N.to_nat se -> s_bin (po base maxBins) S j <> []
  | (se, true) => se = 0%N /\ forall j, j < maxBins -> s_bin (po base maxBins) S j <> []
  end.
Proof.
  intros grow base maxBins Hb us s Hr.
  exact (conj (q_length_spec grow _ maxBins (po_of_ok MaxPO base maxBins Hb) us s Hr)
        (conj (fun a => q_exists_spec grow _ maxBins (po_of_ok MaxPO base maxBins Hb) us s a Hr)
        (conj (fun b => q_binsize_spec grow _ maxBins (po_of_ok MaxPO base maxBins Hb) us s b Hr)
        (conj (fun b => q_binpeers_spec grow _ maxBins (po_of_ok MaxPO base maxBins Hb) us s b Hr)
              (q_shallowest_empty_spec grow _ maxBins (po_of_ok MaxPO base maxBins Hb) us s Hr (proj2 Hb)))))).
Qed.
Print Assumptions C21_sizes.

(** "deepest-first and shallowest-first iteration, including early stop and
    skip-to-next-bin": with callbacks that do not update, [EachBin]
    ([rev = false]) / [EachBinRev] ([rev = true]) leave the state unchanged and
    yield the reference walk [cut] (stop / next / err applied) over
    [full_walk]: the bins [maxBins-1 .. 0] resp. [0 .. maxBins-1], each bin's
    members (by C21_set_semantics a permutation of the set's members of that bin) *)
Theorem C21_iteration : forall grow base maxBins, 1 <= maxBins <= 256 ->
  forall us s rev sc, reach grow (po base maxBins) maxBins us s -> pure sc ->
  let w := cut None (map ctl_of sc) (full_walk (visit_order maxBins rev) (view s)) in
  each_bins grow (po base maxBins) (bin_order rev s) s sc = Ok (s, fst w, snd w).
Proof.
  intros grow base maxBins Hb us s rev sc Hr.
  exact (each_pure_reach grow _ maxBins (po_of_ok MaxPO base maxBins Hb) us s rev sc Hr (proj2 Hb)).
Qed.
Print Assumptions C21_iteration.

(** a callback that always continues sees every member once, bin by bin *)
Theorem C21_iteration_full : forall grow base maxBins, 1 <= maxBins <= 256 ->
  forall us s rev, reach grow (po base maxBins) maxBins us s ->
  each_bins grow (po base maxBins) (bin_order rev s) s [] =
  Ok (s, full_walk (visit_order maxBins rev) (view s), false).
Proof.
  intros grow base maxBins Hb us s rev Hr.
  exact (each_full_reach grow _ maxBins (po_of_ok MaxPO base maxBins Hb) us s rev Hr (proj2 Hb)).
Qed.
Print Assumptions C21_iteration_full.

(** iteration while the structure is updated (the callback runs without the
    lock): reading the backing array cell by cell gives exactly what a copy of
    each bin taken at header-copy time gives ([v_each_bins]), and the state
    afterwards is the one reached by the consumed callbacks' updates — so
    C21_set_semantics / C21_sizes apply to it *)
Theorem C21_iteration_under_updates : forall grow base maxBins, 1 <= maxBins <= 256 ->
  forall us s order sc, reach grow (po base maxBins) maxBins us s ->
  each_bins grow (po base maxBins) order s sc = v_each_bins grow (po base maxBins) order s sc /\
  forall s' ys e, each_bins grow (po base maxBins) order s sc = Ok (s', ys, e) ->
    exists k, reach grow (po base maxBins) maxBins (us ++ flat_map cb_upd (firstn k sc)) s'.
Proof. intros grow base maxBins Hb. exact (each_snapshot_reach grow _ maxBins (po_of_ok MaxPO base maxBins Hb)). Qed.
Print Assumptions C21_iteration_under_updates.

(** race freedom as a heap discipline (PARTIAL with respect to real memory):
    writers are serialised by the mutex, so a concurrent execution is a
    writer history [us1 ++ us2] with a reader that copied header [h] of some
    bin after [us1] (under RLock) and reads cells [0, len h) of its array at
    any later time without the lock.  Those cells never change, and every
    in-place write performed later into that array ([wlog]) is at an index
    [>= len h]: no write ever touches a cell a reader may read. *)
Theorem C21_snapshot_safe_partial : forall grow base maxBins, 1 <= maxBins <= 256 ->
  forall us1 us2 s1 s2 i h, reach grow (po base maxBins) maxBins us1 s1 ->
  upds grow (po base maxBins) s1 us2 = Ok s2 -> nth_error (bins s1) i = Some h ->
  elems (heap s2) h = elems (heap s1) h /\
  exists w, wlog s2 = wlog s1 ++ w /\ forall j, In (h_arr h, j) w -> h_len h <= j.
Proof. intros grow base maxBins Hb. exact (snapshot_safe grow _ maxBins (po_of_ok MaxPO base maxBins Hb)). Qed.
Print Assumptions C21_snapshot_safe_partial.

(** regression witness (seeded/C21-3), NOT about the code under test: with a
    [Remove] that re-slices in place when the removed peer is the last element
    of its bin ([remove_trunc]), the discipline above fails — bin {a,b,c} (capacity
    3), header copied, then Remove(c), Remove(b), Add(c), Add(b): the copied header
    now reads a, c, b and an in-place write landed at index 1 < 3 *)
Theorem C21_truncating_remove_refuted :
  exists s1 s2 h,
    rw_s1 = Ok s1 /\ rw_s2 = Ok s2 /\ nth_error (bins s1) 2 = Some h /\
    elems (heap s1) h = [rw_a; rw_b; rw_c] /\ elems (heap s2) h = [rw_a; rw_c; rw_b] /\
    exists w j, wlog s2 = wlog s1 ++ w /\ In (h_arr h, j) w /\ j < h_len h.
Proof. exact truncating_remove_refuted. Qed.
Print Assumptions C21_truncating_remove_refuted.

(** non-vacuity: a concrete history (batched add with a repeated address,
    capping at the last bin, a swap-remove, an in-place append) is reachable and
    its published header keeps its cells while later updates write in place *)
Example C21_hyps_satisfiable :
  let base := [165; 165; 165; 165]%N in
  let a0 := [37; 0; 0; 0]%N in let a0' := [21; 0; 0; 0]%N in let a0'' := [5; 0; 0; 0]%N in
  let a1 := [229; 0; 0; 0]%N in let a9 := [165; 229; 0; 0]%N in
  let us1 := [UAdd [a0; a0; a1; a9; a0'; a0'']; URemove a0] in
  let us2 := [UAdd [[15; 0; 0; 0]%N]; UAdd [[14; 0; 0; 0]%N]] in
  exists s1 s2,
    reach go_grow (po base 4) 4 us1 s1 /\ upds go_grow (po base 4) s1 us2 = Ok s2 /\
    view s1 = [[a0''; a0']; [a1]; []; [a9]] /\
    s_upds [] us1 = [a1; a9; a0'; a0''] /\
    wlog s2 <> wlog s1 /\
    fst (cut None [(false, true, false); (false, false, false); (true, false, false)]
           (full_walk (visit_order 4 true) (view s1))) = [(a0'', 0%N); (a1, 1%N); (a9, 3%N)].
Proof.
  cbv zeta. eexists. eexists. split; [vm_compute; reflexivity|]. split; [vm_compute; reflexivity|].
  vm_compute. repeat split; try reflexivity. discriminate.
Qed.
