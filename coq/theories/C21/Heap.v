(** C21 — heap discipline of the slice model and the refinement to a
    value-level structure ([view]): well-formedness, the [ext] relation
    (published prefixes are never written again) and its preservation by every
    update. *)
From Coq Require Import List NArith Arith Bool Lia.
Import ListNotations.
Require Import Aurora.Base.Corr Aurora.C21.Model.

(** ---- list helpers ---- *)

Lemma upd_nth_length {A} (l : list A) i x : length (upd_nth l i x) = length l.
Proof. revert i; induction l as [|y l IH]; intros [|i]; cbn; auto. Qed.

Lemma nth_error_upd_nth_eq {A} (l : list A) i x : i < length l -> nth_error (upd_nth l i x) i = Some x.
Proof. revert i; induction l as [|y l IH]; intros [|i] Hi; cbn in *; try lia; auto. apply IH; lia. Qed.

Lemma nth_error_upd_nth_neq {A} (l : list A) i j x : i <> j -> nth_error (upd_nth l i x) j = nth_error l j.
Proof. revert i j; induction l as [|y l IH]; intros [|i] [|j] Hne; cbn; auto; try congruence. Qed.

Lemma nth_upd_nth_eq {A} (l : list A) i x d : i < length l -> nth i (upd_nth l i x) d = x.
Proof. revert i; induction l as [|y l IH]; intros [|i] Hi; cbn in *; try lia; auto. apply IH; lia. Qed.

Lemma nth_upd_nth_neq {A} (l : list A) i j x d : i <> j -> nth j (upd_nth l i x) d = nth j l d.
Proof. revert i j; induction l as [|y l IH]; intros [|i] [|j] Hne; cbn; auto; try congruence. Qed.

Lemma upd_nth_oob {A} (l : list A) i x : length l <= i -> upd_nth l i x = l.
Proof. revert i; induction l as [|y l IH]; intros [|i] Hi; cbn in *; try lia; auto. f_equal; apply IH; lia. Qed.

Lemma map_upd_nth {A B} (f : A -> B) l i x : map f (upd_nth l i x) = upd_nth (map f l) i (f x).
Proof. revert i; induction l as [|y l IH]; intros [|i]; cbn; auto. f_equal; apply IH. Qed.

Lemma firstn_upd_nth_le {A} (l : list A) n i x : n <= i -> firstn n (upd_nth l i x) = firstn n l.
Proof.
  revert n i; induction l as [|y l IH]; intros [|n] [|i] Hle; cbn; auto; try lia.
  f_equal; apply IH; lia.
Qed.

Lemma firstn_S_upd_nth {A} (l : list A) i x : i < length l -> firstn (S i) (upd_nth l i x) = firstn i l ++ [x].
Proof.
  revert i; induction l as [|y l IH]; intros [|i] Hi; cbn in *; try lia; auto.
  f_equal. apply IH; lia.
Qed.

Lemma nth_error_nth' {A} (l : list A) i d x : nth_error l i = Some x -> nth i l d = x.
Proof. revert i; induction l as [|y l IH]; intros [|i]; cbn; intros Hq; try discriminate; auto. now inversion Hq. Qed.

Lemma nth_error_Some_lt {A} (l : list A) i x : nth_error l i = Some x -> i < length l.
Proof. intros Hq. apply nth_error_Some. congruence. Qed.

Lemma In_upd_nth {A} (l : list A) i x y : In y (upd_nth l i x) -> y = x \/ In y l.
Proof.
  revert i; induction l as [|z l IH]; intros [|i]; cbn; auto.
  - intros [->|Hin]; auto.
  - intros [->|Hin]; auto. destruct (IH _ Hin); auto.
Qed.

Lemma nth_error_upd_nth_inv {A} (l : list A) i j x y :
  nth_error (upd_nth l i x) j = Some y -> (j = i /\ y = x /\ i < length l) \/ (i <> j /\ nth_error l j = Some y).
Proof.
  intros Hq. destruct (Nat.eq_dec i j) as [<-|Hne].
  - left. assert (Hlt : i < length l).
    { apply nth_error_Some_lt in Hq. now rewrite upd_nth_length in Hq. }
    rewrite nth_error_upd_nth_eq in Hq by exact Hlt. inversion Hq; auto.
  - right. rewrite nth_error_upd_nth_neq in Hq by exact Hne. auto.
Qed.

(** ---- arrays ---- *)

Lemma arr_app_old hp cs a : a < length hp -> arr (hp ++ [cs]) a = arr hp a.
Proof. intros Hlt. unfold arr. now rewrite app_nth1. Qed.

Lemma arr_app_new hp cs : arr (hp ++ [cs]) (length hp) = cs.
Proof. unfold arr. rewrite app_nth2 by lia. now rewrite Nat.sub_diag. Qed.

Lemma arr_upd_eq hp a cs : a < length hp -> arr (upd_nth hp a cs) a = cs.
Proof. intros Hlt. unfold arr. now apply nth_upd_nth_eq. Qed.

Lemma arr_upd_neq hp a b cs : a <> b -> arr (upd_nth hp a cs) b = arr hp b.
Proof. intros Hne. unfold arr. now apply nth_upd_nth_neq. Qed.

(** ---- well-formedness, safety of published prefixes ---- *)

Definition hdr_ok (hp : list (list addr)) (h : hdr) : Prop :=
  h_arr h < length hp /\ h_len h <= h_cap h /\ length (arr hp (h_arr h)) = h_cap h.

Definition WF (s : st) : Prop :=
  Forall (hdr_ok (heap s)) (bins s) /\
  (forall i j hi hj, nth_error (bins s) i = Some hi -> nth_error (bins s) j = Some hj ->
                     h_arr hi = h_arr hj -> i = j \/ h_cap hi = 0).

(** every current header over array [a] covers at least the prefix [l] *)
Definition Safe (s : st) (a l : nat) : Prop :=
  forall i h, nth_error (bins s) i = Some h -> h_arr h = a -> l <= h_len h.

(** [s'] is a later state of [s]: prefixes that were safe stay safe and keep
    their contents; in-place writes recorded in between fall outside every
    prefix that was safe in [s] *)
Definition ext (s s' : st) : Prop :=
  length (heap s) <= length (heap s') /\
  (forall a l, a < length (heap s) -> Safe s a l ->
               Safe s' a l /\ firstn l (arr (heap s') a) = firstn l (arr (heap s) a)) /\
  (exists w, wlog s' = wlog s ++ w /\
             forall a j l, In (a, j) w -> a < length (heap s) -> Safe s a l -> l <= j).

Lemma ext_refl s : ext s s.
Proof.
  split; [lia|]. split; [auto|]. exists []. split; [now rewrite app_nil_r|]. intros a j l [].
Qed.

Lemma ext_trans s1 s2 s3 : ext s1 s2 -> ext s2 s3 -> ext s1 s3.
Proof.
  intros (Hl1 & Hs1 & w1 & Hw1 & Hd1) (Hl2 & Hs2 & w2 & Hw2 & Hd2).
  split; [lia|]. split.
  - intros a l Ha Hsafe. destruct (Hs1 a l Ha Hsafe) as [Hsafe2 Hp2].
    destruct (Hs2 a l ltac:(lia) Hsafe2) as [Hsafe3 Hp3]. split; [exact Hsafe3|congruence].
  - exists (w1 ++ w2). split; [rewrite Hw2, Hw1; now rewrite app_assoc|].
    intros a j l Hin Ha Hsafe. apply in_app_or in Hin as [Hin|Hin].
    + eapply Hd1; eauto.
    + destruct (Hs1 a l Ha Hsafe) as [Hsafe2 _]. eapply Hd2; eauto. lia.
Qed.

Lemma WF_init n : WF (init n).
Proof.
  split.
  - cbn [init heap bins]. apply Forall_forall. intros h Hin. apply repeat_spec in Hin. subst h.
    unfold hdr_ok; cbn. auto.
  - cbn [init bins]. intros i j hi hj Hi Hj _. right.
    apply nth_error_In in Hi. apply repeat_spec in Hi. now subst hi.
Qed.

Lemma hdr_ok_of s i h : WF s -> nth_error (bins s) i = Some h -> hdr_ok (heap s) h.
Proof. intros [Hf _] Hn. eapply Forall_forall; [exact Hf|]. eapply nth_error_In; eauto. Qed.

Lemma elems_length hp h : hdr_ok hp h -> length (elems hp h) = h_len h.
Proof. intros (_ & Hle & Hlen). unfold elems. rewrite firstn_length. lia. Qed.

(** a header of a well-formed state is safe for its own length *)
Lemma Safe_own s i h : WF s -> nth_error (bins s) i = Some h -> Safe s (h_arr h) (h_len h).
Proof.
  intros Hwf Hn j hj Hj Harr. destruct Hwf as [Hf Hd].
  destruct (Hd i j h hj Hn Hj (eq_sym Harr)) as [->|Hc0].
  - rewrite Hn in Hj. inversion Hj; subst; lia.
  - assert (Hok : hdr_ok (heap s) h) by (eapply Forall_forall; [exact Hf|eapply nth_error_In; eauto]).
    destruct Hok as (_ & Hle & _). lia.
Qed.

(** ---- the two primitive transitions ---- *)

(** bin [po] gets a fresh array [cs] and header [(fresh, n, length cs)] *)
Definition alloc_bin (s : st) (po : nat) (cs : list addr) (n : nat) : st :=
  St (heap s ++ [cs]) (upd_nth (bins s) po (Hdr (length (heap s)) n (length cs))) (wlog s).

Lemma hdr_ok_app hp cs h : hdr_ok hp h -> hdr_ok (hp ++ [cs]) h.
Proof.
  intros (Ha & Hle & Hlen). unfold hdr_ok. rewrite app_length, arr_app_old by exact Ha. cbn. repeat split; lia.
Qed.

Lemma elems_app hp cs h : h_arr h < length hp -> elems (hp ++ [cs]) h = elems hp h.
Proof. intros Ha. unfold elems. now rewrite arr_app_old. Qed.

Lemma alloc_bin_WF s po cs n : WF s -> n <= length cs -> WF (alloc_bin s po cs n).
Proof.
  intros [Hf Hd] Hn. split; cbn [alloc_bin heap bins].
  - apply Forall_forall. intros h Hin. apply In_upd_nth in Hin as [->|Hin].
    + unfold hdr_ok; cbn [h_arr h_len h_cap]. rewrite app_length, arr_app_new. cbn. repeat split; lia.
    + apply hdr_ok_app. eapply Forall_forall; eauto.
  - intros i j hi hj Hi Hj Harr.
    apply nth_error_upd_nth_inv in Hi as [(-> & -> & Hlt)|(Hne & Hi)];
      apply nth_error_upd_nth_inv in Hj as [(-> & -> & Hlt')|(Hne' & Hj)]; auto.
    + cbn [h_arr] in Harr. exfalso.
      assert (Hok : hdr_ok (heap s) hj) by (eapply Forall_forall; [exact Hf|eapply nth_error_In; eauto]).
      destruct Hok as (Ha & _). lia.
    + cbn [h_arr] in Harr. exfalso.
      assert (Hok : hdr_ok (heap s) hi) by (eapply Forall_forall; [exact Hf|eapply nth_error_In; eauto]).
      destruct Hok as (Ha & _). lia.
    + eapply Hd; eauto.
Qed.

Lemma alloc_bin_ext s po cs n : WF s -> ext s (alloc_bin s po cs n).
Proof.
  intros [Hf Hd]. split; [cbn; rewrite app_length; lia|]. split.
  - intros a l Ha Hsafe. split.
    + intros i h Hi Harr. cbn [alloc_bin bins] in Hi.
      apply nth_error_upd_nth_inv in Hi as [(-> & -> & Hlt)|(Hne & Hi)].
      * cbn [h_arr] in Harr. lia.
      * eapply Hsafe; eauto.
    + cbn [alloc_bin heap]. now rewrite arr_app_old.
  - exists []. cbn [alloc_bin wlog]. split; [now rewrite app_nil_r|]. intros a j l [].
Qed.

Lemma alloc_bin_view s po cs n : WF s -> view (alloc_bin s po cs n) = upd_nth (view s) po (firstn n cs).
Proof.
  intros [Hf _]. unfold view. cbn [alloc_bin heap bins]. rewrite map_upd_nth.
  unfold elems at 2. cbn [h_arr h_len]. rewrite arr_app_new. f_equal.
  apply map_ext_in. intros h Hin. apply elems_app.
  assert (Hok : hdr_ok (heap s) h) by (eapply Forall_forall; eauto). apply Hok.
Qed.

(** in-place append into bin [po] whose current header is [h] *)
Definition inplace_bin (s : st) (po : nat) (h : hdr) (a : addr) : st :=
  St (upd_nth (heap s) (h_arr h) (upd_nth (arr (heap s) (h_arr h)) (h_len h) a))
     (upd_nth (bins s) po (Hdr (h_arr h) (S (h_len h)) (h_cap h)))
     (wlog s ++ [(h_arr h, h_len h)]).

Section Inplace.
Variables (s : st) (po : nat) (h : hdr) (a : addr).
Hypothesis Hwf : WF s.
Hypothesis Hn : nth_error (bins s) po = Some h.
Hypothesis Hroom : h_len h < h_cap h.

Let Hok : hdr_ok (heap s) h := hdr_ok_of s po h Hwf Hn.

Lemma inplace_other_arr j hj : nth_error (bins s) j = Some hj -> j <> po -> h_arr hj <> h_arr h.
Proof.
  intros Hj Hne Harr. pose proof Hwf as [_ Hd].
  destruct (Hd po j h hj Hn Hj (eq_sym Harr)) as [He|Hc]; [congruence|lia].
Qed.

Lemma inplace_arr x :
  arr (heap (inplace_bin s po h a)) x =
  if Nat.eqb x (h_arr h) then upd_nth (arr (heap s) (h_arr h)) (h_len h) a else arr (heap s) x.
Proof.
  cbn [inplace_bin heap]. destruct (Nat.eqb_spec x (h_arr h)) as [->|Hne].
  - apply arr_upd_eq. apply Hok.
  - apply arr_upd_neq. auto.
Qed.

Lemma inplace_WF : WF (inplace_bin s po h a).
Proof.
  pose proof Hok as (Ha & Hle & Hlen). pose proof Hwf as [Hf Hd]. split.
  - apply Forall_forall. intros h' Hin. cbn [inplace_bin bins] in Hin.
    unfold hdr_ok. rewrite inplace_arr. cbn [inplace_bin heap]. rewrite upd_nth_length.
    apply In_upd_nth in Hin as [->|Hin].
    + cbn [h_arr h_len h_cap]. rewrite Nat.eqb_refl, upd_nth_length. repeat split; lia.
    + assert (Hok' : hdr_ok (heap s) h') by (eapply Forall_forall; eauto).
      destruct Hok' as (Ha' & Hle' & Hlen'). destruct (Nat.eqb_spec (h_arr h') (h_arr h)) as [He|Hne].
      * rewrite upd_nth_length. rewrite He in Hlen'. repeat split; lia.
      * repeat split; lia.
  - intros i j hi hj Hi Hj Harr. cbn [inplace_bin bins] in Hi, Hj.
    apply nth_error_upd_nth_inv in Hi as [(-> & -> & Hlt)|(Hne & Hi)];
      apply nth_error_upd_nth_inv in Hj as [(-> & -> & Hlt')|(Hne' & Hj)]; auto.
    + cbn [h_arr] in Harr. exfalso. eapply (inplace_other_arr j hj); eauto.
    + cbn [h_arr] in Harr. exfalso. eapply (inplace_other_arr i hi); eauto.
    + eapply Hd; eauto.
Qed.

Lemma inplace_ext : ext s (inplace_bin s po h a).
Proof.
  pose proof Hok as (Ha & Hle & Hlen).
  split; [cbn; rewrite upd_nth_length; lia|]. split.
  - intros x l Hx Hsafe. split.
    + intros i h' Hi Harr. cbn [inplace_bin bins] in Hi.
      apply nth_error_upd_nth_inv in Hi as [(-> & -> & Hlt)|(Hne & Hi)].
      * cbn [h_arr h_len] in *. specialize (Hsafe po h Hn Harr). lia.
      * eapply Hsafe; eauto.
    + rewrite inplace_arr. destruct (Nat.eqb_spec x (h_arr h)) as [->|Hne]; [|reflexivity].
      apply firstn_upd_nth_le. eapply Hsafe; eauto.
  - exists [(h_arr h, h_len h)]. split; [reflexivity|].
    intros x j l [Hq|[]] Hx Hsafe. inversion Hq; subst. eapply Hsafe; eauto.
Qed.

Lemma inplace_view : view (inplace_bin s po h a) = upd_nth (view s) po (elems (heap s) h ++ [a]).
Proof.
  pose proof Hok as (Ha & Hle & Hlen). unfold view.
  assert (Hpo : po < length (bins s)) by (eapply nth_error_Some_lt; eauto).
  apply nth_ext with (d := []) (d' := []).
  - cbn [inplace_bin bins]. repeat (rewrite map_length || rewrite upd_nth_length). reflexivity.
  - intros k Hk. rewrite map_length in Hk. cbn [inplace_bin bins] in Hk. rewrite upd_nth_length in Hk.
    destruct (Nat.eq_dec po k) as [<-|Hne].
    + rewrite nth_upd_nth_eq by (now rewrite map_length).
      erewrite (nth_error_nth' (map _ _)); [reflexivity|].
      rewrite nth_error_map. cbn [inplace_bin bins]. rewrite nth_error_upd_nth_eq by exact Hpo. cbn [option_map].
      f_equal. unfold elems. rewrite inplace_arr. cbn [h_arr h_len]. rewrite Nat.eqb_refl.
      apply firstn_S_upd_nth. lia.
    + rewrite nth_upd_nth_neq by exact Hne.
      destruct (nth_error (bins s) k) as [hk|] eqn:Hnk; [|apply nth_error_None in Hnk; lia].
      erewrite (nth_error_nth' (map _ (bins (inplace_bin s po h a)))) with (x := elems (heap s) hk).
      * symmetry. apply nth_error_nth'. rewrite nth_error_map, Hnk. reflexivity.
      * rewrite nth_error_map. cbn [inplace_bin bins]. rewrite nth_error_upd_nth_neq by exact Hne.
        rewrite Hnk. cbn [option_map]. f_equal. unfold elems. rewrite inplace_arr.
        destruct (Nat.eqb_spec (h_arr hk) (h_arr h)) as [He|Hne']; [|reflexivity].
        exfalso. eapply (inplace_other_arr k hk); eauto.
Qed.
End Inplace.
