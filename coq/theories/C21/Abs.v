(** C21 — specification objects (definitions only): the value-level structure
    the heap model refines, the abstract SET of the property statement, and
    the reference iteration. *)
From Coq Require Import List NArith Arith Bool.
Import ListNotations.
Require Import Aurora.Base.Corr Aurora.C20.Model Aurora.C21.Model.

Section Abs.
Variable pof : addr -> option nat.

(** ---- bins as plain lists ---- *)
Definition v_add1 (vb : list (list addr)) (a : addr) : list (list addr) :=
  match pof a with
  | Some po => if mem a (nth po vb []) then vb else upd_nth vb po (nth po vb [] ++ [a])
  | None => vb
  end.
(** a batched add is the same as adding the addresses one at a time *)
Definition v_add (vb : list (list addr)) (l : list addr) : list (list addr) := fold_left v_add1 l vb.

(** remove position [i]: the last element takes its place *)
Definition vremove_at (l : list addr) (i : nat) : list addr :=
  let nl := length l - 1 in
  if i =? nl then firstn nl l else upd_nth (firstn nl l) i (nth nl l nilA).

Definition v_remove (vb : list (list addr)) (a : addr) : list (list addr) :=
  match pof a with
  | Some po =>
      match index_of a (nth po vb []) 0 with
      | Some i => upd_nth vb po (vremove_at (nth po vb []) i)
      | None => vb
      end
  | None => vb
  end.

Definition v_upd (vb : list (list addr)) (u : uop) : list (list addr) :=
  match u with UAdd l => v_add vb l | URemove a => v_remove vb a end.
Definition v_upds (vb : list (list addr)) (us : list uop) : list (list addr) := fold_left v_upd us vb.

(** ---- the set of the statement: "the added and not removed addresses" ---- *)
Definition s_add1 (S : list addr) (a : addr) : list addr := if mem a S then S else S ++ [a].
Definition s_remove (S : list addr) (a : addr) : list addr := filter (fun x => negb (addr_eqb x a)) S.
Definition s_upd (S : list addr) (u : uop) : list addr :=
  match u with UAdd l => fold_left s_add1 l S | URemove a => s_remove S a end.
Definition s_upds (S : list addr) (us : list uop) : list addr := fold_left s_upd us S.

(** members of the set whose bin is [i] *)
Definition s_bin (S : list addr) (i : nat) : list addr :=
  filter (fun a => match pof a with Some p => Nat.eqb p i | None => false end) S.

End Abs.

(** ---- reference iteration ---- *)

(** all entries in visiting order *)
Definition full_walk (order : list nat) (vb : list (list addr)) : list (addr * N) :=
  flat_map (fun i => map (fun a => (a, u8 (N.of_nat i))) (nth i vb [])) order.

(** the callback's answers applied to a walk: [skip = Some b] while the rest of
    bin [b] is being skipped; returns the visited entries and whether the walk
    ended with the callback's error *)
Fixpoint cut (skip : option N) (sc : list (bool * bool * bool)) (w : list (addr * N)) : list (addr * N) * bool :=
  match w with
  | [] => ([], false)
  | y :: w' =>
      if match skip with Some b => N.eqb (snd y) b | None => false end then cut skip sc w'
      else match sc with
           | [] => let r := cut None [] w' in (y :: fst r, snd r)
           | (stop, next, err) :: sc' =>
               if err then ([y], true)
               else if stop then ([y], false)
               else if next then let r := cut (Some (snd y)) sc' w' in (y :: fst r, snd r)
               else let r := cut None sc' w' in (y :: fst r, snd r)
           end
  end.

Definition ctl_of (c : cb) : bool * bool * bool := (cb_stop c, cb_next c, cb_err c).
