(** C21 — set semantics of the value-level structure: after any history the
    bins hold exactly the members of the abstract set, each once, each in the
    bin [pof] gives. *)
From Coq Require Import List NArith Arith Bool Lia Permutation.
Import ListNotations.
Require Import Aurora.Base.Corr Aurora.C21.Model Aurora.C21.Abs Aurora.C21.Heap Aurora.C21.Refine.

(** ---- swap-remove ---- *)

Lemma nth_firstn_lt {A} (l : list A) n i d : i < n -> nth i (firstn n l) d = nth i l d.
Proof.
  revert n i; induction l as [|x l IH]; intros [|n] [|i] Hlt; cbn; auto; try lia. apply IH; lia.
Qed.

Lemma upd_nth_app_mid {A} (l1 : list A) y l2 x : upd_nth (l1 ++ y :: l2) (length l1) x = l1 ++ x :: l2.
Proof. induction l1 as [|z l1 IH]; cbn; auto. now rewrite IH. Qed.

Lemma exists_last_or_nil {A} (l : list A) : l = [] \/ exists l' z, l = l' ++ [z].
Proof.
  destruct l as [|x l]; [now left|right].
  destruct (@exists_last _ (x :: l)) as (l' & z & Hq); [discriminate|eauto].
Qed.

Lemma NoDup_app_intro_single {A} (l : list A) a : NoDup l -> ~ In a l -> NoDup (l ++ [a]).
Proof.
  intros Hnd Hnin. apply NoDup_rev in Hnd. rewrite <- (rev_involutive (l ++ [a])).
  apply NoDup_rev. rewrite rev_app_distr. cbn. constructor; auto. now rewrite <- in_rev.
Qed.

Lemma NoDup_app_intro {A} (l1 l2 : list A) :
  NoDup l1 -> NoDup l2 -> (forall x, In x l1 -> In x l2 -> False) -> NoDup (l1 ++ l2).
Proof.
  induction l1 as [|y l1 IH]; intros H1 H2 Hd; cbn; auto.
  inversion H1; subst. constructor.
  - rewrite in_app_iff. intros [Hin|Hin]; [contradiction|]. apply (Hd y); [now left|exact Hin].
  - apply IH; auto. intros x Hx1 Hx2. apply (Hd x); [now right|exact Hx2].
Qed.

Lemma vremove_perm l i : i < length l -> Permutation (nth i l nilA :: vremove_at l i) l.
Proof.
  intros Hlt. destruct (nth_split l nilA Hlt) as (l1 & l2 & Hl & Hlen1).
  set (a := nth i l nilA) in *. unfold vremove_at.
  destruct (exists_last_or_nil l2) as [->|(l2' & z & ->)].
  - (* a is the last element *)
    rewrite Hl, app_length. cbn [length]. replace (length l1 + 1 - 1) with (length l1) by lia.
    rewrite <- Hlen1, Nat.eqb_refl. rewrite firstn_app, Nat.sub_diag, firstn_all. cbn. rewrite app_nil_r.
    apply Permutation_cons_append.
  - assert (Hnl : length l - 1 = length l1 + S (length l2')).
    { rewrite Hl. rewrite !app_length. cbn [length]. rewrite app_length. cbn. lia. }
    rewrite Hnl. destruct (i =? length l1 + S (length l2')) eqn:E; [apply Nat.eqb_eq in E; lia|].
    assert (Hf : firstn (length l1 + S (length l2')) l = l1 ++ a :: l2').
    { rewrite Hl. rewrite firstn_app_2. f_equal. cbn [firstn]. f_equal.
      rewrite firstn_app, Nat.sub_diag, firstn_all. cbn. now rewrite app_nil_r. }
    assert (Hz : nth (length l1 + S (length l2')) l nilA = z).
    { rewrite Hl. rewrite app_nth2_plus. cbn [nth]. rewrite app_nth2 by lia. now rewrite Nat.sub_diag. }
    rewrite Hf, Hz, <- Hlen1, upd_nth_app_mid. rewrite Hl.
    (* a :: l1 ++ z :: l2'  ~  l1 ++ a :: l2' ++ [z] *)
    etransitivity; [apply Permutation_middle|]. apply Permutation_app_head. apply perm_skip.
    apply Permutation_cons_append.
Qed.

Section SetSem.
Variable pof : addr -> option nat.
Variable maxBins : nat.
Hypothesis pof_ok : forall a, in_range pof maxBins a.

(** invariant tying the bins to the abstract set *)
Definition VInv (vb : list (list addr)) (S : list addr) : Prop :=
  length vb = maxBins /\
  (forall i a, In a (nth i vb []) -> pof a = Some i) /\
  (forall i, NoDup (nth i vb [])) /\
  NoDup S /\
  (forall a po, pof a = Some po -> (In a S <-> In a (nth po vb []))).

Lemma VInv_init : VInv (repeat [] maxBins) [].
Proof.
  assert (Hnth : forall i, nth i (repeat (@nil addr) maxBins) [] = []).
  { intros i. destruct (nth_in_or_default i (repeat (@nil addr) maxBins) []) as [Hin| ->]; auto.
    now apply repeat_spec in Hin. }
  repeat split.
  - apply repeat_length.
  - intros i a. rewrite Hnth. intros [].
  - intros i. rewrite Hnth. constructor.
  - constructor.
  - intros [].
  - rewrite Hnth. intros [].
Qed.

Lemma VInv_add1 vb S a : VInv vb S -> VInv (v_add1 pof vb a) (s_add1 S a).
Proof.
  intros (Hlen & Hpo & Hnd & HndS & Hmem). unfold v_add1, s_add1.
  destruct (pof_ok a) as (po & Hp & Hlt). rewrite Hp.
  assert (Hiff : mem a S = mem a (nth po vb [])).
  { apply eq_true_iff_eq. rewrite !mem_In. now apply Hmem. }
  rewrite Hiff. destruct (mem a (nth po vb [])) eqn:Em.
  - repeat split; auto; apply Hmem; auto.
  - assert (Hnin : ~ In a (nth po vb [])) by (rewrite <- mem_In; congruence).
    assert (HninS : ~ In a S) by (rewrite (Hmem a po Hp); exact Hnin).
    assert (Hnth : forall i, nth i (upd_nth vb po (nth po vb [] ++ [a])) [] =
                             if Nat.eqb i po then nth po vb [] ++ [a] else nth i vb []).
    { intros i. destruct (Nat.eqb_spec i po) as [->|Hne].
      - apply nth_upd_nth_eq. lia.
      - apply nth_upd_nth_neq. auto. }
    split; [|split; [|split; [|split]]].
    + now rewrite upd_nth_length.
    + intros i x. rewrite Hnth. destruct (Nat.eqb_spec i po) as [->|Hne]; [|apply Hpo].
      intros Hin. apply in_app_or in Hin as [Hin|[<-|[]]]; auto.
    + intros i. rewrite Hnth. destruct (Nat.eqb_spec i po) as [->|Hne]; [|apply Hnd].
      apply NoDup_app_intro_single; auto.
    + apply NoDup_app_intro_single; auto.
    + intros x px Hx. rewrite Hnth, in_app_iff. destruct (Nat.eqb_spec px po) as [->|Hne].
      * rewrite in_app_iff, (Hmem x po Hx). reflexivity.
      * rewrite (Hmem x px Hx). split; [|tauto]. intros [Hin|[<-|[]]]; [exact Hin|congruence].
Qed.

Lemma VInv_add vb S l : VInv vb S -> VInv (v_add pof vb l) (fold_left s_add1 l S).
Proof.
  revert vb S; induction l as [|a l IH]; intros vb S Hinv; cbn [v_add fold_left]; auto.
  apply IH. now apply VInv_add1.
Qed.

Lemma VInv_remove vb S a : VInv vb S -> VInv (v_remove pof vb a) (s_remove S a).
Proof.
  intros (Hlen & Hpo & Hnd & HndS & Hmem). unfold v_remove, s_remove.
  destruct (pof_ok a) as (po & Hp & Hlt). rewrite Hp.
  assert (HS : forall x, In x (filter (fun y => negb (addr_eqb y a)) S) <-> In x S /\ x <> a).
  { intros x. rewrite filter_In. rewrite negb_true_iff. split; intros [H1 H2]; split; auto.
    - intros ->. now rewrite addr_eqb_refl in H2.
    - destruct (addr_eqb x a) eqn:E; auto. apply addr_eqb_eq in E. contradiction. }
  destruct (index_of a (nth po vb []) 0) as [i|] eqn:Hi.
  - apply index_of_spec in Hi as (_ & Hlt' & Hnth' & _). rewrite Nat.sub_0_r in *.
    pose proof (vremove_perm (nth po vb []) i Hlt') as Hperm. rewrite Hnth' in Hperm.
    assert (Hnd' : NoDup (a :: vremove_at (nth po vb []) i)).
    { eapply Permutation_NoDup; [symmetry; exact Hperm|apply Hnd]. }
    apply NoDup_cons_iff in Hnd' as [Hnin Hnd''].
    assert (Hin' : forall x, In x (vremove_at (nth po vb []) i) <-> In x (nth po vb []) /\ x <> a).
    { intros x. split.
      - intros Hin. split; [eapply Permutation_in; [exact Hperm|now right]|]. intros ->. contradiction.
      - intros [Hin Hne]. apply (Permutation_in _ (Permutation_sym Hperm)) in Hin as [->|Hin]; [congruence|exact Hin]. }
    assert (Hnth : forall k, nth k (upd_nth vb po (vremove_at (nth po vb []) i)) [] =
                             if Nat.eqb k po then vremove_at (nth po vb []) i else nth k vb []).
    { intros k. destruct (Nat.eqb_spec k po) as [->|Hne].
      - apply nth_upd_nth_eq. lia.
      - apply nth_upd_nth_neq. auto. }
    split; [|split; [|split; [|split]]].
    + now rewrite upd_nth_length.
    + intros k x. rewrite Hnth. destruct (Nat.eqb_spec k po) as [->|Hne]; [|apply Hpo].
      intros Hin. apply Hin' in Hin. now apply Hpo.
    + intros k. rewrite Hnth. destruct (Nat.eqb_spec k po) as [->|Hne]; [exact Hnd''|apply Hnd].
    + now apply NoDup_filter.
    + intros x px Hx. rewrite HS, Hnth. destruct (Nat.eqb_spec px po) as [->|Hne].
      * rewrite Hin', (Hmem x po Hx). reflexivity.
      * rewrite (Hmem x px Hx). split; [tauto|]. intros Hin. split; auto. intros ->. congruence.
  - assert (Hnin : ~ In a (nth po vb [])).
    { rewrite <- mem_In, <- (index_of_mem a _ 0), Hi. discriminate. }
    split; [|split; [|split; [|split]]]; auto.
    + now apply NoDup_filter.
    + intros x px Hx. rewrite HS, (Hmem x px Hx). split; [tauto|]. intros Hin. split; auto.
      intros ->. assert (px = po) by congruence. subst. contradiction.
Qed.

Lemma VInv_upd vb S u : VInv vb S -> VInv (v_upd pof vb u) (s_upd S u).
Proof. destruct u; cbn [v_upd s_upd]; [apply VInv_add|apply VInv_remove]. Qed.

Lemma VInv_upds us : forall vb S, VInv vb S -> VInv (v_upds pof vb us) (s_upds S us).
Proof.
  induction us as [|u t IH]; intros vb S Hinv; cbn [v_upds s_upds fold_left]; auto.
  apply IH. now apply VInv_upd.
Qed.

(** ---- consequences of the invariant ---- *)

Lemma VInv_bin vb S i : VInv vb S -> Permutation (nth i vb []) (s_bin pof S i).
Proof.
  intros (Hlen & Hpo & Hnd & HndS & Hmem). apply NoDup_Permutation; [apply Hnd|now apply NoDup_filter|].
  intros x. unfold s_bin. rewrite filter_In. split.
  - intros Hin. pose proof (Hpo i x Hin) as Hx. rewrite Hx, Nat.eqb_refl. split; auto. now apply (Hmem x i Hx).
  - intros [HinS Hx]. destruct (pof x) as [p|] eqn:Hp; [|discriminate].
    apply Nat.eqb_eq in Hx. subst p. now apply (Hmem x i Hp).
Qed.

Lemma concat_nth_In {A} (ll : list (list A)) x : In x (concat ll) <-> exists i, In x (nth i ll []).
Proof.
  rewrite in_concat. split.
  - intros (l & Hl & Hx). destruct (In_nth ll l [] Hl) as (i & _ & Hq). exists i. now rewrite Hq.
  - intros (i & Hx). destruct (nth_in_or_default i ll []) as [Hin|Hq]; [eauto|]. rewrite Hq in Hx. destruct Hx.
Qed.

Lemma NoDup_concat_bins (ll : list (list addr)) :
  (forall i a, In a (nth i ll []) -> pof a = Some i) -> (forall i, NoDup (nth i ll [])) -> NoDup (concat ll).
Proof.
  revert pof_ok. intros _. generalize 0 as k.
  assert (H : forall k, (forall i a, In a (nth i ll []) -> pof a = Some (k + i)) -> (forall i, NoDup (nth i ll [])) -> NoDup (concat ll)).
  { induction ll as [|l ll IH]; intros k Hpo Hnd; cbn; [constructor|].
    apply NoDup_app_intro.
    - apply (Hnd 0).
    - apply (IH (S k)).
      + intros i a Hin. replace (S k + i) with (k + S i) by lia. now apply (Hpo (S i)).
      + intros i. apply (Hnd (S i)).
    - intros x Hx1 Hx2. apply concat_nth_In in Hx2 as (i & Hx2).
      pose proof (Hpo 0 x Hx1) as H1. pose proof (Hpo (S i) x Hx2) as H2. rewrite H1 in H2. inversion H2. lia. }
  intros k Hpo Hnd. apply (H 0); auto.
Qed.

Lemma VInv_all vb S : VInv vb S -> Permutation (concat vb) S.
Proof.
  intros Hinv. pose proof Hinv as (Hlen & Hpo & Hnd & HndS & Hmem).
  apply NoDup_Permutation; auto.
  - now apply NoDup_concat_bins.
  - intros x. rewrite concat_nth_In. split.
    + intros (i & Hin). apply (Hmem x i); [now apply (Hpo i)|exact Hin].
    + intros Hin. destruct (pof_ok x) as (po & Hp & _). exists po. now apply (Hmem x po Hp).
Qed.
End SetSem.
