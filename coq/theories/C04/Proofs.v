(** C04 — proofs. *)
From Coq Require Import List NArith Arith Bool Lia.
Import ListNotations.
Require Import Aurora.Base.Corr Aurora.C03.Ref Aurora.C03.Model Aurora.C03.Util Aurora.C03.Final Aurora.C03.Term
               Aurora.C04.Model.

Definition collision (H HF : list N -> list N) : Prop :=
  exists x y, x <> y /\ (H x = H y \/ HF x = HF y).

Lemma list_N_dec (x y : list N) : {x = y} + {x <> y}.
Proof. apply list_eq_dec, N.eq_dec. Qed.

Lemma app_inv_len {A} (a b c d : list A) : length a = length c -> a ++ b = c ++ d -> a = c /\ b = d.
Proof.
  revert c; induction a as [|x a IH]; intros [|y c] Hl E; cbn in *; try discriminate; auto.
  inversion E; subst. destruct (IH c ltac:(lia) H1). now subst.
Qed.

Lemma le64_length n : length (le64 n) = 8. Proof. reflexivity. Qed.

(** C03's model hasher computes the reference hash, whatever tree it gets and however it is scheduled *)
Lemma pool_hash_spec H HF D tr sched fuel span data :
  tree_ok D (fst tr) (snd tr) -> 2 * W D <= fuel -> length span = 8 ->
  pool_hash H HF D tr sched fuel span data = Some (bmt_hash H HF D span data).
Proof.
  intros Hok Hf Hs. unfold pool_hash. destruct tr as [b0 n0].
  destruct (use_tree_correct H HF D [data] span b0 n0 sched fuel Hok) as (tr' & E & _); [cbn [length]; lia|].
  rewrite E. unfold the_hash, the_span. cbn [concat]. rewrite app_nil_r. f_equal. f_equal.
  unfold copy_at. cbn [firstn app zeros repeat length Nat.sub Nat.add]. rewrite Hs. cbn [Nat.min skipn repeat].
  rewrite app_nil_r. rewrite <- Hs. apply firstn_all.
Qed.

Section CacProofs.
Variable H HF : list N -> list N.
Variable D : nat.
Variable hh : list N -> list N -> option (list N).
Hypothesis hh_spec : forall span data, length span = 8 -> hh span data = Some (bmt_hash H HF D span data).
Notation chunk := (maxsize D).
Notation valid := (valid hh chunk).
Notation new := (new hh chunk).
Notation new_with_data_span := (new_with_data_span hh chunk).

Lemma firstn8_length (d : list N) : 8 <= length d -> length (firstn 8 d) = 8.
Proof. intros. rewrite firstn_length. lia. Qed.

Theorem valid_iff addr d :
  valid (addr, d) = true <->
  8 <= length d <= chunk + 8 /\ addr = bmt_hash H HF D (firstn 8 d) (skipn 8 d).
Proof.
  unfold Model.valid. destruct (Nat.ltb_spec (length d) 8) as [L1|L1].
  { split; [discriminate | lia]. }
  destruct (Nat.ltb_spec (chunk + 8) (length d)) as [L2|L2].
  { split; [discriminate | lia]. }
  rewrite hh_spec by now apply firstn8_length. rewrite bytes_eqb_eq. split.
  - intros <-. split; [lia | reflexivity].
  - intros (_ & ->). reflexivity.
Qed.

Theorem new_valid data : 1 <= length data <= chunk ->
  exists addr, new data = Ok (addr, le64 (N.of_nat (length data)) ++ data) /\
               addr = bmt_hash H HF D (le64 (N.of_nat (length data))) data /\
               valid (addr, le64 (N.of_nat (length data)) ++ data) = true.
Proof.
  intros (L1 & L2). unfold Model.new.
  destruct (Nat.ltb_spec chunk (length data)); [lia|]. destruct (Nat.eqb_spec (length data) 0); [lia|].
  unfold new_with_span. rewrite hh_spec by apply le64_length.
  eexists. split; [reflexivity|]. split; [reflexivity|].
  apply valid_iff. rewrite app_length, le64_length. split; [lia|].
  change (firstn 8 (le64 (N.of_nat (length data)) ++ data)) with (le64 (N.of_nat (length data))).
  reflexivity.
Qed.

Theorem new_rejects data :
  (length data = 0 -> new data = Err ErrShort) /\ (chunk < length data -> new data = Err ErrLarge).
Proof.
  unfold Model.new. split; intros L.
  - destruct (Nat.ltb_spec chunk (length data)); [unfold maxsize, SEC in *; pose proof (Inv.pow2_pos D); lia|].
    now rewrite L.
  - destruct (Nat.ltb_spec chunk (length data)); [reflexivity | lia].
Qed.

Theorem new_with_data_span_spec d :
  (length d < 8 -> new_with_data_span d = Err ErrShort) /\
  (chunk + 8 < length d -> new_with_data_span d = Err ErrLarge) /\
  (8 <= length d <= chunk + 8 ->
     new_with_data_span d = Ok (bmt_hash H HF D (firstn 8 d) (skipn 8 d), d) /\
     valid (bmt_hash H HF D (firstn 8 d) (skipn 8 d), d) = true).
Proof.
  unfold Model.new_with_data_span. repeat split.
  - intros L. destruct (Nat.ltb_spec (chunk + 8) (length d)); [lia|]. destruct (Nat.ltb_spec (length d) 8); [reflexivity|lia].
  - intros L. destruct (Nat.ltb_spec (chunk + 8) (length d)); [reflexivity|lia].
  - destruct H0 as (L1 & L2). destruct (Nat.ltb_spec (chunk + 8) (length d)); [lia|]. destruct (Nat.ltb_spec (length d) 8); [lia|].
    unfold new_with_span. rewrite hh_spec by now apply firstn8_length. now rewrite firstn_skipn.
  - apply valid_iff. tauto.
Qed.

(** ---- "changing a byte makes it invalid": invalid, or an explicit collision ---- *)
Hypothesis H_len : forall x, length (H x) = 32.

Lemma root_length d x : length (bmt_root H d x) = 32.
Proof. destruct d; cbn [bmt_root]; apply H_len. Qed.

Lemma root_inj : forall d x y, length x = length y ->
  bmt_root H d x = bmt_root H d y -> x = y \/ exists u v, u <> v /\ H u = H v.
Proof.
  induction d as [|d IH]; intros x y Hl E; cbn [bmt_root] in E.
  - destruct (list_N_dec x y) as [Exy|Nxy]; [now left | right; now exists x, y].
  - cbv zeta in E.
    set (h := SEC * 2 ^ d) in *.
    destruct (list_N_dec (bmt_root H d (firstn h x) ++ bmt_root H d (skipn h x))
                         (bmt_root H d (firstn h y) ++ bmt_root H d (skipn h y))) as [Eq|Ne].
    + apply app_inv_len in Eq as (E1 & E2); [|now rewrite !root_length].
      assert (L1 : length (firstn h x) = length (firstn h y)) by (rewrite !firstn_length; lia).
      assert (L2 : length (skipn h x) = length (skipn h y)) by (rewrite !skipn_length; lia).
      destruct (IH _ _ L1 E1) as [F|C]; [|now right].
      destruct (IH _ _ L2 E2) as [S|C]; [|now right].
      left. rewrite <- (firstn_skipn h x), <- (firstn_skipn h y). now rewrite F, S.
    + right. eexists _, _. split; [exact Ne | exact E].
Qed.

Lemma pad_inj n (a b : list N) : length a = length b -> length a <= n -> pad n a = pad n b -> a = b.
Proof.
  intros Hl Hn E. unfold pad in E. rewrite !firstn_app in E.
  rewrite (firstn_all2 a), (firstn_all2 b) in E by lia. apply app_inv_len in E; [now destruct E | exact Hl].
Qed.

(** two valid chunks of the same length with the same address are equal, or a collision is exhibited *)
Theorem same_address addr d d' :
  valid (addr, d) = true -> valid (addr, d') = true -> length d = length d' ->
  d = d' \/ collision H HF.
Proof.
  intros V1 V2 Hl. apply valid_iff in V1 as ((L1 & L2) & A1). apply valid_iff in V2 as ((L1' & L2') & A2).
  rewrite A1 in A2. unfold bmt_hash in A2.
  set (r := bmt_root H D (pad (SEC * 2 ^ D) (skipn 8 d))) in *.
  set (r' := bmt_root H D (pad (SEC * 2 ^ D) (skipn 8 d'))) in *.
  destruct (list_N_dec (firstn 8 d ++ r) (firstn 8 d' ++ r')) as [Eq|Ne].
  - apply app_inv_len in Eq as (E1 & E2); [|rewrite !firstn_length; lia].
    assert (Lp : length (pad (SEC * 2 ^ D) (skipn 8 d)) = length (pad (SEC * 2 ^ D) (skipn 8 d'))) by now rewrite !pad_length.
    destruct (root_inj D _ _ Lp E2) as [Ep|(u & v & Nuv & Euv)].
    + left. apply pad_inj in Ep; [| rewrite !skipn_length; lia | rewrite skipn_length; unfold maxsize in *; lia].
      rewrite <- (firstn_skipn 8 d), <- (firstn_skipn 8 d'). now rewrite E1, Ep.
    + right. exists u, v. auto.
  - right. eexists _, _. split; [exact Ne | right; exact A2].
Qed.

Fixpoint set_nth (k : nat) (b : N) (l : list N) : list N :=
  match l, k with
  | [], _ => []
  | _ :: t, O => b :: t
  | x :: t, S k' => x :: set_nth k' b t
  end.
Lemma set_nth_length k b l : length (set_nth k b l) = length l.
Proof. revert k; induction l as [|x l IH]; intros [|k]; cbn; auto. Qed.
Lemma set_nth_diff k b l : k < length l -> nth k l 0%N <> b -> set_nth k b l <> l.
Proof.
  revert k; induction l as [|x l IH]; intros [|k] Hk Hn; cbn in *; try lia.
  - intros E. inversion E. congruence.
  - intros E. inversion E. apply (IH k); [lia | assumption | assumption].
Qed.

Theorem mutation addr d : valid (addr, d) = true ->
  (forall k b, k < length d -> nth k d 0%N <> b -> valid (addr, set_nth k b d) = true -> collision H HF) /\
  (forall k b, k < length addr -> nth k addr 0%N <> b -> valid (set_nth k b addr, d) = false).
Proof.
  intros V. split.
  - intros k b Hk Hn V'. destruct (same_address addr d (set_nth k b d) V V') as [E|C]; [now rewrite set_nth_length| |exact C].
    exfalso. exact (set_nth_diff k b d Hk Hn (eq_sym E)).
  - intros k b Hk Hn. destruct (Model.valid hh chunk (set_nth k b addr, d)) eqn:V'; [|reflexivity].
    apply valid_iff in V as (_ & A1). apply valid_iff in V' as (_ & A2). exfalso.
    apply (set_nth_diff k b addr Hk Hn). now rewrite A2, <- A1.
Qed.

(** Write truncates at capacity: without the length test of Valid an over-long payload would pass *)
Theorem overlong_same_hash span data extra : length data = chunk ->
  bmt_hash H HF D span (data ++ extra) = bmt_hash H HF D span data.
Proof.
  intros Hl. unfold bmt_hash. f_equal. f_equal. f_equal. unfold pad, maxsize in *.
  rewrite <- app_assoc, !firstn_app, Hl, Nat.sub_diag. cbn [firstn]. reflexivity.
Qed.

End CacProofs.
