(** C04 — correspondence with pkg/cac.  cac hard-wires bmtpool (Keccak, 8192 segments), which
    cannot be evaluated inside Coq; the BMT hash therefore enters as a table computed by the
    harness's INDEPENDENT oracle (never by the implementation): key = (span, data length,
    32-bit fingerprint of the data), value = hash.  What the Coq side checks is the structure of
    cac.go: length bounds, where the span is cut, how New builds the span, what is hashed, what is
    compared with the address, what the returned chunk contains.  A table miss is a model-side
    hasher error and shows as a mismatch. *)
From Coq Require Import List NArith ZArith Bool Arith.
Import ListNotations.
Require Import Aurora.Base.Corr Aurora.Consts Aurora.C03.Ref Aurora.C03.Toy Aurora.C03.Corr
               Aurora.C04.Model Aurora.C04.Proofs.

Definition chunk : nat := Z.to_nat Consts.boson_ChunkSize.

(** byte strings of the cases: explicit prefix ++ generated body ([toy_out n seed], last [ztail]
    bytes zeroed, then single-byte patches (position in the body, value)) *)
Inductive pl := PGen (prefix : list N) (seed n ztail : N) (patches : list (N * N)).
Definition mk (p : pl) : list N :=
  match p with PGen prefix seed n ztail patches =>
    let n' := N.to_nat n in
    let zt := Nat.min (N.to_nat ztail) n' in
    let body := firstn (n' - zt) (toy_out n' seed) ++ zeros zt in
    prefix ++ fold_left (fun b pv => set_nth (N.to_nat (fst pv)) (snd pv) b) patches body
  end.

Definition fp (d : list N) : N := fold_left absorb d 2166136261%N.

Definition tab_t : Type := list (N * N * N * N).     (* be span, data length, fingerprint, be hash *)
Fixpoint tlookup (t : tab_t) (sp ln f : N) : option N :=
  match t with
  | [] => None
  | (a, b, c, h) :: r => if N.eqb a sp && N.eqb b ln && N.eqb c f then Some h else tlookup r sp ln f
  end.
Definition hh_tab (t : tab_t) (span data : list N) : option (list N) :=
  if Nat.eqb (length span) 8
  then option_map (to_be 32) (tlookup t (be span) (N.of_nat (length data)) (fp data))
  else None.

Inductive obs_new := ONErr (e : N) | ONOk (addr dlen dfp : N).   (* 0 too large, 1 too short, 2 other *)
Inductive case :=
| CNew (t : tab_t) (data : pl) (obs : obs_new)                  (* cac.New *)
| CNewDS (t : tab_t) (d : pl) (obs : obs_new)                   (* cac.NewWithDataSpan *)
| CValid (t : tab_t) (addr : list N) (d : pl) (obs : bool)      (* cac.Valid *)
(** pool-pressure stage: [workers] goroutines validating / creating chunks while all but [left]
    trees of bmtpool are held; [obs] = every answer agreed with the independent oracle and nobody
    hung.  By C04_pool_discipline + C03_concurrent_users the model's answer is [true] for every
    interleaving. *)
| CPressure (workers left : N) (obs : bool).

Definition pack_new (r : res chunk_t) : obs_new :=
  match r with
  | Err ErrLarge => ONErr 0
  | Err ErrShort => ONErr 1
  | Err ErrHash => ONErr 2
  | Ok (h, d) => if Nat.eqb (length h) 32 then ONOk (be h) (N.of_nat (length d)) (fp d) else ONErr 3
  end.
Definition obs_new_eqb (a b : obs_new) : bool :=
  match a, b with
  | ONErr x, ONErr y => N.eqb x y
  | ONOk a1 a2 a3, ONOk b1 b2 b3 => N.eqb a1 b1 && N.eqb a2 b2 && N.eqb a3 b3
  | _, _ => false
  end.

Inductive out_t := ONew (o : obs_new) | OBool (b : bool).
Definition model_out (c : case) : out_t :=
  match c with
  | CNew t data _ => ONew (pack_new (new (hh_tab t) chunk (mk data)))
  | CNewDS t d _ => ONew (pack_new (new_with_data_span (hh_tab t) chunk (mk d)))
  | CValid t addr d _ => OBool (valid (hh_tab t) chunk (addr, mk d))
  | CPressure _ _ _ => OBool true
  end.
Definition obs_out (c : case) : out_t :=
  match c with
  | CNew _ _ o | CNewDS _ _ o => ONew o
  | CValid _ _ _ b => OBool b
  | CPressure _ _ b => OBool b
  end.
Definition check_case (c : case) : bool :=
  match model_out c, obs_out c with
  | ONew a, ONew b => obs_new_eqb a b
  | OBool a, OBool b => Bool.eqb a b
  | _, _ => false
  end.
Definition explain_case (c : case) := (model_out c, obs_out c).
