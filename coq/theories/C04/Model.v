(** C04 — model of pkg/cac/cac.go: New, NewWithDataSpan, newWithSpan, hasher, Valid.
    Definitions only.  The BMT hasher call [hasher(data)(span)] (bmtpool.Get, SetHeader, Write,
    Hash, Put) is the parameter [hh]; [pool_hash] is its instance by the C03 model of the
    concurrent hasher, and C03 proves that instance equal to the reference [bmt_hash]. *)
From Coq Require Import List NArith Arith Bool.
Import ListNotations.
Require Import Aurora.Base.Corr Aurora.C03.Ref Aurora.C03.Model.

Inductive cerr := ErrLarge | ErrShort | ErrHash.
Inductive res (A : Type) := Ok (a : A) | Err (e : cerr).
Arguments Ok {A} a. Arguments Err {A} e.

(** binary.LittleEndian.PutUint64(span, uint64(n)) *)
Definition le64 (n : N) : list N :=
  map (fun i => N.land (N.shiftr n (8 * i)) 255) [0; 1; 2; 3; 4; 5; 6; 7]%N.

Definition chunk_t : Type := (list N * list N)%type.   (* address, data (span ++ payload) *)

Section Cac.
Variable hh : list N -> list N -> option (list N).   (* span -> data -> hash; None = the hasher returned an error *)
Variable chunk : nat.                                (* boson.ChunkSize *)

(** newWithSpan; both callers pass an 8-byte span, so cdata = span ++ data *)
Definition new_with_span (data span : list N) : res chunk_t :=
  match hh span data with
  | Some h => Ok (h, span ++ data)
  | None => Err ErrHash
  end.

Definition new (data : list N) : res chunk_t :=
  if chunk <? length data then Err ErrLarge
  else if length data =? 0 then Err ErrShort
  else new_with_span data (le64 (N.of_nat (length data))).

Definition new_with_data_span (d : list N) : res chunk_t :=
  if chunk + 8 <? length d then Err ErrLarge
  else if length d <? 8 then Err ErrShort
  else new_with_span (skipn 8 d) (firstn 8 d).

(** Valid: [hash, _ := h(span)]: on a hasher error hash is nil *)
Definition valid (c : chunk_t) : bool :=
  let (addr, d) := c in
  if length d <? 8 then false
  else if chunk + 8 <? length d then false
  else bytes_eqb (match hh (firstn 8 d) (skipn 8 d) with Some h => h | None => [] end) addr.

End Cac.

(** the hasher as modelled in C03: one use of a pooled tree under a schedule *)
Definition pool_hash (H HF : list N -> list N) (D : nat) (tr : list N * nodes) (sched : list choice) (fuel : nat)
           (span data : list N) : option (list N) :=
  match use_tree H HF D tr span [data] sched fuel with
  | Some (o, _) => o
  | None => None
  end.
