(** C04 — property theorems.  [H] is the base hash of the BMT, [HF] the final span hash; the only
    assumption ever made is the 32-byte output length of [H], and only where byte changes are
    traced to a collision. *)
From Coq Require Import List NArith ZArith Bool Arith Lia.
Import ListNotations.
Require Import Aurora.Consts Aurora.Base.Corr Aurora.C03.Ref Aurora.C03.Model Aurora.C03.Final Aurora.C03.Term
               Aurora.C03.Toy Aurora.C04.Model Aurora.C04.Proofs Aurora.C04.PoolDiscipline.

(** boson.ChunkSize is the capacity of bmtpool's trees (D = 12), the span is 8 bytes *)
Definition realD : nat := 12.
Lemma consts_ok_C04 :
  (Z.of_nat (maxsize realD) =? Consts.boson_ChunkSize)%Z && (Consts.boson_SpanSize =? 8)%Z
  && (Consts.boson_ChunkWithSpanSize =? Consts.boson_ChunkSize + Consts.boson_SpanSize)%Z
  && match size_to_params (Z.to_N Consts.boson_BmtBranches) with
     | Some (c, d) => (d =? N.of_nat (S realD))%N | None => false end = true.
Proof. vm_compute. reflexivity. Qed.

(** the hasher cac obtains from the pool, as modelled and proved in C03: any valid pooled tree,
    any schedule of its goroutines *)
Definition hasher_ok (H HF : list N -> list N) (D : nat) (hh : list N -> list N -> option (list N)) : Prop :=
  forall span data, length span = 8 -> hh span data = Some (bmt_hash H HF D span data).

Theorem C04_pool_hasher_ok : forall (H HF : list N -> list N) D tr sched fuel,
  tree_ok D (fst tr) (snd tr) -> 2 * W D <= fuel -> hasher_ok H HF D (pool_hash H HF D tr sched fuel).
Proof. intros H HF D tr sched fuel Hok Hf span data. now apply pool_hash_spec. Qed.
Print Assumptions C04_pool_hasher_ok.

Theorem C04_valid_iff : forall (H HF : list N -> list N) D hh, hasher_ok H HF D hh ->
  forall addr d,
  valid hh (maxsize D) (addr, d) = true <->
  8 <= length d <= maxsize D + 8 /\ addr = bmt_hash H HF D (firstn 8 d) (skipn 8 d).
Proof. exact valid_iff. Qed.
Print Assumptions C04_valid_iff.

Theorem C04_new_valid : forall (H HF : list N -> list N) D hh, hasher_ok H HF D hh ->
  forall data, 1 <= length data <= maxsize D ->
  exists addr, new hh (maxsize D) data = Ok (addr, le64 (N.of_nat (length data)) ++ data) /\
               addr = bmt_hash H HF D (le64 (N.of_nat (length data))) data /\
               valid hh (maxsize D) (addr, le64 (N.of_nat (length data)) ++ data) = true.
Proof. exact new_valid. Qed.
Print Assumptions C04_new_valid.

Theorem C04_new_rejects : forall (H HF : list N -> list N) D hh, hasher_ok H HF D hh ->
  forall data,
  (length data = 0 -> new hh (maxsize D) data = Err ErrShort) /\
  (maxsize D < length data -> new hh (maxsize D) data = Err ErrLarge).
Proof. intros H HF D hh _. exact (new_rejects D hh). Qed.
Print Assumptions C04_new_rejects.

Theorem C04_new_with_data_span : forall (H HF : list N -> list N) D hh, hasher_ok H HF D hh ->
  forall d,
  (length d < 8 -> new_with_data_span hh (maxsize D) d = Err ErrShort) /\
  (maxsize D + 8 < length d -> new_with_data_span hh (maxsize D) d = Err ErrLarge) /\
  (8 <= length d <= maxsize D + 8 ->
     new_with_data_span hh (maxsize D) d = Ok (bmt_hash H HF D (firstn 8 d) (skipn 8 d), d) /\
     valid hh (maxsize D) (bmt_hash H HF D (firstn 8 d) (skipn 8 d), d) = true).
Proof. exact new_with_data_span_spec. Qed.
Print Assumptions C04_new_with_data_span.

(** "changing any payload byte or address byte of a valid chunk makes it invalid": an altered
    address is always rejected; an altered payload byte is rejected, or the two payloads exhibit an
    explicit collision of [H] or [HF] *)
Theorem C04_mutation : forall (H HF : list N -> list N) D hh, hasher_ok H HF D hh ->
  (forall x, length (H x) = 32) ->
  forall addr d, valid hh (maxsize D) (addr, d) = true ->
  (forall k b, k < length d -> nth k d 0%N <> b ->
     valid hh (maxsize D) (addr, set_nth k b d) = true -> collision H HF) /\
  (forall k b, k < length addr -> nth k addr 0%N <> b -> valid hh (maxsize D) (set_nth k b addr, d) = false).
Proof. exact mutation. Qed.
Print Assumptions C04_mutation.

Theorem C04_same_address : forall (H HF : list N -> list N) D hh, hasher_ok H HF D hh ->
  (forall x, length (H x) = 32) ->
  forall addr d d', valid hh (maxsize D) (addr, d) = true -> valid hh (maxsize D) (addr, d') = true ->
  length d = length d' -> d = d' \/ collision H HF.
Proof. exact same_address. Qed.
Print Assumptions C04_same_address.

(** Hasher.Write silently truncates at capacity: it is the length test of Valid that excludes
    payloads with bytes beyond 256 KiB + 8 (their BMT hash equals that of the truncated payload) *)
Theorem C04_overlong : forall (H HF : list N -> list N) D hh, hasher_ok H HF D hh ->
  forall span data extra, length span = 8 -> length data = maxsize D -> extra <> [] ->
  bmt_hash H HF D span (data ++ extra) = bmt_hash H HF D span data /\
  valid hh (maxsize D) (bmt_hash H HF D span data, span ++ data) = true /\
  valid hh (maxsize D) (bmt_hash H HF D span data, span ++ data ++ extra) = false.
Proof.
  intros H HF D hh Hh span data extra Hs Hd He.
  split; [now apply overlong_same_hash|]. split.
  - apply (valid_iff H HF D hh Hh). rewrite app_length, Hs, Hd.
    rewrite firstn_app, Hs, Nat.sub_diag, firstn_all2 by lia. cbn [firstn]. rewrite app_nil_r.
    rewrite skipn_app, Hs, Nat.sub_diag, skipn_all2 by lia. cbn [skipn app]. split; [lia | reflexivity].
  - destruct (valid hh (maxsize D) (bmt_hash H HF D span data, span ++ data ++ extra)) eqn:V; [|reflexivity].
    apply (valid_iff H HF D hh Hh) in V as ((_ & L) & _). rewrite !app_length, Hs, Hd in L.
    destruct extra; [contradiction | cbn [length] in L; lia].
Qed.
Print Assumptions C04_overlong.

(** the caller's obligation towards the pool, for ALL interleavings of any number of goroutines
    running cac.hasher ([Get; SetHeader; Write; Hash; Put]) over a pool of any capacity: no
    goroutine ever touches a tree it does not own, no tree returns to the pool while its section
    goroutines may still run (Put only after Hash has returned), the pool channel never holds a
    tree twice, every idle tree's access log consists of complete uses by one caller each, and
    every goroutine in the middle of its use is the owner of its tree with only its own partial
    use on top of such a log ([caller_ok]).  This is what makes each use a run of the C03
    single-hasher system ([C03_concurrent_users], [C04_pool_hasher_ok]). *)
Theorem C04_pool_discipline : forall cap sched,
  let st := PoolDiscipline.run (PoolDiscipline.init cac_hasher_prog cap) sched in
  bad_access st = false /\ bad_put st = false /\
  (NoDup (free st) /\ forall t, In t (free st) -> own (ts st t) = None) /\
  (forall t, own (ts st t) = None -> dirty (ts st t) = false /\ wf_done (tlog (ts st t))) /\
  (forall c, caller_ok st c).
Proof.
  intros cap sched st.
  destruct (PoolDiscipline.run_inv sched _ (PoolDiscipline.init_inv cap)) as [[F1 F2] Fr Idle Call].
  split; [exact F1|]. split; [exact F2|]. split; [exact Fr|]. split; [exact Idle | exact Call].
Qed.
Print Assumptions C04_pool_discipline.

(** the obligation is not vacuous: with the Put moved before Hash, two goroutines and one tree,
    a schedule puts a dirty tree back, lets the second goroutine write into it, and has the first
    one hash a tree it no longer owns *)
Theorem C04_pool_discipline_tight :
  let st := PoolDiscipline.run (PoolDiscipline.init early_put_prog 1) [0; 0; 0; 0; 1; 1; 1; 0] in
  bad_put st = true /\ bad_access st = true /\
  tlog (ts st 0) = [(0, AHash); (1, AWrite); (1, ASetHeader); (0, AWrite); (0, ASetHeader)].
Proof. exact early_put_breaks. Qed.
Print Assumptions C04_pool_discipline_tight.

(** non-vacuity: with a concrete hash and a tiny tree the hypotheses are met and the functions compute *)
Example C04_hyps_satisfiable :
  let hh := pool_hash toy toy 1 (fresh_buf 1, fresh_nodes) [CUser; CStart 0] (2 * W 1) in
  (forall x, length (toy x) = 32) /\
  match new hh (maxsize 1) (toy_out 100 5%N) with
  | Ok (a, d) => valid hh (maxsize 1) (a, d) = true /\ valid hh (maxsize 1) (a, set_nth 50 0%N d) = false /\
                 firstn 8 d = [100; 0; 0; 0; 0; 0; 0; 0]%N
  | Err _ => False
  end.
Proof. split; [intros x; reflexivity | vm_compute; auto]. Qed.
