(** C04 — the CALLER side of the pool: cac.hasher's use of bmtpool.

    C03's pool theorems ([C03_pool_reuse], [C03_concurrent_users], [C04_pool_hasher_ok]) are about
    a tree that is used by ONE hasher at a time and that comes back to the pool only after Hash
    has returned.  That is an obligation of the caller.  This file states it and proves it for
    the caller at HEAD,

        hasher := bmtpool.Get(); defer bmtpool.Put(hasher)
        hasher.SetHeader(span); hasher.Write(data); return hasher.Hash(nil)

    i.e. the action sequence [Get; SetHeader; Write; Hash; Put], for any number of goroutines
    running it in any interleaving over a pool of any capacity.

    Ownership-level model: trees and callers are numbers; [free] is the pool channel (FIFO);
    every tree records its owner, whether section goroutines may be running on it ([dirty]:
    after Write, until Hash has returned) and the log of accesses (newest first).  The Go
    variable [hasher] keeps pointing at the tree after Put, so an access after Put is
    expressible: it sets [bad_access] when the caller is not the owner; a Put of a dirty tree
    sets [bad_put].  [Hash] is one action (it blocks until the result is received).  The
    error path of Write (never taken: Write returns no error) is not modelled. *)
From Coq Require Import List Arith Bool Lia.
Import ListNotations.

Inductive pact := AGet | ASetHeader | AWrite | AHash | APut.

(** pkg/cac/cac.go, hasher(): the deferred Put runs when the closure returns, after Hash *)
Definition cac_hasher_prog : list pact := [AGet; ASetHeader; AWrite; AHash; APut].

Record cst := mkC { pc : list pact; ref : option nat }.
Record tst := mkT { own : option nat; dirty : bool; tlog : list (nat * pact) }.
Record pst := mkP {
  free : list nat;
  cs : nat -> cst;
  ts : nat -> tst;
  bad_access : bool;   (* a caller touched a tree it does not own *)
  bad_put : bool       (* a tree went back to the pool while its sections may still be running *)
}.

Definition updc (f : nat -> cst) (c : nat) (x : cst) : nat -> cst := fun c' => if c' =? c then x else f c'.
Definition updt (f : nat -> tst) (t : nat) (x : tst) : nat -> tst := fun t' => if t' =? t then x else f t'.
Definition owns (st : pst) (c t : nat) : bool :=
  match own (ts st t) with Some c' => c' =? c | None => false end.

Definition step (st : pst) (c : nat) : pst :=
  let me := cs st c in
  match pc me with
  | [] => st
  | AGet :: r =>
      match free st with
      | [] => st                                           (* <-p.c blocks *)
      | t :: f =>
          mkP f (updc (cs st) c (mkC r (Some t)))
              (updt (ts st) t (mkT (Some c) (dirty (ts st t)) (tlog (ts st t))))
              (bad_access st) (bad_put st)
      end
  | APut :: r =>
      match ref me with
      | None => mkP (free st) (updc (cs st) c (mkC r None)) (ts st) true (bad_put st)
      | Some t =>
          mkP (free st ++ [t]) (updc (cs st) c (mkC r (Some t)))
              (updt (ts st) t (mkT None (dirty (ts st t)) (tlog (ts st t))))
              (bad_access st || negb (owns st c t)) (bad_put st || dirty (ts st t))
      end
  | a :: r =>                                              (* SetHeader, Write, Hash: touch the tree *)
      match ref me with
      | None => mkP (free st) (updc (cs st) c (mkC r None)) (ts st) true (bad_put st)
      | Some t =>
          let d := match a with AWrite => true | AHash => false | _ => dirty (ts st t) end in
          mkP (free st) (updc (cs st) c (mkC r (Some t)))
              (updt (ts st) t (mkT (own (ts st t)) d ((c, a) :: tlog (ts st t))))
              (bad_access st || negb (owns st c t)) (bad_put st)
      end
  end.

Definition run (st : pst) (sched : list nat) : pst := fold_left step sched st.

(** [cap] trees in the pool, every goroutine about to run [prog] *)
Definition init (prog : list pact) (cap : nat) : pst :=
  mkP (seq 0 cap) (fun _ => mkC prog None) (fun _ => mkT None false []) false false.

(** a log made of complete uses, each by a single caller *)
Fixpoint wf_done (l : list (nat * pact)) : Prop :=
  match l with
  | [] => True
  | (c1, AHash) :: (c2, AWrite) :: (c3, ASetHeader) :: r => c1 = c2 /\ c2 = c3 /\ wf_done r
  | _ => False
  end.

(** where caller [c] stands in [cac_hasher_prog], and what that means for its tree *)
Definition caller_ok (st : pst) (c : nat) : Prop :=
  let me := cs st c in
  match pc me with
  | [AGet; ASetHeader; AWrite; AHash; APut] => True
  | [ASetHeader; AWrite; AHash; APut] =>
      exists t, ref me = Some t /\ own (ts st t) = Some c /\ dirty (ts st t) = false /\ wf_done (tlog (ts st t))
  | [AWrite; AHash; APut] =>
      exists t d, ref me = Some t /\ own (ts st t) = Some c /\ dirty (ts st t) = false /\
                  tlog (ts st t) = (c, ASetHeader) :: d /\ wf_done d
  | [AHash; APut] =>
      exists t d, ref me = Some t /\ own (ts st t) = Some c /\
                  tlog (ts st t) = (c, AWrite) :: (c, ASetHeader) :: d /\ wf_done d
  | [APut] =>
      exists t, ref me = Some t /\ own (ts st t) = Some c /\ dirty (ts st t) = false /\ wf_done (tlog (ts st t))
  | [] => True
  | _ => False
  end.

Record PInv (st : pst) : Prop := mkPI {
  P_flags : bad_access st = false /\ bad_put st = false;
  P_free : NoDup (free st) /\ forall t, In t (free st) -> own (ts st t) = None;
  P_idle : forall t, own (ts st t) = None -> dirty (ts st t) = false /\ wf_done (tlog (ts st t));
  P_callers : forall c, caller_ok st c
}.

Lemma init_inv cap : PInv (init cac_hasher_prog cap).
Proof.
  constructor.
  - cbn. auto.
  - cbn. split; [apply seq_NoDup | auto].
  - cbn. auto.
  - intros c. exact I.
Qed.

Lemma updt_same f t x : updt f t x t = x. Proof. unfold updt. now rewrite Nat.eqb_refl. Qed.
Lemma updt_other f t x t' : t' <> t -> updt f t x t' = f t'.
Proof. intros Hn. unfold updt. destruct (Nat.eqb_spec t' t); [contradiction | reflexivity]. Qed.
Lemma updc_same f c x : updc f c x c = x. Proof. unfold updc. now rewrite Nat.eqb_refl. Qed.
Lemma updc_other f c x c' : c' <> c -> updc f c x c' = f c'.
Proof. intros Hn. unfold updc. destruct (Nat.eqb_spec c' c); [contradiction | reflexivity]. Qed.

(** another caller's view is unchanged when [c] acts on a tree that caller does not own *)
Lemma caller_frame st st' c c' t :
  c' <> c -> cs st' c' = cs st c' -> (forall t', t' <> t -> ts st' t' = ts st t') ->
  (forall c'', own (ts st t) = Some c'' -> c'' <> c') ->
  caller_ok st c' -> caller_ok st' c'.
Proof.
  intros Hc Ecs Ets Hown Hok. unfold caller_ok in *. rewrite Ecs.
  assert (K : forall t', own (ts st t') = Some c' -> ts st' t' = ts st t').
  { intros t' Ho. apply Ets. intros ->. exact (Hown c' Ho eq_refl). }
  destruct (pc (cs st c')) as [|[] [|[] [|[] [|[] [|[] [|? ?]]]]]]; auto.
  - destruct Hok as (t0 & A & B & C0 & E). exists t0. rewrite (K t0 B). auto.
  - destruct Hok as (t0 & d & A & B & C0 & E & F). exists t0, d. rewrite (K t0 B). auto.
  - destruct Hok as (t0 & d & A & B & E & F). exists t0, d. rewrite (K t0 B). auto.
  - destruct Hok as (t0 & A & B & C0 & E). exists t0. rewrite (K t0 B). auto.
Qed.

Lemma NoDup_snoc (l : list nat) t : NoDup l -> ~ In t l -> NoDup (l ++ [t]).
Proof.
  induction l as [|x l IH]; intros Hn Hi; cbn [app]; [constructor; auto; constructor|].
  inversion Hn; subst. constructor.
  - intros Hin. apply in_app_or in Hin. destruct Hin as [Hin|[E|[]]]; [contradiction | subst; apply Hi; now left].
  - apply IH; [assumption | intros Hin; apply Hi; now right].
Qed.

Lemma owns_true st c t : own (ts st t) = Some c -> owns st c t = true.
Proof. intros E. unfold owns. rewrite E. apply Nat.eqb_refl. Qed.

Theorem step_inv st c : PInv st -> PInv (step st c).
Proof.
  intros [[F1 F2] [N1 N2] Idle Call]. pose proof (Call c) as Me. unfold caller_ok in Me. unfold step.
  destruct (pc (cs st c)) as [|a1 [|a2 [|a3 [|a4 [|a5 [|a6 r]]]]]] eqn:Epc;
    try (constructor; auto; fail); destruct a1; try contradiction;
    try destruct a2; try contradiction; try destruct a3; try contradiction;
    try destruct a4; try contradiction; try destruct a5; try contradiction.
  - (* Put *)
    destruct Me as (t & Rf & Ow & Dt & Lg). rewrite Rf.
    assert (Hnf : ~ In t (free st)) by (intros Hin; rewrite (N2 t Hin) in Ow; discriminate).
    constructor; cbn [bad_access bad_put free cs ts]; auto.
    + rewrite (owns_true st c t Ow), F1, F2, Dt. auto.
    + split.
      * now apply NoDup_snoc.
      * intros t' Ht'. destruct (Nat.eq_dec t' t) as [->|Hn]; [now rewrite updt_same|].
        rewrite updt_other by exact Hn. apply N2. apply in_app_or in Ht'. destruct Ht' as [|[E|[]]]; [assumption | congruence].
    + intros t' Ho. destruct (Nat.eq_dec t' t) as [->|Hn]; [rewrite updt_same; cbn; auto|].
      rewrite updt_other in * by exact Hn. now apply Idle.
    + intros c'. destruct (Nat.eq_dec c' c) as [->|Hn].
      * unfold caller_ok. cbn [cs ts]. rewrite updc_same. cbn [pc ref]. exact I.
      * eapply (caller_frame st _ c c' t Hn); [cbn; now rewrite updc_other | intros; cbn; now rewrite updt_other | | apply Call].
        intros c'' E. rewrite Ow in E. inversion E. congruence.
  - (* Hash *)
    destruct Me as (t & d & Rf & Ow & Lg & Wd). rewrite Rf.
    constructor; cbn [bad_access bad_put free cs ts]; auto.
    + rewrite (owns_true st c t Ow), F1. auto.
    + split; [exact N1|]. intros t' Ht'. destruct (Nat.eq_dec t' t) as [->|Hn]; [rewrite (N2 t Ht') in Ow; discriminate|].
      rewrite updt_other by exact Hn. now apply N2.
    + intros t' Ho. destruct (Nat.eq_dec t' t) as [->|Hn]; [rewrite updt_same in Ho; cbn in Ho; congruence|].
      rewrite updt_other in * by exact Hn. now apply Idle.
    + intros c'. destruct (Nat.eq_dec c' c) as [->|Hn].
      * unfold caller_ok. cbn [cs ts]. rewrite updc_same. cbn [pc ref]. exists t. rewrite updt_same. cbn. rewrite Lg. cbn. repeat split; auto.
      * eapply (caller_frame st _ c c' t Hn); [cbn; now rewrite updc_other | intros; cbn; now rewrite updt_other | | apply Call].
        intros c'' E. rewrite Ow in E. inversion E. congruence.
  - (* Write *)
    destruct Me as (t & d & Rf & Ow & Dt & Lg & Wd). rewrite Rf.
    constructor; cbn [bad_access bad_put free cs ts]; auto.
    + rewrite (owns_true st c t Ow), F1. auto.
    + split; [exact N1|]. intros t' Ht'. destruct (Nat.eq_dec t' t) as [->|Hn]; [rewrite (N2 t Ht') in Ow; discriminate|].
      rewrite updt_other by exact Hn. now apply N2.
    + intros t' Ho. destruct (Nat.eq_dec t' t) as [->|Hn]; [rewrite updt_same in Ho; cbn in Ho; congruence|].
      rewrite updt_other in * by exact Hn. now apply Idle.
    + intros c'. destruct (Nat.eq_dec c' c) as [->|Hn].
      * unfold caller_ok. cbn [cs ts]. rewrite updc_same. cbn [pc ref]. exists t, d. rewrite updt_same. cbn. rewrite Lg. auto.
      * eapply (caller_frame st _ c c' t Hn); [cbn; now rewrite updc_other | intros; cbn; now rewrite updt_other | | apply Call].
        intros c'' E. rewrite Ow in E. inversion E. congruence.
  - (* SetHeader *)
    destruct Me as (t & Rf & Ow & Dt & Lg). rewrite Rf.
    constructor; cbn [bad_access bad_put free cs ts]; auto.
    + rewrite (owns_true st c t Ow), F1. auto.
    + split; [exact N1|]. intros t' Ht'. destruct (Nat.eq_dec t' t) as [->|Hn]; [rewrite (N2 t Ht') in Ow; discriminate|].
      rewrite updt_other by exact Hn. now apply N2.
    + intros t' Ho. destruct (Nat.eq_dec t' t) as [->|Hn]; [rewrite updt_same in Ho; cbn in Ho; congruence|].
      rewrite updt_other in * by exact Hn. now apply Idle.
    + intros c'. destruct (Nat.eq_dec c' c) as [->|Hn].
      * unfold caller_ok. cbn [cs ts]. rewrite updc_same. cbn [pc ref]. exists t, (tlog (ts st t)). rewrite updt_same. cbn. auto.
      * eapply (caller_frame st _ c c' t Hn); [cbn; now rewrite updc_other | intros; cbn; now rewrite updt_other | | apply Call].
        intros c'' E. rewrite Ow in E. inversion E. congruence.
  - (* Get *)
    destruct (free st) as [|t f] eqn:Ef; [constructor; auto; try (rewrite Ef; auto)|].
    assert (Ot : own (ts st t) = None) by (apply N2; now left).
    destruct (Idle t Ot) as (Dt & Lt).
    inversion N1 as [|? ? Hnin Hnd]; subst.
    constructor; cbn [bad_access bad_put free cs ts]; auto.
    + split; [exact Hnd|]. intros t' Ht'. rewrite updt_other; [apply N2; now right|]. intros ->. contradiction.
    + intros t' Ho. destruct (Nat.eq_dec t' t) as [->|Hn]; [rewrite updt_same in Ho; discriminate|].
      rewrite updt_other in * by exact Hn. now apply Idle.
    + intros c'. destruct (Nat.eq_dec c' c) as [->|Hn].
      * unfold caller_ok. cbn [cs ts]. rewrite updc_same. cbn [pc ref]. exists t. rewrite updt_same. cbn. auto.
      * eapply (caller_frame st _ c c' t Hn); [cbn; now rewrite updc_other | intros; cbn; now rewrite updt_other | | apply Call].
        intros c'' E. rewrite Ot in E. discriminate.
Qed.

Theorem run_inv sched : forall st, PInv st -> PInv (run st sched).
Proof.
  induction sched as [|c sched IH]; intros st I; [exact I|]. cbn [run fold_left]. apply IH. now apply step_inv.
Qed.

(** the early-Put variant (Put moved before Hash) violates the discipline: witness schedule with
    two goroutines and one tree *)
Definition early_put_prog : list pact := [AGet; ASetHeader; AWrite; APut; AHash].
Lemma early_put_breaks :
  let st := run (init early_put_prog 1) [0; 0; 0; 0; 1; 1; 1; 0] in
  bad_put st = true /\ bad_access st = true /\
  tlog (ts st 0) = [(0, AHash); (1, AWrite); (1, ASetHeader); (0, AWrite); (0, ASetHeader)].
Proof. vm_compute. auto. Qed.
