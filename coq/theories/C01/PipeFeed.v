(** C01 — the feeder of [Pipe.v] cuts the written bytes into the chunks of the
    specification, whatever the stage behind it does (adapted from C02/Proofs.v,
    with the state of the pipeline behind the feeder abstracted to [PInv]). *)
From Coq Require Import List NArith ZArith Bool Lia Arith PeanoNat.
From Coq Require Import ZifyBool ZifyNat ZifyN.
Import ListNotations.
Require Import Aurora.C02.Model Aurora.C02.Spec Aurora.C02.Stream Aurora.C02.Proofs.
Require Import Aurora.C01.Pipe.
Ltac Zify.zify_post_hook ::= Z.div_mod_to_equations.
Ltac splits := repeat lazymatch goal with |- _ /\ _ => split end.

Section Feed.
  Variable stage : nat -> bytes -> res (bytes * bytes).
  Variable cs b refLen : nat.
  Hypothesis Hcs : (0 < cs)%nat.
  Variable PInv : trie -> list bytes -> Prop.
  Variable cap : nat.
  Hypothesis Hcap1 : (1 <= cap)%nat.
  Hypothesis Hinit : PInv trie_init [].
  Hypothesis Hstage : forall t cks d, PInv t cks -> (length cks < cap)%nat -> (length d <= cs)%nat ->
    exists t', pstage_write stage b refLen t (le64 (N.of_nat (length d))) (leaf_chunk d) = Ok t'
               /\ PInv t' (cks ++ [d]).

  Lemma pfeed_loop_ok : forall fuel rest dpre w t cks,
    (length rest < fuel)%nat -> (length dpre < cs)%nat ->
    (dpre = [] \/ cs <= length dpre + length rest)%nat ->
    PInv t cks -> (length cks + (length dpre + length rest) / cs <= cap)%nat ->
    exists early buf' w' t' newc,
      pfeed_loop stage cs b refLen fuel dpre dpre rest w t = Ok (early, buf', w', t')
      /\ dpre ++ rest = concat newc ++ buf' /\ uniform cs newc /\ (length buf' < cs)%nat
      /\ PInv t' (cks ++ newc)
      /\ w' = (w + Z.of_nat (cs * length newc) + (if early then Z.of_nat (length buf') else 0))%Z
      /\ (early = true -> buf' <> [])
      /\ (early = false -> newc = [] -> rest = [] /\ buf' = dpre)
      /\ (early = false -> newc <> [] -> buf' = []).
  Proof.
    induction fuel as [|fuel IH]; intros rest dpre w t cks Hfuel Hd Hpre Hp Hcap; [lia|].
    destruct rest as [|r0 rest'].
    - cbn [pfeed_loop]. exists false, dpre, w, t, []. rewrite !app_nil_r. cbn [concat app length].
      splits; try assumption; try constructor; try reflexivity; try lia; try congruence.
    - cbn [pfeed_loop]. remember (r0 :: rest') as rest eqn:Er.
      assert (Hrne : rest <> []) by (subst rest; discriminate).
      assert (Hrl : (0 < length rest)%nat) by (subst rest; cbn; lia).
      destruct (Nat.ltb (length dpre + length rest) cs) eqn:Elt.
      + apply Nat.ltb_lt in Elt. destruct Hpre as [-> | Hge]; [|lia].
        exists true, rest, (w + Z.of_nat (length rest))%Z, t, [].
        cbn [concat app length] in *. rewrite app_nil_r.
        splits; try assumption; try constructor; try reflexivity; try lia; try congruence.
      + apply Nat.ltb_ge in Elt.
        assert (Hn : Nat.min (cs - length dpre) (length rest) = (cs - length dpre)%nat) by lia.
        rewrite Hn. clear Hn. remember (cs - length dpre)%nat as n eqn:En.
        remember (dpre ++ firstn n rest) as payload eqn:Epl.
        assert (Hpl : length payload = cs).
        { subst payload. rewrite app_length, firstn_length. lia. }
        assert (Hq : (1 <= (length dpre + length rest) / cs)%nat).
        { apply Nat.div_le_lower_bound; lia. }
        destruct (Hstage t cks payload Hp ltac:(lia) ltac:(lia)) as (t1 & Hw1 & Hp1).
        unfold leaf_chunk in Hw1. rewrite Hw1.
        assert (Hsk : length (skipn n rest) = (length rest - n)%nat) by apply skipn_length.
        destruct (IH (skipn n rest) [] (w + Z.of_N (N.of_nat (length payload)))%Z t1 (cks ++ [payload]))
          as (early & buf' & w' & t' & newc & Hfl & Hdec & Hun & Hbl & Hpi & Hw' & He & Hf1 & Hf2);
          [lia | cbn; lia | now left | exact Hp1 | |].
        { rewrite app_length. cbn [length]. rewrite Nat.add_0_l.
          replace (length dpre + length rest)%nat with (1 * cs + (length rest - n))%nat in Hcap by lia.
          rewrite Nat.div_add_l in Hcap by lia. rewrite Hsk. lia. }
        exists early, buf', w', t', (payload :: newc).
        split; [exact Hfl|]. split.
        { cbn [concat]. rewrite <- app_assoc, <- Hdec. subst payload. cbn [app].
          rewrite <- app_assoc, firstn_skipn. reflexivity. }
        split; [constructor; assumption|]. split; [assumption|]. split.
        { rewrite <- app_assoc in Hpi. exact Hpi. }
        split.
        { rewrite Hw'. cbn [length]. rewrite Hpl. lia. }
        split; [exact He|]. split; [discriminate|].
        intros Hef _. destruct newc as [|c newc'].
        * destruct (Hf1 Hef eq_refl) as [_ ->]. reflexivity.
        * apply Hf2; [exact Hef | discriminate].
  Qed.

  (** state of the feeder after the bytes [data] were written *)
  Definition pfeeder_inv (f : feeder) (data : bytes) (cks : list bytes) : Prop :=
    data = concat cks ++ f_buf f /\ uniform cs cks /\ (length (f_buf f) < cs)%nat
    /\ PInv (f_next f) cks
    /\ (0 <= f_wrote f <= Z.of_nat (length data))%Z
    /\ (cks = [] -> f_wrote f = 0%Z)
    /\ (cks <> [] -> f_buf f = [] -> (0 < f_wrote f)%Z).

  Lemma pfeeder_init_inv : pfeeder_inv feeder_init [] [].
  Proof.
    unfold pfeeder_inv, feeder_init. cbn [f_buf f_wrote f_next concat app length].
    splits; try apply Hinit; try constructor; try reflexivity; try lia; try congruence.
  Qed.

  Lemma pfeeder_write_ok f data cks s :
    pfeeder_inv f data cks -> (Z.of_nat (length (data ++ s)) < 2 ^ 63)%Z ->
    (length (data ++ s) / cs <= cap)%nat ->
    exists f' cks', pfeeder_write stage cs b refLen f s = Ok (f', Z.of_nat (length s))
      /\ pfeeder_inv f' (data ++ s) cks'.
  Proof.
    intros (Hd & Hu & Hbl & Hp & Hw & Hw0 & Hw1) H63 Hcap. unfold pfeeder_write.
    pose proof (uniform_length cs cks Hu) as Hcl.
    assert (Hdl : length data = (cs * length cks + length (f_buf f))%nat).
    { rewrite Hd at 1. rewrite app_length, Hcl. reflexivity. }
    rewrite app_length in H63, Hcap.
    destruct (Nat.ltb (length s + length (f_buf f)) cs) eqn:Elt.
    - apply Nat.ltb_lt in Elt. exists (mkF (f_buf f ++ s) (f_wrote f) (f_next f)), cks.
      split; [reflexivity|]. unfold pfeeder_inv. cbn [f_buf f_wrote f_next].
      split; [rewrite Hd at 1; now rewrite app_assoc|]. split; [assumption|].
      split; [rewrite app_length; lia|]. split; [assumption|].
      split; [rewrite app_length; lia|]. split; [assumption|].
      intros Hne Hnil. apply app_eq_nil in Hnil as [Hb1 _]. now apply Hw1.
    - apply Nat.ltb_ge in Elt.
      set (w0 := (if (0 <? Z.of_nat (length (f_buf f)))%Z then (- Z.of_nat (length (f_buf f)))%Z else 0%Z)).
      assert (Hw0' : w0 = (- Z.of_nat (length (f_buf f)))%Z).
      { unfold w0. destruct (0 <? Z.of_nat (length (f_buf f)))%Z eqn:E0; lia. }
      destruct (pfeed_loop_ok (S (length s)) s (f_buf f) w0 (f_next f) cks)
        as (early & buf' & w' & t' & newc & Hfl & Hdec & Hun & Hbl' & Hpi & Hw' & He & Hf1 & Hf2);
        [lia | lia | right; lia | assumption | |].
      { replace (length data + length s)%nat with (length cks * cs + (length (f_buf f) + length s))%nat in Hcap by lia.
        rewrite Nat.div_add_l in Hcap by lia. lia. }
      rewrite Hfl.
      assert (Hlen2 : (length (f_buf f) + length s = cs * length newc + length buf')%nat).
      { rewrite <- app_length, Hdec, app_length, (uniform_length cs newc Hun). reflexivity. }
      assert (Hnewc : newc <> []).
      { intros ->. cbn [length] in Hlen2. lia. }
      assert (Hret : w' = Z.of_nat (length s)).
      { rewrite Hw', Hw0'. destruct early.
        - lia.
        - rewrite (Hf2 eq_refl Hnewc) in Hlen2. cbn [length] in Hlen2. lia. }
      assert (Hdata' : data ++ s = concat (cks ++ newc) ++ buf').
      { rewrite Hd, <- app_assoc, Hdec, concat_app, <- app_assoc. reflexivity. }
      assert (Hcks' : cks ++ newc <> []).
      { intros Hx. apply app_eq_nil in Hx as [_ Hx]. contradiction. }
      destruct early.
      + exists (mkF buf' (f_wrote f) t'), (cks ++ newc). rewrite Hret. split; [reflexivity|].
        unfold pfeeder_inv. cbn [f_buf f_wrote f_next].
        split; [exact Hdata'|]. split; [apply Forall_app; split; assumption|].
        split; [assumption|]. split; [assumption|].
        split; [rewrite app_length; lia|]. split; [intros Hx; contradiction|].
        intros _ Hx. now destruct (He eq_refl).
      + pose proof (Hf2 eq_refl Hnewc) as Hb'. subst buf'.
        exists (mkF [] (i64 (f_wrote f + w')) t'), (cks ++ newc). rewrite Hret. split; [reflexivity|].
        assert (Hs0 : (0 < length s)%nat) by lia.
        rewrite i64_small by lia.
        unfold pfeeder_inv. cbn [f_buf f_wrote f_next].
        split; [exact Hdata'|]. split; [apply Forall_app; split; assumption|].
        split; [lia|]. split; [assumption|].
        split; [rewrite app_length; lia|]. split; [intros Hx; contradiction|].
        intros _ _. lia.
  Qed.

  Lemma pfeed_all_ok : forall segs f data cks rets,
    pfeeder_inv f data cks -> (Z.of_nat (length (data ++ concat segs)) < 2 ^ 63)%Z ->
    (length (data ++ concat segs) / cs <= cap)%nat ->
    exists f' cks', pfeed_all stage cs b refLen f segs rets = Ok (f', rets ++ seg_lens segs)
      /\ pfeeder_inv f' (data ++ concat segs) cks'.
  Proof.
    induction segs as [|s segs IH]; intros f data cks rets Hi H63 Hcap.
    - exists f, cks. cbn [pfeed_all seg_lens map concat]. rewrite !app_nil_r. now split.
    - cbn [concat] in *. rewrite app_assoc in *. cbn [pfeed_all].
      assert (Hle : (length (data ++ s) <= length ((data ++ s) ++ concat segs))%nat) by (rewrite (app_length (data ++ s)); lia).
      destruct (pfeeder_write_ok f data cks s Hi) as (f1 & cks1 & Hw & Hi1); [lia| |].
      { etransitivity; [apply Nat.div_le_mono; [lia | exact Hle] | exact Hcap]. }
      rewrite Hw. destruct (IH f1 (data ++ s) cks1 (rets ++ [Z.of_nat (length s)]) Hi1 H63 Hcap) as (f' & cks' & Hfa & Hi').
      exists f', cks'. split; [|exact Hi']. rewrite Hfa. cbn [seg_lens map]. now rewrite <- app_assoc.
  Qed.

  Lemma pfeeder_sum_ok f data cks :
    pfeeder_inv f data cks -> (Z.of_nat (length data) + Z.of_nat cs + 8 < 2 ^ 63)%Z ->
    (length (chunks_of cs data) <= cap)%nat ->
    exists t2, PInv t2 (chunks_of cs data) /\ pfeeder_sum stage b refLen f = ptrie_sum stage b t2.
  Proof.
    intros (Hd & Hu & Hbl & Hp & Hw & Hw0 & Hw1) H63 Hcap. unfold pfeeder_sum.
    assert (Hfin : exists t2, PInv t2 (chunks_of cs data) /\
      (match (if Nat.ltb 0 (length (f_buf f)) then
               match pstage_write stage b refLen (f_next f) (le64 (N.of_nat (length (f_buf f)))) (le64 (N.of_nat (length (f_buf f))) ++ f_buf f) with
               | Ok t => Ok (t, i64 (f_wrote f + Z.of_nat (length (f_buf f) + 8)))
               | Err x => Err x
               end
             else Ok (f_next f, f_wrote f)) with
       | Err x => Err x
       | Ok (t1, wrote1) =>
           match (if (wrote1 =? 0)%Z then pstage_write stage b refLen t1 (le64 0) (le64 0) else Ok t1) with
           | Ok t2 => ptrie_sum stage b t2
           | Err x => Err x
           end
       end) = ptrie_sum stage b t2).
    { destruct (f_buf f) as [|x0 buf0] eqn:Ebuf.
      - (* nothing buffered *)
        cbn [length Nat.ltb Nat.leb]. rewrite app_nil_r in Hd.
        destruct (f_wrote f =? 0)%Z eqn:Ez.
        + apply Z.eqb_eq in Ez.
          assert (Hc0 : cks = []).
          { destruct cks as [|c cks']; [reflexivity|]. specialize (Hw1 ltac:(discriminate) eq_refl). lia. }
          subst cks. cbn [concat] in Hd. subst data. cbn [chunks_of].
          destruct (Hstage (f_next f) [] [] Hp) as (t2 & Hs2 & Hp2).
          { cbn [length]. lia. } { cbn [length]. lia. }
          unfold leaf_chunk in Hs2. cbn [length N.of_nat] in Hs2. rewrite app_nil_r in Hs2.
          exists t2. split; [exact Hp2|]. rewrite Hs2. reflexivity.
        + apply Z.eqb_neq in Ez.
          assert (Hcne : cks <> []) by (intros ->; now apply Ez, Hw0).
          assert (Hdne : data <> []).
          { destruct cks as [|c cks']; [congruence|]. inversion Hu as [|? ? Hc _].
            rewrite Hd. destruct c; [cbn in Hc; lia | discriminate]. }
          exists (f_next f). split; [|reflexivity].
          rewrite (chunks_of_nonempty cs data Hdne). rewrite Hd at 1. rewrite <- (app_nil_r (concat cks)).
          rewrite group_concat by assumption. rewrite group_nil, app_nil_r. exact Hp.
      - (* flush the buffer *)
        rewrite <- Ebuf in *. assert (Hbne : f_buf f <> []) by (rewrite Ebuf; discriminate).
        assert (Hbl0 : (0 < length (f_buf f))%nat) by (rewrite Ebuf; cbn; lia).
        replace (Nat.ltb 0 (length (f_buf f))) with true by (symmetry; apply Nat.ltb_lt; exact Hbl0).
        assert (Hdne : data <> []).
        { rewrite Hd. intros Hx. apply app_eq_nil in Hx as [_ Hx]. contradiction. }
        assert (Hleaves : chunks_of cs data = cks ++ [f_buf f]).
        { rewrite (chunks_of_nonempty cs data Hdne). rewrite Hd at 1. rewrite group_concat by assumption.
          f_equal. apply group_short. lia. }
        rewrite Hleaves in *. rewrite app_length in Hcap. cbn [length] in Hcap.
        destruct (Hstage (f_next f) cks (f_buf f) Hp ltac:(lia) ltac:(lia)) as (t1 & Hs1 & Hp1).
        unfold leaf_chunk in Hs1. rewrite Hs1.
        rewrite i64_small by lia.
        replace (f_wrote f + Z.of_nat (length (f_buf f) + 8) =? 0)%Z with false by (symmetry; apply Z.eqb_neq; lia).
        exists t1. split; [exact Hp1 | reflexivity]. }
    destruct Hfin as (t2 & Hp2 & Heq). exists t2. split; [exact Hp2 | exact Heq].
  Qed.

  (** the whole upload, up to the hash-trie writer's Sum *)
  Lemma pupload_chunks segs :
    (Z.of_nat (length (concat segs)) + Z.of_nat cs + 8 < 2 ^ 63)%Z ->
    (length (chunks_of cs (concat segs)) <= cap)%nat ->
    exists t2, PInv t2 (chunks_of cs (concat segs)) /\
      pupload stage cs b refLen segs =
      match ptrie_sum stage b t2 with
      | Ok (root, lg) => Ok (mkU root (seg_lens segs) lg)
      | Err x => Err x
      end.
  Proof.
    intros H63 Hcap. unfold pupload.
    pose proof (chunks_of_length_bounds cs Hcs (concat segs)) as Hcb.
    destruct (pfeed_all_ok segs feeder_init [] [] [] pfeeder_init_inv) as (f & cks & Hfa & Hi).
    { cbn [app]. lia. } { cbn [app]. lia. }
    cbn [app] in Hfa, Hi. rewrite Hfa.
    destruct (pfeeder_sum_ok f (concat segs) cks Hi H63 Hcap) as (t2 & Hp2 & Hs).
    exists t2. split; [exact Hp2|]. rewrite Hs. reflexivity.
  Qed.
End Feed.
