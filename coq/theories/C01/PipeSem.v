(** C01 — the semantic relation between an entry of the hash-trie writer and a
    specification tree: opening the entry's reference through the getter the
    joiner will use yields a well-formed stored tree ([C07.Repr]) for the tree's
    data.  It is established by every stage whose chunks can be fetched back. *)
From Coq Require Import List NArith ZArith Bool Lia Arith.
From Coq Require Import ZifyBool ZifyNat ZifyN.
Import ListNotations.
Require Import Aurora.Base.Corr.
Require Import Aurora.C02.Model Aurora.C02.Spec Aurora.C02.Stream Aurora.C02.Proofs.
Require Import Aurora.C07.Model Aurora.C07.Slices Aurora.C07.Proofs Aurora.C07.Main.
Require Import Aurora.C01.Model Aurora.C01.Proofs Aurora.C01.Main.
Require Import Aurora.C01.Pipe Aurora.C01.PipeSim Aurora.C01.PipeFeed Aurora.C01.PipeMain.
Local Open Scope Z_scope.

Definition dsum (ts : list tree) : Z := fold_right (fun t a => len (tree_data t) + a) 0 ts.
Lemma len_node ts : len (tree_data (Node ts)) = dsum ts.
Proof.
  cbn [tree_data]. unfold dsum. induction ts as [|t ts IH]; cbn [flat_map fold_right]; [reflexivity|].
  rewrite app_length. lia.
Qed.
Lemma dsum_app l1 l2 : dsum (l1 ++ l2) = dsum l1 + dsum l2.
Proof. unfold dsum. induction l1 as [|t l1 IH]; cbn [app fold_right]; [lia|]. rewrite IH. lia. Qed.
Lemma dsum_full X ts : Forall (fun t => len (tree_data t) = X) ts -> dsum ts = len ts * X.
Proof. unfold dsum. induction 1 as [|t ts Ht _ IH]; cbn [fold_right length]; [lia|]. rewrite IH, Ht. lia. Qed.
Lemma dsum_nonneg ts : 0 <= dsum ts.
Proof. unfold dsum. induction ts as [|t ts IH]; cbn [fold_right]; lia. Qed.
Lemma dsum_in t ts : In t ts -> len (tree_data t) <= dsum ts.
Proof.
  induction ts as [|x ts IH]; [contradiction|]. pose proof (dsum_nonneg ts) as Hn. unfold dsum in *. cbn [fold_right].
  intros [->|Hin]; [lia|]. specialize (IH Hin). lia.
Qed.

Lemma sum_spans_lt L : (sum_spans L < 2 ^ 64)%N.
Proof.
  unfold sum_spans. assert (Hg : forall acc, (acc < 2 ^ 64)%N ->
    (fold_left (fun acc e => u64 (acc + le_decode (e_span e))) L acc < 2 ^ 64)%N).
  { induction L as [|e L IH]; intros acc Ha; cbn [fold_left]; [exact Ha|]. apply IH. unfold u64. apply N.mod_lt. discriminate. }
  apply Hg. reflexivity.
Qed.

Lemma sum_spans_val LA LB : Forall2 (fun e t => e_span e = le64 (tree_span t)) LA LB ->
  (tree_span (Node LB) < 2 ^ 64)%N -> sum_spans LA = tree_span (Node LB).
Proof.
  intros Hf Hlt. pose proof (sum_spans_rel LA LB Hf) as Hs.
  apply (f_equal le_decode) in Hs. rewrite !le_decode_le64 in Hs. unfold u64 in Hs.
  rewrite !N.mod_small in Hs; [exact Hs | exact Hlt | apply sum_spans_lt].
Qed.

Section Sem.
  Variable stage : nat -> bytes -> res (bytes * bytes).
  Variable cs b refLen : nat.
  Hypothesis Hrl0 : (0 < refLen)%nat.
  Hypothesis Hb : (2 <= b)%nat.
  Hypothesis Hbdef : Z.of_nat b = Z.of_nat cs / Z.of_nat refLen.
  Notation csz := (Z.of_nat cs).
  Notation rlz := (Z.of_nat refLen).
  Notation B := (Bsz csz rlz).
  Notation wf := (wf cs b refLen).

  Variable getD : bytes -> got.        (* the getter the joiner uses (decrypting store over the final store) *)
  Variable LOG : list bytes.           (* the chunks of the final store *)

  Hypothesis Hs_len : forall c d st rk, stage c d = Ok (st, rk) -> length rk = refLen.
  (** a chunk the stage stored can be fetched back through its reference *)
  Hypothesis Hget_leaf : forall c d st rk, (length d <= cs)%nat ->
    stage c (leaf_chunk d) = Ok (st, rk) -> In st LOG -> getD rk = GOk (len d) (of_list d).
  Hypothesis Hget_node : forall c (LA : list entry) st rk m' (S : Z),
    (2 <= length LA <= b)%nat -> Forall (fun e => length (e_ref e) = refLen) LA ->
    Z.of_N (sum_spans LA) = S -> (len LA - 1) * B m' < S <= len LA * B m' -> S < 2 ^ 63 ->
    stage c (node_payload LA) = Ok (st, rk) -> In st LOG ->
    getD rk = GOk S (of_list (concat (map e_ref LA))).

  Definition Rsem (e : entry) (t : tree) : Prop :=
    exists payload, forall m, wf m t -> len (tree_data t) < 2 ^ 63 ->
      getD (e_ref e) = GOk (len (tree_data t)) (of_list payload)
      /\ Repr getD csz rlz m (len (tree_data t)) (of_list payload) (tree_data t).

  Lemma wf_leaf_inv m d : wf m (Leaf d) -> len d <= csz.
  Proof.
    induction m as [|m IH]; cbn [Proofs.wf]; intros Hw.
    - destruct Hw as (d' & Heq & Hl). injection Heq as <-. exact Hl.
    - destruct Hw as [Hw | (front & last & Heq & _)]; [now apply IH | discriminate].
  Qed.

  Lemma wf_node_inv m ts : wf m (Node ts) ->
    exists m' front last, (S m' <= m)%nat /\ ts = front ++ [last]
      /\ (1 <= length front)%nat /\ len (front ++ [last]) <= Z.of_nat b
      /\ Forall (wf m') (front ++ [last])
      /\ Forall (fun t => len (tree_data t) = B m') front
      /\ 0 < len (tree_data last) <= B m'.
  Proof.
    induction m as [|m IH]; cbn [Proofs.wf]; intros Hw.
    - destruct Hw as (d & Heq & _). discriminate.
    - destruct Hw as [Hw | (front & last & Heq & H1 & H2 & H3 & H4 & H5)].
      + destruct (IH Hw) as (m' & front & last & Hle & Hrest). exists m', front, last. split; [lia | exact Hrest].
      + injection Heq as ->. exists m, front, last. splits; try assumption; try reflexivity; lia.
  Qed.

  Lemma Rsem_leaf c d st rk : (length d <= cs)%nat ->
    stage c (leaf_chunk d) = Ok (st, rk) -> In st LOG -> Rsem (mkE (le64 (N.of_nat (length d))) rk) (Leaf d).
  Proof.
    intros Hd Hst Hin. exists d. intros m Hw H63. cbn [e_ref tree_data]. split.
    - exact (Hget_leaf c d st rk Hd Hst Hin).
    - pose proof (Repr_mono_le getD csz rlz 0 m _ _ _ (Repr_leaf_intro getD csz rlz d ltac:(lia))) as Hr.
      rewrite Nat.add_0_r in Hr. exact Hr.
  Qed.

  (** the children as the joiner sees them *)
  Lemma kids_exist LA LB : Forall2 (R0 refLen) LA LB -> Forall2 Rsem LA LB ->
    exists kids : list kid, map k_ref kids = map e_ref LA /\ map k_data kids = map tree_data LB
      /\ forall m, Forall (wf m) LB -> Forall (fun t => len (tree_data t) < 2 ^ 63) LB ->
                   Forall (kid_ok getD rlz (Repr getD csz rlz m)) kids.
  Proof.
    intros H0. induction H0 as [|e t LA LB [He1 He2] _ IH]; intros Hs.
    - exists []. splits; try reflexivity. intros; constructor.
    - inversion Hs as [|? ? ? ? (payload & Hp) Hs']; subst. destruct (IH Hs') as (kids & Hk1 & Hk2 & Hk3).
      exists (mkK (e_ref e) (len (tree_data t)) (of_list payload) (tree_data t) :: kids).
      cbn [map k_ref k_data]. rewrite Hk1, Hk2. splits; try reflexivity.
      intros m Hw Hlt. inversion Hw; subst. inversion Hlt; subst.
      constructor; [|now apply Hk3].
      destruct (Hp m ltac:(assumption) ltac:(assumption)) as [Hg Hr].
      split; [cbn [k_ref]; lia|]. split; [exact Hg | exact Hr].
  Qed.

  Lemma Forall_map_data (kf : list kid) (front : list tree) (P : Z -> Prop) :
    map k_data kf = map tree_data front ->
    Forall (fun t => P (len (tree_data t))) front -> Forall (fun k => P (len (k_data k))) kf.
  Proof.
    revert front; induction kf as [|k kf IH]; intros [|t front] Hm Hf; try discriminate; constructor.
    - cbn [map] in Hm. injection Hm as Hk _. inversion Hf; subst. now rewrite Hk.
    - cbn [map] in Hm. injection Hm as _ Hm. inversion Hf; subst. now apply (IH front).
  Qed.

  Lemma Rsem_node c LA LB st rk : Forall2 (R0 refLen) LA LB -> Forall2 Rsem LA LB -> (2 <= length LA)%nat ->
    stage c (node_payload LA) = Ok (st, rk) -> In st LOG -> Rsem (mkE (le64 (sum_spans LA)) rk) (Node LB).
  Proof.
    intros H0 Hs H2 Hst Hin. exists (concat (map e_ref LA)). intros m Hw H63. cbn [e_ref].
    destruct (wf_node_inv m LB Hw) as (m' & front & last & Hle & -> & Hf1 & Hkb & Hall & Hfull & Hlast).
    destruct (kids_exist LA _ H0 Hs) as (kids & Hk1 & Hk2 & Hk3).
    pose proof (Forall2_length H0) as HlenAB.
    assert (HlenK : length kids = length LA) by (rewrite <- (map_length k_ref kids), Hk1, map_length; reflexivity).
    rewrite map_app in Hk2. cbn [map] in Hk2.
    destruct (map_eq_app k_data kids _ _ Hk2) as (kf & kl & -> & Hkf & Hkl).
    assert (Hlenf : length kf = length front) by (rewrite <- (map_length k_data kf), Hkf, map_length; reflexivity).
    pose proof (len_node (front ++ [last])) as Hln. rewrite dsum_app, (dsum_full (B m') front Hfull) in Hln.
    unfold dsum at 1 in Hln. cbn [fold_right] in Hln.
    pose proof (B_pos cs b refLen Hrl0 Hb Hbdef m') as HBp.
    rewrite app_length in HlenAB, Hkb, HlenK. cbn [length] in HlenAB, Hkb, HlenK.
    split.
    - (* the reference resolves to the node chunk *)
      apply (Hget_node c LA st rk m'); try assumption.
      + lia.
      + eapply Forall_impl; [|exact (R0_shape refLen LA _ H0)]. now intros ? [].
      + rewrite (sum_spans_val LA _ (R0_spans refLen LA _ H0)).
        * unfold tree_span. lia.
        * unfold tree_span. change (2 ^ 64)%N with 18446744073709551616%N. lia.
      + lia.
    - (* the node is a well-formed stored tree *)
      assert (Hsub : Forall (fun t => len (tree_data t) < 2 ^ 63) (front ++ [last])).
      { apply Forall_forall. intros t Ht. pose proof (dsum_in t _ Ht) as Hd. rewrite <- len_node in Hd. lia. }
      specialize (Hk3 m' Hall Hsub).
      pose proof (Repr_node_intro getD csz rlz m' kf kl ltac:(lia)) as Hr.
      rewrite <- Hbdef in Hr. rewrite app_length in Hr. cbn [length] in Hr.
      specialize (Hr ltac:(lia) Hk3).
      specialize (Hr (Forall_map_data kf front (fun z => z = B m') Hkf Hfull)).
      rewrite Hkl in Hr. specialize (Hr Hlast).
      rewrite Hk1 in Hr.
      assert (Hdata : concat (map k_data (kf ++ [kl])) = tree_data (Node (front ++ [last]))).
      { rewrite map_app. cbn [map]. rewrite Hkf, Hkl. cbn [tree_data]. rewrite flat_map_concat_map, map_app. reflexivity. }
      rewrite Hdata in Hr.
      replace m with ((m - S m') + S m')%nat by lia. apply Repr_mono_le. exact Hr.
  Qed.
End Sem.
