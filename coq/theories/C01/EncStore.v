(** C01 — the getter the joiner reads through: [store.New(getter)]
    (pkg/encryption/store/decrypt_store.go) over the chunk store, followed by the
    joiner's split of the chunk data into span and payload.  A reference of
    [hs] bytes is fetched as it is; a reference of [hs + keylen] bytes is the
    chunk address followed by the key: the chunk is fetched under the address and
    decrypted ([C08.decrypt_chunk_data], with its padding-stripping loop); any
    other length is [storage.ErrReferenceLength].  Definitions only. *)
From Coq Require Import List NArith ZArith Bool.
Import ListNotations.
Require Import Aurora.Base.Corr Aurora.C02.Model Aurora.C07.Model Aurora.C01.Model.
Require Aurora.C08.Model.

Section DecStore.
  Variable Hk : bytes -> bytes.          (* keystream hash of pkg/encryption *)
  Variable chunk refsize : N.            (* boson.ChunkSize, HashSize + KeyLength *)
  Variable hs : nat.                     (* boson.HashSize *)

  Definition get_dec (store : list (bytes * bytes)) (ref : bytes) : got :=
    if Nat.eqb (length ref) hs then get_of_store store ref
    else if Nat.eqb (length ref) (N.to_nat refsize) then
      match lookup store (firstn hs ref) with
      | None => GErr
      | Some stored =>
          match C08.Model.decrypt_chunk_data Hk chunk refsize stored (skipn hs ref) with
          | C08.Model.Ok d => chunk_got d
          | C08.Model.Err => GErr
          | C08.Model.Panic => GShort
          | C08.Model.Hang => GErr
          end
      end
    else GErr.
End DecStore.
