(** C01 — the two chunk stages of the code satisfy the hypotheses of
    [PipeFinal.pread_back]: the plain one (BMT + store) and the encrypted one
    (EncryptChunk + BMT + store, read back through the decrypting store). *)
From Coq Require Import List NArith ZArith Bool Lia Arith.
From Coq Require Import ZifyBool ZifyNat ZifyN.
Import ListNotations.
Require Import Aurora.Base.Corr.
Require Import Aurora.C02.Model Aurora.C02.Spec Aurora.C02.Stream Aurora.C02.Proofs.
Require Import Aurora.C07.Model Aurora.C07.Slices Aurora.C07.Proofs Aurora.C07.Main.
Require Import Aurora.C01.Model Aurora.C01.Proofs Aurora.C01.Main.
Require Import Aurora.C01.Pipe Aurora.C01.PipeSim Aurora.C01.PipeFeed Aurora.C01.PipeMain Aurora.C01.PipeSem
               Aurora.C01.EncStore Aurora.C01.PipeFinal.
Require Aurora.C08.Model Aurora.C08.ProofsArith Aurora.C08.ProofsEnc Aurora.C08.ProofsTop.
Local Open Scope Z_scope.

Module E := Aurora.C08.Model.

(** C08 and C02 define the same little-endian encoding *)
Lemma le_bytes_same k : forall x, E.le_bytes k x = le_bytes k x.
Proof. induction k as [|k IH]; intros x; cbn [E.le_bytes le_bytes]; [reflexivity|]. now rewrite IH. Qed.
Lemma le64_same x : E.le64 x = le64 x.
Proof. apply le_bytes_same. Qed.

(** the joiner's view of a plain chunk *)
Lemma chunk_got_plain (S0 : N) payload : (S0 < 2 ^ 63)%N ->
  chunk_got (le64 S0 ++ payload) = GOk (Z.of_N S0) (of_list payload).
Proof.
  intros HS. unfold chunk_got. rewrite app_length, le64_length.
  replace (Nat.ltb (8 + length payload) 8) with false by (symmetry; apply Nat.ltb_ge; lia).
  rewrite firstn_app, le64_length, Nat.sub_diag, firstn_O, app_nil_r.
  rewrite firstn_all2 by (rewrite le64_length; lia).
  rewrite skipn_app, le64_length, Nat.sub_diag, skipn_O.
  rewrite (skipn_all2 (le64 S0)) by (rewrite le64_length; lia). cbn [app].
  rewrite le_decode_le64. unfold u64. rewrite N.mod_small by lia. rewrite i64_small by lia. reflexivity.
Qed.

Lemma node_payload_len (LA : list entry) rl : Forall (fun e => length (e_ref e) = rl) LA ->
  length (concat (map e_ref LA)) = (length LA * rl)%nat.
Proof. induction 1 as [|e LA He _ IH]; cbn [map concat length]; [reflexivity|]. rewrite app_length, IH, He. lia. Qed.

(** * the plain stage *)
Section Plain.
  Variable H : bytes -> bytes.
  Variable Hk : bytes -> bytes.
  Variables chunk refsize : N.
  Variable cs b hs : nat.
  Hypothesis Hrl0 : (0 < hs)%nat.
  Hypothesis Hb : (2 <= b)%nat.
  Hypothesis Hbdef : Z.of_nat b = Z.of_nat cs / Z.of_nat hs.
  Hypothesis Hlen : forall x, length (H x) = hs.

  Definition getP (LOG : list bytes) : bytes -> got := get_dec Hk chunk refsize hs (store_of_log H LOG).

  Lemma getP_hash LOG x : NoCollision H LOG -> In x LOG -> getP LOG (H x) = chunk_got x.
  Proof.
    intros Hnc Hin. unfold getP, get_dec. rewrite Hlen, Nat.eqb_refl. unfold get_of_store.
    rewrite (lookup_store_gen H LOG Hnc LOG x (fun q Hq => Hq) Hin Hin). reflexivity.
  Qed.

  Theorem plain_read_back segs :
    (len (concat segs) + Z.of_nat cs + 8 < 2 ^ 63) ->
    (length (chunks_of cs (concat segs)) <= b ^ 7)%nat ->
    exists u, pupload (plain_stage H) cs b hs segs = Ok u /\ u_rets u = seg_lens segs /\
      (NoCollision H (u_log u) ->
       exists j, joiner_new (getP (u_log u)) (u_root u) = Some j /\ j_off j = 0
                 /\ stored (getP (u_log u)) (Z.of_nat cs) (Z.of_nat hs) j (concat segs)).
  Proof.
    intros H63 Hcap.
    assert (Hcs63 : Z.of_nat cs < 2 ^ 63) by lia.
    apply (pread_back (plain_stage H) cs b hs Hrl0 Hb Hbdef) with (Good := NoCollision H); [ | | | | | exact H63 | exact Hcap].
    - intros c d st rk Hst. unfold plain_stage in Hst. destruct (Nat.ltb (length d) 8); [discriminate|].
      injection Hst as _ <-. apply Hlen.
    - intros c LA _ _. unfold plain_stage, node_payload. rewrite app_length, le64_length.
      replace (Nat.ltb (8 + _) 8) with false by (symmetry; apply Nat.ltb_ge; lia). eauto.
    - intros c d _. unfold plain_stage, leaf_chunk. rewrite app_length, le64_length.
      replace (Nat.ltb (8 + _) 8) with false by (symmetry; apply Nat.ltb_ge; lia). eauto.
    - intros LOG Hnc c d st rk Hd Hst Hin. unfold plain_stage, leaf_chunk in Hst.
      rewrite app_length, le64_length in Hst.
      replace (Nat.ltb (8 + length d) 8) with false in Hst by (symmetry; apply Nat.ltb_ge; lia).
      assert (Hs1 : st = le64 (N.of_nat (length d)) ++ d) by congruence.
      assert (Hs2 : rk = H (le64 (N.of_nat (length d)) ++ d)) by congruence. subst st rk. clear Hst.
      rewrite (getP_hash LOG _ Hnc Hin).
      pose proof (Hcs0 cs b hs Hrl0 Hb Hbdef) as Hcs.
      rewrite chunk_got_plain by (change (2 ^ 63)%N with 9223372036854775808%N; lia). f_equal. lia.
    - intros LOG Hnc c LA st rk m' S0 _ _ HS _ HS63 Hst Hin. unfold plain_stage, node_payload in Hst.
      rewrite app_length, le64_length in Hst.
      replace (Nat.ltb (8 + _) 8) with false in Hst by (symmetry; apply Nat.ltb_ge; lia).
      assert (Hs1 : st = le64 (sum_spans LA) ++ concat (map e_ref LA)) by congruence.
      assert (Hs2 : rk = H (le64 (sum_spans LA) ++ concat (map e_ref LA))) by congruence. subst st rk. clear Hst.
      rewrite (getP_hash LOG _ Hnc Hin).
      rewrite chunk_got_plain by (change (2 ^ 63)%N with 9223372036854775808%N; lia).
      now rewrite HS.
  Qed.
End Plain.

(** * arithmetic: the number of references the decrypting store recovers from a span *)
Section RootRefs.
  Local Open Scope N_scope.
  Variables chunk branching : N.
  Hypothesis Hc : 2 <= chunk.
  Hypothesis Hb : 2 <= branching.

  Lemma root_refs_bounds (m : nat) (r S0 : N) :
    2 <= r <= branching -> (r - 1) * (chunk * branching ^ N.of_nat m) < S0 <= r * (chunk * branching ^ N.of_nat m) ->
    S0 < E.W64 -> E.root_refs chunk branching S0 = Some r.
  Proof.
    intros Hr HS Hw.
    assert (Hpp : 0 < branching ^ N.of_nat m) by (apply N.neq_0_lt_0, N.pow_nonzero; lia).
    remember (chunk * branching ^ N.of_nat m) as Bm eqn:EBm.
    assert (HBm : chunk <= Bm) by (rewrite EBm; nia).
    assert (Hgt : chunk < S0) by nia.
    rewrite (C08.ProofsArith.root_refs_is_closed chunk branching Hc Hb S0 Hgt Hw).
    f_equal. unfold E.root_refs_closed, E.height.
    assert (Hfuel : S0 <= chunk * branching ^ N.of_nat 64).
    { assert (E.W64 <= branching ^ N.of_nat 64).
      { change E.W64 with (2 ^ N.of_nat 64). apply N.pow_le_mono_l. exact Hb. }
      assert (1 * branching ^ N.of_nat 64 <= chunk * branching ^ N.of_nat 64) by (apply N.mul_le_mono_r; lia). lia. }
    destruct (C08.ProofsArith.height_from_spec chunk branching Hc Hb 64 chunk S0 ltac:(lia) Hfuel) as [Hh1 Hh2].
    set (h := E.height_from 64 branching chunk S0) in *.
    assert (Hpow : forall a c : nat, (a <= c)%nat -> chunk * branching ^ N.of_nat a <= chunk * branching ^ N.of_nat c).
    { intros a c Hac. apply N.mul_le_mono_l. apply N.pow_le_mono_r; lia. }
    assert (Hsucc : chunk * branching ^ N.of_nat (S m) = Bm * branching).
    { rewrite Nat2N.inj_succ, N.pow_succ_r', EBm. lia. }
    assert (Hh : h = S m).
    { destruct (Nat.lt_trichotomy h (S m)) as [Hlt|[Heq|Hgt']]; [|exact Heq|].
      - pose proof (Hpow h m ltac:(lia)) as Hpw. rewrite <- EBm in Hpw. nia.
      - specialize (Hh2 (S m) Hgt'). rewrite Hsucc in Hh2. nia. }
    rewrite Hh. replace (S m - 1)%nat with m by lia. rewrite <- EBm.
    apply N.le_antisymm.
    - apply (C08.ProofsArith.cdiv_le_iff S0 Bm r); lia.
    - destruct (N.le_gt_cases r (E.cdiv S0 Bm)) as [Hle|Hlt]; [exact Hle|].
      assert (Hc1 : E.cdiv S0 Bm <= r - 1) by lia.
      apply (C08.ProofsArith.cdiv_le_iff S0 Bm (r - 1)) in Hc1; lia.
  Qed.
End RootRefs.

(** * the encrypted stage *)
Section Encrypted.
  Variable Hc Hk : bytes -> bytes.            (* chunk hash, keystream hash *)
  Variables chunk branching refsize : N.
  Variable hs kl : nat.                        (* boson.HashSize, encryption.KeyLength *)
  Variable keys : nat -> bytes.
  Variable pads : nat -> nat -> N.
  Hypothesis Hchunk : (chunk = refsize * branching)%N.
  Hypothesis Hbr : (2 <= branching)%N.
  Hypothesis Hcw : (2 * chunk <= E.W64)%N.
  Hypothesis Hrs : N.to_nat refsize = (hs + kl)%nat.
  Hypothesis Hhs : (0 < hs)%nat.
  Hypothesis Hkl : (0 < kl)%nat.
  Hypothesis Hkeys : forall n, length (keys n) = kl.
  Hypothesis HHk : forall x, (kl <= length (Hk x))%nat.
  Hypothesis HHc : forall x, length (Hc x) = hs.

  Notation cs := (N.to_nat chunk).
  Notation b := (N.to_nat branching).
  Notation refLen := (N.to_nat refsize).
  Notation stage := (enc_stage Hc Hk chunk refsize keys pads).

  Lemma Hrs1 : (1 <= refsize)%N. Proof. lia. Qed.
  Lemma Hc2 : (2 <= chunk)%N. Proof. pose proof Hrs1. nia. Qed.
  Lemma Hbdef_enc : Z.of_nat b = Z.of_nat cs / Z.of_nat refLen.
  Proof.
    rewrite Hchunk. replace (Z.of_nat (N.to_nat (refsize * branching))) with (Z.of_nat b * Z.of_nat refLen) by lia.
    rewrite Z.div_mul; lia.
  Qed.

  Definition getE (LOG : list bytes) : bytes -> got := get_dec Hk chunk refsize hs (store_of_log Hc LOG).

  (** EncryptChunk succeeds on every chunk whose payload fits *)
  Lemma enc_total key (span payload : bytes) pad : length key = kl ->
    length span = 8%nat -> (length payload <= cs)%nat ->
    exists stored, E.encrypt_chunk_stored Hk chunk refsize key (span ++ payload) pad = E.Ok stored
                   /\ length stored = (8 + cs)%nat.
  Proof.
    intros Hkey Hs Hp.
    assert (F8 : firstn 8 (span ++ payload) = span).
    { rewrite firstn_app, firstn_all2 by lia. replace (8 - length span)%nat with O by lia. cbn. apply app_nil_r. }
    assert (S8 : skipn 8 (span ++ payload) = payload).
    { rewrite skipn_app, skipn_all2 by lia. replace (8 - length span)%nat with O by lia. reflexivity. }
    destruct (C08.ProofsEnc.enc_roundtrip Hk (E.span_enc chunk refsize key) ltac:(cbn; lia) ltac:(cbn; intros; rewrite Hkey; apply HHk) span pad)
      as (es & e1 & Ees & Les & _). { left. cbn. lia. }
    destruct (C08.ProofsEnc.enc_roundtrip Hk (E.data_enc chunk key) ltac:(cbn; lia) ltac:(cbn; intros; rewrite Hkey; apply HHk) payload pad)
      as (ed & e3 & Eed & Led & _). { right. cbn. lia. }
    exists (es ++ ed). unfold E.encrypt_chunk_stored, E.encrypt_chunk.
    replace (Nat.ltb (length (span ++ payload)) 8) with false by (symmetry; apply Nat.ltb_ge; rewrite app_length; lia).
    rewrite F8, S8, Ees, Eed. split; [reflexivity|]. rewrite app_length, Les, Led.
    unfold C08.ProofsEnc.out_len. cbn [E.span_enc E.data_enc E.e_padding].
    pose proof Hc2. destruct (Z.ltb_spec 0 (Z.of_N chunk)); cbn; lia.
  Qed.

  Lemma stage_of_stored c d stored : E.encrypt_chunk_stored Hk chunk refsize (keys c) d (pads c) = E.Ok stored ->
    length stored = (8 + cs)%nat -> stage c d = Ok (stored, Hc stored ++ keys c).
  Proof.
    intros He Hl. unfold enc_stage. rewrite He. cbn [of_c08]. rewrite Hl.
    replace (Nat.ltb (8 + cs) 8) with false by (symmetry; apply Nat.ltb_ge; lia). reflexivity.
  Qed.

  Lemma stage_inv c d st rk : stage c d = Ok (st, rk) ->
    E.encrypt_chunk_stored Hk chunk refsize (keys c) d (pads c) = E.Ok st /\ rk = Hc st ++ keys c.
  Proof.
    unfold enc_stage. destruct (E.encrypt_chunk_stored Hk chunk refsize (keys c) d (pads c)) as [s| | |]; cbn [of_c08]; try discriminate.
    destruct (Nat.ltb (length s) 8); [discriminate|]. intros Heq. injection Heq as <- <-. now split.
  Qed.

  (** fetching the reference of a stored chunk gives its plain form back *)
  Lemma getE_ref LOG c st plain : NoCollision Hc LOG -> In st LOG ->
    E.decrypt_chunk_data Hk chunk refsize st (keys c) = E.Ok plain ->
    getE LOG (Hc st ++ keys c) = chunk_got plain.
  Proof.
    intros Hnc Hin Hdec. unfold getE, get_dec. rewrite app_length, HHc, Hkeys.
    replace (Nat.eqb (hs + kl) hs) with false by (symmetry; apply Nat.eqb_neq; lia).
    rewrite Hrs, Nat.eqb_refl.
    rewrite firstn_app, HHc, Nat.sub_diag, firstn_O, app_nil_r, firstn_all2 by (rewrite HHc; lia).
    rewrite (lookup_store_gen Hc LOG Hnc LOG st (fun q Hq => Hq) Hin Hin).
    rewrite skipn_app, HHc, Nat.sub_diag, skipn_O, (skipn_all2 (Hc st)) by (rewrite HHc; lia). cbn [app].
    rewrite Hdec. reflexivity.
  Qed.

  Theorem enc_read_back segs :
    (len (concat segs) + Z.of_nat cs + 8 < 2 ^ 63) ->
    (length (chunks_of cs (concat segs)) <= b ^ 7)%nat ->
    exists u, pupload stage cs b refLen segs = Ok u /\ u_rets u = seg_lens segs /\
      (NoCollision Hc (u_log u) ->
       exists j, joiner_new (getE (u_log u)) (u_root u) = Some j /\ j_off j = 0
                 /\ stored (getE (u_log u)) (Z.of_nat cs) (Z.of_nat refLen) j (concat segs)).
  Proof.
    pose proof Hc2 as Hc2'. pose proof Hrs1 as Hrs1'.
    assert (Hcw' : (2 * chunk <= 18446744073709551616)%N) by exact Hcw.
    intros H63 Hcap. assert (Hcs63 : Z.of_nat cs < 2 ^ 63) by lia.
    apply (pread_back stage cs b refLen ltac:(lia) ltac:(lia) Hbdef_enc) with (Good := NoCollision Hc); [ | | | | | exact H63 | exact Hcap].
    - intros c d st rk Hst. destruct (stage_inv c d st rk Hst) as [_ ->]. rewrite app_length, HHc, Hkeys. lia.
    - intros c LA Hl Hf. unfold node_payload.
      assert (Hrefs : Forall (fun e => length (e_ref e) = refLen) LA) by (eapply Forall_impl; [|exact Hf]; now intros ? []).
      destruct (enc_total (keys c) (le64 (sum_spans LA)) (concat (map e_ref LA)) (pads c) (Hkeys c) (le64_length _))
        as (stored & He & Hls).
      { rewrite (node_payload_len LA refLen Hrefs). rewrite Hchunk. nia. }
      eexists _, _. exact (stage_of_stored c _ stored He Hls).
    - intros c d Hd. unfold leaf_chunk.
      destruct (enc_total (keys c) (le64 (N.of_nat (length d))) d (pads c) (Hkeys c) (le64_length _) Hd) as (stored & He & Hls).
      eexists _, _. exact (stage_of_stored c _ stored He Hls).
    - (* leaf chunks come back *)
      intros LOG Hnc c d st rk Hd Hst Hin. destruct (stage_inv c _ st rk Hst) as [He ->].
      destruct (C08.ProofsTop.chunk_restored Hk chunk branching refsize Hchunk Hbr Hrs1' Hcw (keys c)
                  (N.of_nat (length d)) d (pads c)) as (stored & He' & _ & Hdec).
      { rewrite Hkeys; lia. } { intros; rewrite Hkeys; apply HHk. } { left. split; [reflexivity | lia]. }
      unfold leaf_chunk in He. rewrite le64_same in He', Hdec. rewrite He in He'. injection He' as <-.
      rewrite (getE_ref LOG c st _ Hnc Hin Hdec).
      rewrite chunk_got_plain by (change (2 ^ 63)%N with 9223372036854775808%N; lia).
      f_equal. lia.
    - (* intermediate chunks come back *)
      intros LOG Hnc c LA st rk m' S0 Hl Hrefs HS Hbnd HS63 Hst Hin. destruct (stage_inv c _ st rk Hst) as [He ->].
      set (SN := sum_spans LA) in *.
      assert (HB : Bsz (Z.of_nat cs) (Z.of_nat refLen) m' = Z.of_N (chunk * branching ^ N.of_nat m')).
      { unfold Bsz. rewrite <- Hbdef_enc. rewrite N2Z.inj_mul, N2Z.inj_pow. f_equal; [lia|]. f_equal; lia. }
      rewrite HB in Hbnd.
      assert (Hroot : E.root_refs chunk branching SN = Some (N.of_nat (length LA))).
      { apply (root_refs_bounds chunk branching Hc2' Hbr m'); [lia | | change E.W64 with 18446744073709551616%N; lia].
        split; [|lia]. replace (N.of_nat (length LA) - 1)%N with (N.of_nat (length LA - 1)) by lia. lia. }
      assert (Hgt : (chunk < SN)%N).
      { assert (0 < branching ^ N.of_nat m')%N by (apply N.neq_0_lt_0, N.pow_nonzero; lia). nia. }
      destruct (C08.ProofsTop.chunk_restored Hk chunk branching refsize Hchunk Hbr Hrs1' Hcw (keys c)
                  SN (concat (map e_ref LA)) (pads c)) as (stored & He' & _ & Hdec).
      { rewrite Hkeys; lia. } { intros; rewrite Hkeys; apply HHk. }
      { right. split; [exact Hgt|]. split; [change E.W64 with 18446744073709551616%N; lia|].
        exists (N.of_nat (length LA)). split; [exact Hroot|]. rewrite (node_payload_len LA refLen Hrefs). lia. }
      unfold node_payload in He. fold SN in He. rewrite le64_same in He', Hdec. rewrite He in He'. injection He' as <-.
      rewrite (getE_ref LOG c st _ Hnc Hin Hdec).
      rewrite chunk_got_plain by (change (2 ^ 63)%N with 9223372036854775808%N; lia). now rewrite HS.
  Qed.
End Encrypted.
