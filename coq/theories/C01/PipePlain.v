(** C01 — with the plain stage, the parametric pipeline of [Pipe.v] is exactly
    the pipeline model of C02/Model.v. *)
From Coq Require Import List NArith ZArith Bool Lia Arith.
Import ListNotations.
Require Import Aurora.C02.Model Aurora.C02.Proofs Aurora.C01.Pipe.

Section PlainEq.
  Variable H : bytes -> bytes.
  Variable cs b refLen : nat.
  Notation st := (plain_stage H).

  Lemma plain_stage_node c (L : list entry) : st c (node_payload L) = Ok (node_payload L, H (node_payload L)).
  Proof.
    unfold plain_stage, node_payload. rewrite app_length, le64_length.
    replace (Nat.ltb (8 + _) 8) with false by (symmetry; apply Nat.ltb_ge; lia). reflexivity.
  Qed.

  Lemma pwtl_plain : forall ls c e,
    pwrite_to_level st b c ls e = write_to_level (node_entry H) node_payload b ls e.
  Proof.
    induction ls as [|L rest IH]; intros c e; [reflexivity|]. cbn [pwrite_to_level write_to_level].
    destruct (Nat.eqb (length (L ++ [e])) b); [|reflexivity].
    destruct rest as [|L2 r2]; [reflexivity|]. rewrite plain_stage_node, IH. reflexivity.
  Qed.

  Lemma pwrap_plain c L rest : pwrap_level st b c L rest = wrap_level (node_entry H) node_payload b L rest.
  Proof. unfold pwrap_level, wrap_level. destruct rest; [reflexivity|]. now rewrite plain_stage_node, pwtl_plain. Qed.

  Lemma psum_plain : forall n c ls, psum_loop st b n c ls = sum_loop (node_entry H) node_payload b n ls.
  Proof.
    induction n as [|n IH]; intros c ls; [reflexivity|]. cbn [psum_loop sum_loop].
    destruct ls as [|L [|L2 r2]]; try reflexivity.
    destruct (Nat.eqb (length L) 0); [apply IH|].
    destruct (negb (Nat.eqb (length L) b) && Nat.eqb (length L) 1); [apply IH|].
    rewrite pwrap_plain. destruct (wrap_level _ _ _ _ _) as [[[ls' lg] fl]|]; [|reflexivity]. now rewrite IH.
  Qed.

  Lemma pchain_plain t span rk : ptrie_chain_write st b refLen t span rk = trie_chain_write H b refLen t span rk.
  Proof. unfold ptrie_chain_write, trie_chain_write. now rewrite pwtl_plain. Qed.

  Lemma ptrie_sum_plain t : ptrie_sum st b t = trie_sum H b t.
  Proof. unfold ptrie_sum, trie_sum. now rewrite psum_plain. Qed.

  Lemma pstage_plain t span data : pstage_write st b refLen t span data = stage_write H b refLen t span data.
  Proof.
    unfold pstage_write, stage_write, plain_stage. destruct (Nat.ltb (length data) 8); [reflexivity|]. apply pchain_plain.
  Qed.

  Lemma pfeed_loop_plain : forall fuel dpre buf rest w t,
    pfeed_loop st cs b refLen fuel dpre buf rest w t = feed_loop H cs b refLen fuel dpre buf rest w t.
  Proof.
    induction fuel as [|fuel IH]; intros dpre buf rest w t; destruct rest as [|r0 rest']; try reflexivity.
    cbn [pfeed_loop feed_loop]. destruct (Nat.ltb _ cs); [reflexivity|]. rewrite pstage_plain.
    destruct (stage_write _ _ _ _ _ _); [apply IH | reflexivity].
  Qed.

  Lemma pfeeder_write_plain f bs : pfeeder_write st cs b refLen f bs = feeder_write H cs b refLen f bs.
  Proof. unfold pfeeder_write, feeder_write. now rewrite pfeed_loop_plain. Qed.

  Lemma pfeeder_sum_plain f : pfeeder_sum st b refLen f = feeder_sum H b refLen f.
  Proof.
    unfold pfeeder_sum, feeder_sum. rewrite !pstage_plain.
    destruct (Nat.ltb 0 (length (f_buf f))).
    - destruct (stage_write _ _ _ _ _ _) as [t|]; [|reflexivity].
      destruct (_ =? 0)%Z; [rewrite pstage_plain; destruct (stage_write _ _ _ _ _ _)|]; try reflexivity; apply ptrie_sum_plain.
    - destruct (_ =? 0)%Z; [rewrite pstage_plain; destruct (stage_write _ _ _ _ _ _)|]; try reflexivity; apply ptrie_sum_plain.
  Qed.

  Lemma pfeed_all_plain : forall segs f rets, pfeed_all st cs b refLen f segs rets = feed_all H cs b refLen f segs rets.
  Proof.
    induction segs as [|s segs IH]; intros f rets; [reflexivity|]. cbn [pfeed_all feed_all].
    rewrite pfeeder_write_plain. destruct (feeder_write _ _ _ _ _ _) as [[f' r]|]; [apply IH | reflexivity].
  Qed.

  Theorem pupload_plain segs : pupload st cs b refLen segs = upload H cs b refLen segs.
  Proof.
    unfold pupload, upload. rewrite pfeed_all_plain. destruct (feed_all _ _ _ _ _ _ _) as [[f rets]|]; [|reflexivity].
    now rewrite pfeeder_sum_plain.
  Qed.
End PlainEq.
