(** C01 — upload through [Pipe.v] and open the returned reference, for any
    chunk stage whose chunks can be fetched back; then the two stages of the
    code: plain and encrypted. *)
From Coq Require Import List NArith ZArith Bool Lia Arith.
From Coq Require Import ZifyBool ZifyNat ZifyN.
Import ListNotations.
Require Import Aurora.Base.Corr.
Require Import Aurora.C02.Model Aurora.C02.Spec Aurora.C02.Stream Aurora.C02.Proofs.
Require Import Aurora.C07.Model Aurora.C07.Slices Aurora.C07.Proofs Aurora.C07.Main.
Require Import Aurora.C01.Model Aurora.C01.Proofs Aurora.C01.Main.
Require Import Aurora.C01.Pipe Aurora.C01.PipeSim Aurora.C01.PipeFeed Aurora.C01.PipeMain Aurora.C01.PipeSem Aurora.C01.EncStore.
Require Aurora.C08.Model Aurora.C08.ProofsArith Aurora.C08.ProofsEnc Aurora.C08.ProofsTop.
Local Open Scope Z_scope.

(** the specification tree of a content is well formed and spans the content *)
Lemma spec_tree_wf cs b refLen : (0 < refLen)%nat -> (2 <= b)%nat -> Z.of_nat b = Z.of_nat cs / Z.of_nat refLen ->
  forall data tr, (length (chunks_of cs data) <= b ^ 7)%nat ->
  iter_level (@Node) b 7 (map Leaf (chunks_of cs data)) = [tr] ->
  wf cs b refLen 7 tr /\ tree_data tr = data.
Proof.
  intros Hrl Hb Hbdef data tr Hcap Hit.
  pose proof (Hcs0 cs b refLen Hrl Hb Hbdef) as Hcs.
  split.
  - assert (Hcase : data = [] \/ data <> []) by (destruct data; [now left | right; discriminate]).
    destruct Hcase as [-> | Hne].
    + cbn [chunks_of map] in Hit. rewrite iter_level_single in Hit by exact Hb. injection Hit as <-.
      do 7 apply wf_mono. exists []. split; [reflexivity | cbn; lia].
    + set (H0 := fun _ : bytes => repeat 0%N refLen).
      assert (Hlen0 : forall x, length (H0 x) = refLen) by (intros; apply repeat_length).
      set (leaves := map Leaf (chunks_of cs data)) in *.
      destruct (iter_level_ok H0 cs b refLen Hrl Hb Hbdef Hlen0 7 0 leaves
                  (flat_map (tree_chunks H0) leaves ++ spec_log (@Node) (tree_emit H0) b 7 leaves)) as [Hok _].
      * now apply (leaves_level_ok H0).
      * intros t Ht c Hc. apply in_or_app. left. apply in_flat_map. now exists t.
      * intros p Hp. apply in_or_app. now right.
      * rewrite Hit in Hok. destruct Hok as (front & last & Hfl & _ & Hwl & _).
        destruct front as [|f0 front']; [|destruct front'; discriminate]. injection Hfl as <-. exact Hwl.
  - pose proof (iter_level_data b 7 ltac:(lia) (map Leaf (chunks_of cs data))) as Hd. rewrite Hit in Hd.
    cbn [flat_map] in Hd. rewrite app_nil_r in Hd. rewrite Hd. now apply leaves_data.
Qed.

Section Final.
  Variable stage : nat -> bytes -> res (bytes * bytes).
  Variable cs b refLen : nat.
  Hypothesis Hrl0 : (0 < refLen)%nat.
  Hypothesis Hb : (2 <= b)%nat.
  Hypothesis Hbdef : Z.of_nat b = Z.of_nat cs / Z.of_nat refLen.
  Notation csz := (Z.of_nat cs).
  Notation rlz := (Z.of_nat refLen).
  Notation B := (Bsz csz rlz).

  Hypothesis Hs_len : forall c d st rk, stage c d = Ok (st, rk) -> length rk = refLen.
  Hypothesis Hs_tot : forall c (LA : list entry), (2 <= length LA <= b)%nat ->
    Forall (fun e => length (e_ref e) = refLen /\ length (e_span e) = 8%nat) LA ->
    exists st rk, stage c (node_payload LA) = Ok (st, rk).
  Hypothesis Hs_leaf : forall c d, (length d <= cs)%nat -> exists st rk, stage c (leaf_chunk d) = Ok (st, rk).

  (** the getter over a store, and when the store is good (no collision) *)
  Variable getD : list bytes -> bytes -> got.
  Variable Good : list bytes -> Prop.
  Hypothesis Hget_leaf : forall LOG, Good LOG -> forall c d st rk, (length d <= cs)%nat ->
    stage c (leaf_chunk d) = Ok (st, rk) -> In st LOG -> getD LOG rk = GOk (len d) (of_list d).
  Hypothesis Hget_node : forall LOG, Good LOG -> forall c (LA : list entry) st rk m' (S : Z),
    (2 <= length LA <= b)%nat -> Forall (fun e => length (e_ref e) = refLen) LA ->
    Z.of_N (sum_spans LA) = S -> (len LA - 1) * B m' < S <= len LA * B m' -> S < 2 ^ 63 ->
    stage c (node_payload LA) = Ok (st, rk) -> In st LOG ->
    getD LOG rk = GOk S (of_list (concat (map e_ref LA))).

  Theorem pread_back segs :
    (len (concat segs) + csz + 8 < 2 ^ 63) ->
    (length (chunks_of cs (concat segs)) <= b ^ 7)%nat ->
    exists u, pupload stage cs b refLen segs = Ok u /\ u_rets u = seg_lens segs /\
      (Good (u_log u) ->
       exists j, joiner_new (getD (u_log u)) (u_root u) = Some j /\ j_off j = 0
                 /\ stored (getD (u_log u)) csz rlz j (concat segs)).
  Proof.
    intros H63 Hcap.
    destruct (pupload_rel stage cs b refLen Hrl0 Hb Hbdef Hs_len Hs_tot Hs_leaf (fun _ _ => True) []
                ltac:(intros; exact I) ltac:(intros; exact I) segs H63 Hcap) as (u & _ & _ & Hu & _ & Hrets & _).
    exists u. split; [exact Hu|]. split; [exact Hrets|]. intros Hgood.
    assert (HstepS : forall c LA LB st rk, Forall2 (R0 refLen) LA LB ->
              Forall2 (Rsem cs b refLen (getD (u_log u))) LA LB -> (2 <= length LA)%nat ->
              stage c (node_payload LA) = Ok (st, rk) -> In st (u_log u) ->
              Rsem cs b refLen (getD (u_log u)) (mkE (le64 (sum_spans LA)) rk) (Node LB)).
    { intros. eapply (Rsem_node stage cs b refLen);
        first [eassumption | apply (Hget_leaf _ Hgood) | apply (Hget_node _ Hgood)]. }
    assert (HleafS : forall c d st rk, (length d <= cs)%nat ->
              stage c (leaf_chunk d) = Ok (st, rk) -> In st (u_log u) ->
              Rsem cs b refLen (getD (u_log u)) (mkE (le64 (N.of_nat (length d))) rk) (Leaf d)).
    { intros. eapply (Rsem_leaf stage cs b refLen);
        first [eassumption | apply (Hget_leaf _ Hgood) | apply (Hget_node _ Hgood)]. }
    destruct (pupload_rel stage cs b refLen Hrl0 Hb Hbdef Hs_len Hs_tot Hs_leaf
                (Rsem cs b refLen (getD (u_log u))) (u_log u) HstepS HleafS
                segs H63 Hcap) as (u' & eA & tr & Hu' & Hroot & _ & Hit & _ & HR).
    rewrite Hu in Hu'. injection Hu' as <-.
    destruct (HR ltac:(auto)) as (payload & Hp).
    destruct (spec_tree_wf cs b refLen Hrl0 Hb Hbdef (concat segs) tr Hcap Hit) as [Hwf Hdata].
    destruct (Hp 7%nat Hwf ltac:(rewrite Hdata; lia)) as [Hg Hr].
    exists (mkJ (len (tree_data tr)) (of_list payload) 0). unfold joiner_new. rewrite Hroot, Hg.
    split; [reflexivity|]. split; [reflexivity|]. rewrite <- Hdata.
    split; [exists 7%nat; exact Hr | cbn [j_span]; rewrite Hdata; lia].
  Qed.
End Final.
