(** C01 — property theorems: what was written through the upload pipeline
    (model C02) is read back by the joiner (model C07) through the store the
    upload filled.  [H] is any chunk hash with outputs of the reference length;
    the only hypothesis about it is the decidable [NoCollision] among the chunks
    this very upload wrote (otherwise an explicit collision H p = H q, p <> q,
    exists among them).

    Encrypted uploads: [Pipe.pupload] is the same feeder and hash-trie writer
    with the chunk stage as a parameter ([PipePlain.pupload_plain]: with the plain
    stage it IS C02's [upload]); [enc_stage] is EncryptChunk (C08/Model.v) with the
    n-th random key and padding as oracles, then hash and Put; the joiner reads
    through [get_dec], the decrypting store of C08.  Theorems quantify over all
    key and padding oracles and over both hashes. *)
From Coq Require Import List NArith ZArith Bool Lia.
Import ListNotations.
Require Import Aurora.Consts Aurora.C02.Model Aurora.C02.Spec Aurora.C07.Model Aurora.C07.Slices Aurora.C07.Proofs Aurora.C07.Main.
Require Import Aurora.C01.Model Aurora.C01.Proofs Aurora.C01.Main.
Require Import Aurora.C02.Proofs Aurora.C01.Pipe Aurora.C01.EncStore Aurora.C01.EncMain.
Require Aurora.C02.Main Aurora.C08.Model.
Local Open Scope Z_scope.

Lemma consts_ok_C01 : consts_ok_C01_b = true.
Proof. vm_compute. reflexivity. Qed.

(** for every chunk size, reference length, branching = cs/refLen >= 2, every content and
    every split of the writes: the upload succeeds, and opening the returned reference
    gives a joiner positioned at 0 on a well-formed stored tree for exactly the bytes
    written — so that every theorem of C07 (Size, ReadAt at any offset into any
    buffer, sequential Read, Seek) applies to it with [data = concat segs] *)
Theorem C01_read_back : forall (H : bytes -> bytes) (cs b refLen : nat),
  (0 < refLen)%nat -> (2 <= b)%nat -> Z.of_nat b = Z.of_nat cs / Z.of_nat refLen ->
  (forall x, length (H x) = refLen) ->
  forall segs : list bytes,
  (len (concat segs) + Z.of_nat cs + 8 < 2 ^ 63) ->
  (length (chunks_of cs (concat segs)) <= b ^ 7)%nat ->
  exists u, upload H cs b refLen segs = Ok u /\
    (NoCollision H (u_log u) ->
     exists j, upload_and_open H cs b refLen segs = Some (store_of_log H (u_log u), j)
       /\ j_off j = 0
       /\ stored (get_of_store (store_of_log H (u_log u))) (Z.of_nat cs) (Z.of_nat refLen) j (concat segs)).
Proof. exact read_back. Qed.
Print Assumptions C01_read_back.

(** spelled out: the reported size is the content length and one ReadAt over a buffer
    of that length returns the content, byte for byte *)
Theorem C01_round_trip : forall (H : bytes -> bytes) (cs b refLen : nat),
  (0 < refLen)%nat -> (2 <= b)%nat -> Z.of_nat b = Z.of_nat cs / Z.of_nat refLen ->
  (forall x, length (H x) = refLen) ->
  forall segs : list bytes,
  (len (concat segs) + Z.of_nat cs + 8 < 2 ^ 63) ->
  (length (chunks_of cs (concat segs)) <= b ^ 7)%nat ->
  exists u, upload H cs b refLen segs = Ok u /\
    (NoCollision H (u_log u) ->
     exists st j, upload_and_open H cs b refLen segs = Some (st, j)
       /\ j_span j = len (concat segs)
       /\ (forall buf, len buf = len (concat segs) ->
           exists ws, read_at (get_of_store st) (Z.of_nat cs) (Z.of_nat refLen) j (len buf) (len buf) 0
                        = (len (concat segs), ws, if len (concat segs) =? 0 then REOF else RNil)
                      /\ apply_writes buf ws = concat segs)).
Proof. exact round_trip. Qed.
Print Assumptions C01_round_trip.

(** at the constants of the Go source, every content below 2^63 - 262152 bytes *)
Theorem C01_at_source_constants :
  forall (H : bytes -> bytes), (forall x, length (H x) = C02.Main.HashSize) ->
  forall segs : list bytes,
  (len (concat segs) < 2 ^ 63 - 262152) ->
  exists u, upload H C02.Main.ChunkSize C02.Main.Branches C02.Main.HashSize segs = Ok u /\
    (NoCollision H (u_log u) ->
     exists j, upload_and_open H C02.Main.ChunkSize C02.Main.Branches C02.Main.HashSize segs = Some (store_of_log H (u_log u), j)
       /\ j_off j = 0
       /\ stored (get_of_store (store_of_log H (u_log u))) Consts.boson_ChunkSize Consts.boson_HashSize j (concat segs)).
Proof. exact (read_back_at_source_constants consts_ok_C01). Qed.
Print Assumptions C01_at_source_constants.

Lemma consts_ok_C01_enc : consts_ok_C01_enc_b = true.
Proof. vm_compute. reflexivity. Qed.

(** plain upload, opened the way joiner.New does it — through the decrypting store *)
Theorem C01_read_back_plain_through_decrypting_store :
  forall (H Hk : bytes -> bytes) (chunk refsize : N) (cs b hs : nat),
  (0 < hs)%nat -> (2 <= b)%nat -> Z.of_nat b = Z.of_nat cs / Z.of_nat hs ->
  (forall x, length (H x) = hs) ->
  forall segs : list bytes,
  (len (concat segs) + Z.of_nat cs + 8 < 2 ^ 63) ->
  (length (chunks_of cs (concat segs)) <= b ^ 7)%nat ->
  exists u, upload H cs b hs segs = Ok u /\
    (NoCollision H (u_log u) ->
     let get := get_dec Hk chunk refsize hs (store_of_log H (u_log u)) in
     exists j, joiner_new get (u_root u) = Some j /\ j_off j = 0
               /\ stored get (Z.of_nat cs) (Z.of_nat hs) j (concat segs)).
Proof. exact read_back_plain_dec. Qed.
Print Assumptions C01_read_back_plain_through_decrypting_store.

(** encrypted upload: for every chunk hash [Hc], keystream hash [Hk] (digest at least as
    long as the key), every key oracle and padding oracle, every chunk size = refsize *
    branching, every content and write split: the upload succeeds, every Write returns its
    length, and opening the returned (address ++ key) reference through the decrypting
    store yields a joiner at position 0 on a well-formed stored tree for exactly the
    written bytes (so all C07 theorems apply) — unless two stored chunks collide under Hc *)
Theorem C01_read_back_encrypted :
  forall (Hc Hk : bytes -> bytes) (chunk branching refsize : N) (hs kl : nat)
         (keys : nat -> bytes) (pads : nat -> nat -> N),
  (chunk = refsize * branching)%N -> (2 <= branching)%N -> (2 * chunk <= C08.Model.W64)%N ->
  N.to_nat refsize = (hs + kl)%nat -> (0 < hs)%nat -> (0 < kl)%nat ->
  (forall n, length (keys n) = kl) -> (forall x, (kl <= length (Hk x))%nat) -> (forall x, length (Hc x) = hs) ->
  forall segs : list bytes,
  (len (concat segs) + Z.of_N chunk + 8 < 2 ^ 63) ->
  (length (chunks_of (N.to_nat chunk) (concat segs)) <= N.to_nat branching ^ 7)%nat ->
  exists u, pupload (enc_stage Hc Hk chunk refsize keys pads) (N.to_nat chunk) (N.to_nat branching) (N.to_nat refsize) segs = Ok u
    /\ u_rets u = seg_lens segs /\
    (NoCollision Hc (u_log u) ->
     let get := get_dec Hk chunk refsize hs (store_of_log Hc (u_log u)) in
     exists j, joiner_new get (u_root u) = Some j /\ j_off j = 0
               /\ stored get (Z.of_N chunk) (Z.of_N refsize) j (concat segs)).
Proof. exact read_back_encrypted. Qed.
Print Assumptions C01_read_back_encrypted.

(** at the constants of the Go source: 256 KiB chunks, 64-byte references (32-byte address
    ++ 32-byte key), branching 4096 = Branches/2; every content below 2^63 - 262152 bytes *)
Theorem C01_encrypted_at_source_constants :
  forall (Hc Hk : bytes -> bytes) (keys : nat -> bytes) (pads : nat -> nat -> N),
  (forall n, length (keys n) = EKey) -> (forall x, (EKey <= length (Hk x))%nat) -> (forall x, length (Hc x) = EHash) ->
  forall segs : list bytes,
  (len (concat segs) < 2 ^ 63 - 262152) ->
  exists u, pupload (enc_stage Hc Hk EChunk ERefSize keys pads) (N.to_nat EChunk) (N.to_nat EBranches) (N.to_nat ERefSize) segs = Ok u
    /\ u_rets u = seg_lens segs /\
    (NoCollision Hc (u_log u) ->
     let get := get_dec Hk EChunk ERefSize EHash (store_of_log Hc (u_log u)) in
     exists j, joiner_new get (u_root u) = Some j /\ j_off j = 0
               /\ stored get (Z.of_N EChunk) (Z.of_N ERefSize) j (concat segs)).
Proof. exact (read_back_encrypted_at_source_constants consts_ok_C01_enc). Qed.
Print Assumptions C01_encrypted_at_source_constants.

(** non-vacuity: a toy run evaluated inside Coq (chunk size 4, 2-byte references,
    branching 2, 13 bytes in four writes, one of them empty): the hypotheses hold,
    the chunks written do not collide, and reading 6 bytes at offset 5 through the
    model joiner returns them *)
Example C01_hyps_satisfiable :
  (forall x, length (ex_H x) = 2%nat)
  /\ (len (concat ex_segs) + Z.of_nat 4 + 8 < 2 ^ 63)
  /\ (length (chunks_of 4 (concat ex_segs)) <= 2 ^ 7)%nat
  /\ match upload ex_H 4 2 2 ex_segs with
     | Ok u => nocoll_b ex_H (u_log u) = true
     | Err _ => False
     end
  /\ match upload_and_open ex_H 4 2 2 ex_segs with
     | Some (st, j) =>
         let '(n, ws, e) := read_at (get_of_store st) 4 2 j 6 6 5 in
         n = 6 /\ e = RNil /\ apply_writes (repeat 0%N 6) ws = [15;16;17;18;19;20]%N
     | None => False
     end.
Proof. vm_compute. repeat split; try reflexivity; try lia. Qed.

(** non-vacuity, encrypted: chunk 8 = refsize 4 * branching 2 (2-byte address ++ 2-byte key),
    13 bytes in three writes, keys and padding from toy oracles: the stored chunks do not
    collide, and reading 6 bytes at offset 5 through the decrypting store returns them *)
Definition ex_Hk (x : bytes) : bytes := [fold_left (fun a y => (a * 5 + y + 1) mod 256)%N x 9%N; N.of_nat (length x) mod 256; 77]%N.
Definition ex_keys (n : nat) : bytes := [N.of_nat n * 3 + 1; 200 - N.of_nat n]%N.
Definition ex_pads (n i : nat) : N := (N.of_nat (n * 7 + i) mod 256)%N.
Example C01_encrypted_hyps_satisfiable :
  let st := enc_stage ex_H ex_Hk 8 4 ex_keys ex_pads in
  (forall x, length (ex_H x) = 2%nat) /\ (forall x, (2 <= length (ex_Hk x))%nat) /\ (forall n, length (ex_keys n) = 2%nat)
  /\ match pupload st 8 2 4 ex_segs with
     | Ok u => nocoll_b ex_H (u_log u) = true /\ length (u_root u) = 4%nat /\
         match joiner_new (get_dec ex_Hk 8 4 2 (store_of_log ex_H (u_log u))) (u_root u) with
         | Some j => let '(n, ws, e) := read_at (get_dec ex_Hk 8 4 2 (store_of_log ex_H (u_log u))) 8 4 j 6 6 5 in
                     j_span j = 13 /\ n = 6 /\ e = RNil /\ apply_writes (repeat 0%N 6) ws = [15;16;17;18;19;20]%N
         | None => False
         end
     | Err _ => False
     end.
Proof. vm_compute. repeat split; try reflexivity; try lia. Qed.
