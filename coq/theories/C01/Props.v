(** C01 — property theorems: what was written through the upload pipeline
    (model C02) is read back by the joiner (model C07) through the store the
    upload filled.  [H] is any chunk hash with outputs of the reference length;
    the only hypothesis about it is the decidable [NoCollision] among the chunks
    this very upload wrote (otherwise an explicit collision H p = H q, p <> q,
    exists among them).  Encrypted uploads are not modelled (C08). *)
From Coq Require Import List NArith ZArith Bool Lia.
Import ListNotations.
Require Import Aurora.Consts Aurora.C02.Model Aurora.C02.Spec Aurora.C07.Model Aurora.C07.Slices Aurora.C07.Proofs Aurora.C07.Main.
Require Import Aurora.C01.Model Aurora.C01.Proofs Aurora.C01.Main.
Require Aurora.C02.Main.
Local Open Scope Z_scope.

Lemma consts_ok_C01 : consts_ok_C01_b = true.
Proof. vm_compute. reflexivity. Qed.

(** for every chunk size, reference length, branching = cs/refLen >= 2, every content and
    every split of the writes: the upload succeeds, and opening the returned reference
    gives a joiner positioned at 0 on a well-formed stored tree for exactly the bytes
    written — so that every theorem of C07 (Size, ReadAt at any offset into any
    buffer, sequential Read, Seek) applies to it with [data = concat segs] *)
Theorem C01_read_back : forall (H : bytes -> bytes) (cs b refLen : nat),
  (0 < refLen)%nat -> (2 <= b)%nat -> Z.of_nat b = Z.of_nat cs / Z.of_nat refLen ->
  (forall x, length (H x) = refLen) ->
  forall segs : list bytes,
  (len (concat segs) + Z.of_nat cs + 8 < 2 ^ 63) ->
  (length (chunks_of cs (concat segs)) <= b ^ 7)%nat ->
  exists u, upload H cs b refLen segs = Ok u /\
    (NoCollision H (u_log u) ->
     exists j, upload_and_open H cs b refLen segs = Some (store_of_log H (u_log u), j)
       /\ j_off j = 0
       /\ stored (get_of_store (store_of_log H (u_log u))) (Z.of_nat cs) (Z.of_nat refLen) j (concat segs)).
Proof. exact read_back. Qed.
Print Assumptions C01_read_back.

(** spelled out: the reported size is the content length and one ReadAt over a buffer
    of that length returns the content, byte for byte *)
Theorem C01_round_trip : forall (H : bytes -> bytes) (cs b refLen : nat),
  (0 < refLen)%nat -> (2 <= b)%nat -> Z.of_nat b = Z.of_nat cs / Z.of_nat refLen ->
  (forall x, length (H x) = refLen) ->
  forall segs : list bytes,
  (len (concat segs) + Z.of_nat cs + 8 < 2 ^ 63) ->
  (length (chunks_of cs (concat segs)) <= b ^ 7)%nat ->
  exists u, upload H cs b refLen segs = Ok u /\
    (NoCollision H (u_log u) ->
     exists st j, upload_and_open H cs b refLen segs = Some (st, j)
       /\ j_span j = len (concat segs)
       /\ (forall buf, len buf = len (concat segs) ->
           exists ws, read_at (get_of_store st) (Z.of_nat cs) (Z.of_nat refLen) j (len buf) (len buf) 0
                        = (len (concat segs), ws, if len (concat segs) =? 0 then REOF else RNil)
                      /\ apply_writes buf ws = concat segs)).
Proof. exact round_trip. Qed.
Print Assumptions C01_round_trip.

(** at the constants of the Go source, every content below 2^63 - 262152 bytes *)
Theorem C01_at_source_constants :
  forall (H : bytes -> bytes), (forall x, length (H x) = C02.Main.HashSize) ->
  forall segs : list bytes,
  (len (concat segs) < 2 ^ 63 - 262152) ->
  exists u, upload H C02.Main.ChunkSize C02.Main.Branches C02.Main.HashSize segs = Ok u /\
    (NoCollision H (u_log u) ->
     exists j, upload_and_open H C02.Main.ChunkSize C02.Main.Branches C02.Main.HashSize segs = Some (store_of_log H (u_log u), j)
       /\ j_off j = 0
       /\ stored (get_of_store (store_of_log H (u_log u))) Consts.boson_ChunkSize Consts.boson_HashSize j (concat segs)).
Proof. exact (read_back_at_source_constants consts_ok_C01). Qed.
Print Assumptions C01_at_source_constants.

(** non-vacuity: a toy run evaluated inside Coq (chunk size 4, 2-byte references,
    branching 2, 13 bytes in four writes, one of them empty): the hypotheses hold,
    the chunks written do not collide, and reading 6 bytes at offset 5 through the
    model joiner returns them *)
Example C01_hyps_satisfiable :
  (forall x, length (ex_H x) = 2%nat)
  /\ (len (concat ex_segs) + Z.of_nat 4 + 8 < 2 ^ 63)
  /\ (length (chunks_of 4 (concat ex_segs)) <= 2 ^ 7)%nat
  /\ match upload ex_H 4 2 2 ex_segs with
     | Ok u => nocoll_b ex_H (u_log u) = true
     | Err _ => False
     end
  /\ match upload_and_open ex_H 4 2 2 ex_segs with
     | Some (st, j) =>
         let '(n, ws, e) := read_at (get_of_store st) 4 2 j 6 6 5 in
         n = 6 /\ e = RNil /\ apply_writes (repeat 0%N 6) ws = [15;16;17;18;19;20]%N
     | None => False
     end.
Proof. vm_compute. repeat split; try reflexivity; try lia. Qed.
