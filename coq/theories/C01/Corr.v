(** C01 — correspondence.  The REAL builder pipeline (feeder, BMT/Keccak, store
    stage, hash-trie writer; 256 KiB chunks) uploads a small content with a random
    split of the writes into a copying store; the harness dumps the store
    (address, chunk data) and then drives the REAL joiner on the returned
    reference.  [check_case] opens the same reference with the model joiner over
    the dumped store ([get_of_store], [chunk_got]) and replays the operations
    (the operation/observation vocabulary and the replay are those of C07/Corr.v).
    Contents above one chunk are too large to ship to Coq as literals; for those
    the upload side is tied by C02/Corr.v (real writer, small parameters), the
    read side by C07/Corr.v (real joiner, synthetic store up to 2^60 bytes), and
    the end-to-end behaviour by the Go oracle of harness/cmd/c01. *)
From Coq Require Import List NArith ZArith Bool.
Import ListNotations.
Require Import Aurora.Base.Corr Aurora.Consts Aurora.C02.Model Aurora.C07.Model Aurora.C01.Model.
Require Import Aurora.C01.Pipe Aurora.C01.EncStore.
Require Aurora.C02.Corr.
Require Export Aurora.C07.Corr.
Local Open Scope Z_scope.

(** ** encrypted uploads at toy parameters.  REAL feeder, REAL
    [pipeline/encryption.NewEncryptionWriter], REAL [store.NewStoreWriter], REAL
    [hashtrie.NewHashTrieWriter] (reference length hs + kl, branching chunk/(hs+kl)); the
    ChunkEncrypter is chunk_encryption.go's at toy chunk size: REAL
    [encryption.New(key, 0, chunk/refsize, toyKeyHash)] for the span and
    [encryption.New(key, chunk, 0, toyKeyHash)] for the data; toy chunk hash in place of BMT.
    Keys are drawn by the harness; the random padding is read back from the stored chunk by
    decrypting it.  Observed: Write return values, every chunk Put (digest), the returned
    reference or the error class. *)
Definition km32 (x : N) : N := N.land x 4294967295.
Definition ktoy_acc (l : list N) : N := fold_left (fun a b => km32 (a * 131 + b + 1)%N) l 7%N.
Fixpoint ktoy_out (a : N) (n : nat) (jk : N) : list N :=
  match n with
  | O => []
  | S k => N.land (N.shiftr (km32 (km32 (a + jk) * 1029)) 16) 255 :: ktoy_out a k (jk + 2654435761)%N
  end.
Definition ktoy_hash (hlen : nat) (l : list N) : list N := ktoy_out (ktoy_acc l) hlen 0%N.

Record enc_obs := mkEO {
  eo_cuts : list N;
  eo_keys : list bytes;                     (* key of the n-th EncryptChunk call *)
  eo_pads : list bytes;                     (* its padding bytes *)
  eo_rets : option (list Z);                (* None = equal to eo_cuts *)
  eo_dig : N * N * N;
  eo_res : N + bytes
}.

Inductive case :=
| CReal (store : list (bytes * bytes)) (root : bytes) (size : Z) (steps : list (op * obs))
| CEncUp (chunk refsize : N) (hs : nat) (klen : nat) (dseed : N) (n : nat) (runs : list enc_obs)
| CLiftUp (encrypted : bool) (n tail : Z) (steps : list (op * obs)).   (* see C07/Corr.v, "lift" cases *)

Definition enc_model (chunk refsize : N) (hs klen : nat) (data : bytes) (o : enc_obs) :=
  let keys := fun n => nth n (eo_keys o) [] in
  let pads := fun n i => nth i (nth n (eo_pads o) []) 0%N in
  let br := N.to_nat (chunk / refsize) in
  match pupload (enc_stage (C02.Corr.toy_hash hs) (ktoy_hash klen) chunk refsize keys pads)
                (N.to_nat chunk) br (N.to_nat refsize) (C02.Corr.split_at data (map N.to_nat (eo_cuts o))) with
  | Ok u => (u_rets u, u_log u, inr (u_root u))
  | Err e => ([], [], inl (C02.Corr.err_code e))
  end.

Definition check_enc (chunk refsize : N) (hs klen : nat) (data : bytes) (o : enc_obs) : bool :=
  let '(rets, lg, r) := enc_model chunk refsize hs klen data o in
  match r with
  | inl _ => C02.Corr.sum_eqb r (eo_res o)
  | inr _ => C02.Corr.sum_eqb r (eo_res o)
             && list_eqb Z.eqb rets (match eo_rets o with Some l => l | None => map Z.of_N (eo_cuts o) end)
             && C02.Corr.dig_eqb (C02.Corr.digest lg) (eo_dig o)
  end.

Definition first_bad (c : case) : option nat :=
  match c with
  | CReal store root size steps =>
      match joiner_new (get_of_store store) root with
      | Some j => if Z.eqb (j_span j) size then run_steps (get_of_store store) j steps 1 else Some 0%nat
      | None => Some 0%nat
      end
  | CEncUp chunk refsize hs klen dseed n runs =>
      let data := C02.Corr.gen_data n dseed in
      match mismatch_idx (check_enc chunk refsize hs klen data) runs with
      | [] => None
      | i :: _ => Some i
      end
  | CLiftUp e n tail steps => lift_first_bad e n tail steps
  end.
Definition check_case (c : case) : bool := match first_bad c with None => true | Some _ => false end.
Definition explain_case (c : case) :=
  match c with
  | CReal store root size steps =>
      (first_bad c, inl (match joiner_new (get_of_store store) root with
                    | Some j => (j_span j, replay (get_of_store store) j steps) | None => (-1, []) end))
  | CEncUp chunk refsize hs klen dseed n runs =>
      (first_bad c, inr (map (fun o => let '(rets, lg, r) := enc_model chunk refsize hs klen (C02.Corr.gen_data n dseed) o in
                                       (rets, C02.Corr.digest lg, r, eo_res o)) runs))
  | CLiftUp e n tail steps => (first_bad c, inl (lift_size n tail, lift_replay e n tail steps))
  end.
