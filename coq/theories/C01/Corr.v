(** C01 — correspondence.  The REAL builder pipeline (feeder, BMT/Keccak, store
    stage, hash-trie writer; 256 KiB chunks) uploads a small content with a random
    split of the writes into a copying store; the harness dumps the store
    (address, chunk data) and then drives the REAL joiner on the returned
    reference.  [check_case] opens the same reference with the model joiner over
    the dumped store ([get_of_store], [chunk_got]) and replays the operations
    (the operation/observation vocabulary and the replay are those of C07/Corr.v).
    Contents above one chunk are too large to ship to Coq as literals; for those
    the upload side is tied by C02/Corr.v (real writer, small parameters), the
    read side by C07/Corr.v (real joiner, synthetic store up to 2^60 bytes), and
    the end-to-end behaviour by the Go oracle of harness/cmd/c01. *)
From Coq Require Import List NArith ZArith Bool.
Import ListNotations.
Require Import Aurora.Base.Corr Aurora.Consts Aurora.C02.Model Aurora.C07.Model Aurora.C01.Model.
Require Export Aurora.C07.Corr.
Local Open Scope Z_scope.

Inductive case :=
| CReal (store : list (bytes * bytes)) (root : bytes) (size : Z) (steps : list (op * obs)).

Definition first_bad (c : case) : option nat :=
  match c with
  | CReal store root size steps =>
      match joiner_new (get_of_store store) root with
      | Some j => if Z.eqb (j_span j) size then run_steps (get_of_store store) j steps 1 else Some 0%nat
      | None => Some 0%nat
      end
  end.
Definition check_case (c : case) : bool := match first_bad c with None => true | Some _ => false end.
Definition explain_case (c : case) :=
  match c with
  | CReal store root size steps =>
      (first_bad c, match joiner_new (get_of_store store) root with
                    | Some j => (j_span j, replay (get_of_store store) j steps) | None => (-1, []) end)
  end.
