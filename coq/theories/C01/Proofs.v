(** C01 — the tree written by the upload (C02) is a well-formed stored tree in
    the sense of the joiner (C07), provided no two chunks written by the upload
    collide under the hash. *)
From Coq Require Import List NArith ZArith Bool Lia Arith.
From Coq Require Import ZifyBool ZifyNat ZifyN.
Import ListNotations.
Require Import Aurora.Base.Corr.
Require Import Aurora.C02.Model Aurora.C02.Spec Aurora.C02.Stream Aurora.C02.Proofs.
Require Import Aurora.C07.Model Aurora.C07.Slices Aurora.C07.Proofs.
Require Import Aurora.C01.Model.
Local Open Scope Z_scope.

(** the last group of a grouping *)
Lemma group_last_decomp {A} (k : nat) (S0 : list A) : (0 < k)%nat -> S0 <> [] ->
  exists G glast, group k S0 = G ++ [glast] /\ concat G ++ glast = S0
                  /\ Forall (fun g => length g = k) G /\ (1 <= length glast <= k)%nat.
Proof.
  intros Hk Hne. rewrite (group_splitb k S0 Hk).
  destruct (splitb_inv k S0 Hk) as (Hc & Hf & Ht).
  destruct (tailb k S0) as [|y t] eqn:Et.
  - rewrite app_nil_r in Hc |- *.
    assert (Hfne : fulls k S0 <> []) by (intros Hx; rewrite Hx in Hc; cbn in Hc; congruence).
    destruct (exists_last Hfne) as (gs & g0 & Ef). rewrite Ef in Hc, Hf |- *.
    exists gs, g0. apply Forall_app in Hf as [Hf1 Hf2]. inversion Hf2 as [|? ? Hg0 _].
    split; [reflexivity|]. split; [|split; [exact Hf1 | lia]].
    rewrite <- Hc, concat_app. cbn. now rewrite app_nil_r.
  - exists (fulls k S0), (y :: t). split; [reflexivity|]. split; [exact Hc|]. split; [exact Hf|].
    cbn [length] in *. lia.
Qed.

Definition NoCollision (H : bytes -> bytes) (log : list bytes) : Prop :=
  forall p q, In p log -> In q log -> H p = H q -> p = q.

Section ReadBack.
  Variable H : bytes -> bytes.
  Variable cs b refLen : nat.
  Hypothesis Hrl0 : (0 < refLen)%nat.
  Hypothesis Hb : (2 <= b)%nat.
  Hypothesis Hbdef : Z.of_nat b = Z.of_nat cs / Z.of_nat refLen.
  Hypothesis Hlen : forall x, length (H x) = refLen.

  Notation csz := (Z.of_nat cs).
  Notation rlz := (Z.of_nat refLen).
  Notation B := (Bsz csz rlz).

  Lemma Hrlz : 0 < rlz. Proof. lia. Qed.
  Lemma Hbz : 2 <= csz / rlz. Proof. rewrite <- Hbdef. lia. Qed.
  Lemma Hcs0 : (0 < cs)%nat.
  Proof. pose proof (Hcs csz rlz Hrlz Hbz). lia. Qed.
  Lemma B_succ m : B (S m) = B m * Z.of_nat b.
  Proof. rewrite Hbdef. apply Bsz_succ. exact Hrlz. Qed.
  Lemma B_pos m : 0 < B m.
  Proof. pose proof (Bsz_ge_cs csz rlz Hrlz Hbz m). pose proof Hcs0. lia. Qed.
  Lemma B_0 : B 0 = csz.
  Proof. unfold Bsz. cbn. lia. Qed.

  (** ** the chunks of a tree and its payload *)
  Definition tree_payload (t : tree) : bytes :=
    match t with Leaf d => d | Node ts => flat_map (tree_ref H) ts end.
  Fixpoint tree_chunks (t : tree) : list bytes :=
    match t with
    | Leaf d => [tree_chunk H (Leaf d)]
    | Node ts => tree_chunk H (Node ts) :: flat_map tree_chunks ts
    end.

  Lemma tree_chunk_eq t : tree_chunk H t = le64 (tree_span t) ++ tree_payload t.
  Proof. destruct t; reflexivity. Qed.
  Lemma tree_ref_eq t : tree_ref H t = H (tree_chunk H t).
  Proof. destruct t; reflexivity. Qed.
  Lemma tree_chunks_head t : In (tree_chunk H t) (tree_chunks t).
  Proof. destruct t; cbn; now left. Qed.
  Lemma tree_span_Z t : Z.of_N (tree_span t) = len (tree_data t).
  Proof. unfold tree_span. lia. Qed.

  Lemma len_node_data ts : len (tree_data (Node ts)) = fold_right (fun t a => len (tree_data t) + a) 0 ts.
  Proof.
    cbn [tree_data]. induction ts as [|t ts IH]; cbn [flat_map fold_right]; [reflexivity|].
    rewrite app_length. lia.
  Qed.
  Lemma len_full_data m ts : Forall (fun t => len (tree_data t) = B m) ts ->
    fold_right (fun t a => len (tree_data t) + a) 0 ts = len ts * B m.
  Proof. induction 1 as [|t ts Ht _ IH]; cbn [fold_right length]; [lia|]. rewrite IH, Ht. lia. Qed.
  Lemma fold_app (l1 l2 : list tree) :
    fold_right (fun t a => len (tree_data t) + a) 0 (l1 ++ l2)
    = fold_right (fun t a => len (tree_data t) + a) 0 l1 + fold_right (fun t a => len (tree_data t) + a) 0 l2.
  Proof. induction l1 as [|t l1 IH]; cbn [app fold_right]; [lia|]. rewrite IH. lia. Qed.

  (** ** the store *)
  Variable log : list bytes.
  Hypothesis Hnc : NoCollision H log.
  Notation get := (get_of_store (store_of_log H log)).

  Lemma lookup_store_gen (l : list bytes) p : (forall q, In q l -> In q log) -> In p l -> In p log ->
    lookup (store_of_log H l) (H p) = Some p.
  Proof.
    induction l as [|q l IH]; intros Hsub Hin Hpl; [contradiction|].
    cbn [store_of_log map lookup]. destruct (bytes_eqb (H q) (H p)) eqn:E.
    - apply bytes_eqb_eq in E. f_equal. apply Hnc; [apply Hsub; now left | exact Hpl | exact E].
    - destruct Hin as [->|Hin].
      + assert (bytes_eqb (H p) (H p) = true) by now apply bytes_eqb_eq. congruence.
      + apply IH; [intros; apply Hsub; now right | exact Hin | exact Hpl].
  Qed.

  Lemma get_tree t : In (tree_chunk H t) log -> len (tree_data t) < 2 ^ 63 ->
    get (tree_ref H t) = GOk (len (tree_data t)) (of_list (tree_payload t)).
  Proof.
    intros Hin H63. unfold get_of_store. rewrite tree_ref_eq.
    rewrite (lookup_store_gen log _ (fun q Hq => Hq) Hin Hin).
    unfold chunk_got. rewrite tree_chunk_eq, app_length, le64_length.
    replace (Nat.ltb (8 + length (tree_payload t)) 8) with false by (symmetry; apply Nat.ltb_ge; lia).
    rewrite firstn_app, le64_length, Nat.sub_diag, firstn_O, app_nil_r.
    rewrite firstn_all2 by (rewrite le64_length; lia).
    rewrite skipn_app, le64_length, Nat.sub_diag, skipn_O.
    rewrite (skipn_all2 (le64 (tree_span t))) by (rewrite le64_length; lia). cbn [app].
    rewrite le_decode_le64. unfold u64. pose proof (tree_span_Z t) as Hs.
    rewrite N.mod_small by lia. rewrite i64_small by lia. now rewrite Hs.
  Qed.

  (** ** well-formed specification trees *)
  Fixpoint wf (m : nat) (t : tree) : Prop :=
    match m with
    | O => exists d, t = Leaf d /\ len d <= csz
    | S m' =>
        wf m' t \/
        exists front last, t = Node (front ++ [last])
          /\ (1 <= length front)%nat /\ len (front ++ [last]) <= Z.of_nat b
          /\ Forall (wf m') (front ++ [last])
          /\ Forall (fun t => len (tree_data t) = B m') front
          /\ 0 < len (tree_data last) <= B m'
    end.

  Definition kid_of (t : tree) : kid :=
    mkK (tree_ref H t) (len (tree_data t)) (of_list (tree_payload t)) (tree_data t).

  Lemma kids_data ts : concat (map k_data (map kid_of ts)) = tree_data (Node ts).
  Proof. rewrite map_map. cbn [kid_of k_data tree_data]. now rewrite flat_map_concat_map. Qed.
  Lemma kids_refs ts : concat (map k_ref (map kid_of ts)) = tree_payload (Node ts).
  Proof. rewrite map_map. cbn [kid_of k_ref tree_payload]. now rewrite flat_map_concat_map. Qed.

  Lemma wf_Repr m : forall t, wf m t -> (forall c, In c (tree_chunks t) -> In c log) ->
    len (tree_data t) < 2 ^ 63 ->
    Repr get csz rlz m (len (tree_data t)) (of_list (tree_payload t)) (tree_data t).
  Proof.
    induction m as [|m IH]; intros t Hwf Hin H63; cbn [wf] in Hwf.
    - destruct Hwf as (d & -> & Hd). cbn [tree_data tree_payload]. now apply Repr_leaf_intro.
    - destruct Hwf as [Hwf | (front & last & -> & Hf1 & Hkb & Hall & Hfull & Hlast)].
      + apply Repr_mono. now apply IH.
      + rewrite <- kids_data, <- kids_refs. rewrite map_app. cbn [map].
        assert (Hsub : forall t', In t' (front ++ [last]) -> len (tree_data t') <= len (tree_data (Node (front ++ [last])))).
        { intros t' Ht'. rewrite len_node_data. clear -Ht'. induction (front ++ [last]) as [|x l IHl]; [contradiction|].
          cbn [fold_right]. destruct Ht' as [->|Ht']; [|specialize (IHl Ht')];
          assert (0 <= fold_right (fun t a => len (tree_data t) + a) 0 l) by (clear; induction l; cbn [fold_right]; lia); lia. }
        apply Repr_node_intro.
        * now rewrite map_length.
        * change [kid_of last] with (map kid_of [last]). rewrite <- map_app, map_length, <- Hbdef. exact Hkb.
        * change [kid_of last] with (map kid_of [last]). rewrite <- (map_app kid_of front [last]). apply Forall_forall. intros k Hk.
          apply in_map_iff in Hk as (t' & <- & Ht').
          assert (Hin' : forall c, In c (tree_chunks t') -> In c log).
          { intros c Hc. apply Hin. cbn [tree_chunks]. right. apply in_flat_map. now exists t'. }
          assert (H63' : len (tree_data t') < 2 ^ 63) by (specialize (Hsub t' Ht'); lia).
          split; [cbn [kid_of k_ref]; rewrite tree_ref_eq, Hlen; reflexivity|].
          split; [cbn [kid_of k_ref k_span k_pay]; apply get_tree; [apply Hin', tree_chunks_head | exact H63']|].
          cbn [kid_of k_span k_pay k_data]. apply IH; [exact (proj1 (Forall_forall _ _) Hall t' Ht') | exact Hin' | exact H63'].
        * apply Forall_forall. intros k Hk. apply in_map_iff in Hk as (t' & <- & Ht').
          cbn [kid_of k_data]. exact (proj1 (Forall_forall _ _) Hfull t' Ht').
        * cbn [kid_of k_data]. exact Hlast.
  Qed.

  (** ** the levels of the specification are well-formed *)
  Definition level_ok (j : nat) (S0 : list tree) : Prop :=
    exists front last, S0 = front ++ [last]
      /\ Forall (fun t => wf j t /\ len (tree_data t) = B j) front
      /\ wf j last /\ 0 < len (tree_data last) <= B j.

  Lemma wf_mono m t : wf m t -> wf (S m) t.
  Proof. intros. cbn [wf]. now left. Qed.

  Lemma full_node j (g : list tree) : length g = b ->
    Forall (fun t => wf j t /\ len (tree_data t) = B j) g ->
    wf (S j) (Node g) /\ len (tree_data (Node g)) = B (S j).
  Proof.
    intros Hg Hall.
    assert (Hfull : Forall (fun t => len (tree_data t) = B j) g) by (eapply Forall_impl; [|exact Hall]; now intros ? []).
    assert (Hwf : Forall (wf j) g) by (eapply Forall_impl; [|exact Hall]; now intros ? []).
    split.
    - destruct g as [|x g'] using rev_ind; [cbn in Hg; lia|]. clear IHg'.
      rewrite app_length in Hg. cbn [length] in Hg.
      apply Forall_app in Hfull as [Hf1 Hf2]. inversion Hf2 as [|? ? Hx _]; subst.
      cbn [wf]. right. exists g', x. split; [reflexivity|]. split; [lia|].
      split; [rewrite app_length; cbn [length]; lia|]. split; [exact Hwf|]. split; [exact Hf1|].
      pose proof (B_pos j). lia.
    - rewrite len_node_data, (len_full_data j g Hfull), B_succ, Hg. lia.
  Qed.

  Lemma next_level_ok j (S0 : list tree) : level_ok j S0 -> level_ok (S j) (next_level Node b S0).
  Proof.
    intros (front & last & -> & Hfront & Hlw & Hls).
    destruct (group_last_decomp b (front ++ [last]) ltac:(lia)) as (G & glast & Hgr & Hcat & HG & Hgl).
    { destruct front; discriminate. }
    unfold next_level. rewrite Hgr, map_app. cbn [map].
    destruct glast as [|x gl'] using rev_ind; [cbn in Hgl; lia|]. clear IHgl'.
    rename gl' into gf.
    rewrite app_assoc in Hcat. apply app_inj_tail in Hcat as [Hfr ->].
    exists (map (wrap_or_carry Node) G), (wrap_or_carry Node (gf ++ [last])).
    split; [reflexivity|].
    assert (HinG : forall g, In g G -> Forall (fun t => wf j t /\ len (tree_data t) = B j) g).
    { intros g Hg. apply Forall_forall. intros t Ht. apply (proj1 (Forall_forall _ _) Hfront).
      rewrite <- Hfr. apply in_or_app. left. apply in_concat. now exists g. }
    assert (Hgf : Forall (fun t => wf j t /\ len (tree_data t) = B j) gf).
    { apply Forall_forall. intros t Ht. apply (proj1 (Forall_forall _ _) Hfront).
      rewrite <- Hfr. apply in_or_app. now right. }
    split.
    - apply Forall_forall. intros t Ht. apply in_map_iff in Ht as (g & <- & Hg).
      pose proof (proj1 (Forall_forall _ _) HG g Hg) as Hlg. cbn beta in Hlg.
      rewrite (woc_node Node b Hb g) by lia. apply full_node; [exact Hlg | now apply HinG].
    - rewrite app_length in Hgl. cbn [length] in Hgl.
      destruct gf as [|y gf'].
      + cbn [app wrap_or_carry]. split; [now apply wf_mono|]. rewrite B_succ. pose proof (B_pos j). nia.
      + rewrite (woc_node Node b Hb ((y :: gf') ++ [last])) by (rewrite app_length; cbn [length]; lia).
        assert (Hfull : Forall (fun t => len (tree_data t) = B j) (y :: gf')) by (eapply Forall_impl; [|exact Hgf]; now intros ? []).
        assert (Hwf : Forall (wf j) (y :: gf')) by (eapply Forall_impl; [|exact Hgf]; now intros ? []).
        split.
        * cbn [wf]. right. exists (y :: gf'), last. split; [reflexivity|]. split; [cbn [length]; lia|].
          split; [rewrite app_length; cbn [length] in *; lia|].
          split; [apply Forall_app; split; [exact Hwf | constructor; [exact Hlw | constructor]]|].
          split; [exact Hfull | exact Hls].
        * rewrite len_node_data, fold_app, (len_full_data j _ Hfull). cbn [fold_right].
          rewrite B_succ. pose proof (B_pos j). cbn [length] in *. nia.
  Qed.

  (** chunks of the next level are chunks of this level plus the wrapped groups *)
  Lemma next_level_chunks (L : list bytes) (S0 : list tree) :
    (forall t, In t S0 -> forall c, In c (tree_chunks t) -> In c L) ->
    (forall g, In g (group b S0) -> (2 <= length g)%nat -> In (tree_emit H g) L) ->
    forall t, In t (next_level Node b S0) -> forall c, In c (tree_chunks t) -> In c L.
  Proof.
    intros HS HG t Ht c Hc. unfold next_level in Ht. apply in_map_iff in Ht as (g & <- & Hg).
    assert (Hsub : forall t', In t' g -> In t' S0).
    { intros t' Ht'. destruct (Nat.eq_dec b 0) as [->|Hb0]; [lia|].
      pose proof (group_splitb b S0 ltac:(lia)) as Hgs. destruct (splitb_inv b S0 ltac:(lia)) as (Hcat & _ & _).
      rewrite Hgs in Hg. rewrite <- Hcat. apply in_app_or in Hg as [Hg|Hg].
      - apply in_or_app. left. apply in_concat. now exists g.
      - destruct (tailb b S0); [contradiction|]. destruct Hg as [<-|[]]. apply in_or_app. now right. }
    destruct g as [|x [|y g']].
    - cbn [wrap_or_carry tree_chunks flat_map] in Hc. destruct Hc as [<-|[]].
      (* an empty group cannot occur, but the statement holds anyway only if it is in L: exclude *)
      exfalso. destruct (Nat.eq_dec b 0) as [->|Hb0]; [lia|].
      pose proof (group_splitb b S0 ltac:(lia)) as Hgs. destruct (splitb_inv b S0 ltac:(lia)) as (_ & Hf & _).
      rewrite Hgs in Hg. apply in_app_or in Hg as [Hg|Hg].
      + pose proof (proj1 (Forall_forall _ _) Hf [] Hg) as Hl0. cbn in Hl0. lia.
      + destruct (tailb b S0); [contradiction|]. destruct Hg as [Hg|[]]. discriminate.
    - cbn [wrap_or_carry] in Hc. apply (HS x); [apply Hsub; now left | exact Hc].
    - cbn [wrap_or_carry tree_chunks] in Hc. destruct Hc as [<-|Hc].
      + apply (HG (x :: y :: g') Hg). cbn [length]. lia.
      + apply in_flat_map in Hc as (t' & Ht' & Hc'). apply (HS t'); [now apply Hsub | exact Hc'].
  Qed.

  Lemma iter_level_ok n : forall j (S0 : list tree) (L : list bytes),
    level_ok j S0 ->
    (forall t, In t S0 -> forall c, In c (tree_chunks t) -> In c L) ->
    (forall p, In p (spec_log Node (tree_emit H) b n S0) -> In p L) ->
    level_ok (n + j) (iter_level Node b n S0)
    /\ (forall t, In t (iter_level Node b n S0) -> forall c, In c (tree_chunks t) -> In c L).
  Proof.
    induction n as [|n IH]; intros j S0 L Hok HS Hlog; [now split|].
    cbn [iter_level spec_log] in *.
    replace (S n + j)%nat with (n + S j)%nat by lia. apply IH.
    - now apply next_level_ok.
    - apply next_level_chunks; [exact HS|]. intros g Hg Hg2. apply Hlog. apply in_or_app. left.
      apply in_map. apply filter_In. split; [exact Hg | now apply Nat.leb_le].
    - intros p Hp. apply Hlog. apply in_or_app. now right.
  Qed.

  (** the leaves *)
  Lemma leaves_level_ok (data : bytes) : data <> [] -> level_ok 0 (map Leaf (chunks_of cs data)).
  Proof.
    intros Hne. rewrite (chunks_of_nonempty cs data Hne).
    destruct (group_last_decomp cs data Hcs0 Hne) as (G & glast & Hgr & _ & HG & Hgl).
    rewrite Hgr, map_app. cbn [map]. exists (map Leaf G), (Leaf glast). split; [reflexivity|].
    rewrite B_0. split.
    - apply Forall_forall. intros t Ht. apply in_map_iff in Ht as (g & <- & Hg).
      pose proof (proj1 (Forall_forall _ _) HG g Hg) as Hlg. cbn beta in Hlg. cbn [wf tree_data].
      split; [exists g; split; [reflexivity | lia] | lia].
    - cbn [wf tree_data]. split; [exists glast; split; [reflexivity | lia] | lia].
  Qed.
End ReadBack.
