(** C01 — upload through [Pipe.v] with any sound chunk stage, then open the
    returned reference: the joiner sits on a well-formed stored tree. *)
From Coq Require Import List NArith ZArith Bool Lia Arith.
From Coq Require Import ZifyBool ZifyNat ZifyN.
Import ListNotations.
Require Import Aurora.Base.Corr.
Require Import Aurora.C02.Model Aurora.C02.Spec Aurora.C02.Stream Aurora.C02.Proofs.
Require Import Aurora.C07.Model Aurora.C07.Slices Aurora.C07.Proofs Aurora.C07.Main.
Require Import Aurora.C01.Model Aurora.C01.Proofs Aurora.C01.Main.
Require Import Aurora.C01.Pipe Aurora.C01.PipeSim Aurora.C01.PipeFeed.
Local Open Scope Z_scope.

Lemma Repr_mono_le get cs rl m : forall k span v d, Repr get cs rl m span v d -> Repr get cs rl (k + m) span v d.
Proof. induction k as [|k IH]; intros; [assumption|]. cbn [plus]. apply Repr_mono. now apply IH. Qed.

Lemma map_eq_app {A B} (f : A -> B) (l : list A) (l1 : list B) (y : B) :
  map f l = l1 ++ [y] -> exists l' x, l = l' ++ [x] /\ map f l' = l1 /\ f x = y.
Proof.
  intros Hm. destruct l as [|a l0] using rev_ind.
  - destruct l1; discriminate.
  - clear IHl0. rewrite map_app in Hm. cbn [map] in Hm. apply app_inj_tail in Hm as [H1 H2]. now exists l0, a.
Qed.

Section Generic.
  Variable stage : nat -> bytes -> res (bytes * bytes).
  Variable cs b refLen : nat.
  Hypothesis Hrl0 : (0 < refLen)%nat.
  Hypothesis Hb : (2 <= b)%nat.
  Hypothesis Hbdef : Z.of_nat b = Z.of_nat cs / Z.of_nat refLen.
  Notation csz := (Z.of_nat cs).
  Notation rlz := (Z.of_nat refLen).
  Notation B := (Bsz csz rlz).
  Notation levels_cap := 7%nat.

  (** stage: total on the chunks the pipeline hands it, references of the right length *)
  Hypothesis Hs_len : forall c d st rk, stage c d = Ok (st, rk) -> length rk = refLen.
  Hypothesis Hs_tot : forall c (LA : list entry), (2 <= length LA <= b)%nat ->
    Forall (fun e => length (e_ref e) = refLen /\ length (e_span e) = 8%nat) LA ->
    exists st rk, stage c (node_payload LA) = Ok (st, rk).
  Hypothesis Hs_leaf : forall c d, (length d <= cs)%nat -> exists st rk, stage c (leaf_chunk d) = Ok (st, rk).

  Lemma Hcs' : (0 < cs)%nat. Proof. exact (Hcs0 cs b refLen Hrl0 Hb Hbdef). Qed.

  (** ** the run, related to the specification levels by any relation [R] that the
      stage establishes for the chunks found in [LOG] *)
  Section Run.
    Variable R : entry -> tree -> Prop.
    Variable LOG : list bytes.
    Hypothesis Hstep : forall c LA LB st rk, Forall2 (R0 refLen) LA LB -> Forall2 R LA LB -> (2 <= length LA)%nat ->
      stage c (node_payload LA) = Ok (st, rk) -> In st LOG -> R (mkE (le64 (sum_spans LA)) rk) (Node LB).
    Hypothesis Hleaf : forall c d st rk, (length d <= cs)%nat ->
      stage c (leaf_chunk d) = Ok (st, rk) -> In st LOG -> R (mkE (le64 (N.of_nat (length d))) rk) (Leaf d).

    Notation stB := (state_of (@Node) b levels_cap).
    Notation small ls := (Forall (fun L : list entry => (length L < b)%nat) ls).

    Definition PInv (t : trie) (cks : list bytes) : Prop :=
      Forall2 (Forall2 (R0 refLen)) (t_levels t) (stB (map Leaf cks))
      /\ small (t_levels t)
      /\ ((length cks < b ^ levels_cap)%nat -> t_full t = false)
      /\ ((forall s, In s (t_log t) -> In s LOG) -> Forall2 (Forall2 R) (t_levels t) (stB (map Leaf cks))).

    Lemma PInv_init : PInv trie_init [].
    Proof.
      unfold PInv, trie_init, maxLevel. cbn [map t_levels t_full t_log]. rewrite state_of_nil.
      cbn [repeat]. split; [repeat constructor|]. split; [repeat constructor; cbn; lia|].
      split; [reflexivity|]. intros _. repeat constructor.
    Qed.

    Lemma PInv_stage t cks d : PInv t cks -> (length cks < b ^ levels_cap)%nat -> (length d <= cs)%nat ->
      exists t', pstage_write stage b refLen t (le64 (N.of_nat (length d))) (leaf_chunk d) = Ok t'
                 /\ PInv t' (cks ++ [d]).
    Proof.
      intros (H0 & Hsm & Hfull & Hsem) Hlt Hd. unfold pstage_write.
      destruct (Hs_leaf (length (t_log t)) d Hd) as (st & rk & Hst). rewrite Hst.
      pose proof (Hs_len _ _ _ _ Hst) as Hrk.
      unfold ptrie_chain_write. cbn [t_levels t_full t_log]. rewrite le64_length, Hrk.
      replace (8 + refLen)%nat with (refLen + 8)%nat by lia.
      rewrite Nat.mod_same by lia. rewrite Nat.eqb_refl. cbn [negb]. rewrite (Hfull Hlt), Nat.eqb_refl. cbn [negb].
      assert (Hpre : (S (length (map Leaf cks)) < b ^ S levels_cap)%nat).
      { rewrite map_length, Nat.pow_succ_r'. assert (b ^ levels_cap <> 0)%nat by (apply Nat.pow_nonzero; lia). nia. }
      destruct (push_state_of (@Node) (fun _ : list tree => tt) b Hb levels_cap (map Leaf cks) (Leaf d) Hpre) as (fl & HwB & Hfl).
      assert (HR0 : R0 refLen (mkE (le64 (N.of_nat (length d))) rk) (Leaf d)) by (split; [reflexivity | exact Hrk]).
      destruct (pwtl_sim stage b refLen Hb Hs_len Hs_tot R LOG Hstep (t_levels t) _ (length (t_log t ++ [st]))
                  (mkE (le64 (N.of_nat (length d))) rk) (Leaf d) _ _ fl H0 HR0 Hsm HwB)
        as (lsA' & lgA & HwA & HR0' & Hsm' & _ & Hsem').
      rewrite HwA. eexists. split; [reflexivity|]. unfold PInv. cbn [t_levels t_full t_log].
      rewrite map_app. cbn [map]. splits; try assumption.
      - intros Hlt'. cbn [orb]. destruct fl; [|reflexivity].
        specialize (Hfl eq_refl). rewrite map_length in Hfl. rewrite app_length in Hlt'. cbn [length] in Hlt'. lia.
      - intros Hin. apply Hsem'.
        + intros s Hs. apply Hin. apply in_or_app. now right.
        + apply Hsem. intros s Hs. apply Hin. rewrite <- app_assoc. apply in_or_app. now left.
        + apply (Hleaf _ d st rk Hd Hst). apply Hin. rewrite <- app_assoc. apply in_or_app. right. now left.
    Qed.

    Lemma ptrie_sum_rel t leaves : PInv t leaves -> (1 <= length leaves <= b ^ levels_cap)%nat ->
      exists eA tr lg, ptrie_sum stage b t = Ok (e_ref eA, lg)
        /\ iter_level (@Node) b levels_cap (map Leaf leaves) = [tr]
        /\ R0 refLen eA tr
        /\ ((forall s, In s lg -> In s LOG) -> R eA tr).
    Proof.
      intros (H0 & Hsm & _ & Hsem) Hlen. unfold ptrie_sum. change (maxLevel - 1)%nat with levels_cap.
      destruct (sum_loop_spec (@Node) (fun _ : list tree => tt) b Hb levels_cap (map Leaf leaves) []) as (lgB & HsB & _).
      { cbn; lia. } { rewrite app_nil_r, map_length. exact Hlen. }
      rewrite add_extra_nil, app_nil_r in HsB.
      destruct (iter_level_singleton (@Node) b Hb levels_cap (map Leaf leaves)) as (tr & Hit).
      { rewrite map_length. exact Hlen. }
      rewrite Hit in HsB.
      destruct (psum_sim stage b refLen Hb Hs_len Hs_tot R LOG Hstep levels_cap (t_levels t) _ (length (t_log t)) [[tr]] lgB H0) as (topA & lgA & HsA & HR0 & Hsem').
      { destruct (t_levels t) as [|L rest]; [exact I|]. inversion Hsm; subst. split; [lia | assumption]. }
      { exact HsB. }
      rewrite HsA. inversion HR0 as [|LA ? restA ? HL Hrest]; subst. inversion Hrest; subst.
      inversion HL as [|eA ? LA' ? He HL']; subst. inversion HL'; subst.
      exists eA, tr, (t_log t ++ lgA). split; [reflexivity|]. split; [exact Hit|]. split; [exact He|].
      intros Hin.
      assert (HR : Forall2 (Forall2 R) [[eA]] [[tr]]).
      { apply Hsem'; [intros s Hs; apply Hin, in_or_app; now right|].
        apply Hsem. intros s Hs. apply Hin, in_or_app. now left. }
      inversion HR as [|? ? ? ? HRL _]; subst. inversion HRL; subst. assumption.
    Qed.

    Lemma pupload_rel segs :
      (Z.of_nat (length (concat segs)) + csz + 8 < 2 ^ 63) ->
      (length (chunks_of cs (concat segs)) <= b ^ levels_cap)%nat ->
      exists u eA tr, pupload stage cs b refLen segs = Ok u
        /\ u_root u = e_ref eA /\ u_rets u = seg_lens segs
        /\ iter_level (@Node) b levels_cap (map Leaf (chunks_of cs (concat segs))) = [tr]
        /\ R0 refLen eA tr
        /\ ((forall s, In s (u_log u) -> In s LOG) -> R eA tr).
    Proof.
      intros H63 Hcap.
      assert (Hc1 : (1 <= b ^ levels_cap)%nat) by (assert (b ^ levels_cap <> 0)%nat by (apply Nat.pow_nonzero; lia); lia).
      destruct (pupload_chunks stage cs b refLen Hcs' PInv (b ^ levels_cap) Hc1 PInv_init PInv_stage segs H63 Hcap)
        as (t2 & Hp2 & Hup).
      assert (Hl1 : (1 <= length (chunks_of cs (concat segs)))%nat).
      { destruct (concat segs); cbn [chunks_of length]; [lia|]. unfold group. cbn [length group_fuel]. lia. }
      destruct (ptrie_sum_rel t2 _ Hp2 (conj Hl1 Hcap)) as (eA & tr & lg & Hs & Hit & HR0 & HR).
      rewrite Hs in Hup. exists (mkU (e_ref eA) (seg_lens segs) lg), eA, tr.
      cbn [u_root u_rets u_log]. splits; try assumption; reflexivity.
    Qed.
  End Run.
End Generic.
