(** C01 — upload then read back: the upload pipeline of C02/Model.v, the chunk
    store that its Put calls produce, and the joiner of C07/Model.v reading
    through that store.  Definitions only.

    Store: [storage.Putter.Put] appends (address = reference, chunk data);
    [Get address] returns the data of the first chunk stored under it
    (content-addressed stores keep one chunk per address).  The joiner then
    splits the chunk data into the 8 span bytes and the payload. *)
From Coq Require Import List NArith ZArith Bool.
Import ListNotations.
Require Import Aurora.Base.Corr Aurora.C02.Model Aurora.C07.Model.
Local Open Scope Z_scope.

Fixpoint lookup (store : list (bytes * bytes)) (addr : bytes) : option bytes :=
  match store with
  | [] => None
  | (a, d) :: rest => if bytes_eqb a addr then Some d else lookup rest addr
  end.

(** [ch.Data()[8:]], [chunkToSpan(ch.Data())] (and [joiner.New]'s int64 conversion) *)
Definition chunk_got (d : bytes) : got :=
  if Nat.ltb (length d) 8 then GShort
  else GOk (i64 (Z.of_N (le_decode (firstn 8 d)))) (of_list (skipn 8 d)).

Definition get_of_store (store : list (bytes * bytes)) (addr : bytes) : got :=
  match lookup store addr with
  | None => GErr                     (* storage.ErrNotFound *)
  | Some d => chunk_got d
  end.

(** the store after an upload: every chunk under its hash *)
Definition store_of_log (H : bytes -> bytes) (log : list bytes) : list (bytes * bytes) :=
  map (fun d => (H d, d)) log.

(** upload the writes [segs], then open the returned reference *)
Definition upload_and_open (H : bytes -> bytes) (cs b refLen : nat) (segs : list bytes)
  : option (list (bytes * bytes) * joiner) :=
  match upload H cs b refLen segs with
  | Ok u =>
      let st := store_of_log H (u_log u) in
      match joiner_new (get_of_store st) (u_root u) with
      | Some j => Some (st, j)
      | None => None
      end
  | Err _ => None
  end.
