(** C01 — the upload pipeline with the chunk stage as a parameter, so that the
    plain pipeline (Feeder -> BMT -> Store -> HashTrie) and the encrypted one
    (Feeder -> Encryption -> BMT -> Store -> HashTrie, builder.go
    newEncryptionPipeline / newShortEncryptionPipelineFunc) are one model.
    Definitions only.

    [stage n d] is what the chain of writers in front of the hash-trie writer
    does with the [n]-th chunk it is handed ([n] = number of chunks Put so far,
    which indexes the random key and padding of the encrypted pipeline; the
    plain stage ignores it).  [d] is the span-prefixed plain chunk data; the
    result is the chunk data that is Put and the bytes [Ref ++ Key] that the
    hash-trie writer stores after the span.

    Feeder and hash-trie writer are the transcription of C02/Model.v (same
    level-list view of the writer, same outcomes); [Pipe_plain.v] proves that
    with the plain stage this model computes exactly C02's [upload]. *)
From Coq Require Import List NArith ZArith Bool Arith.
Import ListNotations.
Require Import Aurora.C02.Model.
Require Aurora.C08.Model.

Section Pipe.
  Variable stage : nat -> bytes -> res (bytes * bytes).
  Variable cs : nat.                      (* feeder chunk size *)
  Variable b : nat.                       (* h.branching *)
  Variable refLen : nat.                  (* h.refSize = len(Ref) + len(Key) *)

  (** [writeToLevel] / [wrapFullLevel]; [c] chunks were Put before the call *)
  Fixpoint pwrite_to_level (c : nat) (ls : list (list entry)) (e : entry) {struct ls}
    : res (list (list entry) * list bytes * bool) :=
    match ls with
    | [] => Err EPanic
    | L :: rest =>
        let L' := L ++ [e] in
        if Nat.eqb (length L') b then
          match rest with
          | [] => Err EPanic
          | _ :: _ =>
              match stage c (node_payload L') with
              | Err x => Err x
              | Ok (stored, rk) =>
                  match pwrite_to_level (S c) rest (mkE (le64 (sum_spans L')) rk) with
                  | Ok (rest', lg, fl) => Ok ([] :: rest', stored :: lg, fl || Nat.eqb (length rest) 1)
                  | Err x => Err x
                  end
              end
          end
        else Ok (L' :: rest, [], false)
    end.

  Definition pwrap_level (c : nat) (L : list entry) (rest : list (list entry))
    : res (list (list entry) * list bytes * bool) :=
    match rest with
    | [] => Err EPanic
    | _ :: _ =>
        match stage c (node_payload L) with
        | Err x => Err x
        | Ok (stored, rk) =>
            match pwrite_to_level (S c) rest (mkE (le64 (sum_spans L)) rk) with
            | Ok (rest', lg, fl) => Ok ([] :: rest', stored :: lg, fl || Nat.eqb (length rest) 1)
            | Err x => Err x
            end
        end
    end.

  Fixpoint psum_loop (n : nat) (c : nat) (ls : list (list entry)) {struct n}
    : res (list (list entry) * list bytes) :=
    match n with
    | O => Ok (ls, [])
    | S n' =>
        match ls with
        | L :: ((L2 :: r2) as rest) =>
            let l := length L in
            if Nat.eqb l 0 then psum_loop n' c rest
            else if negb (Nat.eqb l b) && Nat.eqb l 1 then psum_loop n' c ((L2 ++ L) :: r2)
            else
              match pwrap_level c L rest with
              | Ok (ls', lg, _) =>
                  match psum_loop n' (c + length lg) (tl ls') with
                  | Ok (top, lg') => Ok (top, lg ++ lg')
                  | Err x => Err x
                  end
              | Err x => Err x
              end
        | _ => Err EPanic
        end
    end.

  (** [hashTrieWriter.ChainWrite(span, ref ++ key)] *)
  Definition ptrie_chain_write (t : trie) (span rk : bytes) : res trie :=
    let l := (length span + length rk)%nat in
    if negb (Nat.eqb (l mod (refLen + 8)) 0) then Err EInconsistentRefs
    else if t_full t then Err ETrieFull
    else if negb (Nat.eqb l (refLen + 8)) then Err EUnmodelled
    else
      match pwrite_to_level (length (t_log t)) (t_levels t) (mkE span rk) with
      | Ok (ls, lg, fl) => Ok (mkT ls (t_full t || fl) (t_log t ++ lg))
      | Err x => Err x
      end.

  Definition ptrie_sum (t : trie) : res (bytes * list bytes) :=
    match psum_loop (maxLevel - 1) (length (t_log t)) (t_levels t) with
    | Ok (top, lg) =>
        match top with
        | [e] :: _ => Ok (e_ref e, t_log t ++ lg)
        | [] => Err EPanic
        | _ :: _ => Err EInconsistentRefs
        end
    | Err x => Err x
    end.

  (** the writers between the feeder and the hash-trie writer, then its ChainWrite *)
  Definition pstage_write (t : trie) (span data : bytes) : res trie :=
    match stage (length (t_log t)) data with
    | Err x => Err x
    | Ok (stored, rk) =>
        ptrie_chain_write (mkT (t_levels t) (t_full t) (t_log t ++ [stored])) span rk
    end.

  Fixpoint pfeed_loop (fuel : nat) (dpre buf rest : bytes) (w : Z) (t : trie) {struct fuel}
    : res (bool * bytes * Z * trie) :=
    match rest with
    | [] => Ok (false, buf, w, t)
    | _ :: _ =>
        match fuel with
        | O => Err EHang
        | S fuel' =>
            if Nat.ltb (length dpre + length rest) cs then
              Ok (true, rest, (w + Z.of_nat (length rest))%Z, t)
            else
              let n := Nat.min (cs - length buf) (length rest) in
              let payload := dpre ++ firstn n rest in
              let sp := N.of_nat (length payload) in
              match pstage_write t (le64 sp) (le64 sp ++ payload) with
              | Ok t' => pfeed_loop fuel' [] [] (skipn n rest) (w + Z.of_N sp)%Z t'
              | Err x => Err x
              end
        end
    end.

  Definition pfeeder_write (f : feeder) (bs : bytes) : res (feeder * Z) :=
    if Nat.ltb (length bs + length (f_buf f)) cs then
      Ok (mkF (f_buf f ++ bs) (f_wrote f) (f_next f), Z.of_nat (length bs))
    else
      let sp := Z.of_nat (length (f_buf f)) in
      let w := if (0 <? sp)%Z then (- sp)%Z else 0%Z in
      match pfeed_loop (S (length bs)) (f_buf f) (f_buf f) bs w (f_next f) with
      | Ok (true, buf, ret, t) => Ok (mkF buf (f_wrote f) t, ret)
      | Ok (false, buf, ret, t) => Ok (mkF buf (i64 (f_wrote f + ret)) t, ret)
      | Err x => Err x
      end.

  Definition pfeeder_sum (f : feeder) : res (bytes * list bytes) :=
    let r1 :=
      if Nat.ltb 0 (length (f_buf f)) then
        let sp := N.of_nat (length (f_buf f)) in
        match pstage_write (f_next f) (le64 sp) (le64 sp ++ f_buf f) with
        | Ok t => Ok (t, i64 (f_wrote f + Z.of_nat (length (f_buf f) + 8)))
        | Err x => Err x
        end
      else Ok (f_next f, f_wrote f) in
    match r1 with
    | Err x => Err x
    | Ok (t1, wrote1) =>
        let r2 :=
          if (wrote1 =? 0)%Z then pstage_write t1 (le64 0) (le64 0)
          else Ok t1 in
        match r2 with
        | Ok t2 => ptrie_sum t2
        | Err x => Err x
        end
    end.

  Fixpoint pfeed_all (f : feeder) (segs : list bytes) (rets : list Z) : res (feeder * list Z) :=
    match segs with
    | [] => Ok (f, rets)
    | s :: segs' =>
        match pfeeder_write f s with
        | Ok (f', r) => pfeed_all f' segs' (rets ++ [r])
        | Err x => Err x
        end
    end.

  Definition pupload (segs : list bytes) : res upload_result :=
    match pfeed_all feeder_init segs [] with
    | Ok (f, rets) =>
        match pfeeder_sum f with
        | Ok (root, lg) => Ok (mkU root rets lg)
        | Err x => Err x
        end
    | Err x => Err x
    end.
End Pipe.

(** ** the two stages *)

(** bmt.bmtWriter ; store.storeWriter *)
Definition plain_stage (H : bytes -> bytes) (n : nat) (d : bytes) : res (bytes * bytes) :=
  if Nat.ltb (length d) 8 then Err EInvalidData else Ok (d, H d).

Definition of_c08 {A} (r : C08.Model.res A) : res A :=
  match r with
  | C08.Model.Ok a => Ok a
  | C08.Model.Err => Err EInvalidData          (* "data length longer than padding" *)
  | C08.Model.Panic => Err EPanic
  | C08.Model.Hang => Err EHang
  end.

(** encryption.encryptionWriter (EncryptChunk with the [n]-th random key and
    padding; [c := span ++ data]) ; bmt.bmtWriter on the encrypted data ;
    store.storeWriter.  [Hk] is the keystream hash of pkg/encryption, [Hc] the
    chunk hash; [chunk], [refsize] the constants of chunk_encryption.go. *)
Definition enc_stage (Hc Hk : bytes -> bytes) (chunk refsize : N)
           (keys : nat -> bytes) (pads : nat -> nat -> N) (n : nat) (d : bytes) : res (bytes * bytes) :=
  match of_c08 (C08.Model.encrypt_chunk_stored Hk chunk refsize (keys n) d (pads n)) with
  | Err x => Err x
  | Ok stored =>
      if Nat.ltb (length stored) 8 then Err EInvalidData
      else Ok (stored, Hc stored ++ keys n)
  end.
