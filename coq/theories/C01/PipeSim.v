(** C01 — the hash-trie writer of [Pipe.v] (entries, chunk stage with an
    oracle) runs in lock-step with the pure level writer of C02 on
    specification trees: same control flow, related levels. *)
From Coq Require Import List NArith ZArith Bool Lia Arith.
From Coq Require Import ZifyBool ZifyNat ZifyN.
Import ListNotations.
Require Import Aurora.C02.Model Aurora.C02.Spec Aurora.C02.Stream Aurora.C02.Proofs.
Require Import Aurora.C01.Pipe.

(** span arithmetic for entries that carry the spans of trees *)
Lemma sum_spans_rel_gen (LA : list entry) (LB : list tree) :
  Forall2 (fun e t => e_span e = le64 (tree_span t)) LA LB ->
  forall acc, fold_left (fun acc e => u64 (acc + le_decode (e_span e))) LA (u64 acc)
              = u64 (acc + fold_right (fun t a => (tree_span t + a)%N) 0%N LB).
Proof.
  induction 1 as [|e t LA LB He _ IH]; intros acc; cbn [fold_left fold_right].
  - now rewrite N.add_0_r.
  - rewrite He, le_decode_le64, u64_add_r, u64_add_l, IH. f_equal. lia.
Qed.

Lemma sum_spans_rel (LA : list entry) (LB : list tree) :
  Forall2 (fun e t => e_span e = le64 (tree_span t)) LA LB ->
  le64 (sum_spans LA) = le64 (tree_span (Node LB)).
Proof.
  intros Hf. unfold sum_spans. change 0%N with (u64 0) at 1.
  rewrite (sum_spans_rel_gen LA LB Hf), tree_span_node, le64_u64. reflexivity.
Qed.

Lemma Forall2_length {A B} {P : A -> B -> Prop} {l1 l2} : Forall2 P l1 l2 -> length l1 = length l2.
Proof. induction 1; cbn; congruence. Qed.

Section Sim.
  Variable stage : nat -> bytes -> res (bytes * bytes).
  Variable b refLen : nat.
  Hypothesis Hb : (2 <= b)%nat.
  (** what is needed of the stage for the writer to keep going *)
  Hypothesis Hs_len : forall c d st rk, stage c d = Ok (st, rk) -> length rk = refLen.
  Hypothesis Hs_tot : forall c (LA : list entry), (2 <= length LA <= b)%nat ->
    Forall (fun e => length (e_ref e) = refLen /\ length (e_span e) = 8%nat) LA ->
    exists st rk, stage c (node_payload LA) = Ok (st, rk).

  Definition R0 (e : entry) (t : tree) : Prop :=
    e_span e = le64 (tree_span t) /\ length (e_ref e) = refLen.

  Lemma R0_shape LA LB : Forall2 R0 LA LB ->
    Forall (fun e => length (e_ref e) = refLen /\ length (e_span e) = 8%nat) LA.
  Proof.
    induction 1 as [|e t LA LB [H1 H2] _ IH]; constructor; [|exact IH].
    split; [exact H2|]. rewrite H1. apply le64_length.
  Qed.

  Lemma R0_spans LA LB : Forall2 R0 LA LB -> Forall2 (fun e t => e_span e = le64 (tree_span t)) LA LB.
  Proof. induction 1 as [|e t LA LB [H1 _] _ IH]; constructor; assumption. Qed.

  Lemma R0_node LA LB rk : Forall2 R0 LA LB -> length rk = refLen ->
    R0 (mkE (le64 (sum_spans LA)) rk) (Node LB).
  Proof. intros Hf Hl. split; [cbn [e_span]; apply sum_spans_rel, R0_spans, Hf | exact Hl]. Qed.

  (** the semantic relation and the store it refers to *)
  Variable R : entry -> tree -> Prop.
  Variable LOG : list bytes.
  Hypothesis Hstep : forall c LA LB st rk, Forall2 R0 LA LB -> Forall2 R LA LB -> (2 <= length LA)%nat ->
    stage c (node_payload LA) = Ok (st, rk) -> In st LOG -> R (mkE (le64 (sum_spans LA)) rk) (Node LB).

  Notation wtlB := (write_to_level (@Node) (fun _ : list tree => tt) b).
  Notation sumB := (sum_loop (@Node) (fun _ : list tree => tt) b).
  Notation small ls := (Forall (fun L : list entry => (length L < b)%nat) ls).

  Lemma F2_app {A B} (P : A -> B -> Prop) l1 l2 x y : Forall2 P l1 l2 -> P x y -> Forall2 P (l1 ++ [x]) (l2 ++ [y]).
  Proof. intros. apply Forall2_app; [assumption | constructor; [assumption | constructor]]. Qed.

  Lemma pwtl_sim : forall lsA lsB c eA eB lsB' lgB fl,
    Forall2 (Forall2 R0) lsA lsB -> R0 eA eB -> small lsA ->
    wtlB lsB eB = Ok (lsB', lgB, fl) ->
    exists lsA' lgA, pwrite_to_level stage b c lsA eA = Ok (lsA', lgA, fl)
      /\ Forall2 (Forall2 R0) lsA' lsB' /\ small lsA' /\ length lgA = length lgB
      /\ ((forall s, In s lgA -> In s LOG) -> Forall2 (Forall2 R) lsA lsB -> R eA eB -> Forall2 (Forall2 R) lsA' lsB').
  Proof.
    induction lsA as [|LA restA IH]; intros lsB c eA eB lsB' lgB fl Hls He Hsm Hw.
    - inversion Hls; subst. cbn in Hw. discriminate.
    - inversion Hls as [|? LB ? restB HL Hrest]; subst. inversion Hsm as [|? ? HLs Hrs]; subst.
      cbn [write_to_level pwrite_to_level] in *.
      pose proof (Forall2_length HL) as Hlen.
      rewrite !app_length in *. cbn [length] in *. rewrite <- Hlen in Hw.
      destruct (Nat.eqb (length LA + 1) b) eqn:Eb.
      + destruct restB as [|LB2 restB']; [discriminate|].
        inversion Hrest as [|LA2 ? restA' ? HL2 Hrest']; subst.
        apply Nat.eqb_eq in Eb.
        destruct (wtlB (LB2 :: restB') (Node (LB ++ [eB]))) as [[[rB' lB] fB]|] eqn:EwB; [|discriminate].
        injection Hw as <- <- <-.
        assert (HL' : Forall2 R0 (LA ++ [eA]) (LB ++ [eB])) by now apply F2_app.
        destruct (Hs_tot c (LA ++ [eA])) as (st & rk & Hst).
        { rewrite app_length. cbn [length]. lia. } { exact (R0_shape _ _ HL'). }
        rewrite Hst. pose proof (Hs_len _ _ _ _ Hst) as Hrk.
        destruct (IH (LB2 :: restB') (S c) (mkE (le64 (sum_spans (LA ++ [eA]))) rk) (Node (LB ++ [eB])) rB' lB fB
                     Hrest (R0_node _ _ rk HL' Hrk) Hrs EwB) as (rA' & lA & HwA & HR0 & Hsm' & Hll & Hsem).
        rewrite HwA. exists ([] :: rA'), (st :: lA).
        rewrite (Forall2_length Hrest).
        split; [reflexivity|]. split; [constructor; [constructor | exact HR0]|].
        split; [constructor; [cbn; lia | exact Hsm']|]. split; [cbn [length]; lia|].
        intros Hin HRls HRe. inversion HRls as [|? ? ? ? HRL HRrest]; subst.
        constructor; [constructor|]. apply Hsem.
        * intros s Hs. apply Hin. now right.
        * exact HRrest.
        * apply (Hstep c _ _ st rk HL'); [now apply F2_app | rewrite app_length; cbn [length]; lia | exact Hst | apply Hin; now left].
      + apply Nat.eqb_neq in Eb. injection Hw as <- <- <-.
        exists ((LA ++ [eA]) :: restA), []. split; [reflexivity|].
        split; [constructor; [now apply F2_app | exact Hrest]|].
        split; [constructor; [rewrite app_length; cbn [length]; lia | exact Hrs]|]. split; [reflexivity|].
        intros _ HRls HRe. inversion HRls; subst. constructor; [now apply F2_app | assumption].
  Qed.

  (** Sum: the head level may hold up to [b] entries, the others fewer *)
  Lemma psum_sim : forall n lsA lsB c topB lgB,
    Forall2 (Forall2 R0) lsA lsB ->
    match lsA with [] => True | L :: rest => (length L <= b)%nat /\ small rest end ->
    sumB n lsB = Ok (topB, lgB) ->
    exists topA lgA, psum_loop stage b n c lsA = Ok (topA, lgA)
      /\ Forall2 (Forall2 R0) topA topB
      /\ ((forall s, In s lgA -> In s LOG) -> Forall2 (Forall2 R) lsA lsB -> Forall2 (Forall2 R) topA topB).
  Proof.
    induction n as [|n IH]; intros lsA lsB c topB lgB Hls Hsm Hs.
    - cbn in Hs. injection Hs as <- <-. exists lsA, []. cbn. repeat split; auto.
    - cbn [sum_loop psum_loop] in *.
      destruct lsB as [|LB [|LB2 rB]]; try discriminate.
      inversion Hls as [|LA ? restA ? HL Hrest]; subst.
      inversion Hrest as [|LA2 ? rA ? HL2 Hr2]; subst.
      destruct Hsm as [HLb Hsmr]. inversion Hsmr as [|? ? HL2s Hrs]; subst.
      pose proof (Forall2_length HL) as Hlen. rewrite <- Hlen in Hs.
      destruct (Nat.eqb (length LA) 0) eqn:E0.
      + destruct (IH (LA2 :: rA) (LB2 :: rB) c topB lgB Hrest ltac:(split; [lia | exact Hrs]) Hs) as (tA & lA & HsA & H0 & Hsem).
        exists tA, lA. split; [exact HsA|]. split; [exact H0|].
        intros Hin HR. inversion HR; subst. now apply Hsem.
      + destruct (negb (Nat.eqb (length LA) b) && Nat.eqb (length LA) 1) eqn:E1.
        * apply andb_true_iff in E1 as [_ E1]. apply Nat.eqb_eq in E1.
          destruct (IH ((LA2 ++ LA) :: rA) ((LB2 ++ LB) :: rB) c topB lgB) as (tA & lA & HsA & H0 & Hsem).
          { constructor; [now apply Forall2_app | exact Hr2]. }
          { split; [rewrite app_length; lia | exact Hrs]. }
          { exact Hs. }
          exists tA, lA. split; [exact HsA|]. split; [exact H0|].
          intros Hin HR. inversion HR as [|? ? ? ? HRL HRr]; subst. inversion HRr; subst.
          apply Hsem; [exact Hin|]. constructor; [now apply Forall2_app | assumption].
        * assert (H2 : (2 <= length LA)%nat).
          { apply Nat.eqb_neq in E0. destruct (Nat.eqb (length LA) b) eqn:Eb; cbn in E1.
            - apply Nat.eqb_eq in Eb. lia.
            - apply Nat.eqb_neq in E1. lia. }
          unfold wrap_level in Hs. unfold pwrap_level.
          destruct (wtlB (LB2 :: rB) (Node LB)) as [[[rB' lB] fB]|] eqn:EwB; [|discriminate].
          cbn [tl] in Hs.
          destruct (sumB n rB') as [[tB lB2]|] eqn:EsB; [|discriminate].
          injection Hs as <- <-.
          destruct (Hs_tot c LA ltac:(lia) (R0_shape _ _ HL)) as (st & rk & Hst). rewrite Hst.
          pose proof (Hs_len _ _ _ _ Hst) as Hrk.
          destruct (pwtl_sim (LA2 :: rA) (LB2 :: rB) (S c) (mkE (le64 (sum_spans LA)) rk) (Node LB) rB' lB fB
                      Hrest (R0_node _ _ rk HL Hrk) Hsmr EwB) as (rA' & lA & HwA & HR0 & Hsm' & Hll & Hsem1).
          rewrite HwA. cbn [tl].
          destruct (IH rA' rB' (c + length (st :: lA))%nat tB lB2 HR0) as (tA & lA2 & HsA & H0 & Hsem2).
          { destruct rA' as [|x r']; [exact I|]. inversion Hsm'; subst. split; [lia | assumption]. }
          { exact EsB. }
          rewrite HsA. exists tA, ((st :: lA) ++ lA2). split; [reflexivity|]. split; [exact H0|].
          intros Hin HR. inversion HR as [|? ? ? ? HRL HRr]; subst.
          apply Hsem2; [intros s Hs; apply Hin, in_or_app; now right|].
          apply Hsem1; [intros s Hs; apply Hin, in_or_app; left; now right | exact HRr |].
          apply (Hstep c LA LB st rk HL HRL H2 Hst). apply Hin, in_or_app. left. now left.
  Qed.
End Sim.
