(** C01 — closed statements for the parametric pipeline (plain and encrypted),
    restated in Props.v. *)
From Coq Require Import List NArith ZArith Bool Lia Arith.
From Coq Require Import ZifyBool ZifyNat ZifyN.
Import ListNotations.
Require Import Aurora.Base.Corr Aurora.Consts.
Require Import Aurora.C02.Model Aurora.C02.Spec Aurora.C02.Proofs.
Require Import Aurora.C07.Model Aurora.C07.Slices Aurora.C07.Proofs Aurora.C07.Main.
Require Import Aurora.C01.Model Aurora.C01.Proofs Aurora.C01.Main.
Require Import Aurora.C01.Pipe Aurora.C01.EncStore Aurora.C01.PipeFinal Aurora.C01.PipeModes Aurora.C01.PipePlain.
Require Aurora.C08.Model Aurora.C02.Main.
Local Open Scope Z_scope.

(** plain upload (the model of C02), opened through the decrypting store as joiner.New does *)
Theorem read_back_plain_dec : forall (H Hk : bytes -> bytes) (chunk refsize : N) (cs b hs : nat),
  (0 < hs)%nat -> (2 <= b)%nat -> Z.of_nat b = Z.of_nat cs / Z.of_nat hs ->
  (forall x, length (H x) = hs) ->
  forall segs : list bytes,
  (len (concat segs) + Z.of_nat cs + 8 < 2 ^ 63) ->
  (length (chunks_of cs (concat segs)) <= b ^ 7)%nat ->
  exists u, upload H cs b hs segs = Ok u /\
    (NoCollision H (u_log u) ->
     let get := get_dec Hk chunk refsize hs (store_of_log H (u_log u)) in
     exists j, joiner_new get (u_root u) = Some j /\ j_off j = 0
               /\ stored get (Z.of_nat cs) (Z.of_nat hs) j (concat segs)).
Proof.
  intros H Hk chunk refsize cs b hs Hrl Hb Hbdef Hlen segs H63 Hcap.
  destruct (plain_read_back H Hk chunk refsize cs b hs Hrl Hb Hbdef Hlen segs H63 Hcap) as (u & Hu & _ & Hrb).
  rewrite pupload_plain in Hu. exists u. split; [exact Hu | exact Hrb].
Qed.

(** encrypted upload: every key and padding oracle, both hashes abstract *)
Theorem read_back_encrypted : forall (Hc Hk : bytes -> bytes) (chunk branching refsize : N) (hs kl : nat)
    (keys : nat -> bytes) (pads : nat -> nat -> N),
  (chunk = refsize * branching)%N -> (2 <= branching)%N -> (2 * chunk <= C08.Model.W64)%N ->
  N.to_nat refsize = (hs + kl)%nat -> (0 < hs)%nat -> (0 < kl)%nat ->
  (forall n, length (keys n) = kl) -> (forall x, (kl <= length (Hk x))%nat) -> (forall x, length (Hc x) = hs) ->
  forall segs : list bytes,
  (len (concat segs) + Z.of_N chunk + 8 < 2 ^ 63) ->
  (length (chunks_of (N.to_nat chunk) (concat segs)) <= N.to_nat branching ^ 7)%nat ->
  exists u, pupload (enc_stage Hc Hk chunk refsize keys pads) (N.to_nat chunk) (N.to_nat branching) (N.to_nat refsize) segs = Ok u
    /\ u_rets u = seg_lens segs /\
    (NoCollision Hc (u_log u) ->
     let get := get_dec Hk chunk refsize hs (store_of_log Hc (u_log u)) in
     exists j, joiner_new get (u_root u) = Some j /\ j_off j = 0
               /\ stored get (Z.of_N chunk) (Z.of_N refsize) j (concat segs)).
Proof.
  intros Hc Hk chunk branching refsize hs kl keys pads H1 H2 H3 H4 H5 H6 H7 H8 H9 segs H63 Hcap.
  destruct (enc_read_back Hc Hk chunk branching refsize hs kl keys pads H1 H2 H3 H4 H5 H6 H7 H8 H9 segs ltac:(lia) Hcap)
    as (u & Hu & Hr & Hrb).
  exists u. split; [exact Hu|]. split; [exact Hr|]. intros Hnc. cbn zeta.
  destruct (Hrb Hnc) as (j & Hj & Ho & Hst). exists j. split; [exact Hj|]. split; [exact Ho|].
  replace (Z.of_N chunk) with (Z.of_nat (N.to_nat chunk)) by lia.
  replace (Z.of_N refsize) with (Z.of_nat (N.to_nat refsize)) by lia. exact Hst.
Qed.

(** constants of the encrypted pipeline *)
Definition EChunk : N := Z.to_N Consts.boson_ChunkSize.
Definition EBranches : N := (Z.to_N Consts.boson_Branches / 2)%N.      (* builder.go: boson.Branches/2 *)
Definition ERefSize : N := Z.to_N (Consts.boson_HashSize + Consts.encryption_KeyLength).
Definition EHash : nat := Z.to_nat Consts.boson_HashSize.
Definition EKey : nat := Z.to_nat Consts.encryption_KeyLength.

Definition consts_ok_C01_enc_b : bool :=
  ((EChunk =? 262144) && (EBranches =? 4096) && (ERefSize =? 64)
   && (ERefSize =? Z.to_N Consts.encryption_ReferenceSize)
   && (EChunk =? ERefSize * EBranches) && (2 <=? EBranches) && (2 * EChunk <=? C08.Model.W64)
   && (2 ^ 63 <? EBranches ^ 7))%N
  && Nat.eqb (N.to_nat ERefSize) (EHash + EKey) && Nat.ltb 0 EHash && Nat.ltb 0 EKey.

Theorem read_back_encrypted_at_source_constants : consts_ok_C01_enc_b = true ->
  forall (Hc Hk : bytes -> bytes) (keys : nat -> bytes) (pads : nat -> nat -> N),
  (forall n, length (keys n) = EKey) -> (forall x, (EKey <= length (Hk x))%nat) -> (forall x, length (Hc x) = EHash) ->
  forall segs : list bytes,
  (len (concat segs) < 2 ^ 63 - 262152) ->
  exists u, pupload (enc_stage Hc Hk EChunk ERefSize keys pads) (N.to_nat EChunk) (N.to_nat EBranches) (N.to_nat ERefSize) segs = Ok u
    /\ u_rets u = seg_lens segs /\
    (NoCollision Hc (u_log u) ->
     let get := get_dec Hk EChunk ERefSize EHash (store_of_log Hc (u_log u)) in
     exists j, joiner_new get (u_root u) = Some j /\ j_off j = 0
               /\ stored get (Z.of_N EChunk) (Z.of_N ERefSize) j (concat segs)).
Proof.
  intros Hc0 Hc Hk keys pads Hkeys HHk HHc segs Hsz.
  unfold consts_ok_C01_enc_b in Hc0. rewrite !andb_true_iff in Hc0.
  destruct Hc0 as ((((((((((C1 & C2) & C3) & C4) & C5) & C6) & C7) & C8) & C9) & C10) & C11).
  apply N.eqb_eq in C1, C2, C3, C5. apply N.leb_le in C6, C7. apply N.ltb_lt in C8.
  apply Nat.eqb_eq in C9. apply Nat.ltb_lt in C10, C11.
  apply (read_back_encrypted Hc Hk EChunk EBranches ERefSize EHash EKey keys pads); try assumption.
  - rewrite C1. lia.
  - pose proof (chunks_of_length_bounds (N.to_nat EChunk) ltac:(lia) (concat segs)) as [_ Hub].
    etransitivity; [exact Hub|].
    apply Nat2Z.inj_le. rewrite Nat2Z.inj_pow, Nat2Z.inj_add, Nat2Z.inj_div.
    replace (Z.of_nat (N.to_nat EBranches)) with 4096 by lia.
    replace (Z.of_nat (N.to_nat EChunk)) with 262144 by lia.
    change (Z.of_nat 7) with 7. change (Z.of_nat 1) with 1.
    assert (Hd1 : len (concat segs) / 262144 <= len (concat segs)) by (apply Z.div_le_upper_bound; lia).
    assert (Hd2 : 2 ^ 63 < 4096 ^ 7) by (vm_compute; reflexivity).
    remember (len (concat segs) / 262144) as q eqn:Eq. clear Eq. lia.
Qed.
