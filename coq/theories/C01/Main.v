(** C01 — upload then open: the joiner sits on a well-formed stored tree for the
    uploaded bytes, hence (C07) reads them back. *)
From Coq Require Import List NArith ZArith Bool Lia Arith.
From Coq Require Import ZifyBool ZifyNat ZifyN.
Import ListNotations.
Require Import Aurora.Base.Corr Aurora.Consts.
Require Import Aurora.C02.Model Aurora.C02.Spec Aurora.C02.Stream Aurora.C02.Proofs.
Require Import Aurora.C07.Model Aurora.C07.Slices Aurora.C07.Proofs Aurora.C07.Main.
Require Import Aurora.C01.Model Aurora.C01.Proofs.
Require Aurora.C02.Main.
Local Open Scope Z_scope.

Lemma concat_group {A} k (l : list A) : (0 < k)%nat -> concat (group k l) = l.
Proof.
  intros Hk. rewrite (group_splitb k l Hk). destruct (splitb_inv k l Hk) as (Hc & _ & _).
  rewrite concat_app. destruct (tailb k l); cbn [concat]; rewrite ?app_nil_r in *; exact Hc.
Qed.

Lemma data_woc (g : list tree) : tree_data (wrap_or_carry Node g) = flat_map tree_data g.
Proof. destruct g as [|x [|y g']]; cbn [wrap_or_carry tree_data flat_map]; try reflexivity. now rewrite app_nil_r. Qed.

Lemma next_level_data b (S0 : list tree) : (0 < b)%nat ->
  flat_map tree_data (next_level Node b S0) = flat_map tree_data S0.
Proof.
  intros Hb. unfold next_level. rewrite <- (concat_group b S0 Hb) at 2.
  induction (group b S0) as [|g G IH]; [reflexivity|].
  cbn [map flat_map concat]. rewrite flat_map_app, data_woc, IH. reflexivity.
Qed.

Lemma iter_level_data b n : (0 < b)%nat -> forall S0 : list tree,
  flat_map tree_data (iter_level Node b n S0) = flat_map tree_data S0.
Proof. intros Hb. induction n as [|n IH]; intros S0; [reflexivity|]. cbn [iter_level]. now rewrite IH, next_level_data. Qed.

Lemma leaves_data cs data : (0 < cs)%nat -> flat_map tree_data (map Leaf (chunks_of cs data)) = data.
Proof.
  intros Hcs. rewrite flat_map_concat_map, map_map. cbn [tree_data]. rewrite map_id.
  destruct data as [|x d]; [reflexivity|]. cbn [chunks_of]. now apply concat_group.
Qed.

Theorem read_back : forall (H : bytes -> bytes) (cs b refLen : nat),
  (0 < refLen)%nat -> (2 <= b)%nat -> Z.of_nat b = Z.of_nat cs / Z.of_nat refLen ->
  (forall x, length (H x) = refLen) ->
  forall segs : list bytes,
  (len (concat segs) + Z.of_nat cs + 8 < 2 ^ 63) ->
  (length (chunks_of cs (concat segs)) <= b ^ 7)%nat ->
  exists u, upload H cs b refLen segs = Ok u /\
    (NoCollision H (u_log u) ->
     exists j, upload_and_open H cs b refLen segs = Some (store_of_log H (u_log u), j)
       /\ j_off j = 0
       /\ stored (get_of_store (store_of_log H (u_log u))) (Z.of_nat cs) (Z.of_nat refLen) j (concat segs)).
Proof.
  intros H cs b refLen Hrl Hb Hbdef Hlen segs H63 Hcap.
  pose proof (Hcs0 cs b refLen Hrl Hb Hbdef) as Hcs.
  destruct (upload_spec H cs b refLen Hcs Hb Hlen segs H63 Hcap) as (u & t & Hu & Ht & Hroot & _ & Hlog).
  exists u. split; [exact Hu|]. intros Hnc. unfold upload_and_open. rewrite Hu. clear Hu.
  remember (concat segs) as data eqn:Edat. remember (map Leaf (chunks_of cs data)) as leaves eqn:Eleaves.
  pose proof (chunks_of_length_bounds cs Hcs data) as [_ Hub].
  assert (Hl1 : (1 <= length leaves <= b ^ 7)%nat).
  { rewrite Eleaves, map_length. split; [|exact Hcap]. clear. destruct data; cbn [chunks_of length]; [lia|].
    unfold group. cbn [length group_fuel]. lia. }
  destruct (iter_level_singleton Node b Hb 7 leaves Hl1) as (t' & Hit).
  assert (Ht' : t' = t).
  { pose proof (build_iter Node b Hb 7 leaves (length leaves) t' ltac:(lia) Hit) as Hbd.
    unfold spec_tree in Ht. rewrite <- Eleaves in Ht. congruence. }
  subst t'.
  assert (Hdata : tree_data t = data).
  { pose proof (iter_level_data b 7 ltac:(lia) leaves) as Hd. rewrite Hit in Hd. cbn [flat_map] in Hd.
    rewrite app_nil_r in Hd. rewrite Hd, Eleaves. now apply leaves_data. }
  (* the tree is well formed and all its chunks were Put *)
  assert (Hwf : wf cs b refLen 7 t /\ (forall c, In c (tree_chunks H t) -> In c (u_log u))).
  { assert (Hcase : data = [] \/ data <> []) by (destruct data; [now left | right; discriminate]).
    destruct Hcase as [Hnil | Hne].
    - rewrite Hnil in Eleaves. cbn [chunks_of map] in Eleaves. rewrite Eleaves in Hit.
      rewrite iter_level_single in Hit by exact Hb.
      injection Hit as <-. split.
      + do 7 apply wf_mono. exists []. split; [reflexivity | cbn; lia].
      + intros c Hc. apply Hlog. left. rewrite Hnil. cbn [chunks_of map]. exact Hc.
    - destruct (iter_level_ok H cs b refLen Hrl Hb Hbdef Hlen 7 0 leaves (u_log u)) as [Hok Hch].
      + rewrite Eleaves. now apply (leaves_level_ok H).
      + intros t0 Ht0 c Hc. rewrite Eleaves in Ht0. apply in_map_iff in Ht0 as (d & <- & Hd). apply Hlog. left.
        cbn [tree_chunks] in Hc. destruct Hc as [<-|[]]. apply in_map_iff. exists d. split; [reflexivity | exact Hd].
      + intros p Hp. apply Hlog. right. exact Hp.
      + rewrite Hit in Hok, Hch. destruct Hok as (front & last & Hfl & _ & Hwl & _).
        destruct front as [|f0 front']; [|destruct front'; discriminate].
        injection Hfl as <-. split; [exact Hwl|]. intros c Hc. apply (Hch t); [now left | exact Hc]. }
  destruct Hwf as [Hwf Hin].
  assert (Hlt : len (tree_data t) < 2 ^ 63) by (rewrite Hdata; lia).
  pose proof (wf_Repr H cs b refLen Hrl Hb Hbdef Hlen (u_log u) Hnc 7 t Hwf Hin Hlt) as Hrep.
  pose proof (get_tree H cs b refLen Hrl Hb (u_log u) Hnc t (Hin _ (tree_chunks_head H t)) Hlt) as Hget.
  exists (mkJ (len (tree_data t)) (of_list (tree_payload H t)) 0).
  unfold joiner_new. rewrite Hroot, Hget.
  split; [reflexivity|]. split; [reflexivity|]. rewrite <- Hdata.
  split; [exists 7%nat; exact Hrep | exact Hlt].
Qed.

(** decidable form of the collision hypothesis *)
Definition nocoll_b (H : bytes -> bytes) (log : list bytes) : bool :=
  forallb (fun p => forallb (fun q => implb (bytes_eqb (H p) (H q)) (bytes_eqb p q)) log) log.
Lemma nocoll_b_sound H log : nocoll_b H log = true -> NoCollision H log.
Proof.
  unfold nocoll_b. intros Hb p q Hp Hq Heq. rewrite forallb_forall in Hb. specialize (Hb p Hp).
  rewrite forallb_forall in Hb. specialize (Hb q Hq).
  assert (He : bytes_eqb (H p) (H q) = true) by now apply bytes_eqb_eq.
  rewrite He in Hb. cbn in Hb. now apply bytes_eqb_eq.
Qed.

(** the whole content through one ReadAt, and the reported size *)
Theorem round_trip : forall (H : bytes -> bytes) (cs b refLen : nat),
  (0 < refLen)%nat -> (2 <= b)%nat -> Z.of_nat b = Z.of_nat cs / Z.of_nat refLen ->
  (forall x, length (H x) = refLen) ->
  forall segs : list bytes,
  (len (concat segs) + Z.of_nat cs + 8 < 2 ^ 63) ->
  (length (chunks_of cs (concat segs)) <= b ^ 7)%nat ->
  exists u, upload H cs b refLen segs = Ok u /\
    (NoCollision H (u_log u) ->
     exists st j, upload_and_open H cs b refLen segs = Some (st, j)
       /\ j_span j = len (concat segs)
       /\ (forall buf, len buf = len (concat segs) ->
           exists ws, read_at (get_of_store st) (Z.of_nat cs) (Z.of_nat refLen) j (len buf) (len buf) 0
                        = (len (concat segs), ws, if len (concat segs) =? 0 then REOF else RNil)
                      /\ apply_writes buf ws = concat segs)).
Proof.
  intros H cs b refLen Hrl Hb Hbdef Hlen segs H63 Hcap.
  destruct (read_back H cs b refLen Hrl Hb Hbdef Hlen segs H63 Hcap) as (u & Hu & Hrb).
  exists u. split; [exact Hu|]. intros Hnc. destruct (Hrb Hnc) as (j & Ho & Hoff & Hst).
  exists (store_of_log H (u_log u)), j. split; [exact Ho|].
  assert (Hp : params_ok (Z.of_nat cs) (Z.of_nat refLen)) by (split; [lia | rewrite <- Hbdef; lia]).
  pose proof (size_is_length _ _ _ j _ Hp Hst) as Hsz. split; [exact Hsz|].
  intros buf Hbuf.
  destruct (read_at_contract _ _ _ j _ Hp Hst (len buf) (len buf) 0 buf ltac:(lia) ltac:(lia) eq_refl) as [Heof Hin].
  destruct (len (concat segs) =? 0) eqn:E0.
  - apply Z.eqb_eq in E0. exists []. rewrite Heof by lia. rewrite E0. split; [reflexivity|].
    cbn [apply_writes fold_left]. destruct buf; [|cbn [length] in Hbuf; lia]. destruct (concat segs); [reflexivity | cbn [length] in E0; lia].
  - apply Z.eqb_neq in E0. destruct (Hin ltac:(lia)) as (ws & Hr & _ & Hb').
    rewrite Hbuf, Z.sub_0_r, Z.min_id in Hr, Hb'. exists ws. split; [rewrite Hbuf; exact Hr|].
    rewrite Hb', slice_all. rewrite skipn_all2 by lia. apply app_nil_r.
Qed.

Definition consts_ok_C01_b : bool :=
  ((Consts.boson_ChunkSize =? 262144) && (Consts.boson_Branches =? 8192) && (Consts.boson_HashSize =? 32)
   && (Consts.boson_SpanSize =? 8) && (Consts.boson_Branches =? Consts.boson_ChunkSize / Consts.boson_HashSize))%Z.

Theorem read_back_at_source_constants : consts_ok_C01_b = true ->
  forall (H : bytes -> bytes), (forall x, length (H x) = C02.Main.HashSize) ->
  forall segs : list bytes,
  (len (concat segs) < 2 ^ 63 - 262152) ->
  exists u, upload H C02.Main.ChunkSize C02.Main.Branches C02.Main.HashSize segs = Ok u /\
    (NoCollision H (u_log u) ->
     exists j, upload_and_open H C02.Main.ChunkSize C02.Main.Branches C02.Main.HashSize segs = Some (store_of_log H (u_log u), j)
       /\ j_off j = 0
       /\ stored (get_of_store (store_of_log H (u_log u))) Consts.boson_ChunkSize Consts.boson_HashSize j (concat segs)).
Proof.
  intros Hc H Hlen segs Hsz.
  unfold consts_ok_C01_b in Hc. rewrite !andb_true_iff in Hc. destruct Hc as ((((H1 & H2) & H3) & H4) & H5).
  apply Z.eqb_eq in H1, H2, H3, H4, H5.
  assert (Hc2 : C02.Main.consts_ok_C02_b = true) by (vm_compute; reflexivity).
  destruct (C02.Main.ChunkSize_val Hc2) as [Hcs Hbr].
  assert (Hhs : Z.of_nat C02.Main.HashSize = 32) by (unfold C02.Main.HashSize; rewrite H3; reflexivity).
  destruct (read_back H C02.Main.ChunkSize C02.Main.Branches C02.Main.HashSize) with (segs := segs) as (u & Hu & Hrb); try assumption; try lia.
  - exact (C02.Main.source_capacity Hc2 (concat segs) Hsz).
  - exists u. split; [exact Hu|]. intros Hnc. destruct (Hrb Hnc) as (j & Ho & Hoff & Hst). exists j.
    split; [exact Ho|]. split; [exact Hoff|]. rewrite Hcs, Hhs in Hst. rewrite H1, H3. exact Hst.
Qed.

(** ** a complete toy run inside Coq: chunk size 4, branching 2, 2-byte references *)
Definition ex_H (x : bytes) : bytes :=
  [fold_left (fun a y => (a * 7 + y + 3) mod 256)%N x 5%N; fold_left N.lxor x (N.of_nat (length x))].
Definition ex_segs : list bytes := [[10;11;12]; []; [13;14;15;16;17;18;19;20;21]; [22]]%N.
