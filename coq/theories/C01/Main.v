(** C01 — upload then open: the joiner sits on a well-formed stored tree for the
    uploaded bytes, hence (C07) reads them back. *)
From Coq Require Import List NArith ZArith Bool Lia Arith.
From Coq Require Import ZifyBool ZifyNat ZifyN.
Import ListNotations.
Require Import Aurora.Base.Corr Aurora.Consts.
Require Import Aurora.C02.Model Aurora.C02.Spec Aurora.C02.Stream Aurora.C02.Proofs.
Require Import Aurora.C07.Model Aurora.C07.Slices Aurora.C07.Proofs Aurora.C07.Main.
Require Import Aurora.C01.Model Aurora.C01.Proofs.
Local Open Scope Z_scope.

Lemma concat_group {A} k (l : list A) : (0 < k)%nat -> concat (group k l) = l.
Proof.
  intros Hk. rewrite (group_splitb k l Hk). destruct (splitb_inv k l Hk) as (Hc & _ & _).
  rewrite concat_app. destruct (tailb k l); cbn [concat]; rewrite ?app_nil_r in *; exact Hc.
Qed.

Lemma data_woc (g : list tree) : tree_data (wrap_or_carry Node g) = flat_map tree_data g.
Proof. destruct g as [|x [|y g']]; cbn [wrap_or_carry tree_data flat_map]; try reflexivity. now rewrite app_nil_r. Qed.

Lemma next_level_data b (S0 : list tree) : (0 < b)%nat ->
  flat_map tree_data (next_level Node b S0) = flat_map tree_data S0.
Proof.
  intros Hb. unfold next_level. rewrite <- (concat_group b S0 Hb) at 2.
  induction (group b S0) as [|g G IH]; [reflexivity|].
  cbn [map flat_map concat]. rewrite flat_map_app, data_woc, IH. reflexivity.
Qed.

Lemma iter_level_data b n : (0 < b)%nat -> forall S0 : list tree,
  flat_map tree_data (iter_level Node b n S0) = flat_map tree_data S0.
Proof. intros Hb. induction n as [|n IH]; intros S0; [reflexivity|]. cbn [iter_level]. now rewrite IH, next_level_data. Qed.

Lemma leaves_data cs data : (0 < cs)%nat -> flat_map tree_data (map Leaf (chunks_of cs data)) = data.
Proof.
  intros Hcs. rewrite flat_map_concat_map, map_map. cbn [tree_data]. rewrite map_id.
  destruct data as [|x d]; [reflexivity|]. cbn [chunks_of]. now apply concat_group.
Qed.

Theorem read_back : forall (H : bytes -> bytes) (cs b refLen : nat),
  (0 < refLen)%nat -> (2 <= b)%nat -> Z.of_nat b = Z.of_nat cs / Z.of_nat refLen ->
  (forall x, length (H x) = refLen) ->
  forall segs : list bytes,
  (len (concat segs) + Z.of_nat cs + 8 < 2 ^ 63) ->
  (length (chunks_of cs (concat segs)) <= b ^ 7)%nat ->
  exists u, upload H cs b refLen segs = Ok u /\
    (NoCollision H (u_log u) ->
     exists j, upload_and_open H cs b refLen segs = Some (store_of_log H (u_log u), j)
       /\ j_off j = 0
       /\ stored (get_of_store (store_of_log H (u_log u))) (Z.of_nat cs) (Z.of_nat refLen) j (concat segs)).
Proof.
  intros H cs b refLen Hrl Hb Hbdef Hlen segs H63 Hcap.
  pose proof (Hcs0 cs b refLen Hrl Hb Hbdef) as Hcs.
  destruct (upload_spec H cs b refLen Hcs Hb Hlen segs H63 Hcap) as (u & t & Hu & Ht & Hroot & _ & Hlog).
  exists u. split; [exact Hu|]. intros Hnc. unfold upload_and_open. rewrite Hu. clear Hu.
  remember (concat segs) as data eqn:Edat. remember (map Leaf (chunks_of cs data)) as leaves eqn:Eleaves.
  pose proof (chunks_of_length_bounds cs Hcs data) as [_ Hub].
  assert (Hl1 : (1 <= length leaves <= b ^ 7)%nat).
  { rewrite Eleaves, map_length. split; [|exact Hcap]. clear. destruct data; cbn [chunks_of length]; [lia|].
    unfold group. cbn [length group_fuel]. lia. }
  destruct (iter_level_singleton Node b Hb 7 leaves Hl1) as (t' & Hit).
  assert (Ht' : t' = t).
  { pose proof (build_iter Node b Hb 7 leaves (length leaves) t' ltac:(lia) Hit) as Hbd.
    unfold spec_tree in Ht. rewrite <- Eleaves in Ht. congruence. }
  subst t'.
  assert (Hdata : tree_data t = data).
  { pose proof (iter_level_data b 7 ltac:(lia) leaves) as Hd. rewrite Hit in Hd. cbn [flat_map] in Hd.
    rewrite app_nil_r in Hd. rewrite Hd, Eleaves. now apply leaves_data. }
  (* the tree is well formed and all its chunks were Put *)
  assert (Hwf : wf cs b refLen 7 t /\ (forall c, In c (tree_chunks H t) -> In c (u_log u))).
  { assert (Hcase : data = [] \/ data <> []) by (destruct data; [now left | right; discriminate]).
    destruct Hcase as [Hnil | Hne].
    - rewrite Hnil in Eleaves. cbn [chunks_of map] in Eleaves. rewrite Eleaves in Hit.
      rewrite iter_level_single in Hit by exact Hb.
      injection Hit as <-. split.
      + do 7 apply wf_mono. exists []. split; [reflexivity | cbn; lia].
      + intros c Hc. apply Hlog. left. rewrite Hnil. cbn [chunks_of map]. exact Hc.
    - destruct (iter_level_ok H cs b refLen Hrl Hb Hbdef 7 0 leaves (u_log u)) as [Hok Hch].
      + rewrite Eleaves. now apply leaves_level_ok.
      + intros t0 Ht0 c Hc. rewrite Eleaves in Ht0. apply in_map_iff in Ht0 as (d & <- & Hd). apply Hlog. left.
        cbn [tree_chunks] in Hc. destruct Hc as [<-|[]]. apply in_map_iff. exists d. split; [reflexivity | exact Hd].
      + intros p Hp. apply Hlog. right. rewrite <- Eleaves. exact Hp.
      + rewrite Hit in Hok, Hch. destruct Hok as (front & last & Hfl & _ & Hwl & _).
        destruct front as [|f0 front']; [|destruct front'; discriminate].
        injection Hfl as <-. split; [exact Hwl|]. intros c Hc. apply (Hch t); [now left | exact Hc]. }
  destruct Hwf as [Hwf Hin].
  assert (Hlt : len (tree_data t) < 2 ^ 63) by (rewrite Hdata; lia).
  pose proof (wf_Repr H cs b refLen Hrl Hb Hbdef Hlen (u_log u) Hnc 7 t Hwf Hin Hlt) as Hrep.
  pose proof (get_tree H (u_log u) Hnc t (Hin _ (tree_chunks_head H t)) Hlt) as Hget.
  exists (mkJ (len (tree_data t)) (of_list (tree_payload H t)) 0).
  unfold joiner_new. rewrite Hroot, Hget.
  split; [reflexivity|]. split; [reflexivity|]. rewrite <- Hdata.
  split; [exists 7%nat; exact Hrep | exact Hlt].
Qed.
