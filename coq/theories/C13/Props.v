(** C13 — property theorems only.  Model: Aurora.C11.Model (pkg/localstore with
    the repaired setPin of proposed/C13/fix-setpin-gcsize.patch). *)
From Coq Require Import List NArith ZArith Bool Lia.
Import ListNotations.
Require Import Aurora.Consts Aurora.C11.Model Aurora.C13.ProofsCounter Aurora.C13.ProofsHistory Aurora.C13.Witness Aurora.C11.Conc Aurora.C13.Conc.
Local Open Scope N_scope.

(** the per-run candidate limit the histories of the harness use by default *)
Lemma consts_ok_C13 : (Consts.localstore_gcBatchSize =? 10000)%Z && (0 <=? Consts.boson_MaxPO)%Z = true.
Proof. vm_compute. reflexivity. Qed.

(** "Outside a collection run gcSize equals the total of the GCounter values,
    which is what the store recomputes when reopened" is FALSE for the code:
    one history per way (all reproduce on the Go code, see notes/C13.md). *)
Theorem C13_counter_invariant_refuted :
  forall w, In w [w_batch; w_sync; w_pin_abort; w_uploadpin; w_set_batch] ->
  let s := exec po0 1000 init w in
  s_gcrun s = None /\ s_gcsize s <> gc_sum (s_gc s).
Proof.
  intros w Hw. simpl in Hw.
  repeat (destruct Hw as [<- | Hw]; [vm_compute; split; [reflexivity | discriminate] |]). contradiction.
Qed.
Print Assumptions C13_counter_invariant_refuted.

(** and a collection run itself breaks it (capacity 4, target 3): nothing
    recycled -> counter forced to 0; a chunk of the evicted file already gone
    -> counter decremented by less than the entry that is deleted *)
Theorem C13_counter_invariant_refuted_by_gc :
  (let s := exec po0 4 init w_force in s_gcrun s = None /\ s_gcsize s = 0 /\ gc_sum (s_gc s) = 5) /\
  (let s := exec po0 4 init w_account in s_gcrun s = None /\ s_gcsize s = 3 /\ gc_sum (s_gc s) = 2).
Proof. vm_compute. repeat split; reflexivity. Qed.
Print Assumptions C13_counter_invariant_refuted_by_gc.

(** what holds.  Class of histories ([safe_op], ProofsHistory.v): puts without a
    root hash in the context (any mode, any number of chunks); request /
    request-pin puts of ONE chunk under a context; gets in every mode;
    multi-gets except ModeGetRequest; has; set remove/pin/unpin of at most one
    address per call (with or without context); reopen; pinned clock strictly
    increasing from call to call; fewer than 2^64 calls.  Excluded (each
    witnessed above): calls carrying a context and more than one chunk/address,
    ModeSetSync, pinned uploads under a context, collection runs.
    Then gcSize = total of GCounter, and that is what a reopen recomputes and keeps. *)
Theorem C13_counter_invariant_partial : forall (po : addr -> N) (capacity : N) (h : list op),
  forallb safe_op h = true -> clock_ok 0 h -> N.of_nat (length h) < W64 ->
  let s := exec po capacity init h in
  s_gcsize s = gc_sum (s_gc s) /\
  gc_sum64 (s_gc s) = s_gcsize s /\
  s_gcsize (fst (reopen s)) = s_gcsize s.
Proof.
  intros po capacity h Hs Hc Hl.
  assert (J0 : J init 0 0).
  { apply J_intro; simpl; try reflexivity; try lia.
    - split; [constructor | intros k c []].
    - intros a ts []. }
  destruct (exec_J po capacity h init 0 0 J0 ltac:(lia) Hs Hc) as [T' HJ].
  cbv zeta. pose proof HJ as (A & B & C & D). simpl in D.
  split; [exact A|]. split.
  - rewrite gc_sum64_mod, <- A. apply N.mod_small. lia.
  - apply (reopen_J _ T' _ HJ). lia.
Qed.
Print Assumptions C13_counter_invariant_partial.

(** "whenever collection has quiesced the recorded total does not exceed the
    capacity" is FALSE: every candidate unknown to chunkinfo (or dirty) ->
    the run writes gcSize 0 and reports done, five cached chunks stay recorded
    with capacity 4 *)
Theorem C13_bounded_after_quiesce_refuted :
  exists po cap h,
    last (snd (run po cap init h)) RBad = RGcEnd 5 true /\
    s_gcrun (exec po cap init h) = None /\
    cap < gc_sum (s_gc (exec po cap init h)).
Proof. exists po0, 4, w_force. vm_compute. repeat split; reflexivity. Qed.
Print Assumptions C13_bounded_after_quiesce_refuted.

(** what holds, from EVERY state and for every chunkinfo table: when a run
    reports done, the PERSISTED COUNTER is at most the target (the harness
    checks target <= capacity on the real gcTarget), the run is over, and if
    the counter equation holds in the resulting state then the recorded total
    is bounded too.  A run that finds the counter at or below the target does
    nothing. *)
Theorem C13_bounded_after_quiesce_partial :
  (forall pyr s s' c, gc_end pyr s = (s', RGcEnd c true) ->
     exists ctx, s_gcrun s = Some ctx /\ s_gcrun s' = None /\ s_gcsize s' <= g_target ctx /\
                 (s_gcsize s' = gc_sum (s_gc s') -> gc_sum (s_gc s') <= g_target ctx)) /\
  (forall target bs s s', gc_begin target bs s = (s', RGcBegin (Some (0, true))) -> s' = s /\ s_gcsize s <= target).
Proof.
  split.
  - intros pyr s s' c H. destruct (gc_end_bound pyr s s' c H) as (ctx & H1 & H2 & H3).
    exists ctx. repeat split; try assumption. intros E. now rewrite <- E.
  - exact gc_begin_bound.
Qed.
Print Assumptions C13_bounded_after_quiesce_partial.

(** CONCURRENCY (interleaving model Conc.v).  n overlapping request-mode Gets
    of one cached file; at HEAD the whole of updateGC runs under batchMu (one
    atomic action).  For ALL schedules: exactly one gc entry for the root,
    keyed by its access timestamp, GCounter unchanged; gcSize unchanged and
    equal to the total. *)
Theorem C13_concurrent_gets_one_entry : forall (t0 c other clock : N) (n : nat) (sched : list nat),
  0 < t0 -> t0 < clock ->
  let st := g_run false (g_init t0 c other clock n) sched in
  g_ent (fst st) = [(g_access (fst st), c)] /\
  g_size (fst st) = c + other /\ g_sum (g_ent (fst st)) + other = g_size (fst st).
Proof. exact concurrent_gets_one_entry. Qed.
Print Assumptions C13_concurrent_gets_one_entry.

(** seeded change C13-3 (gc entry looked up before batchMu is taken): schedule
    [0;1;0;1] of two Gets — two gc entries with the full GCounter each, gcSize unchanged *)
Theorem C13_concurrent_gets_seeded_refuted :
  let st := g_run true (g_init 5 3 4 10 2) [0; 1; 0; 1]%nat in
  snd st = [GDone; GDone] /\ g_ent (fst st) = [(11, 3); (10, 3)] /\ g_size (fst st) = 7 /\
  g_sum (g_ent (fst st)) + 4 = 10.
Proof. exact concurrent_gets_seeded_refuted. Qed.
Print Assumptions C13_concurrent_gets_seeded_refuted.

(** non-vacuity: a safe history (cache two files chunk by chunk, read, pin a
    file chunk by chunk twice over, unpin, remove, reopen) *)
Example C13_example :
  let h := cacheA ++ cacheB ++
           [OGet 20 GRequest (Some R) x1; OSet 21 SPin (Some R) [R]; OSet 22 SPin (Some R) [x1]; OSet 23 SPin (Some R) [x2];
            OSet 24 SPin (Some R) [x1]; OSet 25 SUnpin (Some R) [x2]; OSet 26 SRemove (Some R2) [x3]; OReopen;
            OPut 30 PUploadPin None [(x3, [1]); (x3, [1])]] in
  forallb safe_op h = true /\ clock_ok 0 h /\
  s_gcsize (exec po0 100 init h) = 2 /\ gc_sum (s_gc (exec po0 100 init h)) = 2.
Proof. vm_compute. repeat split; reflexivity. Qed.
