(** C13 — the counter invariant along histories of "safe" calls. *)
From Coq Require Import List NArith ZArith Bool Lia.
Import ListNotations.
Require Import Aurora.C11.Model Aurora.C11.Maps Aurora.C13.ProofsCounter.
Local Open Scope N_scope.

Lemma quiet_nil : quiet [].
Proof. repeat split; intros x; reflexivity. Qed.
Lemma quiet_app a b : quiet a -> quiet b -> quiet (a ++ b).
Proof.
  intros (A1 & A2 & A3) (B1 & B2 & B3). repeat split; intros x; rewrite fold_left_app.
  - now rewrite A1, B1.
  - now rewrite A2, B2.
  - now rewrite A3, B3.
Qed.
Lemma quiet_bins l : quiet (map (fun pi : N * N => WBin (fst pi) (snd pi)) l).
Proof. induction l as [|x l (I1 & I2 & I3)]; [apply quiet_nil|]. repeat split; intros m; simpl; auto. Qed.

Section History.
  Variable po : addr -> N.
  Variable capacity : N.

  Lemma finish_J s s' b ch T n t pre ws post :
    J s T n -> b = pre ++ ws ++ post -> quiet pre -> quiet post -> Eff s t ch s' ws -> n + 1 < W64 ->
    J (fst (finish capacity s' b ch)) t (n + 1).
  Proof.
    intros (A & B & C & D) -> (P1 & P2 & P3) (Q1 & Q2 & Q3) (E1 & E2 & E3 & E4 & E5 & E6) Hn.
    assert (Fg : fold_left gw (pre ++ ws ++ post) (s_gc s') = fold_left gw ws (s_gc s')) by now rewrite !fold_left_app, P1, Q1.
    assert (Fa : fold_left aw (pre ++ ws ++ post) (s_access s') = fold_left aw ws (s_access s')) by now rewrite !fold_left_app, P2, Q2.
    assert (Fz : fold_left zw (pre ++ ws ++ post) (s_gcsize s') = s_gcsize s') by now rewrite !fold_left_app, P3, E2, Q3.
    assert (Fg' : forall x, fold_left gw ((pre ++ ws ++ post) ++ [WGcSize x]) (s_gc s') = fold_left gw ws (s_gc s'))
      by (intros x; rewrite fold_left_app, Fg; reflexivity).
    assert (Fa' : forall x, fold_left aw ((pre ++ ws ++ post) ++ [WGcSize x]) (s_access s') = fold_left aw ws (s_access s'))
      by (intros x; rewrite fold_left_app, Fa; reflexivity).
    assert (Fz' : forall x, fold_left zw ((pre ++ ws ++ post) ++ [WGcSize x]) (s_gcsize s') = x)
      by (intros x; rewrite fold_left_app; reflexivity).
    assert (Hch : ch = (-1)%Z \/ ch = 0%Z \/ ch = 1%Z) by lia.
    unfold finish. destruct Hch as [-> | [-> | ->]]; simpl.
    - (* -1 *)
      destruct (s_gcsize s' <? 1) eqn:El.
      + apply N.ltb_lt in El. exfalso. lia.
      + apply N.ltb_ge in El. simpl.
        apply J_intro; rewrite ?s_gc_commit, ?s_access_commit, ?s_gcsize_commit, ?Fg', ?Fa', ?Fz'; try assumption; lia.
    - apply J_intro; rewrite ?s_gc_commit, ?s_access_commit, ?s_gcsize_commit, ?Fg, ?Fa, ?Fz; try assumption; lia.
    - assert (Hw : wadd (s_gcsize s') 1 = s_gcsize s' + 1) by (apply wadd_small; lia).
      rewrite Hw.
      apply J_intro; rewrite ?s_gc_commit, ?s_access_commit, ?s_gcsize_commit, ?Fg', ?Fa', ?Fz'; try assumption; lia.
  Qed.

  (** a put without a root hash in the context does not touch gc bookkeeping *)
  Lemma put_one_noroot t mode s b acc c :
    match put_one po t mode None s b acc c with
    | Ok acc' s' b' => s' = s /\ pa_change acc' = pa_change acc /\ exists ws, b' = b ++ ws /\ quiet ws
    | Fail e s' => s' = s
    end.
  Proof.
    destruct c as [a d]. unfold put_one.
    destruct (mem_addr a (pa_seen acc)).
    { split; [reflexivity|]. split; [reflexivity|]. exists []. rewrite app_nil_r. split; [reflexivity | apply quiet_nil]. }
    destruct (inc_bin_id s (pa_bins acc) (po a)) as [id bins'].
    destruct mode; simpl; try reflexivity;
      destruct (data_has s a); simpl;
      try (split; [reflexivity|]; split; [simpl; lia|]; exists []; rewrite app_nil_r; split; [reflexivity | apply quiet_nil]);
      try (split; [reflexivity|]; split; [simpl; lia|]; rewrite <- ?app_assoc; eexists; split; [reflexivity|]; repeat split; intros x; reflexivity).
  Qed.

  Lemma put_loop_noroot t mode chs : forall s b acc,
    match put_loop po t mode None s b acc chs with
    | Ok acc' s' b' => s' = s /\ pa_change acc' = pa_change acc /\ exists ws, b' = b ++ ws /\ quiet ws
    | Fail e s' => s' = s
    end.
  Proof.
    induction chs as [|c chs IH]; intros s b acc; simpl.
    { split; [reflexivity|]. split; [reflexivity|]. exists []. rewrite app_nil_r. split; [reflexivity | apply quiet_nil]. }
    pose proof (put_one_noroot t mode s b acc c) as H1.
    destruct (put_one po t mode None s b acc c) as [acc1 s1 b1|e s1]; [|exact H1].
    destruct H1 as (-> & Hc & ws1 & -> & Q1).
    specialize (IH s (b ++ ws1) acc1).
    destruct (put_loop po t mode None s (b ++ ws1) acc1 chs) as [acc2 s2 b2|e s2]; [|exact IH].
    destruct IH as (-> & Hc2 & ws2 & -> & Q2). split; [reflexivity|]. split; [congruence|].
    exists (ws1 ++ ws2). rewrite app_assoc. split; [reflexivity | now apply quiet_app].
  Qed.

  (** the class of calls for which the accounting is maintained *)
  Definition safe_op (o : op) : bool :=
    match o with
    | OPut _ _ None _ => true
    | OPut _ (PRequest | PRequestPin) (Some _) [_] => true
    | OPut _ _ _ _ => false
    | OGet _ _ _ _ => true
    | OGetMulti _ GRequest _ => false
    | OGetMulti _ _ _ => true
    | OHas _ _ | OHasMulti _ _ => true
    | OSet _ SSync _ _ => false
    | OSet _ _ _ [] | OSet _ _ _ [_] => true
    | OSet _ _ _ _ => false
    | OReopen => true
    | OGcBegin _ _ | OGcEnd _ => false
    end.
  Definition op_time (o : op) : option N :=
    match o with
    | OPut t _ _ _ | OGet t _ _ _ | OGetMulti t _ _ | OSet t _ _ _ => Some t
    | _ => None
    end.
  (** the pinned clock strictly increases from call to call *)
  Fixpoint clock_ok (T : N) (h : list op) : Prop :=
    match h with
    | [] => True
    | o :: rest => match op_time o with
                   | Some t => T < t /\ clock_ok t rest
                   | None => clock_ok T rest
                   end
    end.

  Opaque set_gc_root set_pin_item inc_bin_id finish set_remove set_unpin.
  Lemma put_J t mode root chs s T n :
    J s T n -> T < t -> n + 1 < W64 -> safe_op (OPut t mode root chs) = true ->
    J (fst (put po capacity t mode root chs s)) t (n + 1).
  Proof.
    intros HJ Ht Hn Hsafe.
    assert (Hmono : J s t (n + 1)) by (apply (J_mono _ T _ n); [lia | lia | exact HJ]).
    unfold put.
    destruct (match chs with [(a, _)] => negb (pin_mode mode) && data_has s a | _ => false end); [exact Hmono|].
    pose proof (mark_dirty_J s (map fst chs) T n HJ) as HJ1.
    assert (Hmono1 : J (mark_dirty s (map fst chs)) t (n + 1)) by (apply (J_mono _ T _ n); [lia | lia | exact HJ1]).
    set (s1 := mark_dirty s (map fst chs)) in *.
    destruct root as [r|].
    - (* one chunk under a context, request modes *)
      destruct chs as [|[a d] [|]]; try (destruct mode; discriminate).
      assert (Qd : forall e, quiet [WData a e]) by (intros e; repeat split; intros x; reflexivity).
      destruct mode; try discriminate; simpl; unfold put_one; simpl;
        destruct (inc_bin_id s1 [] (po a)) as [id bins'];
        destruct (data_has s1 a); simpl.
      + match goal with |- context [finish capacity ?sx ?B ?c] =>
          assert (QB : quiet B) by (first [exact quiet_nil | apply quiet_bins]);
          pose proof (finish_J s1 sx B c T n t [] [] B HJ1 eq_refl quiet_nil QB (Eff_nil s1 T n t HJ1 ltac:(lia)) Hn) as HF;
          destruct (finish capacity sx B c) as [s'' trig]; exact HF end.
      + pose proof (set_gc_root_eff t s1 ([] ++ [WData a {| d_bin := id; d_ts := t; d_data := d |}]) (Some r)
                      (if bytes_eqb a r then id else 0) T n HJ1 ltac:(lia) Hn) as HG.
        destruct (set_gc_root t s1 _ (Some r) _) as [ch s' b'|e s']; [|subst s'; exact Hmono1].
        destruct HG as (ws & -> & HE). simpl.
        match goal with |- context [finish capacity ?sx ?B ?c] =>
          pose proof (finish_J s1 sx B c T n t [WData a {| d_bin := id; d_ts := t; d_data := d |}] ws
                        (map (fun pi : N * N => WBin (fst pi) (snd pi)) bins') HJ1 eq_refl (Qd _) (quiet_bins _) HE Hn) as HF;
          destruct (finish capacity sx B c) as [s'' trig]; exact HF end.
      + match goal with |- context [finish capacity ?sx ?B ?c] =>
          assert (QB : quiet B) by (first [exact quiet_nil | apply quiet_bins]);
          pose proof (finish_J s1 sx B c T n t [] [] B HJ1 eq_refl quiet_nil QB (Eff_nil s1 T n t HJ1 ltac:(lia)) Hn) as HF;
          destruct (finish capacity sx B c) as [s'' trig]; exact HF end.
      + pose proof (set_pin_item_eff t s1 ([] ++ [WData a {| d_bin := id; d_ts := t; d_data := d |}]) a (Some r)
                      (if bytes_eqb a r then id else 0) T n HJ1 ltac:(lia) Hn) as HG.
        destruct (set_pin_item s1 _ a (Some r) _) as [ch s' b'|e s']; [|subst s'; exact Hmono1].
        destruct HG as (ws & -> & HE). simpl.
        match goal with |- context [finish capacity ?sx ?B ?c] =>
          pose proof (finish_J s1 sx B c T n t [WData a {| d_bin := id; d_ts := t; d_data := d |}] ws
                        (map (fun pi : N * N => WBin (fst pi) (snd pi)) bins') HJ1 eq_refl (Qd _) (quiet_bins _) HE Hn) as HF;
          destruct (finish capacity sx B c) as [s'' trig]; exact HF end.
    - (* no context *)
      destruct mode; try exact Hmono1;
        (match goal with |- context [put_loop po t ?m None s1 [] ?acc chs] =>
           pose proof (put_loop_noroot t m chs s1 [] acc) as HL;
           destruct (put_loop po t m None s1 [] acc chs) as [acc' s' b'|e s'] end;
         [ destruct HL as (-> & Hc & ws & -> & Q); simpl in Hc; rewrite Hc; simpl;
           match goal with |- context [finish capacity ?sx ?B ?c] =>
             pose proof (finish_J s1 sx B c T n t [] [] B HJ1 eq_refl quiet_nil (quiet_app _ _ Q (quiet_bins _)) (Eff_nil s1 T n t HJ1 ltac:(lia)) Hn) as HF;
             destruct (finish capacity sx B c) as [s'' trig]; exact HF end
         | subst s'; exact Hmono1 ]).
  Qed.

  Lemma set_J t mode root addrs s T n :
    J s T n -> T < t -> n + 1 < W64 -> safe_op (OSet t mode root addrs) = true ->
    J (fst (set capacity t mode root addrs s)) t (n + 1).
  Proof.
    intros HJ Ht Hn Hsafe. unfold set.
    pose proof (mark_dirty_J s addrs T n HJ) as HJ1.
    assert (Hmono1 : J (mark_dirty s addrs) t (n + 1)) by (apply (J_mono _ T _ n); [lia | lia | exact HJ1]).
    set (s1 := mark_dirty s addrs) in *.
    assert (Hempty : J (fst (finish capacity s1 [] 0)) t (n + 1)).
    { apply (finish_J s1 s1 _ 0%Z T n t [] [] [] HJ1 eq_refl quiet_nil quiet_nil (Eff_nil s1 T n t HJ1 ltac:(lia)) Hn). }
    assert (Hone : forall (r : res Z),
              match r with Ok ch s' b' => exists ws, b' = [] ++ ws /\ Eff s1 t ch s' ws | Fail e s' => s' = s1 end ->
              J (fst match match r with Ok ch s' b' => Ok (0 + ch)%Z s' b' | Fail e s' => Fail e s' end with
                     | Ok ch s' b => let '(s'', trig) := finish capacity s' b ch in (s'', RSet None trig)
                     | Fail e s' => (s', RSet (Some e) false) end) t (n + 1)).
    { intros [ch s' b'|e s'] H.
      - destruct H as (ws & -> & HE). simpl.
        pose proof (finish_J s1 s' ws ch T n t [] ws [] HJ1) as HF. rewrite app_nil_r in HF.
        specialize (HF eq_refl quiet_nil quiet_nil HE Hn).
        destruct (finish capacity s' ws ch) as [s'' trig]. exact HF.
      - subst s'. exact Hmono1. }
    destruct mode; try discriminate; try exact Hmono1;
      destruct addrs as [|a [|]]; try discriminate; simpl;
      try (destruct (finish capacity s1 [] 0) as [s'' trig] eqn:Ef; simpl in *; exact Hempty).
    - apply (Hone (set_remove s1 [] a root)). apply (set_remove_eff t s1 [] a root T n HJ1); [lia | exact Hn].
    - destruct (data_has s1 a).
      + apply (Hone (set_pin_item s1 [] a root 0)). apply (set_pin_item_eff t s1 [] a root 0 T n HJ1); [lia | exact Hn].
      + exact Hmono1.
    - apply (Hone (set_unpin t s1 [] a root)). apply (set_unpin_eff t s1 [] a root T n HJ1); [lia | exact Hn].
  Qed.

  Transparent set_gc_root set_pin_item inc_bin_id finish set_remove set_unpin.
  Lemma reopen_J s T n : J s T n -> n < W64 -> J (fst (reopen s)) T n /\ s_gcsize (fst (reopen s)) = s_gcsize s.
  Proof.
    intros (A & B & C & D) Hn. unfold reopen. rewrite gc_sum64_mod, N.mod_small by lia.
    rewrite <- A, N.ltb_irrefl. simpl. split; [apply J_intro; simpl; assumption | reflexivity].
  Qed.

  Lemma step_J s o T n :
    J s T n -> n + 1 < W64 -> safe_op o = true ->
    match op_time o with Some t => T < t | None => True end ->
    J (fst (step po capacity s o)) (match op_time o with Some t => t | None => T end) (n + 1).
  Proof.
    intros HJ Hn Hsafe Ht.
    assert (Hsame : J s T (n + 1)) by (apply (J_mono _ T _ n); [lia | lia | exact HJ]).
    destruct o; simpl in *; try discriminate.
    - now apply (put_J t mode root chs s T n).
    - assert (Hmono : J s t (n + 1)) by (apply (J_mono _ T _ n); [lia | lia | exact HJ]).
      unfold get. destruct (data_get s a); [|exact Hmono].
      destruct mode; simpl; try exact Hmono.
      + destruct (root_is_zero root); apply (J_mono _ t _ n); try lia; now apply (update_gc_J t _ _ s T n).
      + destruct (pin_get s a); exact Hmono.
    - assert (Hmono : J s t (n + 1)) by (apply (J_mono _ T _ n); [lia | lia | exact HJ]).
      unfold get_multi. destruct (fill_data s addrs); [|exact Hmono].
      destruct mode; try discriminate; simpl; try exact Hmono.
      destruct (forallb (pin_has s) addrs); exact Hmono.
    - exact Hsame.
    - exact Hsame.
    - now apply (set_J t mode root addrs s T n).
    - destruct (reopen_J s T n HJ ltac:(lia)) as [H _]. apply (J_mono _ T _ n); [lia | lia | exact H].
  Qed.

  Theorem exec_J h : forall s T n,
    J s T n -> n + N.of_nat (length h) < W64 -> forallb safe_op h = true -> clock_ok T h ->
    exists T', J (exec po capacity s h) T' (n + N.of_nat (length h)).
  Proof.
    induction h as [|o h IH]; intros s T n HJ Hn Hs Hc.
    { exists T. unfold exec. simpl. rewrite N.add_0_r. exact HJ. }
    assert (HL : N.of_nat (length (o :: h)) = N.of_nat (length h) + 1) by (cbn [length]; lia).
    rewrite HL in *. clear HL.
    cbn [forallb] in Hs. apply andb_true_iff in Hs as [Ho Hs].
    pose proof (step_J s o T n HJ ltac:(lia) Ho) as H1.
    assert (Hrun : exec po capacity s (o :: h) = exec po capacity (fst (step po capacity s o)) h).
    { unfold exec. cbn [run]. destruct (step po capacity s o) as [s1 r]. cbn [fst]. destruct (run po capacity s1 h). reflexivity. }
    rewrite Hrun.
    replace (n + (N.of_nat (length h) + 1)) with ((n + 1) + N.of_nat (length h)) in * by lia.
    cbn [clock_ok] in Hc.
    destruct (op_time o) as [t|].
    - destruct Hc as [Hlt Hc]. apply (IH _ t (n + 1)); [apply H1; exact Hlt | lia | exact Hs | exact Hc].
    - apply (IH _ T (n + 1)); [apply H1; exact I | lia | exact Hs | exact Hc].
  Qed.

  (** ** the end of a collection run *)
  Lemma gc_end_bound pyr s s' c :
    gc_end pyr s = (s', RGcEnd c true) ->
    exists ctx, s_gcrun s = Some ctx /\ s_gcsize s' <= g_target ctx /\ s_gcrun s' = None.
  Proof.
    unfold gc_end. destruct (s_gcrun s) as [ctx|]; [|discriminate].
    destruct (gc_evict s [] 0 pyr (g_cands ctx) []) as [[[s1 b1] cnt] recycled].
    intros H. injection H as H1 H2 H3. exists ctx. split; [reflexivity|].
    subst s'. simpl. rewrite s_gcsize_commit, !fold_left_app. simpl.
    apply negb_true_iff in H3. apply N.ltb_ge in H3. split; [exact H3 | reflexivity].
  Qed.
  Lemma gc_begin_bound target bs s s' :
    gc_begin target bs s = (s', RGcBegin (Some (0, true))) -> s' = s /\ s_gcsize s <= target.
  Proof.
    unfold gc_begin. destruct (s_gcrun s); [discriminate|].
    destruct (s_gcsize s <=? target) eqn:E; [|discriminate].
    intros H. injection H as H. split; [now symmetry | now apply N.leb_le].
  Qed.
End History.
