(** C13 — interleaving model of concurrent request-mode Gets of one cached
    file (mode_get.go [updateGC] for the file's root), and of the seeded variant
    that looks the gc entry up before taking batchMu.

    At HEAD the whole of [updateGC] runs under batchMu: ONE atomic action
    (its sequential content is [Model.update_gc]).  The seeded change C13-3
    splits it: (1) lock-free read of the root's access timestamp and gc entry,
    (2) under the lock: delete the key that was read, insert (now, counter),
    set the access timestamp.  Kept here: the gc entries of the root (key =
    access timestamp; bin id and address are fixed), the root's access
    timestamp, gcSize, the clock (now() is read inside the locked region and
    advances).  [other] = total of the GCounter values of all other files. *)
From Coq Require Import List NArith Bool Lia Arith.
Import ListNotations.
Require Import Aurora.C11.Conc.
Local Open Scope N_scope.

Inductive gth := GStart | GRead (ats : N) (c : option N) | GDone.
Record gsh := { g_ent : list (N * N); g_access : N; g_size : N; g_clock : N }.

Definition g_lookup (ats : N) (ent : list (N * N)) : option N :=
  match find (fun e => fst e =? ats) ent with Some e => Some (snd e) | None => None end.
Definition g_move (sh : gsh) (ats c : N) : gsh :=
  {| g_ent := (g_clock sh, c) :: filter (fun e => negb (fst e =? ats)) (g_ent sh);
     g_access := g_clock sh; g_size := g_size sh; g_clock := g_clock sh + 1 |}.
Definition g_sum (ent : list (N * N)) : N := fold_right (fun e acc => snd e + acc) 0 ent.

Definition g_act (seeded : bool) (sh : gsh) (th : gth) : gsh * gth :=
  match th with
  | GStart =>
      if seeded then (sh, GRead (g_access sh) (if g_access sh =? 0 then None else g_lookup (g_access sh) (g_ent sh)))
      else (if g_access sh =? 0 then sh
            else match g_lookup (g_access sh) (g_ent sh) with
                 | Some c => g_move sh (g_access sh) c
                 | None => sh
                 end, GDone)
  | GRead ats (Some c) => (g_move sh ats c, GDone)
  | GRead _ None => (sh, GDone)
  | GDone => (sh, GDone)
  end.
Definition g_step (seeded : bool) (st : gsh * list gth) (i : nat) : gsh * list gth :=
  match nth_error (snd st) i with
  | Some GDone | None => st
  | Some th => let '(sh', th') := g_act seeded (fst st) th in (sh', upd i th' (snd st))
  end.
Definition g_run (seeded : bool) (st : gsh * list gth) (sched : list nat) := fold_left (g_step seeded) sched st.
Definition g_init (t0 c other clock : N) (n : nat) : gsh * list gth :=
  ({| g_ent := [(t0, c)]; g_access := t0; g_size := c + other; g_clock := clock |}, repeat GStart n).

Definition GI (c other : N) (st : gsh * list gth) : Prop :=
  g_ent (fst st) = [(g_access (fst st), c)] /\ 0 < g_access (fst st) /\ g_access (fst st) < g_clock (fst st) /\
  g_size (fst st) = c + other /\ (forall j a x, nth_error (snd st) j <> Some (GRead a x)).

Lemma GI_step c other st i : GI c other st -> GI c other (g_step false st i).
Proof.
  destruct st as [sh ths]. unfold GI, g_step. simpl. intros (H1 & H2 & H3 & H4 & H5).
  destruct (nth_error ths i) as [th|] eqn:Ei; [|auto].
  destruct th as [|a x|]; [|exfalso; exact (H5 i a x Ei)|auto].
  unfold g_act. assert (E0 : g_access sh =? 0 = false) by (apply N.eqb_neq; lia). rewrite E0.
  unfold g_lookup. rewrite H1. simpl. rewrite N.eqb_refl. simpl. rewrite H1. simpl. rewrite N.eqb_refl. simpl.
  repeat split; try lia; auto.
  intros j a x. destruct (Nat.eq_dec i j) as [->|Hn].
  - rewrite (nth_error_upd_same _ _ _ _ Ei). discriminate.
  - rewrite nth_error_upd_other by exact Hn. apply H5.
Qed.

Lemma GI_run c other sched : forall st, GI c other st -> GI c other (g_run false st sched).
Proof. induction sched as [|i sched IH]; intros st H; simpl; [exact H | apply IH, GI_step, H]. Qed.

(** For every number of overlapping Gets of the file and EVERY schedule:
    exactly one gc entry for the root, keyed by its access timestamp, carrying
    the unchanged GCounter; gcSize unchanged and equal to the total. *)
Theorem concurrent_gets_one_entry : forall (t0 c other clock : N) (n : nat) (sched : list nat),
  0 < t0 -> t0 < clock ->
  let st := g_run false (g_init t0 c other clock n) sched in
  g_ent (fst st) = [(g_access (fst st), c)] /\
  g_size (fst st) = c + other /\ g_sum (g_ent (fst st)) + other = g_size (fst st).
Proof.
  intros t0 c other clock n sched Ht Hc st.
  assert (H0 : GI c other (g_init t0 c other clock n)).
  { unfold GI, g_init. simpl. repeat split; auto. intros j a x Hj. apply nth_error_In, repeat_spec in Hj. discriminate. }
  assert (HI : GI c other st) by (apply GI_run; exact H0).
  destruct HI as (H1 & _ & _ & H4 & _). rewrite H1. simpl. repeat split; auto. rewrite H4. lia.
Qed.

(** The seeded variant: two Gets, both lock-free reads before either locked
    write — two gc entries for the root, each with the full GCounter; gcSize
    unchanged, so it no longer equals the total (what a reopen recomputes). *)
Theorem concurrent_gets_seeded_refuted :
  let st := g_run true (g_init 5 3 4 10 2) [0; 1; 0; 1]%nat in
  snd st = [GDone; GDone] /\ g_ent (fst st) = [(11, 3); (10, 3)] /\ g_size (fst st) = 7 /\
  g_sum (g_ent (fst st)) + 4 = 10.
Proof. vm_compute. repeat split; reflexivity. Qed.
