(** C13 — histories on which the accounting fails (evaluated on the model;
    each is also a corpus case of the harness and reproduces on the Go code). *)
From Coq Require Import List NArith ZArith Bool.
Import ListNotations.
Require Import Aurora.C11.Model.
Local Open Scope N_scope.

Definition po0 : addr -> N := fun _ => 0.
Definition R : addr := [1]. Definition R2 : addr := [2].
Definition x1 : addr := [11]. Definition x2 : addr := [12]. Definition x3 : addr := [13].
Definition req (t : N) (root a : addr) := OPut t PRequest (Some root) [(a, [t])].
Definition cacheA := [req 10 R R; req 11 R x1; req 12 R x2].
Definition cacheB := [req 13 R2 R2; req 14 R2 x3].
Definition pyrAB : pyramids := [(R, [(x1, 1); (x2, 1)]); (R2, [(x3, 1)])].
Definition fin (cap : N) (h : list op) : state := exec po0 cap init h.
Definition broken (s : state) : bool :=
  match s_gcrun s with None => negb (s_gcsize s =? gc_sum (s_gc s)) | Some _ => false end.

(** batched request put under a context *)
Definition w_batch := [req 10 R R; OPut 11 PRequest (Some R) [(x1, [1]); (x2, [2])]].
(** set sync *)
Definition w_sync := [OPut 10 PUpload None [(x1, [1])]; OSet 11 SSync None [x1]].
(** a failing batched pin leaves the direct GCounter decrement behind *)
Definition w_pin_abort := cacheA ++ [OSet 20 SPin (Some R) [x1; x3]].
(** pinned upload under a context drops the gcSize change *)
Definition w_uploadpin := cacheA ++ [OPut 20 PUploadPin (Some R) [(x3, [9])]].
(** batched pins under a context: both read GCounter 1 *)
Definition w_set_batch := [req 10 R R; OPut 11 PUpload None [(x1, [1])]; req 12 R2 R2; OSet 20 SPin (Some R) [R; x1]].
(** collection: no candidate known to chunkinfo -> gcSize forced to 0 *)
Definition w_force := cacheA ++ cacheB ++ [OGcBegin 3 10000; OGcEnd []].
(** collection: a chunk of the evicted file was removed before the run: the run subtracts what it deleted (2), the entry it drops counted 3 *)
Definition w_account := cacheA ++ cacheB ++ [OSet 20 SRemove None [x1]; OGcBegin 3 10000; OGcEnd pyrAB].
