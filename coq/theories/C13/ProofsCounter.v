(** C13 — the gcSize counter against the total of the GCounter values:
    the invariant for the class of calls in which it is maintained, and the
    lemmas about the end of a collection run. *)
From Coq Require Import List NArith ZArith Bool Lia.
Import ListNotations.
Require Import Aurora.C11.Model Aurora.C11.Maps.
Local Open Scope N_scope.

(** ** the gc / access / gcSize part of a write batch *)
Definition gw (m : list (gckey * N)) (w : write) : list (gckey * N) :=
  match w with WGc k c => ainsert cmp_gckey k c m | WGcDel k => aremove cmp_gckey k m | _ => m end.
Definition aw (m : list (addr * N)) (w : write) : list (addr * N) :=
  match w with WAccess a t => ainsert cmp_bytes a t m | WAccessDel a => aremove cmp_bytes a m | _ => m end.
Definition zw (n : N) (w : write) : N := match w with WGcSize x => x | _ => n end.

Lemma s_gc_commit b : forall s, s_gc (commit s b) = fold_left gw b (s_gc s).
Proof. unfold commit. induction b as [|w b IH]; intros s; simpl; [reflexivity|]. rewrite IH. now destruct w. Qed.
Lemma s_access_commit b : forall s, s_access (commit s b) = fold_left aw b (s_access s).
Proof. unfold commit. induction b as [|w b IH]; intros s; simpl; [reflexivity|]. rewrite IH. now destruct w. Qed.
Lemma s_gcsize_commit b : forall s, s_gcsize (commit s b) = fold_left zw b (s_gcsize s).
Proof. unfold commit. induction b as [|w b IH]; intros s; simpl; [reflexivity|]. rewrite IH. now destruct w. Qed.
Lemma s_gcrun_commit b : forall s, s_gcrun (commit s b) = s_gcrun s.
Proof. unfold commit. induction b as [|w b IH]; intros s; simpl; [reflexivity|]. rewrite IH. now destruct w. Qed.

(** ** sums over the gc index *)
Lemma gc_sum_aremove k (m : list (gckey * N)) :
  NoDupKeys m ->
  gc_sum (aremove cmp_gckey k m) + match alookup cmp_gckey k m with Some c => c | None => 0 end = gc_sum m.
Proof.
  unfold NoDupKeys, keys. induction m as [|[k' c'] m IH]; simpl; intros H; [reflexivity|].
  inversion H as [|x l Hn Hd]; subst. specialize (IH Hd).
  destruct (cmp_gckey k k') eqn:E; simpl; try lia.
  apply cmp_gckey_eq in E. subst k'.
  assert (Hnone : alookup cmp_gckey k m = None) by (apply (alookup_None_notin cmp_gckey cmp_gckey_eq); exact Hn).
  rewrite Hnone in IH. lia.
Qed.
Lemma gc_sum_aplace k c (m : list (gckey * N)) : gc_sum (aplace cmp_gckey k c m) = gc_sum m + c.
Proof. induction m as [|[k' c'] m IH]; simpl; [lia|]. destruct (cmp_gckey k k'); simpl; lia. Qed.
Lemma gc_sum_ainsert k c (m : list (gckey * N)) :
  NoDupKeys m ->
  gc_sum (ainsert cmp_gckey k c m) + match alookup cmp_gckey k m with Some c0 => c0 | None => 0 end = gc_sum m + c.
Proof. intros H. unfold ainsert. rewrite gc_sum_aplace. pose proof (gc_sum_aremove k m H). lia. Qed.
Lemma gc_sum_ge k c (m : list (gckey * N)) : In (k, c) m -> c <= gc_sum m.
Proof. induction m as [|[k' c'] m IH]; simpl; [tauto|]. intros [H|H]; [inversion H; lia | specialize (IH H); lia]. Qed.

Lemma gc_sum64_mod (m : list (gckey * N)) : gc_sum64 m = gc_sum m mod W64.
Proof.
  unfold gc_sum64.
  assert (H : forall a0, fold_left (fun acc kc => wadd acc (snd kc)) m a0 = (a0 + gc_sum m) mod W64 \/ m = []).
  { induction m as [|[k c] m IH]; intros a0; [now right|]. left. simpl.
    destruct (IH (wadd a0 c)) as [E| ->].
    - rewrite E. unfold wadd. rewrite N.add_mod_idemp_l by (unfold W64; lia). f_equal. lia.
    - simpl. unfold wadd. f_equal. lia. }
  destruct (H 0) as [E| ->]; [exact E | reflexivity].
Qed.

(** ** the invariant *)
(** gc index: keys once, counters positive, timestamps not in the future *)
Definition GOK (m : list (gckey * N)) (T : N) : Prop :=
  NoDupKeys m /\ forall k c, In (k, c) m -> 1 <= c /\ fst (fst k) <= T.
Definition AOK (m : list (addr * N)) (T : N) : Prop := forall a ts, In (a, ts) m -> ts <= T.

Definition J (s : state) (T n : N) : Prop :=
  s_gcsize s = gc_sum (s_gc s) /\ GOK (s_gc s) T /\ AOK (s_access s) T /\ s_gcsize s <= n.

Lemma GOK_mono m T T' : T <= T' -> GOK m T -> GOK m T'.
Proof. intros Hle [H1 H2]. split; [exact H1|]. intros k c Hi. destruct (H2 k c Hi). split; lia. Qed.
Lemma AOK_mono m T T' : T <= T' -> AOK m T -> AOK m T'.
Proof. intros Hle H a ts Hi. specialize (H a ts Hi). lia. Qed.
Lemma J_mono s T T' n n' : T <= T' -> n <= n' -> J s T n -> J s T' n'.
Proof. intros H1 H2 (A & B & C & D). unfold J. split; [exact A|]. split; [now apply (GOK_mono _ T)|]. split; [now apply (AOK_mono _ T) | lia]. Qed.

Lemma GOK_aremove m T k : GOK m T -> GOK (aremove cmp_gckey k m) T.
Proof.
  intros [H1 H2]. split; [now apply (NoDupKeys_aremove cmp_gckey cmp_gckey_eq)|].
  intros k0 c Hi. apply (in_aremove cmp_gckey cmp_gckey_eq) in Hi as [Hi _]. now apply H2.
Qed.
Lemma GOK_ainsert m T k c : GOK m T -> 1 <= c -> fst (fst k) <= T -> GOK (ainsert cmp_gckey k c m) T.
Proof.
  intros [H1 H2] Hc Hk. split; [now apply (NoDupKeys_ainsert cmp_gckey cmp_gckey_eq)|].
  intros k0 c0 Hi. apply (in_ainsert cmp_gckey cmp_gckey_eq) in Hi as [Hi|[Hi _]]; [inversion Hi; subst; split; assumption | now apply H2].
Qed.
Lemma AOK_aremove m T a : AOK m T -> AOK (aremove cmp_bytes a m) T.
Proof. intros H a0 ts Hi. apply (in_aremove cmp_bytes cmp_bytes_eq) in Hi as [Hi _]. now apply (H a0). Qed.
Lemma AOK_ainsert m T a t : AOK m T -> t <= T -> AOK (ainsert cmp_bytes a t m) T.
Proof.
  intros H Ht a0 ts Hi. apply (in_ainsert cmp_bytes cmp_bytes_eq) in Hi as [Hi|[Hi _]]; [inversion Hi; subst; assumption | now apply (H a0)].
Qed.
Lemma AOK_lookup m T a ts : AOK m T -> alookup cmp_bytes a m = Some ts -> ts <= T.
Proof. intros H E. apply (alookup_Some_in cmp_bytes cmp_bytes_eq) in E. now apply (H a). Qed.
Lemma GOK_lookup m T k c : GOK m T -> alookup cmp_gckey k m = Some c -> 1 <= c /\ c <= gc_sum m.
Proof.
  intros [_ H] E. apply (alookup_Some_in cmp_gckey cmp_gckey_eq) in E.
  split; [now apply (H k c) | now apply (gc_sum_ge k)].
Qed.

(** the three ways a call touches the gc index, as facts about sums *)
Lemma sum_inc m T k : GOK m T ->
  gc_sum (ainsert cmp_gckey k (match alookup cmp_gckey k m with Some c => c + 1 | None => 1 end) m) = gc_sum m + 1.
Proof.
  intros [Hnd _]. pose proof (gc_sum_ainsert k (match alookup cmp_gckey k m with Some c => c + 1 | None => 1 end) m Hnd) as H.
  destruct (alookup cmp_gckey k m); lia.
Qed.
Lemma sum_dec m T k c : GOK m T -> alookup cmp_gckey k m = Some c -> 2 <= c ->
  gc_sum (ainsert cmp_gckey k (c - 1) m) + 1 = gc_sum m.
Proof. intros [Hnd _] E Hc. pose proof (gc_sum_ainsert k (c - 1) m Hnd) as H. rewrite E in H. lia. Qed.
Lemma sum_del m T k c : GOK m T -> alookup cmp_gckey k m = Some c ->
  gc_sum (aremove cmp_gckey k m) + c = gc_sum m.
Proof. intros [Hnd _] E. pose proof (gc_sum_aremove k m Hnd) as H. now rewrite E in H. Qed.

Lemma wadd_small a b : a + b < W64 -> wadd a b = a + b.
Proof. intros H. unfold wadd. now apply N.mod_small. Qed.
Lemma wsub_small a b : b <= a -> a < W64 -> wsub a b = a - b.
Proof.
  intros H1 H2. unfold wsub. rewrite (N.mod_small b) by lia.
  replace (a + W64 - b) with ((a - b) + 1 * W64) by lia. rewrite N.mod_add by (unfold W64; lia). apply N.mod_small. lia.
Qed.

(** ** effect of one helper call on (gc index, access index, gcSize) *)
Definition nozw (ws : list write) : Prop := forall n, fold_left zw ws n = n.
Definition quiet (ws : list write) : Prop :=
  (forall m, fold_left gw ws m = m) /\ (forall m, fold_left aw ws m = m) /\ nozw ws.

Definition Eff (s : state) (T' : N) (ch : Z) (s' : state) (ws : list write) : Prop :=
  s_gcsize s' = s_gcsize s /\ nozw ws /\ (-1 <= ch <= 1)%Z /\
  GOK (fold_left gw ws (s_gc s')) T' /\
  Z.of_N (gc_sum (fold_left gw ws (s_gc s'))) = (Z.of_N (gc_sum (s_gc s)) + ch)%Z /\
  AOK (fold_left aw ws (s_access s')) T'.

Lemma Eff_intro s T' ch s' ws :
  s_gcsize s' = s_gcsize s -> nozw ws -> (-1 <= ch <= 1)%Z ->
  GOK (fold_left gw ws (s_gc s')) T' ->
  Z.of_N (gc_sum (fold_left gw ws (s_gc s'))) = (Z.of_N (gc_sum (s_gc s)) + ch)%Z ->
  AOK (fold_left aw ws (s_access s')) T' -> Eff s T' ch s' ws.
Proof. unfold Eff. tauto. Qed.
Lemma J_intro s T n : s_gcsize s = gc_sum (s_gc s) -> GOK (s_gc s) T -> AOK (s_access s) T -> s_gcsize s <= n -> J s T n.
Proof. unfold J. tauto. Qed.

Lemma Eff_nil s T n t : J s T n -> T <= t -> Eff s t 0 s [].
Proof.
  intros (A & B & C & D) Ht. apply Eff_intro; simpl; try reflexivity; try lia; try (intros x; reflexivity).
  - apply (GOK_mono _ T); assumption.
  - apply (AOK_mono _ T); assumption.
Qed.

Section Counter.
  Variable po : addr -> N.
  Variable capacity : N.

  Lemma inc_eff s T n t k :
    J s T n -> T <= t -> n + 1 < W64 -> fst (fst k) <= t ->
    let c' := match gc_get s k with Some c => wadd c 1 | None => 1 end in
    GOK (ainsert cmp_gckey k c' (s_gc s)) t /\
    Z.of_N (gc_sum (ainsert cmp_gckey k c' (s_gc s))) = (Z.of_N (gc_sum (s_gc s)) + 1)%Z.
  Proof.
    intros (A & B & C & D) Ht Hn Hk. unfold gc_get. cbv zeta.
    assert (E : match alookup cmp_gckey k (s_gc s) with Some c => wadd c 1 | None => 1 end =
                match alookup cmp_gckey k (s_gc s) with Some c => c + 1 | None => 1 end).
    { destruct (alookup cmp_gckey k (s_gc s)) as [c|] eqn:El; [|reflexivity].
      destruct (GOK_lookup _ _ _ _ B El). apply wadd_small. lia. }
    rewrite E. split.
    - apply GOK_ainsert; [apply (GOK_mono _ T); assumption | destruct (alookup cmp_gckey k (s_gc s)); lia | exact Hk].
    - rewrite (sum_inc _ T k B). lia.
  Qed.

  Lemma set_gc_root_eff t s b root rbin T n :
    J s T n -> T <= t -> n + 1 < W64 ->
    match set_gc_root t s b root rbin with
    | Ok ch s' b' => exists ws, b' = b ++ ws /\ Eff s t ch s' ws
    | Fail e s' => s' = s
    end.
  Proof.
    intros HJ Ht Hn. unfold set_gc_root. destruct root as [r|]; [|exists []; rewrite app_nil_r; split; [reflexivity | now apply (Eff_nil s T n)]].
    destruct HJ as (A & B & C & D).
    assert (HJ : J s T n) by (apply J_intro; assumption).
    destruct (access_get s r) as [x|] eqn:Ea; cbv zeta; cbv iota beta.
    - assert (Hx : x <= t) by (pose proof (AOK_lookup _ _ _ _ C Ea); lia).
      destruct (if rbin =? 0 then match data_get s r with Some e => Some (d_bin e) | None => None end else Some rbin) as [bin|]; [|reflexivity].
      eexists. split; [reflexivity|].
      destruct (inc_eff s T n t (x, bin, r) HJ Ht Hn Hx) as [G1 G2].
      apply Eff_intro; simpl; try reflexivity; try lia; try (intros x0; reflexivity); try assumption.
      apply (AOK_mono _ T); assumption.
    - destruct (if rbin =? 0 then match data_get s r with Some e => Some (d_bin e) | None => None end else Some rbin) as [bin|]; [|reflexivity].
      rewrite <- app_assoc. eexists. split; [reflexivity|].
      assert (Hx : fst (fst (t, bin, r)) <= t) by (simpl; lia).
      destruct (inc_eff s T n t (t, bin, r) HJ Ht Hn Hx) as [G1 G2].
      apply Eff_intro; simpl; try reflexivity; try lia; try (intros x0; reflexivity); try assumption.
      apply AOK_ainsert; [apply (AOK_mono _ T); assumption | lia].
  Qed.

  Lemma set_pin_item_eff t s b a root rbin T n :
    J s T n -> T <= t -> n + 1 < W64 ->
    match set_pin_item s b a root rbin with
    | Ok ch s' b' => exists ws, b' = b ++ ws /\ Eff s t ch s' ws
    | Fail e s' => s' = s
    end.
  Proof.
    intros HJ Ht Hn. destruct HJ as (A & B & C & D).
    assert (HJ : J s T n) by (apply J_intro; assumption).
    assert (Hnil : forall pcv, exists ws, b ++ [WPin a pcv] = b ++ ws /\ Eff s t 0 s ws).
    { intros pcv. eexists. split; [reflexivity|]. pose proof (Eff_nil s T n t HJ Ht) as E. unfold Eff in *; simpl in *.
      destruct E as (E1 & E2 & E3). split; [exact E1|]. split; [intros x; reflexivity | exact E3]. }
    unfold set_pin_item. cbv zeta.
    destruct root as [r|]; [|apply Hnil].
    destruct (access_get s r) as [ats|] eqn:Ea; [|apply Hnil].
    destruct (data_get s r) as [e|]; [|reflexivity].
    destruct (gc_get s (ats, mergeN (d_bin e) rbin, r)) as [c|] eqn:Eg; [|apply Hnil].
    unfold gc_get in Eg. destruct (GOK_lookup _ _ _ _ B Eg) as [Hc1 Hc2].
    destruct (c =? 1) eqn:Ec.
    - apply N.eqb_eq in Ec. subst c. rewrite <- app_assoc. eexists. split; [reflexivity|].
      apply Eff_intro; simpl; try reflexivity; try lia; try (intros x0; reflexivity).
      + apply GOK_aremove. apply (GOK_mono _ T); assumption.
      + pose proof (sum_del _ _ _ _ B Eg). lia.
      + apply (AOK_mono _ T); assumption.
    - apply N.eqb_neq in Ec. eexists. split; [reflexivity|].
      assert (Hw : wsub c 1 = c - 1) by (apply wsub_small; lia).
      assert (H2 : 2 <= c) by lia. pose proof (sum_dec _ _ _ _ B Eg H2) as Hsd.
      apply Eff_intro; simpl; rewrite ?Hw; try reflexivity; try lia; try (intros x0; reflexivity).
      + apply GOK_ainsert; [apply (GOK_mono _ T); assumption | lia |].
        destruct B as [_ B2]. apply (alookup_Some_in cmp_gckey cmp_gckey_eq) in Eg. destruct (B2 _ _ Eg). simpl in *. lia.
      + apply (AOK_mono _ T); assumption.
  Qed.

  Ltac leaf := rewrite <- ?app_assoc; eexists; split; [reflexivity|].
  Ltac eff0 T HJ Ht :=
    let A := fresh in let B := fresh in let C := fresh in let D := fresh in
    destruct HJ as (A & B & C & D);
    apply Eff_intro; simpl; try reflexivity; try lia; try (intros x0; reflexivity);
    [ apply (GOK_mono _ T); assumption | repeat apply AOK_aremove; apply (AOK_mono _ T); assumption ].

  Lemma set_remove_eff t s b a root T n :
    J s T n -> T <= t -> n + 1 < W64 ->
    match set_remove s b a root with
    | Ok ch s' b' => exists ws, b' = b ++ ws /\ Eff s t ch s' ws
    | Fail e s' => s' = s
    end.
  Proof.
    intros HJ Ht Hn. unfold set_remove. destruct (data_get s a) as [e0|]; [|reflexivity].
    assert (Hcont : forall b1 : list write, (exists pre, b1 = b ++ pre /\ quiet pre) ->
      match
        (let b2 := b1 ++ [WDataDel a; WAccessDel a] in
         let r := root_bytes root in
         match access_get s r with
         | Some rats =>
             match data_get s r with
             | Some re =>
                 let k := (rats, d_bin re, r) in
                 match gc_get s k with
                 | Some c => if 1 <? c then Ok (-1)%Z s (b2 ++ [WGc k (c - 1)]) else Ok (-1)%Z s (b2 ++ [WAccessDel r; WGcDel k])
                 | None => Ok 0%Z s b2
                 end
             | None => Fail ENotFound s
             end
         | None => Ok 0%Z s b2
         end)
      with
      | Ok ch s' b' => exists ws, b' = b ++ ws /\ Eff s t ch s' ws
      | Fail e s' => s' = s
      end).
    { intros b1 [pre [-> [Q1 [Q2 Q3]]]]. cbv zeta.
      assert (Fg : forall tl m, fold_left gw (pre ++ tl) m = fold_left gw tl m) by (intros; now rewrite fold_left_app, Q1).
      assert (Fa : forall tl m, fold_left aw (pre ++ tl) m = fold_left aw tl m) by (intros; now rewrite fold_left_app, Q2).
      assert (Fz : forall tl m, fold_left zw (pre ++ tl) m = fold_left zw tl m) by (intros; now rewrite fold_left_app, Q3).
      destruct HJ as (A & B & C & D).
      destruct (access_get s (root_bytes root)) as [rats|] eqn:Ea.
      - destruct (data_get s (root_bytes root)) as [re|]; [|reflexivity].
        destruct (gc_get s (rats, d_bin re, root_bytes root)) as [c|] eqn:Eg.
        + unfold gc_get in Eg. destruct (GOK_lookup _ _ _ _ B Eg) as [Hc1 Hc2].
          destruct (1 <? c) eqn:E1.
          * apply N.ltb_lt in E1. leaf.
            assert (H2 : 2 <= c) by lia. pose proof (sum_dec _ _ _ _ B Eg H2) as Hsd.
            apply Eff_intro; rewrite ?Fg, ?Fa; simpl; try reflexivity; try lia; try (intros x0; rewrite Fz; reflexivity).
            -- apply GOK_ainsert; [apply (GOK_mono _ T); assumption | lia |].
               destruct B as [_ B2]. apply (alookup_Some_in cmp_gckey cmp_gckey_eq) in Eg. destruct (B2 _ _ Eg). simpl in *. lia.
            -- apply AOK_aremove. apply (AOK_mono _ T); assumption.
          * apply N.ltb_ge in E1. assert (c = 1) by lia. subst c. leaf.
            pose proof (sum_del _ _ _ _ B Eg) as Hsd.
            apply Eff_intro; rewrite ?Fg, ?Fa; simpl; try reflexivity; try lia; try (intros x0; rewrite Fz; reflexivity).
            -- apply GOK_aremove. apply (GOK_mono _ T); assumption.
            -- repeat apply AOK_aremove. apply (AOK_mono _ T); assumption.
        + leaf. apply Eff_intro; rewrite ?Fg, ?Fa; simpl; try reflexivity; try lia; try (intros x0; rewrite Fz; reflexivity).
          -- apply (GOK_mono _ T); assumption.
          -- apply AOK_aremove. apply (AOK_mono _ T); assumption.
      - leaf. apply Eff_intro; rewrite ?Fg, ?Fa; simpl; try reflexivity; try lia; try (intros x0; rewrite Fz; reflexivity).
        -- apply (GOK_mono _ T); assumption.
        -- apply AOK_aremove. apply (AOK_mono _ T); assumption. }
    destruct (pin_get s a) as [pc|].
    - destruct (0 <? wsub pc 1).
      + leaf. eff0 T HJ Ht.
      + apply Hcont. exists [WPinDel a]. split; [reflexivity|]. repeat split; intros x; reflexivity.
    - apply Hcont. exists []. rewrite app_nil_r. split; [reflexivity|]. repeat split; intros x; reflexivity.
  Qed.

  Lemma set_unpin_eff t s b a root T n :
    J s T n -> T <= t -> n + 1 < W64 ->
    match set_unpin t s b a root with
    | Ok ch s' b' => exists ws, b' = b ++ ws /\ Eff s t ch s' ws
    | Fail e s' => s' = s
    end.
  Proof.
    intros HJ Ht Hn. unfold set_unpin. destruct (pin_get s a) as [pc|]; [|reflexivity].
    destruct (1 <? pc); [leaf; eff0 T HJ Ht|].
    destruct root as [r|]; [|leaf; eff0 T HJ Ht].
    pose proof HJ as (A & B & C & D).
    destruct (access_get s r) as [x|] eqn:Ea.
    - assert (Hx : x <= t) by (pose proof (AOK_lookup _ _ _ _ C Ea); lia).
      destruct (data_get s r) as [re|]; [|reflexivity].
      leaf. destruct (inc_eff s T n t (x, d_bin re, r) HJ Ht Hn Hx) as [G1 G2].
      apply Eff_intro; simpl; try reflexivity; try lia; try (intros x0; reflexivity); try assumption.
      apply (AOK_mono _ T); assumption.
    - destruct (data_get s r) as [re|]; [|reflexivity].
      leaf. assert (Hx : fst (fst (t, d_bin re, r)) <= t) by (simpl; lia).
      destruct (inc_eff s T n t (t, d_bin re, r) HJ Ht Hn Hx) as [G1 G2].
      apply Eff_intro; simpl; try reflexivity; try lia; try (intros x0; reflexivity); try assumption.
      apply AOK_ainsert; [apply (AOK_mono _ T); assumption | lia].
  Qed.

  (** dirty bookkeeping does not touch the indexes *)
  Lemma mark_dirty_J s l T n : J s T n -> J (mark_dirty s l) T n.
  Proof. unfold mark_dirty. destruct (s_gcrun s); auto. Qed.
  Lemma mark_dirty_fields s l :
    s_gc (mark_dirty s l) = s_gc s /\ s_access (mark_dirty s l) = s_access s /\ s_gcsize (mark_dirty s l) = s_gcsize s.
  Proof. unfold mark_dirty. destruct (s_gcrun s); auto. Qed.

  (** [updateGC] moves an entry to a fresh key *)
  Lemma update_gc_J t a bin0 s T n : J s T n -> T < t -> J (update_gc t a bin0 s) t n.
  Proof.
    intros HJ Ht. unfold update_gc.
    assert (H1 : J (mark_dirty s [a]) T n) by now apply mark_dirty_J.
    assert (Hm : J (mark_dirty s [a]) t n) by (apply (J_mono _ T _ n); [lia | lia | exact H1]).
    set (s1 := mark_dirty s [a]) in *.
    destruct (_ =? 0); [exact Hm|].
    destruct (if bin0 =? 0 then _ else _) as [bin|]; [|exact Hm].
    match goal with |- context [gc_get s1 ?k] => set (k0 := k) end.
    destruct (gc_get s1 k0) as [c|] eqn:Eg; [|exact Hm].
    destruct H1 as (A & B & C & D). unfold gc_get in Eg.
    destruct (GOK_lookup _ _ _ _ B Eg) as [Hc1 Hc2].
    apply J_intro; rewrite ?s_gc_commit, ?s_access_commit, ?s_gcsize_commit; simpl.
    - (* the sum is unchanged *)
      assert (Hnone : alookup cmp_gckey (t, bin, a) (aremove cmp_gckey k0 (s_gc s1)) = None).
      { destruct (cmp_gckey (t, bin, a) k0) eqn:Ek.
        - apply cmp_gckey_eq in Ek. rewrite Ek. apply (alookup_aremove_same cmp_gckey).
        - rewrite (alookup_aremove_other cmp_gckey cmp_gckey_eq) by (intros Ex; rewrite Ex, (cmp_refl cmp_gckey cmp_gckey_eq) in Ek; discriminate).
          destruct (alookup cmp_gckey (t, bin, a) (s_gc s1)) eqn:El; [|reflexivity].
          apply (alookup_Some_in cmp_gckey cmp_gckey_eq) in El. destruct B as [_ B2]. destruct (B2 _ _ El). simpl in *. lia.
        - rewrite (alookup_aremove_other cmp_gckey cmp_gckey_eq) by (intros Ex; rewrite Ex, (cmp_refl cmp_gckey cmp_gckey_eq) in Ek; discriminate).
          destruct (alookup cmp_gckey (t, bin, a) (s_gc s1)) eqn:El; [|reflexivity].
          apply (alookup_Some_in cmp_gckey cmp_gckey_eq) in El. destruct B as [_ B2]. destruct (B2 _ _ El). simpl in *. lia. }
      pose proof (sum_del _ _ _ _ B Eg) as Hd.
      pose proof (gc_sum_ainsert (t, bin, a) c (aremove cmp_gckey k0 (s_gc s1))) as Hi.
      rewrite Hnone in Hi. lapply Hi; [intros Hi'; lia | apply (NoDupKeys_aremove cmp_gckey cmp_gckey_eq); apply B].
    - apply GOK_ainsert; [apply GOK_aremove; apply (GOK_mono _ T); [lia | exact B] | lia | simpl; lia].
    - apply AOK_ainsert; [apply (AOK_mono _ T); [lia | exact C] | lia].
    - exact D.
  Qed.
End Counter.
