(** C13 — correspondence: the same case language, model and checker as C11
    ([Aurora.C11.Corr]); the C13 harness drives histories of cached files,
    pins/unpins, removals, collection runs (with accesses at the interleaving
    point) and reopen. *)
Require Export Aurora.C11.Model Aurora.C11.Corr.
Definition case := Aurora.C11.Corr.case.
Definition check_case : case -> bool := Aurora.C11.Corr.check_case.
Definition explain_case := Aurora.C11.Corr.explain_case.
