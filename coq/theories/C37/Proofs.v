(** C37 — lemmas: no handler front of the (repaired) code reaches [Pan]. *)
From Coq Require Import List NArith ZArith Bool Lia.
Import ListNotations.
Require Import Aurora.C37.Model.
Local Open Scope N_scope.

(** generic inversion helpers for the [res] monad *)
Lemma run_bind_not_pan {A} (r : res A) (k : A -> res unit) :
  r <> Pan -> (forall a, r = Val a -> run (k a) <> Panicked) -> run (bind r k) <> Panicked.
Proof.
  intros Hr Hk. destruct r as [a|e|]; cbn.
  - apply Hk; reflexivity.
  - discriminate.
  - contradiction.
Qed.

Lemma guard_not_pan b e : guard b e <> Pan.
Proof. destruct b; discriminate. Qed.
Lemma from_read_not_pan {A} (m : option A) e : from_read m e <> Pan.
Proof. destruct m; discriminate. Qed.

Ltac crush_res :=
  repeat match goal with
         | |- context [match ?x with _ => _ end] => destruct x eqn:?; cbn in *; try discriminate
         end.

(** ---- handshake ---- *)
Lemma mode_is_full_ok m : mode_ok m = true -> exists b, mode_is_full m = Val b.
Proof.
  unfold mode_ok, mode_is_full, index. destruct m as [|x m]; cbn; [discriminate|].
  intros _. eexists; reflexivity.
Qed.

Lemma handshake_out_total netid o m : handshake_out true netid o m <> Panicked.
Proof.
  unfold handshake_out, parse_check_ack.
  destruct m as [[syn ack]|]; cbn; [|discriminate].
  destruct syn as [s|]; cbn; [|discriminate].
  destruct ack as [a|]; cbn; [|discriminate].
  destruct (o_ma_ok o); cbn; [|discriminate].
  destruct (o_ai_ok o); cbn; [|discriminate].
  destruct (ack_netid a =? netid); cbn; [|discriminate].
  destruct (ack_address a); cbn; [|discriminate].
  destruct (o_sig_ok o); cbn; [|discriminate].
  destruct (mode_ok (ack_mode a)); cbn; discriminate.
Qed.

Lemma handshake_in_total netid picker lf o syn ack : handshake_in true netid picker lf o syn ack <> Panicked.
Proof.
  unfold handshake_in, parse_check_ack.
  destruct syn as [s|]; cbn; [|discriminate].
  destruct (o_ma_ok o); cbn; [|discriminate].
  destruct ack as [a|]; cbn; [|discriminate].
  destruct (ack_netid a =? netid); cbn; [|discriminate].
  destruct (mode_ok (ack_mode a)) eqn:Hm; cbn; [|discriminate].
  destruct (ack_address a); cbn; [|discriminate].
  destruct picker as [pick|]; cbn.
  - destruct (mode_is_full_ok _ Hm) as [b ->]; cbn.
    destruct b, pick, lf, (o_sig_ok o); cbn; discriminate.
  - destruct (o_sig_ok o); cbn; discriminate.
Qed.

(** the code as found: each absent sub-message is a nil dereference *)
Definition hs_o := mkHsOrc true true true.
Lemma handshake_out_found_panics :
  handshake_out false 7 hs_o (Some (mkSynAck None None)) = Panicked /\
  handshake_out false 7 hs_o (Some (mkSynAck (Some (mkSyn [])) None)) = Panicked /\
  handshake_out false 7 hs_o (Some (mkSynAck (Some (mkSyn [])) (Some (mkAck None 7 [1] [])))) = Panicked.
Proof. repeat split. Qed.
Lemma handshake_in_found_panics :
  handshake_in false 7 None false hs_o (Some (mkSyn [])) (Some (mkAck None 7 [1] [])) = Panicked.
Proof. reflexivity. Qed.

(** ---- trafficprotocol ---- *)
Lemma traffic_cheque_total known m j : traffic_cheque true known m j <> Panicked.
Proof.
  unfold traffic_cheque, receive_cheque.
  destruct m; cbn; [|discriminate].
  destruct j as [|[] f]; cbn; try discriminate.
  destruct known; cbn; [|discriminate].
  destruct (cf_ben_is_peer f || cf_rec_is_self f); cbn; [|discriminate].
  destruct (cf_store_ok f); cbn; discriminate.
Qed.

(** the payout is dereferenced only after a successful verification, and a nil payout never verifies *)
Lemma traffic_handshake_no_pan known taken f : traffic_handshake known taken f <> Pan.
Proof.
  unfold traffic_handshake, cf_verified.
  destruct known; cbn.
  - destruct (cf_sig_nil f); cbn; [discriminate|].
    destruct (cf_rec_is_peer f); cbn; [|discriminate].
    destruct (cf_payout_nil f); cbn; [discriminate|].
    destruct (cf_sig_recovers f); cbn; [|discriminate].
    destruct (cf_issuer_self f); cbn; discriminate.
  - destruct taken; cbn; [discriminate|].
    destruct (cf_sig_nil f); cbn; [discriminate|].
    destruct (cf_payout_nil f); cbn; [discriminate|].
    destruct (cf_sig_recovers f); cbn; [|discriminate].
    destruct (cf_issuer_self f); cbn; discriminate.
Qed.

Lemma traffic_init_in_total known taken m j : traffic_init_in known taken m j <> Panicked.
Proof.
  unfold traffic_init_in.
  destruct m; cbn; [|discriminate].
  destruct j as [|n f]; cbn; [discriminate|].
  pose proof (traffic_handshake_no_pan known taken f) as Hn.
  destruct (traffic_handshake known taken f); cbn; try discriminate. contradiction.
Qed.

Lemma traffic_init_out_total known taken m j : traffic_init_out known taken m j <> Panicked.
Proof.
  unfold traffic_init_out.
  destruct m; cbn; [|discriminate].
  destruct j as [|n f]; cbn; [discriminate|].
  pose proof (traffic_handshake_no_pan known taken f) as Hn.
  destruct (traffic_handshake known taken f); cbn; try discriminate. contradiction.
Qed.

Lemma traffic_cheque_found_panics :
  traffic_cheque false true (Some (mkEmit [] [110;117;108;108]))
     (JOk true (mkCF false false false true false false false true)) = Panicked.
Proof. reflexivity. Qed.

(** ---- proximity is total on byte strings of ANY two lengths ---- *)
Module P20 := Aurora.C20.Model.

Lemma prox_loop_no_panic capped maxpo : forall b one other i,
  (b <= length one)%nat -> (b <= length other)%nat ->
  P20.prox_loop capped maxpo one other i b <> P20.Panic.
Proof.
  induction b as [|b IH]; intros one other i H1 H2; [cbn; discriminate|].
  destruct one as [|x one]; [cbn in H1; lia|].
  destruct other as [|y other]; [cbn in H2; lia|].
  cbn [P20.prox_loop].
  destruct (P20.scan_bits (N.lxor x y) 0 8) as [j|].
  - discriminate.
  - apply IH; cbn in *; lia.
Qed.

Lemma u8_le n : P20.u8 n <= n.
Proof. unfold P20.u8. apply N.mod_le. discriminate. Qed.

Lemma proximity_gen_no_panic capped maxpo x y : P20.proximity_gen capped maxpo x y <> P20.Panic.
Proof.
  unfold P20.proximity_gen.
  set (b0 := P20.u8 (maxpo / 8 + 1)).
  set (l1 := P20.u8 (N.of_nat (length x))).
  set (l2 := P20.u8 (N.of_nat (length y))).
  assert (H1 : l1 <= N.of_nat (length x)) by apply u8_le.
  assert (H2 : l2 <= N.of_nat (length y)) by apply u8_le.
  apply prox_loop_no_panic.
  - destruct (l1 <? b0) eqn:E1; destruct (l2 <? _) eqn:E2;
      try apply N.ltb_lt in E1; try apply N.ltb_ge in E1; try apply N.ltb_lt in E2; try apply N.ltb_ge in E2; lia.
  - destruct (l1 <? b0) eqn:E1; destruct (l2 <? _) eqn:E2;
      try apply N.ltb_lt in E1; try apply N.ltb_ge in E1; try apply N.ltb_lt in E2; try apply N.ltb_ge in E2; lia.
Qed.

Lemma prox_val maxpo x y : exists n, prox maxpo x y = Val n.
Proof.
  unfold prox. pose proof (proximity_gen_no_panic false maxpo x y) as H.
  destruct (P20.proximity_gen false maxpo x y); [eexists; reflexivity | contradiction].
Qed.

Lemma pslice_bin_val maxpo mb base a : 0 < mb -> exists n, pslice_bin maxpo mb base a = Val n.
Proof.
  intros Hmb. unfold pslice_bin. destruct (prox_val maxpo base a) as [p ->]; cbn.
  destruct (mb <=? p) eqn:E.
  - assert (Hlt : (mb - 1 <? mb) = true) by (apply N.ltb_lt; lia). rewrite Hlt. eexists; reflexivity.
  - apply N.leb_gt in E. assert (Hlt : (p <? mb) = true) by (apply N.ltb_lt; lia). rewrite Hlt. eexists; reflexivity.
Qed.

(** ---- hive2 ---- *)
Lemma hive_match_val maxpo target pos skip peers : exists l, hive_match maxpo target pos skip peers = Val l.
Proof.
  induction peers as [|a rest [l IH]]; cbn; [eexists; reflexivity|].
  destruct (member a skip); [eexists; exact IH|].
  destruct (prox_val maxpo target a) as [p ->]; cbn. rewrite IH; cbn. eexists; reflexivity.
Qed.

Lemma hive_limits_pos ml l : (0 <= ml)%Z -> let '(a, b) := hive_limits ml l in (1 <= a /\ 1 <= b)%Z.
Proof.
  intros Hml. unfold hive_limits.
  remember (hive_clamp ml l) as l' eqn:El.
  destruct (l' >? 2)%Z eqn:E; [|lia].
  apply Z.gtb_lt in E.
  pose proof (Z.quot_pos l' 2 ltac:(lia) ltac:(lia)).
  assert (Z.quot l' 2 = l' / 2)%Z as Hq by (apply Z.quot_div_nonneg; lia).
  rewrite Hq in *. split; [|apply Z.div_le_lower_bound; lia].
  assert (l' / 2 < l')%Z by (apply Z.div_lt; lia). lia.
Qed.

Lemma rand_limit_val {A} (peers : list A) limit : (1 <= limit)%Z -> exists l, rand_limit peers limit = Val l.
Proof.
  intros H. unfold rand_limit, slice_to.
  destruct (Z.of_nat (length peers) >? limit)%Z eqn:E; [|eexists; reflexivity].
  apply Z.gtb_lt in E.
  assert ((limit <? 0)%Z = false) as -> by (apply Z.ltb_ge; lia).
  assert ((Z.to_nat limit <=? length peers)%nat = true) as -> by (apply Nat.leb_le; lia).
  eexists; reflexivity.
Qed.

Lemma hive_find_node_total maxpo ml requester conn known m :
  (0 <= ml)%Z -> res_outcome (hive_find_node maxpo ml requester conn known m) <> Panicked.
Proof.
  intros Hml. unfold hive_find_node.
  destruct m as [req|]; cbn; [|discriminate].
  pose proof (hive_limits_pos ml (fn_limit req) Hml) as HL.
  destruct (hive_limits ml (fn_limit req)) as [lc lk]. destruct HL as [Hc Hk].
  destruct (hive_match_val maxpo (fn_target req) (fn_pos req) [requester] conn) as [mc ->]; cbn.
  destruct (rand_limit_val mc lc Hc) as [rc ->]; cbn.
  destruct (hive_match_val maxpo (fn_target req) (fn_pos req) (requester :: rc) known) as [mk ->]; cbn.
  destruct (rand_limit_val mk lk Hk) as [rk ->]; cbn [bind].
  assert (Hc0 : (0 <= hive_clamp ml (fn_limit req))%Z).
  { unfold hive_clamp. destruct (_ >? _)%Z; destruct (_ <? 0)%Z eqn:E; try lia; apply Z.ltb_ge in E; lia. }
  destruct (Z.of_nat (length (rc ++ rk)) >? hive_clamp ml (fn_limit req))%Z eqn:E; cbn; [|discriminate].
  apply Z.gtb_lt in E.
  assert ((hive_clamp ml (fn_limit req) <? 0)%Z = false) as -> by (apply Z.ltb_ge; lia).
  unfold slice_to.
  assert ((Z.to_nat (hive_clamp ml (fn_limit req)) <=? length (rc ++ rk))%nat = true) as -> by (apply Nat.leb_le; lia).
  cbn. discriminate.
Qed.

Lemma hive_add_peers_val maxpo base ping ps : exists n, hive_add_peers maxpo base ping ps = Val n.
Proof.
  induction ps as [|p rest [n IH]]; cbn; [eexists; reflexivity|].
  rewrite IH; cbn. destruct (hp_ma_ok p && ping); [|eexists; reflexivity].
  destruct (pslice_bin_val maxpo (maxpo + 1) base (hp_overlay p) ltac:(lia)) as [b ->]; cbn. eexists; reflexivity.
Qed.

Lemma hive_peers_total maxpo base ping m : res_outcome (hive_peers maxpo base ping m) <> Panicked.
Proof.
  unfold hive_peers. destruct m as [ps|]; cbn; [|discriminate].
  destruct (hive_add_peers_val maxpo base ping ps) as [n ->]; discriminate.
Qed.

(** ---- chunkinfo ---- *)
Lemma update_chunk_info_val st bv : update_chunk_info true st bv <> Pan.
Proof.
  unfold update_chunk_info. destruct (ci_onfile st); [discriminate|].
  destruct (ci_chunks st) as [v|]; [|discriminate].
  destruct (v =? 0); [discriminate|].
  destruct (N.of_nat (length bv) * 8 <? v); cbn; discriminate.
Qed.

Lemma queue_keys_val keys : queue_keys true keys = Val tt.
Proof. induction keys as [|k r IH]; cbn; [reflexivity|]. destruct (is_hex k); cbn; exact IH. Qed.

Lemma chunkinfo_resp_total st fwd m : chunkinfo_resp true st fwd m <> Panicked.
Proof.
  unfold chunkinfo_resp, update_queue. destruct m as [resp|]; cbn; [|discriminate].
  destruct (bytes_eqb (cr_req resp) (ci_self st)); [|destruct fwd; cbn; discriminate].
  set (p := match cr_presence resp with Some p => p | None => [] end).
  destruct (map_lookup (hex_of (cr_target resp)) p) as [bv|].
  - pose proof (update_chunk_info_val st bv) as H.
    destruct (update_chunk_info true st bv) as [[]|e|]; cbn; try discriminate; [|contradiction].
    destruct (ci_queue st); [rewrite queue_keys_val|]; cbn; discriminate.
  - cbn. destruct (ci_queue st); [rewrite queue_keys_val|]; cbn; discriminate.
Qed.

Lemma chunkinfo_req_total self fwd m : chunkinfo_req self fwd m <> Panicked.
Proof. unfold chunkinfo_req. destruct m, fwd; cbn; discriminate. Qed.

(** the code as found: a non-hex map key with a discovery queue; a presence vector shorter
    than the file's chunk count *)
Lemma chunkinfo_resp_found_panics :
  chunkinfo_resp false (mkCIState [1] (Some 3) true None) true
     (Some (mkCIResp [9] [2] [1] (Some [([122;122], [7])]))) = Panicked /\
  chunkinfo_resp false (mkCIState [1] (Some 3) false None) true
     (Some (mkCIResp [9] [2] [1] (Some [([48;50], [])]))) = Panicked.
Proof. split; reflexivity. Qed.

(** ---- multicast ---- *)
Lemma group_touch_val maxpo self peer : group_touch maxpo self peer = Val tt.
Proof. unfold group_touch. destruct (pslice_bin_val maxpo 1 self peer ltac:(lia)) as [b ->]. reflexivity. Qed.

Lemma for_each_touch maxpo self peer (gids : list (list N)) :
  for_each (fun _ => group_touch maxpo self peer) gids = Val tt.
Proof.
  assert (G : forall (f : list N -> res unit), (forall x, f x = Val tt) -> forall l, for_each f l = Val tt).
  { intros f Hf l. induction l as [|g r IH]; cbn; [reflexivity|]. rewrite Hf; cbn. exact IH. }
  apply G. intros _. apply group_touch_val.
Qed.

Lemma mc_handshake_total maxpo self peer m : mc_handshake maxpo self peer m <> Panicked.
Proof. unfold mc_handshake. destruct m; cbn; [rewrite for_each_touch|]; cbn; discriminate. Qed.

Lemma mc_notify_total maxpo self peer m : mc_notify maxpo self peer m <> Panicked.
Proof.
  unfold mc_notify. destruct m as [[st gids]|]; cbn; [|discriminate].
  destruct ((st =? 1) || (st =? 2))%Z; [rewrite for_each_touch|]; cbn; discriminate.
Qed.

(** DistanceCmp as written (guard with [||]) never indexes out of range; it agrees with the C20 model *)
Lemma cmp_loop_p_val a : forall x y, length a = length x -> length a = length y -> exists z, cmp_loop_p a x y = Val z.
Proof.
  induction a as [|ai a IH]; intros x y Hx Hy; cbn; [eexists; reflexivity|].
  destruct x as [|xi x]; [discriminate|]. destruct y as [|yi y]; [discriminate|].
  destruct (N.lxor xi ai =? N.lxor yi ai); [apply IH; cbn in *; congruence|].
  destruct (_ <? _); eexists; reflexivity.
Qed.

Lemma distance_cmp_p_val a x y : exists r, distance_cmp_p a x y = Val r.
Proof.
  unfold distance_cmp_p, distance_cmp_g, len_guard_or.
  destruct (Nat.eqb (length a) (length x)) eqn:Ex; cbn; [|eexists; reflexivity].
  destruct (Nat.eqb (length a) (length y)) eqn:Ey; cbn; [|eexists; reflexivity].
  apply Nat.eqb_eq in Ex, Ey.
  destruct (cmp_loop_p_val a x y Ex Ey) as [z ->]; cbn. eexists; reflexivity.
Qed.

Lemma cmp_loop_p_c20 a : forall x y, length a = length x -> length a = length y ->
  cmp_loop_p a x y = Val (P20.cmp_loop a x y).
Proof.
  induction a as [|ai a IH]; intros x y Hx Hy; cbn; [reflexivity|].
  destruct x as [|xi x]; [discriminate|]. destruct y as [|yi y]; [discriminate|].
  destruct (N.lxor xi ai =? N.lxor yi ai); [apply IH; cbn in *; congruence|].
  destruct (_ <? _); reflexivity.
Qed.

Lemma distance_cmp_p_c20 a x y : distance_cmp_p a x y = Val (P20.distance_cmp a x y).
Proof.
  unfold distance_cmp_p, distance_cmp_g, len_guard_or, P20.distance_cmp.
  destruct (Nat.eqb (length a) (length x)) eqn:Ex; cbn; [|reflexivity].
  destruct (Nat.eqb (length a) (length y)) eqn:Ey; cbn; [|reflexivity].
  apply Nat.eqb_eq in Ex, Ey. rewrite (cmp_loop_p_c20 a x y Ex Ey). reflexivity.
Qed.

Lemma closer_p_val a x y : exists b, closer_p a x y = Val b.
Proof. unfold closer_p. destruct (distance_cmp_p_val x a y) as [r ->]; cbn. eexists; reflexivity. Qed.

Lemma closer_scan_val gid groups : forall closer, exists c, closer_scan gid closer groups = Val c.
Proof.
  induction groups as [|g r IH]; intros closer; cbn; [eexists; reflexivity|].
  destruct closer as [|c0 cl]; [apply IH|].
  destruct (closer_p_val g gid (c0 :: cl)) as [b ->]; cbn. apply IH.
Qed.

Lemma forward_nodes_val gid known joined : forward_nodes gid known joined = Val tt.
Proof.
  unfold forward_nodes. destruct (closer_scan_val gid known []) as [k ->]; cbn.
  destruct (closer_scan_val gid joined []) as [j ->]; reflexivity.
Qed.

(** the seeded change C37-1 (guard with [&&]): a 1-byte gid next to a 32-byte one panics *)
Lemma distance_cmp_and_guard_panics :
  distance_cmp_g len_guard_and [7; 1] [7] [7; 2] = Pan.
Proof. reflexivity. Qed.

Lemma mc_find_group_total mt served known joined m : mc_find_group mt served known joined m <> Panicked.
Proof.
  unfold mc_find_group. destruct m as [req|], served; cbn; try discriminate.
  destruct (_ <? _)%Z; cbn; [rewrite forward_nodes_val|]; cbn; discriminate.
Qed.

Lemma mc_multicast_total self origin gid has known joined m : mc_multicast self origin gid has known joined m <> Panicked.
Proof.
  unfold mc_multicast. destruct m; cbn; [|discriminate].
  destruct (bytes_eqb origin self); cbn; [discriminate|].
  destruct has; [|rewrite forward_nodes_val]; cbn; discriminate.
Qed.

Lemma mc_message_total j s m sf : mc_message true j s m sf <> Panicked.
Proof. unfold mc_message. destruct m as [g|], j, s, sf; cbn; try discriminate; destruct (gm_type g =? 1)%Z; cbn; discriminate. Qed.

Lemma mc_message_found_panics :
  mc_message false true true (Some (mkGroupMsg [1] [] 1 [])) true = Panicked.
Proof. reflexivity. Qed.

(** ---- routetab ---- *)
Lemma rt_save_path_val p : rt_save_path p = Val tt.
Proof.
  unfold rt_save_path, index. destruct (length (rp_items p) <? 2)%nat eqn:E; [reflexivity|].
  apply Nat.ltb_ge in E.
  destruct (nth_error (rp_items p) (length (rp_items p) - 1)) eqn:En; [reflexivity|].
  apply nth_error_None in En. lia.
Qed.

Lemma for_each_val {A} (f : A -> res unit) : (forall x, f x = Val tt) -> forall l, for_each f l = Val tt.
Proof. intros Hf l. induction l as [|g r IH]; cbn; [reflexivity|]. rewrite Hf; cbn. exact IH. Qed.

Lemma rt_req_scan_no_pan mt self paths : rt_req_scan mt self paths <> Pan.
Proof.
  induction paths as [|p r IH]; cbn [rt_req_scan]; [discriminate|].
  destruct (mt <? length (rp_items p))%nat; [discriminate|].
  destruct (member self (rp_items p)); [discriminate|exact IH].
Qed.

Lemma rt_req_total mt self m : rt_req mt self m <> Panicked.
Proof.
  unfold rt_req. destruct m as [[d paths]|]; cbn; [|discriminate].
  pose proof (rt_req_scan_no_pan mt self paths) as H.
  destruct (rt_req_scan mt self paths) as [[]|e|]; cbn; try discriminate; [|contradiction].
  rewrite (for_each_val _ rt_save_path_val). discriminate.
Qed.

Lemma rt_resp_total mt self m : rt_resp mt self m <> Panicked.
Proof.
  unfold rt_resp. destruct m as [[d paths]|]; cbn; [|discriminate].
  destruct (filter _ paths) as [|p now]; cbn; [discriminate|].
  match goal with |- context [if ?c then _ else _] => destruct c end; cbn; try discriminate.
  rewrite rt_save_path_val; cbn. rewrite (for_each_val _ rt_save_path_val). discriminate.
Qed.

Lemma rt_small_total in_book self is_conn sig_ok m1 m2 m3 :
  rt_underlay in_book m1 <> Panicked /\ rt_connchain self is_conn m2 <> Panicked /\ rt_find_underlay sig_ok m3 <> Panicked.
Proof.
  repeat split.
  - unfold rt_underlay. destruct m1, in_book; cbn; discriminate.
  - unfold rt_connchain. destruct m2 as [[d sm]|]; cbn; [|discriminate].
    destruct (bytes_eqb d self); [destruct (mode_ok sm)|destruct is_conn]; cbn; discriminate.
  - unfold rt_find_underlay. destruct m3, sig_ok; cbn; discriminate.
Qed.

(** ---- retrieval ---- *)
Lemma retrieval_handler_total self h f k m d : retrieval_handler self h f k m d <> Panicked.
Proof.
  unfold retrieval_handler. destruct m as [req|]; cbn; [|discriminate].
  destruct h; cbn.
  - destruct f, k; cbn; discriminate.
  - destruct (bytes_eqb (rq_target req) self); cbn; [discriminate|].
    destruct d as [[data v]|]; cbn; [|discriminate].
    destruct v, k, f; cbn; discriminate.
Qed.


(** ---- hex ---- *)
Lemma hex_digit_is_hex n : n < 16 -> is_hex_char (hex_digit n) = true.
Proof.
  intros H. unfold hex_digit, is_hex_char.
  destruct (n <? 10) eqn:E; [apply N.ltb_lt in E|apply N.ltb_ge in E].
  - assert ((48 <=? 48 + n) = true) as -> by (apply N.leb_le; lia).
    assert ((48 + n <=? 57) = true) as -> by (apply N.leb_le; lia). reflexivity.
  - assert ((97 <=? 87 + n) = true) as -> by (apply N.leb_le; lia).
    assert ((87 + n <=? 102) = true) as -> by (apply N.leb_le; lia).
    rewrite orb_true_r. reflexivity.
Qed.

Lemma hex_of_is_hex l : is_hex (hex_of l) = true.
Proof.
  unfold is_hex. apply andb_true_iff. split.
  - induction l as [|b l IH]; [reflexivity|]. cbn [hex_of flat_map app length]. exact IH.
  - induction l as [|b l IH]; [reflexivity|]. cbn [hex_of flat_map app forallb].
    rewrite !hex_digit_is_hex by (apply N.mod_lt; discriminate). exact IH.
Qed.

Lemma must_hex_hex_of l : must_hex (hex_of l) = Val tt.
Proof. unfold must_hex. rewrite hex_of_is_hex. reflexivity. Qed.

(** ---- pyramid ---- *)
Lemma find_idx_bound c : forall l i j, find_idx c l i = Some j -> (j < i + length l)%nat.
Proof.
  induction l as [|x r IH]; intros i j H; cbn in H; [discriminate|].
  destruct (bytes_eqb c x); [inversion H; subst; cbn; lia|].
  apply IH in H. cbn. lia.
Qed.

Lemma bv_touch_ok n i : (i < n)%nat -> bv_touch (bv_bytes n) i = Val tt.
Proof.
  intros H. unfold bv_touch, bv_bytes.
  assert (Hd : (i / 8 <= n / 8)%nat) by (apply Nat.div_le_mono; lia).
  destruct (Nat.eqb (n mod 8) 0 && negb (Nat.eqb n 0))%bool eqn:E.
  - apply andb_true_iff in E as [E1 _]. apply Nat.eqb_eq in E1.
    assert (Hn : n = (8 * (n / 8))%nat) by (pose proof (Nat.div_mod n 8 ltac:(lia)); lia).
    assert (i / 8 < n / 8)%nat by (apply Nat.div_lt_upper_bound; lia).
    assert ((i / 8 <? n / 8)%nat = true) as -> by (apply Nat.ltb_lt; lia). reflexivity.
  - assert ((i / 8 <? n / 8 + 1)%nat = true) as -> by (apply Nat.ltb_lt; lia). reflexivity.
Qed.

Lemma pyr_book_val hashes cids : pyr_book hashes cids = Val tt.
Proof.
  unfold pyr_book. destruct (Nat.eqb (length (dedup_into [] hashes)) 0); [reflexivity|].
  apply for_each_val. intros c.
  destruct (find_idx c (dedup_into [] hashes) 0) as [i|] eqn:E; [|reflexivity].
  apply find_idx_bound in E. rewrite bv_touch_ok by lia. reflexivity.
Qed.

Lemma on_pyramid_resp_no_pan k c t : on_pyramid_resp k c t <> Pan.
Proof.
  unfold on_pyramid_resp. destruct k; [discriminate|].
  destruct (tv_ok t); cbn; [|discriminate].
  rewrite (for_each_val (fun r => must_hex (hex_of (pr_hash r)))) by (intros; apply must_hex_hex_of).
  cbn. rewrite pyr_book_val. discriminate.
Qed.

Lemma pyramid_handler_total st fwd m reply t : res_outcome (pyramid_handler st fwd m reply t) <> Panicked.
Proof.
  unfold pyramid_handler. destruct m as [req|]; cbn; [|discriminate].
  destruct (bytes_eqb (pq_target req) (ps_self st) || ps_root_known st) eqn:E.
  - destruct (ps_local st) as [v|]; cbn; [|discriminate].
    rewrite (for_each_val (fun a => must_hex (hex_of a))) by (intros; apply must_hex_hex_of). cbn. discriminate.
  - unfold send_pyramid. destruct fwd; cbn; [|discriminate].
    destruct (pyr_collect reply) as [c|]; cbn; [|discriminate].
    pose proof (on_pyramid_resp_no_pan (ps_root_known st) c t) as H.
    destruct (on_pyramid_resp (ps_root_known st) c t) as [[]|e|]; cbn; try discriminate. contradiction.
Qed.

(** ---- multicast client reads, relay ---- *)
Lemma mc_clients_total maxpo self peer gids addrs gm :
  mc_hs_out maxpo self peer gids <> Panicked /\ mc_group_node maxpo self addrs <> Panicked /\ mc_send gm <> Panicked.
Proof.
  repeat split.
  - unfold mc_hs_out. destruct gids; cbn; [rewrite for_each_touch|]; cbn; discriminate.
  - unfold mc_group_node. destruct addrs as [l|]; cbn; [|discriminate].
    rewrite (for_each_val (fun a => group_touch maxpo self a)) by (intros; apply group_touch_val). cbn. discriminate.
  - unfold mc_send. destruct gm as [g|]; cbn; [|discriminate]. destruct (Nat.eqb _ 0); cbn; discriminate.
Qed.

Lemma rt_relay_total maxpo self ic fw m : rt_relay maxpo self ic fw m <> Panicked.
Proof.
  unfold rt_relay. destruct m as [req|]; cbn; [|discriminate].
  destruct (negb (rr_midcall req) && negb (bytes_eqb (rr_dest req) self)); cbn; [|discriminate].
  destruct (pslice_bin_val maxpo (maxpo + 1) self (rr_dest req) ltac:(lia)) as [b ->]; cbn.
  destruct ic; [destruct fw|]; cbn; discriminate.
Qed.
