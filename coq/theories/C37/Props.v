(** C37 — property theorems only: one totality theorem per handler front. *)
From Coq Require Import List NArith ZArith Bool.
Import ListNotations.
Require Import Aurora.Consts Aurora.C37.Model Aurora.C37.Proofs.
Require Aurora.C37.Lock.
Local Open Scope N_scope.

Definition MaxPO : N := Z.to_N Consts.boson_MaxPO.
Definition MaxPeersLimit : Z := Consts.hive2_maxPeersLimit.
Lemma consts_ok_C37 : (0 <=? Consts.boson_MaxPO)%Z && (0 <=? MaxPeersLimit)%Z = true.
Proof. vm_compute. reflexivity. Qed.

(** handshake, dialling side: whatever SynAck the remote sends (and whatever the
    multiaddr / peer-id / signature libraries say about its bytes), [Handshake] returns *)
Theorem C37_handshake_out_total : forall (netid : N) (o : hs_orc) (m : option hs_synack),
  handshake_out true netid o m <> Panicked.
Proof. exact handshake_out_total. Qed.
Print Assumptions C37_handshake_out_total.

(** handshake, listening side *)
Theorem C37_handshake_in_total : forall (netid : N) (picker : option bool) (light_full : bool) (o : hs_orc)
    (syn : option hs_syn) (ack : option hs_ack),
  handshake_in true netid picker light_full o syn ack <> Panicked.
Proof. exact handshake_in_total. Qed.
Print Assumptions C37_handshake_in_total.

(** cheque stream: any EmitCheque, any JSON in it (including [null]), peer known or not *)
Theorem C37_traffic_cheque_total : forall (known : bool) (m : option emit_cheque) (j : json_cheque),
  traffic_cheque true known m j <> Panicked.
Proof. exact traffic_cheque_total. Qed.
Print Assumptions C37_traffic_cheque_total.

(** init stream, both sides.  Full: the former assumption about the EIP-712 encoder is now part of the model
    ([cf_verified]: a nil payout is rendered "<nil>", which the uint256 parser rejects, so verification fails
    before the only dereference of the payout) and is checked against the real verifier by the correspondence *)
Theorem C37_traffic_init_total : forall (known taken : bool) (m : option emit_cheque) (j : json_cheque),
  traffic_init_in known taken m j <> Panicked /\ traffic_init_out known taken m j <> Panicked.
Proof. intros k t m j. exact (conj (traffic_init_in_total k t m j) (traffic_init_out_total k t m j)). Qed.
Print Assumptions C37_traffic_init_total.

(** pingpong: the front has no panic-capable operation (stated for completeness) *)
Theorem C37_pingpong_total : forall texts : list (list N),
  fst (ping_in texts) <> Panicked /\ ping_out texts <> Panicked.
Proof. intros texts. split; discriminate. Qed.
Print Assumptions C37_pingpong_total.

(** hive2 onFindNode: any target length (proximity's uint8 length arithmetic included), any
    Pos list, any int32 Limit, any peer tables *)
Theorem C37_hive2_find_node_total : forall (requester : list N) (conn known : list (list N)) (m : option find_node_req),
  res_outcome (hive_find_node MaxPO MaxPeersLimit requester conn known m) <> Panicked.
Proof. intros. apply hive_find_node_total. vm_compute. discriminate. Qed.
Print Assumptions C37_hive2_find_node_total.

(** hive2 client read of Peers and the peer validation that follows, including filing an
    overlay of arbitrary length into the kademlia known-peers bins *)
Theorem C37_hive2_peers_total : forall (base : list N) (ping_ok : bool) (m : option (list hive_peer)),
  res_outcome (hive_peers MaxPO base ping_ok m) <> Panicked.
Proof. intros. apply hive_peers_total. Qed.
Print Assumptions C37_hive2_peers_total.

(** chunkinfo response (and the discover worker it waits for): any presence map — arbitrary
    string keys, vectors of any length — in any discovery state *)
Theorem C37_chunkinfo_resp_total : forall (st : ci_state) (fwd_ok : bool) (m : option ci_resp),
  chunkinfo_resp true st fwd_ok m <> Panicked.
Proof. exact chunkinfo_resp_total. Qed.
Print Assumptions C37_chunkinfo_resp_total.

Theorem C37_chunkinfo_req_total : forall (self : list N) (fwd_ok : bool) (m : option ci_req),
  chunkinfo_req self fwd_ok m <> Panicked.
Proof. exact chunkinfo_req_total. Qed.
Print Assumptions C37_chunkinfo_req_total.

(** multicast: group handshake, notify, find-group, multicast and group-message handlers.
    [known] / [joined]: gids (ANY lengths, peer-chosen) of the groups with members; forwarding
    compares them with [Closer], modelled with DistanceCmp's length guard and explicit index panics *)
Theorem C37_multicast_handshake_notify_total : forall (self peer : list N) (gids : option (list (list N))) (n : option (Z * list (list N))),
  mc_handshake MaxPO self peer gids <> Panicked /\ mc_notify MaxPO self peer n <> Panicked.
Proof. intros. split; [apply mc_handshake_total | apply mc_notify_total]. Qed.
Print Assumptions C37_multicast_handshake_notify_total.

Theorem C37_multicast_find_multicast_total : forall (max_ttl : Z) (served : bool) (known joined : list (list N)) (m : option find_group_req)
    (self origin gid : list N) (has_group : bool) (mm : option unit),
  mc_find_group max_ttl served known joined m <> Panicked /\ mc_multicast self origin gid has_group known joined mm <> Panicked.
Proof. intros. split; [apply mc_find_group_total | apply mc_multicast_total]. Qed.
Print Assumptions C37_multicast_find_multicast_total.

(** group message incl. the SendReceive session reader: any further bytes the peer sends *)
Theorem C37_multicast_message_total : forall (joined subscribed : bool) (m : option group_msg) (second_frame : bool),
  mc_message true joined subscribed m second_frame <> Panicked.
Proof. exact mc_message_total. Qed.
Print Assumptions C37_multicast_message_total.

(** routetab: route request / response (path lists of any shape), underlay lookup, relay
    connection chain front, underlay client read *)
Theorem C37_routetab_route_total : forall (max_ttl : nat) (self : list N) (m : option (list N * list rt_path)),
  rt_req max_ttl self m <> Panicked /\ rt_resp max_ttl self m <> Panicked.
Proof. intros. split; [apply rt_req_total | apply rt_resp_total]. Qed.
Print Assumptions C37_routetab_route_total.

Theorem C37_routetab_underlay_relay_total : forall (in_book : bool) (self : list N) (is_conn sig_ok : bool)
    (m1 : option (list N)) (m2 : option (list N * list N)) (m3 : option unit),
  rt_underlay in_book m1 <> Panicked /\ rt_connchain self is_conn m2 <> Panicked /\ rt_find_underlay sig_ok m3 <> Panicked.
Proof. intros. apply rt_small_total. Qed.
Print Assumptions C37_routetab_underlay_relay_total.

(** retrieval handler and the relayed Delivery it reads *)
Theorem C37_retrieval_total : forall (self : list N) (has_chunk full root_known : bool) (m : option req_chunk) (deliv : option (list N * bool)),
  retrieval_handler self has_chunk full root_known m deliv <> Panicked.
Proof. exact retrieval_handler_total. Qed.
Print Assumptions C37_retrieval_total.

(** chunkinfo pyramid exchange: serving side (local pyramid) and relaying side (the target's answer,
    any sequence of entries, whatever the traversal library says about it, and the bookkeeping that
    follows an accepted pyramid: bit indices stay inside the vectors) *)
Theorem C37_chunkinfo_pyramid_total : forall (st : pyr_state) (fwd_ok : bool) (m : option pyr_req) (reply : list pyr_resp) (t : trav_ans),
  res_outcome (pyramid_handler st fwd_ok m reply t) <> Panicked.
Proof. exact pyramid_handler_total. Qed.
Print Assumptions C37_chunkinfo_pyramid_total.

(** multicast, initiating direction: handshake reply, find-group reply (addresses of any length filed
    into the group), group-message reply *)
Theorem C37_multicast_clients_total : forall (self peer : list N) (gids addrs : option (list (list N))) (gm : option group_msg),
  mc_hs_out MaxPO self peer gids <> Panicked /\ mc_group_node MaxPO self addrs <> Panicked /\ mc_send gm <> Panicked.
Proof. intros. apply mc_clients_total. Qed.
Print Assumptions C37_multicast_clients_total.

(** routetab relay: PackRelayResp's first read and the forward branch of onRelay *)
Theorem C37_routetab_relay_total : forall (self : list N) (is_conn fwd_ok : bool) (m : option relay_req),
  rt_relay MaxPO self is_conn fwd_ok m <> Panicked.
Proof. intros. apply rt_relay_total. Qed.
Print Assumptions C37_routetab_relay_total.

(** concurrent ChunkInfoResp handlers and the pull queue (Lock.v): with the exclusive lock the code
    holds around [queueProcess], any number of handlers from any queue state never pop an empty queue *)
Theorem C37_queue_exclusive_lock_safe : forall (maxp nthreads : nat) (q : Lock.qstate),
  exists q', Lock.run_exclusive maxp q nthreads = Some q'.
Proof. intros. apply Lock.exclusive_safe. Qed.
Print Assumptions C37_queue_exclusive_lock_safe.

(** the property is refuted for the variant that takes the shared lock instead (seeded change C37-3):
    a schedule of two handlers over a one-element backlog reaches the empty-queue pop *)
Theorem C37_queue_shared_lock_refuted : exists q sched, Lock.run_shared 10 q [Lock.Idle; Lock.Idle] sched = Lock.Panic.
Proof. exact Lock.shared_unsafe. Qed.
Print Assumptions C37_queue_shared_lock_refuted.

(** DistanceCmp as modelled here (explicit index panics) is the C20 function on all inputs *)
Theorem C37_distance_cmp_is_C20 : forall a x y : list N,
  distance_cmp_p a x y = Val (Aurora.C20.Model.distance_cmp a x y).
Proof. exact distance_cmp_p_c20. Qed.
Print Assumptions C37_distance_cmp_is_C20.

(** non-vacuity: the models distinguish outcomes — a complete valid exchange succeeds,
    and the unrepaired code does panic on a SynAck without Syn *)
Example C37_nonvacuous :
  handshake_out true 7 (mkHsOrc true true true)
     (Some (mkSynAck (Some (mkSyn [4])) (Some (mkAck (Some (mkBzz [4] [1] [2])) 7 [1] [])))) = Done 0 /\
  handshake_in true 7 (Some true) false (mkHsOrc true true true) (Some (mkSyn [4]))
     (Some (mkAck (Some (mkBzz [4] [1] [2])) 7 [1] [])) = Done 0 /\
  handshake_out false 7 (mkHsOrc true true true) (Some (mkSynAck None None)) = Panicked /\
  (* the length guard matters: with the guard of seeded change C37-1 the comparison panics *)
  distance_cmp_g len_guard_and [7; 1] [7] [7; 2] = Pan /\ distance_cmp_p [7; 1] [7] [7; 2] = Val None.
Proof. repeat split. Qed.
