(** C37 — lock discipline of the chunkinfo pull queue (pkg/chunkinfo/queue.go queueProcess).

    Every ChunkInfoResp handler ends in [queueProcess]: it sizes a batch
    [n := min (PullingMax - len Pulling) (len UnPull)] and then calls [pop(UnPull)] [n] times;
    [pop] indexes element 0 without an emptiness check.  Handlers of different streams run in
    different goroutines.  The code holds [queuesLk.Lock()] (exclusive) around the whole of
    [queueProcess]; seeded change C37-3 replaced it by [RLock()] (shared).

    Threads = handler invocations.  Atomic actions = the batch-size computation and each pop (each
    takes the queue's own mutex).  Under the exclusive lock a thread's actions are contiguous; under the
    shared lock any interleaving (a schedule = list of thread ids) is possible. *)
From Coq Require Import List Arith Bool Lia.
Import ListNotations.

Record qstate := mkQ { unpull : nat; pulling : nat }.
Inductive thread := Idle | Popping (k : nat) | Finished.
Inductive outcome := Ok (q : qstate) (ts : list thread) | Panic.

Definition batch (maxp : nat) (q : qstate) : nat := Nat.min (maxp - pulling q) (unpull q).

(** one atomic action of one thread *)
Definition step1 (maxp : nat) (q : qstate) (t : thread) : option (qstate * thread) :=
  match t with
  | Idle => Some (q, Popping (batch maxp q))
  | Popping 0 => Some (q, Finished)
  | Popping (S k) =>
      match unpull q with
      | 0 => None                                              (* qu[0] on an empty queue: panic *)
      | S u => Some (mkQ u (S (pulling q)), Popping k)
      end
  | Finished => Some (q, Finished)
  end.

Fixpoint set_nth (ts : list thread) (i : nat) (t : thread) : list thread :=
  match ts, i with
  | [], _ => []
  | _ :: r, 0 => t :: r
  | x :: r, S j => x :: set_nth r j t
  end.

(** shared lock: the schedule picks which thread performs its next atomic action *)
Fixpoint run_shared (maxp : nat) (q : qstate) (ts : list thread) (sched : list nat) : outcome :=
  match sched with
  | [] => Ok q ts
  | i :: rest =>
      match nth_error ts i with
      | None => run_shared maxp q ts rest
      | Some t =>
          match step1 maxp q t with
          | None => Panic
          | Some (q', t') => run_shared maxp q' (set_nth ts i t') rest
          end
      end
  end.

(** exclusive lock: a thread that got the lock performs all its actions before the next one starts *)
Fixpoint pops (q : qstate) (k : nat) : option qstate :=
  match k with
  | 0 => Some q
  | S k' => match unpull q with 0 => None | S u => pops (mkQ u (S (pulling q))) k' end
  end.
Fixpoint run_exclusive (maxp : nat) (q : qstate) (nthreads : nat) : option qstate :=
  match nthreads with
  | 0 => Some q
  | S m => match pops q (batch maxp q) with None => None | Some q' => run_exclusive maxp q' m end
  end.

Lemma pops_ok : forall k q, k <= unpull q -> exists q', pops q k = Some q'.
Proof.
  induction k as [|k IH]; intros q H; cbn; [eexists; reflexivity|].
  destruct (unpull q) as [|u] eqn:E; [lia|]. apply IH. cbn. lia.
Qed.

(** with the exclusive lock no number of concurrent handlers, from no queue state, pops an empty queue *)
Lemma exclusive_safe maxp : forall n q, exists q', run_exclusive maxp q n = Some q'.
Proof.
  induction n as [|n IH]; intros q; cbn; [eexists; reflexivity|].
  destruct (pops_ok (batch maxp q) q) as [q' ->]; [unfold batch; lia|]. apply IH.
Qed.

(** with the shared lock two handlers and a one-element backlog are enough:
    both size their batch (1), the first pops, the second pops an empty queue *)
Lemma shared_unsafe : exists q sched, run_shared 10 q [Idle; Idle] sched = Panic.
Proof. exists (mkQ 1 8), [0; 1; 0; 1]. reflexivity. Qed.

(** and the shared-lock schedules that keep each thread's actions contiguous are exactly the safe ones
    (sanity of the model: the same two handlers, run one after the other, are fine) *)
Lemma shared_sequential_ok : run_shared 10 (mkQ 1 8) [Idle; Idle] [0; 0; 0; 1; 1] = Ok (mkQ 0 9) [Finished; Finished].
Proof. reflexivity. Qed.
