(** C37 — correspondence: the harness sends the structured message to the REAL
    handler (with the proposed repairs applied), records panic / error class and
    what the third-party parsers answered on the same bytes; [check_case]
    recomputes the model's outcome. *)
From Coq Require Import List NArith ZArith Bool String Ascii.
Import ListNotations.
Require Import Aurora.Base.Corr.
Require Import Aurora.Consts.
Require Export Aurora.C37.Model.
Local Open Scope N_scope.

(** bytes of a case are written as a hex string literal (a long [list N] literal
    is two orders of magnitude slower to parse); [hb] decodes it *)
Definition hexval (c : ascii) : N :=
  let n := N_of_ascii c in
  if (48 <=? n) && (n <=? 57) then n - 48
  else if (97 <=? n) && (n <=? 102) then n - 87
  else 0.
Fixpoint hb (s : string) : list N :=
  match s with
  | String a (String b r) => (16 * hexval a + hexval b) :: hb r
  | _ => []
  end.

Inductive case :=
| CHsOut (netid : N) (o : hs_orc) (m : hs_synack) (obs : outcome)
| CHsIn (netid : N) (picker : option bool) (light_full : bool) (o : hs_orc)
        (syn : option hs_syn) (ack : option hs_ack) (obs : outcome)
| CTrCheque (known taken : bool) (m : emit_cheque) (j : json_cheque) (obs : outcome)
| CTrInitIn (known taken : bool) (m : emit_cheque) (j : json_cheque) (obs : outcome)
| CTrInitOut (known taken : bool) (m : emit_cheque) (j : json_cheque) (obs : outcome)
| CPingIn (texts : list (list N)) (obs : outcome) (replies : N)
| CPingOut (texts : list (list N)) (obs : outcome) (replies : N)
| CHiveFind (base requester : list N) (m : find_node_req) (obs : outcome) (npeers : Z)
| CHivePeers (base : list N) (ping_ok : bool) (ps : list hive_peer) (obs : outcome) (added : Z)
| CHiveSeq (base requester : list N) (added : list (list N)) (m : find_node_req) (obs : outcome) (npeers : Z)
| CCIResp (st : ci_state) (m : ci_resp) (obs : outcome)
| CCIReq (self : list N) (m : ci_req) (obs : outcome)
| CCIPyramid (st : pyr_state) (m : pyr_req) (reply : list pyr_resp) (t : trav_ans) (obs : outcome) (replies : Z)
| CMcHsOut (gids : list (list N)) (obs : outcome)
| CMcSend (m : group_msg) (obs : outcome)
| CMcDiscover (self : list N) (addrs : list (list N)) (gids : list (list N)) (obs : outcome) (known_after : Z)
| CRtRelay (self : list N) (is_conn : bool) (m : option relay_req) (obs : outcome)
| CMcHandshake (gids : list (list N)) (obs : outcome)
| CMcNotify (status : Z) (gids : list (list N)) (obs : outcome)
| CMcFindGroup (m : find_group_req) (served : bool) (known joined : list (list N)) (obs : outcome)
| CMcMulticast (self origin gid : list N) (has_group : bool) (known joined : list (list N)) (obs : outcome)
| CMcMessage (joined subscribed : bool) (m : group_msg) (second_frame : bool) (obs : outcome)
| CRtReq (self dest : list N) (paths : list rt_path) (nu : N) (obs : outcome)
| CRtResp (self dest : list N) (paths : list rt_path) (nu : N) (obs : outcome)
| CRtUnderlay (in_book : bool) (dest : list N) (obs : outcome)
| CRtConnChain (self : list N) (is_conn : bool) (dest srcmode : list N) (obs : outcome)
| CRtFindUnderlay (sig_ok : bool) (obs : outcome)
| CRetrieval (self : list N) (has_chunk full root_known : bool) (m : req_chunk) (deliv : option (list N * bool)) (obs : outcome).

(** the node of the harness: overlay address and peer tables (harness/cmd/c37/net.go);
    [flip_at base po salt]: bit [po] flipped, last byte xor salt *)
Definition MaxPO : N := Z.to_N Consts.boson_MaxPO.
Fixpoint upd (l : list N) (i : nat) (f : N -> N) : list N :=
  match l, i with
  | [], _ => []
  | x :: r, O => f x :: r
  | x :: r, S i' => x :: upd r i' f
  end.
Definition flip_at (node_overlay : list N) (po : nat) (salt : N) : list N :=
  let b := upd node_overlay (po / 8) (fun x => N.lxor x (N.shiftr 128 (N.of_nat (po mod 8)))) in
  upd b (List.length b - 1) (fun x => N.lxor x salt).
Definition conn_pos : list nat := [0;0;1;2;3;3;5;8]%nat.
Definition known_pos : list nat := [0;1;1;4;6]%nat.
Fixpoint mk_peers (base : list N) (pos : list nat) (salt : N) : list (list N) :=
  match pos with [] => [] | p :: r => flip_at base p salt :: mk_peers base r (salt + 1) end.
Definition conn_peers base := mk_peers base conn_pos 1.
Definition known_only base := mk_peers base known_pos 64.
(** after a Peers reply filed [added] (overlays of any length) into the known peers *)
Definition hive_find_seq base requester added m :=
  hive_find_node MaxPO Consts.hive2_maxPeersLimit requester (conn_peers base) (conn_peers base ++ known_only base ++ added) (Some m).
Definition hive_find base requester m :=
  hive_find_node MaxPO Consts.hive2_maxPeersLimit requester (conn_peers base) (conn_peers base ++ known_only base) (Some m).

Definition outcome_eqb (a b : outcome) : bool :=
  match a, b with
  | Done x, Done y => x =? y
  | Panicked, Panicked => true
  | _, _ => false
  end.

Definition model_out (c : case) : outcome :=
  match c with
  | CHsOut netid o m _ => handshake_out true netid o (Some m)
  | CHsIn netid p lf o syn ack _ => handshake_in true netid p lf o syn ack
  | CTrCheque known _ m j _ => traffic_cheque true known (Some m) j
  | CTrInitIn known taken m j _ => traffic_init_in known taken (Some m) j
  | CTrInitOut known taken m j _ => traffic_init_out known taken (Some m) j
  | CPingIn texts _ _ => fst (ping_in texts)
  | CPingOut texts _ _ => ping_out texts
  | CHiveFind base rq m _ _ => res_outcome (hive_find base rq m)
  | CHivePeers base ping ps _ _ => res_outcome (hive_peers MaxPO base ping (Some ps))
  | CHiveSeq base rq added m _ _ => res_outcome (hive_find_seq base rq added m)
  | CCIResp st m _ => chunkinfo_resp true st true (Some m)
  | CCIReq self m _ => chunkinfo_req self true (Some m)
  | CCIPyramid st m reply t _ _ => res_outcome (pyramid_handler st true (Some m) reply t)
  | CMcHsOut gids _ => mc_hs_out MaxPO [] [] (Some gids)
  | CMcSend m _ => mc_send (Some m)
  | CMcDiscover self addrs gids _ _ =>
      match mc_group_node MaxPO self (Some addrs) with
      | Done 0 => mc_hs_out MaxPO self [] (Some gids)
      | o => o
      end
  | CRtRelay self ic m _ => rt_relay MaxPO self ic true m
  | CMcHandshake gids _ => mc_handshake MaxPO [] [] (Some gids)
  | CMcNotify st gids _ => mc_notify MaxPO [] [] (Some (st, gids))
  | CMcFindGroup m served kn jn _ => mc_find_group Consts.multicast_maxTTL served kn jn (Some m)
  | CMcMulticast self o g has kn jn _ => mc_multicast self o g has kn jn (Some tt)
  | CMcMessage j sb m sf _ => mc_message true j sb (Some m) sf
  | CRtReq self d ps _ _ => rt_req (Z.to_nat Consts.routetab_MaxTTL) self (Some (d, ps))
  | CRtResp self d ps _ _ => rt_resp (Z.to_nat Consts.routetab_MaxTTL) self (Some (d, ps))
  | CRtUnderlay ib d _ => rt_underlay ib (Some d)
  | CRtConnChain self ic d sm _ => rt_connchain self ic (Some (d, sm))
  | CRtFindUnderlay ok _ => rt_find_underlay ok (Some tt)
  | CRetrieval self h f k m d _ => retrieval_handler self h f k (Some m) d
  end.
(** second observable (reply / added-peer counts) *)
Definition model_aux (c : case) : Z :=
  match c with
  | CPingIn texts _ _ => Z.of_N (snd (ping_in texts))
  | CHiveFind base rq m _ _ => res_value (-1)%Z (hive_find base rq m)
  | CHivePeers base ping ps _ _ => res_value 0%Z (hive_peers MaxPO base ping (Some ps))
  | CHiveSeq base rq added m _ _ => res_value (-1)%Z (hive_find_seq base rq added m)
  | CCIPyramid st m reply t _ _ => Z.of_nat (res_value 0%nat (pyramid_handler st true (Some m) reply t))
  | CMcDiscover _ _ _ _ n => n   (* membership after the round depends on the handshake replies: not compared *)
  | _ => 0%Z
  end.
Definition obs_aux (c : case) : Z :=
  match c with
  | CPingIn _ _ n => Z.of_N n
  | CHiveFind _ _ _ _ n => n
  | CHivePeers _ _ _ _ n => n
  | CHiveSeq _ _ _ _ _ n => n
  | CCIPyramid _ _ _ _ _ n => n
  | CMcDiscover _ _ _ _ n => n
  | _ => 0%Z
  end.
Definition obs_out (c : case) : outcome :=
  match c with
  | CHsOut _ _ _ obs => obs
  | CHsIn _ _ _ _ _ _ obs => obs
  | CTrCheque _ _ _ _ obs | CTrInitIn _ _ _ _ obs | CTrInitOut _ _ _ _ obs => obs
  | CPingIn _ obs _ | CPingOut _ obs _ | CHiveFind _ _ _ obs _ | CHivePeers _ _ _ obs _ | CHiveSeq _ _ _ _ obs _ => obs
  | CCIResp _ _ obs | CCIReq _ _ obs => obs
  | CCIPyramid _ _ _ _ obs _ | CMcHsOut _ obs | CMcSend _ obs | CMcDiscover _ _ _ obs _ | CRtRelay _ _ _ obs => obs
  | CMcHandshake _ obs | CMcNotify _ _ obs | CMcFindGroup _ _ _ _ obs | CMcMulticast _ _ _ _ _ _ obs | CMcMessage _ _ _ _ obs => obs
  | CRtReq _ _ _ _ obs | CRtResp _ _ _ _ obs | CRtUnderlay _ _ obs | CRtConnChain _ _ _ _ obs | CRtFindUnderlay _ obs => obs
  | CRetrieval _ _ _ _ _ _ obs => obs
  end.
(** onRelay: when no next hop is found the handler's [select] has both the error and the EOF of the
    closed request stream ready and Go picks either: error or nil are both accepted there (never a panic) *)
Definition relay_race (c : case) : bool :=
  match c, model_out c, obs_out c with
  | CRtRelay _ _ _ _, Done 1, Done _ => true
  | _, _, _ => false
  end.
Definition check_case (c : case) : bool :=
  (outcome_eqb (model_out c) (obs_out c) || relay_race c) && (model_aux c =? obs_aux c)%Z.
Definition explain_case (c : case) := (model_out c, obs_out c, model_aux c, obs_aux c).
