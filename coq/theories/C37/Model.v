(** C37 — models of the protocol handler FRONTS: the code between reading a
    peer's message and handing off to deeper components.  Definitions only.

    Conventions
    - a wire message is a record; pointer sub-messages are [option], bytes and
      repeated fields are lists (bytes are [N]);
    - the generated protobuf decoder and third-party parsers (multiaddr, peer
      id, signature recovery, JSON) are NOT modelled: what they answered on the
      very same bytes is an input of the model (the [*_orc] records); theorems
      quantify over all their possible answers;
    - every Go operation that can panic is written with a primitive that has an
      explicit [Pan] result: [deref] (field access through a nil pointer),
      [index], [slice_to], [bv_get], [must_hex] ...;
    - [fixed : bool] selects the code WITH the proposed repairs of
      /verif/proposed/C37 ([true]; this is what the correspondence runs against)
      or the code as found ([false]; kept to state the witnesses of the defects). *)
From Coq Require Import List NArith ZArith Bool.
Import ListNotations.
Require Aurora.C20.Model.
Local Open Scope N_scope.

(** what a handler front does: returns (error class; 0 = nil error) or panics *)
Inductive outcome := Done (e : N) | Panicked.

(** a Go statement sequence: continue with a value, return an error class, or panic *)
Inductive res (A : Type) := Val (a : A) | Ret (e : N) | Pan.
Arguments Val {A} a. Arguments Ret {A} e. Arguments Pan {A}.

Definition bind {A B} (r : res A) (f : A -> res B) : res B :=
  match r with Val a => f a | Ret e => Ret e | Pan => Pan end.
Notation "x <- r ;; k" := (bind r (fun x => k)) (at level 61, r at next level, right associativity).
Notation "r ;;; k" := (bind r (fun _ => k)) (at level 61, right associativity).

Definition run (r : res unit) : outcome :=
  match r with Val _ => Done 0 | Ret e => Done e | Pan => Panicked end.

(** ---- Go primitives that can panic ---- *)
(** [p.f] where [p] is a pointer to a sub-message *)
Definition deref {A} (p : option A) : res A := match p with Some a => Val a | None => Pan end.
(** [l[i]] *)
Definition index {A} (l : list A) (i : nat) : res A :=
  match nth_error l i with Some a => Val a | None => Pan end.
(** [l[:n]] (n <= cap is n <= len for the slices concerned: they are exact-size) *)
Definition slice_to {A} (l : list A) (n : nat) : res (list A) :=
  if (n <=? length l)%nat then Val (firstn n l) else Pan.
(** [if !b { return e }] *)
Definition guard (b : bool) (e : N) : res unit := if b then Val tt else Ret e.
(** a message that could not be read / decoded ends the handler with class [e] *)
Definition from_read {A} (m : option A) (e : N) : res A := match m with Some a => Val a | None => Ret e end.
Definition is_some {A} (o : option A) : bool := match o with Some _ => true | None => false end.

(** ===================================================================== *)
(** * handshake  (pkg/p2p/libp2p/internal/handshake/handshake.go)          *)

Record hs_syn := mkSyn { syn_observed : list N }.
Record hs_bzz := mkBzz { bzz_underlay : list N; bzz_sig : list N; bzz_overlay : list N }.
Record hs_ack := mkAck { ack_address : option hs_bzz; ack_netid : N; ack_mode : list N; ack_welcome : list N }.
Record hs_synack := mkSynAck { sa_syn : option hs_syn; sa_ack : option hs_ack }.

(** library answers on this message: [ma.NewMultiaddrBytes(Syn.ObservedUnderlay)] ok,
    [peer.AddrInfoFromP2pAddr] ok, [aurora.ParseAddress(Ack.Address...)] ok *)
Record hs_orc := mkHsOrc { o_ma_ok : bool; o_ai_ok : bool; o_sig_ok : bool }.

(** error classes *)
Definition E_HS_INVALID_SYN : N := 1.
Definition E_HS_NETID : N := 2.
Definition E_HS_INVALID_ACK : N := 3.
Definition E_HS_NODE_MODE : N := 4.
Definition E_HS_PICKER : N := 5.
Definition E_HS_PICKER_LIGHT : N := 6.
Definition E_HS_OTHER : N := 7.

(** [aurora.NewModelFromBytes(m)] = [bitvector.NewFromBytes(m, 1)]: error iff [len(m)*8 < 1] *)
Definition mode_ok (m : list N) : bool := negb (Nat.eqb (length m) 0).
(** [mode.IsFull()] = [bv.b[0] & 1 != 0]; an index panic when the vector is empty *)
Definition mode_is_full (m : list N) : res bool := b <- index m 0 ;; Val (N.testbit b 0).

Section Handshake.
  Variable fixed : bool.

  (** [parseCheckAck(ack *pb.Ack)] *)
  Definition parse_check_ack (o : hs_orc) (ack : option hs_ack) : res unit :=
    (if fixed
     then guard (match ack with Some a => is_some (ack_address a) | None => false end) E_HS_INVALID_ACK
     else Val tt) ;;;
    a <- deref ack ;;
    _b <- deref (ack_address a) ;;
    guard (o_sig_ok o) E_HS_INVALID_ACK.

  (** [Service.Handshake] after the SynAck was read ([None]: the read failed) *)
  Definition handshake_out (netid : N) (o : hs_orc) (m : option hs_synack) : outcome :=
    run (
      resp <- from_read m E_HS_OTHER ;;
      (if fixed then guard (is_some (sa_syn resp)) E_HS_INVALID_SYN ;;; guard (is_some (sa_ack resp)) E_HS_INVALID_ACK
       else Val tt) ;;;
      _syn <- deref (sa_syn resp) ;;                    (* resp.Syn.ObservedUnderlay *)
      guard (o_ma_ok o) E_HS_INVALID_SYN ;;;
      guard (o_ai_ok o) E_HS_OTHER ;;;
      (* Resolve, aurora.NewAddress, MarshalBinary: local data, succeed *)
      ack <- deref (sa_ack resp) ;;                     (* resp.Ack.NetworkID *)
      guard (ack_netid ack =? netid) E_HS_NETID ;;;
      parse_check_ack o (sa_ack resp) ;;;
      (* write Ack; log the welcome message *)
      guard (mode_ok (ack_mode ack)) E_HS_NODE_MODE).

  (** [Service.Handle]: [syn]/[ack] are the two messages read ([None]: read failed);
      [picker]: [None] no picker set, [Some b] its answer; [light_full]: light-node table at its limit *)
  Definition handshake_in (netid : N) (picker : option bool) (light_full : bool) (o : hs_orc)
             (syn : option hs_syn) (ack : option hs_ack) : outcome :=
    run (
      _s <- from_read syn E_HS_OTHER ;;
      guard (o_ma_ok o) E_HS_INVALID_SYN ;;;
      (* Resolve, NewAddress, write SynAck *)
      a <- from_read ack E_HS_OTHER ;;
      guard (ack_netid a =? netid) E_HS_NETID ;;;
      guard (mode_ok (ack_mode a)) E_HS_NODE_MODE ;;;
      (if fixed then guard (is_some (ack_address a)) E_HS_INVALID_ACK else Val tt) ;;;
      _addr <- deref (ack_address a) ;;                 (* ack.Address.Overlay *)
      match picker with
      | None => Val tt
      | Some pick =>
          full <- mode_is_full (ack_mode a) ;;
          if full then guard pick E_HS_PICKER else guard (negb light_full) E_HS_PICKER_LIGHT
      end ;;;
      parse_check_ack o ack).
End Handshake.

(** ===================================================================== *)
(** * trafficprotocol  (pkg/settlement/traffic/trafficprotocol/trafficprotocol.go)
      with the fronts of traffic.ReceiveCheque / traffic.Handshake it calls *)

Record emit_cheque := mkEmit { ec_address : list N; ec_signed : list N }.

(** what [encoding/json] and the cheque verification answered on [ec_signed]
    (decoded into a [SignedCheque]); not modelled, inputs *)
Record cheque_facts := mkCF {
  cf_ben_is_peer : bool;   (* Beneficiary == the chain address registered for the peer *)
  cf_rec_is_self : bool;   (* Recipient == the node's chain address *)
  cf_store_ok : bool;      (* chequeStore.ReceiveCheque accepts it *)
  cf_sig_nil : bool;       (* Signature == nil *)
  cf_rec_is_peer : bool;   (* Recipient == the chain address registered for the peer *)
  cf_sig_recovers : bool;  (* signature recovery over the EIP-712 hash succeeds, GIVEN the cheque could be encoded *)
  cf_issuer_self : bool;   (* ... and the issuer is the node itself *)
  cf_payout_nil : bool     (* CumulativePayout == nil *)
}.
(** [json.Unmarshal(req.SignedCheque, &x)]: error, or ok; [is_null]: the text was JSON null
    (a pointer target stays nil, a value target stays the zero cheque) *)
Inductive json_cheque := JBad | JOk (is_null : bool) (f : cheque_facts).

Definition E_ERR : N := 1.

(** [chequeStore.VerifyCheque] = [RecoverCheque]: [eip712DataForCheque] renders the payout with
    [String()] of a [*big.Int], which for a nil pointer is the text "<nil>" (no dereference); the typed-data
    encoder ([apitypes.parseInteger] -> [math.ParseBig256]) rejects that text for the [uint256] field, so the
    hash is never computed and verification fails before any signature work *)
Definition cf_verified (f : cheque_facts) : bool := negb (cf_payout_nil f) && cf_sig_recovers f.

(** [traffic.Service.ReceiveCheque(ctx, peer, cheque *SignedCheque)] *)
Definition receive_cheque (known : bool) (c : option cheque_facts) : res unit :=
  guard known E_ERR ;;;
  f <- deref c ;;                                                  (* cheque.Beneficiary *)
  guard (cf_ben_is_peer f || cf_rec_is_self f) E_ERR ;;;           (* ben != chain && rec != self -> error *)
  guard (cf_store_ok f) E_ERR.

(** [traffic.Service.Handshake(peer, recipient, signedCheque SignedCheque)];
    [taken]: the claimed chain address is already registered for another overlay *)
Definition traffic_handshake (known taken : bool) (f : cheque_facts) : res unit :=
  (if known then guard (cf_sig_nil f || cf_rec_is_peer f) E_ERR
   else guard (negb taken) E_ERR) ;;;
  (* UpdatePeerBalance: chain client answers *)
  if cf_sig_nil f then Val tt else
  guard (cf_verified f) E_ERR ;;;
  guard (cf_issuer_self f) E_ERR ;;;
  (* LastSendCheque *)
  _p <- deref (if cf_payout_nil f then None else Some tt) ;;       (* signedCheque.CumulativePayout.Cmp(...) *)
  Val tt.

Section Traffic.
  Variable fixed : bool.

  (** stream "traffic": [Service.handler] *)
  Definition traffic_cheque (known : bool) (m : option emit_cheque) (j : json_cheque) : outcome :=
    run (
      _m <- from_read m E_ERR ;;
      p <- match j with JBad => Ret E_ERR | JOk true _ => Val None | JOk false f => Val (Some f) end ;;
      (if fixed then guard (is_some p) E_ERR else Val tt) ;;;
      receive_cheque known p).

End Traffic.

(** stream "init", listening side: [Service.initHandler]; the Handshake error is only logged,
    LastReceivedCheque returns a non-nil cheque in every state *)
Definition traffic_init_in (known taken : bool) (m : option emit_cheque) (j : json_cheque) : outcome :=
  run (
    _m <- from_read m E_ERR ;;
    f <- match j with JBad => Ret E_ERR | JOk _ f => Val f end ;;
    match traffic_handshake known taken f with Pan => Pan | _ => Val tt end).

(** dialling side: [Service.init] (ConnectOut) *)
Definition traffic_init_out (known taken : bool) (m : option emit_cheque) (j : json_cheque) : outcome :=
  run (
    _m <- from_read m E_ERR ;;
    f <- match j with JBad => Ret E_ERR | JOk _ f => Val f end ;;
    traffic_handshake known taken f).



(** ===================================================================== *)
(** * shared: proximity and the po-indexed peer slices *)

(** [boson.Proximity]: the C20 model (uint8 length truncation, index panics explicit) *)
Definition prox (maxpo : N) (x y : list N) : res N :=
  match Aurora.C20.Model.proximity_gen false maxpo x y with
  | Aurora.C20.Model.Ret n => Val n
  | Aurora.C20.Model.Panic => Pan
  end.

(** [pslice.po] followed by the bin access [s.peers[po]] of Add / Exists / Remove *)
Definition pslice_bin (maxpo : N) (max_bins : N) (base addr : list N) : res N :=
  p <- prox maxpo base addr ;;
  let p' := if max_bins <=? p then max_bins - 1 else p in
  if p' <? max_bins then Val p' else Pan.

Definition bytes_eqb (a b : list N) : bool :=
  (fix go (a b : list N) : bool :=
     match a, b with
     | [], [] => true
     | x :: a', y :: b' => (x =? y) && go a' b'
     | _, _ => false
     end) a b.
Definition member (a : list N) (l : list (list N)) : bool := existsb (bytes_eqb a) l.

(** ===================================================================== *)
(** * pingpong  (pkg/pingpong/pingpong.go): no panic-capable operation in the front *)

(** handler: one Pong per Ping read, until the stream ends; returns the number of replies *)
Definition ping_in (texts : list (list N)) : outcome * N := (Done 0, N.of_nat (length texts)).
(** [Ping(msgs...)] with as many Pongs supplied as Pings sent *)
Definition ping_out (texts : list (list N)) : outcome := Done 0.

(** ===================================================================== *)
(** * hive2  (pkg/hive2/hive2.go) *)

Record find_node_req := mkFindNode { fn_target : list N; fn_pos : list Z; fn_limit : Z }.

Definition u8z (z : Z) : N := Z.to_N (z mod 256).
(** [inArray(po, req.Pos)]: [bin == uint8(v)] *)
Definition in_array (po : N) (pos : list Z) : bool := existsb (fun v => u8z v =? po) pos.

(** [req.Limit] after the cap and the clamp of negative values to 0 *)
Definition hive_clamp (max_limit l : Z) : Z :=
  let l := if (l >? max_limit)%Z then max_limit else l in
  if (l <? 0)%Z then 0%Z else l.
(** [limitConn, limitKnown] from the clamped limit *)
Definition hive_limits (max_limit l : Z) : Z * Z :=
  let l := hive_clamp max_limit l in
  if (l >? 2)%Z then let k := (Z.quot l 2) in ((l - k)%Z, k) else (1%Z, 1%Z).

(** [randPeersLimit(peers, limit)]: [peers[:limit]] of a shuffle when [len(peers) > limit]
    (which elements survive is irrelevant here, [firstn] stands for any choice) *)
Definition rand_limit {A} (peers : list A) (limit : Z) : res (list A) :=
  if (Z.of_nat (length peers) >? limit)%Z
  then (if (limit <? 0)%Z then Pan else slice_to peers (Z.to_nat limit))
  else Val peers.

(** the [addrFunc] closure over one peer list: those not skipped whose po to the target is listed *)
Fixpoint hive_match (maxpo : N) (target : list N) (pos : list Z) (skip : list (list N)) (peers : list (list N))
  : res (list (list N)) :=
  match peers with
  | [] => Val []
  | a :: rest =>
      if member a skip then hive_match maxpo target pos skip rest
      else
        po <- prox maxpo target a ;;
        r <- hive_match maxpo target pos skip rest ;;
        Val (if in_array po pos then a :: r else r)
  end.

(** [onFindNode]; [conn]: connected peers, [known]: all known peers (connected included),
    every one with an address-book entry; returns the number of peers in the reply *)
Definition hive_find_node (maxpo : N) (max_limit : Z) (requester : list N) (conn known : list (list N))
           (m : option find_node_req) : res Z :=
  req <- from_read m E_ERR ;;
  let '(lc, lk) := hive_limits max_limit (fn_limit req) in
  mc <- hive_match maxpo (fn_target req) (fn_pos req) [requester] conn ;;
  rc <- rand_limit mc lc ;;
  mk <- hive_match maxpo (fn_target req) (fn_pos req) (requester :: rc) known ;;
  rk <- rand_limit mk lk ;;
  (* never more than requested: [resp.Peers = resp.Peers[:req.Limit]] when longer *)
  let all := rc ++ rk in
  let lim := hive_clamp max_limit (fn_limit req) in
  out <- (if (Z.of_nat (length all) >? lim)%Z
          then (if (lim <? 0)%Z then Pan else slice_to all (Z.to_nat lim))
          else Val all) ;;
  Val (Z.of_nat (length out)).

Definition res_outcome {A} (r : res A) : outcome :=
  match r with Val _ => Done 0 | Ret e => Done e | Pan => Panicked end.
Definition res_value {A} (d : A) (r : res A) : A := match r with Val a => a | _ => d end.

(** client read of [Peers] + [checkAndAddPeers]: per entry multiaddr parse (library answer
    [hp_ma_ok]), libp2p ping ([ping_ok]), address-book put, then [kad.AddPeers(overlay)]
    which files the attacker-chosen overlay under [pslice.po] *)
Record hive_peer := mkHivePeer { hp_underlay : list N; hp_sig : list N; hp_overlay : list N; hp_ma_ok : bool }.

Fixpoint hive_add_peers (maxpo : N) (base : list N) (ping_ok : bool) (ps : list hive_peer) : res Z :=
  match ps with
  | [] => Val 0%Z
  | p :: rest =>
      n <- hive_add_peers maxpo base ping_ok rest ;;
      if hp_ma_ok p && ping_ok
      then _bin <- pslice_bin maxpo (maxpo + 1) base (hp_overlay p) ;; Val (n + 1)%Z
      else Val n
  end.

Definition hive_peers (maxpo : N) (base : list N) (ping_ok : bool) (m : option (list hive_peer)) : res Z :=
  ps <- from_read m E_ERR ;;
  hive_add_peers maxpo base ping_ok ps.

(** ===================================================================== *)
(** * chunkinfo  (pkg/chunkinfo/message.go, queue.go, chunkinfodiscover.go) *)

(** [hex.EncodeToString] (lower case), as ASCII codes: [boson.Address.String()] *)
Definition hex_digit (n : N) : N := if n <? 10 then 48 + n else 87 + n.
Definition hex_of (l : list N) : list N := flat_map (fun b => [hex_digit ((b / 16) mod 16); hex_digit (b mod 16)]) l.
(** [hex.DecodeString] succeeds: even length, every character a hex digit of either case *)
Definition is_hex_char (c : N) : bool :=
  ((48 <=? c) && (c <=? 57)) || ((97 <=? c) && (c <=? 102)) || ((65 <=? c) && (c <=? 70)).
Definition is_hex (s : list N) : bool := Nat.even (length s) && forallb is_hex_char s.

(** a protobuf [map<string, bytes>] on the wire is a list of entries; in the Go map the
    last entry of a key wins *)
Fixpoint map_lookup (k : list N) (m : list (list N * list N)) : option (list N) :=
  match m with
  | [] => None
  | (k', v) :: r => match map_lookup k r with Some v' => Some v' | None => if bytes_eqb k k' then Some v else None end
  end.

Record ci_resp := mkCIResp { cr_root : list N; cr_target : list N; cr_req : list N;
                             cr_presence : option (list (list N * list N)) }.
Record ci_req := mkCIReq { cq_root : list N; cq_target : list N; cq_req : list N }.

(** the part of the node state the front reads, for the root named in the message:
    number of data chunks when the pyramid is known ([getChunkSize]); whether a discovery
    queue exists; byte length of the presence vector already on file for (root, target) *)
Record ci_state := mkCIState { ci_self : list N; ci_chunks : option N; ci_queue : bool; ci_onfile : option nat }.

Section Chunkinfo.
  Variable fixed : bool.

  (** [updateChunkInfo(rootCid, overlay, bv)] (runs in the discover worker goroutine; the
      handler waits for it) *)
  Definition update_chunk_info (st : ci_state) (bv : list N) : res unit :=
    match ci_onfile st with
    | Some _ => Val tt                          (* SetBytes: a length mismatch is an error value, logged *)
    | None =>
        match ci_chunks st with
        | None => Val tt                        (* getChunkSize = 0: return *)
        | Some v =>
            if v =? 0 then Val tt else
            (* bit, err := bitvector.NewFromBytes(bv, v): nil, err when len(bv)*8 < v *)
            let bit : option unit := if N.of_nat (length bv) * 8 <? v then None else Some tt in
            if fixed && negb (is_some bit) then Val tt          (* repaired: log and return *)
            else _b <- deref bit ;; Val tt                       (* vb.bit.Bytes() *)
        end
    end.

  (** the loop of [updateQueue] over the keys of the peer's map *)
  Fixpoint queue_keys (keys : list (list N)) : res unit :=
    match keys with
    | [] => Val tt
    | k :: r =>
        (if is_hex k then Val tt                 (* boson.MustParseHexAddress(over) *)
         else if fixed then Val tt               (* repaired: ParseHexAddress, skip *)
         else Pan) ;;; queue_keys r
    end.

  Definition update_queue (st : ci_state) (target : list N) (presence : list (list N * list N)) : res unit :=
    match map_lookup (hex_of target) presence with
    | Some bv => update_chunk_info st bv
    | None => Val tt
    end ;;;
    if ci_queue st then queue_keys (map fst presence) else Val tt.

  (** [handlerChunkInfoResp]; [fwd_ok]: a stream to the relay destination can be opened and written *)
  Definition chunkinfo_resp (st : ci_state) (fwd_ok : bool) (m : option ci_resp) : outcome :=
    run (
      resp <- from_read m E_ERR ;;
      if bytes_eqb (cr_req resp) (ci_self st)
      then update_queue st (cr_target resp) (match cr_presence resp with Some p => p | None => [] end)
      else guard fwd_ok E_ERR).

  (** [handlerChunkInfoReq]: answers from the neighbour table or relays; no panic-capable operation *)
  Definition chunkinfo_req (self : list N) (fwd_ok : bool) (m : option ci_req) : outcome :=
    run (_r <- from_read m E_ERR ;; guard fwd_ok E_ERR).
End Chunkinfo.

(** ===================================================================== *)
(** * multicast  (pkg/multicast/kademlia.go, handshake.go, discover.go, group.go) *)

Record find_group_req := mkFindGroup { fg_gid : list N; fg_limit : Z; fg_ttl : Z; fg_paths : list (list N) }.
Record group_msg := mkGroupMsg { gm_gid : list N; gm_data : list N; gm_type : Z; gm_err : list N }.

Definition wrap32 (z : Z) : Z := ((z + 2147483648) mod 4294967296 - 2147483648)%Z.

(** [g.add(peer, true)] / [g.remove(peer, _)]: every branch starts with [pslice.Exists(peer)] on
    the group's one-bin slices (base = the node's address) *)
Definition group_touch (maxpo : N) (self peer : list N) : res unit :=
  _b <- pslice_bin maxpo 1 self peer ;; Val tt.

Fixpoint for_each {A} (f : A -> res unit) (l : list A) : res unit :=
  match l with [] => Val tt | x :: r => f x ;;; for_each f r end.

(** [HandshakeIncoming]: read GIDs, write own GIDs, [updatePeerGroupsJoin] *)
Definition mc_handshake (maxpo : N) (self peer : list N) (m : option (list (list N))) : outcome :=
  run (gids <- from_read m E_ERR ;; for_each (fun _gid => group_touch maxpo self peer) gids).

(** [onNotify] *)
Definition mc_notify (maxpo : N) (self peer : list N) (m : option (Z * list (list N))) : outcome :=
  run (msg <- from_read m E_ERR ;;
       let '(status, gids) := msg in
       if ((status =? 1) || (status =? 2))%Z then for_each (fun _gid => group_touch maxpo self peer) gids
       else Ret E_ERR).

(** [boson.DistanceCmp(a, x, y)] at HEAD: error unless BOTH lengths equal [len(a)]; then the
    loop [for i := range a { x[i] ^ a[i]; y[i] ^ a[i] }] — an index beyond x or y is a run-time panic *)
Fixpoint cmp_loop_p (a x y : list N) : res Z :=
  match a with
  | [] => Val 0%Z
  | ai :: a' =>
      match x, y with
      | xi :: x', yi :: y' =>
          let dx := N.lxor xi ai in
          let dy := N.lxor yi ai in
          if dx =? dy then cmp_loop_p a' x' y'
          else if dx <? dy then Val 1%Z else Val (-1)%Z
      | _, _ => Pan
      end
  end.
(** [len_guard] is the guard as written in the source; the seeded change C37-1 replaces [||] by [&&] *)
Definition len_guard_or (a x y : list N) : bool :=
  negb (Nat.eqb (length a) (length x)) || negb (Nat.eqb (length a) (length y)).
Definition len_guard_and (a x y : list N) : bool :=
  negb (Nat.eqb (length a) (length x)) && negb (Nat.eqb (length a) (length y)).
Definition distance_cmp_g (guard : list N -> list N -> list N -> bool) (a x y : list N) : res (option Z) :=
  if guard a x y then Val None                      (* return 0, errors.New("address length must match") *)
  else r <- cmp_loop_p a x y ;; Val (Some r).
Definition distance_cmp_p := distance_cmp_g len_guard_or.
(** [a.Closer(x, y)] = [DistanceCmp(x, a, y) == 1], the error dropped by the callers here *)
Definition closer_p (a x y : list N) : res bool :=
  r <- distance_cmp_p x a y ;; Val (match r with Some 1%Z => true | _ => false end).

(** [getCloserKnownGID] / [getCloserSelfGID]: scan of the groups that have members (any order:
    [sync.Map.Range]); [closer] starts as the zero address and a zero (empty) closer is replaced
    without a comparison *)
Fixpoint closer_scan (gid : list N) (closer : list N) (groups : list (list N)) : res (list N) :=
  match groups with
  | [] => Val closer
  | g :: r =>
      match closer with
      | [] => closer_scan gid g r
      | _ => yes <- closer_p g gid closer ;; closer_scan gid (if yes then g else closer) r
      end
  end.
(** [getForwardNodes(gid)]: the known groups first, then the joined ones *)
Definition forward_nodes (gid : list N) (known joined : list (list N)) : res unit :=
  _k <- closer_scan gid [] known ;; _j <- closer_scan gid [] joined ;; Val tt.

(** [onFindGroup]; [served]: the group is known here and yields at least one address (then the
    reply is written); otherwise [req.Ttl++] (int32) is compared with maxTTL and the request is
    forwarded to nodes of the closest known group; an empty result returns nil without a reply *)
Definition mc_find_group (max_ttl : Z) (served : bool) (known joined : list (list N)) (m : option find_group_req) : outcome :=
  run (req <- from_read m E_ERR ;;
       if served then Val tt
       else guard (wrap32 (fg_ttl req + 1) <? max_ttl)%Z E_ERR ;;; forward_nodes (fg_gid req) known joined).

(** [onMulticast]: de-duplication, own messages dropped; [Multicast]: a group object for the gid
    delivers itself, otherwise the message is forwarded towards the closest known group *)
Definition mc_multicast (self origin gid : list N) (has_group : bool) (known joined : list (list N)) (m : option unit) : outcome :=
  run (_m <- from_read m E_ERR ;;
       if bytes_eqb origin self then Val tt
       else if has_group then Val tt else forward_nodes gid known joined).

Section Multicast.
  Variable fixed : bool.
  (** [onMessage] + the reader goroutine [notifyMessage] starts for a SendReceive session.
      [second_frame]: the peer sends a further complete frame on the stream.  The goroutine
      calls [ReadMsg(nothing)] with [nothing] a nil [proto.Message]: once a frame is read,
      [proto.Unmarshal(buf, nil)] calls [Reset] on the nil interface *)
  Definition mc_message (joined subscribed : bool) (m : option group_msg) (second_frame : bool) : outcome :=
    run (g <- from_read m E_ERR ;;
         if joined && subscribed then
           if (gm_type g =? 1)%Z then
             if second_frame
             then _target <- deref (if fixed then Some tt else None) ;; Val tt
             else Val tt
           else Val tt
         else Val tt).
End Multicast.

(** ===================================================================== *)
(** * routetab  (pkg/routetab/route.go, table.go) *)

Record rt_path := mkRtPath { rp_sign : list N; rp_bodys : list (list N); rp_items : list (list N) }.

(** [Table.SavePath]: paths with fewer than two items are ignored; the next hop is
    [items[len(items)-1]] *)
Definition rt_save_path (p : rt_path) : res unit :=
  let items := rp_items p in
  if (length items <? 2)%nat then Val tt
  else _hop <- index items (length items - 1) ;; Val tt.

(** the discard loop of [onRouteReq]: too long, or contains this node: [return nil] *)
Fixpoint rt_req_scan (max_ttl : nat) (self : list N) (paths : list rt_path) : res unit :=
  match paths with
  | [] => Val tt
  | p :: r =>
      if (max_ttl <? length (rp_items p))%nat then Ret 0
      else if member self (rp_items p) then Ret 0
      else rt_req_scan max_ttl self r
  end.

(** [onRouteReq]: whatever branch follows (answer, neighbour forward, route forward), the
    handler returns nil; sends to other peers fail silently *)
Definition rt_req (max_ttl : nat) (self : list N) (m : option (list N * list rt_path)) : outcome :=
  run (msg <- from_read m E_ERR ;;
       let '(_dest, paths) := msg in
       rt_req_scan max_ttl self paths ;;;
       for_each rt_save_path paths).

(** [onRouteResp]: over-long paths are filtered out first; nothing left: return nil *)
Definition rt_resp (max_ttl : nat) (self : list N) (m : option (list N * list rt_path)) : outcome :=
  run (msg <- from_read m E_ERR ;;
       let '(_dest, paths) := msg in
       let now := filter (fun p => (length (rp_items p) <=? max_ttl)%nat) paths in
       match now with [] => Ret 0 | _ => Val tt end ;;;
       (if existsb (fun p => member self (rp_items p)) now then Ret 0 else Val tt) ;;;
       for_each rt_save_path now).

(** [onFindUnderlay]: address-book lookup *)
Definition rt_underlay (in_book : bool) (m : option (list N)) : outcome :=
  run (_d <- from_read m E_ERR ;; guard in_book E_ERR).

(** [onRelayConnChain] up to the hand-off; [is_conn]: the target is a connected peer (no route known otherwise) *)
Definition rt_connchain (self : list N) (is_conn : bool) (m : option (list N * list N)) : outcome :=
  run (msg <- from_read m E_ERR ;;
       let '(dest, srcmode) := msg in
       if bytes_eqb dest self then guard (mode_ok srcmode) E_ERR else guard is_conn E_ERR).

(** [FindUnderlay]: client read of UnderlayResp, [aurora.ParseAddress] (library answer), address-book put *)
Definition rt_find_underlay (sig_ok : bool) (m : option unit) : outcome :=
  run (_r <- from_read m E_ERR ;; guard sig_ok E_ERR).

(** ===================================================================== *)
(** * retrieval  (pkg/retrieval/retrieval.go): handler, and the client read of the relayed Delivery *)

Record req_chunk := mkReqChunk { rq_target : list N; rq_root : list N; rq_chunk : list N }.

(** [has_chunk]: the store has the chunk; [full]: the requesting peer is a full node (its download is
    reported to chunkinfo); [root_known]: chunkinfo knows the pyramid of [rq_root] (otherwise the report
    needs the pyramid from the network, which fails here); [deliv]: what the dialled target answered
    (data, and whether cac/soc validation accepts it for the requested address: library answer) *)
Definition retrieval_handler (self : list N) (has_chunk full root_known : bool) (m : option req_chunk)
           (deliv : option (list N * bool)) : outcome :=
  run (req <- from_read m E_ERR ;;
       (if has_chunk then Val tt
        else if bytes_eqb (rq_target req) self then Ret E_ERR
        else (* RetrieveChunkFromNode -> retrieveChunk *)
          d <- from_read deliv E_ERR ;;
          guard (snd d) E_ERR ;;;                     (* cac.Valid || soc.Valid *)
          guard root_known E_ERR) ;;;                 (* chunkinfo.OnChunkRetrieved; then storer.Put, exists[0] *)
       (* write Delivery, accounting.Debit *)
       if full then guard root_known E_ERR else Val tt).   (* chunkinfo.OnChunkTransferred *)

(** ===================================================================== *)
(** * chunkinfo pyramid exchange  (pkg/chunkinfo/message.go handlerPyramid / sendPyramid /
      onChunkPyramidHashReq / onChunkPyramidResp, chunkpyramid.go updateChunkPyramid,
      chunkinfotabneighbor.go initNeighborChunkInfo) *)

Record pyr_req := mkPyrReq { pq_root : list N; pq_target : list N }.
Record pyr_resp := mkPyrResp { pr_chunk : list N; pr_hash : list N; pr_ok : bool }.

(** node state read by the front: own address; the pyramid of the requested root is in the table
    ([isExists]); what the LOCAL traversal [GetPyramid(root)] returns: the addresses of its entries
    (map keys are [Address.String()] of them), [None] = error *)
Record pyr_state := mkPyrState { ps_self : list N; ps_root_known : bool; ps_local : option (list (list N)) }.

(** library answer on a pyramid received from a peer: [traversal.GetChunkHashes(root, pyramid)]
    (BMT check of every entry, size bound, manifest / joiner walk): ok?, the data-chunk addresses
    it lists (with repetitions), the single-chunk file references ("pieces") *)
Record trav_ans := mkTrav { tv_ok : bool; tv_hashes : list (list N); tv_cids : list (list N) }.

(** [boson.MustParseHexAddress(k)] *)
Definition must_hex (k : list N) : res unit := if is_hex k then Val tt else Pan.

(** data chunks in order of first occurrence: [getPyramid] numbers them ([sort]) *)
Fixpoint dedup_into (seen : list (list N)) (l : list (list N)) : list (list N) :=
  match l with
  | [] => seen
  | x :: r => if member x seen then dedup_into seen r else dedup_into (seen ++ [x]) r
  end.
Fixpoint find_idx (c : list N) (l : list (list N)) (i : nat) : option nat :=
  match l with
  | [] => None
  | x :: r => if bytes_eqb c x then Some i else find_idx c r (S i)
  end.
(** [bitvector.New(l)]: number of backing bytes *)
Definition bv_bytes (l : nat) : nat := if (Nat.eqb (l mod 8) 0 && negb (Nat.eqb l 0))%bool then l / 8 else l / 8 + 1.
(** [bv.Set(i)] / [bv.Get(i)]: [bv.b[i/8]] *)
Definition bv_touch (nbytes i : nat) : res unit := if (i / 8 <? nbytes)%nat then Val tt else Pan.

(** [initNeighborChunkInfo(root, peer, cids)] after [updateChunkPyramid]: own availability vector and
    the source vector of the peer get the bit of every piece that is a data chunk of the file *)
Definition pyr_book (hashes cids : list (list N)) : res unit :=
  let u := dedup_into [] hashes in
  let n := length u in
  if Nat.eqb n 0 then Val tt                               (* "pyramid is not exists": logged, return *)
  else for_each (fun c => match find_idx c u 0 with
                          | None => Val tt                  (* not a data chunk: ignored (HEAD) *)
                          | Some i => bv_touch (bv_bytes n) i ;;; bv_touch (bv_bytes n) i
                          end) cids.

(** [onChunkPyramidResp(root, peer, resps)] *)
Definition on_pyramid_resp (root_known : bool) (collected : list pyr_resp) (t : trav_ans) : res unit :=
  if root_known then Val tt else
  guard (tv_ok t) E_ERR ;;;
  (* UpdatePyramidSource; updateChunkPyramid: keys of the map are [NewAddress(resp.Hash).String()] *)
  for_each (fun r => must_hex (hex_of (pr_hash r))) collected ;;;
  pyr_book (tv_hashes t) (tv_cids t).

(** the read loop of [sendPyramid]: entries up to the first [Ok]; the stream ending first is a read error *)
Fixpoint pyr_collect (rs : list pyr_resp) : option (list pyr_resp) :=
  match rs with
  | [] => None
  | r :: rest => if pr_ok r then Some [] else option_map (cons r) (pyr_collect rest)
  end.

Definition send_pyramid (root_known fwd_ok : bool) (reply : list pyr_resp) (t : trav_ans) : res (list pyr_resp) :=
  guard fwd_ok E_ERR ;;;
  c <- from_read (pyr_collect reply) E_ERR ;;
  on_pyramid_resp root_known c t ;;;
  Val c.

(** [handlerPyramid]: returns the number of messages written back *)
Definition pyramid_handler (st : pyr_state) (fwd_ok : bool) (m : option pyr_req) (reply : list pyr_resp) (t : trav_ans) : res nat :=
  req <- from_read m E_ERR ;;
  if bytes_eqb (pq_target req) (ps_self st) || ps_root_known st then
    v <- from_read (ps_local st) E_ERR ;;                   (* onChunkPyramidHashReq *)
    for_each (fun a => must_hex (hex_of a)) v ;;;           (* MustParseHexAddress(hash) on the local map's keys *)
    Val (length v + 1)%nat
  else
    c <- send_pyramid (ps_root_known st) fwd_ok reply t ;;
    Val (length c + 1)%nat.

(** ===================================================================== *)
(** * multicast, initiating direction: replies read by the node *)

(** [Handshake(addr)]: reads the peer's GIDs, [updatePeerGroupsJoin(addr, gids)] *)
Definition mc_hs_out (maxpo : N) (self peer : list N) (m : option (list (list N))) : outcome :=
  run (gids <- from_read m E_ERR ;; for_each (fun _gid => group_touch maxpo self peer) gids).

(** [getGroupNode] + its caller [doFindGroup]: every address of the FindGroupResp (ANY length) is
    filed with [g.add(addr, false)] *)
Definition mc_group_node (maxpo : N) (self : list N) (m : option (list (list N))) : outcome :=
  run (addrs <- from_read m E_ERR ;; for_each (fun a => group_touch maxpo self a) addrs).

(** [Send] / [SendReceive]: reads one GroupMsg; a non-empty [Err] becomes the error *)
Definition mc_send (m : option group_msg) : outcome :=
  run (g <- from_read m E_ERR ;; guard (Nat.eqb (length (gm_err g)) 0) E_ERR).

(** ===================================================================== *)
(** * routetab relay  (route.go PackRelayResp + the forward branch of onRelay).
      [libp2p.CallHandler] sits between them: it starts [PackRelayResp], takes the first request
      and decides [forward := !MidCall && Dest != self]; a request for this node is dispatched to
      the named protocol handler (outside routetab, outside this model: outcome of that handler) *)
Record relay_req := mkRelayReq { rr_dest : list N; rr_src : list N; rr_srcmode : list N; rr_midcall : bool;
                                 rr_paths : list (list N) }.

(** [is_conn]: the target is a connected peer ([IsNeighbor]); no stored route otherwise *)
Definition rt_relay (maxpo : N) (self : list N) (is_conn fwd_ok : bool) (m : option relay_req) : outcome :=
  run (match m with
       | None => Val tt                                       (* first read failed: reqCh <- nil, onRelay returns *)
       | Some req =>
           if negb (rr_midcall req) && negb (bytes_eqb (rr_dest req) self) then
             (* req.Paths = append(req.Paths, self); IsNeighbor(target) = pslice.Exists *)
             _b <- pslice_bin maxpo (maxpo + 1) self (rr_dest req) ;;
             if is_conn then guard fwd_ok E_ERR               (* NewStream(next), WriteMsg; peer closes: EOF -> nil *)
             else Ret E_ERR                                   (* generatePathItems; GetNextHopRandomOrFind fails *)
           else Val tt
       end).
