(** C28 — safety invariant of route discovery over the message soup. *)
From Coq Require Import List Arith Bool Lia.
Import ListNotations.
Require Import Aurora.C28.Model.

(** ---- booleans ---- *)
Lemma memn_In x l : memn x l = true <-> In x l.
Proof.
  unfold memn. rewrite existsb_exists. split.
  - intros (y & Hin & He). apply Nat.eqb_eq in He. now subst.
  - intros Hin. exists x. split; [assumption|apply Nat.eqb_refl].
Qed.
Lemma memn_false x l : memn x l = false <-> ~ In x l.
Proof. rewrite <- memn_In. destruct (memn x l); split; congruence. Qed.

Lemma list_eqn_eq a b : list_eqn a b = true <-> a = b.
Proof.
  unfold list_eqn. split.
  - revert b. induction a as [|x a IH]; intros [|y b] H; cbn in H; try discriminate; [reflexivity|].
    apply andb_true_iff in H as [Hl H]. apply andb_true_iff in H as [Hxy Hf].
    apply Nat.eqb_eq in Hxy. subst. f_equal. apply IH. apply andb_true_iff. split; assumption.
  - intros <-. apply andb_true_iff. split; [apply Nat.eqb_refl|].
    induction a as [|x a IH]; cbn; [reflexivity|]. rewrite Nat.eqb_refl. assumption.
Qed.

Lemma nodupb_NoDup l : nodupb l = true -> NoDup l.
Proof.
  induction l as [|a l IH]; cbn; [constructor|].
  intros H. apply andb_true_iff in H as [Ha Hl]. apply negb_true_iff, memn_false in Ha. constructor; auto.
Qed.

Lemma dedupn_In x l : In x (dedupn l) -> In x l.
Proof.
  induction l as [|a l IH]; cbn; [easy|].
  intros [->|Hin]; [now left|]. apply filter_In in Hin as [Hin _]. right. now apply IH.
Qed.
Lemma filter_len_le {A} (f : A -> bool) l : length (filter f l) <= length l.
Proof. induction l as [|a l IH]; cbn; [lia|]. destruct (f a); cbn; lia. Qed.
Lemma dedupn_length l : length (dedupn l) <= length l.
Proof.
  induction l as [|a l IH]; cbn [dedupn length]; [lia|].
  apply le_n_S. eapply Nat.le_trans; [apply filter_len_le|exact IH].
Qed.
Lemma filter_split_length {A} (f : A -> bool) l :
  length (filter f l) + length (filter (fun x => negb (f x)) l) = length l.
Proof. induction l as [|a l IH]; cbn; [reflexivity|]. destruct (f a); cbn; lia. Qed.

Lemma take_nth_spec {A} i (l : list A) x r :
  take_nth i l = Some (x, r) -> exists l1 l2, l = l1 ++ x :: l2 /\ r = l1 ++ l2.
Proof.
  revert i x r. induction l as [|a l IH]; intros [|i] x r; cbn; try discriminate.
  - intros [= <- <-]. exists [], l. now split.
  - destruct (take_nth i l) as [[y r']|] eqn:E; [|discriminate]. intros [= <- <-].
    destruct (IH _ _ _ E) as (l1 & l2 & -> & ->). exists (a :: l1), l2. now split.
Qed.

Lemma drop_first_incl {A} (f : A -> bool) j l x : In x (drop_first f j l) -> In x l.
Proof.
  revert j. induction l as [|a l IH]; intros [|j]; cbn; try easy.
  destruct (f a); [intros H; right; eapply IH; eassumption|].
  intros [->|H]; [now left|right; eapply IH; eassumption].
Qed.
Lemma drop_first_length {A} (f : A -> bool) j l : length (drop_first f j l) <= length l.
Proof.
  revert j. induction l as [|a l IH]; intros [|j]; cbn; try lia.
  destruct (f a); cbn; [specialize (IH j)|specialize (IH (S j))]; lia.
Qed.

(** ---- paths ---- *)
Section Safety.
  Variable nbr : node -> node -> bool.
  Variables alpha maxttl nnodes : nat.
  Hypothesis nbr_sym : forall a b, nbr a b = nbr b a.

  Fixpoint walk (p : list node) : Prop :=
    match p with
    | a :: (b :: _) as p' => nbr a b = true /\ walk p'
    | _ => True
    end.

  Lemma walk_snoc p a b : walk (p ++ [a]) -> nbr a b = true -> walk ((p ++ [a]) ++ [b]).
  Proof.
    intros Hw Hn. induction p as [|x p IH]; cbn in *; [auto|].
    destruct p as [|y p]; cbn in *.
    - destruct Hw as [H1 _]. auto.
    - destruct Hw as [H1 H2]. split; [assumption|]. now apply IH.
  Qed.

  Lemma NoDup_snoc (p : list node) n : NoDup p -> ~ In n p -> NoDup (p ++ [n]).
  Proof.
    intros Hd Hn. induction p as [|x p IH]; cbn; [constructor; [easy|constructor]|].
    inversion Hd as [|? ? Hx Hp]; subst. constructor.
    - intros Hin. apply in_app_or in Hin as [Hin|[<-|[]]]; [contradiction|]. apply Hn. now left.
    - apply IH; [assumption|]. intros Hin. apply Hn. now right.
  Qed.

  (** a path as carried by a message sent by [from] *)
  Definition flight_ok (from : node) (p : list node) : Prop :=
    NoDup p /\ walk p /\ (exists p', p = p' ++ [from]) /\ length p <= maxttl + 1.
  Definition msg_ok (m : msg) : Prop :=
    nbr (m_from m) (m_to m) = true /\ flight_ok (m_from m) (m_path m).
  (** a path recorded by node n *)
  Definition rec_ok (e : node * list node) : Prop :=
    let '(n, p) := e in
    NoDup p /\ walk p /\ ~ In n p /\ 2 <= length p <= maxttl /\ exists p' l, p = p' ++ [l] /\ nbr l n = true.
  Definition presp_ok (e : node * node * node) : Prop :=
    let '(n, _, src) := e in src = n \/ nbr n src = true.

  Record Inv (st : state) : Prop := {
    inv_soup : Forall msg_ok (soup st);
    inv_recs : Forall rec_ok (recs st);
    inv_presp : Forall presp_ok (presp st)
  }.

  Lemma Inv_init : Inv init_state.
  Proof. split; constructor. Qed.

  Lemma flight_single n : flight_ok n [n].
  Proof.
    split; [|split; [|split]].
    - constructor; [intros []|constructor].
    - exact I.
    - exists []. reflexivity.
    - cbn. lia.
  Qed.

  (** extending a received path by the receiver *)
  Lemma extend_ok p n path :
    nbr p n = true -> flight_ok p path -> length path <= maxttl -> ~ In n path -> flight_ok n (path ++ [n]).
  Proof.
    intros Hn (Hd & Hw & (p' & ->) & _) Hl Hnin. repeat split.
    - now apply NoDup_snoc.
    - now apply walk_snoc.
    - eexists. reflexivity.
    - rewrite app_length. cbn [length]. lia.
  Qed.

  Lemma save_Inv n p path st :
    Inv st -> nbr p n = true -> flight_ok p path -> length path <= maxttl -> ~ In n path -> Inv (save n path st).
  Proof.
    intros [H1 H2 H3] Hn (Hd & Hw & (p' & Hp) & _) Hl Hnin. unfold save.
    destruct (Nat.ltb (length path) 2) eqn:E; [now split|]. apply Nat.ltb_ge in E.
    split; cbn; auto. apply Forall_app. split; [assumption|]. constructor; [|constructor].
    cbn. repeat split; auto. exists p', p. now split.
  Qed.
  Lemma save_frame n path st :
    soup (save n path st) = soup st /\ presp (save n path st) = presp st /\ preq (save n path st) = preq st.
  Proof. unfold save. destruct (Nat.ltb _ _); cbn; auto. Qed.

  Lemma do_req_Inv n src target newpath sent extra st :
    Inv st -> flight_ok n newpath -> (forall v, In v sent -> nbr n v = true) -> (src = n \/ nbr n src = true) ->
    Inv (do_req n src target newpath sent extra st).
  Proof.
    intros [H1 H2 H3] Hf Hs Hsrc. unfold do_req. split; cbn; auto.
    - apply Forall_app. split; [assumption|]. apply Forall_forall. intros m Hm.
      apply in_map_iff in Hm as (v & <- & Hv). split; cbn; auto.
    - apply Forall_app. split; [assumption|]. apply Forall_forall. intros e He.
      apply repeat_spec in He. subst e. exact Hsrc.
  Qed.

  Lemma fwd_ok_nbr n target skip sent extra st :
    fwd_ok nbr alpha nnodes n target skip sent extra st = true -> forall v, In v sent -> nbr n v = true.
  Proof.
    unfold fwd_ok. intros H v Hv.
    apply andb_true_iff in H as [H _]. apply andb_true_iff in H as [H _]. apply andb_true_iff in H as [_ H].
    rewrite forallb_forall in H. specialize (H _ Hv).
    apply andb_true_iff in H as [H _]. apply andb_true_iff in H as [H _]. exact H.
  Qed.

  Lemma on_req_Inv n p target path ch st st' :
    Inv st -> nbr p n = true -> flight_ok p path ->
    on_req nbr alpha maxttl nnodes n p target path ch st = Some st' -> Inv st'.
  Proof.
    intros HI Hn Hf. unfold on_req.
    destruct (Nat.ltb maxttl (length path)) eqn:El; [intros [= <-]; assumption|]. apply Nat.ltb_ge in El.
    destruct (memn n path) eqn:Em; [intros [= <-]; assumption|]. apply memn_false in Em.
    pose proof (save_Inv n p path st HI Hn Hf El Em) as HI1.
    pose proof (extend_ok p n path Hn Hf El Em) as Hext.
    assert (Hpn : nbr n p = true) by (now rewrite nbr_sym).
    remember (save n path st) as st1 eqn:E1.
    destruct (Nat.eqb n target) eqn:Et.
    - intros [= <-]. destruct HI1 as [H1 H2 H3]. split; cbn; auto.
      apply Forall_app. split; [assumption|]. constructor; [|constructor]. split; cbn; [assumption|].
      apply flight_single.
    - destruct (nbr n target) eqn:Ent.
      + destruct (mem3 (n, target, target) (preq st1)); intros [= <-]; apply do_req_Inv; auto;
          intros v Hv; cbn in Hv; intuition (subst; assumption).
      + destruct ch as [|q|sent extra]; [discriminate| |].
        * destruct (resp_ok maxttl n target path q st1) eqn:Er; [|discriminate]. intros [= <-].
          unfold resp_ok in Er. apply andb_true_iff in Er as [Er _]. apply andb_true_iff in Er as [Er H0].
          apply andb_true_iff in Er as [Er _].
          apply existsb_exists in Er as ([n0 q0] & Hin & He). cbn in He.
          apply andb_true_iff in He as [He1 He2]. apply Nat.eqb_eq in He1. apply list_eqn_eq in He2. subst n0 q0.
          destruct HI1 as [H1' H2' H3']. pose proof H2' as H2s. rewrite Forall_forall in H2s.
          specialize (H2s _ Hin). cbn in H2s. destruct H2s as (Hd & Hw & Hnq & [Hl1 Hl2] & q' & l & -> & Hln).
          split; cbn; auto. apply Forall_app. split; [assumption|]. constructor; [|constructor].
          split; cbn; [assumption|]. repeat split.
          -- now apply NoDup_snoc.
          -- now apply walk_snoc.
          -- eexists. reflexivity.
          -- apply Nat.leb_le in H0. destruct Hf as (_ & _ & (p' & ->) & _).
             rewrite !app_length in *. cbn in *. lia.
        * destruct (fwd_ok nbr alpha nnodes n target path sent extra st1) eqn:Ef; [|discriminate]. intros [= <-].
          apply do_req_Inv; auto. eapply fwd_ok_nbr; eassumption.
  Qed.

  Lemma on_resp_Inv n last target path st st' :
    Inv st -> nbr last n = true -> flight_ok last path ->
    on_resp maxttl n last target path st = Some st' -> Inv st'.
  Proof.
    intros HI Hn Hf. unfold on_resp.
    destruct (Nat.ltb maxttl (length path)) eqn:El; [intros [= <-]; assumption|]. apply Nat.ltb_ge in El.
    destruct (memn n path) eqn:Em; [intros [= <-]; assumption|]. apply memn_false in Em.
    pose proof (save_Inv n last path st HI Hn Hf El Em) as HI1.
    pose proof (extend_ok last n path Hn Hf El Em) as Hext.
    remember (save n path st) as st1 eqn:E1.
    set (mine := fun e : node * node * node => let '(o, t, _) := e in Nat.eqb o n && Nat.eqb t target).
    remember (filter mine (presp st1)) as entries eqn:Ee.
    destruct entries as [|e0 es]; [intros [= <-]; assumption|].
    rewrite Ee. intros [= <-]. destruct HI1 as [H1 H2 H3]. split; cbn [soup recs presp preq]; auto.
    - apply Forall_app. split; [assumption|]. apply Forall_forall. intros m Hm.
      apply in_map_iff in Hm as (s & <- & Hs). split; cbn [m_from m_to m_path]; [|assumption].
      apply dedupn_In in Hs. apply filter_In in Hs as [Hs Hne]. apply negb_true_iff, Nat.eqb_neq in Hne.
      apply in_map_iff in Hs as ([[o t] s'] & Hsnd & Hin). cbn in Hsnd. subst s'.
      apply filter_In in Hin as [Hin Hm]. cbn in Hm.
      apply andb_true_iff in Hm as [Ho _]. apply Nat.eqb_eq in Ho. subst o.
      rewrite Forall_forall in H3. specialize (H3 _ Hin). cbn in H3. destruct H3 as [->|H3]; [contradiction|assumption].
    - rewrite Forall_forall in *. intros e He. apply filter_In in He as [He _]. auto.
  Qed.

  Lemma Forall_take {A} (P : A -> Prop) i l x r :
    take_nth i l = Some (x, r) -> Forall P l -> P x /\ Forall P r.
  Proof.
    intros Ht HF. destruct (take_nth_spec _ _ _ _ Ht) as (l1 & l2 & -> & ->).
    apply Forall_app in HF as [F1 F2]. inversion F2; subst. split; [assumption|]. apply Forall_app. now split.
  Qed.

  Lemma step_Inv st ev st' : Inv st -> step nbr alpha maxttl nnodes st ev = Some st' -> Inv st'.
  Proof.
    intros HI. destruct ev as [n target sent extra|i ch|i|n target next|n target next|n target j]; cbn.
    - destruct (_ && _) eqn:E; [|discriminate]. intros [= <-].
      apply andb_true_iff in E as [_ Ef].
      apply do_req_Inv; auto.
      + apply flight_single.
      + eapply fwd_ok_nbr; eassumption.
    - destruct (take_nth i (soup st)) as [[m rest]|] eqn:Et; [|discriminate].
      destruct HI as [H1 H2 H3]. destruct (Forall_take _ _ _ _ _ Et H1) as [[Hmn Hmf] Hrest].
      assert (HI0 : Inv (mkState rest (recs st) (presp st) (preq st))) by (split; assumption).
      destruct (m_kind m).
      + intros H. eapply on_req_Inv; eauto.
      + destruct ch; try discriminate. intros H. eapply on_resp_Inv; eauto.
    - destruct (take_nth i (soup st)) as [[m rest]|] eqn:Et; [|discriminate]. intros [= <-].
      destruct HI as [H1 H2 H3]. destruct (Forall_take _ _ _ _ _ Et H1) as [_ Hrest]. split; assumption.
    - intros [= <-]. destruct HI as [H1 H2 H3]. split; cbn; auto.
      rewrite Forall_forall in *. intros e He. apply filter_In in He as [He _]. auto.
    - intros [= <-]. destruct HI as [H1 H2 H3]. split; cbn; auto.
    - intros [= <-]. destruct HI as [H1 H2 H3]. split; cbn; auto.
      rewrite Forall_forall in *. intros e He. apply drop_first_incl in He. auto.
  Qed.

  Lemma exec_Inv evs : forall st st', Inv st -> exec nbr alpha maxttl nnodes st evs = Some st' -> Inv st'.
  Proof.
    induction evs as [|ev evs IH]; intros st st' HI; cbn.
    - intros [= <-]. assumption.
    - destruct (step nbr alpha maxttl nnodes st ev) as [st1|] eqn:Es; [|discriminate].
      intros H. eapply IH; [|eassumption]. eapply step_Inv; eassumption.
  Qed.

  Lemma paths_simple evs st :
    exec nbr alpha maxttl nnodes init_state evs = Some st ->
    (forall m, In m (soup st) ->
       nbr (m_from m) (m_to m) = true /\ NoDup (m_path m) /\ walk (m_path m) /\
       (exists p', m_path m = p' ++ [m_from m]) /\ length (m_path m) <= maxttl + 1) /\
    (forall n p, In (n, p) (recs st) ->
       NoDup p /\ walk p /\ ~ In n p /\ 2 <= length p <= maxttl /\ exists p' l, p = p' ++ [l] /\ nbr l n = true).
  Proof.
    intros He. pose proof (exec_Inv evs _ _ Inv_init He) as [H1 H2 _]. split.
    - intros m Hm. rewrite Forall_forall in H1. destruct (H1 _ Hm) as (Ha & Hb & Hc & Hd & Hl). auto.
    - intros n p Hp. rewrite Forall_forall in H2. exact (H2 _ Hp).
  Qed.
End Safety.
