(** C28 — relaying, and the witness execution for the unrepaired respForward. *)
From Coq Require Import List NArith Arith Bool Lia.
Import ListNotations.
Require Aurora.C27.Model Aurora.C27.Proofs.
Require Import Aurora.C28.Model Aurora.C28.Proofs.

(** ---- relaying over the real route table (the C27 model) ----
    onRelay / onRelayConnChain after [req.Paths = append(req.Paths, self)]:
    [path] is the request's path including this node; the next hop is the
    target if it is connected, else a connected member of
    Table.GetNextHop(target, path...) chosen at random ([pick]). *)
Definition relay_next_tab (connected : C27.Model.addr -> bool) (t : C27.Model.table)
           (target : C27.Model.addr) (path : list C27.Model.addr) (pick : nat) : option C27.Model.addr :=
  if connected target then Some target
  else nth_error (filter connected (C27.Model.next_hops t target path)) pick.

Lemma next_hops_not_skipped t target skips nh :
  In nh (C27.Model.next_hops t target skips) -> ~ In nh skips.
Proof.
  unfold C27.Model.next_hops. destruct (C27.Model.lookup _ _) as [rs|]; [|intros []].
  intros Hin. apply C27.Proofs.dedup_In in Hin. apply in_map_iff in Hin as (r & <- & Hr).
  apply filter_In in Hr as [_ Hb]. apply andb_true_iff in Hb as [_ Hsk].
  intros Hs. apply C27.Proofs.mem_In in Hs. rewrite Hs in Hsk. discriminate.
Qed.

Lemma relay_tab_no_revisit connected t target path pick next :
  relay_next_tab connected t target path pick = Some next ->
  connected next = true /\ (next = target \/ ~ In next path).
Proof.
  unfold relay_next_tab. destruct (connected target) eqn:Ec.
  - intros [= <-]. split; [assumption|now left].
  - intros Hn. apply nth_error_In in Hn. apply filter_In in Hn as [Hin Hc].
    split; [assumption|]. right. eapply next_hops_not_skipped; eassumption.
Qed.

(** GetNextHopRandomOrFind over the real table: [t] the table at the first
    lookup, [t'] the table as the fallback FindRoute left it (ANY table), both
    lookups with the path as skip list; and the relay step that uses it. *)
Definition next_hop_random (connected : C27.Model.addr -> bool) (t : C27.Model.table)
           (target : C27.Model.addr) (skips : list C27.Model.addr) (pick : nat) : option C27.Model.addr :=
  pick_of (filter connected (C27.Model.next_hops t target skips)) pick.
Definition next_hop_random_or_find (connected : C27.Model.addr -> bool) (t t' : C27.Model.table) (find_ok : bool)
           (target : C27.Model.addr) (skips : list C27.Model.addr) (pick1 pick2 : nat) : option C27.Model.addr :=
  match next_hop_random connected t target skips pick1 with
  | Some v => Some v
  | None => if find_ok then next_hop_random connected t' target skips pick2 else None
  end.
Definition relay_step (connected : C27.Model.addr -> bool) (t t' : C27.Model.table) (find_ok : bool)
           (target : C27.Model.addr) (path : list C27.Model.addr) (pick1 pick2 : nat) : option C27.Model.addr :=
  if connected target then Some target
  else next_hop_random_or_find connected t t' find_ok target path pick1 pick2.

Lemma pick_of_In {A} (l : list A) pick x : pick_of l pick = Some x -> In x l.
Proof. unfold pick_of. destruct l; [discriminate|]. apply nth_error_In. Qed.

Lemma next_hop_random_ok connected t target skips pick next :
  next_hop_random connected t target skips pick = Some next -> connected next = true /\ ~ In next skips.
Proof.
  unfold next_hop_random. intros H. apply pick_of_In in H. apply filter_In in H as [Hin Hc].
  split; [assumption|]. eapply next_hops_not_skipped; eassumption.
Qed.

Lemma next_hop_random_or_find_ok connected t t' find_ok target skips pick1 pick2 next :
  next_hop_random_or_find connected t t' find_ok target skips pick1 pick2 = Some next ->
  connected next = true /\ ~ In next skips.
Proof.
  unfold next_hop_random_or_find.
  destruct (next_hop_random connected t target skips pick1) as [v|] eqn:E1.
  - intros [= <-]. eapply next_hop_random_ok; eassumption.
  - destruct find_ok; [|discriminate]. apply next_hop_random_ok.
Qed.

Lemma relay_step_no_revisit connected t t' find_ok target path pick1 pick2 next :
  relay_step connected t t' find_ok target path pick1 pick2 = Some next ->
  connected next = true /\ (next = target \/ ~ In next path).
Proof.
  unfold relay_step. destruct (connected target) eqn:Ec.
  - intros [= <-]. split; [assumption|now left].
  - intros H. apply next_hop_random_or_find_ok in H as [H1 H2]. split; [assumption|now right].
Qed.

(** the same decision at the level of the network model *)
Lemma relay_next_find_no_revisit nbr n target path offered1 find_ok offered2 pick1 pick2 next :
  (forall v, In v offered1 -> ~ In v path) -> (forall v, In v offered2 -> ~ In v path) ->
  relay_next_find nbr n target offered1 find_ok offered2 pick1 pick2 = Some next ->
  nbr n next = true /\ (next = target \/ ~ In next path).
Proof.
  intros H1 H2. unfold relay_next_find. destruct (nbr n target) eqn:Ec.
  - intros [= <-]. split; [assumption|now left].
  - destruct (pick_of (filter (fun v => nbr n v) offered1) pick1) as [v|] eqn:E1.
    + intros [= <-]. apply pick_of_In in E1. apply filter_In in E1 as [Hin Hc]. split; [assumption|right; auto].
    + destruct find_ok; [|discriminate]. intros E2. apply pick_of_In in E2. apply filter_In in E2 as [Hin Hc].
      split; [assumption|right; auto].
Qed.

Lemma relay_no_revisit nbr n target path offered pick next :
  (forall v, In v offered -> ~ In v path) ->
  relay_next nbr n target path offered pick = Some next ->
  nbr n next = true /\ (next = target \/ ~ In next path).
Proof.
  intros Hoff. unfold relay_next. destruct (nbr n target) eqn:Ec.
  - intros [= <-]. split; [assumption|now left].
  - intros Hn. apply nth_error_In in Hn. apply filter_In in Hn as [Hin Hc].
    split; [assumption|]. right. now apply Hoff.
Qed.

(** ---- witness: two requesters pending at one relay ---- *)
Definition w_edges : list (node * node) := [(0, 2); (1, 2); (2, 3); (3, 4)].
Definition w_nbr (a b : node) : bool :=
  existsb (fun e => (Nat.eqb a (fst e) && Nat.eqb b (snd e)) || (Nat.eqb a (snd e) && Nat.eqb b (fst e))) w_edges.
Lemma w_nbr_sym a b : w_nbr a b = w_nbr b a.
Proof.
  unfold w_nbr. induction w_edges as [|e l IH]; cbn [existsb]; [reflexivity|].
  rewrite IH. f_equal. rewrite orb_comm. f_equal; apply andb_comm.
Qed.

(** 0 and 1 both look for 4; 2 forwards the first request to 3 and logs the
    second; 3 hands over to 4; 4 answers; the answer is back in front of 2 *)
Definition w_evs : list event :=
  [EInit 0 4 [2] 0; EInit 1 4 [2] 0;
   EDeliver 0 (ChFwd [3] 0); EDeliver 0 (ChFwd [] 1);
   EDeliver 0 ChNone; EDeliver 0 ChNone; EDeliver 0 ChNone].
Definition w_state : state :=
  match exec w_nbr 2 10 5 init_state w_evs with Some st => st | None => init_state end.

Lemma w_exec : exec w_nbr 2 10 5 init_state w_evs = Some w_state.
Proof. vm_compute. reflexivity. Qed.
Lemma w_soup : soup w_state = [mkMsg KResp 3 2 4 [4; 3]].
Proof. vm_compute. reflexivity. Qed.

Lemma w_unpatched :
  exists st',
    on_resp_unpatched 10 2 3 4 [4; 3] (mkState [] (recs w_state) (presp w_state) (preq w_state)) = Some st' /\
    In (mkMsg KResp 2 1 4 [4; 3; 2; 2]) (soup st').
Proof. eexists. split; [vm_compute; reflexivity|]. cbn. auto. Qed.

Lemma w_patched :
  exists st',
    exec w_nbr 2 10 5 init_state (w_evs ++ [EDeliver 0 ChNone]) = Some st' /\
    soup st' = [mkMsg KResp 2 0 4 [4; 3; 2]; mkMsg KResp 2 1 4 [4; 3; 2]] /\
    In (2, [4; 3]) (recs st') /\ presp st' = [(0, 4, 0); (1, 4, 1)].
Proof.
  eexists. split; [vm_compute; reflexivity|]. split; [reflexivity|]. split; [|reflexivity].
  cbn. auto 10.
Qed.

Lemma unpatched_refuted :
  exists nbr alpha maxttl nnodes evs st n last target path st' m,
    (forall a b, nbr a b = nbr b a) /\
    exec nbr alpha maxttl nnodes init_state evs = Some st /\
    soup st = [mkMsg KResp last n target path] /\
    on_resp_unpatched maxttl n last target path (mkState [] (recs st) (presp st) (preq st)) = Some st' /\
    In m (soup st') /\ m_from m = n /\ ~ NoDup (m_path m).
Proof.
  destruct w_unpatched as (st' & H1 & H2).
  exists w_nbr, 2, 10, 5, w_evs, w_state, 2, 3, 4, [4; 3], st', (mkMsg KResp 2 1 4 [4; 3; 2; 2]).
  split; [exact w_nbr_sym|]. split; [exact w_exec|]. split; [exact w_soup|]. split; [exact H1|].
  split; [exact H2|]. split; [reflexivity|]. cbn.
  intros Hd. inversion Hd as [|? ? _ Hd1]; subst. inversion Hd1 as [|? ? _ Hd2]; subst.
  inversion Hd2 as [|? ? Hn _]; subst. apply Hn. now left.
Qed.
