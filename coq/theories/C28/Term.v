(** C28 — termination of route discovery: the measure [mu] (requests weigh
    [wreq (length path)], responses 1, pending response entries 2) strictly
    decreases at every delivery and every loss, never increases at an expiry
    and grows by at most [bigA * (wreq 1 + 2)] at a FindRoute initiation. *)
From Coq Require Import List Arith Bool Lia.
Import ListNotations.
Require Import Aurora.C28.Model Aurora.C28.Proofs.

Section Term.
  Variable nbr : node -> node -> bool.
  Variables alpha maxttl nnodes : nat.

  Notation wreq := (wreq alpha maxttl).
  Notation wmsg := (wmsg alpha maxttl).
  Notation mu := (mu alpha maxttl).
  Notation bigA := (bigA alpha).
  Notation wd := (wd alpha).

  Fixpoint sumw (l : list msg) : nat := match l with [] => 0 | m :: l' => wmsg m + sumw l' end.
  Lemma sumw_fold l : fold_right (fun m acc => wmsg m + acc) 0 l = sumw l.
  Proof. induction l as [|m l IH]; cbn [fold_right sumw]; [reflexivity|]. now rewrite IH. Qed.
  Lemma mu_eq st : mu st = sumw (soup st) + 2 * length (presp st).
  Proof. unfold Model.mu. now rewrite sumw_fold. Qed.

  Lemma sumw_app a b : sumw (a ++ b) = sumw a + sumw b.
  Proof. induction a as [|x a IH]; cbn [app sumw]; [reflexivity|]. rewrite IH. lia. Qed.
  Lemma sumw_take i l x r : take_nth i l = Some (x, r) -> sumw l = wmsg x + sumw r.
  Proof.
    intros H. destruct (take_nth_spec _ _ _ _ H) as (l1 & l2 & -> & ->).
    rewrite !sumw_app. cbn [sumw]. lia.
  Qed.

  Lemma bigA_pos : 1 <= bigA.
  Proof. unfold Model.bigA. lia. Qed.
  Lemma alpha_le_bigA : alpha <= bigA.
  Proof. unfold Model.bigA. lia. Qed.
  Lemma wd_pos d : 1 <= wd d.
  Proof. destruct d; cbn; lia. Qed.
  Lemma wreq_pos l : 1 <= wreq l.
  Proof. apply wd_pos. Qed.
  Lemma wreq_step l : l <= maxttl -> wreq l = 1 + bigA * (wreq (l + 1) + 2).
  Proof.
    intros Hl. unfold Model.wreq.
    replace (maxttl + 1 - l) with (S (maxttl + 1 - (l + 1))) by lia. reflexivity.
  Qed.

  Lemma sumw_reqs n target newpath sent :
    sumw (map (fun v => mkMsg KReq n v target newpath) sent) = length sent * wreq (length newpath).
  Proof. induction sent as [|v sent IH]; cbn [map sumw length]; [reflexivity|]. rewrite IH. reflexivity. Qed.
  Lemma sumw_resps n target newpath srcs :
    sumw (map (fun s => mkMsg KResp n s target newpath) srcs) = length srcs.
  Proof. induction srcs as [|v srcs IH]; cbn [map sumw length]; [reflexivity|]. rewrite IH. reflexivity. Qed.

  Lemma do_req_mu n src target newpath sent extra st :
    mu (do_req n src target newpath sent extra st) =
    mu st + length sent * wreq (length newpath) + 2 * (length sent + extra).
  Proof.
    rewrite !mu_eq. unfold do_req. cbn [soup presp]. rewrite sumw_app, sumw_reqs, app_length, repeat_length. lia.
  Qed.

  Lemma save_mu n path st : mu (save n path st) = mu st.
  Proof. unfold save. destruct (Nat.ltb _ _); reflexivity. Qed.

  (** k forwards (k <= bigA) of a request of length l <= maxttl cost less than the request *)
  Lemma forward_cheaper l s k :
    l <= maxttl -> s <= k -> k <= bigA -> s * wreq (l + 1) + 2 * k < wreq l.
  Proof.
    intros Hl Hs Hk. rewrite (wreq_step l Hl).
    pose proof (wreq_pos (l + 1)) as Hw.
    assert (s * wreq (l + 1) <= bigA * wreq (l + 1)) by (apply Nat.mul_le_mono_r; lia).
    assert (2 * k <= bigA * 2) by lia.
    rewrite Nat.mul_add_distr_l. lia.
  Qed.

  Lemma fwd_ok_count n target skip sent extra st :
    fwd_ok nbr alpha nnodes n target skip sent extra st = true -> length sent + extra <= alpha.
  Proof.
    unfold fwd_ok. intros H. apply andb_true_iff in H as [H _]. apply andb_true_iff in H as [_ H].
    now apply Nat.leb_le.
  Qed.

  Lemma on_req_decr n p target path ch st st' :
    on_req nbr alpha maxttl nnodes n p target path ch st = Some st' -> mu st' < wreq (length path) + mu st.
  Proof.
    unfold on_req. pose proof (wreq_pos (length path)) as Hw.
    destruct (Nat.ltb maxttl (length path)) eqn:El; [intros [= <-]; lia|]. apply Nat.ltb_ge in El.
    destruct (memn n path); [intros [= <-]; lia|].
    pose proof (save_mu n path st) as Hs. remember (save n path st) as st1 eqn:E1.
    assert (Hbig : 1 < wreq (length path)).
    { rewrite (wreq_step _ El). pose proof bigA_pos. pose proof (wreq_pos (length path + 1)).
      assert (1 * (wreq (length path + 1) + 2) <= bigA * (wreq (length path + 1) + 2)) by (apply Nat.mul_le_mono_r; lia).
      lia. }
    assert (Hlen : length (path ++ [n]) = length path + 1) by (rewrite app_length; reflexivity).
    destruct (Nat.eqb n target).
    - intros [= <-]. rewrite mu_eq in *. cbn [soup presp]. rewrite sumw_app. cbn. lia.
    - destruct (nbr n target).
      + destruct (mem3 (n, target, target) (preq st1)); intros [= <-]; rewrite do_req_mu, Hlen; cbn [length].
        * pose proof (forward_cheaper (length path) 0 1 El ltac:(lia) bigA_pos). lia.
        * pose proof (forward_cheaper (length path) 1 1 El ltac:(lia) bigA_pos). lia.
      + destruct ch as [|q|sent extra]; [discriminate| |].
        * destruct (resp_ok maxttl n target path q st1); [|discriminate]. intros [= <-].
          rewrite mu_eq in *. cbn [soup presp]. rewrite sumw_app. cbn. lia.
        * destruct (fwd_ok nbr alpha nnodes n target path sent extra st1) eqn:Ef; [|discriminate]. intros [= <-].
          apply fwd_ok_count in Ef. rewrite do_req_mu, Hlen.
          pose proof alpha_le_bigA.
          pose proof (forward_cheaper (length path) (length sent) (length sent + extra) El ltac:(lia) ltac:(lia)). lia.
  Qed.

  Lemma on_resp_decr n last target path st st' :
    on_resp maxttl n last target path st = Some st' -> mu st' <= mu st.
  Proof.
    unfold on_resp.
    destruct (Nat.ltb maxttl (length path)); [intros [= <-]; lia|].
    destruct (memn n path); [intros [= <-]; lia|].
    pose proof (save_mu n path st) as Hs. remember (save n path st) as st1 eqn:E1.
    set (mine := fun e : node * node * node => let '(o, t, _) := e in Nat.eqb o n && Nat.eqb t target).
    remember (filter mine (presp st1)) as entries eqn:Ee.
    destruct entries as [|e0 es]; [intros [= <-]; lia|].
    rewrite Ee. intros [= <-]. rewrite mu_eq in *. cbn [soup presp]. rewrite sumw_app, sumw_resps.
    match goal with
    | |- _ + length (dedupn (filter ?h (map ?pr (filter ?f ?l)))) + 2 * length (filter ?g ?l) <= _ =>
        assert (Hsplit : length (filter f l) + length (filter g l) = length l) by exact (filter_split_length f l);
        assert (Hsrc : length (dedupn (filter h (map pr (filter f l)))) <= length (filter f l))
          by (eapply Nat.le_trans; [apply dedupn_length|]; eapply Nat.le_trans; [apply filter_len_le|]; rewrite map_length; lia)
    end.
    lia.
  Qed.

  (** deliveries and losses are the steps that are counted *)
  Definition cost (ev : event) : nat := match ev with EDeliver _ _ | ELose _ => 1 | _ => 0 end.
  Definition is_init (ev : event) : nat := match ev with EInit _ _ _ _ => 1 | _ => 0 end.
  Definition init_budget : nat := bigA * (wreq 1 + 2).

  Lemma step_mu st ev st' :
    step nbr alpha maxttl nnodes st ev = Some st' -> mu st' + cost ev <= mu st + is_init ev * init_budget.
  Proof.
    destruct ev as [n target sent extra|i ch|i|n target next|n target next|n target j]; cbn [step cost is_init];
      rewrite ?Nat.mul_0_l, ?Nat.mul_1_l, ?Nat.add_0_r.
    - destruct (_ && _) eqn:E; [|discriminate]. intros [= <-].
      apply andb_true_iff in E as [_ Ef]. apply fwd_ok_count in Ef.
      rewrite do_req_mu. cbn [length]. unfold init_budget.
      pose proof alpha_le_bigA.
      assert (length sent * wreq 1 <= bigA * wreq 1) by (apply Nat.mul_le_mono_r; lia).
      rewrite Nat.mul_add_distr_l. lia.
    - destruct (take_nth i (soup st)) as [[m rest]|] eqn:Et; [|discriminate].
      pose proof (sumw_take _ _ _ _ Et) as Hsum.
      assert (Hmu : mu st = wmsg m + mu (mkState rest (recs st) (presp st) (preq st))).
      { rewrite !mu_eq. cbn [soup presp]. lia. }
      unfold Model.wmsg in Hmu. destruct (m_kind m).
      + intros H. apply on_req_decr in H. lia.
      + destruct ch; try discriminate. intros H. apply on_resp_decr in H. lia.
    - destruct (take_nth i (soup st)) as [[m rest]|] eqn:Et; [|discriminate]. intros [= <-].
      pose proof (sumw_take _ _ _ _ Et) as Hsum. rewrite !mu_eq. cbn [soup presp].
      assert (1 <= wmsg m) by (unfold Model.wmsg; destruct (m_kind m); [apply wreq_pos|lia]). lia.
    - intros [= <-]. rewrite !mu_eq. cbn [soup presp].
      apply Nat.add_le_mono_l, Nat.mul_le_mono_l, filter_len_le.
    - intros [= <-]. rewrite !mu_eq. cbn [soup presp]. lia.
    - intros [= <-]. rewrite !mu_eq. cbn [soup presp].
      apply Nat.add_le_mono_l, Nat.mul_le_mono_l, drop_first_length.
  Qed.

  Definition total (f : event -> nat) (evs : list event) : nat := fold_right (fun ev acc => f ev + acc) 0 evs.

  Lemma exec_mu evs : forall st st',
    exec nbr alpha maxttl nnodes st evs = Some st' ->
    mu st' + total cost evs <= mu st + total is_init evs * init_budget.
  Proof.
    induction evs as [|ev evs IH]; intros st st'; cbn [exec total fold_right].
    - intros [= <-]. lia.
    - destruct (step nbr alpha maxttl nnodes st ev) as [st1|] eqn:Es; [|discriminate].
      intros H. apply IH in H. apply step_mu in Es. fold (total cost evs) (total is_init evs) in *.
      rewrite Nat.mul_add_distr_r. lia.
  Qed.

  (** from the start: the number of deliveries and losses in ANY execution is
      bounded by the number of FindRoute initiations times a constant *)
  Lemma terminates_from_init evs st :
    exec nbr alpha maxttl nnodes init_state evs = Some st ->
    total cost evs <= total is_init evs * init_budget.
  Proof. intros H. apply exec_mu in H. cbn in H. lia. Qed.

  (** from any state: without further initiations at most [mu st] deliveries and losses *)
  Lemma terminates_from st evs st' :
    exec nbr alpha maxttl nnodes st evs = Some st' -> total is_init evs = 0 -> total cost evs <= mu st.
  Proof. intros H H0. apply exec_mu in H. rewrite H0 in H. lia. Qed.
End Term.
