(** C28 — correspondence: one case = one execution of a small network of real
    routetab.Service instances (harness/routesim: real kademlia, table and
    pending table; the transport is the message soup).  Every event carries
    the messages the real handler sent; dumps carry the real tables.
    [check_case] threads the model state through the events: the event must
    be enabled in the model (its choice admissible) and the model must send
    exactly the observed messages. *)
From Coq Require Import List Arith Bool.
Import ListNotations.
Require Export Aurora.C28.Model.

Record ndump := mkND {
  d_recs : list (list node);              (* Table.paths of the node (items) *)
  d_presp : list (node * list node);      (* respList: target, Src of the entries in order *)
  d_preq : list (node * node)             (* reqList: target, next *)
}.

Inductive cev :=
| CEv (ev : event) (sent : list msg)
| CDump (d : list ndump)                  (* one entry per node *)
| CRelay (n target : node) (path offered : list node) (next : option node)
| CRelayFind (n target : node) (path offered1 : list node) (find_ok : bool) (offered2 : list node) (next : option node).
    (* the real GetNextHopRandomOrFind / onRelayConnChain at n: [offered1], [offered2] = the real
       GetNextHop(target, path) before and after the fallback route discovery (whose messages are the
       events in between), [find_ok] = the call returned without error *)
    (* relay decision at n for a request whose path (ending with n) is [path]:
       [offered] = what the real GetNextHop(target, path) returned, [next] = the real choice *)

Inductive case := CNet (alpha maxttl : nat) (adj : list (list node)) (evs : list cev).

Definition kind_eqb (a b : kind) : bool := match a, b with KReq, KReq | KResp, KResp => true | _, _ => false end.
Definition msg_eqb (a b : msg) : bool :=
  kind_eqb (m_kind a) (m_kind b) && Nat.eqb (m_from a) (m_from b) && Nat.eqb (m_to a) (m_to b)
  && Nat.eqb (m_target a) (m_target b) && list_eqn (m_path a) (m_path b).
Fixpoint msgs_eqb (a b : list msg) : bool :=
  match a, b with
  | [], [] => true
  | x :: a', y :: b' => msg_eqb x y && msgs_eqb a' b'
  | _, _ => false
  end.

Section Run.
  Variables (alpha maxttl : nat) (adj : list (list node)).
  Definition nbr (a b : node) : bool := memn b (nth a adj []).
  Definition nn : nat := length adj.

  Definition subset_ll (a b : list (list node)) : bool := forallb (fun x => existsb (list_eqn x) b) a.

  Definition dump_ok (st : state) (n : node) (d : ndump) : bool :=
    let mr := map snd (filter (fun e => Nat.eqb (fst e) n) (recs st)) in
    let mp := filter (fun e => match e with (o, _, _) => Nat.eqb o n end) (presp st) in
    let mq := filter (fun e => match e with (o, _, _) => Nat.eqb o n end) (preq st) in
    subset_ll mr (d_recs d) && subset_ll (d_recs d) mr
    && forallb (fun e => list_eqn (map (fun x => snd x) (filter (fun x => match x with (_, t, _) => Nat.eqb t (fst e) end) mp)) (snd e)) (d_presp d)
    && Nat.eqb (length mp) (fold_right (fun e acc => length (snd e) + acc) 0 (d_presp d))
    && forallb (fun e => mem3 (n, fst e, snd e) mq) (d_preq d)
    && Nat.eqb (length mq) (length (d_preq d)).

  Fixpoint dumps_ok (st : state) (n : node) (ds : list ndump) : bool :=
    match ds with [] => true | d :: ds' => dump_ok st n d && dumps_ok st (S n) ds' end.

  (** the soup the event leaves before anything is sent *)
  Definition rest_of (st : state) (ev : event) : list msg :=
    match ev with
    | EDeliver i _ | ELose i => match take_nth i (soup st) with Some (_, r) => r | None => soup st end
    | _ => soup st
    end.

  Definition relay_ok (n target : node) (path offered : list node) (next : option node) : bool :=
    let eff := filter (fun v => nbr n v) offered in
    if nbr n target then match next with Some v => Nat.eqb v target | None => false end
    else match next with
         | Some v => memn v eff
         | None => match eff with [] => true | _ => false end
         end.

  (** exists pick1 pick2 with relay_next_find = next *)
  Definition relay_find_ok (n target : node) (offered1 : list node) (find_ok : bool) (offered2 : list node)
             (next : option node) : bool :=
    let eff1 := filter (fun v => nbr n v) offered1 in
    let eff2 := filter (fun v => nbr n v) offered2 in
    if nbr n target then match next with Some v => Nat.eqb v target | None => false end
    else match eff1 with
         | _ :: _ => match next with Some v => memn v eff1 | None => false end
         | [] => if find_ok
                 then match next, eff2 with
                      | Some v, _ => memn v eff2
                      | None, [] => true
                      | None, _ => false
                      end
                 else match next with None => true | Some _ => false end
         end.

  Definition cstep (st : state) (c : cev) : option state :=
    match c with
    | CEv ev sent =>
        match step nbr alpha maxttl nn st ev with
        | Some st' => if msgs_eqb (soup st') (rest_of st ev ++ sent) then Some st' else None
        | None => None
        end
    | CDump ds => if Nat.eqb (length ds) nn && dumps_ok st 0 ds then Some st else None
    | CRelay n target path offered next => if relay_ok n target path offered next then Some st else None
    | CRelayFind n target path offered1 find_ok offered2 next =>
        if relay_find_ok n target offered1 find_ok offered2 next then Some st else None
    end.

  Fixpoint crun (st : state) (evs : list cev) (i : nat) : option (nat * state) :=
    match evs with
    | [] => None
    | c :: evs' => match cstep st c with Some st' => crun st' evs' (S i) | None => Some (i, st) end
    end.
End Run.

Definition check_case (c : case) : bool :=
  match c with CNet alpha maxttl adj evs =>
    match crun alpha maxttl adj init_state evs 0 with None => true | Some _ => false end
  end.

(** on a mismatch: index of the event, the model state before it, and what the model would do *)
Definition explain_case (c : case) :=
  match c with CNet alpha maxttl adj evs =>
    match crun alpha maxttl adj init_state evs 0 with
    | None => None
    | Some (i, st) =>
        Some (i, st, match nth_error evs i with
                     | Some (CEv ev _) => option_map soup (step (nbr adj) alpha maxttl (length adj) st ev)
                     | _ => None
                     end)
    end
  end.
