(** C28 — model of route discovery in pkg/routetab/route.go (onRouteReq,
    onRouteResp, respForward, doRouteReq, doRouteResp, FindRoute's sending
    half), table.go generatePaths / convertPathsToPbPaths and pending.go, as
    repaired by proposed/C28/fix-route-resp-dup.patch, over a static network
    of honest nodes.  Definitions only.

    Nodes are numbers; [nbr] is the (static) connection relation
    (kad.ConnectedPeers / the streams that can be opened).  The network is a
    message soup: any message can be delivered next or lost.  A message is
    one stream carrying one RouteReq / RouteResp with ONE path (honest
    senders never put more than one path in a message: generatePaths(nil) and
    convertPathsToPbPaths return one, generatePaths(ps) keeps the count).

    Node-local state is kept in flat lists tagged with the owner:
      [recs]  (owner, path)         every path SavePath stored at owner
                                     (the route table of C27, abstracted to
                                     the set of saved paths: nothing is
                                     deleted or expired during a discovery)
      [presp] (owner, target, src)   pendCallResTab.respList entries, oldest first
      [preq]  (owner, target, next)  pendCallResTab.reqList keys
    What the code decides with information outside the model is an explicit
    [choice] of the event, constrained by an admissibility check:
      - getNeighbor (kademlia bins, depth, reachability, RandomSubset):
        some at most alpha connected peers outside the skip list;
      - answering from a stored route (table content after eviction,
        address-book content for uType): some stored path of the node that
        passes the code's own filter, or forwarding instead. *)
From Coq Require Import List Arith Bool.
Import ListNotations.

Definition node := nat.
Inductive kind := KReq | KResp.
Record msg := mkMsg { m_kind : kind; m_from : node; m_to : node; m_target : node; m_path : list node }.

Record state := mkState {
  soup : list msg;
  recs : list (node * list node);
  presp : list (node * node * node);
  preq : list (node * node * node)
}.
Definition init_state : state := mkState [] [] [] [].

Definition memn (x : node) (l : list node) : bool := existsb (Nat.eqb x) l.
Definition eq3 (a b : node * node * node) : bool :=
  match a, b with (a1, a2, a3), (b1, b2, b3) => Nat.eqb a1 b1 && Nat.eqb a2 b2 && Nat.eqb a3 b3 end.
Definition mem3 (x : node * node * node) (l : list (node * node * node)) : bool := existsb (eq3 x) l.
Fixpoint dedupn (l : list node) : list node :=
  match l with
  | [] => []
  | a :: l' => a :: filter (fun b => negb (Nat.eqb a b)) (dedupn l')
  end.
Fixpoint nodupb (l : list node) : bool :=
  match l with [] => true | a :: l' => negb (memn a l') && nodupb l' end.
Definition list_eqn (a b : list node) : bool :=
  Nat.eqb (length a) (length b) && forallb (fun p => Nat.eqb (fst p) (snd p)) (combine a b).

Inductive choice :=
| ChNone
| ChResp (q : list node)                 (* answer from the stored path q *)
| ChFwd (sent : list node) (extra : nat). (* forward: requests really sent, and how many more chosen
                                             neighbours were suppressed by the request log *)

Inductive event :=
| EInit (n target : node) (sent : list node) (extra : nat)   (* FindRoute at n *)
| EDeliver (i : nat) (ch : choice)                             (* soup message i reaches its handler *)
| ELose (i : nat)
| EExpDelete (n target next : node)                            (* pendingCalls.Delete (FindRoute gave up) *)
| EExpReq (n target next : node)                               (* GcReqLog drops one key *)
| EExpResp (n target : node) (j : nat).                        (* GcResItems drops the j oldest entries *)

Section Net.
  Variable nbr : node -> node -> bool.
  Variables alpha maxttl : nat.     (* NeighborAlpha, MaxTTL *)
  Variable nnodes : nat.            (* nodes are 0 .. nnodes-1 *)

  (** Table.SavePath: paths shorter than 2 are ignored *)
  Definition save (n : node) (path : list node) (st : state) : state :=
    if Nat.ltb (length path) 2 then st
    else mkState (soup st) (recs st ++ [(n, path)]) (presp st) (preq st).

  (** doRouteReq after generatePaths: one pendingCalls.Add per chosen neighbour
      (respList grows every time; a request is sent only if the request log
      had no entry for (target, next)) *)
  Definition do_req (n src target : node) (newpath : list node) (sent : list node) (extra : nat) (st : state) : state :=
    mkState (soup st ++ map (fun v => mkMsg KReq n v target newpath) sent)
            (recs st)
            (presp st ++ repeat (n, target, src) (length sent + extra))
            (preq st ++ map (fun v => (n, target, v)) sent).

  (** the connected peers of n outside [skip] that the request log already covers *)
  Definition logged_candidates (n target : node) (skip : list node) (st : state) : nat :=
    length (filter (fun v => nbr n v && negb (memn v skip) && mem3 (n, target, v) (preq st)) (seq 0 nnodes)).

  (** what getNeighbor + the request log can produce *)
  Definition fwd_ok (n target : node) (skip : list node) (sent : list node) (extra : nat) (st : state) : bool :=
    nodupb sent
    && forallb (fun v => nbr n v && negb (memn v skip) && negb (mem3 (n, target, v) (preq st))) sent
    && Nat.leb (length sent + extra) alpha
    && Nat.leb extra (logged_candidates n target skip st).

  (** the filter of onRouteReq on a stored route *)
  Definition resp_ok (n target : node) (path q : list node) (st : state) : bool :=
    existsb (fun e => Nat.eqb (fst e) n && list_eqn (snd e) q) (recs st)
    && memn target (removelast q)
    && Nat.leb (length q + length path) maxttl
    && negb (existsb (fun x => memn x path) q).

  (** onRouteReq at n, request (target, path) from peer p *)
  Definition on_req (n p target : node) (path : list node) (ch : choice) (st : state) : option state :=
    if Nat.ltb maxttl (length path) then Some st                       (* ttl: discard *)
    else if memn n path then Some st                                    (* self in path: discard *)
    else
      let st1 := save n path st in
      if Nat.eqb n target then
        Some (mkState (soup st1 ++ [mkMsg KResp n p target [n]]) (recs st1) (presp st1) (preq st1))
      else if nbr n target then
        if mem3 (n, target, target) (preq st1)
        then Some (do_req n p target (path ++ [n]) [] 1 st1)
        else Some (do_req n p target (path ++ [n]) [target] 0 st1)
      else
        match ch with
        | ChResp q =>
            if resp_ok n target path q st1
            then Some (mkState (soup st1 ++ [mkMsg KResp n p target (q ++ [n])]) (recs st1) (presp st1) (preq st1))
            else None
        | ChFwd sent extra =>
            if fwd_ok n target path sent extra st1
            then Some (do_req n p target (path ++ [n]) sent extra st1)
            else None
        | ChNone => None
        end.

  (** onRouteResp + respForward at n, response (target, path) from peer [last] *)
  Definition on_resp (n last target : node) (path : list node) (st : state) : option state :=
    if Nat.ltb maxttl (length path) then Some st
    else if memn n path then Some st
    else
      let st1 := save n path st in
      let mine := fun e : node * node * node => match e with (o, t, _) => Nat.eqb o n && Nat.eqb t target end in
      let entries := filter mine (presp st1) in
      match entries with
      | [] => Some st1                                                   (* pendingCalls.Get: nothing pending *)
      | _ =>
          let srcs := dedupn (filter (fun s => negb (Nat.eqb s n)) (map (fun e => snd e) entries)) in
          Some (mkState (soup st1 ++ map (fun s => mkMsg KResp n s target (path ++ [n])) srcs)
                        (recs st1)
                        (filter (fun e => negb (mine e)) (presp st1))
                        (filter (fun e => negb (eq3 e (n, target, last))) (preq st1)))
      end.

  (** remove element i *)
  Fixpoint take_nth {A} (i : nat) (l : list A) : option (A * list A) :=
    match l, i with
    | [], _ => None
    | x :: l', O => Some (x, l')
    | x :: l', S i' => match take_nth i' l' with Some (y, r) => Some (y, x :: r) | None => None end
    end.

  (** drop the first j elements satisfying f *)
  Fixpoint drop_first {A} (f : A -> bool) (j : nat) (l : list A) : list A :=
    match j, l with
    | O, _ => l
    | _, [] => []
    | S j', x :: l' => if f x then drop_first f j' l' else x :: drop_first f j l'
    end.

  Definition step (st : state) (ev : event) : option state :=
    match ev with
    | EInit n target sent extra =>
        if negb (Nat.eqb n target) && Nat.ltb n nnodes && Nat.leb 1 (length sent + extra)
           && fwd_ok n target [target] sent extra st
        then Some (do_req n n target [n] sent extra st) else None
    | EDeliver i ch =>
        match take_nth i (soup st) with
        | None => None
        | Some (m, rest) =>
            let st0 := mkState rest (recs st) (presp st) (preq st) in
            match m_kind m with
            | KReq => on_req (m_to m) (m_from m) (m_target m) (m_path m) ch st0
            | KResp => match ch with ChNone => on_resp (m_to m) (m_from m) (m_target m) (m_path m) st0 | _ => None end
            end
        end
    | ELose i =>
        match take_nth i (soup st) with
        | None => None
        | Some (_, rest) => Some (mkState rest (recs st) (presp st) (preq st))
        end
    | EExpDelete n target next =>
        Some (mkState (soup st) (recs st)
                      (filter (fun e => match e with (o, t, _) => negb (Nat.eqb o n && Nat.eqb t target) end) (presp st))
                      (filter (fun e => negb (eq3 e (n, target, next))) (preq st)))
    | EExpReq n target next =>
        Some (mkState (soup st) (recs st) (presp st) (filter (fun e => negb (eq3 e (n, target, next))) (preq st)))
    | EExpResp n target j =>
        Some (mkState (soup st) (recs st)
                      (drop_first (fun e => match e with (o, t, _) => Nat.eqb o n && Nat.eqb t target end) j (presp st))
                      (preq st))
    end.

  (** executions *)
  Fixpoint exec (st : state) (evs : list event) : option state :=
    match evs with
    | [] => Some st
    | ev :: evs' => match step st ev with Some st' => exec st' evs' | None => None end
    end.

  (** ---- the unrepaired respForward: doRouteResp extends the shared response
      once per requester, so the i-th requester gets the node i times ---- *)
  Fixpoint dup_forwards (n target : node) (path : list node) (srcs : list node) : list msg :=
    match srcs with
    | [] => []
    | s :: srcs' => mkMsg KResp n s target (path ++ [n]) :: dup_forwards n target (path ++ [n]) srcs'
    end.
  Definition on_resp_unpatched (n last target : node) (path : list node) (st : state) : option state :=
    if Nat.ltb maxttl (length path) then Some st
    else if memn n path then Some st
    else
      let st1 := save n path st in
      let mine := fun e : node * node * node => match e with (o, t, _) => Nat.eqb o n && Nat.eqb t target end in
      let entries := filter mine (presp st1) in
      match entries with
      | [] => Some st1
      | _ =>
          let srcs := dedupn (filter (fun s => negb (Nat.eqb s n)) (map (fun e => snd e) entries)) in
          Some (mkState (soup st1 ++ dup_forwards n target path srcs)
                        (recs st1)
                        (filter (fun e => negb (mine e)) (presp st1))
                        (filter (fun e => negb (eq3 e (n, target, last))) (preq st1)))
      end.

  (** ---- relaying (onRelay / onRelayConnChain): the request's path already
      ends with this node; the next hop is the target if it is connected,
      else one of the table's next hops outside the path that is connected.
      [offered] is what Table.GetNextHop(target, path...) returned (C27). ---- *)
  Definition relay_next (n target : node) (path : list node) (offered : list node) (pick : nat) : option node :=
    if nbr n target then Some target
    else nth_error (filter (fun v => nbr n v) offered) pick.

  (** getNextHopRandom: [rand.Intn(len(list))] on a non-empty list, zero address on an empty one *)
  Definition pick_of {A} (l : list A) (pick : nat) : option A :=
    match l with [] => None | _ => nth_error l (pick mod length l) end.

  (** GetNextHopRandomOrFind as used by onRelay / onRelayConnChain: first
      lookup among the connected members of [offered1] =
      Table.GetNextHop(target, path...); if there is none, FindRoute (a whole
      route discovery, [find_ok] = it returned without error) and a second
      lookup among the connected members of [offered2] = GetNextHop(target,
      path...) on the table as the discovery left it — with the path as skip
      list again. *)
  Definition relay_next_find (n target : node) (offered1 : list node) (find_ok : bool) (offered2 : list node)
             (pick1 pick2 : nat) : option node :=
    if nbr n target then Some target
    else match pick_of (filter (fun v => nbr n v) offered1) pick1 with
         | Some v => Some v
         | None => if find_ok then pick_of (filter (fun v => nbr n v) offered2) pick2 else None
         end.

  (** ---- termination measure ---- *)
  Definition bigA : nat := Nat.max alpha 1.
  Fixpoint wd (d : nat) : nat :=
    match d with O => 1 | S d' => 1 + bigA * (wd d' + 2) end.
  (** weight of a request whose path has length l *)
  Definition wreq (l : nat) : nat := wd (maxttl + 1 - l).
  Definition wmsg (m : msg) : nat :=
    match m_kind m with KReq => wreq (length (m_path m)) | KResp => 1 end.
  Definition mu (st : state) : nat :=
    fold_right (fun m acc => wmsg m + acc) 0 (soup st) + 2 * length (presp st).
End Net.
