(** C28 — property theorems only.  They quantify over every connection
    relation [nbr] (symmetric, static), every NeighborAlpha [alpha], MaxTTL
    [maxttl], number of nodes, and every execution [evs]: FindRoute
    initiations, deliveries of any in-flight message in any order with any
    admissible choice of neighbours / stored route, losses, pending-table
    expiries. *)
From Coq Require Import List NArith ZArith Arith Bool.
Import ListNotations.
Require Aurora.C27.Model.
Require Import Aurora.Consts Aurora.C28.Model Aurora.C28.Proofs Aurora.C28.Term Aurora.C28.Extra.

Definition Alpha0 : nat := Z.to_nat Consts.routetab_NeighborAlpha.
Definition MaxTTL0 : nat := Z.to_nat Consts.routetab_MaxTTL.
Lemma consts_ok_C28 : (1 <=? Alpha0) && (1 <=? MaxTTL0) = true.
Proof. vm_compute. reflexivity. Qed.

(** "Every path a node records or returns consists of distinct nodes joined by
    actual neighbour links, is no longer than the hop limit, and never
    contains the recording node itself" — and the same for every path in
    flight (one hop longer at most, ending at its sender). *)
Theorem C28_paths_simple : forall nbr alpha maxttl nnodes,
  (forall a b, nbr a b = nbr b a) ->
  forall evs st, exec nbr alpha maxttl nnodes init_state evs = Some st ->
  (forall m, In m (soup st) ->
     nbr (m_from m) (m_to m) = true /\ NoDup (m_path m) /\ walk nbr (m_path m) /\
     (exists p', m_path m = p' ++ [m_from m]) /\ length (m_path m) <= maxttl + 1) /\
  (forall n p, In (n, p) (recs st) ->
     NoDup p /\ walk nbr p /\ ~ In n p /\ 2 <= length p <= maxttl /\ exists p' l, p = p' ++ [l] /\ nbr l n = true).
Proof. exact paths_simple. Qed.
Print Assumptions C28_paths_simple.

(** "Relayed streams are never forwarded to a node already on their path,
    except to deliver to the target": the relay step of onRelay /
    onRelayConnChain with GetNextHopRandomOrFind as coded — first lookup on
    the table [t], on a miss a route discovery after which the table is ANY
    [t'], second lookup — both lookups with the request's path (including the
    relaying node) as skip list.  Any table states (C27 model), any picks. *)
Theorem C28_relay_no_revisit : forall connected t t' find_ok target path pick1 pick2 next,
  relay_step connected t t' find_ok target path pick1 pick2 = Some next ->
  connected next = true /\ (next = target \/ ~ In next path).
Proof. exact relay_step_no_revisit. Qed.
Print Assumptions C28_relay_no_revisit.

(** GetNextHopRandomOrFind itself (exported; also used by the p2p layer): the
    hop it returns is connected and outside the skip list, whichever of the
    two lookups produced it. *)
Theorem C28_next_hop_or_find_not_skipped : forall connected t t' find_ok target skips pick1 pick2 next,
  next_hop_random_or_find connected t t' find_ok target skips pick1 pick2 = Some next ->
  connected next = true /\ ~ In next skips.
Proof. exact next_hop_random_or_find_ok. Qed.
Print Assumptions C28_next_hop_or_find_not_skipped.

(** "route discovery terminates", request AND response phase: in any
    execution from the empty network the number of deliveries and losses is
    at most (number of FindRoute initiations) * max(alpha,1) * (wreq 1 + 2);
    and from any state, without further initiations, at most [mu st]. *)
Theorem C28_terminates : forall nbr alpha maxttl nnodes evs st,
  exec nbr alpha maxttl nnodes init_state evs = Some st ->
  total cost evs <= total is_init evs * init_budget alpha maxttl.
Proof. exact terminates_from_init. Qed.
Print Assumptions C28_terminates.

Theorem C28_terminates_from_any_state : forall nbr alpha maxttl nnodes st evs st',
  exec nbr alpha maxttl nnodes st evs = Some st' -> total is_init evs = 0 -> total cost evs <= mu alpha maxttl st.
Proof. exact terminates_from. Qed.
Print Assumptions C28_terminates_from_any_state.

(** F-route-resp-dup: respForward WITHOUT proposed/C28/fix-route-resp-dup.patch
    sends the second requester a path in which the relay occurs twice. *)
Theorem C28_resp_forward_unpatched_refuted :
  exists nbr alpha maxttl nnodes evs st n last target path st' m,
    (forall a b, nbr a b = nbr b a) /\
    exec nbr alpha maxttl nnodes init_state evs = Some st /\
    soup st = [mkMsg KResp last n target path] /\
    on_resp_unpatched maxttl n last target path (mkState [] (recs st) (presp st) (preq st)) = Some st' /\
    In m (soup st') /\ m_from m = n /\ ~ NoDup (m_path m).
Proof. exact unpatched_refuted. Qed.
Print Assumptions C28_resp_forward_unpatched_refuted.

(** non-vacuity: an execution with two concurrent discoveries, suppressed
    forwarding, a relay with two pending requesters; the default constants
    give a finite budget *)
Example C28_hyps_satisfiable :
  (forall a b, w_nbr a b = w_nbr b a) /\
  (exists st', exec w_nbr 2 10 5 init_state (w_evs ++ [EDeliver 0 ChNone]) = Some st' /\
     soup st' = [mkMsg KResp 2 0 4 [4; 3; 2]; mkMsg KResp 2 1 4 [4; 3; 2]] /\
     In (2, [4; 3]) (recs st') /\ presp st' = [(0, 4, 0); (1, 4, 1)]) /\
  total cost (w_evs ++ [EDeliver 0 ChNone]) = 6 /\ total is_init w_evs = 2 /\
  init_budget 2 2 = 42.
Proof. split; [exact w_nbr_sym|]. split; [exact w_patched|]. vm_compute. auto. Qed.
