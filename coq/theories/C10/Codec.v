(** C10 — the byte codec: [UnmarshalBinary (MarshalBinary n)] gives back the forks of [n]
    as references (key, prefix, node type, reference, metadata), the padded entry and
    the obfuscation key. *)
From Coq Require Import List NArith Bool Arith Lia Sorted.
Import ListNotations.
Require Import Aurora.C10.Model Aurora.C10.Spec Aurora.C10.Basics Aurora.C10.Trie.

(** ---- JSON fragment ---- *)
Lemma safe_char_not_quote : forall c, safe_char c = true -> (c =? 34)%N = false.
Proof.
  intros c H. unfold safe_char in H. repeat (apply andb_true_iff in H as [H ?]).
  now apply negb_true_iff.
Qed.

Lemma read_str_ok : forall s rest, safe_str s = true -> read_str (s ++ 34%N :: rest) = Some (s, rest).
Proof.
  induction s as [|c s IH]; intros rest H; simpl in *; [reflexivity|].
  apply andb_true_iff in H as [Hc Hs]. rewrite (safe_char_not_quote c Hc), Hc, (IH rest Hs). reflexivity.
Qed.

Lemma read_qstr_ok : forall s rest, safe_str s = true -> read_qstr (json_str s ++ rest) = Some (s, rest).
Proof.
  intros s rest H. unfold json_str, read_qstr. cbn [app]. cbn [N.eqb Pos.eqb].
  rewrite <- app_assoc. cbn [app]. now apply read_str_ok.
Qed.

Lemma json_kv_read : forall kv rest, safe_str (fst kv) = true -> safe_str (snd kv) = true ->
  exists mid, read_qstr (json_kv kv ++ rest) = Some (fst kv, 58%N :: mid) /\ read_qstr mid = Some (snd kv, rest).
Proof.
  intros [k v] rest Hk Hv. cbn [fst snd] in *. exists (json_str v ++ rest). split.
  - unfold json_kv. cbn [fst snd]. rewrite <- app_assoc. rewrite read_qstr_ok by assumption.
    now rewrite <- app_assoc.
  - now apply read_qstr_ok.
Qed.

Lemma json_pairs_cons2 : forall kv kv2 m, json_pairs (kv :: kv2 :: m) = json_kv kv ++ [44%N] ++ json_pairs (kv2 :: m).
Proof. reflexivity. Qed.

Lemma json_dec_pairs_ok : forall m fuel tail, m <> [] -> meta_safe m = true -> all_newlines tail = true ->
  length m <= fuel -> json_dec_pairs fuel (json_pairs m ++ 125%N :: tail) = Some m.
Proof.
  induction m as [|kv m IH]; intros fuel tail Hne Hs Ht Hf; [contradiction|].
  destruct fuel as [|fuel]; [simpl in Hf; lia|].
  cbn [meta_safe forallb] in Hs. apply andb_true_iff in Hs as [Hkv Hs]. apply andb_true_iff in Hkv as [Hk Hv].
  destruct m as [|kv2 m].
  - cbn [json_pairs json_dec_pairs].
    destruct (json_kv_read kv (125%N :: tail) Hk Hv) as [mid [H1 H2]].
    rewrite H1. cbn [N.eqb Pos.eqb]. rewrite H2. cbn [N.eqb Pos.eqb]. rewrite Ht. now destruct kv.
  - rewrite json_pairs_cons2. cbn [json_dec_pairs]. rewrite <- !app_assoc.
    destruct (json_kv_read kv ([44%N] ++ json_pairs (kv2 :: m) ++ 125%N :: tail) Hk Hv) as [mid [H1 H2]].
    rewrite H1. cbn [N.eqb Pos.eqb]. rewrite H2. cbn [app N.eqb Pos.eqb].
    rewrite IH; [now destruct kv | discriminate | exact Hs | exact Ht | simpl in *; lia].
Qed.

Lemma all_newlines_repeat : forall n, all_newlines (repeat 10%N n) = true.
Proof. induction n; simpl; auto. Qed.

Lemma json_pairs_hd : forall kv m, exists t, json_pairs (kv :: m) = 34%N :: t.
Proof. intros kv m. destruct m; cbn [json_pairs]; unfold json_kv, json_str; cbn [app]; eauto. Qed.

Lemma json_pairs_length : forall m, length m <= length (json_pairs m).
Proof.
  induction m as [|kv m IH]; [simpl; lia|]. destruct m as [|kv2 m].
  - cbn [json_pairs]. unfold json_kv, json_str. rewrite !app_length. simpl. lia.
  - rewrite json_pairs_cons2. rewrite !app_length. cbn [length] in *. lia.
Qed.

Lemma pad_json_shape : forall j, exists n, pad_json j = j ++ repeat 10%N n.
Proof.
  intros j. unfold pad_json. destruct (length j + 2 <? 32); [eauto|].
  destruct (32 <? length j + 2); [eauto|]. exists 0. simpl. now rewrite app_nil_r.
Qed.

Lemma json_roundtrip : forall m, m <> [] -> meta_safe m = true -> json_dec (pad_json (json_enc m)) = Some m.
Proof.
  intros m Hne Hs. destruct (pad_json_shape (json_enc m)) as [n ->]. unfold json_enc.
  destruct m as [|kv m]; [contradiction|]. destruct (json_pairs_hd kv m) as [t Ht].
  cbn [app]. rewrite <- app_assoc. cbn [app]. rewrite Ht. cbn [app]. unfold json_dec. cbn [N.eqb Pos.eqb].
  change (34%N :: t ++ 125%N :: repeat 10%N n) with ((34%N :: t) ++ 125%N :: repeat 10%N n). rewrite <- Ht.
  apply json_dec_pairs_ok; [exact Hne | exact Hs | apply all_newlines_repeat |].
  pose proof (json_pairs_length (kv :: m)). cbn [length] in *. rewrite !app_length. cbn [length]. lia.
Qed.

Lemma pad_json_nonempty : forall m, 0 < length (pad_json (json_enc m)).
Proof. intros m. destruct (pad_json_shape (json_enc m)) as [n ->]. unfold json_enc. rewrite app_length. simpl. lia. Qed.

(** ---- XOR obfuscation is an involution ---- *)
Lemma xor_at_invol : forall key l j, xor_at key j (xor_at key j l) = l.
Proof.
  intros key. induction l as [|x l IH]; intros j; simpl; [reflexivity|].
  rewrite IH. f_equal. rewrite N.lxor_assoc, N.lxor_nilpotent. apply N.lxor_0_r.
Qed.
Lemma xor_at_length : forall key l j, length (xor_at key j l) = length l.
Proof. intros key. induction l; intros j; simpl; auto. Qed.

Lemma firstn_app_len : forall {A} n (a b : list A), length a = n -> firstn n (a ++ b) = a.
Proof. intros A n a b <-. apply firstn_app_exact. Qed.
Lemma skipn_app_len : forall {A} n (a b : list A), length a = n -> skipn n (a ++ b) = b.
Proof. intros A n a b <-. apply skipn_app_exact. Qed.

Lemma obfuscate_invol : forall key d, 32 <= length d -> obfuscate key (obfuscate key d) = d.
Proof.
  intros key d H. unfold obfuscate.
  assert (Hl : length (firstn 32 d) = 32) by (rewrite firstn_length; lia).
  rewrite (firstn_app_len 32 _ _ Hl), (skipn_app_len 32 _ _ Hl), xor_at_invol. apply firstn_skipn.
Qed.
Lemma obfuscate_length : forall key d, length (obfuscate key d) = length d.
Proof.
  intros key d. unfold obfuscate. rewrite app_length, xor_at_length, <- app_length. now rewrite firstn_skipn.
Qed.
Lemma obfuscate_firstn : forall key d, 32 <= length d -> firstn 32 (obfuscate key d) = firstn 32 d.
Proof.
  intros key d H. unfold obfuscate.
  assert (Hl : length (firstn 32 d) = 32) by (rewrite firstn_length; lia).
  apply (firstn_app_len 32 _ _ Hl).
Qed.

(** ---- the 256-bit fork index ---- *)
Lemma index_byte_testbit : forall keys j b acc, (b < 8)%N ->
  N.testbit (fold_left (fun acc k => if (k / 8 =? j)%N then N.lor acc (N.shiftl 1 (k mod 8)) else acc) keys acc) b =
  N.testbit acc b || existsb (fun k => (k / 8 =? j)%N && (k mod 8 =? b)%N) keys.
Proof.
  induction keys as [|k keys IH]; intros j b acc Hb; cbn [fold_left existsb]; [now rewrite orb_false_r|].
  rewrite IH by assumption. destruct (k / 8 =? j)%N; cbn [andb]; [|reflexivity].
  rewrite N.lor_spec, N.shiftl_1_l, N.pow2_bits_eqb. now rewrite orb_assoc.
Qed.

Lemma get_bit_index_of : forall keys i, i < 256 ->
  get_bit (index_of keys) i = existsb (fun k => (k =? N.of_nat i)%N) keys.
Proof.
  intros keys i Hi. unfold get_bit, index_of.
  assert (Hi8 : i / 8 < 32) by (apply Nat.div_lt_upper_bound; lia).
  rewrite (nth_indep _ 0%N (index_byte keys (N.of_nat 0))) by (rewrite map_length, seq_length; exact Hi8).
  rewrite (map_nth (fun j => index_byte keys (N.of_nat j))). rewrite seq_nth by exact Hi8. cbn [plus].
  unfold index_byte. rewrite index_byte_testbit.
  2:{ pose proof (Nat.mod_upper_bound i 8). lia. }
  cbn [N.testbit orb]. replace (N.testbit 0 (N.of_nat (i mod 8))) with false by (symmetry; apply N.bits_0).
  cbn [orb]. clear Hi8. induction keys as [|k keys IH]; cbn [existsb]; [reflexivity|]. rewrite IH. f_equal.
  destruct (k =? N.of_nat i)%N eqn:E.
  - apply N.eqb_eq in E. subst k. apply andb_true_iff. split; apply N.eqb_eq.
    + change 8%N with (N.of_nat 8). now rewrite <- Nat2N.inj_div.
    + change 8%N with (N.of_nat 8). now rewrite <- Nat2N.inj_mod.
  - apply andb_false_iff. destruct (k / 8 =? N.of_nat (i / 8))%N eqn:E1; [|now left]. right.
    apply N.eqb_neq. intros E2. apply N.eqb_eq in E1. apply N.eqb_neq in E. apply E.
    rewrite (N.div_mod k 8) by discriminate. rewrite E1, E2.
    change 8%N with (N.of_nat 8). rewrite <- Nat2N.inj_mul, <- Nat2N.inj_add. f_equal.
    symmetry. apply Nat.div_mod. discriminate.
Qed.

(** filtering a range by membership in a strictly sorted list inside the range gives the list *)
Lemma filter_sorted_range : forall n a (ks : list nat),
  StronglySorted lt ks -> Forall (fun k => a <= k < a + n) ks ->
  filter (fun i => existsb (Nat.eqb i) ks) (seq a n) = ks.
Proof.
  induction n as [|n IH]; intros a ks Hs Hr.
  - destruct ks as [|k ks]; [reflexivity|]. inversion Hr; subst. lia.
  - destruct ks as [|k ks].
    + clear. generalize (seq a (S n)). intros l. induction l; simpl; auto.
    + cbn [seq filter]. inversion Hs as [|? ? Hs' Hall]; subst. inversion Hr as [|? ? Hk Hr']; subst.
      cbn [existsb]. destruct (Nat.eqb a k) eqn:E.
      * apply Nat.eqb_eq in E. subst k. cbn [orb]. f_equal.
        transitivity (filter (fun i => existsb (Nat.eqb i) ks) (seq (S a) n)).
        -- apply filter_ext_in. intros i Hi. apply in_seq in Hi.
           destruct (Nat.eqb i a) eqn:E2; [apply Nat.eqb_eq in E2; lia | reflexivity].
        -- apply (IH (S a) ks Hs'). rewrite Forall_forall in *. intros x Hx. specialize (Hall x Hx). specialize (Hr' x Hx). lia.
      * apply Nat.eqb_neq in E. cbn [orb].
        assert (Hna : existsb (Nat.eqb a) ks = false).
        { apply not_true_is_false. intros H. apply existsb_exists in H as [x [Hx Hax]]. apply Nat.eqb_eq in Hax. subst x.
          rewrite Forall_forall in Hall. specialize (Hall a Hx). lia. }
        rewrite Hna. apply (IH (S a) (k :: ks)); [now constructor|].
        constructor; [lia|]. rewrite Forall_forall in *. intros x Hx. specialize (Hall x Hx). specialize (Hr' x Hx). lia.
Qed.

Lemma index_roundtrip : forall keys, StronglySorted N.lt keys -> Forall (fun k => (k < 256)%N) keys ->
  index_keys (index_of keys) = map N.to_nat keys.
Proof.
  intros keys Hs Hb. unfold index_keys.
  rewrite (filter_ext_in _ (fun i => existsb (Nat.eqb i) (map N.to_nat keys))).
  - apply (filter_sorted_range 256 0).
    + clear Hb. induction Hs as [|k ks Hs IH Hall]; [constructor|]. cbn [map]. constructor; [exact IH|].
      rewrite Forall_forall in *. intros x Hx. apply in_map_iff in Hx as [y [<- Hy]]. specialize (Hall y Hy). lia.
    + rewrite Forall_forall in *. intros x Hx. apply in_map_iff in Hx as [y [<- Hy]]. specialize (Hb y Hy). lia.
  - intros i Hi. apply in_seq in Hi. rewrite get_bit_index_of by lia.
    clear. induction keys as [|k keys IH]; [reflexivity|]. cbn [existsb map]. rewrite IH. f_equal.
    destruct (k =? N.of_nat i)%N eqn:E.
    + apply N.eqb_eq in E. subst k. rewrite Nat2N.id. symmetry. apply Nat.eqb_refl.
    + symmetry. apply Nat.eqb_neq. intros ->. rewrite N2Nat.id, N.eqb_refl in E. discriminate.
Qed.

Lemma index_of_length : forall keys, length (index_of keys) = 32.
Proof. intros. unfold index_of. now rewrite map_length, seq_length. Qed.

(** ---- one fork ---- *)
(** what [UnmarshalBinary] leaves of a child: node type, reference, metadata *)
Definition stub (c : node) : node := Node (n_ty c) 0 [] (n_ref c) [] (n_md c) None.

(** a child as [MarshalBinary] needs it: saved (it has a reference of the node's reference size),
    metadata flag consistent, metadata encodable *)
Definition child_ok (rbs : nat) (c : node) : Prop :=
  (exists r, n_ref c = Some r /\ length r = rbs) /\
  (is_withmeta (n_ty c) = true <-> n_md c <> []) /\ md_ok (n_md c).

Lemma firstn_repeat_le : forall {A} (x : A) k n, k <= n -> firstn k (repeat x n) = repeat x k.
Proof.
  intros A x. induction k as [|k IH]; intros n H; [reflexivity|].
  destruct n as [|n]; [lia|]. simpl. f_equal. apply IH. lia.
Qed.

Lemma pad_to_short : forall n l, length l <= n -> pad_to n l = l ++ repeat 0%N (n - length l).
Proof.
  intros n l H. unfold pad_to. rewrite firstn_app. rewrite firstn_all2 by assumption. f_equal.
  apply firstn_repeat_le. lia.
Qed.

Lemma nth_app_exact : forall {A} (a : list A) x b d, nth (length a) (a ++ x :: b) d = x.
Proof. intros A a x b d. rewrite app_nth2 by lia. now rewrite Nat.sub_diag. Qed.
Lemma skipn_app_plus : forall {A} (a b : list A) n, skipn (length a + n) (a ++ b) = skipn n b.
Proof. intros A a b n. induction a; simpl; auto. Qed.

Lemma un_be16_be16 : forall n, n < 256 * 256 -> un_be16 (be16 n) = n.
Proof.
  intros n H. unfold be16, un_be16. rewrite !Nat2N.id.
  rewrite (Nat.mod_small (n / 256) 256) by (apply Nat.div_lt_upper_bound; lia).
  pose proof (Nat.div_mod n 256). lia.
Qed.

Lemma fork_bytes_shape : forall rbs prefix c, child_ok rbs c -> rbs <= 256 -> length prefix <= 30 ->
  exists r tail, n_ref c = Some r /\ length r = rbs /\
    fork_bytes prefix c = Ok ([n_ty c; N.of_nat (length prefix)] ++ pad_to 30 prefix ++ r ++ tail) /\
    (if is_withmeta (n_ty c)
     then exists j, tail = be16 (length j) ++ j /\ j = pad_json (json_enc (n_md c)) /\ length j < 256 * 256 /\ 0 < length j
     else tail = [] /\ n_md c = []).
Proof.
  intros rbs prefix c [[r [Hr Hrl]] [Hwm [Hsafe Hsz]]] Hrbs Hpl.
  unfold fork_bytes. rewrite Hr.
  assert (H256 : (256 <? length r) = false) by (apply Nat.ltb_ge; lia). rewrite H256.
  rewrite (Nat.mod_small (length prefix) 256) by lia.
  destruct (is_withmeta (n_ty c)) eqn:Hw.
  - assert (Hne : n_md c <> []) by (apply Hwm; reflexivity).
    rewrite Hsafe. cbn [negb orb].
    assert (Hl0 : (length (n_md c) =? 0) = false) by (apply Nat.eqb_neq; destruct (n_md c); [contradiction | discriminate]).
    rewrite Hl0.
    assert (Hj : (65535 <? N.of_nat (length (pad_json (json_enc (n_md c)))))%N = false) by (apply N.ltb_ge; exact Hsz).
    rewrite Hj. exists r, (be16 (length (pad_json (json_enc (n_md c)))) ++ pad_json (json_enc (n_md c))).
    split; [reflexivity|]. split; [exact Hrl|]. split; [now rewrite <- !app_assoc|].
    eexists. split; [reflexivity|]. split; [reflexivity|]. split; [lia | apply pad_json_nonempty].
  - exists r, []. split; [reflexivity|]. split; [exact Hrl|]. split; [now rewrite app_nil_r|].
    split; [reflexivity|]. destruct (n_md c) eqn:E; [reflexivity|].
    assert (H : false = true) by (apply Hwm; discriminate). discriminate H.
Qed.

Lemma skipn_2_cons : forall {A} (a b : A) l, skipn 2 (a :: b :: l) = l.
Proof. reflexivity. Qed.

Lemma fork_from_ok : forall rbs prefix c r tail v02meta msz,
  prefix <> [] -> length prefix <= 30 -> n_ref c = Some r -> length r = rbs ->
  (v02meta = true -> (0 <? msz) = true -> json_dec (skipn 2 tail) = Some (n_md c)) ->
  (v02meta = true -> (0 <? msz) = false -> n_md c = []) ->
  (v02meta = false -> tail = [] /\ n_md c = []) ->
  fork_from ([n_ty c; N.of_nat (length prefix)] ++ pad_to 30 prefix ++ r ++ tail) rbs msz v02meta = Ok (prefix, stub c).
Proof.
  intros rbs prefix c r tail v02meta msz Hne Hpl Hr Hrl Hm1 Hm2 Hm3. unfold fork_from.
  cbn [app nth]. rewrite Nat2N.id.
  assert (H0 : (length prefix =? 0) = false) by (apply Nat.eqb_neq; destruct prefix; [contradiction | discriminate]).
  assert (H30 : (30 <? length prefix) = false) by (apply Nat.ltb_ge; lia).
  rewrite H0, H30. cbn [orb]. rewrite skipn_2_cons.
  rewrite (pad_to_short 30 prefix Hpl). rewrite <- app_assoc. rewrite firstn_app_exact.
  assert (Hsk : skipn 32 (n_ty c :: N.of_nat (length prefix) :: prefix ++ repeat 0%N (30 - length prefix) ++ r ++ tail) = r ++ tail).
  { change (n_ty c :: N.of_nat (length prefix) :: prefix ++ repeat 0%N (30 - length prefix) ++ r ++ tail)
      with ([n_ty c; N.of_nat (length prefix)] ++ prefix ++ repeat 0%N (30 - length prefix) ++ r ++ tail).
    rewrite !app_assoc. rewrite <- (app_assoc _ r tail). apply skipn_app_len.
    rewrite !app_length, repeat_length. cbn [length]. lia. }
  unfold stub. rewrite Hr. rewrite Hsk.
  destruct v02meta.
  - assert (Hsk2 : skipn (32 + rbs + 2) (n_ty c :: N.of_nat (length prefix) :: prefix ++ repeat 0%N (30 - length prefix) ++ r ++ tail) = skipn 2 tail).
    { replace (32 + rbs + 2) with (32 + (rbs + 2)) by lia. rewrite <- skipn_skipn.
      rewrite Hsk. rewrite <- Hrl. apply skipn_app_plus. }
    rewrite (firstn_app_len rbs r tail Hrl).
    cbn [andb]. destruct (0 <? msz) eqn:Hz.
    + rewrite Hsk2, (Hm1 eq_refl eq_refl). reflexivity.
    + rewrite (Hm2 eq_refl eq_refl). reflexivity.
  - destruct (Hm3 eq_refl) as [-> Hmd]. rewrite app_nil_r. cbn [andb]. rewrite Hmd. reflexivity.
Qed.

Lemma slice_mid : forall (pre b rest : list N), slice (pre ++ b ++ rest) (length pre) (length pre + length b) = Some b.
Proof.
  intros pre b rest. unfold slice.
  assert (H1 : (length pre <=? length pre + length b) = true) by (apply Nat.leb_le; lia).
  assert (H2 : (length pre + length b <=? length (pre ++ b ++ rest)) = true) by (apply Nat.leb_le; rewrite !app_length; lia).
  rewrite H1, H2. cbn [andb]. f_equal. rewrite skipn_app_exact.
  replace (length pre + length b - length pre) with (length b) by lia. apply firstn_app_exact.
Qed.

Lemma parse_fork_ok : forall rbs pre prefix c rest b k,
  child_ok rbs c -> rbs <= 255 -> fork_ok k prefix -> fork_bytes prefix c = Ok b ->
  parse_fork true (pre ++ b ++ rest) rbs (length pre) = Ok ((prefix, stub c), length pre + length b).
Proof.
  intros rbs pre prefix c rest b k Hc Hrbs [Hne [Hhd [Hl30 [Hk Hby]]]] Hfb.
  destruct (fork_bytes_shape rbs prefix c Hc ltac:(lia) Hl30) as [r [tail [Hr [Hrl [Hshape Htail]]]]].
  rewrite Hshape in Hfb. injection Hfb as Hb.
  assert (Hlen : length b = 32 + rbs + length tail).
  { rewrite <- Hb. cbn [app length]. rewrite !app_length, pad_to_length. lia. }
  assert (Hnth : nth (length pre) (pre ++ b ++ rest) 0%N = n_ty c).
  { rewrite <- Hb. cbn [app]. apply nth_app_exact. }
  assert (Hskip : skipn (length pre + (32 + rbs)) (pre ++ b ++ rest) = tail ++ rest).
  { rewrite skipn_app_plus.
    assert (Hb' : b = (n_ty c :: N.of_nat (length prefix) :: pad_to 30 prefix ++ r) ++ tail).
    { rewrite <- Hb. cbn [app]. now rewrite <- app_assoc. }
    rewrite Hb', <- app_assoc. apply skipn_app_len. cbn [length]. rewrite app_length, pad_to_length. lia. }
  unfold parse_fork.
  assert (E1 : (length (pre ++ b ++ rest) <? length pre + 1) = false) by (apply Nat.ltb_ge; rewrite !app_length; lia).
  rewrite E1, Hnth.
  destruct (is_withmeta (n_ty c)) eqn:Hw.
  - destruct Htail as [j [Htl [Hj [Hjl Hj0]]]].
    assert (E2 : (length (pre ++ b ++ rest) <? length pre + 32 + rbs + 2) = false).
    { apply Nat.ltb_ge. rewrite !app_length, Hlen, Htl, app_length. unfold be16. cbn [length]. lia. }
    rewrite E2. rewrite Hskip. rewrite Htl. rewrite <- app_assoc.
    assert (Hbe : firstn 2 (be16 (length j) ++ j ++ rest) = be16 (length j)) by reflexivity.
    rewrite Hbe, (un_be16_be16 _ Hjl).
    replace (length pre + (32 + rbs + 2 + length j)) with (length pre + length b).
    2:{ rewrite Hlen, Htl, app_length. unfold be16. cbn [length]. lia. }
    rewrite slice_mid.
    assert (Hff : fork_from b rbs (length j) true = Ok (prefix, stub c)).
    { rewrite <- Hb. apply (fork_from_ok rbs prefix c r tail true (length j)); auto.
      + intros _ _. rewrite Htl. unfold be16. cbn [app]. rewrite skipn_2_cons. rewrite Hj.
        destruct Hc as [_ [Hwm [Hsafe _]]]. apply json_roundtrip; [apply Hwm; exact Hw | exact Hsafe].
      + intros _ Hz. apply Nat.ltb_ge in Hz. lia.
      + intros H; discriminate H. }
    rewrite Hff. reflexivity.
  - destruct Htail as [Htl Hmd].
    assert (E2 : (length (pre ++ b ++ rest) <? length pre + 32 + rbs) = false).
    { apply Nat.ltb_ge. rewrite !app_length, Hlen. lia. }
    rewrite E2.
    replace (length pre + (32 + rbs)) with (length pre + length b) by (rewrite Hlen, Htl; cbn [length]; lia).
    rewrite slice_mid.
    assert (Hff : fork_from b rbs 0 false = Ok (prefix, stub c)).
    { rewrite <- Hb. apply (fork_from_ok rbs prefix c r tail false 0); auto; try (intros H; discriminate H). }
    rewrite Hff. reflexivity.
Qed.

(** all forks: the keys come from the index, the offset runs over the concatenated fork bytes *)
Definition stub_fork (kf : N * (list N * node)) : N * (list N * node) :=
  (fst kf, (fst (snd kf), stub (snd (snd kf)))).

Lemma parse_forks_ok : forall rbs fs pre rest acc fb,
  rbs <= 255 ->
  Forall (fun kf => fork_ok (fst kf) (fst (snd kf)) /\ child_ok rbs (snd (snd kf))) fs ->
  forks_bytes fs = Ok fb ->
  parse_forks true (pre ++ fb ++ rest) rbs (map (fun kf => N.to_nat (fst kf)) fs) (length pre) acc =
  (acc ++ map stub_fork fs, None).
Proof.
  intros rbs fs. induction fs as [|[k [prefix c]] fs IH]; intros pre rest acc fb Hrbs Hall Hfb.
  - cbn [map parse_forks]. now rewrite app_nil_r.
  - inversion Hall as [|? ? [Hfk Hck] Hall']; subst. cbn [fst snd] in *.
    cbn [forks_bytes] in Hfb. destruct (fork_bytes prefix c) as [b|e] eqn:Hb; [|discriminate].
    destruct (forks_bytes fs) as [bs|e] eqn:Hbs; [|discriminate]. inversion Hfb; subst fb. clear Hfb.
    cbn [map parse_forks fst]. rewrite <- app_assoc.
    rewrite (parse_fork_ok rbs pre prefix c (bs ++ rest) b k Hck Hrbs Hfk Hb).
    replace (pre ++ b ++ bs ++ rest) with ((pre ++ b) ++ bs ++ rest) by now rewrite <- app_assoc.
    replace (length pre + length b) with (length (pre ++ b)) by now rewrite app_length.
    rewrite (IH (pre ++ b) rest (acc ++ [(N.of_nat (N.to_nat k), (prefix, stub c))]) bs Hrbs Hall' eq_refl).
    rewrite N2Nat.id. rewrite <- app_assoc. reflexivity.
Qed.

Lemma forks_bytes_ok : forall rbs fs, rbs <= 255 ->
  Forall (fun kf => fork_ok (fst kf) (fst (snd kf)) /\ child_ok rbs (snd (snd kf))) fs ->
  exists fb, forks_bytes fs = Ok fb.
Proof.
  intros rbs fs Hrbs. induction fs as [|[k [prefix c]] fs IH]; intros Hall; [now exists []|].
  inversion Hall as [|? ? [[Hne [Hhd [Hl30 _]]] Hck] Hall']; subst. cbn [fst snd] in *.
  destruct (fork_bytes_shape rbs prefix c Hck ltac:(lia) Hl30) as [r [tail [_ [_ [Hshape _]]]]].
  destruct (IH Hall') as [fb Hfb]. cbn [forks_bytes]. rewrite Hshape, Hfb. eauto.
Qed.

Lemma slice_mid' : forall (pre b rest : list N) a e, a = length pre -> e = a + length b ->
  slice (pre ++ b ++ rest) a e = Some b.
Proof. intros pre b rest a e -> ->. apply slice_mid. Qed.

(** ---- the whole node ---- *)
Definition eff_key (kg : list N) (n : node) : list N := if (length (n_okey n) =? 0) then kg else n_okey n.

(** the receiver after [UnmarshalBinary] of the bytes of [n] *)
Definition unmarshalled (kg : list N) (n : node) (fs : forks_t) (m : node) : node :=
  let m2 := set_entry (set_okey m (eff_key kg n)) (pad_to (n_rbs n) (n_entry n)) in
  let m3 := if negb (list_eqb_N (index_of (map fst fs)) (repeat 0%N 32)) && negb (is_edge (n_ty m2))
            then set_ty m2 (mk_edge (n_ty m2)) else m2 in
  set_forks m3 (Some (map stub_fork fs)).

Lemma v02_not_v01 : list_eqb_N v02hash v01hash = false.
Proof. vm_compute. reflexivity. Qed.

Lemma marshal_unmarshal : forall kg n fs,
  n_forks n = Some fs -> keys_sorted fs -> n_rbs n <= 255 -> length (eff_key kg n) = 32 ->
  Forall (fun kf => fork_ok (fst kf) (fst (snd kf)) /\ child_ok (n_rbs n) (snd (snd kf))) fs ->
  exists bytes,
    marshal kg n = (if (length (n_okey n) =? 0) then set_okey n kg else n, Ok bytes) /\
    64 <= length bytes /\
    forall m, unmarshal m bytes = (unmarshalled kg n fs m, None).
Proof.
  intros kg n fs Hfs Hs Hrbs Hkey Hall.
  destruct (forks_bytes_ok (n_rbs n) fs Hrbs Hall) as [fb Hfb].
  remember (eff_key kg n) as K eqn:HK.
  remember (pad_to (n_rbs n) (n_entry n)) as E eqn:HE.
  remember (index_of (map fst fs)) as I eqn:HI.
  assert (HEl : length E = n_rbs n) by (subst E; apply pad_to_length).
  assert (HIl : length I = 32) by (subst I; apply index_of_length).
  assert (HVl : length v02hash = 31) by reflexivity.
  set (Rb := N.of_nat (n_rbs n mod 256)).
  set (body := K ++ v02hash ++ [Rb] ++ E ++ I ++ fb).
  assert (Hm : marshal kg n = (if (length (n_okey n) =? 0) then set_okey n kg else n, Ok (obfuscate K body))).
  { unfold marshal. rewrite Hfs.
    assert (Hk1 : n_okey (if length (n_okey n) =? 0 then set_okey n kg else n) = K).
    { subst K. unfold eff_key. destruct (length (n_okey n) =? 0); reflexivity. }
    rewrite Hk1. rewrite Hfb. rewrite <- HE, <- HI.
    rewrite (pad_to_short 32 K) by lia. rewrite Hkey, Nat.sub_diag. cbn [repeat]. rewrite app_nil_r.
    subst body Rb. now rewrite <- !app_assoc. }
  assert (Hbl : 64 <= length body).
  { subst body. rewrite !app_length. cbn [length]. lia. }
  exists (obfuscate K body). split; [exact Hm|]. split; [now rewrite obfuscate_length|]. intros m.
  unfold unmarshal. rewrite obfuscate_length.
  assert (E64 : (length body <? 64) = false) by (apply Nat.ltb_ge; exact Hbl). rewrite E64.
  rewrite obfuscate_firstn by lia.
  assert (HfK : firstn 32 body = K) by (subst body; now apply firstn_app_len).
  rewrite HfK. rewrite obfuscate_invol by lia.
  assert (Hvh : firstn 31 (skipn 32 body) = v02hash).
  { subst body. rewrite (skipn_app_len 32 K _ Hkey). now apply firstn_app_len. }
  rewrite Hvh, v02_not_v01, list_eqb_N_refl. cbn [orb negb].
  assert (H63 : nth 63 body 0%N = Rb).
  { subst body. rewrite app_assoc. cbn [app].
    assert (H63' : 63 = length (K ++ v02hash)) by (rewrite app_length; lia).
    rewrite H63' at 1. apply nth_app_exact. }
  rewrite H63. subst Rb. rewrite Nat2N.id, (Nat.mod_small (n_rbs n) 256) by lia.
  assert (Hs1 : slice body 64 (64 + n_rbs n) = Some E).
  { assert (Hb : body = (K ++ v02hash ++ [N.of_nat (n_rbs n mod 256)]) ++ E ++ I ++ fb)
      by (subst body; now rewrite <- !app_assoc).
    rewrite Hb. apply slice_mid'; [rewrite !app_length; cbn [length]; lia | lia]. }
  rewrite Hs1.
  assert (Hs2 : slice body (64 + n_rbs n) (64 + n_rbs n + 32) = Some I).
  { assert (Hb : body = (K ++ v02hash ++ [N.of_nat (n_rbs n mod 256)] ++ E) ++ I ++ fb)
      by (subst body; now rewrite <- !app_assoc).
    rewrite Hb. apply slice_mid'; [rewrite !app_length; cbn [length]; lia | lia]. }
  rewrite Hs2.
  assert (Hik : index_keys I = map (fun kf => N.to_nat (fst kf)) fs).
  { subst I. rewrite index_roundtrip.
    - now rewrite map_map.
    - exact Hs.
    - rewrite Forall_forall in *. intros k Hk. apply in_map_iff in Hk as [kf [<- Hin]].
      destruct (Hall kf Hin) as [[_ [_ [_ [Hlt _]]]] _]. exact Hlt. }
  rewrite Hik.
  assert (Hpf : parse_forks true body (n_rbs n) (map (fun kf => N.to_nat (fst kf)) fs) (64 + n_rbs n + 32) [] =
                (map stub_fork fs, None)).
  { assert (Hb : body = (K ++ v02hash ++ [N.of_nat (n_rbs n mod 256)] ++ E ++ I) ++ fb ++ [])
      by (subst body; rewrite app_nil_r; now rewrite <- !app_assoc).
    rewrite Hb.
    assert (Hoff : 64 + n_rbs n + 32 = length (K ++ v02hash ++ [N.of_nat (n_rbs n mod 256)] ++ E ++ I)) by (rewrite !app_length; cbn [length]; lia).
    rewrite Hoff.
    rewrite (parse_forks_ok (n_rbs n) fs _ [] [] fb Hrbs Hall Hfb). reflexivity. }
  rewrite Hpf. unfold unmarshalled. rewrite <- HK, <- HE, <- HI. reflexivity.
Qed.
