(** C10 — the byte codec: [UnmarshalBinary (MarshalBinary n)] gives back the forks of [n]
    as references (key, prefix, node type, reference, metadata), the padded entry and
    the obfuscation key. *)
From Coq Require Import List NArith Bool Arith Lia Sorted.
Import ListNotations.
Require Import Aurora.C10.Model Aurora.C10.Spec Aurora.C10.Basics Aurora.C10.Trie.

(** ---- JSON fragment ---- *)
Lemma safe_char_not_quote : forall c, safe_char c = true -> (c =? 34)%N = false.
Proof.
  intros c H. unfold safe_char in H. repeat (apply andb_true_iff in H as [H ?]).
  now apply negb_true_iff.
Qed.

Lemma read_str_ok : forall s rest, safe_str s = true -> read_str (s ++ 34%N :: rest) = Some (s, rest).
Proof.
  induction s as [|c s IH]; intros rest H; simpl in *; [reflexivity|].
  apply andb_true_iff in H as [Hc Hs]. rewrite (safe_char_not_quote c Hc), Hc, (IH rest Hs). reflexivity.
Qed.

Lemma read_qstr_ok : forall s rest, safe_str s = true -> read_qstr (json_str s ++ rest) = Some (s, rest).
Proof.
  intros s rest H. unfold json_str, read_qstr. cbn [app]. cbn [N.eqb Pos.eqb].
  rewrite <- app_assoc. cbn [app]. now apply read_str_ok.
Qed.

Lemma json_kv_read : forall kv rest, safe_str (fst kv) = true -> safe_str (snd kv) = true ->
  exists mid, read_qstr (json_kv kv ++ rest) = Some (fst kv, 58%N :: mid) /\ read_qstr mid = Some (snd kv, rest).
Proof.
  intros [k v] rest Hk Hv. cbn [fst snd] in *. exists (json_str v ++ rest). split.
  - unfold json_kv. cbn [fst snd]. rewrite <- app_assoc. rewrite read_qstr_ok by assumption.
    now rewrite <- app_assoc.
  - now apply read_qstr_ok.
Qed.

Lemma json_pairs_cons2 : forall kv kv2 m, json_pairs (kv :: kv2 :: m) = json_kv kv ++ [44%N] ++ json_pairs (kv2 :: m).
Proof. reflexivity. Qed.

Lemma json_dec_pairs_ok : forall m fuel tail, m <> [] -> meta_safe m = true -> all_newlines tail = true ->
  length m <= fuel -> json_dec_pairs fuel (json_pairs m ++ 125%N :: tail) = Some m.
Proof.
  induction m as [|kv m IH]; intros fuel tail Hne Hs Ht Hf; [contradiction|].
  destruct fuel as [|fuel]; [simpl in Hf; lia|].
  cbn [meta_safe forallb] in Hs. apply andb_true_iff in Hs as [Hkv Hs]. apply andb_true_iff in Hkv as [Hk Hv].
  destruct m as [|kv2 m].
  - cbn [json_pairs json_dec_pairs].
    destruct (json_kv_read kv (125%N :: tail) Hk Hv) as [mid [H1 H2]].
    rewrite H1. cbn [N.eqb Pos.eqb]. rewrite H2. cbn [N.eqb Pos.eqb]. rewrite Ht. now destruct kv.
  - rewrite json_pairs_cons2. cbn [json_dec_pairs]. rewrite <- !app_assoc.
    destruct (json_kv_read kv ([44%N] ++ json_pairs (kv2 :: m) ++ 125%N :: tail) Hk Hv) as [mid [H1 H2]].
    rewrite H1. cbn [N.eqb Pos.eqb]. rewrite H2. cbn [app N.eqb Pos.eqb].
    rewrite IH; [now destruct kv | discriminate | exact Hs | exact Ht | simpl in *; lia].
Qed.

Lemma all_newlines_repeat : forall n, all_newlines (repeat 10%N n) = true.
Proof. induction n; simpl; auto. Qed.

Lemma json_pairs_hd : forall kv m, exists t, json_pairs (kv :: m) = 34%N :: t.
Proof. intros kv m. destruct m; cbn [json_pairs]; unfold json_kv, json_str; cbn [app]; eauto. Qed.

Lemma json_pairs_length : forall m, length m <= length (json_pairs m).
Proof.
  induction m as [|kv m IH]; [simpl; lia|]. destruct m as [|kv2 m].
  - cbn [json_pairs]. unfold json_kv, json_str. rewrite !app_length. simpl. lia.
  - rewrite json_pairs_cons2. rewrite !app_length. cbn [length] in *. lia.
Qed.

Lemma pad_json_shape : forall j, exists n, pad_json j = j ++ repeat 10%N n.
Proof.
  intros j. unfold pad_json. destruct (length j + 2 <? 32); [eauto|].
  destruct (32 <? length j + 2); [eauto|]. exists 0. simpl. now rewrite app_nil_r.
Qed.

Lemma json_roundtrip : forall m, m <> [] -> meta_safe m = true -> json_dec (pad_json (json_enc m)) = Some m.
Proof.
  intros m Hne Hs. destruct (pad_json_shape (json_enc m)) as [n ->]. unfold json_enc.
  destruct m as [|kv m]; [contradiction|]. destruct (json_pairs_hd kv m) as [t Ht].
  cbn [app]. rewrite <- app_assoc. cbn [app]. rewrite Ht. cbn [app]. unfold json_dec. cbn [N.eqb Pos.eqb].
  change (34%N :: t ++ 125%N :: repeat 10%N n) with ((34%N :: t) ++ 125%N :: repeat 10%N n). rewrite <- Ht.
  apply json_dec_pairs_ok; auto; [discriminate | apply all_newlines_repeat |].
  pose proof (json_pairs_length (kv :: m)). cbn [length] in *. rewrite !app_length. cbn [length]. lia.
Qed.

Lemma pad_json_nonempty : forall m, 0 < length (pad_json (json_enc m)).
Proof. intros m. destruct (pad_json_shape (json_enc m)) as [n ->]. unfold json_enc. rewrite app_length. simpl. lia. Qed.

(** ---- XOR obfuscation is an involution ---- *)
Lemma xor_at_invol : forall key l j, xor_at key j (xor_at key j l) = l.
Proof.
  intros key. induction l as [|x l IH]; intros j; simpl; [reflexivity|].
  rewrite IH. f_equal. rewrite N.lxor_assoc, N.lxor_nilpotent. apply N.lxor_0_r.
Qed.
Lemma xor_at_length : forall key l j, length (xor_at key j l) = length l.
Proof. intros key. induction l; intros j; simpl; auto. Qed.

Lemma obfuscate_invol : forall key d, 32 <= length d -> obfuscate key (obfuscate key d) = d.
Proof.
  intros key d H. unfold obfuscate.
  assert (Hl : length (firstn 32 d) = 32) by (rewrite firstn_length; lia).
  rewrite <- Hl at 1 3. rewrite firstn_app_exact, skipn_app_exact, xor_at_invol. apply firstn_skipn.
Qed.
Lemma obfuscate_length : forall key d, length (obfuscate key d) = length d.
Proof.
  intros key d. unfold obfuscate. rewrite app_length, xor_at_length, <- app_length. now rewrite firstn_skipn.
Qed.
Lemma obfuscate_firstn : forall key d, 32 <= length d -> firstn 32 (obfuscate key d) = firstn 32 d.
Proof.
  intros key d H. unfold obfuscate.
  assert (Hl : length (firstn 32 d) = 32) by (rewrite firstn_length; lia).
  rewrite <- Hl at 1. apply firstn_app_exact.
Qed.

(** ---- the 256-bit fork index ---- *)
Lemma index_byte_testbit : forall keys j b acc, (b < 8)%N ->
  N.testbit (fold_left (fun acc k => if (k / 8 =? j)%N then N.lor acc (N.shiftl 1 (k mod 8)) else acc) keys acc) b =
  N.testbit acc b || existsb (fun k => (k / 8 =? j)%N && (k mod 8 =? b)%N) keys.
Proof.
  induction keys as [|k keys IH]; intros j b acc Hb; simpl; [now rewrite orb_false_r|].
  rewrite IH by assumption. destruct (k / 8 =? j)%N; simpl; [|reflexivity].
  rewrite N.lor_spec, N.shiftl_1_l, N.pow2_bits_eqb. now rewrite orb_assoc.
Qed.

Lemma get_bit_index_of : forall keys i, i < 256 ->
  get_bit (index_of keys) i = existsb (fun k => (k =? N.of_nat i)%N) keys.
Proof.
  intros keys i Hi. unfold get_bit, index_of.
  assert (Hi8 : i / 8 < 32) by (apply Nat.div_lt_upper_bound; lia).
  rewrite (nth_indep _ 0%N (index_byte keys (N.of_nat 0))) by (rewrite map_length, seq_length; exact Hi8).
  rewrite (map_nth (fun j => index_byte keys (N.of_nat j))). rewrite seq_nth by exact Hi8. cbn [plus].
  unfold index_byte. rewrite index_byte_testbit.
  2:{ pose proof (Nat.mod_upper_bound i 8). lia. }
  cbn [N.testbit orb]. replace (N.testbit 0 (N.of_nat (i mod 8))) with false by (symmetry; apply N.bits_0).
  cbn [orb]. clear Hi8. induction keys as [|k keys IH]; simpl; [reflexivity|]. rewrite IH. f_equal.
  destruct (k =? N.of_nat i)%N eqn:E.
  - apply N.eqb_eq in E. subst k. apply andb_true_iff. split; apply N.eqb_eq.
    + change 8%N with (N.of_nat 8). now rewrite <- Nat2N.inj_div.
    + change 8%N with (N.of_nat 8). now rewrite <- Nat2N.inj_mod.
  - apply andb_false_iff. destruct (k / 8 =? N.of_nat (i / 8))%N eqn:E1; [|now left]. right.
    apply N.eqb_neq. intros E2. apply N.eqb_eq in E1. apply N.eqb_neq in E. apply E.
    rewrite (N.div_mod k 8) by discriminate. rewrite E1, E2.
    change 8%N with (N.of_nat 8). rewrite <- Nat2N.inj_mul, <- Nat2N.inj_add. f_equal.
    symmetry. apply Nat.div_mod. discriminate.
Qed.

(** filtering a range by membership in a strictly sorted list inside the range gives the list *)
Lemma filter_sorted_range : forall n a (ks : list nat),
  StronglySorted lt ks -> Forall (fun k => a <= k < a + n) ks ->
  filter (fun i => existsb (Nat.eqb i) ks) (seq a n) = ks.
Proof.
  induction n as [|n IH]; intros a ks Hs Hr.
  - destruct ks as [|k ks]; [reflexivity|]. inversion Hr; subst. lia.
  - cbn [seq filter]. destruct ks as [|k ks].
    + cbn [existsb]. rewrite (IH (S a) []); [reflexivity | constructor | constructor].
    + inversion Hs as [|? ? Hs' Hall]; subst. inversion Hr as [|? ? Hk Hr']; subst.
      cbn [existsb]. destruct (Nat.eqb a k) eqn:E.
      * apply Nat.eqb_eq in E. subst k. cbn [orb]. f_equal.
        rewrite <- (IH (S a) ks Hs') at 2.
        -- apply filter_ext_in. intros i Hi. apply in_seq in Hi.
           destruct (Nat.eqb i a) eqn:E2; [apply Nat.eqb_eq in E2; lia | reflexivity].
        -- rewrite Forall_forall in *. intros x Hx. specialize (Hall x Hx). specialize (Hr' x Hx). lia.
      * apply Nat.eqb_neq in E. cbn [orb].
        assert (Hna : existsb (Nat.eqb a) ks = false).
        { apply not_true_is_false. intros H. apply existsb_exists in H as [x [Hx Hax]]. apply Nat.eqb_eq in Hax. subst x.
          rewrite Forall_forall in Hall. specialize (Hall a Hx). lia. }
        rewrite Hna. apply (IH (S a) (k :: ks)); [now constructor|].
        constructor; [lia|]. rewrite Forall_forall in *. intros x Hx. specialize (Hall x Hx). specialize (Hr' x Hx). lia.
Qed.

Lemma index_roundtrip : forall keys, StronglySorted N.lt keys -> Forall (fun k => (k < 256)%N) keys ->
  index_keys (index_of keys) = map N.to_nat keys.
Proof.
  intros keys Hs Hb. unfold index_keys.
  rewrite (filter_ext_in _ (fun i => existsb (Nat.eqb i) (map N.to_nat keys))).
  - apply (filter_sorted_range 256 0).
    + clear Hb. induction Hs as [|k ks Hs IH Hall]; [constructor|]. cbn [map]. constructor; [exact IH|].
      rewrite Forall_forall in *. intros x Hx. apply in_map_iff in Hx as [y [<- Hy]]. specialize (Hall y Hy). lia.
    + rewrite Forall_forall in *. intros x Hx. apply in_map_iff in Hx as [y [<- Hy]]. specialize (Hb y Hy). lia.
  - intros i Hi. apply in_seq in Hi. rewrite get_bit_index_of by lia.
    clear. induction keys as [|k keys IH]; [reflexivity|]. cbn [existsb map]. rewrite IH. f_equal.
    destruct (k =? N.of_nat i)%N eqn:E.
    + apply N.eqb_eq in E. subst k. rewrite Nat2N.id. symmetry. apply Nat.eqb_refl.
    + symmetry. apply Nat.eqb_neq. intros ->. rewrite N2Nat.id, N.eqb_refl in E. discriminate.
Qed.

Lemma index_of_length : forall keys, length (index_of keys) = 32.
Proof. intros. unfold index_of. now rewrite map_length, seq_length. Qed.
