(** C10 — basic lemmas: byte lists, prefixes, the fork association list, type flags. *)
From Coq Require Import List NArith Bool Arith Lia Sorted.
Import ListNotations.
Require Import Aurora.C10.Model.

(** ---- list_eqb_N ---- *)
Lemma list_eqb_N_eq : forall a b, list_eqb_N a b = true <-> a = b.
Proof.
  induction a as [|x a IH]; intros [|y b]; simpl; split; intros H; try reflexivity; try discriminate.
  - apply andb_true_iff in H as [H1 H2]. apply N.eqb_eq in H1. apply IH in H2. now subst.
  - inversion H; subst. rewrite N.eqb_refl. simpl. now apply IH.
Qed.
Lemma list_eqb_N_refl : forall a, list_eqb_N a a = true.
Proof. intros a. now apply list_eqb_N_eq. Qed.
Lemma list_eqb_N_neq : forall a b, a <> b -> list_eqb_N a b = false.
Proof. intros a b H. destruct (list_eqb_N a b) eqn:E; [|reflexivity]. apply list_eqb_N_eq in E. contradiction. Qed.
Lemma list_eqb_N_dec : forall a b : list N, {a = b} + {a <> b}.
Proof. intros a b. destruct (list_eqb_N a b) eqn:E; [left; now apply list_eqb_N_eq | right; intros H; apply list_eqb_N_eq in H; congruence]. Qed.

(** ---- is_prefix / common ---- *)
Lemma is_prefix_app : forall a c, is_prefix a (a ++ c) = true.
Proof. induction a as [|x a IH]; intros c; simpl; [reflexivity|]. now rewrite N.eqb_refl, IH. Qed.
Lemma is_prefix_spec : forall a b, is_prefix a b = true -> b = a ++ skipn (length a) b.
Proof.
  induction a as [|x a IH]; intros b H; simpl in *; [reflexivity|].
  destruct b as [|y b]; [discriminate|]. apply andb_true_iff in H as [H1 H2]. apply N.eqb_eq in H1. subst.
  simpl. f_equal. now apply IH.
Qed.
Lemma is_prefix_iff : forall a b, is_prefix a b = true <-> exists c, b = a ++ c.
Proof.
  intros a b; split.
  - intros H. eexists. now apply is_prefix_spec.
  - intros [c ->]. apply is_prefix_app.
Qed.
Lemma is_prefix_length : forall a b, is_prefix a b = true -> length a <= length b.
Proof. intros a b H. apply is_prefix_spec in H. rewrite H, app_length. lia. Qed.
Lemma is_prefix_refl : forall a, is_prefix a a = true.
Proof. intros a. rewrite <- (app_nil_r a) at 2. apply is_prefix_app. Qed.
Lemma is_prefix_nil_r : forall a, is_prefix a [] = true -> a = [].
Proof. intros [|x a]; simpl; [reflexivity|discriminate]. Qed.
Lemma is_prefix_app_l : forall a b c, is_prefix (a ++ b) c = is_prefix a c && is_prefix b (skipn (length a) c).
Proof.
  induction a as [|x a IH]; intros b c; simpl; [reflexivity|].
  destruct c as [|y c]; simpl; [reflexivity|]. rewrite IH. now rewrite andb_assoc.
Qed.
Lemma is_prefix_trans : forall a b c, is_prefix a b = true -> is_prefix b c = true -> is_prefix a c = true.
Proof.
  intros a b c H1 H2. apply is_prefix_iff in H1 as [x ->]. apply is_prefix_iff in H2 as [y ->].
  rewrite <- app_assoc. apply is_prefix_app.
Qed.

Lemma common_prefix_l : forall a b, a = common a b ++ skipn (length (common a b)) a.
Proof.
  induction a as [|x a IH]; intros b; simpl; [reflexivity|].
  destruct b as [|y b]; [reflexivity|]. destruct (N.eqb x y) eqn:E; simpl; [|reflexivity]. f_equal. apply IH.
Qed.
Lemma common_prefix_r : forall a b, b = common a b ++ skipn (length (common a b)) b.
Proof.
  induction a as [|x a IH]; intros b; simpl; [reflexivity|].
  destruct b as [|y b]; [reflexivity|]. destruct (N.eqb x y) eqn:E; simpl; [|reflexivity].
  apply N.eqb_eq in E. subst. f_equal. apply IH.
Qed.
Lemma common_is_prefix_l : forall a b, is_prefix (common a b) a = true.
Proof. intros a b. rewrite (common_prefix_l a b) at 2. apply is_prefix_app. Qed.
Lemma common_is_prefix_r : forall a b, is_prefix (common a b) b = true.
Proof. intros a b. rewrite (common_prefix_r a b) at 2. apply is_prefix_app. Qed.
(** the common prefix is maximal: the two remainders do not start with the same byte *)
Lemma common_maximal : forall a b x ra y rb,
  skipn (length (common a b)) a = x :: ra -> skipn (length (common a b)) b = y :: rb -> x <> y.
Proof.
  induction a as [|u a IH]; intros b x ra y rb Ha Hb; simpl in *; [discriminate|].
  destruct b as [|v b]; [simpl in Hb; discriminate|].
  destruct (N.eqb u v) eqn:E; simpl in *.
  - eapply IH; eassumption.
  - inversion Ha; inversion Hb; subst. intros ->. rewrite N.eqb_refl in E. discriminate.
Qed.
Lemma common_full_iff : forall a b, (length (common a b) =? length a)%nat = is_prefix a b.
Proof.
  induction a as [|x a IH]; intros b; simpl; [reflexivity|].
  destruct b as [|y b]; simpl; [reflexivity|].
  destruct (N.eqb x y); simpl; [apply IH | reflexivity].
Qed.
Lemma common_length_le : forall a b, length (common a b) <= length a /\ length (common a b) <= length b.
Proof.
  induction a as [|x a IH]; intros b; simpl; [lia|].
  destruct b as [|y b]; simpl; [lia|]. destruct (N.eqb x y); simpl; [|lia]. specialize (IH b). lia.
Qed.
Lemma common_hd : forall x a y b, x = y -> common (x :: a) (y :: b) = x :: common a b.
Proof. intros x a y b ->. simpl. now rewrite N.eqb_refl. Qed.

Lemma skipn_skipn : forall {A} (n m : nat) (l : list A), skipn n (skipn m l) = skipn (m + n) l.
Proof. intros A n m. induction m as [|m IH]; intros l; simpl; [reflexivity|]. destruct l; [now rewrite skipn_nil | apply IH]. Qed.
Lemma skipn_app_exact : forall {A} (a b : list A), skipn (length a) (a ++ b) = b.
Proof. intros A a b. induction a; simpl; auto. Qed.
Lemma firstn_app_exact : forall {A} (a b : list A), firstn (length a) (a ++ b) = a.
Proof. intros A a b. induction a; simpl; [reflexivity | now f_equal]. Qed.

(** ---- fork association list ---- *)
Lemma fget_fset : forall fs k v k', fget (fset fs k v) k' = if N.eqb k' k then Some v else fget fs k'.
Proof.
  induction fs as [|[k0 v0] fs IH]; intros k v k'; simpl.
  - destruct (N.eqb k' k); reflexivity.
  - destruct (N.eqb k k0) eqn:E0.
    + apply N.eqb_eq in E0. subst. simpl. destruct (N.eqb k' k0); reflexivity.
    + destruct (N.ltb k k0); simpl.
      * destruct (N.eqb k' k); reflexivity.
      * rewrite IH. destruct (N.eqb k' k0) eqn:E1; [|reflexivity].
        destruct (N.eqb k' k) eqn:E2; [|reflexivity].
        apply N.eqb_eq in E1, E2. subst. rewrite N.eqb_refl in E0. discriminate.
Qed.

Definition keys_sorted (fs : forks_t) : Prop := StronglySorted N.lt (map fst fs).

Lemma fget_none_sorted : forall fs k, keys_sorted fs -> Forall (fun k' => (k < k')%N) (map fst fs) -> fget fs k = None.
Proof.
  induction fs as [|[k0 v0] fs IH]; intros k Hs Hf; simpl; [reflexivity|].
  inversion Hf; subst. simpl in *. destruct (N.eqb k k0) eqn:E; [apply N.eqb_eq in E; lia|].
  apply IH; [now inversion Hs | assumption].
Qed.

Lemma fset_same : forall fs k v, keys_sorted fs -> fget fs k = Some v -> fset fs k v = fs.
Proof.
  induction fs as [|[k0 v0] fs IH]; intros k v Hs Hg; simpl in *; [discriminate|].
  destruct (N.eqb k k0) eqn:E.
  - apply N.eqb_eq in E. inversion Hg; subst. reflexivity.
  - inversion Hs as [|? ? Hs' Hall]; subst.
    destruct (N.ltb k k0) eqn:L.
    + apply N.ltb_lt in L. rewrite fget_none_sorted in Hg; [discriminate | assumption |].
      simpl in Hall. eapply Forall_impl; [|exact Hall]. intros a Ha. simpl in Ha. lia.
    + f_equal. now apply IH.
Qed.

Lemma fset_keys : forall fs k v k', In k' (map fst (fset fs k v)) <-> k' = k \/ In k' (map fst fs).
Proof.
  induction fs as [|[k0 v0] fs IH]; intros k v k'; simpl; [intuition congruence|].
  destruct (N.eqb k k0) eqn:E.
  - apply N.eqb_eq in E. subst. simpl. intuition congruence.
  - destruct (N.ltb k k0); simpl; [intuition congruence|]. rewrite IH. intuition congruence.
Qed.

Lemma fset_sorted : forall fs k v, keys_sorted fs -> keys_sorted (fset fs k v).
Proof.
  unfold keys_sorted. induction fs as [|[k0 v0] fs IH]; intros k v Hs; simpl.
  - constructor; constructor.
  - inversion Hs as [|? ? Hs' Hall]; subst. destruct (N.eqb k k0) eqn:E.
    + apply N.eqb_eq in E. subst. simpl. now constructor.
    + destruct (N.ltb k k0) eqn:L; simpl.
      * apply N.ltb_lt in L. constructor; [assumption|]. constructor; [assumption|].
        simpl in Hall. eapply Forall_impl; [|exact Hall]. intros a Ha. simpl in Ha. lia.
      * constructor; [now apply IH|]. apply Forall_forall. intros x Hx. apply fset_keys in Hx as [->|Hx].
        -- apply N.ltb_ge in L. apply N.eqb_neq in E. lia.
        -- rewrite Forall_forall in Hall. now apply Hall.
Qed.

Lemma fset_In : forall fs k v x, In x (fset fs k v) -> x = (k, v) \/ In x fs.
Proof.
  induction fs as [|[k0 v0] fs IH]; intros k v x H; simpl in *.
  - destruct H as [<-|[]]. now left.
  - destruct (N.eqb k k0); [destruct H as [<-|H]; auto|].
    destruct (N.ltb k k0); [destruct H as [<-|H]; auto|].
    destruct H as [<-|H]; [auto|]. apply IH in H as [->|H]; auto.
Qed.

Lemma fget_In : forall fs k v, fget fs k = Some v -> In (k, v) fs.
Proof.
  induction fs as [|[k0 v0] fs IH]; intros k v H; simpl in *; [discriminate|].
  destruct (N.eqb k k0) eqn:E; [apply N.eqb_eq in E; inversion H; subst; now left | right; now apply IH].
Qed.

Lemma fget_fdel : forall fs k k', keys_sorted fs -> fget (fdel fs k) k' = if N.eqb k' k then None else fget fs k'.
Proof.
  induction fs as [|[k0 v0] fs IH]; intros k k' Hs; simpl.
  - destruct (N.eqb k' k); reflexivity.
  - inversion Hs as [|? ? Hs' Hall]; subst. destruct (N.eqb k k0) eqn:E0.
    + apply N.eqb_eq in E0. subst. destruct (N.eqb k' k0) eqn:E1; [|reflexivity].
      apply N.eqb_eq in E1. subst. apply fget_none_sorted; assumption.
    + simpl. rewrite IH by assumption. destruct (N.eqb k' k0) eqn:E1; [|reflexivity].
      destruct (N.eqb k' k) eqn:E2; [|reflexivity]. apply N.eqb_eq in E1, E2. subst. rewrite N.eqb_refl in E0. discriminate.
Qed.
Lemma fdel_In : forall fs k x, In x (fdel fs k) -> In x fs.
Proof.
  induction fs as [|[k0 v0] fs IH]; intros k x H; simpl in *; [assumption|].
  destruct (N.eqb k k0); [now right|]. destruct H as [<-|H]; [now left | right; eapply IH; eassumption].
Qed.
Lemma fdel_sorted : forall fs k, keys_sorted fs -> keys_sorted (fdel fs k).
Proof.
  unfold keys_sorted. induction fs as [|[k0 v0] fs IH]; intros k Hs; simpl; [constructor|].
  inversion Hs as [|? ? Hs' Hall]; subst. destruct (N.eqb k k0); [assumption|]. simpl. constructor; [now apply IH|].
  apply Forall_forall. intros x Hx. apply in_map_iff in Hx as [[k1 v1] [<- Hin]]. apply fdel_In in Hin.
  rewrite Forall_forall in Hall. apply Hall. apply in_map_iff. now exists (k1, v1).
Qed.

(** ---- type flags ---- *)
Lemma is_value_mk_value : forall t, is_value (mk_value t) = true.
Proof. intros. unfold is_value, mk_value. apply N.setbit_eq. Qed.
Lemma is_value_mk_edge : forall t, is_value (mk_edge t) = is_value t.
Proof. intros. unfold is_value, mk_edge. apply N.setbit_neq. discriminate. Qed.
Lemma is_value_mk_pathsep : forall t, is_value (mk_pathsep t) = is_value t.
Proof. intros. unfold is_value, mk_pathsep. apply N.setbit_neq. discriminate. Qed.
Lemma is_value_mk_not_pathsep : forall t, is_value (mk_not_pathsep t) = is_value t.
Proof. intros. unfold is_value, mk_not_pathsep. apply N.clearbit_neq. discriminate. Qed.
Lemma is_value_mk_withmeta : forall t, is_value (mk_withmeta t) = is_value t.
Proof. intros. unfold is_value, mk_withmeta. apply N.setbit_neq. discriminate. Qed.
Lemma is_withmeta_mk_withmeta : forall t, is_withmeta (mk_withmeta t) = true.
Proof. intros. unfold is_withmeta, mk_withmeta. apply N.setbit_eq. Qed.
Lemma is_withmeta_mk_value : forall t, is_withmeta (mk_value t) = is_withmeta t.
Proof. intros. unfold is_withmeta, mk_value. apply N.setbit_neq. discriminate. Qed.
Lemma is_withmeta_mk_edge : forall t, is_withmeta (mk_edge t) = is_withmeta t.
Proof. intros. unfold is_withmeta, mk_edge. apply N.setbit_neq. discriminate. Qed.
Lemma is_withmeta_mk_pathsep : forall t, is_withmeta (mk_pathsep t) = is_withmeta t.
Proof. intros. unfold is_withmeta, mk_pathsep. apply N.setbit_neq. discriminate. Qed.
Lemma is_withmeta_mk_not_pathsep : forall t, is_withmeta (mk_not_pathsep t) = is_withmeta t.
Proof. intros. unfold is_withmeta, mk_not_pathsep. apply N.clearbit_neq. discriminate. Qed.
Lemma is_edge_mk_edge : forall t, is_edge (mk_edge t) = true.
Proof. intros. unfold is_edge, mk_edge. apply N.setbit_eq. Qed.

#[export] Hint Rewrite is_value_mk_value is_value_mk_edge is_value_mk_pathsep is_value_mk_not_pathsep
  is_value_mk_withmeta is_withmeta_mk_withmeta is_withmeta_mk_value is_withmeta_mk_edge
  is_withmeta_mk_pathsep is_withmeta_mk_not_pathsep is_edge_mk_edge : flags.

(** the path-separator update touches only bit 3 *)
Lemma upd_pathsep_value : forall n p, is_value (n_ty (upd_pathsep n p)) = is_value (n_ty n).
Proof. intros n p. unfold upd_pathsep. simpl. destruct (has_sep_after0 p); now autorewrite with flags. Qed.
Lemma upd_pathsep_withmeta : forall n p, is_withmeta (n_ty (upd_pathsep n p)) = is_withmeta (n_ty n).
Proof. intros n p. unfold upd_pathsep. simpl. destruct (has_sep_after0 p); now autorewrite with flags. Qed.
