(** C10 — directory manifests map paths to the last written entry: property theorems.

    Model (Model.v): the mantaray trie of github.com/gauss-project/manifest v0.4.2
    (node.go, marshal.go byte for byte, persist.go), the wrapper pkg/manifest/mantaray.go as
    a state machine over add / remove / lookup / hasPrefix / store / reload, the load-saver
    as a content-addressed store.  [addr] (data -> reference) and [keygen] (the 32 random
    bytes of an obfuscation key) are universally quantified; no injectivity of [addr] is
    assumed: the theorems ask that no two payloads saved in the history collide.

    The full-strength statement (every lookup after every history in the domain returns
    the last written entry) is FALSE for the code: the [_refuted] theorems give one
    history per excluded class (all replayed on the Go code: corpus of harness/cmd/c10;
    the defects are in the dependency, outside /repo).  The [_partial] theorems hold for
    all histories outside those classes ([disciplined] in Spec.v):
      X1  a removed path is a proper prefix of a present path,
      X2  an entry with metadata is overwritten by one with empty metadata,
      X3  add/remove after the first Store (or on a reloaded manifest);
    histories may contain Store(ctx, sizeFn) calls (op [OStoreCb budget]): rejected ones
    (budget below any node size) anywhere in the build phase — they must not change any later
    observation — and arbitrary ones after the first plain Store (cached root);
    domain: non-empty byte paths, 32-byte references, metadata inside the modelled JSON
    fragment and below the 64 KiB fork limit. *)
From Coq Require Import List NArith Bool.
Import ListNotations.
Require Import Aurora.C10.Model Aurora.C10.Spec Aurora.C10.Basics Aurora.C10.Hist Aurora.C10.Refute.

(** after any disciplined history of add/remove/lookup/hasPrefix/store/reload a lookup of any
    path returns exactly the reference and metadata of the final mapping, or not-found *)
Theorem C10_lookup_refines_partial : forall (addr : list N -> list N) (keygen : list N) (enc : bool) (h : list op) (p : path),
  (forall d, length (addr d) = 32) -> length keygen = 32 ->
  disciplined spec_empty false h ->
  no_collision addr (ms_log (final_state addr keygen enc h)) ->
  lookup_obs addr keygen (final_state addr keygen enc h) p = spec_obs (spec_run spec_empty h) p.
Proof. intros addr keygen enc h p Ha Hk. exact (lookup_refines addr keygen Ha Hk enc h p). Qed.
Print Assumptions C10_lookup_refines_partial.

(** prefix queries, the half that holds: every prefix of a present path is reported present *)
Theorem C10_has_prefix_partial : forall (addr : list N -> list N) (keygen : list N) (enc : bool) (h : list op) (p : path),
  (forall d, length (addr d) = 32) -> length keygen = 32 ->
  disciplined spec_empty false h ->
  no_collision addr (ms_log (final_state addr keygen enc h)) ->
  spec_has_prefix (spec_run spec_empty h) p ->
  has_prefix_obs addr keygen (final_state addr keygen enc h) p = BBool true.
Proof. intros addr keygen enc h p Ha Hk. exact (has_prefix_complete addr keygen Ha Hk enc h p). Qed.
Print Assumptions C10_has_prefix_partial.

(** what the full-strength statement would be for one instance *)
Definition full_statement_fails : Prop :=
  exists (addr : list N -> list N) (keygen : list N) (enc : bool) (h : list op) (p : path),
    (forall d, length (addr d) = 32) /\ length keygen = 32 /\ in_domain false h /\
    no_collision addr (ms_log (final_state addr keygen enc h)) /\
    lookup_obs addr keygen (final_state addr keygen enc h) p <> spec_obs (spec_run spec_empty h) p.

Lemma witness : forall h p, wit_ok h -> ~ lookup_agrees h p -> full_statement_fails.
Proof.
  intros h p [Hd Hc] Hn. exists toy_addr, zkey, false, h, p.
  split; [exact toy_addr_len|]. split; [reflexivity|]. split; [exact Hd|]. split; [now apply no_collisionb_ok | exact Hn].
Qed.

(** X1: add a; add ab; remove a — ab is gone (also when a is only a branching point) *)
Theorem C10_remove_prefix_refuted : full_statement_fails.
Proof. exact (witness _ _ (proj1 rm_prefix_wit) (proj2 rm_prefix_wit)). Qed.
Print Assumptions C10_remove_prefix_refuted.

(** X2: add a {k:v}; add a {} — the old metadata stays *)
Theorem C10_overwrite_metadata_refuted : full_statement_fails.
Proof. exact (witness _ _ (proj1 overwrite_wit) (proj2 overwrite_wit)). Qed.
Print Assumptions C10_overwrite_metadata_refuted.

(** X3: add a; add b; store; remove a; store; reload — a is back (no reference invalidation) *)
Theorem C10_mutate_after_store_refuted : full_statement_fails.
Proof. exact (witness _ _ (proj1 rm_after_store_wit) (proj2 rm_after_store_wit)). Qed.
Print Assumptions C10_mutate_after_store_refuted.

(** X3: add a; store; lookup a; add b; store; reload — b is missing *)
Theorem C10_add_after_lookup_refuted : full_statement_fails.
Proof. exact (witness _ _ (proj1 add_after_lookup_wit) (proj2 add_after_lookup_wit)). Qed.
Print Assumptions C10_add_after_lookup_refuted.

(** outside the domain, an entry with the empty reference (as pkg/api writes for "/"): after
    Store the lookup returns 32 zero bytes instead of the empty reference; with only empty
    references in the manifest the lookup after Store panics *)
Theorem C10_empty_reference_refuted :
  (exists h p, no_collision toy_addr (ms_log (final_state toy_addr zkey false h)) /\
     lookup_obs toy_addr zkey (final_state toy_addr zkey false h) p = BFound (repeat 0%N 32) kv /\
     spec_obs (spec_run spec_empty h) p = BFound [] kv) /\
  (exists h p, lookup_obs toy_addr zkey (final_state toy_addr zkey false h) p = BErr EPanic).
Proof.
  split.
  - exists h_empty_ref, [47%N]. destruct empty_ref_wit as [H1 [H2 H3]]. split; [now apply no_collisionb_ok | split; assumption].
  - exists h_only_empty, [97%N]. exact only_empty_wit.
Qed.
Print Assumptions C10_empty_reference_refuted.

(** prefix queries, the half that fails even inside the discipline: after add ab; add ac;
    remove ab; remove ac the query hasPrefix a is true although no path is present *)
Theorem C10_has_prefix_refuted :
  exists h p, disciplined spec_empty false h /\
    no_collision toy_addr (ms_log (final_state toy_addr zkey false h)) /\
    has_prefix_obs toy_addr zkey (final_state toy_addr zkey false h) p = BBool true /\
    ~ spec_has_prefix (spec_run spec_empty h) p.
Proof.
  exists h_has_prefix, [97%N]. destruct has_prefix_wit as [[_ Hc] [Hb Hnone]].
  split; [exact h_has_prefix_disciplined|]. split; [now apply no_collisionb_ok|]. split; [exact Hb|].
  intros [q [v [_ Hq]]]. rewrite Hnone in Hq. discriminate Hq.
Qed.
Print Assumptions C10_has_prefix_refuted.

(** non-vacuity: a history with overwrites, a 40-byte path, nested directories, metadata, a
    leaf removal, rejected Stores (size callback), Store, lookups, reload meets every hypothesis
    of the partial theorems *)
Definition md1 : meta := [([67;116]%N, [116;120;116]%N)].
Definition h_example : list op :=
  [OAdd [47]%N r1 md1; OAdd [105;109;103;47;49]%N r2 md1; OAdd [105;109;103;47;50]%N r3 [];
   OStoreCb 0%N;   (* a Store rejected by its size callback, in the middle of the build phase *)
   OAdd [105;109;103;47;49]%N r3 md1; OAdd (repeat 48%N 40) r1 []; OAdd [105;110]%N r2 []; ORemove [105;110]%N;
   OLookup [47]%N; OStoreCb 63%N; OStore; OLookup [105;109;103;47;49]%N; OReload; OHasPrefix [105;109]%N; OStore; OStoreCb 5%N].
Example C10_hyps_satisfiable :
  (forall d, length (toy_addr d) = 32) /\ length zkey = 32 /\
  no_collision toy_addr (ms_log (final_state toy_addr zkey false h_example)) /\
  lookup_obs toy_addr zkey (final_state toy_addr zkey false h_example) [105;109;103;47;49]%N = BFound r3 md1 /\
  lookup_obs toy_addr zkey (final_state toy_addr zkey false h_example) (repeat 48%N 40) = BFound r1 [] /\
  lookup_obs toy_addr zkey (final_state toy_addr zkey false h_example) [105;110]%N = BErr ENotFound /\
  disciplined spec_empty false h_example /\
  snd (run toy_addr zkey (init_state false) [OAdd [47]%N r1 md1; OStoreCb 0%N]) = [BOk; BErr ESizeFn] /\
  length (ms_log (final_state toy_addr zkey false h_example)) = 8.
Proof.
  split; [exact toy_addr_len|]. split; [reflexivity|]. split; [apply no_collisionb_ok; vm_compute; reflexivity|].
  split; [vm_compute; reflexivity|]. split; [vm_compute; reflexivity|]. split; [vm_compute; reflexivity|].
  split; [|vm_compute; split; reflexivity].
  unfold h_example. cbn [disciplined op_in_domain op_disciplined].
  repeat split; try reflexivity; try discriminate; try (repeat constructor; fail); try (intros; discriminate);
    try (right; reflexivity); try (left; reflexivity).
  intros q [Hq Hl]. unfold spec_step, spec_upd, spec_empty.
  repeat match goal with
  | |- context [list_eqb_N ?a q] =>
      let E := fresh "E" in
      destruct (list_eqb_N a q) eqn:E;
      [apply Basics.list_eqb_N_eq in E; subst q; exfalso;
       first [simpl in Hq; discriminate Hq | simpl in Hl; exact (PeanoNat.Nat.lt_irrefl _ Hl)] |]
  end; reflexivity.
Qed.
