(** C10 — property theorems (placeholder during bring-up). *)
From Coq Require Import List NArith Bool.
Import ListNotations.
Require Import Aurora.C10.Model.

Theorem C10_bringup : forall f p v, spec_upd f p v p = v.
Proof. intros f p v. unfold spec_upd. assert (H : forall l, list_eqb_N l l = true) by (induction l; simpl; [reflexivity | rewrite N.eqb_refl; assumption]). now rewrite H. Qed.
Print Assumptions C10_bringup.
