(** C10 — witnesses: the full-strength statement fails on the model in each excluded
    class.  Each witness history was replayed on the Go code (corpus of the harness). *)
From Coq Require Import List NArith Bool Arith.
Import ListNotations.
From Coq Require Import Lia.
Require Import Aurora.C10.Model Aurora.C10.Spec Aurora.C10.Basics.
Local Open Scope N_scope.

Definition r1 := repeat 1 32.
Definition r2 := repeat 2 32.
Definition r3 := repeat 3 32.
Definition kv : meta := [([107], [118])].
Definition zkey := repeat 0 32.

Lemma toy_addr_len : forall d, length (toy_addr d) = 32%nat.
Proof. intros d. unfold toy_addr. rewrite app_length, repeat_length. reflexivity. Qed.

(** the full-strength lookup statement for one history and one queried path *)
Definition lookup_agrees (h : list op) (p : path) : Prop :=
  lookup_obs toy_addr zkey (final_state toy_addr zkey false h) p = spec_obs (spec_run spec_empty h) p.
Definition wit_ok (h : list op) : Prop :=
  in_domain false h /\ no_collisionb toy_addr (ms_log (final_state toy_addr zkey false h)) = true.

Ltac dom := repeat (split; try reflexivity; try discriminate; try (repeat constructor; fail); try (intros; discriminate)).

(** X1: add a; add ab; remove a; lookup ab *)
Definition h_rm_prefix : list op := [OAdd [97] r1 []; OAdd [97;98] r2 []; ORemove [97]].
Lemma rm_prefix_wit : wit_ok h_rm_prefix /\ ~ lookup_agrees h_rm_prefix [97;98].
Proof. split. - split; [dom | vm_compute; reflexivity]. - unfold lookup_agrees. vm_compute. discriminate. Qed.

(** X1, the removed path is not an entry, only a branching point: add ab; add ac; remove a *)
Definition h_rm_branch : list op := [OAdd [97;98] r1 []; OAdd [97;99] r2 []; ORemove [97]].
Lemma rm_branch_wit : wit_ok h_rm_branch /\ ~ lookup_agrees h_rm_branch [97;98].
Proof. split. - split; [dom | vm_compute; reflexivity]. - unfold lookup_agrees. vm_compute. discriminate. Qed.

(** X2: add a {k:v}; add a {} *)
Definition h_overwrite : list op := [OAdd [97] r1 kv; OAdd [97] r2 []].
Lemma overwrite_wit : wit_ok h_overwrite /\ ~ lookup_agrees h_overwrite [97].
Proof. split. - split; [dom | vm_compute; reflexivity]. - unfold lookup_agrees. vm_compute. discriminate. Qed.

(** X3: add a; add b; store; remove a; store; reload — a is back *)
Definition h_rm_after_store : list op := [OAdd [97] r1 []; OAdd [98] r2 []; OStore; ORemove [97]; OStore; OReload].
Lemma rm_after_store_wit : wit_ok h_rm_after_store /\ ~ lookup_agrees h_rm_after_store [97].
Proof. split. - split; [dom | vm_compute; reflexivity]. - unfold lookup_agrees. vm_compute. discriminate. Qed.

(** X3: add a; store; lookup a; add b; store; reload — b is missing *)
Definition h_add_after_lookup : list op := [OAdd [97] r1 []; OStore; OLookup [97]; OAdd [98] r2 []; OStore; OReload].
Lemma add_after_lookup_wit : wit_ok h_add_after_lookup /\ ~ lookup_agrees h_add_after_lookup [98].
Proof. split. - split; [dom | vm_compute; reflexivity]. - unfold lookup_agrees. vm_compute. discriminate. Qed.

(** X3: add a; add ab; store; add a (overwrite) — ab is gone, and the next Store fails *)
Definition h_overwrite_after_store : list op := [OAdd [97] r1 []; OAdd [97;98] r3 []; OStore; OAdd [97] r2 []].
Lemma overwrite_after_store_wit :
  wit_ok h_overwrite_after_store /\ ~ lookup_agrees h_overwrite_after_store [97;98] /\
  snd (step toy_addr zkey (final_state toy_addr zkey false h_overwrite_after_store) OStore) = BErr EInvalidInput.
Proof. split; [|split]. - split; [dom | vm_compute; reflexivity]. - unfold lookup_agrees. vm_compute. discriminate. - vm_compute. reflexivity. Qed.

(** outside the domain (empty reference): the entry comes back as 32 zero bytes after Store *)
Definition h_empty_ref : list op := [OAdd [97] r1 []; OAdd [47] [] kv; OStore].
Lemma empty_ref_wit :
  no_collisionb toy_addr (ms_log (final_state toy_addr zkey false h_empty_ref)) = true /\
  lookup_obs toy_addr zkey (final_state toy_addr zkey false h_empty_ref) [47] = BFound (repeat 0 32) kv /\
  spec_obs (spec_run spec_empty h_empty_ref) [47] = BFound [] kv.
Proof. vm_compute. repeat split; reflexivity. Qed.

(** only empty references: the lookup after Store panics (slice bounds in UnmarshalBinary) *)
Definition h_only_empty : list op := [OAdd [97] [] kv; OAdd [97;98] [] kv; OStore].
Lemma only_empty_wit :
  lookup_obs toy_addr zkey (final_state toy_addr zkey false h_only_empty) [97] = BErr EPanic.
Proof. vm_compute. reflexivity. Qed.

(** prefix query: add ab; add ac; remove ab; remove ac — inside the discipline, yet hasPrefix a = true *)
Definition h_has_prefix : list op := [OAdd [97;98] r1 []; OAdd [97;99] r2 []; ORemove [97;98]; ORemove [97;99]].
Lemma has_prefix_wit :
  wit_ok h_has_prefix /\
  has_prefix_obs toy_addr zkey (final_state toy_addr zkey false h_has_prefix) [97] = BBool true /\
  forall q, spec_run spec_empty h_has_prefix q = None.
Proof.
  split; [|split]. - split; [dom | vm_compute; reflexivity]. - vm_compute. reflexivity.
  - intros q. unfold h_has_prefix, spec_run. cbn [fold_left spec_step]. unfold spec_upd, spec_empty.
    destruct (list_eqb_N [97;99] q); [reflexivity|]. destruct (list_eqb_N [97;98] q); [reflexivity|].
    destruct (list_eqb_N [97;99] q); [reflexivity|]. destruct (list_eqb_N [97;98] q); reflexivity.
Qed.

Lemma no_collisionb_ok : forall addr log, no_collisionb addr log = true -> no_collision addr log.
Proof.
  intros addr log H d1 d2 H1 H2 Heq. unfold no_collisionb in H. rewrite forallb_forall in H.
  specialize (H d1 H1). rewrite forallb_forall in H. specialize (H d2 H2).
  rewrite Heq in H. assert (Hr : forall a, list_eqb_N a a = true) by (induction a; simpl; [reflexivity | now rewrite N.eqb_refl]).
  rewrite Hr in H. simpl in H. clear - H. revert d2 H. induction d1 as [|x d1 IH]; intros [|y d2] H; simpl in H; try discriminate; [reflexivity|].
  apply andb_true_iff in H as [H1 H2]. apply N.eqb_eq in H1. subst. f_equal. now apply IH.
Qed.

Lemma h_has_prefix_disciplined : disciplined spec_empty false h_has_prefix.
Proof.
  unfold h_has_prefix. cbn [disciplined op_in_domain op_disciplined].
  split; [dom|]. split; [split; [reflexivity | intros _ e' m' H; discriminate H]|].
  split; [dom|]. split; [split; [reflexivity | intros _ e' m' H; unfold spec_step, spec_upd, spec_empty in H; simpl in H; discriminate H]|].
  split; [exact I|]. split.
  { split; [reflexivity|]. intros q [Hq Hl]. unfold spec_step, spec_upd, spec_empty.
    destruct (list_eqb_N [97; 99] q) eqn:E1.
    - apply list_eqb_N_eq in E1. subst q. simpl in Hq. discriminate Hq.
    - destruct (list_eqb_N [97; 98] q) eqn:E2; [|reflexivity]. apply list_eqb_N_eq in E2. subst q. simpl in Hl. lia. }
  split; [exact I|]. split; [|exact I].
  split; [reflexivity|]. intros q [Hq Hl]. unfold spec_step, spec_upd, spec_empty.
  destruct (list_eqb_N [97; 98] q) eqn:E2; [reflexivity|].
  destruct (list_eqb_N [97; 99] q) eqn:E1; [|reflexivity].
  apply list_eqb_N_eq in E1. subst q. simpl in Hl. lia.
Qed.
