(** C10 — histories: the build phase (Build.v), the first Store, and the read-only phase
    over the stored manifest (lookups and prefix queries load nodes lazily, further
    Stores return the cached root reference, a reload starts from the root reference). *)
From Coq Require Import List NArith Bool Arith Lia Sorted.
Import ListNotations.
Require Import Aurora.C10.Model Aurora.C10.Spec Aurora.C10.Basics Aurora.C10.Trie Aurora.C10.Build
               Aurora.C10.Codec Aurora.C10.Persist.

Lemma lk_node_ok : forall f t p y, tree_ok t -> p <> [] -> lk f t p = Some y -> n_rbs y = 32 /\ local_ok y.
Proof.
  induction f as [|f IH]; intros t p y Hok Hne H.
  - destruct p; [contradiction | discriminate H].
  - destruct p as [|b p]; [contradiction|]. cbn [lk] in H.
    destruct (tree_ok_inv t Hok) as [fs [Hfs [_ [Hs Hall]]]]. unfold forks_get in H. rewrite Hfs in H.
    destruct (fget fs b) as [[pre c]|] eqn:Hg; [|discriminate H].
    destruct (Hall b pre c Hg) as [_ [Hr [Hl Hc]]].
    destruct pre as [|x pre]; [discriminate H|].
    destruct (is_prefix (x :: pre) (b :: p)); [|discriminate H].
    destruct (skipn (S (length pre)) (b :: p)) as [|y0 q] eqn:Hsk.
    + destruct f; simpl in H; inversion H; subst; auto.
    + apply (IH c (y0 :: q) y Hc); [discriminate | exact H].
Qed.

Lemma pad_to_id : forall n l, length l = n -> pad_to n l = l.
Proof. intros n l H. rewrite pad_to_short by lia. rewrite H, Nat.sub_diag. simpl. apply app_nil_r. Qed.

Lemma height_pos : forall n, 1 <= height n.
Proof. intros [? ? ? ? ? ? [l|]]; simpl; lia. Qed.

Lemma no_collision_app : forall addr L new, no_collision addr (L ++ new) -> no_collision addr L.
Proof. intros addr L new H d1 d2 H1 H2. apply H; apply in_or_app; now left. Qed.

(** two prefixes of one list are comparable *)
Lemma prefixes_comparable : forall a b q, is_prefix a q = true -> is_prefix b q = true ->
  is_prefix a b = true \/ is_prefix b a = true.
Proof.
  induction a as [|x a IH]; intros b q Ha Hb; [now left|].
  destruct b as [|y b]; [now right|]. destruct q as [|z q]; [discriminate|]. simpl in *.
  apply andb_true_iff in Ha as [Ha1 Ha2]. apply andb_true_iff in Hb as [Hb1 Hb2].
  apply N.eqb_eq in Ha1, Hb1. subst. rewrite N.eqb_refl. simpl. eapply IH; eassumption.
Qed.

(** HasPrefix answers true for every prefix of a present path *)
Lemma hp_complete : forall f t p q v, tree_ok t -> length p <= f -> is_prefix p q = true -> den t q = Some v ->
  hp f t p = true.
Proof.
  induction f as [|f IH]; intros t p q v Hok Hlen Hpq Hden.
  - destruct p; [reflexivity | simpl in Hlen; lia].
  - destruct p as [|b p]; [reflexivity|]. destruct q as [|b' q]; [discriminate|].
    assert (b' = b) by (simpl in Hpq; apply andb_true_iff in Hpq as [H _]; apply N.eqb_eq in H; congruence). subst b'.
    rewrite den_cons in Hden. cbn [hp].
    destruct (tree_ok_inv t Hok) as [fs [Hfs [_ [Hs Hall]]]]. unfold forks_get in *. rewrite Hfs in *.
    destruct (fget fs b) as [[pre c]|] eqn:Hg; [|discriminate].
    destruct (Hall b pre c Hg) as [_ [_ [_ Hc]]].
    destruct pre as [|x pre]; [discriminate|].
    destruct (is_prefix (x :: pre) (b :: q)) eqn:Hq; [|discriminate].
    destruct (is_prefix (x :: pre) (b :: p)) eqn:Hp.
    + apply (IH c _ (skipn (S (length pre)) (b :: q)) v Hc).
      * rewrite skipn_length. simpl in *. lia.
      * change (S (length pre)) with (length (x :: pre)).
        apply is_prefix_spec in Hp. apply is_prefix_spec in Hq. rewrite Hp, Hq in Hpq.
        rewrite is_prefix_app_l in Hpq. rewrite is_prefix_app, skipn_app_exact in Hpq. exact Hpq.
      * exact Hden.
    + destruct (prefixes_comparable (b :: p) (x :: pre) (b :: q) Hpq Hq) as [H|H]; [exact H | congruence].
Qed.

Section Final.
Variable addr : list N -> list N.
Variable kg : list N.
Hypothesis addr_len : forall d, length (addr d) = 32.
Hypothesis kg_len : length kg = 32.

(** the read-only phase: the model root represents the tree [t] that was saved under [a] *)
Definition inv2 (L : list (list N)) (s : mstate) (f : spec) : Prop :=
  exists t a,
    root_ok t /\ (forall q, den t q = f q) /\ f [] = None /\
    Rep addr kg L (ms_root s) t /\ n_ref (ms_root s) = Some a /\ ms_last s = Some a /\
    is_value (n_ty (ms_root s)) = false /\ Stored addr kg L t a /\
    ms_log s = L /\ store_inv addr (ms_st s) L.

(** the log only grows, the store stays consistent with it *)
Lemma step_store_inv : forall s o s' b, store_inv addr (ms_st s) (ms_log s) -> step addr kg s o = (s', b) ->
  store_inv addr (ms_st s') (ms_log s') /\ exists new, ms_log s' = ms_log s ++ new.
Proof.
  intros [root st log last] o s' b Hi H. cbn [ms_st ms_log] in *.
  assert (Hnil : exists new : list (list N), log = log ++ new) by (exists []; now rewrite app_nil_r).
  destruct o; cbn [step ms_root ms_st ms_log ms_last] in H.
  - destruct (add (fuel_of p) st root p e m). inversion H; subst. auto.
  - destruct (remove (fuel_of p) st root p). inversion H; subst. auto.
  - destruct (lookup_node (fuel_of p) st root p). inversion H; subst. auto.
  - destruct (has_prefix (fuel_of p) st root p). inversion H; subst. auto.
  - destruct (save addr kg (height root) st log root) as [[[r' st'] log'] e] eqn:E.
    destruct (save_inv addr kg _ _ _ _ _ _ _ _ Hi E) as [Hi' Hn].
    destruct e; inversion H; subst; auto.
  - destruct (save_cb addr kg (height root) budget 0%N st log root) as [[[[r' st'] log'] e] t'] eqn:E.
    destruct (save_cb_inv addr kg _ _ _ _ _ _ _ _ _ _ _ Hi E) as [Hi' Hn].
    destruct e; inversion H; subst; auto.
  - inversion H; subst. auto.
Qed.

Lemma run_store_inv : forall h s, store_inv addr (ms_st s) (ms_log s) ->
  store_inv addr (ms_st (fst (run addr kg s h))) (ms_log (fst (run addr kg s h))) /\
  exists new, ms_log (fst (run addr kg s h)) = ms_log s ++ new.
Proof.
  induction h as [|o h IH]; intros s Hi.
  - simpl. split; [assumption | exists []; now rewrite app_nil_r].
  - cbn [run]. destruct (step addr kg s o) as [s1 b] eqn:E.
    destruct (step_store_inv s o s1 b Hi E) as [Hi1 [new1 Hl1]].
    destruct (IH s1 Hi1) as [Hi2 [new2 Hl2]].
    destruct (run addr kg s1 h) as [s2 bs] eqn:E2. cbn [fst] in *.
    split; [assumption|]. exists (new1 ++ new2). now rewrite Hl2, Hl1, app_assoc.
Qed.

(** ---- steps of the read-only phase ---- *)
Lemma lookup_inv2 : forall L s f p, inv2 L s f -> no_collision addr L ->
  exists s', step addr kg s (OLookup p) = (s', spec_obs f p) /\ inv2 L s' f.
Proof.
  intros L [root st log last] f p [t [a [Hroot [Hden [Hf0 [HR [Hra [Hla [Hnv [HS [Hlog Hinv]]]]]]]]]]] Hnc.
  cbn [ms_root ms_st ms_log ms_last] in *.
  pose proof (store_inv_has addr st L Hinv Hnc) as Hhas.
  destruct Hroot as [Hok [Hloc [Hrbs Htnv]]].
  destruct (lookup_rep addr kg L st Hhas (fuel_of p) root t p HR Hok) as [m' [r [Hlk [HR' [Hv' [Hm' [Hr' Hres]]]]]]].
  { unfold fuel_of. lia. }
  unfold step. cbn [ms_root ms_st ms_log ms_last]. rewrite Hlk.
  eexists. split.
  - f_equal. unfold spec_obs. rewrite <- Hden.
    destruct p as [|b p].
    + destruct Hres as [-> _]. rewrite Hv', Hnv. rewrite den_nil. unfold val_of. now rewrite Htnv.
    + unfold den. destruct (lk (length (b :: p)) t (b :: p)) as [y|] eqn:Hlky.
      * destruct Hres as [x [-> [Hxv [Hxm Hxe]]]]. unfold val_of. rewrite Hxv.
        destruct (is_value (n_ty y)) eqn:Hyv; [|reflexivity].
        destruct (lk_node_ok _ t (b :: p) y Hok ltac:(discriminate) Hlky) as [Hy32 [_ [Hyl _]]].
        rewrite Hxe, Hxm, Hy32. rewrite pad_to_id by (apply Hyl; exact Hyv). reflexivity.
      * now rewrite Hres.
  - exists t, a. cbn [ms_root ms_st ms_log ms_last].
    split; [exact (conj Hok (conj Hloc (conj Hrbs Htnv)))|]. split; [exact Hden|]. split; [exact Hf0|].
    split; [exact HR'|]. split; [congruence|]. split; [exact Hla|]. split; [congruence|].
    split; [exact HS|]. split; [exact Hlog | exact Hinv].
Qed.

Lemma has_prefix_inv2 : forall L s f p, inv2 L s f -> no_collision addr L ->
  exists s' t, step addr kg s (OHasPrefix p) = (s', BBool (hp (length p) t p)) /\ inv2 L s' f /\
    root_ok t /\ (forall q, den t q = f q).
Proof.
  intros L [root st log last] f p [t [a [Hroot [Hden [Hf0 [HR [Hra [Hla [Hnv [HS [Hlog Hinv]]]]]]]]]]] Hnc.
  cbn [ms_root ms_st ms_log ms_last] in *.
  pose proof (store_inv_has addr st L Hinv Hnc) as Hhas.
  destruct (has_prefix_rep addr kg L st Hhas (fuel_of p) root t p HR) as [m' [Hlk [HR' [Hv' [Hm' Hr']]]]].
  { apply Hroot. }
  { unfold fuel_of. lia. }
  unfold step. cbn [ms_root ms_st ms_log ms_last]. rewrite Hlk.
  eexists. exists t. split; [reflexivity|]. split; [|split; assumption].
  exists t, a. cbn [ms_root ms_st ms_log ms_last].
  split; [exact Hroot|]. split; [exact Hden|]. split; [exact Hf0|].
  split; [exact HR'|]. split; [congruence|]. split; [exact Hla|]. split; [congruence|].
  split; [exact HS|]. split; [exact Hlog | exact Hinv].
Qed.

Lemma store_inv2 : forall L s f, inv2 L s f ->
  exists a, step addr kg s OStore = (s, BRef a) /\ ms_last s = Some a.
Proof.
  intros L [root st log last] f [t [a [Hroot [Hden [Hf0 [HR [Hra [Hla _]]]]]]]].
  cbn [ms_root ms_st ms_log ms_last] in *. exists a. split; [|assumption].
  unfold step. cbn [ms_root ms_st ms_log ms_last].
  pose proof (height_pos root) as Hh. destruct (height root) as [|h]; [lia|].
  cbn [save]. rewrite Hra. cbn [n_ref]. rewrite Hra. subst last. reflexivity.
Qed.

Lemma reload_inv2 : forall L s f, inv2 L s f ->
  exists s', step addr kg s OReload = (s', BOk) /\ inv2 L s' f.
Proof.
  intros L [root st log last] f [t [a [Hroot [Hden [Hf0 [HR [Hra [Hla [Hnv [HS [Hlog Hinv]]]]]]]]]]].
  cbn [ms_root ms_st ms_log ms_last] in *. eexists. split; [reflexivity|].
  exists t, a. cbn [ms_root ms_st ms_log ms_last]. subst last.
  split; [exact Hroot|]. split; [exact Hden|]. split; [exact Hf0|].
  split; [apply (RepLazy addr kg L _ t a); auto|]. split; [reflexivity|]. split; [reflexivity|]. split; [reflexivity|].
  split; [exact HS|]. split; [exact Hlog | exact Hinv].
Qed.

(** a Store with size callbacks after the first Store: the cached root, no callback runs *)
Lemma storecb_inv2 : forall L s f b, inv2 L s f ->
  exists a, step addr kg s (OStoreCb b) = (s, BRef a) /\ ms_last s = Some a.
Proof.
  intros L [root st log last] f b [t [a [Hroot [Hden [Hf0 [HR [Hra [Hla _]]]]]]]].
  cbn [ms_root ms_st ms_log ms_last] in *. exists a. split; [|assumption].
  unfold step. cbn [ms_root ms_st ms_log ms_last].
  pose proof (height_pos root) as Hh. destruct (height root) as [|h]; [lia|].
  cbn [save_cb]. rewrite Hra. cbn [n_ref]. rewrite Hra. subst last. reflexivity.
Qed.

(** a rejected Store in the build phase: an error, and nothing a later operation can see changes *)
Lemma rejected_store_inv1 : forall s f b, inv1 s f -> (b < 64)%N ->
  exists s', step addr kg s (OStoreCb b) = (s', BErr ESizeFn) /\ inv1 s' f.
Proof.
  intros [root st log last] f b [[Hok [Hloc [Hrbs Hnv]]] [Hst [Hlog [Hlast [Hf0 Hden]]]]] Hb.
  cbn [ms_root ms_st ms_log ms_last] in *.
  destruct (save_cb_reject addr kg kg_len (height root) b 0%N st log root (le_n _) Hb Hok)
    as [t' [tot' [Hsv [Hok' [T1 [T2 [T3 [T4 [T5 [T6 Hd]]]]]]]]]].
  { apply Hloc. }
  { destruct Hrbs as [H|[H _]]; auto. }
  unfold step. cbn [ms_root ms_st ms_log ms_last]. rewrite Hsv.
  eexists. split; [reflexivity|]. unfold inv1. cbn [ms_root ms_st ms_log ms_last].
  split; [|split; [assumption|split; [assumption|split; [assumption|split; [assumption|]]]]].
  - split; [assumption|]. split.
    + destruct Hloc as [_ [L2 [L3 [L4 L5]]]]. unfold local_ok. rewrite T1, T3, T4. auto.
    + split; [|congruence]. destruct Hrbs as [H|[H H']]; [left; congruence | right; split; [congruence | auto]].
  - intros q. now rewrite Hd.
Qed.

(** the first Store: from the build phase into the read-only phase *)
Lemma first_store : forall s f, inv1 s f ->
  exists s' a, step addr kg s OStore = (s', BRef a) /\ inv2 (ms_log s') s' f.
Proof.
  intros [root st log last] f [[Hok [Hloc [Hrbs Hnv]]] [Hst [Hlog [Hlast [Hf0 Hden]]]]].
  cbn [ms_root ms_st ms_log ms_last] in *. subst st log last.
  destruct (save_ok addr kg addr_len kg_len (height root) [] [] root (le_n _) Hok) as [t' [st' [new [a [Hsv [Hsa HS]]]]]].
  { apply Hloc. }
  { exact Hrbs. }
  destruct Hsa as [S1 [S2 [S3 [S4 [S5 S6]]]]].
  unfold step. cbn [ms_root ms_st ms_log ms_last]. rewrite Hsv. rewrite S1.
  eexists. exists a. split; [reflexivity|]. cbn [ms_log app].
  exists root, a. cbn [ms_root ms_st ms_log ms_last].
  assert (HSt : Stored addr kg new root a) by (apply HS; apply incl_refl).
  split; [exact (conj Hok (conj Hloc (conj Hrbs Hnv)))|]. split; [exact Hden|]. split; [exact Hf0|].
  split; [apply (RepLazy addr kg new t' root a); auto|].
  split; [assumption|]. split; [reflexivity|]. split; [congruence|]. split; [assumption|]. split; [reflexivity|].
  assert (Hi0 : store_inv addr [] []) by (split; [intros r d H; discriminate H | intros d []]).
  destruct (save_inv addr kg _ _ _ _ _ _ _ _ Hi0 Hsv) as [Hi' _]. exact Hi'.
Qed.

(** ---- whole histories ---- *)
Lemma spec_step_readonly : forall f o, (forall p e m, o <> OAdd p e m) -> (forall p, o <> ORemove p) -> spec_step f o = f.
Proof. intros f o H1 H2. destruct o; try reflexivity; [now elim (H1 p e m) | now elim (H2 p)]. Qed.

Lemma run_phase2 : forall h L s f, inv2 L s f -> disciplined f true h -> no_collision addr L ->
  inv2 L (fst (run addr kg s h)) (spec_run f h).
Proof.
  induction h as [|o h IH]; intros L s f Hinv Hd Hnc; [exact Hinv|].
  destruct Hd as [Hdom [Hdisc Hd]]. cbn [run spec_run fold_left].
  destruct o; cbn [op_disciplined] in Hdisc.
  - destruct Hdisc as [Hx _]. discriminate Hx.
  - destruct Hdisc as [Hx _]. discriminate Hx.
  - destruct (lookup_inv2 L s f p Hinv Hnc) as [s' [Hs Hinv']]. rewrite Hs.
    specialize (IH L s' f Hinv' Hd Hnc). destruct (run addr kg s' h). exact IH.
  - destruct (has_prefix_inv2 L s f p Hinv Hnc) as [s' [t [Hs [Hinv' _]]]]. rewrite Hs.
    specialize (IH L s' f Hinv' Hd Hnc). destruct (run addr kg s' h). exact IH.
  - destruct (store_inv2 L s f Hinv) as [a [Hs _]]. rewrite Hs.
    specialize (IH L s f Hinv Hd Hnc). destruct (run addr kg s h). exact IH.
  - destruct (storecb_inv2 L s f budget Hinv) as [a [Hs _]]. rewrite Hs.
    specialize (IH L s f Hinv Hd Hnc). destruct (run addr kg s h). exact IH.
  - destruct (reload_inv2 L s f Hinv) as [s' [Hs Hinv']]. rewrite Hs.
    specialize (IH L s' f Hinv' Hd Hnc). destruct (run addr kg s' h). exact IH.
Qed.

Lemma run_phase1 : forall h s f, inv1 s f -> disciplined f false h ->
  no_collision addr (ms_log (fst (run addr kg s h))) ->
  inv1 (fst (run addr kg s h)) (spec_run f h) \/
  inv2 (ms_log (fst (run addr kg s h))) (fst (run addr kg s h)) (spec_run f h).
Proof.
  induction h as [|o h IH]; intros s f Hinv Hd Hnc; [left; exact Hinv|].
  destruct Hd as [Hdom [Hdisc Hd]]. cbn [run spec_run fold_left] in *.
  destruct o; cbn [orb is_store] in Hd.
  - destruct (add_inv1 addr kg s f p e m Hinv Hdom Hdisc) as [s' [Hs Hinv']]. rewrite Hs in *.
    specialize (IH s' _ Hinv' Hd). destruct (run addr kg s' h). apply IH. exact Hnc.
  - destruct (remove_inv1 addr kg s f p Hinv Hdisc) as [s' [b [Hs Hinv']]]. rewrite Hs in *.
    specialize (IH s' _ Hinv' Hd). destruct (run addr kg s' h). apply IH. exact Hnc.
  - rewrite (lookup_inv1 addr kg s f p Hinv) in *.
    specialize (IH s _ Hinv Hd). destruct (run addr kg s h). apply IH. exact Hnc.
  - rewrite (has_prefix_inv1 addr kg s f p Hinv) in *.
    specialize (IH s _ Hinv Hd). destruct (run addr kg s h). apply IH. exact Hnc.
  - destruct (first_store s f Hinv) as [s' [a [Hs Hinv']]]. rewrite Hs in *.
    right.
    assert (Hsi : store_inv addr (ms_st s') (ms_log s')).
    { destruct Hinv' as [t [a' [_ [_ [_ [_ [_ [_ [_ [_ [_ Hsi]]]]]]]]]]]. exact Hsi. }
    destruct (run_store_inv h s' Hsi) as [_ [new Hlog]].
    pose proof (run_phase2 h (ms_log s') s' f Hinv' Hd) as H2.
    destruct (run addr kg s' h) as [s2 bs]. cbn [fst] in *.
    rewrite Hlog in Hnc. specialize (H2 (no_collision_app _ _ _ Hnc)).
    assert (Hl2 : ms_log s2 = ms_log s').
    { destruct H2 as [t [a' [_ [_ [_ [_ [_ [_ [_ [_ [Hl _]]]]]]]]]]]. exact Hl. }
    rewrite Hl2. exact H2.
  - cbn [op_disciplined] in Hdisc. destruct Hdisc as [Hx|Hb]; [discriminate Hx|].
    destruct (rejected_store_inv1 s f budget Hinv Hb) as [s' [Hs Hinv']]. rewrite Hs in *.
    specialize (IH s' _ Hinv' Hd). destruct (run addr kg s' h). apply IH. exact Hnc.
  - cbn [op_disciplined] in Hdisc. discriminate Hdisc.
Qed.

(** the main result: lookups after any disciplined history answer the specification map *)
Theorem lookup_refines : forall enc h p,
  disciplined spec_empty false h ->
  no_collision addr (ms_log (final_state addr kg enc h)) ->
  lookup_obs addr kg (final_state addr kg enc h) p = spec_obs (spec_run spec_empty h) p.
Proof.
  intros enc h p Hd Hnc. unfold final_state in *.
  destruct (run_phase1 h (init_state enc) spec_empty (init_inv1 enc) Hd Hnc) as [H1|H2].
  - unfold lookup_obs. now rewrite (lookup_inv1 addr kg _ _ p H1).
  - unfold lookup_obs. destruct (lookup_inv2 _ _ _ p H2 Hnc) as [s' [Hs _]]. now rewrite Hs.
Qed.

(** prefix queries: every prefix of a present path is reported (the converse fails after removes) *)
Theorem has_prefix_complete : forall enc h p,
  disciplined spec_empty false h ->
  no_collision addr (ms_log (final_state addr kg enc h)) ->
  spec_has_prefix (spec_run spec_empty h) p ->
  has_prefix_obs addr kg (final_state addr kg enc h) p = BBool true.
Proof.
  intros enc h p Hd Hnc [q [v [Hpq Hq]]]. unfold final_state in *.
  destruct (run_phase1 h (init_state enc) spec_empty (init_inv1 enc) Hd Hnc) as [H1|H2].
  - unfold has_prefix_obs. rewrite (has_prefix_inv1 addr kg _ _ p H1). cbn [snd]. f_equal.
    destruct H1 as [[Hok _] [_ [_ [_ [_ Hden]]]]]. apply (hp_complete _ _ p q v Hok (le_n _) Hpq). now rewrite Hden.
  - unfold has_prefix_obs. destruct (has_prefix_inv2 _ _ _ p H2 Hnc) as [s' [t [Hs [_ [[Hok _] Hden]]]]].
    rewrite Hs. cbn [snd]. f_equal. apply (hp_complete _ _ p q v Hok (le_n _) Hpq). now rewrite Hden.
Qed.

End Final.
