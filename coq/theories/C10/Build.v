(** C10 — the build phase: histories of add/remove/lookup/hasPrefix on a manifest that
    was never stored.  Invariant: the root is a well-formed never-saved tree whose
    denotation is the specification map. *)
From Coq Require Import List NArith Bool Arith Lia Sorted.
Import ListNotations.
Require Import Aurora.C10.Model Aurora.C10.Spec Aurora.C10.Basics Aurora.C10.Trie.

Definition root_ok (r : node) : Prop :=
  tree_ok r /\ local_ok r /\ (n_rbs r = 32 \/ (n_rbs r = 0 /\ n_forks r = Some [])) /\ is_value (n_ty r) = false.

Definition inv1 (s : mstate) (f : spec) : Prop :=
  root_ok (ms_root s) /\ ms_st s = [] /\ ms_log s = [] /\ ms_last s = None /\
  f [] = None /\ (forall q, den (ms_root s) q = f q).

Lemma list_eqb_N_sym : forall a b, list_eqb_N a b = list_eqb_N b a.
Proof.
  intros a b. destruct (list_eqb_N a b) eqn:E.
  - apply list_eqb_N_eq in E. subst. now rewrite list_eqb_N_refl.
  - symmetry. apply list_eqb_N_neq. intros ->. rewrite list_eqb_N_refl in E. discriminate.
Qed.

Lemma val_of_none : forall n, val_of n = None <-> is_value (n_ty n) = false.
Proof. intros n. unfold val_of. destruct (is_value (n_ty n)); split; intros; congruence. Qed.

Section WithStore.
Variable addr : list N -> list N.
Variable keygen : list N.

Lemma init_inv1 : forall enc, inv1 (init_state enc) spec_empty.
Proof.
  intros enc. unfold inv1, init_state, init_root. cbn [ms_root ms_st ms_log ms_last].
  split; [|repeat split; auto].
  - destruct enc.
    + split; [now apply tree_ok_no_forks|]. split; [|split; [right; split; reflexivity | reflexivity]].
      split; [left; reflexivity | split; [intros H; discriminate H | split; [reflexivity | split; [|apply md_ok_nil]]]].
      split; [intros H; discriminate H | intros H; contradiction].
    + split; [now apply tree_ok_no_forks|]. split; [|split; [right; split; reflexivity | reflexivity]].
      split; [right; reflexivity | split; [intros H; discriminate H | split; [reflexivity | split; [|apply md_ok_nil]]]].
      split; [intros H; discriminate H | intros H; contradiction].
  - intros q. apply den_none_no_forks; destruct enc; reflexivity.
Qed.

(** a lookup answers the specification map *)
Lemma lookup_inv1 : forall s f p, inv1 s f ->
  step addr keygen s (OLookup p) = (s, spec_obs f p).
Proof.
  intros [root st log last] f p [[Hok [Hloc [Hrbs Hnv]]] [Hst [Hlog [Hlast [Hf0 Hden]]]]]. cbn [ms_root] in *.
  unfold step. cbn [ms_root ms_st ms_log ms_last].
  rewrite lookup_node_pure by (auto; unfold fuel_of; lia).
  f_equal. unfold spec_obs. rewrite <- Hden. unfold den.
  destruct (lk (length p) root p) as [m|]; [|reflexivity]. unfold val_of. destruct (is_value (n_ty m)); reflexivity.
Qed.

Lemma has_prefix_inv1 : forall s f p, inv1 s f ->
  step addr keygen s (OHasPrefix p) = (s, BBool (hp (length p) (ms_root s) p)).
Proof.
  intros [root st log last] f p [[Hok _] _]. cbn [ms_root] in *.
  unfold step. cbn [ms_root ms_st ms_log ms_last].
  rewrite has_prefix_pure by (auto; unfold fuel_of; lia). reflexivity.
Qed.

Lemma add_inv1 : forall s f p e m, inv1 s f ->
  op_in_domain (OAdd p e m) -> op_disciplined f false (OAdd p e m) ->
  exists s', step addr keygen s (OAdd p e m) = (s', BOk) /\ inv1 s' (spec_step f (OAdd p e m)).
Proof.
  intros [root st log last] f p e m [[Hok [Hloc [Hrbs Hnv]]] [Hst [Hlog [Hlast [Hf0 Hden]]]]]
         [Hpne [Hpby [He Hm]]] [_ Hdisc]. cbn [ms_root ms_st ms_log ms_last] in *.
  destruct (add_spec (fuel_of p) st root p e m) as [r' [Hadd [Ht [Hl [Hr Hd]]]]]; auto.
  { unfold fuel_of. lia. }
  { now apply local_ok_pre. }
  { destruct Hrbs as [H|[H _]]; auto. }
  unfold step. cbn [ms_root ms_st ms_log ms_last]. rewrite Hadd. eexists. split; [reflexivity|].
  assert (Hnew : new_md root p m = m).
  { unfold new_md. destruct m; [|reflexivity]. unfold old_md. rewrite Hden.
    destruct (f p) as [[e' m']|] eqn:Hfp; [|reflexivity]. now apply (Hdisc eq_refl e' m'). }
  unfold inv1. cbn [ms_root ms_st ms_log ms_last spec_step].
  split; [|split; [assumption|split; [assumption|split; [assumption|split]]]].
  - split; [assumption|]. split; [assumption|]. split; [now left|].
    apply val_of_none. rewrite <- den_nil, Hd.
    destruct p; [contradiction|]. cbn [list_eqb_N]. rewrite den_nil. now apply val_of_none.
  - unfold spec_upd. destruct p; [contradiction|]. cbn [list_eqb_N]. exact Hf0.
  - intros q. rewrite Hd, Hnew. unfold spec_upd. rewrite (list_eqb_N_sym p q). now rewrite Hden.
Qed.

Lemma remove_inv1 : forall s f p, inv1 s f -> op_disciplined f false (ORemove p) ->
  exists s' b, step addr keygen s (ORemove p) = (s', b) /\ inv1 s' (spec_step f (ORemove p)).
Proof.
  intros [root st log last] f p [[Hok [Hloc [Hrbs Hnv]]] [Hst [Hlog [Hlast [Hf0 Hden]]]]] [_ Hdisc].
  cbn [ms_root ms_st ms_log ms_last] in *.
  destruct (remove_spec (fuel_of p) st root p) as [r' [er [Hrm [Ht [T1 [T2 [T3 [T4 [T5 [Herr Hd]]]]]]]]]]; auto.
  { unfold fuel_of. lia. }
  unfold step. cbn [ms_root ms_st ms_log ms_last]. rewrite Hrm. eexists. eexists. split; [reflexivity|].
  unfold inv1. cbn [ms_root ms_st ms_log ms_last spec_step].
  split; [|split; [assumption|split; [assumption|split; [assumption|split]]]].
  - split; [assumption|]. split; [apply (local_ok_same root); auto; congruence|]. split; [|congruence].
    destruct Hrbs as [H|[H H']]; [left; congruence|]. right. split; [congruence|].
    (* nothing to remove in an empty root: the result is the same node *)
    assert (Hsame : r' = root).
    { destruct er as [x|]; [apply Herr; discriminate|].
      destruct p as [|b p]; [simpl in Hrm; inversion Hrm; reflexivity|].
      unfold fuel_of in Hrm. cbn [remove] in Hrm. unfold load_if_nil in Hrm. rewrite H' in Hrm. unfold forks_get in Hrm. rewrite H' in Hrm. cbn [fget] in Hrm.
      discriminate Hrm. }
    now rewrite Hsame.
  - unfold spec_upd. destruct (list_eqb_N p []); [reflexivity | exact Hf0].
  - intros q. unfold spec_upd. rewrite (list_eqb_N_sym p q).
    destruct p as [|b p].
    + (* ErrEmptyPath: nothing changes, and the empty path is never present *)
      unfold fuel_of in Hrm. cbn [remove] in Hrm. inversion Hrm; subst r' er.
      destruct (list_eqb_N q []) eqn:E; [|apply Hden]. apply list_eqb_N_eq in E. subst q. now rewrite Hden.
    + rewrite Hd; [now rewrite Hden | discriminate |]. intros q2 Hq2. rewrite Hden. now apply Hdisc.
Qed.

End WithStore.
