(** C10 — correspondence: the harness drives [manifest.NewMantarayManifest] over a
    real loadsave (pipeline + joiner over an in-memory chunk store) with a history
    of operations and records (a) for every payload that went through
    [loadsave.Save] a checksum of the data and the reference returned — this table
    realises [addr]; a payload the model produces whose checksum the
    implementation never saved maps to the empty reference and so surfaces as a
    mismatch — and (b) the observable result of every operation. [check_case]
    re-runs the history on the model and compares operation by operation.

    Ingesting data is what costs time in Coq (per literal), so a case carries a
    pool of the distinct byte strings of the history and the operations refer to
    them by index. *)
From Coq Require Import List NArith Bool Arith String Ascii.
Import ListNotations.
Require Import Aurora.Base.Corr.
Require Export Aurora.C10.Model.

(** byte strings as hex text / plain text / constant runs *)
Definition hexv (a : ascii) : N := let n := N_of_ascii a in if (n <? 58)%N then (n - 48)%N else (n - 87)%N.
Fixpoint hexs (s : string) : list N :=
  match s with
  | String a (String b s') => (hexv a * 16 + hexv b)%N :: hexs s'
  | _ => []
  end.
Fixpoint strs (s : string) : list N :=
  match s with String a s' => N_of_ascii a :: strs s' | EmptyString => [] end.
Definition rp (b : N) (n : nat) : list N := repeat b n.

(** two 31-bit polynomial checksums of a payload (the harness computes the same in Go) *)
Definition P31 : N := 2147483647.
Definition cksum (d : list N) : N :=
  (fold_left (fun h b => (h * 257 + b + 1) mod P31) d 7 * 2147483648
   + fold_left (fun h b => (h * 263 + b + 1) mod P31) d 11)%N.

(** operations and observations with pool indices *)
Inductive iop :=
| IAdd (p e : nat) (m : list (nat * nat)) | IRemove (p : nat) | ILookup (p : nat) | IHas (p : nat)
| IStore | IStoreCb (budget : N) | IReload.

Inductive icobs :=
| YOk                                       (* nil error (Add, Remove, Reload) *)
| YFound (e : nat) (m : list (nat * nat))   (* Lookup: reference bytes, metadata sorted by key *)
| YBool (b : bool)                          (* HasPrefix *)
| YRef (r : nat)                            (* Store *)
| YErr (class : N).                         (* 1 not-found, 2 empty-path, 3 other error, 4 panic, 5 hang *)

Inductive case :=
| Case (encrypted : bool) (key : nat) (pool : list (list N)) (table : list (N * nat)) (ops : list (iop * icobs)).

(** resolved observation *)
Inductive cobs :=
| XOk | XFound (e : list N) (m : meta) | XBool (b : bool) | XRef (r : list N) | XErr (class : N).

Section Pool.
Variable pool : list (list N).
Definition g (i : nat) : list N := nth i pool [].
Definition gm (m : list (nat * nat)) : meta := map (fun kv => (g (fst kv), g (snd kv))) m.
Definition op_of (o : iop) : op :=
  match o with
  | IAdd p e m => OAdd (g p) (g e) (gm m) | IRemove p => ORemove (g p) | ILookup p => OLookup (g p)
  | IHas p => OHasPrefix (g p) | IStore => OStore | IStoreCb b => OStoreCb b | IReload => OReload
  end.
Definition cobs_of (o : icobs) : cobs :=
  match o with
  | YOk => XOk | YFound e m => XFound (g e) (gm m) | YBool b => XBool b | YRef r => XRef (g r) | YErr c => XErr c
  end.
Fixpoint tbl_get (t : list (N * nat)) (c : N) : list N :=
  match t with
  | [] => []
  | (c', r) :: t' => if N.eqb c c' then g r else tbl_get t' c
  end.
End Pool.

Definition classify (e : err) : N :=
  match e with
  | ENotFound => 1 | EEmptyPath => 2 | EPanic => 4
  | EFuel => 98 | EUnsupported => 99
  | _ => 3
  end%N.

Definition obs_to_cobs (b : obs) : cobs :=
  match b with
  | BOk => XOk | BFound e m => XFound e m | BBool x => XBool x | BRef r => XRef r
  | BErr e => XErr (classify e)
  end.

Definition meta_eqb (a b : meta) : bool :=
  list_eqb (fun x y => list_eqb_N (fst x) (fst y) && list_eqb_N (snd x) (snd y)) a b.

Definition cobs_eqb (a b : cobs) : bool :=
  match a, b with
  | XOk, XOk => true
  | XFound e m, XFound e' m' => list_eqb_N e e' && meta_eqb m m'
  | XBool x, XBool y => Bool.eqb x y
  | XRef r, XRef r' => list_eqb_N r r'
  | XErr c, XErr c' => N.eqb c c'
  | _, _ => false
  end.

Definition model_obs (c : case) : list cobs :=
  match c with
  | Case enc key pool tbl ops =>
      map obs_to_cobs
        (snd (run (fun d => tbl_get pool tbl (cksum d)) (g pool key) (init_state enc) (map (fun x => op_of pool (fst x)) ops)))
  end.
Definition seen_obs (c : case) : list cobs :=
  match c with Case _ _ pool _ ops => map (fun x => cobs_of pool (snd x)) ops end.

Definition check_case (c : case) : bool := list_eqb cobs_eqb (model_obs c) (seen_obs c).

Fixpoint first_diff (a b : list cobs) (i : nat) : option (nat * option cobs * option cobs) :=
  match a, b with
  | [], [] => None
  | x :: a', y :: b' => if cobs_eqb x y then first_diff a' b' (S i) else Some (i, Some x, Some y)
  | x :: _, [] => Some (i, Some x, None)
  | [], y :: _ => Some (i, None, Some y)
  end.
(** (index of the first differing operation, model's observation, implementation's observation) *)
Definition explain_case (c : case) := first_diff (model_obs c) (seen_obs c) 0.
