(** C10 — model of the mantaray trie of github.com/gauss-project/manifest v0.4.2
    (mantaray/node.go, marshal.go, persist.go), of the wrapper
    pkg/manifest/mantaray.go and of pkg/file/loadsave as a content-addressed
    store.  Definitions only (computable); proofs are in the other files.

    Go pointers: the trie is a tree (no sharing), every method mutates the
    receiver in place; the model functions return the mutated node.  A Go
    [nil] map is [None] in [n_forks] (a lazily loaded node), a [nil] slice
    [ref] is [None].  Out-of-range slice expressions and writes to a nil map
    are the explicit outcome [EPanic].  [uint8] conversions are written out
    ([mod 256]).  The node type byte is manipulated with [N.setbit],
    [N.clearbit], [N.testbit] (equal to Go's [|], [&^] on a [uint8]).

    Abstract parts (Section variables): [addr], the function data -> reference
    realised by [loadsave.Save] (file pipeline: BMT/Keccak address of the data);
    [keygen], the 32 bytes delivered by [obfuscationKeyFn] (crypto/rand, pinned
    by the harness through [mantaray.SetObfuscationKeyFn]).
    JSON ([encoding/json] on [map[string]string]) is modelled on the fragment
    of printable ASCII without the characters Go escapes; outside it the
    model answers [EUnsupported]. *)
From Coq Require Import List NArith Bool Arith.
Import ListNotations.

Definition path := list N.
Definition meta := list (list N * list N).   (* map[string]string, sorted by key *)

Inductive err :=
| ENotFound        (* mantaray.ErrNotFound (wrapped or not) *)
| EEmptyPath       (* mantaray.ErrEmptyPath *)
| ELoad            (* the load-saver has no data for the reference *)
| ETooShort        (* ErrTooShort *)
| EVersion         (* ErrInvalidVersionHash *)
| EFork            (* "not enough bytes for node fork" / "invalid prefix length" *)
| EJson            (* json error *)
| EEntrySize       (* "node entry size > 256" / "invalid entry size" *)
| EInvalidInput    (* ErrInvalidInput: MarshalBinary of a node whose forks map is nil *)
| EMetaTooLarge    (* ErrMetadataTooLarge *)
| ERefTooLarge     (* "node reference size > 256" *)
| ESizeFn          (* a StoreSizeFunc callback rejected the node ("manifest store size func") *)
| EPanic           (* Go run-time panic *)
| EFuel            (* model ran out of fuel: never happens for the fuel the wrappers pass *)
| EUnsupported.    (* outside the modelled JSON fragment *)

Inductive node := Node {
  n_ty : N;                                    (* nodeType uint8 *)
  n_rbs : nat;                                 (* refBytesSize *)
  n_okey : list N;                             (* obfuscationKey *)
  n_ref : option (list N);                     (* ref; None = nil *)
  n_entry : list N;
  n_md : meta;                                 (* metadata; [] = nil or empty *)
  n_forks : option (list (N * (list N * node)))  (* forks, ascending by key; None = nil map *)
}.

Definition forks_t := list (N * (list N * node)).

(** ---- small helpers ---- *)

Fixpoint common (a b : list N) : list N :=
  match a, b with
  | x :: a', y :: b' => if N.eqb x y then x :: common a' b' else []
  | _, _ => []
  end.

Fixpoint is_prefix (a b : list N) : bool :=   (* bytes.HasPrefix(b, a) *)
  match a, b with
  | [], _ => true
  | x :: a', y :: b' => N.eqb x y && is_prefix a' b'
  | _ :: _, [] => false
  end.

Fixpoint fget (fs : forks_t) (k : N) : option (list N * node) :=
  match fs with
  | [] => None
  | (k', v) :: fs' => if N.eqb k k' then Some v else fget fs' k
  end.

(** insert or replace, keeping ascending key order *)
Fixpoint fset (fs : forks_t) (k : N) (v : list N * node) : forks_t :=
  match fs with
  | [] => [(k, v)]
  | (k', v') :: fs' =>
      if N.eqb k k' then (k, v) :: fs'
      else if N.ltb k k' then (k, v) :: (k', v') :: fs'
      else (k', v') :: fset fs' k v
  end.

Fixpoint fdel (fs : forks_t) (k : N) : forks_t :=
  match fs with
  | [] => []
  | (k', v') :: fs' => if N.eqb k k' then fs' else (k', v') :: fdel fs' k
  end.

Definition pad_to (n : nat) (l : list N) : list N := firstn n (l ++ repeat 0%N n).

(** data[a:b] with cap = len: None = panic *)
Definition slice (d : list N) (a b : nat) : option (list N) :=
  if (a <=? b)%nat && (b <=? length d)%nat then Some (firstn (b - a) (skipn a d)) else None.

(** ---- node type flags ---- *)
Definition is_value (ty : N) := N.testbit ty 1.
Definition is_edge (ty : N) := N.testbit ty 2.
Definition is_withmeta (ty : N) := N.testbit ty 4.
Definition mk_value (ty : N) := N.setbit ty 1.
Definition mk_edge (ty : N) := N.setbit ty 2.
Definition mk_pathsep (ty : N) := N.setbit ty 3.
Definition mk_not_pathsep (ty : N) := N.clearbit ty 3.
Definition mk_withmeta (ty : N) := N.setbit ty 4.

Definition set_ty (n : node) (ty : N) : node :=
  Node ty (n_rbs n) (n_okey n) (n_ref n) (n_entry n) (n_md n) (n_forks n).
Definition set_rbs (n : node) (r : nat) : node :=
  Node (n_ty n) r (n_okey n) (n_ref n) (n_entry n) (n_md n) (n_forks n).
Definition set_okey (n : node) (k : list N) : node :=
  Node (n_ty n) (n_rbs n) k (n_ref n) (n_entry n) (n_md n) (n_forks n).
Definition set_ref (n : node) (r : option (list N)) : node :=
  Node (n_ty n) (n_rbs n) (n_okey n) r (n_entry n) (n_md n) (n_forks n).
Definition set_entry (n : node) (e : list N) : node :=
  Node (n_ty n) (n_rbs n) (n_okey n) (n_ref n) e (n_md n) (n_forks n).
Definition set_md (n : node) (m : meta) : node :=
  Node (n_ty n) (n_rbs n) (n_okey n) (n_ref n) (n_entry n) m (n_forks n).
Definition set_forks (n : node) (f : option forks_t) : node :=
  Node (n_ty n) (n_rbs n) (n_okey n) (n_ref n) (n_entry n) (n_md n) f.

(** [New()] and [NewNodeRef(ref)] *)
Definition new_node : node := Node 0 0 [] None [] [] (Some []).
Definition node_ref (r : option (list N)) : node := Node 0 0 [] r [] [] None.

(** [bytes.IndexRune(path, '/') > 0] *)
Fixpoint index_of_sep (p : list N) (i : nat) : option nat :=
  match p with
  | [] => None
  | c :: p' => if N.eqb c 47 then Some i else index_of_sep p' (S i)
  end.
Definition has_sep_after0 (p : list N) : bool :=
  match index_of_sep p 0 with Some (S _) => true | _ => false end.
Definition upd_pathsep (n : node) (p : list N) : node :=
  set_ty n (if has_sep_after0 p then mk_pathsep (n_ty n) else mk_not_pathsep (n_ty n)).

(** [SetObfuscationKey]: copied into a fresh 32-byte buffer *)
Definition okey32 (k : list N) : list N := pad_to 32 k.

(** the read [n.forks[b]] (a nil map reads as empty) *)
Definition forks_get (n : node) (b : N) : option (list N * node) :=
  match n_forks n with None => None | Some fs => fget fs b end.
(** the write [n.forks[b] = v]: only used where the map is known non-nil *)
Definition put_fork (n : node) (b : N) (v : list N * node) : node :=
  match n_forks n with None => n | Some fs => set_forks n (Some (fset fs b v)) end.

(** ---- JSON fragment ---- *)
Definition safe_char (c : N) : bool :=
  (32 <=? c)%N && (c <=? 126)%N && negb (c =? 34)%N && negb (c =? 92)%N &&
  negb (c =? 60)%N && negb (c =? 62)%N && negb (c =? 38)%N.
Definition safe_str (s : list N) : bool := forallb safe_char s.
Definition meta_safe (m : meta) : bool := forallb (fun kv => safe_str (fst kv) && safe_str (snd kv)) m.

Definition json_str (s : list N) : list N := 34%N :: s ++ [34%N].
Definition json_kv (kv : list N * list N) : list N := json_str (fst kv) ++ [58%N] ++ json_str (snd kv).
Fixpoint json_pairs (m : meta) : list N :=
  match m with
  | [] => []
  | [kv] => json_kv kv
  | kv :: m' => json_kv kv ++ [44%N] ++ json_pairs m'
  end.
Definition json_enc (m : meta) : list N := 123%N :: json_pairs m ++ [125%N].

(** reads the characters of a string up to the closing quote *)
Fixpoint read_str (s : list N) : option (list N * list N) :=
  match s with
  | [] => None
  | c :: s' =>
      if (c =? 34)%N then Some ([], s')
      else if safe_char c then
        match read_str s' with Some (x, r) => Some (c :: x, r) | None => None end
      else None
  end.
Definition read_qstr (s : list N) : option (list N * list N) :=
  match s with c :: s' => if (c =? 34)%N then read_str s' else None | [] => None end.
Definition all_newlines (s : list N) : bool := forallb (fun c => (c =? 10)%N) s.

(** after ["{"]: pairs separated by commas, then ["}"], then only '\n' *)
Fixpoint json_dec_pairs (fuel : nat) (s : list N) : option meta :=
  match fuel with
  | O => None
  | S fuel' =>
      match read_qstr s with
      | Some (k, c :: s1) =>
          if (c =? 58)%N then
            match read_qstr s1 with
            | Some (v, c2 :: s2) =>
                if (c2 =? 125)%N then (if all_newlines s2 then Some [(k, v)] else None)
                else if (c2 =? 44)%N then
                  match json_dec_pairs fuel' s2 with Some m => Some ((k, v) :: m) | None => None end
                else None
            | _ => None
            end
          else None
      | _ => None
      end
  end.
Definition json_dec (s : list N) : option meta :=
  match s with
  | c :: c2 :: s' =>
      if (c =? 123)%N then
        if (c2 =? 125)%N then (if all_newlines s' then Some [] else None)
        else json_dec_pairs (length s) (c2 :: s')
      else None
  | _ => None
  end.

(** ---- marshal.go ---- *)

(** "mantaray:0.1" / "mantaray:0.2" Keccak-256, first 31 bytes (version01HashBytes, version02HashBytes) *)
Definition v01hash : list N :=
  [2;81;132;120;157;99;99;87;102;215;140;65;144;1;150;181;125;116;0;135;94;190;77;155;93;30;118;189;150;82;169]%N.
Definition v02hash : list N :=
  [87;104;179;182;167;219;86;210;29;26;191;244;13;65;206;191;200;52;72;254;216;215;233;176;110;192;211;176;115;242;143]%N.

Fixpoint list_eqb_N (a b : list N) : bool :=
  match a, b with
  | [], [] => true
  | x :: a', y :: b' => N.eqb x y && list_eqb_N a' b'
  | _, _ => false
  end.

(** [encryptDecrypt] applied block-wise from offset 32: byte [j] of each 32-byte block is xor-ed with [key[j % len(key)]] *)
Fixpoint xor_at (key : list N) (j : nat) (l : list N) : list N :=
  match l with
  | [] => []
  | x :: l' => N.lxor x (nth (j mod length key) key 0%N) :: xor_at key (if (S j =? 32)%nat then 0%nat else S j) l'
  end.
Definition obfuscate (key d : list N) : list N := firstn 32 d ++ xor_at key 0 (skipn 32 d).

(** [bitsForBytes]: byte [j] of the index has bit [k mod 8] set for each key [k] with [k / 8 = j] *)
Definition index_byte (keys : list N) (j : N) : N :=
  fold_left (fun acc k => if (k / 8 =? j)%N then N.lor acc (N.shiftl 1 (k mod 8)) else acc) keys 0%N.
Definition index_of (keys : list N) : list N := map (fun j => index_byte keys (N.of_nat j)) (seq 0 32).
Definition get_bit (idx : list N) (i : nat) : bool :=
  N.testbit (nth (i / 8) idx 0%N) (N.of_nat (i mod 8)).
(** the bytes [iter] visits, ascending *)
Definition index_keys (idx : list N) : list nat := filter (get_bit idx) (seq 0 256).

Definition be16 (n : nat) : list N := [N.of_nat (n / 256 mod 256); N.of_nat (n mod 256)].
Definition un_be16 (l : list N) : nat :=
  match l with [a; b] => N.to_nat a * 256 + N.to_nat b | _ => 0 end.

(** metadata JSON plus the '\n' padding *)
Definition pad_json (j : list N) : list N :=
  let sz := (length j + 2)%nat in
  if (sz <? 32)%nat then j ++ repeat 10%N (32 - sz)
  else if (32 <? sz)%nat then j ++ repeat 10%N (32 - sz mod 32)
  else j.

Inductive res (A : Type) := Ok (a : A) | Err (e : err).
Arguments Ok {A} a. Arguments Err {A} e.

(** [fork.bytes()] *)
Definition fork_bytes (prefix : list N) (c : node) : res (list N) :=
  let r := match n_ref c with Some r => r | None => [] end in
  if (256 <? length r)%nat then Err ERefTooLarge else
  let b := [n_ty c; N.of_nat (length prefix mod 256)] ++ pad_to 30 prefix ++ r in
  if is_withmeta (n_ty c) then
    if negb (meta_safe (n_md c)) || (length (n_md c) =? 0)%nat then Err EUnsupported else
    let j := pad_json (json_enc (n_md c)) in
    if (65535 <? N.of_nat (length j))%N then Err EMetaTooLarge
    else Ok (b ++ be16 (length j) ++ j)
  else Ok b.

Fixpoint forks_bytes (fs : forks_t) : res (list N) :=
  match fs with
  | [] => Ok []
  | (_, (prefix, c)) :: fs' =>
      match fork_bytes prefix c with
      | Err e => Err e
      | Ok b => match forks_bytes fs' with Err e => Err e | Ok bs => Ok (b ++ bs) end
      end
  end.

Section WithStore.
Variable addr : list N -> list N.     (* loadsave.Save: data -> reference *)
Variable keygen : list N.             (* obfuscationKeyFn *)

(** [MarshalBinary]: returns the node (its obfuscation key may have been generated) and the bytes *)
Definition marshal (n : node) : node * res (list N) :=
  match n_forks n with
  | None => (n, Err EInvalidInput)
  | Some fs =>
      let n1 := if (length (n_okey n) =? 0)%nat then set_okey n keygen else n in
      let key := n_okey n1 in
      let header := pad_to 32 key ++ v02hash ++ [N.of_nat (n_rbs n mod 256)] in
      let entry := pad_to (n_rbs n) (n_entry n) in
      let index := index_of (map fst fs) in
      match forks_bytes fs with
      | Err e => (n1, Err e)
      | Ok fb => (n1, Ok (obfuscate key (header ++ entry ++ index ++ fb)))
      end
  end.

(** [fork.fromBytes] / [fork.fromBytes02]: [b] is the fork's byte range *)
Definition fork_from (b : list N) (rbs msz : nat) (v02meta : bool) : res (list N * node) :=
  let ty := nth 0 b 0%N in
  let plen := N.to_nat (nth 1 b 0%N) in
  if (plen =? 0)%nat || (30 <? plen)%nat then Err EFork else
  let prefix := firstn plen (skipn 2 b) in
  let r := if v02meta then firstn rbs (skipn 32 b) else skipn 32 b in
  let c := set_ty (node_ref (Some r)) ty in
  if v02meta && (0 <? msz)%nat then
    match json_dec (skipn (32 + rbs + 2) b) with
    | Some m => Ok (prefix, set_md c m)
    | None => Err EUnsupported
    end
  else Ok (prefix, c).

(** the callback of [bb.iter] in the two version branches; state = forks so far and offset *)
Definition parse_fork (v02 : bool) (d : list N) (rbs : nat) (off : nat) : res ((list N * node) * nat) :=
  if v02 then
    if (length d <? off + 1)%nat then Err EFork else
    let ty := nth off d 0%N in
    let fsize := (32 + rbs)%nat in
    if is_withmeta ty then
      if (length d <? off + 32 + rbs + 2)%nat then Err EFork else
      let msz := un_be16 (firstn 2 (skipn (off + fsize) d)) in
      let fsize := (fsize + 2 + msz)%nat in
      match slice d off (off + fsize) with
      | None => Err EPanic
      | Some b => match fork_from b rbs msz true with Err e => Err e | Ok f => Ok (f, (off + fsize)%nat) end
      end
    else
      if (length d <? off + 32 + rbs)%nat then Err EFork else
      match slice d off (off + fsize) with
      | None => Err EPanic
      | Some b => match fork_from b rbs 0 false with Err e => Err e | Ok f => Ok (f, (off + fsize)%nat) end
      end
  else
    if (length d <? off + 32 + rbs)%nat then Err EFork else
    match slice d off (off + 32 + rbs) with
    | None => Err EPanic
    | Some b => match fork_from b rbs 0 false with Err e => Err e | Ok f => Ok (f, (off + 32 + rbs)%nat) end
    end.

Fixpoint parse_forks (v02 : bool) (d : list N) (rbs : nat) (keys : list nat) (off : nat) (acc : forks_t)
  : forks_t * option err :=
  match keys with
  | [] => (acc, None)
  | k :: keys' =>
      match parse_fork v02 d rbs off with
      | Err e => (acc, Some e)
      | Ok (f, off') => parse_forks v02 d rbs keys' off' (acc ++ [(N.of_nat k, f)])
      end
  end.

(** [UnmarshalBinary]: the receiver keeps nodeType, refBytesSize, ref, metadata *)
Definition unmarshal (n : node) (data : list N) : node * option err :=
  if (length data <? 64)%nat then (n, Some ETooShort) else
  let key := firstn 32 data in
  let n1 := set_okey n key in
  let d := obfuscate key data in
  let vh := firstn 31 (skipn 32 d) in
  let is01 := list_eqb_N vh v01hash in
  let is02 := list_eqb_N vh v02hash in
  if negb (is01 || is02) then (n1, Some EVersion) else
  let rbs := N.to_nat (nth 63 d 0%N) in
  match slice d 64 (64 + rbs) with
  | None => (n1, Some EPanic)
  | Some entry =>
      let n2 := set_entry n1 entry in
      let off := (64 + rbs)%nat in
      if is01 then
        let idx := pad_to 32 (skipn off d) in
        let '(fs, e) := parse_forks false d rbs (index_keys idx) (off + 32) [] in
        (set_forks n2 (Some fs), e)
      else
        match slice d off (off + 32) with
        | None => (n2, Some EPanic)
        | Some idx =>
            let n3 := if negb (list_eqb_N idx (repeat 0%N 32)) && negb (is_edge (n_ty n2))
                      then set_ty n2 (mk_edge (n_ty n2)) else n2 in
            let '(fs, e) := parse_forks true d rbs (index_keys idx) (off + 32) [] in
            (set_forks n3 (Some fs), e)
        end
  end.

(** ---- persist.go over the content-addressed store ---- *)
Definition store := list (list N * list N).    (* reference -> data, first write wins *)
Fixpoint st_get (st : store) (r : list N) : option (list N) :=
  match st with
  | [] => None
  | (r', d) :: st' => if list_eqb_N r r' then Some d else st_get st' r
  end.
Definition st_put (st : store) (r d : list N) : store :=
  match st_get st r with Some _ => st | None => st ++ [(r, d)] end.

(** [n.load]: no-op when [ref == nil] *)
Definition load (st : store) (n : node) : node * option err :=
  match n_ref n with
  | None => (n, None)
  | Some r =>
      match st_get st r with
      | None => (n, Some ELoad)
      | Some data => unmarshal n data
      end
  end.
Definition load_if_nil (st : store) (n : node) : node * option err :=
  match n_forks n with None => load st n | Some _ => (n, None) end.

(** ---- node.go ---- *)
Inductive lres := LFound (m : node) | LErr (e : err).

Fixpoint lookup_node (fuel : nat) (st : store) (n : node) (p : path) : node * lres :=
  match fuel with
  | O => (n, LErr EFuel)
  | S fuel' =>
      let '(n1, le) := load_if_nil st n in
      match le with
      | Some e => (n1, LErr e)
      | None =>
          match p with
          | [] => (n1, LFound n1)
          | b :: _ =>
              match forks_get n1 b with
              | None => (n1, LErr ENotFound)
              | Some (prefix, c) =>
                  let cm := common prefix p in
                  if (length cm =? length prefix)%nat then
                    let '(c', r) := lookup_node fuel' st c (skipn (length cm) p) in
                    (put_fork n1 b (prefix, c'), r)
                  else (n1, LErr ENotFound)
              end
          end
      end
  end.

Fixpoint has_prefix (fuel : nat) (st : store) (n : node) (p : path) : node * res bool :=
  match fuel with
  | O => (n, Err EFuel)
  | S fuel' =>
      let '(n1, le) := load_if_nil st n in
      match le with
      | Some e => (n1, Err e)
      | None =>
          match p with
          | [] => (n1, Ok true)
          | b :: _ =>
              match forks_get n1 b with
              | None => (n1, Ok false)
              | Some (prefix, c) =>
                  let cm := common prefix p in
                  if (length cm =? length prefix)%nat then
                    let '(c', r) := has_prefix fuel' st c (skipn (length cm) p) in
                    (put_fork n1 b (prefix, c'), r)
                  else (n1, Ok (is_prefix p prefix))
              end
          end
      end
  end.

(** the value part of [Add] on a node: entry, value flag, metadata if non-empty *)
Definition set_value (n : node) (e : list N) (m : meta) : node :=
  let n1 := set_ty (set_entry n e) (mk_value (n_ty n)) in
  if (0 <? length m)%nat then set_ty (set_md n1 m) (mk_withmeta (n_ty n1)) else n1.

(** a fresh child as made by [Add]: [New()], obfuscation key and refBytesSize of the parent *)
Definition fresh_child (n : node) : node :=
  let nn := if (0 <? length (n_okey n))%nat then set_okey new_node (okey32 (n_okey n)) else new_node in
  set_rbs nn (n_rbs n).

(** the refBytesSize bookkeeping at the head of [Add] *)
Definition add_chk (n : node) (e : list N) : node * option err :=
  if (n_rbs n =? 0)%nat then
    if (256 <? length e)%nat then (n, Some EEntrySize)
    else (if (0 <? length e)%nat then set_rbs n (length e) else n, None)
  else if (0 <? length e)%nat && negb (n_rbs n =? length e)%nat then (n, Some EEntrySize)
  else (n, None).

(** [if n.forks == nil { load; n.ref = nil }] *)
Definition add_load (st : store) (n0 : node) : node * option err :=
  match n_forks n0 with
  | None => let '(x, le) := load st n0 in
            (match le with None => set_ref x None | Some _ => x end, le)
  | Some _ => (n0, None)
  end.

Definition mk_edge_node (n : node) : node := set_ty n (mk_edge (n_ty n)).

(** the new value node for a path without a fork (at most 30 bytes) *)
Definition leaf_node (n1 : node) (p e : list N) (m : meta) : node :=
  let nn1 := set_entry (fresh_child n1) e in
  let nn2 := if (0 <? length m)%nat then set_ty (set_md nn1 m) (mk_withmeta (n_ty nn1)) else nn1 in
  upd_pathsep (set_ty nn2 (mk_value (n_ty nn2))) p.

(** the node inserted when an edge is split: it keeps the old child [c1] under the remainder
    [rest] of the old prefix; it is a value node when the added path ends here *)
Definition split_node (n1 : node) (rest : list N) (c1 : node) (full : bool) : node :=
  let x := set_forks (fresh_child n1) (Some [(hd 0%N rest, (rest, c1))]) in
  let x := mk_edge_node x in
  if full then set_ty x (mk_value (n_ty x)) else x.

Fixpoint add (fuel : nat) (st : store) (n : node) (p e : list N) (m : meta) : node * option err :=
  match fuel with
  | O => (n, Some EFuel)
  | S fuel' =>
      match add_chk n e with
      | (n0, Some er) => (n0, Some er)
      | (n0, None) =>
          match p with
          | [] => (set_ref (set_value n0 e m) None, None)
          | b :: _ =>
              match add_load st n0 with
              | (n1, Some er) => (n1, Some er)
              | (n1, None) =>
                  match forks_get n1 b with
                  | None =>
                      if (30 <? length p)%nat then
                        (* prefix size limit: the first 30 bytes here, the rest below a fresh node *)
                        match add fuel' st (fresh_child n1) (skipn 30 p) e m with
                        | (_, Some x) => (n1, Some x)
                        | (nn1, None) =>
                            match n_forks n1 with
                            | None => (n1, Some EPanic)      (* assignment to entry in nil map *)
                            | Some _ =>
                                (mk_edge_node (put_fork n1 b (firstn 30 p, upd_pathsep nn1 (firstn 30 p))), None)
                            end
                        end
                      else
                        match n_forks n1 with
                        | None => (n1, Some EPanic)
                        | Some _ => (mk_edge_node (put_fork n1 b (p, leaf_node n1 p e m)), None)
                        end
                  | Some (prefix, c) =>
                      let cm := common prefix p in
                      let rest := skipn (length cm) prefix in
                      (* [f.Node.updateIsWithPathSeparator(rest)] happens only when rest is non-empty *)
                      let nn := upd_pathsep
                                  (match rest with
                                   | [] => c
                                   | _ :: _ => split_node n1 rest (upd_pathsep c rest) (length p =? length cm)%nat
                                   end) p in
                      match add fuel' st nn (skipn (length cm) p) e m with
                      | (nn', Some x) =>
                          (* the old fork stays; its node was mutated in place *)
                          (put_fork n1 b (prefix, match rest with [] => nn' | _ :: _ => upd_pathsep c rest end), Some x)
                      | (nn', None) => (mk_edge_node (put_fork n1 b (cm, nn')), None)
                      end
                  end
              end
          end
      end
  end.

Fixpoint remove (fuel : nat) (st : store) (n : node) (p : path) : node * option err :=
  match fuel with
  | O => (n, Some EFuel)
  | S fuel' =>
      match p with
      | [] => (n, Some EEmptyPath)
      | b :: _ =>
          let '(n1, le) := load_if_nil st n in
          match le with
          | Some e => (n1, Some e)
          | None =>
              match forks_get n1 b with
              | None => (n1, Some ENotFound)
              | Some (prefix, c) =>
                  if is_prefix prefix p then
                    let rest := skipn (length prefix) p in
                    match rest with
                    | [] => (match n_forks n1 with
                             | Some fs => set_forks n1 (Some (fdel fs b))
                             | None => n1 end, None)
                    | _ :: _ =>
                        let '(c', er) := remove fuel' st c rest in
                        (put_fork n1 b (prefix, c'), er)
                    end
                  else (n1, Some ENotFound)
              end
          end
      end
  end.

(** [save]: children first (ascending; Go runs them concurrently, the store is content addressed),
    then marshal, store, drop the forks.  [log] collects every payload handed to the saver. *)
Definition save_res := (node * store * list (list N) * option err)%type.

(** the loop over the forks, [sv] = the recursive call; stops at the first error *)
Fixpoint save_forks (sv : store -> list (list N) -> node -> save_res) (fs : forks_t)
  (st : store) (log : list (list N)) : forks_t * store * list (list N) * option err :=
  match fs with
  | [] => ([], st, log, None)
  | (k, (prefix, c)) :: fs' =>
      let '(c', st1, log1, e) := sv st log c in
      match e with
      | Some x => ((k, (prefix, c')) :: fs', st1, log1, Some x)
      | None =>
          let '(fs2, st2, log2, e2) := save_forks sv fs' st1 log1 in
          ((k, (prefix, c')) :: fs2, st2, log2, e2)
      end
  end.

(** the tail of [save] once the children are saved: MarshalBinary, Save, [n.forks = nil] *)
Definition save_self (st : store) (log : list (list N)) (n1 : node) : save_res :=
  match marshal n1 with
  | (n2, Err x) => (n2, st, log, Some x)
  | (n2, Ok bytes) =>
      let r := addr bytes in
      (set_forks (set_ref n2 (Some r)) None, st_put st r bytes, log ++ [bytes], None)
  end.

Fixpoint save (fuel : nat) (st : store) (log : list (list N)) (n : node) : save_res :=
  match fuel with
  | O => (n, st, log, Some EFuel)
  | S fuel' =>
      match n_ref n with
      | Some _ => (n, st, log, None)
      | None =>
          match n_forks n with
          | None => save_self st log n            (* ranging over a nil map: no children *)
          | Some fs =>
              let '(fs', st1, log1, e) := save_forks (save fuel') fs st log in
              let n1 := set_forks n (Some fs') in
              match e with
              | Some x => (n1, st1, log1, Some x)
              | None => save_self st1 log1 n1
              end
          end
      end
  end.

(** [Store(ctx, storeSizeFn...)]: the saver is [mantarayLoadSaver] (pkg/manifest/mantaray.go),
    whose [Save] runs the size callbacks on [len(data)] BEFORE handing the data to the real
    saver; a rejected node is not stored and [Save] returns a nil reference with the error, so
    [n.ref, err = s.Save(..)] leaves [ref = nil] and the forks in memory.  The callbacks the
    harness installs are one cumulative byte budget: [total += len(data); total > budget -> error]
    ([budget], [total] : N). *)
Definition save_self_cb (budget total : N) (st : store) (log : list (list N)) (n1 : node) : save_res * N :=
  match marshal n1 with
  | (n2, Err x) => ((n2, st, log, Some x), total)
  | (n2, Ok bytes) =>
      let total' := (total + N.of_nat (length bytes))%N in
      if (budget <? total')%N then ((n2, st, log, Some ESizeFn), total')
      else
        let r := addr bytes in
        ((set_forks (set_ref n2 (Some r)) None, st_put st r bytes, log ++ [bytes], None), total')
  end.

Fixpoint save_forks_cb (sv : N -> store -> list (list N) -> node -> save_res * N) (fs : forks_t)
  (total : N) (st : store) (log : list (list N)) : (forks_t * store * list (list N) * option err) * N :=
  match fs with
  | [] => (([], st, log, None), total)
  | (k, (prefix, c)) :: fs' =>
      let '((c', st1, log1, e), t1) := sv total st log c in
      match e with
      | Some x => (((k, (prefix, c')) :: fs', st1, log1, Some x), t1)
      | None =>
          let '((fs2, st2, log2, e2), t2) := save_forks_cb sv fs' t1 st1 log1 in
          (((k, (prefix, c')) :: fs2, st2, log2, e2), t2)
      end
  end.

Fixpoint save_cb (fuel : nat) (budget total : N) (st : store) (log : list (list N)) (n : node) : save_res * N :=
  match fuel with
  | O => ((n, st, log, Some EFuel), total)
  | S fuel' =>
      match n_ref n with
      | Some _ => ((n, st, log, None), total)
      | None =>
          match n_forks n with
          | None => save_self_cb budget total st log n
          | Some fs =>
              let '((fs', st1, log1, e), t1) := save_forks_cb (save_cb fuel' budget) fs total st log in
              let n1 := set_forks n (Some fs') in
              match e with
              | Some x => ((n1, st1, log1, Some x), t1)
              | None => save_self_cb budget t1 st1 log1 n1
              end
          end
      end
  end.

Fixpoint height (n : node) : nat :=
  match n with
  | Node _ _ _ _ _ _ fs =>
      match fs with
      | None => 1
      | Some l => S (fold_right (fun kf acc => let '(_, (_, c)) := kf in Nat.max (height c) acc) 0 l)
      end
  end.

(** ---- pkg/manifest/mantaray.go: the wrapper as a state machine ---- *)
Record mstate := MState {
  ms_root : node;
  ms_st : store;
  ms_log : list (list N);          (* payloads saved so far *)
  ms_last : option (list N)        (* address returned by the last successful Store *)
}.

Inductive op :=
| OAdd (p e : list N) (m : meta)
| ORemove (p : list N)
| OLookup (p : list N)
| OHasPrefix (p : list N)
| OStore
| OStoreCb (budget : N)          (* Store(ctx, sizeFn): cumulative byte budget callback *)
| OReload.                          (* NewMantarayManifestReference(last stored address, ls) *)

Inductive obs :=
| BOk                               (* Add / Remove / Reload: nil error *)
| BFound (e : list N) (m : meta)    (* Lookup *)
| BBool (b : bool)                  (* HasPrefix *)
| BRef (r : list N)                 (* Store *)
| BErr (e : err).

(** [NewMantarayManifest(ls, encrypted)]: the zero key is installed when not encrypted *)
Definition init_root (encrypted : bool) : node :=
  if encrypted then new_node else set_okey new_node (okey32 (repeat 0%N 32)).
Definition init_state (encrypted : bool) : mstate := MState (init_root encrypted) [] [] None.

Definition fuel_of (p : path) : nat := S (S (length p)).

Definition step (s : mstate) (o : op) : mstate * obs :=
  let root := ms_root s in
  let st := ms_st s in
  match o with
  | OAdd p e m =>
      let '(r', er) := add (fuel_of p) st root p e m in
      (MState r' st (ms_log s) (ms_last s), match er with None => BOk | Some x => BErr x end)
  | ORemove p =>
      let '(r', er) := remove (fuel_of p) st root p in
      (MState r' st (ms_log s) (ms_last s), match er with None => BOk | Some x => BErr x end)
  | OLookup p =>
      let '(r', lr) := lookup_node (fuel_of p) st root p in
      (MState r' st (ms_log s) (ms_last s),
       match lr with
       | LFound m => if is_value (n_ty m) then BFound (n_entry m) (n_md m) else BErr ENotFound
       | LErr x => BErr x
       end)
  | OHasPrefix p =>
      let '(r', hr) := has_prefix (fuel_of p) st root p in
      (MState r' st (ms_log s) (ms_last s), match hr with Ok b => BBool b | Err x => BErr x end)
  | OStore =>
      let '(r', st', log', er) := save (height root) st (ms_log s) root in
      match er with
      | Some x => (MState r' st' log' (ms_last s), BErr x)
      | None =>
          let a := match n_ref r' with Some a => a | None => [] end in
          (MState r' st' log' (Some a), BRef a)
      end
  | OStoreCb b =>
      let '((r', st', log', er), _) := save_cb (height root) b 0%N st (ms_log s) root in
      match er with
      | Some x => (MState r' st' log' (ms_last s), BErr x)
      | None =>
          let a := match n_ref r' with Some a => a | None => [] end in
          (MState r' st' log' (Some a), BRef a)
      end
  | OReload =>
      (MState (node_ref (ms_last s)) st (ms_log s) (ms_last s), BOk)
  end.

Fixpoint run (s : mstate) (h : list op) : mstate * list obs :=
  match h with
  | [] => (s, [])
  | o :: h' => let '(s1, b) := step s o in let '(s2, bs) := run s1 h' in (s2, b :: bs)
  end.

End WithStore.

(** ---- specification: a finite map path -> (reference, metadata) as a function ---- *)
Definition spec := path -> option (list N * meta).
Definition spec_empty : spec := fun _ => None.
Definition spec_upd (f : spec) (p : path) (v : option (list N * meta)) : spec :=
  fun q => if list_eqb_N p q then v else f q.
Definition spec_step (f : spec) (o : op) : spec :=
  match o with
  | OAdd p e m => spec_upd f p (Some (e, m))
  | ORemove p => spec_upd f p None
  | _ => f
  end.
Definition spec_run (f : spec) (h : list op) : spec := fold_left spec_step h f.
