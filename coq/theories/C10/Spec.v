(** C10 — the statement side: what a lookup should answer, the domain of the
    property, the excluded input classes.  Definitions only. *)
From Coq Require Import List NArith Bool Arith.
Import ListNotations.
Require Import Aurora.C10.Model.

Section WithStore.
Variable addr : list N -> list N.
Variable keygen : list N.

Definition final_state (enc : bool) (h : list op) : mstate := fst (run addr keygen (init_state enc) h).
Definition lookup_obs (s : mstate) (p : path) : obs := snd (step addr keygen s (OLookup p)).
Definition has_prefix_obs (s : mstate) (p : path) : obs := snd (step addr keygen s (OHasPrefix p)).

(** no two payloads handed to the saver collide under [addr] (decidable; no injectivity is assumed) *)
Definition no_collision (log : list (list N)) : Prop :=
  forall d1 d2, In d1 log -> In d2 log -> addr d1 = addr d2 -> d1 = d2.
Definition no_collisionb (log : list (list N)) : bool :=
  forallb (fun d1 => forallb (fun d2 => implb (list_eqb_N (addr d1) (addr d2)) (list_eqb_N d1 d2)) log) log.
End WithStore.

(** what the property demands of a lookup: exactly the last written entry, or not-found *)
Definition spec_obs (f : spec) (p : path) : obs :=
  match f p with Some (e, m) => BFound e m | None => BErr ENotFound end.
(** ... and of a prefix query *)
Definition spec_has_prefix (f : spec) (p : path) : Prop := exists q v, is_prefix p q = true /\ f q = Some v.

Definition is_byte (b : N) : Prop := (b < 256)%N.

(** the property's own domain: non-empty byte paths, 32-byte references, metadata inside the
    modelled JSON fragment and below the 64 KiB limit of the fork encoding *)
Definition md_ok (m : meta) : Prop :=
  meta_safe m = true /\ (N.of_nat (length (pad_json (json_enc m))) <= 65535)%N.
Definition op_in_domain (o : op) : Prop :=
  match o with
  | OAdd p e m => p <> [] /\ Forall is_byte p /\ length e = 32 /\ md_ok m
  | _ => True
  end.

Definition proper_prefix (p q : path) : Prop := is_prefix p q = true /\ length p < length q.

(** the excluded input classes (each has a [_refuted] witness in Props.v):
    (X1) a removed path that is a proper prefix of a present path;
    (X2) an overwrite of an entry that has metadata by one with empty metadata;
    (X3) add/remove after the first Store (and on a reloaded manifest).
    A Store with size callbacks is inside the discipline when it comes after the first plain Store
    (it returns the cached root) or when its budget is below the size of any node (< 64 bytes):
    a rejected Store, which must leave every later observation unchanged. *)
Definition op_disciplined (f : spec) (stored : bool) (o : op) : Prop :=
  match o with
  | OAdd p e m =>
      stored = false /\ (m = [] -> forall e' m', f p = Some (e', m') -> m' = [])
  | ORemove p => stored = false /\ (forall q, proper_prefix p q -> f q = None)
  | OReload => stored = true
  | OStoreCb b => stored = true \/ (b < 64)%N
  | _ => True
  end.
Definition is_store (o : op) : bool := match o with OStore => true | _ => false end.

Fixpoint disciplined (f : spec) (stored : bool) (h : list op) : Prop :=
  match h with
  | [] => True
  | o :: h' => op_in_domain o /\ op_disciplined f stored o /\ disciplined (spec_step f o) (stored || is_store o) h'
  end.

(** the domain alone, without the exclusions: what the full-strength statement quantifies over *)
Fixpoint in_domain (stored : bool) (h : list op) : Prop :=
  match h with
  | [] => True
  | o :: h' => op_in_domain o /\ (o = OReload -> stored = true) /\ in_domain (stored || is_store o) h'
  end.

(** a small total [addr] for the witnesses: 4 checksum bytes, zero padded to 32 *)
Definition toy_addr (d : list N) : list N :=
  let h := fold_left (fun h b => (h * 257 + b + 1) mod 4294967291)%N d 7%N in
  [h mod 256; (h / 256) mod 256; (h / 65536) mod 256; (h / 16777216) mod 256]%N ++ repeat 0%N 28.
