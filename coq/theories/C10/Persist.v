(** C10 — persistence: [Save] writes a never-saved tree into the content-addressed
    store; lazily loading it back ([load] inside LookupNode/HasPrefix, or a fresh
    [NewNodeRef] after a reload) represents the same tree. *)
From Coq Require Import List NArith Bool Arith Lia Sorted.
Import ListNotations.
Require Import Aurora.C10.Model Aurora.C10.Spec Aurora.C10.Basics Aurora.C10.Trie Aurora.C10.Codec.

(** ---- the store ---- *)
Lemma st_get_app : forall st r r0 d,
  st_get (st ++ [(r, d)]) r0 = match st_get st r0 with Some x => Some x | None => if list_eqb_N r0 r then Some d else None end.
Proof.
  induction st as [|[r1 d1] st IH]; intros r r0 d; simpl; [reflexivity|].
  destruct (list_eqb_N r0 r1); [reflexivity | apply IH].
Qed.

Section WithStore.
Variable addr : list N -> list N.
Variable kg : list N.

(** every stored pair is (addr d, d) for a logged payload d, and every logged payload has an entry *)
Definition store_inv (st : store) (log : list (list N)) : Prop :=
  (forall r d, st_get st r = Some d -> In d log /\ r = addr d) /\
  (forall d, In d log -> st_get st (addr d) <> None).

(** with no collision among the logged payloads the store returns what was saved *)
Definition store_has (st : store) (log : list (list N)) : Prop :=
  forall d, In d log -> st_get st (addr d) = Some d.

Lemma store_inv_has : forall st log, store_inv st log -> no_collision addr log -> store_has st log.
Proof.
  intros st log [Ha Hb] Hnc d Hd. destruct (st_get st (addr d)) as [d'|] eqn:E; [|now apply Hb in Hd].
  destruct (Ha _ _ E) as [Hin Heq]. f_equal. symmetry. now apply Hnc.
Qed.

Lemma store_inv_put : forall st log d, store_inv st log -> store_inv (st_put st (addr d) d) (log ++ [d]).
Proof.
  intros st log d [Ha Hb]. unfold st_put. destruct (st_get st (addr d)) as [d0|] eqn:E.
  - split.
    + intros r d1 H. destruct (Ha _ _ H). split; [apply in_or_app; now left | assumption].
    + intros d1 H. apply in_app_or in H as [H|[<-|[]]]; [now apply Hb | congruence].
  - split.
    + intros r d1 H. rewrite st_get_app in H. destruct (st_get st r) as [x|] eqn:E1.
      * inversion H; subst x. destruct (Ha _ _ E1). split; [apply in_or_app; now left | assumption].
      * destruct (list_eqb_N r (addr d)) eqn:E2; [|discriminate]. inversion H; subst d1.
        apply list_eqb_N_eq in E2. split; [apply in_or_app; right; now left | assumption].
    + intros d1 H. rewrite st_get_app. apply in_app_or in H as [H|[<-|[]]].
      * specialize (Hb _ H). destruct (st_get st (addr d1)); [discriminate | contradiction].
      * rewrite E, list_eqb_N_refl. discriminate.
Qed.

Lemma save_self_inv : forall st log n n' st' log' e, store_inv st log ->
  save_self addr kg st log n = (n', st', log', e) -> store_inv st' log' /\ exists new, log' = log ++ new.
Proof.
  intros st log n n' st' log' e Hi H. unfold save_self in H. destruct (marshal kg n) as [n2 [bytes|x]].
  - inversion H; subst. split; [now apply store_inv_put | eauto].
  - inversion H; subst. split; [assumption | exists []; now rewrite app_nil_r].
Qed.

Lemma save_forks_inv : forall sv fs,
  (forall st log c c' st' log' e, In c (map (fun kf => snd (snd kf)) fs) -> store_inv st log -> sv st log c = (c', st', log', e) ->
     store_inv st' log' /\ exists new, log' = log ++ new) ->
  forall st log fs' st' log' e, store_inv st log -> save_forks sv fs st log = (fs', st', log', e) ->
  store_inv st' log' /\ exists new, log' = log ++ new.
Proof.
  intros sv fs. induction fs as [|[k [pre c]] fs IH]; intros Hsv st log fs' st' log' e Hi H.
  - simpl in H. inversion H; subst. split; [assumption | exists []; now rewrite app_nil_r].
  - cbn [save_forks] in H. destruct (sv st log c) as [[[c1 st1] log1] e1] eqn:E1.
    destruct (Hsv st log c c1 st1 log1 e1) as [Hi1 [new1 Hl1]]; [left; reflexivity | assumption | assumption |].
    destruct e1 as [x|].
    + inversion H; subst. split; [assumption | eauto].
    + destruct (save_forks sv fs st1 log1) as [[[fs2 st2] log2] e2] eqn:E2. inversion H; subst.
      destruct (IH (fun st log c c' st' log' e Hin => Hsv st log c c' st' log' e (or_intror Hin)) st1 (log ++ new1) fs2 st' log' e Hi1 E2)
        as [Hi2 [new2 Hl2]].
      split; [assumption|]. exists (new1 ++ new2). now rewrite app_assoc.
Qed.

Lemma save_inv : forall fuel st log n n' st' log' e, store_inv st log ->
  save addr kg fuel st log n = (n', st', log', e) -> store_inv st' log' /\ exists new, log' = log ++ new.
Proof.
  induction fuel as [|fuel IH]; intros st log n n' st' log' e Hi H.
  - simpl in H. inversion H; subst. split; [assumption | exists []; now rewrite app_nil_r].
  - cbn [save] in H. destruct (n_ref n).
    + inversion H; subst. split; [assumption | exists []; now rewrite app_nil_r].
    + destruct (n_forks n) as [fs|].
      * destruct (save_forks (save addr kg fuel) fs st log) as [[[fs1 st1] log1] e1] eqn:E1.
        destruct (save_forks_inv (save addr kg fuel) fs (fun st log c c' st' log' e _ => IH st log c c' st' log' e) st log fs1 st1 log1 e1 Hi E1)
          as [Hi1 [new1 Hl1]].
        destruct e1 as [x|].
        -- inversion H; subst. split; [assumption | eauto].
        -- destruct (save_self_inv _ _ _ _ _ _ _ Hi1 H) as [Hi2 [new2 Hl2]]. split; [assumption|].
           exists (new1 ++ new2). subst. now rewrite app_assoc.
      * eapply save_self_inv; eassumption.
Qed.

(** the same for the saver with size callbacks *)
Lemma save_self_cb_inv : forall b tot st log n n' st' log' e tot', store_inv st log ->
  save_self_cb addr kg b tot st log n = ((n', st', log', e), tot') -> store_inv st' log' /\ exists new, log' = log ++ new.
Proof.
  intros b tot st log n n' st' log' e tot' Hi H. unfold save_self_cb in H. destruct (marshal kg n) as [n2 [bytes|x]].
  - destruct (b <? tot + N.of_nat (length bytes))%N; inversion H; subst.
    + split; [assumption | exists []; now rewrite app_nil_r].
    + split; [now apply store_inv_put | eauto].
  - inversion H; subst. split; [assumption | exists []; now rewrite app_nil_r].
Qed.

Lemma save_forks_cb_inv : forall sv fs,
  (forall tot st log c c' st' log' e tot', store_inv st log -> sv tot st log c = ((c', st', log', e), tot') ->
     store_inv st' log' /\ exists new, log' = log ++ new) ->
  forall tot st log fs' st' log' e tot', store_inv st log -> save_forks_cb sv fs tot st log = ((fs', st', log', e), tot') ->
  store_inv st' log' /\ exists new, log' = log ++ new.
Proof.
  intros sv fs Hsv. induction fs as [|[k [pre c]] fs IH]; intros tot st log fs' st' log' e tot' Hi H.
  - simpl in H. inversion H; subst. split; [assumption | exists []; now rewrite app_nil_r].
  - cbn [save_forks_cb] in H. destruct (sv tot st log c) as [[[[c1 st1] log1] e1] t1] eqn:E1.
    destruct (Hsv _ _ _ _ _ _ _ _ _ Hi E1) as [Hi1 [new1 Hl1]].
    destruct e1 as [x|].
    + inversion H; subst. split; [assumption | eauto].
    + destruct (save_forks_cb sv fs t1 st1 log1) as [[[[fs2 st2] log2] e2] t2] eqn:E2. inversion H; subst.
      destruct (IH _ _ _ _ _ _ _ _ Hi1 E2) as [Hi2 [new2 Hl2]].
      split; [assumption|]. exists (new1 ++ new2). now rewrite app_assoc.
Qed.

Lemma save_cb_inv : forall fuel b tot st log n n' st' log' e tot', store_inv st log ->
  save_cb addr kg fuel b tot st log n = ((n', st', log', e), tot') -> store_inv st' log' /\ exists new, log' = log ++ new.
Proof.
  induction fuel as [|fuel IH]; intros b tot st log n n' st' log' e tot' Hi H.
  - simpl in H. inversion H; subst. split; [assumption | exists []; now rewrite app_nil_r].
  - cbn [save_cb] in H. destruct (n_ref n).
    + inversion H; subst. split; [assumption | exists []; now rewrite app_nil_r].
    + destruct (n_forks n) as [fs|].
      * destruct (save_forks_cb (save_cb addr kg fuel b) fs tot st log) as [[[[fs1 st1] log1] e1] t1] eqn:E1.
        destruct (save_forks_cb_inv (save_cb addr kg fuel b) fs (fun tot st log c c' st' log' e tot' => IH b tot st log c c' st' log' e tot') _ _ _ _ _ _ _ _ Hi E1)
          as [Hi1 [new1 Hl1]].
        destruct e1 as [x|].
        -- inversion H; subst. split; [assumption | eauto].
        -- destruct (save_self_cb_inv _ _ _ _ _ _ _ _ _ _ Hi1 H) as [Hi2 [new2 Hl2]]. split; [assumption|].
           exists (new1 ++ new2). subst. now rewrite app_assoc.
      * eapply save_self_cb_inv; eassumption.
Qed.

End WithStore.

(** ---- saving a never-saved tree ---- *)
Lemma height_child : forall t fs k pre c, n_forks t = Some fs -> In (k, (pre, c)) fs -> height c < height t.
Proof.
  intros [ty rbs ok rf e md fo] fs k pre c Hf Hin. simpl in Hf. subst fo. cbn [height].
  apply Nat.lt_succ_r. induction fs as [|[k0 [p0 c0]] fs IH]; [destruct Hin|].
  cbn [fold_right]. destruct Hin as [Heq|Hin]; [inversion Heq; subst; lia | specialize (IH Hin); lia].
Qed.

Section WithStore2.
Variable addr : list N -> list N.
Variable kg : list N.
Hypothesis addr_len : forall d, length (addr d) = 32.
Hypothesis kg_len : length kg = 32.

(** the never-saved tree [t] is stored under [a]: its bytes are among the payloads [L], they
    decode to forks that are references to the stored children *)
Inductive Stored (L : list (list N)) : node -> list N -> Prop :=
| StoredI : forall t fs fs' bytes,
    n_forks t = Some fs ->
    Forall2 (fun kf kf' =>
               fst kf' = fst kf /\ fst (snd kf') = fst (snd kf) /\
               n_ty (snd (snd kf')) = n_ty (snd (snd kf)) /\ n_md (snd (snd kf')) = n_md (snd (snd kf)) /\
               exists r', n_ref (snd (snd kf')) = Some r' /\ Stored L (snd (snd kf)) r') fs fs' ->
    (forall m, unmarshal m bytes = (unmarshalled kg (set_forks t (Some fs')) fs' m, None)) ->
    In bytes L ->
    Stored L t (addr bytes).

Definition kid_rel (L : list (list N)) (kf kf' : N * (list N * node)) : Prop :=
  fst kf' = fst kf /\ fst (snd kf') = fst (snd kf) /\
  n_ty (snd (snd kf')) = n_ty (snd (snd kf)) /\ n_md (snd (snd kf')) = n_md (snd (snd kf)) /\
  exists r', n_ref (snd (snd kf')) = Some r' /\ Stored L (snd (snd kf)) r'.

Lemma Stored_len : forall L t a, Stored L t a -> length a = 32.
Proof. intros L t a H. inversion H; subst. apply addr_len. Qed.

(** what [save] returns for one node *)
Definition saved_as (t t' : node) (a : list N) : Prop :=
  n_ref t' = Some a /\ n_forks t' = None /\ n_ty t' = n_ty t /\ n_md t' = n_md t /\
  n_entry t' = n_entry t /\ n_rbs t' = n_rbs t.

Lemma save_forks_ok : forall f fs,
  (forall k pre c st log, In (k, (pre, c)) fs ->
     exists c' st' new a, save addr kg f st log c = (c', st', log ++ new, None) /\ saved_as c c' a /\
       forall L, incl (log ++ new) L -> Stored L c a) ->
  forall st log, exists fs' st' new,
    save_forks (save addr kg f) fs st log = (fs', st', log ++ new, None) /\
    forall L, incl (log ++ new) L -> Forall2 (kid_rel L) fs fs'.
Proof.
  intros f fs. induction fs as [|[k [pre c]] fs IH]; intros Hsv st log.
  - exists [], st, []. rewrite app_nil_r. split; [reflexivity | constructor].
  - destruct (Hsv k pre c st log (or_introl eq_refl)) as [c' [st1 [new1 [a [Hs [[R1 [R2 [R3 [R4 [R5 R6]]]]] Hst]]]]]].
    destruct (IH (fun k pre c st log Hin => Hsv k pre c st log (or_intror Hin)) st1 (log ++ new1)) as [fs2 [st2 [new2 [Hs2 Hrel]]]].
    exists ((k, (pre, c')) :: fs2), st2, (new1 ++ new2). cbn [save_forks]. rewrite Hs, Hs2. rewrite app_assoc.
    split; [reflexivity|]. intros L HL. constructor.
    + unfold kid_rel. cbn [fst snd]. repeat split; auto. exists a. split; [assumption|]. apply Hst.
      intros x Hx. apply HL. rewrite <- app_assoc. apply in_app_or in Hx. apply in_or_app. destruct Hx; [now left | right; apply in_or_app; now left].
    + apply Hrel. intros x Hx. apply HL. now rewrite <- app_assoc in Hx |- *.
Qed.

Lemma Forall2_keys : forall L fs fs', Forall2 (kid_rel L) fs fs' -> map fst fs' = map fst fs.
Proof. intros L fs fs' H. induction H as [|x y l l' [Hk _] _ IH]; [reflexivity|]. cbn [map]. now rewrite Hk, IH. Qed.

Lemma kids_child_ok : forall L fs fs', Forall2 (kid_rel L) fs fs' ->
  (forall kf, In kf fs -> fork_ok (fst kf) (fst (snd kf)) /\ local_ok (snd (snd kf))) ->
  Forall (fun kf => fork_ok (fst kf) (fst (snd kf)) /\ child_ok 32 (snd (snd kf))) fs'.
Proof.
  intros L fs fs' H. induction H as [|kf kf' l l' [Hk [Hp [Hty [Hmd [r' [Hr' Hst]]]]]] Hrest IH]; intros Hall; [constructor|].
  destruct (Hall kf (or_introl eq_refl)) as [Hfk [_ [_ [_ [Hwm Hmdok]]]]].
  constructor; [|apply IH; intros kf0 Hin; apply Hall; now right].
  rewrite Hk, Hp. split; [exact Hfk|]. split; [|rewrite Hty, Hmd; split; assumption].
  exists r'. split; [exact Hr' | exact (Stored_len _ _ _ Hst)].
Qed.

Lemma save_ok : forall f st log t,
  height t <= f -> tree_ok t -> (length (n_okey t) = 0 \/ length (n_okey t) = 32) ->
  (n_rbs t = 32 \/ (n_rbs t = 0 /\ n_forks t = Some [])) ->
  exists t' st' new a, save addr kg f st log t = (t', st', log ++ new, None) /\ saved_as t t' a /\
    forall L, incl (log ++ new) L -> Stored L t a.
Proof.
  induction f as [|f IH]; intros st log t Hh Hok Hkey Hrbs.
  { destruct t as [? ? ? ? ? ? [?|]]; simpl in Hh; lia. }
  destruct (tree_ok_inv t Hok) as [fs [Hfs [Href [Hs Hall]]]].
  cbn [save]. rewrite Href, Hfs.
  destruct (save_forks_ok f fs) with (st := st) (log := log) as [fs' [st1 [new1 [Hsf Hrel]]]].
  { intros k pre c st0 log0 Hin.
    destruct (Hall k pre c (In_fget fs k (pre, c) Hs Hin)) as [Hfk [Hcr [Hcl Hct]]].
    apply IH; auto.
    - pose proof (height_child t fs k pre c Hfs Hin). lia.
    - apply Hcl. }
  rewrite Hsf.
  pose proof (Hrel (log ++ new1) (incl_refl _)) as Hrel1.
  (* marshal the node with its saved children *)
  set (n1 := set_forks t (Some fs')).
  assert (Hkeys : map fst fs' = map fst fs) by (eapply Forall2_keys; eassumption).
  destruct (marshal_unmarshal kg n1 fs') as [bytes [Hm [_ Hun]]].
  { reflexivity. }
  { unfold keys_sorted. rewrite Hkeys. exact Hs. }
  { subst n1. simpl. destruct Hrbs as [H|[H _]]; rewrite H; lia. }
  { subst n1. unfold eff_key. cbn [n_okey set_forks]. destruct Hkey as [H|H]; rewrite H; cbn [Nat.eqb]; [exact kg_len | exact H]. }
  { subst n1. cbn [n_rbs set_forks].
    destruct fs as [|kf0 fs0].
    - inversion Hrel1; subst. constructor.
    - assert (Hr32 : n_rbs t = 32).
      { destruct Hrbs as [H|[_ H]]; [exact H|]. rewrite Hfs in H. discriminate H. }
      rewrite Hr32. apply (kids_child_ok _ _ _ Hrel1).
      intros [k [pre c]] Hin. destruct (Hall k pre c (In_fget _ k (pre, c) Hs Hin)) as [? [? [? ?]]]. auto. }
  unfold save_self. fold n1. rewrite Hm.
  eexists. exists (st_put st1 (addr bytes) bytes), (new1 ++ [bytes]), (addr bytes).
  rewrite app_assoc. split; [reflexivity|]. split.
  - unfold saved_as. subst n1. destruct (length (n_okey (set_forks t (Some fs'))) =? 0); simpl; repeat split; reflexivity.
  - intros L HL. apply (StoredI L t fs fs' bytes Hfs).
    + apply Hrel. intros x Hx. apply HL. rewrite <- app_assoc. apply in_app_or in Hx. apply in_or_app.
      destruct Hx as [Hx|Hx]; [now left | right; apply in_or_app; now left].
    + exact Hun.
    + apply HL. rewrite <- app_assoc. apply in_or_app. right. apply in_or_app. right. now left.
Qed.

End WithStore2.

(** ---- lazily loaded nodes represent the stored tree ---- *)
Lemma is_prefix_common : forall a b, is_prefix a b = true -> common a b = a.
Proof.
  induction a as [|x a IH]; intros b H; [reflexivity|]. destruct b as [|y b]; [discriminate|].
  simpl in *. apply andb_true_iff in H as [H1 H2]. rewrite H1. f_equal. now apply IH.
Qed.

Section WithStore3.
Variable addr : list N -> list N.
Variable kg : list N.

(** [m] (a node of the model state, possibly not loaded) represents the never-saved tree [t] *)
Inductive Rep (L : list (list N)) : node -> node -> Prop :=
| RepLazy : forall m t a, n_forks m = None -> n_ref m = Some a -> Stored addr kg L t a -> Rep L m t
| RepLoaded : forall m t fs ts, n_forks m = Some fs -> n_forks t = Some ts ->
    n_entry m = pad_to (n_rbs t) (n_entry t) ->
    Forall2 (fun kf kt => fst kf = fst kt /\ fst (snd kf) = fst (snd kt) /\
               is_value (n_ty (snd (snd kf))) = is_value (n_ty (snd (snd kt))) /\
               n_md (snd (snd kf)) = n_md (snd (snd kt)) /\
               Rep L (snd (snd kf)) (snd (snd kt))) fs ts ->
    Rep L m t.

Definition fork_rel (L : list (list N)) (kf kt : N * (list N * node)) : Prop :=
  fst kf = fst kt /\ fst (snd kf) = fst (snd kt) /\
  is_value (n_ty (snd (snd kf))) = is_value (n_ty (snd (snd kt))) /\
  n_md (snd (snd kf)) = n_md (snd (snd kt)) /\
  Rep L (snd (snd kf)) (snd (snd kt)).

Lemma fork_rel_keys : forall L fs ts, Forall2 (fork_rel L) fs ts -> map fst fs = map fst ts.
Proof. intros L fs ts H. induction H as [|x y l l' [Hk _] _ IH]; [reflexivity|]. cbn [map]. now rewrite Hk, IH. Qed.

Lemma fork_rel_fget : forall L fs ts, Forall2 (fork_rel L) fs ts -> forall b,
  (fget fs b = None /\ fget ts b = None) \/
  (exists pre cm ct, fget fs b = Some (pre, cm) /\ fget ts b = Some (pre, ct) /\
     is_value (n_ty cm) = is_value (n_ty ct) /\ n_md cm = n_md ct /\ Rep L cm ct).
Proof.
  intros L fs ts H. induction H as [|[k [pre cm]] [k' [pre' ct]] l l' [Hk [Hp [Hv [Hm Hr]]]] _ IH]; intros b.
  - left. split; reflexivity.
  - cbn [fst snd] in *. subst k' pre'. cbn [fget]. destruct (N.eqb b k); [|apply IH].
    right. exists pre, cm, ct. repeat split; auto.
Qed.

Lemma fork_rel_fset : forall L fs ts b pre cm cm' ct, Forall2 (fork_rel L) fs ts -> keys_sorted fs ->
  fget fs b = Some (pre, cm) -> fget ts b = Some (pre, ct) ->
  is_value (n_ty cm') = is_value (n_ty ct) -> n_md cm' = n_md ct -> Rep L cm' ct ->
  Forall2 (fork_rel L) (fset fs b (pre, cm')) ts.
Proof.
  intros L fs ts b pre cm cm' ct H. induction H as [|[k [p0 c0]] [k' [p0' c0']] l l' Hrel Hrest IH]; intros Hs Hg Hg' Hv Hm Hr.
  - discriminate Hg.
  - destruct Hrel as [Hk [Hp [Hv0 [Hm0 Hr0]]]]. cbn [fst snd] in *. subst k' p0'.
    cbn [fget] in Hg, Hg'. cbn [fset]. inversion Hs as [|? ? Hs' Hlt]; subst.
    destruct (N.eqb b k) eqn:E.
    + apply N.eqb_eq in E. subst b. inversion Hg; inversion Hg'; subst. constructor; [|assumption].
      unfold fork_rel. cbn [fst snd]. auto.
    + assert (Hbk : (b <? k)%N = false).
      { apply N.ltb_ge. apply fget_In in Hg. assert (Hin : In b (map fst l)) by (apply in_map_iff; now exists (b, (pre, cm))).
        rewrite Forall_forall in Hlt. specialize (Hlt b Hin). lia. }
      rewrite Hbk. constructor; [unfold fork_rel; cbn [fst snd]; auto|]. now apply IH.
Qed.

Hypothesis addr_len : forall d, length (addr d) = 32.

(** loading a lazy node that represents [t] *)
Lemma load_rep : forall L st m t a, store_has addr st L ->
  n_forks m = None -> n_ref m = Some a -> Stored addr kg L t a ->
  exists m' fs ts, load st m = (m', None) /\ n_forks m' = Some fs /\ n_forks t = Some ts /\
    Forall2 (fork_rel L) fs ts /\ n_entry m' = pad_to (n_rbs t) (n_entry t) /\
    is_value (n_ty m') = is_value (n_ty m) /\ n_md m' = n_md m /\ n_ref m' = n_ref m.
Proof.
  intros L st m t a Hst Hf Hr HS. inversion HS as [t0 fs fs' bytes Hfs Hkids Hun Hin]; subst.
  unfold load. rewrite Hr, (Hst bytes Hin), Hun.
  exists (unmarshalled kg (set_forks t (Some fs')) fs' m), (map stub_fork fs'), fs.
  assert (Hfields : n_entry (unmarshalled kg (set_forks t (Some fs')) fs' m) = pad_to (n_rbs t) (n_entry t) /\
                    is_value (n_ty (unmarshalled kg (set_forks t (Some fs')) fs' m)) = is_value (n_ty m) /\
                    n_md (unmarshalled kg (set_forks t (Some fs')) fs' m) = n_md m /\
                    n_ref (unmarshalled kg (set_forks t (Some fs')) fs' m) = n_ref m).
  { unfold unmarshalled. cbv zeta.
    match goal with |- context [if ?c then _ else _] => destruct c end;
      cbn [n_ty n_md n_ref n_entry n_rbs set_ty set_entry set_okey set_forks]; autorewrite with flags; repeat split; reflexivity. }
  destruct Hfields as [F1 [F2 [F3 F4]]].
  split; [reflexivity|]. split; [reflexivity|]. split; [exact Hfs|]. split; [|exact (conj F1 (conj F2 (conj F3 (eq_trans F4 Hr))))].
  clear - Hkids. induction Hkids as [|kf kf' l l' [Hk [Hp [Hty [Hmd [r' [Hr' Hst]]]]]] _ IH]; [constructor|].
  cbn [map]. constructor; [|exact IH]. unfold fork_rel, stub_fork, stub. cbn [fst snd n_ty n_md].
  rewrite Hk, Hp, Hty, Hmd. repeat split. apply (RepLazy L _ _ r'); [reflexivity | exact Hr' | exact Hst].
Qed.

Lemma load_if_nil_rep : forall L st m t, store_has addr st L -> Rep L m t ->
  exists m' fs ts, load_if_nil st m = (m', None) /\ n_forks m' = Some fs /\ n_forks t = Some ts /\
    Forall2 (fork_rel L) fs ts /\ n_entry m' = pad_to (n_rbs t) (n_entry t) /\
    is_value (n_ty m') = is_value (n_ty m) /\ n_md m' = n_md m /\ n_ref m' = n_ref m.
Proof.
  intros L st m t Hst HR. inversion HR as [m0 t0 a Hf Hr HS | m0 t0 fs ts Hf Ht He Hk]; subst.
  - unfold load_if_nil. rewrite Hf. eapply load_rep; eassumption.
  - unfold load_if_nil. rewrite Hf. exists m, fs, ts. repeat split; auto.
Qed.

Definition found_as (r : lres) (y : node) : Prop :=
  exists x, r = LFound x /\ is_value (n_ty x) = is_value (n_ty y) /\ n_md x = n_md y /\
            n_entry x = pad_to (n_rbs y) (n_entry y).

Lemma lookup_rep : forall L st, store_has addr st L -> forall f m t p,
  Rep L m t -> tree_ok t -> length p < f ->
  exists m' r, lookup_node f st m p = (m', r) /\ Rep L m' t /\
    is_value (n_ty m') = is_value (n_ty m) /\ n_md m' = n_md m /\ n_ref m' = n_ref m /\
    match p with
    | [] => r = LFound m' /\ n_entry m' = pad_to (n_rbs t) (n_entry t)
    | _ :: _ => match lk (length p) t p with Some y => found_as r y | None => r = LErr ENotFound end
    end.
Proof.
  intros L st Hst. induction f as [|f IH]; intros m t p HR Hok Hlen; [lia|].
  destruct (load_if_nil_rep L st m t Hst HR) as [m1 [fs [ts [Hl [Hf1 [Hft [Hrel [Hen [Hv1 [Hm1 Hr1]]]]]]]]]].
  assert (HR1 : Rep L m1 t) by (eapply RepLoaded; eassumption).
  cbn [lookup_node]. rewrite Hl.
  destruct p as [|b p].
  - exists m1, (LFound m1). repeat split; auto.
  - destruct (tree_ok_inv t Hok) as [ts' [Hft' [_ [Hs Hall]]]]. rewrite Hft in Hft'. inversion Hft'; subst ts'.
    assert (Hsf : keys_sorted fs) by (unfold keys_sorted; rewrite (fork_rel_keys _ _ _ Hrel); exact Hs).
    unfold forks_get at 1. rewrite Hf1. cbn [length lk]. unfold forks_get. rewrite Hft.
    destruct (fork_rel_fget L fs ts Hrel b) as [[Hg Hg']|[pre [cm [ct [Hg [Hg' [Hcv [Hcm Hcr]]]]]]]].
    + rewrite Hg, Hg'. exists m1, (LErr ENotFound). repeat split; auto.
    + rewrite Hg, Hg'. destruct (Hall b pre ct Hg') as [[Hne [Hhd [Hl30 [Hb Hby]]]] [Hrbs [Hloc Hct]]].
      destruct pre as [|x pre]; [contradiction|].
      rewrite common_full_iff. destruct (is_prefix (x :: pre) (b :: p)) eqn:Hp.
      * rewrite (is_prefix_common _ _ Hp).
        change (S (length pre)) with (length (x :: pre)).
        remember (skipn (length (x :: pre)) (b :: p)) as p2 eqn:Hp2.
        assert (Hl2 : length p2 < f) by (subst p2; rewrite skipn_length; simpl in *; lia).
        destruct (IH cm ct _ Hcr Hct Hl2) as [cm' [r [Hlk [HRc [Hv2 [Hm2 [Hr2 Hres]]]]]]].
        rewrite Hlk. exists (put_fork m1 b (x :: pre, cm')), r.
        assert (Hpf : put_fork m1 b (x :: pre, cm') = set_forks m1 (Some (fset fs b (x :: pre, cm')))) by (unfold put_fork; now rewrite Hf1).
        split; [reflexivity|]. split; [|split; [|split; [|split]]]; try (rewrite Hpf; assumption).
        -- rewrite Hpf. apply (RepLoaded L _ t (fset fs b (x :: pre, cm')) ts); [reflexivity | exact Hft | exact Hen |].
           apply (fork_rel_fset L fs ts b (x :: pre) cm cm' ct); auto; congruence.
        -- destruct p2 as [|y q].
           ++ destruct Hres as [Hres He2]. replace (lk (length p) ct []) with (Some ct) by (destruct (length p); reflexivity).
              exists cm'. repeat split; auto; congruence.
           ++ rewrite (lk_fuel (length p) (length (y :: q))); [exact Hres | | lia].
              rewrite Hp2, skipn_length. simpl. lia.
      * exists m1, (LErr ENotFound). repeat split; auto.
Qed.

Lemma has_prefix_rep : forall L st, store_has addr st L -> forall f m t p,
  Rep L m t -> tree_ok t -> length p < f ->
  exists m', has_prefix f st m p = (m', Ok (hp (length p) t p)) /\ Rep L m' t /\
    is_value (n_ty m') = is_value (n_ty m) /\ n_md m' = n_md m /\ n_ref m' = n_ref m.
Proof.
  intros L st Hst. induction f as [|f IH]; intros m t p HR Hok Hlen; [lia|].
  destruct (load_if_nil_rep L st m t Hst HR) as [m1 [fs [ts [Hl [Hf1 [Hft [Hrel [Hen [Hv1 [Hm1 Hr1]]]]]]]]]].
  assert (HR1 : Rep L m1 t) by (eapply RepLoaded; eassumption).
  cbn [has_prefix]. rewrite Hl.
  destruct p as [|b p].
  - exists m1. repeat split; auto.
  - destruct (tree_ok_inv t Hok) as [ts' [Hft' [_ [Hs Hall]]]]. rewrite Hft in Hft'. inversion Hft'; subst ts'.
    assert (Hsf : keys_sorted fs) by (unfold keys_sorted; rewrite (fork_rel_keys _ _ _ Hrel); exact Hs).
    unfold forks_get at 1. rewrite Hf1. cbn [length hp]. unfold forks_get. rewrite Hft.
    destruct (fork_rel_fget L fs ts Hrel b) as [[Hg Hg']|[pre [cm [ct [Hg [Hg' [Hcv [Hcm Hcr]]]]]]]].
    + rewrite Hg, Hg'. exists m1. repeat split; auto.
    + rewrite Hg, Hg'. destruct (Hall b pre ct Hg') as [[Hne [Hhd [Hl30 [Hb Hby]]]] [Hrbs [Hloc Hct]]].
      destruct pre as [|x pre]; [contradiction|].
      rewrite common_full_iff. destruct (is_prefix (x :: pre) (b :: p)) eqn:Hp.
      * rewrite (is_prefix_common _ _ Hp).
        assert (Hl2 : length (skipn (length (x :: pre)) (b :: p)) < f) by (rewrite skipn_length; simpl in *; lia).
        destruct (IH cm ct _ Hcr Hct Hl2) as [cm' [Hlk [HRc [Hv2 [Hm2 Hr2]]]]].
        rewrite Hlk. exists (put_fork m1 b (x :: pre, cm')).
        assert (Hpf : put_fork m1 b (x :: pre, cm') = set_forks m1 (Some (fset fs b (x :: pre, cm')))) by (unfold put_fork; now rewrite Hf1).
        split; [|split; [|split; [|split]]]; try (rewrite Hpf; assumption).
        -- f_equal. f_equal. change (S (length pre)) with (length (x :: pre)).
           assert (Hfu : forall f1 f2 n p, length p <= f1 -> length p <= f2 -> hp f1 n p = hp f2 n p).
           { clear. induction f1 as [|f1 IH]; intros f2 n p H1 H2.
             - destruct p; [destruct f2; reflexivity | simpl in H1; lia].
             - destruct p as [|b p]; [destruct f2; reflexivity|]. destruct f2 as [|f2]; [simpl in H2; lia|].
               simpl. destruct (forks_get n b) as [[[|x pre] c]|]; try reflexivity.
               destruct (N.eqb x b && is_prefix pre p); [|reflexivity].
               simpl in H1, H2. apply IH; rewrite skipn_length; lia. }
           apply Hfu; [lia | rewrite skipn_length; simpl; lia].
        -- rewrite Hpf. apply (RepLoaded L _ t (fset fs b (x :: pre, cm')) ts); [reflexivity | exact Hft | exact Hen |].
           apply (fork_rel_fset L fs ts b (x :: pre) cm cm' ct); auto; congruence.
      * exists m1. repeat split; auto.
Qed.

End WithStore3.

(** ---- a Store whose size callback rejects every node ---- *)
Section Reject.
Variable addr : list N -> list N.
Variable kg : list N.
Hypothesis kg_len : length kg = 32.

(** with a budget below the size of any node the first node that is marshalled is rejected:
    nothing is stored, no reference is left behind; only obfuscation keys may have been
    generated.  The denotation and the well-formedness of the tree are unchanged. *)
Lemma save_cb_reject : forall f b tot st log t,
  height t <= f -> (b < 64)%N -> tree_ok t ->
  (length (n_okey t) = 0 \/ length (n_okey t) = 32) -> (n_rbs t = 32 \/ n_rbs t = 0) ->
  exists t' tot', save_cb addr kg f b tot st log t = ((t', st, log, Some ESizeFn), tot') /\
    tree_ok t' /\ n_ty t' = n_ty t /\ n_rbs t' = n_rbs t /\ n_entry t' = n_entry t /\ n_md t' = n_md t /\
    (length (n_okey t') = 0 \/ length (n_okey t') = 32) /\
    (n_forks t = Some [] -> n_forks t' = Some []) /\
    forall q, den t' q = den t q.
Proof.
  induction f as [|f IH]; intros b tot st log t Hh Hb Hok Hkey Hrbs.
  { destruct t as [? ? ? ? ? ? [?|]]; simpl in Hh; lia. }
  destruct (tree_ok_inv t Hok) as [fs [Hfs [Href [Hs Hall]]]].
  cbn [save_cb]. rewrite Href, Hfs.
  destruct fs as [|[k [pre c]] fs].
  - (* no forks: this node is marshalled and rejected *)
    cbn [save_forks_cb]. unfold save_self_cb.
    match goal with |- context [marshal kg ?x] => destruct (marshal_unmarshal kg x [] eq_refl) as [bytes [Hm [Hlen _]]] end.
    { constructor. }
    { cbn [n_rbs set_forks]. destruct Hrbs as [H|H]; rewrite H; lia. }
    { unfold eff_key. cbn [n_okey set_forks]. destruct Hkey as [H|H]; rewrite H; cbn [Nat.eqb]; [exact kg_len | exact H]. }
    { constructor. }
    rewrite Hm.
    assert (Hrej : (b <? tot + N.of_nat (length bytes))%N = true) by (apply N.ltb_lt; lia).
    rewrite Hrej. eexists. eexists. split; [reflexivity|].
    cbn [n_okey set_forks].
    destruct (length (n_okey t) =? 0) eqn:E; cbn [n_ty n_rbs n_entry n_md n_okey n_forks set_forks set_okey].
    + split; [apply (tree_ok_same_forks t); auto|].
      split; [reflexivity|]. split; [reflexivity|]. split; [reflexivity|]. split; [reflexivity|].
      split; [right; exact kg_len|]. split; [intros _; reflexivity|].
      intros q. apply den_same; [now rewrite Hfs | reflexivity].
    + split; [apply (tree_ok_same_forks t); auto|].
      split; [reflexivity|]. split; [reflexivity|]. split; [reflexivity|]. split; [reflexivity|].
      split; [exact Hkey|]. split; [intros _; reflexivity|].
      intros q. apply den_same; [now rewrite Hfs | reflexivity].
  - (* the first child is tried first and fails *)
    destruct (Hall k pre c) as [Hfk [Hcr [Hcl Hct]]]; [cbn [fget]; now rewrite N.eqb_refl|].
    assert (Hhc : height c <= f).
    { pose proof (height_child t _ k pre c Hfs (or_introl eq_refl)). lia. }
    destruct (IH b tot st log c Hhc Hb Hct ltac:(apply Hcl) ltac:(left; exact Hcr))
      as [c' [tot' [Hsv [Hct' [T1 [T2 [T3 [T4 [T5 [_ Hden]]]]]]]]]].
    cbn [save_forks_cb]. rewrite Hsv.
    assert (Hput : set_forks t (Some ((k, (pre, c')) :: fs)) = put_fork t k (pre, c')).
    { unfold put_fork. rewrite Hfs. cbn [fset]. now rewrite N.eqb_refl. }
    match goal with |- context [set_forks t ?x] => replace (set_forks t x) with (put_fork t k (pre, c')) by (symmetry; exact Hput) end.
    eexists. eexists. split; [reflexivity|].
    assert (Hcl' : local_ok c').
    { destruct Hcl as [_ [L2 [L3 [L4 L5]]]]. unfold local_ok. rewrite T1, T3, T4. auto. }
    split; [apply tree_ok_put_fork; auto; congruence|].
    unfold put_fork. rewrite Hfs. cbn [n_ty n_rbs n_entry n_md n_okey n_forks set_forks].
    repeat split; auto; try (intros H; discriminate H).
    intros q. destruct q as [|y q]; [reflexivity|].
    rewrite !den_cons. unfold forks_get. cbn [n_forks set_forks]. rewrite Hfs. cbn [fset fget]. rewrite N.eqb_refl. cbn [fget].
    destruct (N.eqb y k); [|reflexivity].
    destruct pre as [|x pre]; [reflexivity|]. destruct (is_prefix (x :: pre) (y :: q)); [apply Hden | reflexivity].
Qed.

End Reject.
