(** C10 — the in-memory trie: what [Add]/[Remove]/[LookupNode] do to the denotation
    (path -> value) of a tree that was never saved (every node loaded, no references). *)
From Coq Require Import List NArith Bool Arith Lia Sorted.
Import ListNotations.
Require Import Aurora.C10.Model Aurora.C10.Spec Aurora.C10.Basics.

(** ---- pure lookup and denotation ---- *)
Fixpoint lk (f : nat) (n : node) (p : path) : option node :=
  match p with
  | [] => Some n
  | b :: _ =>
      match f with
      | O => None
      | S f' =>
          match forks_get n b with
          | Some (x :: pre, c) =>
              if is_prefix (x :: pre) p then lk f' c (skipn (S (length pre)) p) else None
          | _ => None
          end
      end
  end.

Definition val_of (m : node) : option (list N * meta) :=
  if is_value (n_ty m) then Some (n_entry m, n_md m) else None.
Definition den (n : node) (p : path) : option (list N * meta) :=
  match lk (length p) n p with Some m => val_of m | None => None end.

Lemma lk_fuel : forall f1 f2 n p, length p <= f1 -> length p <= f2 -> lk f1 n p = lk f2 n p.
Proof.
  induction f1 as [|f1 IH]; intros f2 n p H1 H2.
  - destruct p; [destruct f2; reflexivity | simpl in H1; lia].
  - destruct p as [|b p]; [destruct f2; reflexivity|]. destruct f2 as [|f2]; [simpl in H2; lia|].
    simpl. destruct (forks_get n b) as [[[|x pre] c]|]; try reflexivity.
    destruct (N.eqb x b && is_prefix pre p); [|reflexivity].
    simpl in H1, H2. apply IH; rewrite skipn_length; lia.
Qed.

Lemma den_nil : forall n, den n [] = val_of n.
Proof. reflexivity. Qed.

Lemma den_cons : forall n b q,
  den n (b :: q) =
  match forks_get n b with
  | Some (x :: pre, c) => if is_prefix (x :: pre) (b :: q) then den c (skipn (S (length pre)) (b :: q)) else None
  | _ => None
  end.
Proof.
  intros n b q. unfold den. cbn [length lk].
  destruct (forks_get n b) as [[[|x pre] c]|]; try reflexivity.
  destruct (is_prefix (x :: pre) (b :: q)); [|reflexivity].
  rewrite (lk_fuel (length q) (length (skipn (S (length pre)) (b :: q)))); [reflexivity | | lia].
  simpl. rewrite skipn_length. lia.
Qed.

(** ---- well-formed never-saved trees ---- *)
Definition fork_ok (k : N) (prefix : list N) : Prop :=
  prefix <> [] /\ hd 0%N prefix = k /\ length prefix <= 30 /\ (k < 256)%N /\ Forall is_byte prefix.

Definition local_ok (n : node) : Prop :=
  (length (n_okey n) = 0 \/ length (n_okey n) = 32) /\
  (is_value (n_ty n) = true -> length (n_entry n) = 32) /\
  (is_value (n_ty n) = false -> n_md n = []) /\
  (is_withmeta (n_ty n) = true <-> n_md n <> []) /\
  md_ok (n_md n).

Inductive tree_ok : node -> Prop :=
| TreeOk : forall ty rbs ok e md fs,
    keys_sorted fs ->
    Forall (fun kf => fork_ok (fst kf) (fst (snd kf)) /\ n_rbs (snd (snd kf)) = 32 /\
                      local_ok (snd (snd kf)) /\ tree_ok (snd (snd kf))) fs ->
    tree_ok (Node ty rbs ok None e md (Some fs)).

Lemma md_ok_nil : md_ok [].
Proof. split; [reflexivity|]. vm_compute. discriminate. Qed.

Lemma tree_ok_inv : forall n, tree_ok n ->
  exists fs, n_forks n = Some fs /\ n_ref n = None /\ keys_sorted fs /\
   forall k pre c, fget fs k = Some (pre, c) -> fork_ok k pre /\ n_rbs c = 32 /\ local_ok c /\ tree_ok c.
Proof.
  intros n H. inversion H as [ty rbs ok e md fs Hs Hf]; subst. exists fs. simpl.
  split; [reflexivity|]. split; [reflexivity|]. split; [assumption|].
  intros k pre c Hg. apply fget_In in Hg. rewrite Forall_forall in Hf. apply Hf in Hg. simpl in Hg. exact Hg.
Qed.

Lemma tree_ok_intro : forall n fs, n_forks n = Some fs -> n_ref n = None -> keys_sorted fs ->
  (forall k pre c, In (k, (pre, c)) fs -> fork_ok k pre /\ n_rbs c = 32 /\ local_ok c /\ tree_ok c) -> tree_ok n.
Proof.
  intros [ty rbs ok rf e md fo] fs Hf Hr Hs Hall. simpl in *. subst. constructor; [assumption|].
  apply Forall_forall. intros [k [pre c]] Hin. simpl. now apply Hall.
Qed.

(** setters that do not touch forks/ref keep [tree_ok] *)
Lemma tree_ok_same_forks : forall n n', tree_ok n -> n_forks n' = n_forks n -> n_ref n' = None -> tree_ok n'.
Proof.
  intros n n' H Hf Hr. destruct (tree_ok_inv n H) as [fs [Hfs [_ [Hs Hall]]]].
  apply (tree_ok_intro n' fs); [congruence | assumption | assumption |].
  intros k pre c Hin. apply (Hall k pre c).
  clear - Hs Hin. induction fs as [|[k0 v0] fs IH]; [destruct Hin|]. simpl.
  inversion Hs as [|? ? Hs' Hall]; subst. destruct Hin as [Heq|Hin].
  - inversion Heq; subst. now rewrite N.eqb_refl.
  - destruct (N.eqb k k0) eqn:E; [|now apply IH].
    apply N.eqb_eq in E. subst. rewrite Forall_forall in Hall. exfalso.
    assert (Hk : In k0 (map fst fs)) by (apply in_map_iff; now exists (k0, (pre, c))).
    apply Hall in Hk. simpl in Hk. lia.
Qed.

Lemma In_fget : forall fs k v, keys_sorted fs -> In (k, v) fs -> fget fs k = Some v.
Proof.
  induction fs as [|[k0 v0] fs IH]; intros k v Hs Hin; [destruct Hin|]. simpl.
  inversion Hs as [|? ? Hs' Hall]; subst. destruct Hin as [Heq|Hin].
  - inversion Heq; subst. now rewrite N.eqb_refl.
  - destruct (N.eqb k k0) eqn:E; [|now apply IH].
    apply N.eqb_eq in E. subst. rewrite Forall_forall in Hall. exfalso.
    assert (Hk : In k0 (map fst fs)) by (apply in_map_iff; now exists (k0, v)).
    apply Hall in Hk. simpl in Hk. lia.
Qed.

(** replacing / inserting one well-formed fork keeps [tree_ok] *)
Lemma tree_ok_put_fork : forall n b pre c,
  tree_ok n -> fork_ok b pre -> n_rbs c = 32 -> local_ok c -> tree_ok c -> tree_ok (put_fork n b (pre, c)).
Proof.
  intros n b pre c H Hfk Hr Hl Hc. destruct (tree_ok_inv n H) as [fs [Hfs [Href [Hs Hall]]]].
  unfold put_fork. rewrite Hfs.
  apply (tree_ok_intro _ (fset fs b (pre, c))); [reflexivity | simpl; assumption | now apply fset_sorted |].
  intros k pre' c' Hin. apply fset_In in Hin as [Heq|Hin].
  - inversion Heq; subst. tauto.
  - apply (Hall k pre' c'). now apply In_fget.
Qed.

Lemma forks_get_put_fork : forall n b v b', n_forks n <> None ->
  forks_get (put_fork n b v) b' = if N.eqb b' b then Some v else forks_get n b'.
Proof.
  intros n b v b' H. unfold forks_get, put_fork. destruct (n_forks n) as [fs|]; [|contradiction].
  simpl. apply fget_fset.
Qed.

(** ---- LookupNode on a never-saved tree: no state change, answer = [lk] ---- *)
Lemma lookup_node_pure : forall f st n p, tree_ok n -> length p < f ->
  lookup_node f st n p = (n, match lk (length p) n p with Some m => LFound m | None => LErr ENotFound end).
Proof.
  induction f as [|f IH]; intros st n p Hok Hlen; [lia|].
  destruct (tree_ok_inv n Hok) as [fs [Hfs [Href [Hs Hall]]]].
  cbn [lookup_node]. unfold load_if_nil. rewrite Hfs.
  destruct p as [|b p]; [reflexivity|].
  cbn [length lk]. unfold forks_get at 1 2. rewrite Hfs.
  destruct (fget fs b) as [[pre c]|] eqn:Hg; [|reflexivity].
  destruct (Hall b pre c Hg) as [[Hne [Hhd [Hl30 [Hb Hby]]]] [Hrbs [Hloc Hc]]].
  rewrite common_full_iff.
  destruct pre as [|x pre]; [contradiction|].
  destruct (is_prefix (x :: pre) (b :: p)) eqn:Hp; [|reflexivity].
  assert (Hcm : common (x :: pre) (b :: p) = x :: pre).
  { pose proof (common_full_iff (x :: pre) (b :: p)) as Hc'. rewrite Hp in Hc'. apply Nat.eqb_eq in Hc'.
    pose proof (common_prefix_l (x :: pre) (b :: p)) as Hl. rewrite Hc' in Hl. rewrite skipn_all in Hl.
    now rewrite app_nil_r in Hl. }
  rewrite Hcm. simpl in Hlen.
  rewrite IH; [| assumption | cbn [length]; rewrite skipn_length; simpl; lia].
  unfold put_fork. rewrite Hfs. rewrite (fset_same fs b (x :: pre, c) Hs Hg).
  rewrite (lk_fuel (length (skipn (length (x :: pre)) (b :: p))) (length p));
    [| lia | cbn [length]; rewrite skipn_length; simpl; lia].
  destruct n; simpl in *; subst; reflexivity.
Qed.

(** ---- denotation of small constructions ---- *)
Lemma val_of_set_ty_same_value : forall n t, is_value t = is_value (n_ty n) -> val_of (set_ty n t) = val_of n.
Proof. intros n t H. unfold val_of. simpl. now rewrite H. Qed.

Lemma den_same : forall n n', n_forks n' = n_forks n -> val_of n' = val_of n -> forall q, den n' q = den n q.
Proof.
  intros n n' Hf Hv [|b q]; [now rewrite !den_nil|].
  rewrite !den_cons. unfold forks_get. now rewrite Hf.
Qed.

Lemma den_upd_pathsep : forall n p q, den (upd_pathsep n p) q = den n q.
Proof.
  intros n p q. apply den_same; [reflexivity|]. unfold upd_pathsep. apply val_of_set_ty_same_value.
  destruct (has_sep_after0 p); now autorewrite with flags.
Qed.

Lemma den_no_forks : forall n b q, n_forks n = Some [] -> den n (b :: q) = None.
Proof. intros n b q H. rewrite den_cons. unfold forks_get. now rewrite H. Qed.

Lemma list_eqb_N_cons : forall x a y b, list_eqb_N (x :: a) (y :: b) = N.eqb x y && list_eqb_N a b.
Proof. reflexivity. Qed.

Lemma skipn_eq_iff : forall (a q p : list N), is_prefix a q = true -> is_prefix a p = true ->
  (skipn (length a) q = skipn (length a) p <-> q = p).
Proof.
  intros a q p Hq Hp. apply is_prefix_spec in Hq. apply is_prefix_spec in Hp. split; intros H; [|now subst].
  rewrite Hq, Hp. now rewrite H.
Qed.

Lemma list_eqb_N_skipn : forall (a q p : list N), is_prefix a q = true -> is_prefix a p = true ->
  list_eqb_N (skipn (length a) q) (skipn (length a) p) = list_eqb_N q p.
Proof.
  intros a q p Hq Hp. destruct (list_eqb_N q p) eqn:E.
  - apply list_eqb_N_eq in E. subst. apply list_eqb_N_refl.
  - apply list_eqb_N_neq. intros H. apply (skipn_eq_iff a q p Hq Hp) in H. subst. rewrite list_eqb_N_refl in E. discriminate.
Qed.

Lemma not_prefix_neq : forall a q p, is_prefix a q = false -> is_prefix a p = true -> list_eqb_N q p = false.
Proof. intros a q p Hq Hp. apply list_eqb_N_neq. intros ->. congruence. Qed.

(** metadata that [Add] leaves on the path: the new one, or the old one when the new one is empty *)
Definition old_md (n : node) (p : path) : meta := match den n p with Some (_, om) => om | None => [] end.
Definition new_md (n : node) (p : path) (m : meta) : meta := match m with [] => old_md n p | _ => m end.

Definition set_rbs32 (n : node) : node := set_rbs n 32.

Lemma local_ok_set_value : forall n e m, local_ok n -> length e = 32 -> md_ok m -> local_ok (set_ref (set_value n e m) None).
Proof.
  intros n e m [H1 [H2 [H3 [H4 H5]]]] He Hm. unfold set_value.
  destruct m as [|kv m]; cbn [Nat.ltb Nat.leb length]; unfold local_ok; simpl;
    (split; [exact H1 | split; [intros _; exact He | split; [|split]]]).
  - autorewrite with flags. intros; discriminate.
  - autorewrite with flags. exact H4.
  - exact H5.
  - autorewrite with flags. intros; discriminate.
  - autorewrite with flags. split; intros; [discriminate | reflexivity].
  - exact Hm.
Qed.

Lemma val_of_set_value : forall n e m,
  val_of (set_ref (set_value n e m) None) = Some (e, match m with [] => n_md n | _ => m end).
Proof.
  intros n e m. unfold set_value, val_of. destruct m; simpl; now autorewrite with flags.
Qed.

(** ---- Add ---- *)
Arguments fresh_child : simpl never.
Arguments upd_pathsep : simpl never.
Ltac nsimp := cbn [Nat.eqb Nat.ltb Nat.leb andb negb orb].

Lemma add_chk_ok : forall n e, (n_rbs n = 32 \/ n_rbs n = 0) -> length e = 32 -> add_chk n e = (set_rbs n 32, None).
Proof.
  intros n e [H|H] He; unfold add_chk; rewrite H, He; nsimp; [|reflexivity].
  destruct n; simpl in *; subst; reflexivity.
Qed.

Lemma add_load_loaded : forall st n fs, n_forks n = Some fs -> add_load st n = (n, None).
Proof. intros st n fs H. unfold add_load. now rewrite H. Qed.

(** what [Add] needs of the node it is called on: as [local_ok], but a node that was just made a
    value node by an edge split has no entry yet (the path ends there, the entry is set next) *)
Definition local_pre (n : node) (p : path) : Prop :=
  (length (n_okey n) = 0 \/ length (n_okey n) = 32) /\
  (p <> [] -> is_value (n_ty n) = true -> length (n_entry n) = 32) /\
  (is_value (n_ty n) = false -> n_md n = []) /\
  (is_withmeta (n_ty n) = true <-> n_md n <> []) /\
  md_ok (n_md n).

Lemma local_ok_pre : forall n p, local_ok n -> local_pre n p.
Proof. intros n p [H1 [H2 [H3 [H4 H5]]]]. split; [exact H1 | split; [intros _; exact H2 | split; [exact H3 | split; [exact H4 | exact H5]]]]. Qed.

Lemma local_ok_same : forall n n', local_ok n -> n_okey n' = n_okey n -> is_value (n_ty n') = is_value (n_ty n) ->
  is_withmeta (n_ty n') = is_withmeta (n_ty n) -> n_entry n' = n_entry n -> n_md n' = n_md n -> local_ok n'.
Proof. intros n n' H Ho Hv Hw He Hm. unfold local_ok in *. now rewrite Ho, Hv, Hw, He, Hm. Qed.

Lemma local_ok_upd_pathsep : forall n p, local_ok n -> local_ok (upd_pathsep n p).
Proof.
  intros n p H. apply (local_ok_same n); auto; [apply upd_pathsep_value | apply upd_pathsep_withmeta].
Qed.

Lemma pad_to_length : forall n l, length (pad_to n l) = n.
Proof. intros n l. unfold pad_to. rewrite firstn_length, app_length, repeat_length. lia. Qed.

Lemma fresh_child_props : forall n, (length (n_okey n) = 0 \/ length (n_okey n) = 32) ->
  n_forks (fresh_child n) = Some [] /\ n_ref (fresh_child n) = None /\ n_ty (fresh_child n) = 0%N /\
  n_md (fresh_child n) = [] /\ n_entry (fresh_child n) = [] /\ n_rbs (fresh_child n) = n_rbs n /\
  (length (n_okey (fresh_child n)) = 0 \/ length (n_okey (fresh_child n)) = 32).
Proof.
  intros n Hk. unfold fresh_child. destruct (0 <? length (n_okey n)); simpl; repeat split; auto.
  right. apply pad_to_length.
Qed.

Lemma den_none_no_forks : forall n, n_forks n = Some [] -> is_value (n_ty n) = false -> forall q, den n q = None.
Proof.
  intros n Hf Hv [|b q]; [rewrite den_nil; unfold val_of; now rewrite Hv | now apply den_no_forks].
Qed.

Lemma tree_ok_no_forks : forall n, n_forks n = Some [] -> n_ref n = None -> tree_ok n.
Proof. intros n Hf Hr. apply (tree_ok_intro n []); auto; [constructor | intros ? ? ? []]. Qed.

(** denotation after [n.forks[b] = &fork{F, ch}; n.makeEdge()] *)
Lemma den_edge_put : forall n0 fs b F ch, n_forks n0 = Some fs -> F <> [] ->
  forall q, den (mk_edge_node (put_fork n0 b (F, ch))) q =
    match q with
    | [] => val_of n0
    | y :: _ => if N.eqb y b then (if is_prefix F q then den ch (skipn (length F) q) else None) else den n0 q
    end.
Proof.
  intros n0 fs b F ch Hfs HF [|y q'].
  - rewrite den_nil. unfold mk_edge_node, put_fork. rewrite Hfs. unfold val_of. simpl. now autorewrite with flags.
  - rewrite !den_cons. unfold mk_edge_node.
    replace (forks_get (set_ty (put_fork n0 b (F, ch)) (mk_edge (n_ty (put_fork n0 b (F, ch))))) y)
      with (forks_get (put_fork n0 b (F, ch)) y) by reflexivity.
    rewrite forks_get_put_fork by congruence.
    destruct (N.eqb y b); [|reflexivity]. destruct F as [|x pre]; [contradiction|]. reflexivity.
Qed.

Lemma tree_ok_edge_put : forall n0 b F ch, tree_ok n0 -> fork_ok b F -> n_rbs ch = 32 -> local_ok ch -> tree_ok ch ->
  tree_ok (mk_edge_node (put_fork n0 b (F, ch))).
Proof.
  intros n0 b F ch H0 HF Hr Hl Hc. apply (tree_ok_same_forks (put_fork n0 b (F, ch))).
  - now apply tree_ok_put_fork.
  - reflexivity.
  - destruct (tree_ok_inv n0 H0) as [fs [Hfs [Href _]]]. unfold mk_edge_node, put_fork. rewrite Hfs. simpl. exact Href.
Qed.

Lemma local_ok_edge_put : forall n r b v, local_ok n -> local_ok (mk_edge_node (put_fork (set_rbs n r) b v)).
Proof.
  intros n r b v H. apply (local_ok_same n); auto; unfold mk_edge_node, put_fork;
    destruct (n_forks (set_rbs n r)); simpl; now autorewrite with flags.
Qed.

Lemma rbs_edge_put : forall n r b v, n_rbs (mk_edge_node (put_fork (set_rbs n r) b v)) = r.
Proof. intros. unfold mk_edge_node, put_fork. destruct (n_forks (set_rbs n r)); reflexivity. Qed.

Lemma val_of_set_rbs : forall n r, val_of (set_rbs n r) = val_of n.
Proof. reflexivity. Qed.
Lemma den_set_rbs : forall n r q, den (set_rbs n r) q = den n q.
Proof. intros. now apply den_same. Qed.

Lemma Forall_skipn : forall {A} (P : A -> Prop) n l, Forall P l -> Forall P (skipn n l).
Proof. intros A P n. induction n; intros l H; simpl; [assumption|]. destruct l; [constructor|]. inversion H; auto. Qed.
Lemma Forall_firstn : forall {A} (P : A -> Prop) n l, Forall P l -> Forall P (firstn n l).
Proof. intros A P n. induction n; intros l H; simpl; [constructor|]. destruct l; [constructor|]. inversion H; subst. constructor; auto. Qed.

Lemma common_hd_eq : forall b pre p, common (b :: pre) (b :: p) = b :: common pre p.
Proof. intros. simpl. now rewrite N.eqb_refl. Qed.

Lemma leaf_node_props : forall n1 p e m, (length (n_okey n1) = 0 \/ length (n_okey n1) = 32) -> length e = 32 -> md_ok m ->
  let lf := leaf_node n1 p e m in
  tree_ok lf /\ local_ok lf /\ n_rbs lf = n_rbs n1 /\ val_of lf = Some (e, m) /\ n_forks lf = Some [].
Proof.
  intros n1 p e m Hk He Hm lf. destruct (fresh_child_props n1 Hk) as [Hf [Hr [Ht [Hmd [Hen [Hrb Hok]]]]]].
  assert (Hv : is_value (n_ty lf) = true).
  { subst lf. unfold leaf_node. rewrite upd_pathsep_value. simpl. now autorewrite with flags. }
  assert (Hfk : n_forks lf = Some []) by (subst lf; unfold leaf_node; destruct (0 <? length m); simpl; exact Hf).
  assert (Hrf : n_ref lf = None) by (subst lf; unfold leaf_node; destruct (0 <? length m); simpl; exact Hr).
  assert (Hen' : n_entry lf = e) by (subst lf; unfold leaf_node; destruct (0 <? length m); reflexivity).
  assert (Hmd' : n_md lf = m) by (subst lf; unfold leaf_node; destruct m; simpl; [exact Hmd | reflexivity]).
  assert (Hok' : n_okey lf = n_okey (fresh_child n1)) by (subst lf; unfold leaf_node; destruct (0 <? length m); reflexivity).
  assert (Hrb' : n_rbs lf = n_rbs n1) by (subst lf; unfold leaf_node; destruct (0 <? length m); simpl; exact Hrb).
  assert (Hwm : is_withmeta (n_ty lf) = true <-> m <> []).
  { subst lf. unfold leaf_node. rewrite upd_pathsep_withmeta. destruct m; cbn [n_ty set_entry set_ty set_md length Nat.ltb Nat.leb]; autorewrite with flags; rewrite ?Ht.
    - split; [intros H; vm_compute in H; discriminate H | intros H; contradiction].
    - split; [intros _ H; discriminate H | reflexivity]. }
  split; [now apply tree_ok_no_forks|]. split; [|split; [exact Hrb'|split; [|exact Hfk]]].
  - unfold local_ok. rewrite Hok', Hen', Hmd', Hv.
    split; [exact Hok | split; [intros _; exact He | split; [intros; discriminate | split; [exact Hwm | exact Hm]]]].
  - unfold val_of. now rewrite Hv, Hen', Hmd'.
Qed.

Arguments split_node : simpl never.
Arguments mk_edge_node : simpl never.

Lemma split_node_props : forall n1 rest c1 full p,
  (length (n_okey n1) = 0 \/ length (n_okey n1) = 32) ->
  fork_ok (hd 0%N rest) rest -> n_rbs c1 = 32 -> local_ok c1 -> tree_ok c1 -> (full = true -> p = []) ->
  let sp := split_node n1 rest c1 full in
  tree_ok sp /\ local_pre sp p /\ n_rbs sp = n_rbs n1 /\
  val_of sp = (if full then Some ([], []) else None) /\
  n_forks sp = Some [(hd 0%N rest, (rest, c1))].
Proof.
  intros n1 rest c1 full p Hk Hfk Hr Hl Hc Hfull sp.
  destruct (fresh_child_props n1 Hk) as [Hf [Hrf [Ht [Hmd [Hen [Hrb Hok]]]]]].
  assert (Hforks : n_forks sp = Some [(hd 0%N rest, (rest, c1))]) by (unfold sp, split_node, mk_edge_node; destruct full; reflexivity).
  assert (Href : n_ref sp = None) by (unfold sp, split_node, mk_edge_node; destruct full; exact Hrf).
  assert (Hmd' : n_md sp = []) by (unfold sp, split_node, mk_edge_node; destruct full; exact Hmd).
  assert (Hen' : n_entry sp = []) by (unfold sp, split_node, mk_edge_node; destruct full; exact Hen).
  assert (Hok' : n_okey sp = n_okey (fresh_child n1)) by (unfold sp, split_node, mk_edge_node; destruct full; reflexivity).
  assert (Hrb' : n_rbs sp = n_rbs n1) by (unfold sp, split_node, mk_edge_node; destruct full; exact Hrb).
  assert (Hv : is_value (n_ty sp) = full).
  { unfold sp, split_node, mk_edge_node. destruct full; cbn [n_ty set_ty set_forks]; autorewrite with flags; [reflexivity|].
    rewrite Ht. reflexivity. }
  assert (Hw : is_withmeta (n_ty sp) = false).
  { unfold sp, split_node, mk_edge_node. destruct full; cbn [n_ty set_ty set_forks]; autorewrite with flags; rewrite Ht; reflexivity. }
  split; [|split; [|split; [exact Hrb'|split; [|exact Hforks]]]].
  - apply (tree_ok_intro sp _ Hforks Href).
    + unfold keys_sorted. simpl. constructor; constructor.
    + intros k pre c [Heq|[]]. inversion Heq; subst k pre c. tauto.
  - unfold local_pre. rewrite Hok', Hen', Hmd', Hv, Hw.
    split; [exact Hok | split; [|split; [reflexivity|split; [|apply md_ok_nil]]]].
    + intros Hp Hf'. apply Hfull in Hf'. contradiction.
    + split; [intros H; discriminate H | intros H; contradiction].
  - unfold val_of. rewrite Hv, Hen', Hmd'. reflexivity.
Qed.

Lemma den_split : forall n1 rest c1 full r0 rest', rest = r0 :: rest' ->
  forall q, den (split_node n1 rest c1 full) q =
   match q with
   | [] => val_of (split_node n1 rest c1 full)
   | y :: _ => if N.eqb y r0 then (if is_prefix rest q then den c1 (skipn (length rest) q) else None) else None
   end.
Proof.
  intros n1 rest c1 full r0 rest' Hr [|y q']; [apply den_nil|].
  rewrite den_cons. unfold forks_get.
  replace (n_forks (split_node n1 rest c1 full)) with (Some [(hd 0%N rest, (rest, c1))])
    by (unfold split_node, mk_edge_node; destruct full; reflexivity).
  subst rest. cbn [hd fget]. destruct (N.eqb y r0); reflexivity.
Qed.

Lemma local_ok_set_value' : forall n e m, local_pre n [] -> length e = 32 -> md_ok m -> local_ok (set_ref (set_value n e m) None).
Proof.
  intros n e m [H1 [H2 [H3 [H4 H5]]]] He Hm. unfold set_value.
  destruct m as [|kv m]; cbn [Nat.ltb Nat.leb length]; unfold local_ok; simpl;
    (split; [exact H1 | split; [intros _; exact He | split; [|split]]]).
  - autorewrite with flags. intros; discriminate.
  - autorewrite with flags. exact H4.
  - exact H5.
  - autorewrite with flags. intros; discriminate.
  - autorewrite with flags. split; intros; [discriminate | reflexivity].
  - exact Hm.
Qed.

Lemma list_eqb_N_hd_neq : forall y q b p, N.eqb y b = false -> list_eqb_N (y :: q) (b :: p) = false.
Proof. intros. simpl. now rewrite H. Qed.

Lemma add_spec : forall f st n p e m,
  length p < f -> tree_ok n -> local_pre n p -> (n_rbs n = 32 \/ n_rbs n = 0) ->
  Forall is_byte p -> length e = 32 -> md_ok m ->
  exists n', add f st n p e m = (n', None) /\ tree_ok n' /\ local_ok n' /\ n_rbs n' = 32 /\
    forall q, den n' q = if list_eqb_N q p then Some (e, new_md n p m) else den n q.
Proof.
  induction f as [|f IH]; intros st n p e m Hlen Hok Hpre Hrbs Hby He Hm; [lia|].
  destruct (tree_ok_inv n Hok) as [fs [Hfs [Href [Hs Hall]]]].
  cbn [add]. rewrite add_chk_ok by assumption.
  destruct p as [|b p].
  - (* the path ends here *)
    eexists. split; [reflexivity|]. split; [|split; [|split]].
    + apply (tree_ok_same_forks n); auto. unfold set_value. destruct (0 <? length m); reflexivity.
    + apply local_ok_set_value'; auto.
    + unfold set_value. destruct (0 <? length m); reflexivity.
    + intros [|y q'].
      * rewrite den_nil, val_of_set_value. cbn [list_eqb_N]. f_equal. f_equal.
        unfold new_md. destruct m; [|reflexivity]. unfold old_md. rewrite den_nil. unfold val_of.
        destruct Hpre as [_ [_ [H3 _]]]. cbn [n_md set_rbs].
        destruct (is_value (n_ty n)) eqn:Hv; [reflexivity | now apply H3].
      * cbn [list_eqb_N]. rewrite !den_cons. unfold forks_get.
        replace (n_forks (set_ref (set_value (set_rbs n 32) e m) None)) with (n_forks n); [reflexivity|].
        unfold set_value. destruct (0 <? length m); reflexivity.
  - (* the path goes on *)
    rewrite (add_load_loaded st _ fs) by exact Hfs.
    assert (Hloc : local_ok n).
    { destruct Hpre as [H1 [H2 [H3 [H4 H5]]]].
      split; [exact H1 | split; [apply H2; discriminate | split; [exact H3 | split; [exact H4 | exact H5]]]]. }
    assert (Hkey : length (n_okey n) = 0 \/ length (n_okey n) = 32) by apply Hloc.
    remember (set_rbs n 32) as n0 eqn:Hn0.
    assert (Hok0 : tree_ok n0) by (subst n0; apply (tree_ok_same_forks n); auto).
    assert (Hfs0 : n_forks n0 = Some fs) by (subst n0; exact Hfs).
    assert (Hkey0 : length (n_okey n0) = 0 \/ length (n_okey n0) = 32) by (subst n0; exact Hkey).
    assert (Hrbs0 : n_rbs n0 = 32) by (subst n0; reflexivity).
    assert (Hden0 : forall q, den n0 q = den n q) by (intros; subst n0; apply den_set_rbs).
    assert (Hval0 : val_of n0 = val_of n) by (subst n0; reflexivity).
    assert (Hlenp : length p < f) by (simpl in Hlen; lia).
    unfold forks_get at 1. rewrite Hfs0.
    destruct (fget fs b) as [[prefix c]|] eqn:Hg.
    + (* a fork for b exists *)
      destruct (Hall b prefix c Hg) as [[Hne [Hhd [Hl30 [Hb Hpb]]]] [Hcr [Hcl Hct]]].
      destruct prefix as [|x pre]; [contradiction|]. simpl in Hhd. subst x.
      remember (common (b :: pre) (b :: p)) as cm eqn:Hcm.
      assert (Hcm1 : is_prefix cm (b :: pre) = true) by (subst cm; apply common_is_prefix_l).
      assert (Hcm2 : is_prefix cm (b :: p) = true) by (subst cm; apply common_is_prefix_r).
      assert (Hcm3 : exists cm', cm = b :: cm') by (subst cm; rewrite common_hd_eq; eauto).
      assert (Hmax : forall u ru v rv, skipn (length cm) (b :: pre) = u :: ru -> skipn (length cm) (b :: p) = v :: rv -> u <> v)
        by (subst cm; apply common_maximal).
      remember (skipn (length cm) (b :: pre)) as rest eqn:Hrest.
      remember (skipn (length cm) (b :: p)) as p2 eqn:Hp2.
      assert (Hpre_eq : b :: pre = cm ++ rest) by (subst rest; now apply is_prefix_spec).
      assert (HP_eq : b :: p = cm ++ p2) by (subst p2; now apply is_prefix_spec).
      destruct Hcm3 as [cm' Hcm3].
      assert (Hcmne : cm <> []) by (rewrite Hcm3; discriminate).
      assert (Hlen2 : length p2 < f).
      { apply (f_equal (@length N)) in HP_eq. rewrite app_length, Hcm3 in HP_eq. simpl in HP_eq. lia. }
      assert (Hby2 : Forall is_byte p2) by (subst p2; now apply Forall_skipn).
      assert (Hcmby : Forall is_byte cm).
      { rewrite HP_eq in Hby. apply Forall_app in Hby. tauto. }
      assert (Hfk_cm : fork_ok b cm).
      { split; [exact Hcmne|]. split; [rewrite Hcm3; reflexivity|]. split; [|split; [exact Hb | exact Hcmby]].
        apply is_prefix_length in Hcm1. lia. }
      destruct rest as [|r0 rest'].
      * (* the whole prefix matches: descend into the child *)
        assert (Hcme : cm = b :: pre) by (rewrite app_nil_r in Hpre_eq; now symmetry). clear Hcm3 Hpre_eq. rewrite Hcme in *. clear Hcme.
        destruct (IH st (upd_pathsep c (b :: p)) p2 e m Hlen2) as [nn' [Hadd [Hnt [Hnl [Hnr Hnd]]]]]; auto.
        { apply (tree_ok_same_forks c); auto. destruct (tree_ok_inv c Hct) as [? [? [? _]]]. assumption. }
        { apply local_ok_pre. now apply local_ok_upd_pathsep. }
        rewrite Hadd. eexists. split; [reflexivity|]. split; [|split; [|split]].
        -- now apply tree_ok_edge_put.
        -- subst n0. now apply local_ok_edge_put.
        -- subst n0. apply rbs_edge_put.
        -- intros q. rewrite (den_edge_put n0 fs b (b :: pre) nn' Hfs0 Hcmne).
           destruct q as [|y q']; [cbn [list_eqb_N]; rewrite den_nil; exact Hval0|].
           destruct (N.eqb y b) eqn:Ey.
           ++ apply N.eqb_eq in Ey. subst y.
              assert (Hdn : forall q2, is_prefix (b :: pre) (b :: q2) = true ->
                        den n (b :: q2) = den c (skipn (length (b :: pre)) (b :: q2))).
              { intros q2 Hq2. rewrite den_cons. unfold forks_get. rewrite Hfs, Hg, Hq2. reflexivity. }
              destruct (is_prefix (b :: pre) (b :: q')) eqn:Hq.
              ** rewrite Hnd. rewrite Hp2. rewrite (list_eqb_N_skipn (b :: pre) (b :: q') (b :: p) Hq Hcm2).
                 destruct (list_eqb_N (b :: q') (b :: p)) eqn:Heq.
                 --- f_equal. f_equal. unfold new_md. destruct m; [|reflexivity]. unfold old_md.
                     rewrite den_upd_pathsep. rewrite <- Hp2. rewrite (Hdn p Hcm2). rewrite <- Hp2. reflexivity.
                 --- rewrite den_upd_pathsep. now rewrite (Hdn q' Hq).
              ** rewrite (not_prefix_neq (b :: pre) _ _ Hq Hcm2).
                 rewrite den_cons. unfold forks_get. rewrite Hfs, Hg, Hq. reflexivity.
           ++ rewrite (list_eqb_N_hd_neq _ _ _ _ Ey). apply Hden0.
      * (* the edge is split *)
        assert (Hfull : (length (b :: p) =? length cm) = true -> p2 = []).
        { intros H. apply Nat.eqb_eq in H. apply (f_equal (@length N)) in HP_eq. rewrite app_length in HP_eq.
          destruct p2; [reflexivity | simpl in H, HP_eq; lia]. }
        assert (Hfk_rest : fork_ok (hd 0%N (r0 :: rest')) (r0 :: rest')).
        { rewrite Hpre_eq in Hpb, Hl30. apply Forall_app in Hpb as [_ Hpb]. rewrite app_length in Hl30.
          split; [discriminate|]. split; [reflexivity|]. split; [lia|]. split; [|exact Hpb].
          inversion Hpb; assumption. }
        destruct (split_node_props n0 (r0 :: rest') (upd_pathsep c (r0 :: rest')) (length (b :: p) =? length cm) p2
                    Hkey0 Hfk_rest) as [Hst [Hsl [Hsr [Hsv Hsf]]]]; auto.
        { now apply local_ok_upd_pathsep. }
        { apply (tree_ok_same_forks c); auto. destruct (tree_ok_inv c Hct) as [? [? [? _]]]. assumption. }
        destruct (IH st (upd_pathsep (split_node n0 (r0 :: rest') (upd_pathsep c (r0 :: rest')) (length (b :: p) =? length cm)) (b :: p))
                    p2 e m Hlen2) as [nn' [Hadd [Hnt [Hnl [Hnr Hnd]]]]]; auto.
        { apply (tree_ok_same_forks _ _ Hst); [reflexivity|]. destruct (tree_ok_inv _ Hst) as [? [? [? _]]]. assumption. }
        { destruct Hsl as [S1 [S2 [S3 [S4 S5]]]]. unfold local_pre.
          rewrite upd_pathsep_value, upd_pathsep_withmeta.
          split; [exact S1 | split; [exact S2 | split; [exact S3 | split; [exact S4 | exact S5]]]]. }
        { left. rewrite <- Hrbs0. exact Hsr. }
        rewrite Hadd. eexists. split; [reflexivity|]. split; [|split; [|split]].
        -- now apply tree_ok_edge_put.
        -- subst n0. now apply local_ok_edge_put.
        -- subst n0. apply rbs_edge_put.
        -- intros q. rewrite (den_edge_put n0 fs b cm nn' Hfs0 Hcmne).
           destruct q as [|y q']; [cbn [list_eqb_N]; rewrite den_nil; exact Hval0|].
           destruct (N.eqb y b) eqn:Ey.
           ++ apply N.eqb_eq in Ey. subst y.
              (* the old tree below b *)
              assert (Hdn : forall q2, den n (b :: q2) =
                        if is_prefix cm (b :: q2) && is_prefix (r0 :: rest') (skipn (length cm) (b :: q2))
                        then den c (skipn (length (r0 :: rest')) (skipn (length cm) (b :: q2))) else None).
              { intros q2. rewrite den_cons. unfold forks_get. rewrite Hfs, Hg.
                rewrite Hpre_eq at 1. rewrite is_prefix_app_l.
                destruct (is_prefix cm (b :: q2) && is_prefix (r0 :: rest') (skipn (length cm) (b :: q2))); [|reflexivity].
                rewrite skipn_skipn. f_equal. f_equal.
                apply (f_equal (@length N)) in Hpre_eq. rewrite app_length in Hpre_eq. simpl in Hpre_eq |- *. lia. }
              (* p2 does not continue along the old prefix *)
              assert (Hp2r : is_prefix (r0 :: rest') p2 = false).
              { destruct p2 as [|v rv]; [reflexivity|]. cbn [is_prefix].
                assert (r0 <> v) by (eapply Hmax; reflexivity).
                destruct (N.eqb r0 v) eqn:E; [apply N.eqb_eq in E; contradiction | reflexivity]. }
              assert (Hold : den n (b :: p) = None).
              { rewrite Hdn. rewrite <- Hp2. rewrite Hp2r. now rewrite andb_false_r. }
              assert (Hsp_p2 : old_md (upd_pathsep (split_node n0 (r0 :: rest') (upd_pathsep c (r0 :: rest')) (length (b :: p) =? length cm)) (b :: p)) p2 = []).
              { unfold old_md. rewrite den_upd_pathsep. rewrite (den_split _ _ _ _ r0 rest' eq_refl).
                destruct p2 as [|v rv].
                - rewrite Hsv. destruct (length (b :: p) =? length cm); reflexivity.
                - assert (r0 <> v) by (eapply Hmax; reflexivity).
                  destruct (N.eqb v r0) eqn:E; [apply N.eqb_eq in E; congruence | reflexivity]. }
              destruct (is_prefix cm (b :: q')) eqn:Hq.
              ** rewrite Hnd. rewrite Hp2. rewrite (list_eqb_N_skipn cm (b :: q') (b :: p) Hq Hcm2).
                 destruct (list_eqb_N (b :: q') (b :: p)) eqn:Heq.
                 --- f_equal. f_equal. unfold new_md. destruct m; [|reflexivity]. rewrite <- Hp2, Hsp_p2.
                     unfold old_md. now rewrite Hold.
                 --- rewrite den_upd_pathsep. rewrite (den_split _ _ _ _ r0 rest' eq_refl).
                     rewrite Hdn, Hq. cbn [andb].
                     destruct (skipn (length cm) (b :: q')) as [|v rv] eqn:Hq2.
                     +++ rewrite Hsv. cbn [is_prefix].
                         destruct (length (b :: p) =? length cm) eqn:Hfl; [|reflexivity].
                         exfalso. specialize (Hfull eq_refl).
                         assert (b :: q' = b :: p).
                         { apply (skipn_eq_iff cm _ _ Hq Hcm2). rewrite Hq2, <- Hp2. now rewrite Hfull. }
                         rewrite H in Heq. rewrite list_eqb_N_refl in Heq. discriminate.
                     +++ cbn [is_prefix]. rewrite (N.eqb_sym r0 v).
                         destruct (N.eqb v r0) eqn:Ev; [|reflexivity].
                         cbn [andb]. destruct (is_prefix rest' rv); [|reflexivity].
                         apply den_upd_pathsep.
              ** rewrite (not_prefix_neq cm _ _ Hq Hcm2). rewrite Hdn, Hq. reflexivity.
           ++ rewrite (list_eqb_N_hd_neq _ _ _ _ Ey). apply Hden0.
    + (* no fork for b *)
      assert (Hnone : forall q2, den n (b :: q2) = None).
      { intros q2. rewrite den_cons. unfold forks_get. now rewrite Hfs, Hg. }
      destruct (fresh_child_props n0 Hkey0) as [Fc1 [Fc2 [Fc3 [Fc4 [Fc5 [Fc6 Fc7]]]]]].
      assert (Hfv : is_value (n_ty (fresh_child n0)) = false) by (rewrite Fc3; reflexivity).
      destruct (30 <? length (b :: p)) eqn:H30.
      * (* prefix size limit *)
        apply Nat.ltb_lt in H30.
        assert (Hl3 : length (skipn 30 (b :: p)) < f) by (rewrite skipn_length; simpl in *; lia).
        assert (A1 : tree_ok (fresh_child n0)) by now apply tree_ok_no_forks.
        assert (A2 : local_pre (fresh_child n0) (skipn 30 (b :: p))).
        { unfold local_pre. rewrite Fc3, Fc4, Fc5.
          split; [exact Fc7 | split; [intros _ H; discriminate H | split; [reflexivity | split; [|apply md_ok_nil]]]].
          split; [intros H; discriminate H | intros H; contradiction]. }
        assert (A3 : n_rbs (fresh_child n0) = 32 \/ n_rbs (fresh_child n0) = 0) by (left; now rewrite Fc6).
        assert (A4 : Forall is_byte (skipn 30 (b :: p))) by now apply Forall_skipn.
        destruct (IH st _ _ e m Hl3 A1 A2 A3 A4 He Hm) as [nn1 [Hadd [Hnt [Hnl [Hnr Hnd]]]]].
        rewrite Hadd.
        assert (HF : firstn 30 (b :: p) = b :: firstn 29 p) by reflexivity.
        assert (HFl : length (firstn 30 (b :: p)) = 30) by (rewrite firstn_length; lia).
        assert (HFp : is_prefix (firstn 30 (b :: p)) (b :: p) = true).
        { rewrite <- (firstn_skipn 30 (b :: p)) at 2. apply is_prefix_app. }
        assert (Hfk : fork_ok b (firstn 30 (b :: p))).
        { split; [rewrite HF; discriminate|]. split; [rewrite HF; reflexivity|]. split; [lia|].
          split; [inversion Hby; assumption | now apply Forall_firstn]. }
        eexists. split; [reflexivity|]. split; [|split; [|split]].
        -- apply tree_ok_edge_put; auto. { now apply local_ok_upd_pathsep. }
           apply (tree_ok_same_forks nn1); auto. destruct (tree_ok_inv nn1 Hnt) as [? [? [? _]]]. assumption.
        -- subst n0. now apply local_ok_edge_put.
        -- subst n0. apply rbs_edge_put.
        -- intros q. rewrite (den_edge_put n0 fs b _ _ Hfs0); [|rewrite HF; discriminate].
           destruct q as [|y q']; [cbn [list_eqb_N]; rewrite den_nil; exact Hval0|].
           destruct (N.eqb y b) eqn:Ey.
           ++ apply N.eqb_eq in Ey. subst y. rewrite Hnone.
              destruct (is_prefix (firstn 30 (b :: p)) (b :: q')) eqn:Hq.
              ** rewrite den_upd_pathsep, Hnd. rewrite HFl.
                 rewrite <- HFl at 1 2. rewrite (list_eqb_N_skipn _ _ _ Hq HFp).
                 destruct (list_eqb_N (b :: q') (b :: p)).
                 --- f_equal. f_equal. unfold new_md. destruct m; [|reflexivity]. unfold old_md.
                     rewrite Hnone. now rewrite (den_none_no_forks _ Fc1 Hfv).
                 --- apply (den_none_no_forks _ Fc1 Hfv).
              ** now rewrite (not_prefix_neq _ _ _ Hq HFp).
           ++ rewrite (list_eqb_N_hd_neq _ _ _ _ Ey). apply Hden0.
      * (* a new leaf *)
        apply Nat.ltb_ge in H30.
        destruct (leaf_node_props n0 (b :: p) e m Hkey0 He Hm) as [Lt [Ll [Lr [Lv Lf]]]].
        assert (Hfk : fork_ok b (b :: p)).
        { split; [discriminate|]. split; [reflexivity|]. split; [exact H30|]. split; [inversion Hby; assumption | exact Hby]. }
        eexists. split; [reflexivity|]. split; [|split; [|split]].
        -- apply tree_ok_edge_put; auto. now rewrite Lr.
        -- subst n0. now apply local_ok_edge_put.
        -- subst n0. apply rbs_edge_put.
        -- intros q. rewrite (den_edge_put n0 fs b _ _ Hfs0); [|discriminate].
           destruct q as [|y q']; [cbn [list_eqb_N]; rewrite den_nil; exact Hval0|].
           destruct (N.eqb y b) eqn:Ey.
           ++ apply N.eqb_eq in Ey. subst y. rewrite Hnone.
              destruct (is_prefix (b :: p) (b :: q')) eqn:Hq.
              ** destruct (list_eqb_N (b :: q') (b :: p)) eqn:Heq.
                 --- apply list_eqb_N_eq in Heq. rewrite Heq. rewrite skipn_all. rewrite den_nil, Lv.
                     f_equal. f_equal. unfold new_md. destruct m; [|reflexivity]. unfold old_md. now rewrite Hnone.
                 --- destruct (skipn (length (b :: p)) (b :: q')) as [|v rv] eqn:Hsk; [|now apply den_no_forks].
                     exfalso. apply is_prefix_spec in Hq. rewrite Hsk, app_nil_r in Hq.
                     rewrite Hq, list_eqb_N_refl in Heq. discriminate.
              ** now rewrite (not_prefix_neq _ _ _ Hq (is_prefix_refl _)).
           ++ rewrite (list_eqb_N_hd_neq _ _ _ _ Ey). apply Hden0.
Qed.

(** ---- Remove ---- *)
Lemma put_fork_same : forall n fs b v, n_forks n = Some fs -> keys_sorted fs -> fget fs b = Some v -> put_fork n b v = n.
Proof.
  intros n fs b v Hfs Hs Hg. unfold put_fork. rewrite Hfs. rewrite (fset_same fs b v Hs Hg).
  destruct n; simpl in *; subst; reflexivity.
Qed.

Lemma remove_spec : forall f st n p, length p < f -> tree_ok n ->
  exists n' er, remove f st n p = (n', er) /\ tree_ok n' /\
    n_ty n' = n_ty n /\ n_rbs n' = n_rbs n /\ n_okey n' = n_okey n /\ n_entry n' = n_entry n /\ n_md n' = n_md n /\
    (er <> None -> n' = n) /\
    (p <> [] -> (forall q, proper_prefix p q -> den n q = None) ->
       forall q, den n' q = if list_eqb_N q p then None else den n q).
Proof.
  induction f as [|f IH]; intros st n p Hlen Hok; [lia|].
  destruct (tree_ok_inv n Hok) as [fs [Hfs [Href [Hs Hall]]]].
  cbn [remove]. destruct p as [|b p].
  - exists n, (Some EEmptyPath). repeat split; auto. intros H; contradiction.
  - unfold load_if_nil. rewrite Hfs. unfold forks_get. rewrite Hfs.
    destruct (fget fs b) as [[prefix c]|] eqn:Hg.
    + destruct (Hall b prefix c Hg) as [[Hne [Hhd [Hl30 [Hb Hpb]]]] [Hcr [Hcl Hct]]].
      destruct prefix as [|x pre]; [contradiction|]. simpl in Hhd. subst x.
      assert (Hdn : forall q2, den n (b :: q2) =
                 if is_prefix (b :: pre) (b :: q2) then den c (skipn (length (b :: pre)) (b :: q2)) else None).
      { intros q2. rewrite den_cons. unfold forks_get. rewrite Hfs, Hg. reflexivity. }
      destruct (is_prefix (b :: pre) (b :: p)) eqn:Hpp.
      * destruct (skipn (length (b :: pre)) (b :: p)) as [|r rest] eqn:Hrest.
        -- (* the whole path is the prefix: the fork is deleted *)
           assert (Hpe : b :: p = b :: pre).
           { apply is_prefix_spec in Hpp. rewrite Hrest, app_nil_r in Hpp. exact Hpp. }
           exists (set_forks n (Some (fdel fs b))), None. split; [reflexivity|]. split; [|repeat split; auto].
           ++ apply (tree_ok_intro _ (fdel fs b)); [reflexivity | exact Href | now apply fdel_sorted |].
              intros k pre' c' Hin. apply (Hall k pre' c'). apply In_fget; [assumption|]. eapply fdel_In; eassumption.
           ++ intros H; contradiction.
           ++ intros _ Hx q. destruct q as [|y q']; [reflexivity|].
              rewrite den_cons. unfold forks_get. cbn [n_forks set_forks]. rewrite fget_fdel by assumption.
              destruct (N.eqb y b) eqn:Ey.
              ** apply N.eqb_eq in Ey. subst y.
                 destruct (list_eqb_N (b :: q') (b :: p)) eqn:Heq; [reflexivity|].
                 destruct (is_prefix (b :: pre) (b :: q')) eqn:Hq; [|rewrite Hdn, Hq; reflexivity].
                 symmetry. apply Hx. split; [rewrite Hpe; exact Hq|].
                 apply is_prefix_spec in Hq. rewrite Hpe.
                 destruct (skipn (length (b :: pre)) (b :: q')) as [|v rv] eqn:Hsk.
                 --- exfalso. rewrite app_nil_r in Hq. rewrite Hq, Hpe, list_eqb_N_refl in Heq. discriminate.
                 --- rewrite Hq, app_length. simpl. lia.
              ** rewrite (list_eqb_N_hd_neq _ _ _ _ Ey). rewrite den_cons. unfold forks_get. now rewrite Hfs.
        -- (* descend *)
           assert (Hl2 : length (r :: rest) < f).
           { rewrite <- Hrest, skipn_length. simpl in *. lia. }
           destruct (IH st c (r :: rest) Hl2 Hct) as [c' [er [Hrm [Hc't [T1 [T2 [T3 [T4 [T5 [Herr Hcd]]]]]]]]]].
           rewrite Hrm. exists (put_fork n b (b :: pre, c')), er. split; [reflexivity|].
           assert (Hpf : forall x, n_forks n = Some fs -> put_fork n b x = set_forks n (Some (fset fs b x))).
           { intros x H. unfold put_fork. now rewrite H. }
           split; [|split; [|split; [|split; [|split; [|split; [|split]]]]]]; try (rewrite Hpf by assumption; reflexivity).
           ++ apply tree_ok_put_fork; auto.
              ** repeat split; auto.
              ** congruence.
              ** apply (local_ok_same c); auto; congruence.
           ++ intros He. apply Herr in He. subst c'. now apply (put_fork_same n fs).
           ++ intros _ Hx q.
              assert (Hx' : forall q2, proper_prefix (r :: rest) q2 -> den c q2 = None).
              { intros q2 [Hq2 Hql]. specialize (Hx ((b :: pre) ++ q2)).
                change ((b :: pre) ++ q2) with (b :: (pre ++ q2)) in Hx. rewrite Hdn in Hx.
                change (b :: (pre ++ q2)) with ((b :: pre) ++ q2) in Hx.
                rewrite is_prefix_app, skipn_app_exact in Hx. apply Hx. split.
                - apply is_prefix_spec in Hpp. rewrite Hpp, Hrest. rewrite is_prefix_app_l, is_prefix_app, skipn_app_exact. exact Hq2.
                - apply is_prefix_spec in Hpp. rewrite Hpp, Hrest, !app_length. lia. }
              specialize (Hcd ltac:(discriminate) Hx').
              destruct q as [|y q'].
              ** rewrite !den_nil. unfold val_of. rewrite Hpf by assumption. reflexivity.
              ** rewrite den_cons. rewrite forks_get_put_fork by congruence.
                 destruct (N.eqb y b) eqn:Ey.
                 --- apply N.eqb_eq in Ey. subst y. rewrite Hdn.
                     destruct (is_prefix (b :: pre) (b :: q')) eqn:Hq.
                     +++ change (S (length pre)) with (length (b :: pre)). rewrite Hcd. rewrite <- Hrest.
                         now rewrite (list_eqb_N_skipn (b :: pre) (b :: q') (b :: p) Hq Hpp).
                     +++ now rewrite (not_prefix_neq _ _ _ Hq Hpp).
                 --- rewrite (list_eqb_N_hd_neq _ _ _ _ Ey). rewrite den_cons. reflexivity.
      * exists n, (Some ENotFound). repeat split; auto. intros _ _ q.
        destruct (list_eqb_N q (b :: p)) eqn:Heq; [|reflexivity].
        apply list_eqb_N_eq in Heq. subst q. rewrite Hdn, Hpp. reflexivity.
    + exists n, (Some ENotFound). repeat split; auto. intros _ _ q.
      destruct (list_eqb_N q (b :: p)) eqn:Heq; [|reflexivity].
      apply list_eqb_N_eq in Heq. subst q. rewrite den_cons. unfold forks_get. now rewrite Hfs, Hg.
Qed.

(** ---- HasPrefix on a never-saved tree ---- *)
Fixpoint hp (f : nat) (n : node) (p : path) : bool :=
  match p with
  | [] => true
  | b :: _ =>
      match f with
      | O => false
      | S f' =>
          match forks_get n b with
          | Some (x :: pre, c) =>
              if is_prefix (x :: pre) p then hp f' c (skipn (S (length pre)) p) else is_prefix p (x :: pre)
          | _ => false
          end
      end
  end.

Lemma has_prefix_pure : forall f st n p, tree_ok n -> length p < f ->
  has_prefix f st n p = (n, Ok (hp (length p) n p)).
Proof.
  induction f as [|f IH]; intros st n p Hok Hlen; [lia|].
  destruct (tree_ok_inv n Hok) as [fs [Hfs [Href [Hs Hall]]]].
  cbn [has_prefix]. unfold load_if_nil. rewrite Hfs.
  destruct p as [|b p]; [reflexivity|].
  cbn [length hp]. unfold forks_get at 1 2. rewrite Hfs.
  destruct (fget fs b) as [[pre c]|] eqn:Hg; [|reflexivity].
  destruct (Hall b pre c Hg) as [[Hne [Hhd [Hl30 [Hb Hby]]]] [Hrbs [Hloc Hc]]].
  rewrite common_full_iff.
  destruct pre as [|x pre]; [contradiction|].
  destruct (is_prefix (x :: pre) (b :: p)) eqn:Hp; [|reflexivity].
  assert (Hcm : common (x :: pre) (b :: p) = x :: pre).
  { pose proof (common_full_iff (x :: pre) (b :: p)) as Hc'. rewrite Hp in Hc'. apply Nat.eqb_eq in Hc'.
    pose proof (common_prefix_l (x :: pre) (b :: p)) as Hl. rewrite Hc' in Hl. rewrite skipn_all in Hl.
    now rewrite app_nil_r in Hl. }
  rewrite Hcm. simpl in Hlen.
  rewrite IH; [| assumption | cbn [length]; rewrite skipn_length; simpl; lia].
  unfold put_fork. rewrite Hfs. rewrite (fset_same fs b (x :: pre, c) Hs Hg).
  assert (Hfu : forall f1 f2 n p, length p <= f1 -> length p <= f2 -> hp f1 n p = hp f2 n p).
  { clear. induction f1 as [|f1 IH]; intros f2 n p H1 H2.
    - destruct p; [destruct f2; reflexivity | simpl in H1; lia].
    - destruct p as [|b p]; [destruct f2; reflexivity|]. destruct f2 as [|f2]; [simpl in H2; lia|].
      simpl. destruct (forks_get n b) as [[[|x pre] c]|]; try reflexivity.
      destruct (N.eqb x b && is_prefix pre p); [|reflexivity].
      simpl in H1, H2. apply IH; rewrite skipn_length; lia. }
  rewrite (Hfu (length (skipn (length (x :: pre)) (b :: p))) (length p));
    [| lia | cbn [length]; rewrite skipn_length; simpl; lia].
  destruct n; simpl in *; subst; reflexivity.
Qed.
