(** C10 — the in-memory trie: what [Add]/[Remove]/[LookupNode] do to the denotation
    (path -> value) of a tree that was never saved (every node loaded, no references). *)
From Coq Require Import List NArith Bool Arith Lia Sorted.
Import ListNotations.
Require Import Aurora.C10.Model Aurora.C10.Spec Aurora.C10.Basics.

(** ---- pure lookup and denotation ---- *)
Fixpoint lk (f : nat) (n : node) (p : path) : option node :=
  match p with
  | [] => Some n
  | b :: _ =>
      match f with
      | O => None
      | S f' =>
          match forks_get n b with
          | Some (x :: pre, c) =>
              if is_prefix (x :: pre) p then lk f' c (skipn (S (length pre)) p) else None
          | _ => None
          end
      end
  end.

Definition val_of (m : node) : option (list N * meta) :=
  if is_value (n_ty m) then Some (n_entry m, n_md m) else None.
Definition den (n : node) (p : path) : option (list N * meta) :=
  match lk (length p) n p with Some m => val_of m | None => None end.

Lemma lk_fuel : forall f1 f2 n p, length p <= f1 -> length p <= f2 -> lk f1 n p = lk f2 n p.
Proof.
  induction f1 as [|f1 IH]; intros f2 n p H1 H2.
  - destruct p; [destruct f2; reflexivity | simpl in H1; lia].
  - destruct p as [|b p]; [destruct f2; reflexivity|]. destruct f2 as [|f2]; [simpl in H2; lia|].
    simpl. destruct (forks_get n b) as [[[|x pre] c]|]; try reflexivity.
    destruct (N.eqb x b && is_prefix pre p); [|reflexivity].
    simpl in H1, H2. apply IH; rewrite skipn_length; lia.
Qed.

Lemma den_nil : forall n, den n [] = val_of n.
Proof. reflexivity. Qed.

Lemma den_cons : forall n b q,
  den n (b :: q) =
  match forks_get n b with
  | Some (x :: pre, c) => if is_prefix (x :: pre) (b :: q) then den c (skipn (S (length pre)) (b :: q)) else None
  | _ => None
  end.
Proof.
  intros n b q. unfold den. cbn [length lk].
  destruct (forks_get n b) as [[[|x pre] c]|]; try reflexivity.
  destruct (is_prefix (x :: pre) (b :: q)); [|reflexivity].
  rewrite (lk_fuel (length q) (length (skipn (S (length pre)) (b :: q)))); [reflexivity | | lia].
  simpl. rewrite skipn_length. lia.
Qed.

(** ---- well-formed never-saved trees ---- *)
Definition fork_ok (k : N) (prefix : list N) : Prop :=
  prefix <> [] /\ hd 0%N prefix = k /\ length prefix <= 30 /\ (k < 256)%N.

Definition local_ok (n : node) : Prop :=
  (length (n_okey n) = 0 \/ length (n_okey n) = 32) /\
  (is_value (n_ty n) = true -> length (n_entry n) = 32) /\
  (is_value (n_ty n) = false -> n_md n = []) /\
  (is_withmeta (n_ty n) = true <-> n_md n <> []) /\
  md_ok (n_md n).

Inductive tree_ok : node -> Prop :=
| TreeOk : forall ty rbs ok e md fs,
    keys_sorted fs ->
    Forall (fun kf => fork_ok (fst kf) (fst (snd kf)) /\ n_rbs (snd (snd kf)) = 32 /\
                      local_ok (snd (snd kf)) /\ tree_ok (snd (snd kf))) fs ->
    tree_ok (Node ty rbs ok None e md (Some fs)).

Lemma md_ok_nil : md_ok [].
Proof. split; [reflexivity|]. vm_compute. discriminate. Qed.

Lemma tree_ok_inv : forall n, tree_ok n ->
  exists fs, n_forks n = Some fs /\ n_ref n = None /\ keys_sorted fs /\
   forall k pre c, fget fs k = Some (pre, c) -> fork_ok k pre /\ n_rbs c = 32 /\ local_ok c /\ tree_ok c.
Proof.
  intros n H. inversion H as [ty rbs ok e md fs Hs Hf]; subst. exists fs. simpl.
  split; [reflexivity|]. split; [reflexivity|]. split; [assumption|].
  intros k pre c Hg. apply fget_In in Hg. rewrite Forall_forall in Hf. apply Hf in Hg. simpl in Hg. exact Hg.
Qed.

Lemma tree_ok_intro : forall n fs, n_forks n = Some fs -> n_ref n = None -> keys_sorted fs ->
  (forall k pre c, In (k, (pre, c)) fs -> fork_ok k pre /\ n_rbs c = 32 /\ local_ok c /\ tree_ok c) -> tree_ok n.
Proof.
  intros [ty rbs ok rf e md fo] fs Hf Hr Hs Hall. simpl in *. subst. constructor; [assumption|].
  apply Forall_forall. intros [k [pre c]] Hin. simpl. now apply Hall.
Qed.

(** setters that do not touch forks/ref keep [tree_ok] *)
Lemma tree_ok_same_forks : forall n n', tree_ok n -> n_forks n' = n_forks n -> n_ref n' = None -> tree_ok n'.
Proof.
  intros n n' H Hf Hr. destruct (tree_ok_inv n H) as [fs [Hfs [_ [Hs Hall]]]].
  apply (tree_ok_intro n' fs); [congruence | assumption | assumption |].
  intros k pre c Hin. apply (Hall k pre c).
  clear - Hs Hin. induction fs as [|[k0 v0] fs IH]; [destruct Hin|]. simpl.
  inversion Hs as [|? ? Hs' Hall]; subst. destruct Hin as [Heq|Hin].
  - inversion Heq; subst. now rewrite N.eqb_refl.
  - destruct (N.eqb k k0) eqn:E; [|now apply IH].
    apply N.eqb_eq in E. subst. rewrite Forall_forall in Hall. exfalso.
    assert (Hk : In k0 (map fst fs)) by (apply in_map_iff; now exists (k0, (pre, c))).
    apply Hall in Hk. simpl in Hk. lia.
Qed.

Lemma In_fget : forall fs k v, keys_sorted fs -> In (k, v) fs -> fget fs k = Some v.
Proof.
  induction fs as [|[k0 v0] fs IH]; intros k v Hs Hin; [destruct Hin|]. simpl.
  inversion Hs as [|? ? Hs' Hall]; subst. destruct Hin as [Heq|Hin].
  - inversion Heq; subst. now rewrite N.eqb_refl.
  - destruct (N.eqb k k0) eqn:E; [|now apply IH].
    apply N.eqb_eq in E. subst. rewrite Forall_forall in Hall. exfalso.
    assert (Hk : In k0 (map fst fs)) by (apply in_map_iff; now exists (k0, v)).
    apply Hall in Hk. simpl in Hk. lia.
Qed.

(** replacing / inserting one well-formed fork keeps [tree_ok] *)
Lemma tree_ok_put_fork : forall n b pre c,
  tree_ok n -> fork_ok b pre -> n_rbs c = 32 -> local_ok c -> tree_ok c -> tree_ok (put_fork n b (pre, c)).
Proof.
  intros n b pre c H Hfk Hr Hl Hc. destruct (tree_ok_inv n H) as [fs [Hfs [Href [Hs Hall]]]].
  unfold put_fork. rewrite Hfs.
  apply (tree_ok_intro _ (fset fs b (pre, c))); [reflexivity | simpl; assumption | now apply fset_sorted |].
  intros k pre' c' Hin. apply fset_In in Hin as [Heq|Hin].
  - inversion Heq; subst. tauto.
  - apply (Hall k pre' c'). now apply In_fget.
Qed.

Lemma forks_get_put_fork : forall n b v b', n_forks n <> None ->
  forks_get (put_fork n b v) b' = if N.eqb b' b then Some v else forks_get n b'.
Proof.
  intros n b v b' H. unfold forks_get, put_fork. destruct (n_forks n) as [fs|]; [|contradiction].
  simpl. apply fget_fset.
Qed.

(** ---- LookupNode on a never-saved tree: no state change, answer = [lk] ---- *)
Lemma lookup_node_pure : forall f st n p, tree_ok n -> length p < f ->
  lookup_node f st n p = (n, match lk (length p) n p with Some m => LFound m | None => LErr ENotFound end).
Proof.
  induction f as [|f IH]; intros st n p Hok Hlen; [lia|].
  destruct (tree_ok_inv n Hok) as [fs [Hfs [Href [Hs Hall]]]].
  cbn [lookup_node]. unfold load_if_nil. rewrite Hfs.
  destruct p as [|b p]; [reflexivity|].
  cbn [length lk]. unfold forks_get at 1 2. rewrite Hfs.
  destruct (fget fs b) as [[pre c]|] eqn:Hg; [|reflexivity].
  destruct (Hall b pre c Hg) as [[Hne [Hhd [Hl30 Hb]]] [Hrbs [Hloc Hc]]].
  rewrite common_full_iff.
  destruct pre as [|x pre]; [contradiction|].
  destruct (is_prefix (x :: pre) (b :: p)) eqn:Hp; [|reflexivity].
  assert (Hcm : common (x :: pre) (b :: p) = x :: pre).
  { pose proof (common_full_iff (x :: pre) (b :: p)) as Hc'. rewrite Hp in Hc'. apply Nat.eqb_eq in Hc'.
    pose proof (common_prefix_l (x :: pre) (b :: p)) as Hl. rewrite Hc' in Hl. rewrite skipn_all in Hl.
    now rewrite app_nil_r in Hl. }
  rewrite Hcm. simpl in Hlen.
  rewrite IH; [| assumption | cbn [length]; rewrite skipn_length; simpl; lia].
  unfold put_fork. rewrite Hfs. rewrite (fset_same fs b (x :: pre, c) Hs Hg).
  rewrite (lk_fuel (length (skipn (length (x :: pre)) (b :: p))) (length p));
    [| lia | cbn [length]; rewrite skipn_length; simpl; lia].
  destruct n; simpl in *; subst; reflexivity.
Qed.

(** ---- denotation of small constructions ---- *)
Lemma val_of_set_ty_same_value : forall n t, is_value t = is_value (n_ty n) -> val_of (set_ty n t) = val_of n.
Proof. intros n t H. unfold val_of. simpl. now rewrite H. Qed.

Lemma den_same : forall n n', n_forks n' = n_forks n -> val_of n' = val_of n -> forall q, den n' q = den n q.
Proof.
  intros n n' Hf Hv [|b q]; [now rewrite !den_nil|].
  rewrite !den_cons. unfold forks_get. now rewrite Hf.
Qed.

Lemma den_upd_pathsep : forall n p q, den (upd_pathsep n p) q = den n q.
Proof.
  intros n p q. apply den_same; [reflexivity|]. unfold upd_pathsep. apply val_of_set_ty_same_value.
  destruct (has_sep_after0 p); now autorewrite with flags.
Qed.

Lemma den_no_forks : forall n b q, n_forks n = Some [] -> den n (b :: q) = None.
Proof. intros n b q H. rewrite den_cons. unfold forks_get. now rewrite H. Qed.

Lemma list_eqb_N_cons : forall x a y b, list_eqb_N (x :: a) (y :: b) = N.eqb x y && list_eqb_N a b.
Proof. reflexivity. Qed.

Lemma skipn_eq_iff : forall (a q p : list N), is_prefix a q = true -> is_prefix a p = true ->
  (skipn (length a) q = skipn (length a) p <-> q = p).
Proof.
  intros a q p Hq Hp. apply is_prefix_spec in Hq. apply is_prefix_spec in Hp. split; intros H; [|now subst].
  rewrite Hq, Hp. now rewrite H.
Qed.

Lemma list_eqb_N_skipn : forall (a q p : list N), is_prefix a q = true -> is_prefix a p = true ->
  list_eqb_N (skipn (length a) q) (skipn (length a) p) = list_eqb_N q p.
Proof.
  intros a q p Hq Hp. destruct (list_eqb_N q p) eqn:E.
  - apply list_eqb_N_eq in E. subst. apply list_eqb_N_refl.
  - apply list_eqb_N_neq. intros H. apply (skipn_eq_iff a q p Hq Hp) in H. subst. rewrite list_eqb_N_refl in E. discriminate.
Qed.

Lemma not_prefix_neq : forall a q p, is_prefix a q = false -> is_prefix a p = true -> list_eqb_N q p = false.
Proof. intros a q p Hq Hp. apply list_eqb_N_neq. intros ->. congruence. Qed.

(** metadata that [Add] leaves on the path: the new one, or the old one when the new one is empty *)
Definition old_md (n : node) (p : path) : meta := match den n p with Some (_, om) => om | None => [] end.
Definition new_md (n : node) (p : path) (m : meta) : meta := match m with [] => old_md n p | _ => m end.

Definition set_rbs32 (n : node) : node := set_rbs n 32.

Lemma local_ok_set_value : forall n e m, local_ok n -> length e = 32 -> md_ok m -> local_ok (set_ref (set_value n e m) None).
Proof.
  intros n e m [H1 [H2 [H3 [H4 H5]]]] He Hm. unfold set_value.
  destruct m as [|kv m]; cbn [Nat.ltb Nat.leb length]; unfold local_ok; simpl;
    (split; [exact H1 | split; [intros _; exact He | split; [|split]]]).
  - autorewrite with flags. intros; discriminate.
  - autorewrite with flags. exact H4.
  - exact H5.
  - autorewrite with flags. intros; discriminate.
  - autorewrite with flags. split; intros; [discriminate | reflexivity].
  - exact Hm.
Qed.

Lemma val_of_set_value : forall n e m,
  val_of (set_ref (set_value n e m) None) = Some (e, match m with [] => n_md n | _ => m end).
Proof.
  intros n e m. unfold set_value, val_of. destruct m; simpl; now autorewrite with flags.
Qed.
