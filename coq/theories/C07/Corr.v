(** C07 — correspondence.  The REAL joiner (joiner.New / ReadAt / Read / Seek /
    Size, 256 KiB chunks, branching 8192) runs over a synthetic lazy chunk
    store that serves a virtual file of [size] bytes (up to 2^60) whose byte at
    offset o is [fb seed o]; the chunk for the range [a, a+n) has the 32-byte
    address [enc a n] and is built on demand, following the Aurora format
    top-down (leaf if n <= 256 KiB, otherwise references to pieces of
    B = 256 KiB * 8192^k bytes, k maximal with B < n).  The same store is
    defined here over [vslice].  Optional fault: one address whose Get fails,
    or whose chunk reports a span one larger than it should.

    A case is a sequence of operations on one joiner; every read starts from a
    buffer of [cap] canary bytes (0xEE).  Observed: returned count, error class,
    the whole buffer up to its capacity (digest, and in full when short),
    Seek results.  [check_case] replays the sequence on the model. *)
From Coq Require Import List NArith ZArith Bool.
Import ListNotations.
Require Import Aurora.Base.Corr Aurora.Consts Aurora.C02.Model Aurora.C07.Model.
Local Open Scope Z_scope.

Definition CS : Z := Consts.boson_ChunkSize.
Definition RL : Z := Consts.boson_HashSize.
Definition BR : Z := CS / RL.

(** content of the virtual file *)
Definition fb (seed o : Z) : N :=
  Z.to_N (Z.land (o * 131 + Z.shiftr o 8 * 7 + Z.shiftr o 18 * 13 + seed) 255).

(** [f a; f (a+1); ...; f (a+n-1)] *)
Fixpoint gen_pos (p : positive) (a : Z) (f : Z -> N) (acc : bytes) : bytes :=
  match p with
  | xH => f a :: acc
  | xO q => gen_pos q a f (gen_pos q (a + Zpos q) f acc)
  | xI q => gen_pos q a f (gen_pos q (a + Zpos q) f (f (a + 2 * Zpos q) :: acc))
  end.
Definition gen (a n : Z) (f : Z -> N) : bytes := match n with Zpos p => gen_pos p a f [] | _ => [] end.

(** address of the chunk for the range [a, a+n) *)
Definition pad : bytes := [165;90;165;90;165;90;165;90;1;2;3;4;5;6;7;8]%N.
Definition enc (a n : Z) : bytes := le64 (Z.to_N a) ++ le64 (Z.to_N n) ++ pad.
Definition dec (addr : bytes) : Z * Z :=
  (Z.of_N (le_decode (firstn 8 addr)), Z.of_N (le_decode (firstn 8 (skipn 8 addr)))).

(** largest B = CS * BR^k with B < n  (n > CS) *)
Fixpoint branch_of (fuel : nat) (n B : Z) : Z :=
  match fuel with
  | O => B
  | S f => if B <=? (n - 1) / BR then branch_of f n (B * BR) else B
  end.

Inductive fault := NoFault | FailGet (a n : Z) | BigSpan (a n : Z).

Definition syn_get (seed : Z) (flt : fault) (addr : bytes) : got :=
  let '(a, n) := dec addr in
  let bad := match flt with FailGet fa fn => (fa =? a) && (fn =? n) | _ => false end in
  let inflate := match flt with BigSpan fa fn => (fa =? a) && (fn =? n) | _ => false end in
  if bad then GErr
  else
    let span := if inflate then n + 1 else n in
    if n <=? CS then GOk span (mkV n (fun s k => gen (a + s) k (fb seed)))
    else
      let B := branch_of 8 n CS in
      let r := (n + B - 1) / B in
      GOk span (mkV (r * RL) (fun s k =>
        if (s mod RL =? 0) && (k =? RL) then let j := s / RL in enc (a + j * B) (Z.min B (n - j * B)) else
        gen s k (fun p => let j := p / RL in
                          nth (Z.to_nat (p mod RL)) (enc (a + j * B) (Z.min B (n - j * B))) 0%N))).

(** ** files of identical chunks ("lift" cases): [n] full chunks with the same content
    followed by an optional shorter tail of [tail] bytes, built by the harness through the
    real writer stages (plain: 32-byte references, branching 8192; encrypted: 64-byte
    references address ++ key, branching 4096, read through the real decrypting store).
    The model reads the same tree shape with [rl]-byte references; reference bytes are
    synthetic (the joiner never interprets them), the content is the harness's pattern. *)
Definition lift_byte (n tail o : Z) : N :=
  if o <? n * CS then Z.to_N ((1 + (o mod CS + 8) mod 251) mod 256)
  else Z.to_N ((7 + (o - n * CS + 8) mod 251) mod 256).

Definition encr (rl a n : Z) : bytes := enc a n ++ repeat 0%N (Z.to_nat (rl - 32)).

Fixpoint branch_of_g (br : Z) (fuel : nat) (n B : Z) : Z :=
  match fuel with
  | O => B
  | S f => if B <=? (n - 1) / br then branch_of_g br f n (B * br) else B
  end.

Definition lift_get (rl : Z) (content : Z -> N) (addr : bytes) : got :=
  let '(a, n) := dec addr in
  if n <=? CS then GOk n (mkV n (fun s k => gen (a + s) k content))
  else
    let B := branch_of_g (CS / rl) 8 n CS in
    let r := (n + B - 1) / B in
    GOk n (mkV (r * rl) (fun s k =>
      if (s mod rl =? 0) && (k =? rl) then let j := s / rl in encr rl (a + j * B) (Z.min B (n - j * B)) else
      gen s k (fun p => let j := p / rl in
                        nth (Z.to_nat (p mod rl)) (encr rl (a + j * B) (Z.min B (n - j * B))) 0%N))).

(** operations *)
Inductive op :=
| OReadAt (blen bcap off : Z)
| ORead (blen bcap : Z)
| OSeek (offset whence : Z).

(** digest of a buffer: two 32-bit rolling hashes *)
Definition m32 (n : N) : N := N.land n 4294967295.
Definition dig (l : bytes) : N * N :=
  (fold_left (fun s x => m32 (s * 16777619 + x + 1)%N) l 1%N,
   fold_left (fun s x => m32 (s * 2654435761 + x + 1)%N) l 2%N).

(** observation of one operation *)
Inductive obs :=
| ObsRead (n : Z) (err : N) (bufdig : N * N) (buf : option bytes)   (* err: 0 nil, 1 EOF, 2 other *)
| ObsSeek (pos : Z) (err : N).                                      (* err: 0 nil, 1 EOF, 2 whence, 3 offset *)

Inductive case :=
| CJoin (size seed : Z) (flt : fault) (steps : list (op * obs))
| CNewFail (size seed : Z) (flt : fault)           (* joiner.New returned an error *)
| CLift (encrypted : bool) (n tail : Z) (steps : list (op * obs)).

Definition canary (bcap : Z) : bytes := repeat 238%N (Z.to_nat bcap).

Definition rerr_code (e : rerr) : N := match e with RNil => 0 | REOF => 1 | RFail => 2 end.
Definition serr_code (e : serr) : N := match e with SNil => 0 | SEOF => 1 | SWhence => 2 | SOffset => 3 end.

Definition pair_N_eqb (a b : N * N) : bool := N.eqb (fst a) (fst b) && N.eqb (snd a) (snd b).

(** model result of a read, in the shape of an observation *)
Definition model_read (r : Z * list (Z * bytes) * rerr) (bcap : Z) : Z * N * bytes :=
  let '(n, ws, e) := r in (n, rerr_code e, apply_writes (canary bcap) ws).

Definition step_model_g (rl : Z) (get : bytes -> got) (j : joiner) (o : op) : joiner * (Z * N * option bytes) :=
  match o with
  | OReadAt blen bcap off =>
      let '(n, e, b) := model_read (read_at get CS rl j blen bcap off) bcap in (j, (n, e, Some b))
  | ORead blen bcap =>
      let '(j', r) := read get CS rl j blen bcap in
      let '(n, e, b) := model_read r bcap in (j', (n, e, Some b))
  | OSeek offset whence =>
      let '(j', (p, e)) := seek j offset whence in (j', (p, serr_code e, None))
  end.

Definition step_model := step_model_g RL.

Definition obs_matches (m : Z * N * option bytes) (ob : obs) : bool :=
  let '(n, e, b) := m in
  match ob, b with
  | ObsRead on oe od ofull, Some buf =>
      (* on failure the buffer may have been partly written by the goroutines that
         succeeded, in an order the model does not fix: compare count and class only *)
      Z.eqb n on && N.eqb e oe &&
      (N.eqb e 2 || (pair_N_eqb (dig buf) od && match ofull with Some l => bytes_eqb buf l | None => true end))
  | ObsSeek op oe, None => Z.eqb n op && N.eqb e oe
  | _, _ => false
  end.

Fixpoint run_steps_g (rl : Z) (get : bytes -> got) (j : joiner) (steps : list (op * obs)) (i : nat) : option nat :=
  match steps with
  | [] => None
  | (o, ob) :: rest =>
      let '(j', m) := step_model_g rl get j o in
      if obs_matches m ob then run_steps_g rl get j' rest (S i) else Some i
  end.
Definition run_steps := run_steps_g RL.

Definition lift_rl (encrypted : bool) : Z := if encrypted then 2 * RL else RL.
Definition lift_size (n tail : Z) : Z := n * CS + tail.
(** index of the first disagreeing step of a lift case (0 = Size) *)
Definition lift_first_bad (encrypted : bool) (n tail : Z) (steps : list (op * obs)) : option nat :=
  let rl := lift_rl encrypted in
  let get := lift_get rl (lift_byte n tail) in
  match joiner_new get (encr rl 0 (lift_size n tail)) with
  | Some j => run_steps_g rl get j steps 1
  | None => Some 0%nat
  end.

Definition first_bad (c : case) : option nat :=
  match c with
  | CJoin size seed flt steps =>
      match joiner_new (syn_get seed flt) (enc 0 size) with
      | Some j => run_steps (syn_get seed flt) j steps 0
      | None => Some 0%nat
      end
  | CNewFail size seed flt =>
      match joiner_new (syn_get seed flt) (enc 0 size) with Some _ => Some 0%nat | None => None end
  | CLift e n tail steps => lift_first_bad e n tail steps
  end.

Definition check_case (c : case) : bool := match first_bad c with None => true | Some _ => false end.

Fixpoint replay_g (rl : Z) (get : bytes -> got) (j : joiner) (steps : list (op * obs)) : list (Z * N * option (N * N)) :=
  match steps with
  | [] => []
  | (o, _) :: rest =>
      let '(j', (n, e, b)) := step_model_g rl get j o in
      (n, e, option_map dig b) :: replay_g rl get j' rest
  end.
Definition replay := replay_g RL.
Definition lift_replay (encrypted : bool) (n tail : Z) (steps : list (op * obs)) :=
  let rl := lift_rl encrypted in
  let get := lift_get rl (lift_byte n tail) in
  match joiner_new get (encr rl 0 (lift_size n tail)) with
  | Some j => replay_g rl get j steps
  | None => []
  end.

(** index of the first disagreeing step, and what the model computed for every step *)
Definition explain_case (c : case) :=
  match c with
  | CJoin size seed flt steps =>
      (first_bad c, match joiner_new (syn_get seed flt) (enc 0 size) with
                    | Some j => replay (syn_get seed flt) j steps | None => [] end)
  | CNewFail _ _ _ => (first_bad c, [])
  | CLift e n tail steps => (first_bad c, lift_replay e n tail steps)
  end.
