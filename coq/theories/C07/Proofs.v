(** C07 — the joiner model reads exactly the requested bytes of any
    well-formed stored tree ([Repr]), writing only inside [0, len(buffer)). *)
From Coq Require Import List NArith ZArith Bool Lia Arith.
From Coq Require Import ZifyBool ZifyNat ZifyN.
Import ListNotations.
Require Import Aurora.C02.Model Aurora.C02.Proofs Aurora.C07.Model Aurora.C07.Slices.
Local Open Scope Z_scope.

Lemma rd_app_empty_l r : rd_app rd_empty r = r.
Proof. destruct r; reflexivity. Qed.

(** a virtual slice that behaves as the list [l] *)
Definition v_repr (v : vslice) (l : bytes) : Prop :=
  v_len v = len l /\ forall s n, 0 <= s -> 0 <= n -> s + n <= len l -> v_get v s n = slice l s n.

Lemma of_list_repr l : v_repr (of_list l) l.
Proof. split; [reflexivity|]. intros; reflexivity. Qed.

Lemma branch_arith X Y bb r l size : 1 <= X -> 2 <= bb -> X * bb <= Y -> 2 <= r -> 0 < l ->
  size = (r - 1) * Y + l -> 0 <= X * (r - 1) <= size /\ X < size - X * (r - 1).
Proof.
  intros HX Hbb HXY Hr Hl ->.
  assert (H2 : X * 2 <= X * bb) by (apply Z.mul_le_mono_nonneg_l; lia).
  assert (H3 : (r - 1) * (X * 2) <= (r - 1) * Y) by (apply Z.mul_le_mono_nonneg_l; lia).
  assert (H4 : 0 <= X * (r - 1)) by (apply Z.mul_nonneg_nonneg; lia).
  split; nia.
Qed.

Record kid := mkK { k_ref : bytes; k_span : Z; k_pay : vslice; k_data : bytes }.

Section JoinerProofs.
  Variable get : bytes -> got.
  Variable cs refLen : Z.
  Hypothesis Hrl : 0 < refLen.
  Hypothesis Hb : 2 <= cs / refLen.
  Notation b := (cs / refLen).

  Lemma Hcs : 0 < cs.
  Proof. destruct (Z.le_gt_cases cs 0) as [Hc|Hc]; [|exact Hc]. assert (cs / refLen <= 0) by (apply Z.div_le_upper_bound; lia). lia. Qed.
  Lemma b_refLen_le_cs : b * refLen <= cs.
  Proof. rewrite Z.mul_comm. apply Z.mul_div_le. exact Hrl. Qed.

  Definition Bsz (m : nat) : Z := cs * b ^ Z.of_nat m.

  Lemma pow_pos m : 1 <= b ^ Z.of_nat m.
  Proof. assert (0 < b ^ Z.of_nat m) by (apply Z.pow_pos_nonneg; lia). lia. Qed.
  Lemma Bsz_ge_cs m : cs <= Bsz m.
  Proof. unfold Bsz. pose proof (pow_pos m). pose proof Hcs. nia. Qed.
  Lemma Bsz_succ m : Bsz (S m) = Bsz m * b.
  Proof. unfold Bsz. rewrite Nat2Z.inj_succ, Z.pow_succ_r by lia. ring. Qed.
  Lemma Bsz_mono j m : (j <= m)%nat -> Bsz j <= Bsz m.
  Proof.
    intros Hjm. unfold Bsz. pose proof Hcs. apply Z.mul_le_mono_nonneg_l; [lia|].
    apply Z.pow_le_mono_r; lia.
  Qed.
  Lemma Bsz_level_bound m : Bsz m < 2 ^ 63 -> (m < 63)%nat.
  Proof.
    intros Hlt. assert (H2 : 2 ^ Z.of_nat m <= b ^ Z.of_nat m) by (apply Z.pow_le_mono_l; lia).
    assert (H3 : 2 ^ Z.of_nat m <= Bsz m).
    { unfold Bsz. pose proof Hcs. pose proof (pow_pos m). nia. }
    assert (H4 : 2 ^ Z.of_nat m < 2 ^ 63) by lia.
    apply Z.pow_lt_mono_r_iff in H4; lia.
  Qed.

  (** ** [subtrieSection] finds the true child span *)
  Section Sub.
    Variables (m : nat) (r l size : Z).
    Hypothesis Hr : 2 <= r.
    Hypothesis Hl : 0 < l <= Bsz m.
    Hypothesis Hsize : size = (r - 1) * Bsz m + l.
    Hypothesis H63 : size < 2 ^ 63.

    Lemma branch_loop_ok : forall k j fuel, (j + k = m)%nat -> (k < fuel)%nat ->
      branch_loop fuel size r b (Bsz j) = Some (Bsz m).
    Proof.
      pose proof Hcs as Hc.
      induction k as [|k IH]; intros j fuel Hjk Hf; (destruct fuel as [|fuel]; [lia|]); cbn [branch_loop].
      - replace j with m by lia.
        assert (H0 : 0 <= Bsz m * (r - 1)) by (pose proof (Bsz_ge_cs m); apply Z.mul_nonneg_nonneg; lia).
        rewrite (i64_small (Bsz m * (r - 1))) by lia.
        replace (size - Bsz m * (r - 1)) with l by lia.
        rewrite i64_small by lia.
        replace (l <=? Bsz m) with true by (symmetry; apply Z.leb_le; lia). reflexivity.
      - assert (Hj : Bsz j * b <= Bsz m).
        { rewrite <- Bsz_succ. apply Bsz_mono. lia. }
        pose proof (Bsz_ge_cs j) as Hjc.
        destruct (branch_arith (Bsz j) (Bsz m) b r l size ltac:(lia) Hb Hj Hr ltac:(lia) Hsize) as [H1 Hgt].
        rewrite (i64_small (Bsz j * (r - 1))) by lia.
        rewrite (i64_small (size - Bsz j * (r - 1))) by lia.
        replace (size - Bsz j * (r - 1) <=? Bsz j) with false by (symmetry; apply Z.leb_gt; lia).
        rewrite (i64_small (Bsz j * b)) by (pose proof (Bsz_ge_cs m); assert (0 <= Bsz j * b) by (apply Z.mul_nonneg_nonneg; lia); assert (Bsz m <= size) by (rewrite Hsize; assert (1 * Bsz m <= (r - 1) * Bsz m) by (apply Z.mul_le_mono_nonneg_r; lia); lia); lia).
        rewrite <- Bsz_succ. apply IH; lia.
    Qed.

    Lemma subtrie_section_correct i : 0 <= i < r ->
      subtrie_section cs refLen (r * refLen) (i * refLen) size = inl (if i =? r - 1 then l else Bsz m).
    Proof.
      intros Hi. unfold subtrie_section.
      replace (refLen =? 0) with false by (symmetry; apply Z.eqb_neq; lia).
      rewrite Z.div_mul by lia.
      assert (Hm : (m < 63)%nat).
      { apply Bsz_level_bound. pose proof (Bsz_ge_cs m). nia. }
      replace cs with (Bsz 0) at 2 by (unfold Bsz; cbn; lia).
      rewrite (branch_loop_ok m 0 70) by lia.
      assert (H0 : 0 <= (r - 1) * Bsz m <= size) by (pose proof (Bsz_ge_cs m); pose proof Hcs; nia).
      destruct (i =? r - 1) eqn:Ei.
      - apply Z.eqb_eq in Ei. subst i. rewrite Z.eqb_refl.
        rewrite (i64_small ((r - 1) * Bsz m)) by lia.
        replace (size - (r - 1) * Bsz m) with l by lia. rewrite i64_small by lia. reflexivity.
      - apply Z.eqb_neq in Ei.
        replace (i * refLen =? (r - 1) * refLen) with false; [reflexivity|].
        symmetry. apply Z.eqb_neq. nia.
    Qed.
  End Sub.

  (** ** stored trees *)
  Definition kid_ok (R : Z -> vslice -> bytes -> Prop) (k : kid) : Prop :=
    len (k_ref k) = refLen /\ get (k_ref k) = GOk (k_span k) (k_pay k) /\ R (k_span k) (k_pay k) (k_data k).

  (** [Repr m span v d]: the chunk with payload [v] and span [span] is the root of
      a well-formed tree of height at most [m] over the data [d] *)
  Fixpoint Repr (m : nat) (span : Z) (v : vslice) (d : bytes) : Prop :=
    match m with
    | O => span = len d /\ v_repr v d /\ span <= cs
    | S m' =>
        Repr m' span v d \/
        exists (front : list kid) (last : kid),
          span = len d
          /\ (1 <= length front)%nat /\ len (front ++ [last]) <= b
          /\ v_repr v (concat (map k_ref (front ++ [last])))
          /\ d = concat (map k_data (front ++ [last]))
          /\ Forall (kid_ok (Repr m')) (front ++ [last])
          /\ Forall (fun k => len (k_data k) = Bsz m') front
          /\ 0 < len (k_data last) <= Bsz m'
    end.

  Lemma Repr_leaf_intro d : len d <= cs -> Repr 0 (len d) (of_list d) d.
  Proof. intros Hl. cbn [Repr]. split; [reflexivity|]. split; [apply of_list_repr | exact Hl]. Qed.

  Lemma Repr_node_intro m (front : list kid) (last : kid) :
    (1 <= length front)%nat -> len (front ++ [last]) <= b ->
    Forall (kid_ok (Repr m)) (front ++ [last]) ->
    Forall (fun k => len (k_data k) = Bsz m) front -> 0 < len (k_data last) <= Bsz m ->
    Repr (S m) (len (concat (map k_data (front ++ [last]))))
         (of_list (concat (map k_ref (front ++ [last])))) (concat (map k_data (front ++ [last]))).
  Proof.
    intros H1 H2 H3 H4 H5. cbn [Repr]. right. exists front, last.
    split; [reflexivity|]. split; [exact H1|]. split; [exact H2|]. split; [apply of_list_repr|].
    split; [reflexivity|]. split; [exact H3|]. split; [exact H4 | exact H5].
  Qed.

  Lemma Repr_span m : forall span v d, Repr m span v d -> span = len d.
  Proof.
    induction m as [|m IH]; intros span v d Hr; cbn [Repr] in Hr.
    - tauto.
    - destruct Hr as [Hr | (front & last & Hs & _)]; [exact (IH _ _ _ Hr) | exact Hs].
  Qed.

  Lemma Repr_mono m : forall span v d, Repr m span v d -> Repr (S m) span v d.
  Proof. intros. cbn [Repr]. now left. Qed.

  Lemma len_concat_map_data (ks : list kid) : len (concat (map k_data ks)) = fold_right (fun k a => len (k_data k) + a) 0 ks.
  Proof. induction ks as [|k ks IH]; cbn [map concat fold_right]; [reflexivity|]. rewrite app_length. lia. Qed.

  Lemma len_front B (front : list kid) : Forall (fun k => len (k_data k) = B) front ->
    len (concat (map k_data front)) = len front * B.
  Proof.
    induction 1 as [|k ks Hk _ IH]; cbn [map concat length]; [lia|]. rewrite app_length. lia.
  Qed.

  Lemma len_refs (ks : list kid) : Forall (fun k => len (k_ref k) = refLen) ks ->
    len (concat (map k_ref ks)) = len ks * refLen.
  Proof.
    induction 1 as [|k ks Hk _ IH]; cbn [map concat length]; [lia|]. rewrite app_length. lia.
  Qed.

  (** ** the leaf case *)
  Lemma leaf_read fuel bcap v d cur off boff toRead :
    v_repr v d -> 0 <= off - cur <= len d -> 0 <= toRead <= len d - (off - cur) ->
    0 <= boff -> boff + toRead <= bcap ->
    exists ws, read_at_offset get cs refLen (S fuel) bcap v cur (len d) off boff toRead = mkR ws toRead []
               /\ tiles boff ws (slice d (off - cur) toRead).
  Proof.
    intros [Hvl Hvg] Ho Ht Hb0 Hbc. cbn [read_at_offset]. rewrite Hvl.
    replace (len d <=? len d) with true by (symmetry; apply Z.leb_le; lia).
    replace (toRead >? len d - (off - cur)) with false by (symmetry; rewrite Z.gtb_ltb; apply Z.ltb_ge; lia).
    replace (off - cur <? 0) with false by (symmetry; apply Z.ltb_ge; lia).
    replace (off - cur + toRead <? off - cur) with false by (symmetry; apply Z.ltb_ge; lia).
    replace (len d <? off - cur + toRead) with false by (symmetry; apply Z.ltb_ge; lia).
    cbn [orb]. replace (off - cur + toRead - (off - cur)) with toRead by lia.
    replace (boff <? 0) with false by (symmetry; apply Z.ltb_ge; lia).
    replace (bcap <? boff + toRead) with false by (symmetry; apply Z.ltb_ge; lia).
    cbn [orb]. rewrite Hvg by lia. eexists. split; [reflexivity|]. apply tiles_single.
  Qed.

  (** ** the reference loop of an intermediate chunk *)
  Section Node.
    Variables (m : nat) (fuel : nat) (bcap : Z) (v : vslice) (size : Z).
    Variables (front : list kid) (last : kid).
    Notation kids := (front ++ [last]).
    Hypothesis Hfront : (1 <= length front)%nat.
    Hypothesis Hkb : len kids <= b.
    Hypothesis Hv : v_repr v (concat (map k_ref kids)).
    Hypothesis Hkids : Forall (kid_ok (Repr m)) kids.
    Hypothesis Hfull : Forall (fun k => len (k_data k) = Bsz m) front.
    Hypothesis Hlast : 0 < len (k_data last) <= Bsz m.
    Hypothesis Hsize : size = len (concat (map k_data kids)).
    Hypothesis H63 : size < 2 ^ 63.
    (** the reader of the children is correct (induction hypothesis of the main lemma) *)
    Hypothesis Hrec : forall span v' d cur off boff toRead,
      Repr m span v' d -> span < 2 ^ 63 -> 0 <= off - cur <= span -> 0 <= toRead <= span - (off - cur) ->
      0 <= boff -> boff + toRead <= bcap ->
      exists ws, read_at_offset get cs refLen fuel bcap v' cur span off boff toRead = mkR ws toRead []
                 /\ tiles boff ws (slice d (off - cur) toRead).

    Let r := len kids.

    Lemma kids_refs : Forall (fun k => len (k_ref k) = refLen) kids.
    Proof. eapply Forall_impl; [|exact Hkids]. intros k (H1 & _). exact H1. Qed.

    Lemma size_eq : size = (r - 1) * Bsz m + len (k_data last).
    Proof.
      rewrite Hsize, map_app, concat_app, app_length, Nat2Z.inj_add, (len_front (Bsz m) front Hfull).
      cbn [map concat]. rewrite app_nil_r. unfold r. rewrite app_length. cbn [length]. lia.
    Qed.

    Lemma vlen_eq : v_len v = r * refLen.
    Proof. destruct Hv as [Hvl _]. rewrite Hvl. apply len_refs. exact kids_refs. Qed.

    (** span of the child at index [i] *)
    Lemma sec_at (done rest : list kid) (k : kid) : kids = done ++ k :: rest ->
      subtrie_section cs refLen (v_len v) (len done * refLen) size = inl (len (k_data k)).
    Proof.
      intros Hsplit. rewrite vlen_eq.
      assert (Hr2 : 2 <= r) by (unfold r; rewrite app_length; cbn [length]; lia).
      rewrite (subtrie_section_correct m r (len (k_data last)) size Hr2 Hlast size_eq H63 (len done)).
      2:{ unfold r. rewrite Hsplit, app_length. cbn [length]. lia. }
      f_equal.
      destruct rest as [|k2 rest'].
      - (* k is the last kid *)
        assert (Hk : done = front /\ k = last).
        { apply app_inj_tail. rewrite Hsplit. reflexivity. }
        destruct Hk as [-> ->].
        replace (len front =? r - 1) with true; [reflexivity|].
        symmetry. apply Z.eqb_eq. unfold r. rewrite app_length. cbn [length]. lia.
      - replace (len done =? r - 1) with false.
        2:{ symmetry. apply Z.eqb_neq. unfold r. rewrite Hsplit, app_length. cbn [length]. lia. }
        (* k lies in front *)
        assert (Hin : In k front).
        { assert (Hrl' : removelast kids = front) by apply removelast_last.
          rewrite Hsplit in Hrl'. rewrite removelast_app in Hrl' by discriminate.
          rewrite <- Hrl'. apply in_or_app. right. cbn [removelast]. left. reflexivity. }
        symmetry. exact (proj1 (Forall_forall _ front) Hfull k Hin).
    Qed.

    Lemma ref_at (done rest : list kid) (k : kid) : kids = done ++ k :: rest ->
      v_get v (len done * refLen) refLen = k_ref k.
    Proof.
      intros Hsplit. destruct Hv as [Hvl Hvg].
      pose proof kids_refs as Hrefs. rewrite Hsplit in Hrefs.
      apply Forall_app in Hrefs as [Hd Hr0]. inversion Hr0 as [|? ? Hk Hr1]; subst.
      pose proof (len_refs done Hd) as Hld.
      rewrite Hvg.
      - rewrite Hsplit, map_app, concat_app. cbn [map concat].
        rewrite slice_app_skip by lia. rewrite Hld, Z.sub_diag, <- Hk. apply slice_prefix.
      - lia.
      - lia.
      - rewrite Hsplit, map_app, concat_app, app_length. cbn [map concat]. rewrite app_length. lia.
    Qed.

    Lemma loop_ok : forall rest done K cur off boff toRead,
      kids = done ++ rest -> (length rest < K)%nat ->
      0 <= off - cur <= len (concat (map k_data rest)) ->
      0 <= toRead <= len (concat (map k_data rest)) - (off - cur) ->
      0 <= boff -> boff + toRead <= bcap ->
      exists ws, ref_loop get cs refLen (read_at_offset get cs refLen fuel bcap) v size K
                   (len done * refLen) cur off boff toRead = mkR ws toRead []
                 /\ tiles boff ws (slice (concat (map k_data rest)) (off - cur) toRead).
    Proof.
      induction rest as [|k rest IH]; intros done K cur off boff toRead Hsplit HK Ho Ht Hb0 Hbc;
        (destruct K as [|K]; [lia|]); cbn [ref_loop].
      - cbn [map concat length] in *. rewrite app_nil_r in Hsplit.
        rewrite vlen_eq. unfold r. rewrite Hsplit.
        replace (len done * refLen <=? len done * refLen) with true by (symmetry; apply Z.leb_le; lia).
        assert (toRead = 0) by lia. subst toRead. exists []. split; reflexivity.
      - assert (Hlt : len done < r) by (unfold r; rewrite Hsplit, app_length; cbn [length]; lia).
        pose proof vlen_eq as Hvl.
        replace (v_len v <=? len done * refLen) with false by (symmetry; apply Z.leb_gt; rewrite Hvl; nia).
        destruct (toRead =? 0) eqn:Et.
        { apply Z.eqb_eq in Et. subst toRead. exists []. split; reflexivity. }
        apply Z.eqb_neq in Et.
        rewrite (sec_at done rest k Hsplit).
        cbn [map concat] in Ho, Ht |- *. rewrite app_length, Nat2Z.inj_add in Ho, Ht.
        remember (len (k_data k)) as sec eqn:Esec.
        assert (Hkok : kid_ok (Repr m) k).
        { apply (proj1 (Forall_forall _ kids) Hkids). rewrite Hsplit. apply in_or_app. right. left. reflexivity. }
        destruct Hkok as (Hkr & Hkg & Hkrep).
        pose proof (Repr_span m _ _ _ Hkrep) as Hks.
        assert (Hsplit' : kids = (done ++ [k]) ++ rest) by (rewrite <- app_assoc; exact Hsplit).
        assert (Hcur : (len done * refLen + refLen) = len (done ++ [k]) * refLen).
        { rewrite app_length. cbn [length]. lia. }
        assert (Hseclt : sec <= size).
        { rewrite Hsize, Hsplit, map_app, concat_app, app_length. cbn [map concat]. rewrite app_length. lia. }
        destruct (cur + sec <? off) eqn:Eskip.
        + (* skipped *)
          apply Z.ltb_lt in Eskip. rewrite Hcur.
          destruct (IH (done ++ [k]) K (cur + sec) off boff toRead Hsplit' ltac:(cbn [length] in HK; lia))
            as (ws & Hl & Htl); try lia.
          exists ws. split; [exact Hl|].
          rewrite slice_app_skip by lia. rewrite <- Esec. replace (off - cur - sec) with (off - (cur + sec)) by lia. exact Htl.
        + apply Z.ltb_ge in Eskip.
          replace (v_len v <? len done * refLen + refLen) with false by (symmetry; apply Z.ltb_ge; rewrite Hvl; nia).
          rewrite (ref_at done rest k Hsplit), Hkg.
          replace (k_span k >? sec) with false by (symmetry; rewrite Z.gtb_ltb; apply Z.ltb_ge; lia).
          remember (if sec - (off - cur) >? toRead then toRead else sec - (off - cur)) as crs1 eqn:Ec1.
          assert (Hc1 : crs1 = Z.min (sec - (off - cur)) toRead).
          { subst crs1. destruct (sec - (off - cur) >? toRead) eqn:Eg.
            - apply Z.gtb_lt in Eg. lia.
            - rewrite Z.gtb_ltb in Eg. apply Z.ltb_ge in Eg. lia. }
          replace (crs1 >? sec) with false by (symmetry; rewrite Z.gtb_ltb; apply Z.ltb_ge; lia).
          clear Ec1.
          destruct (Hrec (k_span k) (k_pay k) (k_data k) cur off boff crs1 Hkrep) as (ws1 & Hr1 & Ht1); try lia.
          rewrite Hr1. rewrite Hcur.
          destruct (IH (done ++ [k]) K (cur + sec) (cur + sec) (boff + crs1) (toRead - crs1) Hsplit'
                       ltac:(cbn [length] in HK; lia)) as (ws2 & Hl2 & Ht2); try lia.
          rewrite Hl2. unfold rd_app. cbn [rd_writes rd_n rd_errs app].
          exists (ws1 ++ ws2). split; [f_equal; lia|].
          rewrite slice_app_split by lia. rewrite <- Esec, <- Hc1.
          apply tiles_app; [exact Ht1|].
          rewrite slice_length by lia.
          replace (cur + sec - (cur + sec)) with 0 in Ht2 by lia. exact Ht2.
    Qed.
  End Node.

  (** ** the main lemma: any read inside a stored tree *)
  Lemma read_ok bcap : forall m fuel, (m < fuel)%nat ->
    forall span v d cur off boff toRead,
    Repr m span v d -> span < 2 ^ 63 -> 0 <= off - cur <= span -> 0 <= toRead <= span - (off - cur) ->
    0 <= boff -> boff + toRead <= bcap ->
    exists ws, read_at_offset get cs refLen fuel bcap v cur span off boff toRead = mkR ws toRead []
               /\ tiles boff ws (slice d (off - cur) toRead).
  Proof.
    induction m as [|m IH]; intros fuel Hf span v d cur off boff toRead Hr H63 Ho Ht Hb0 Hbc;
      (destruct fuel as [|fuel]; [lia|]).
    - cbn [Repr] in Hr. destruct Hr as (Hs & Hv & _). subst span. now apply leaf_read.
    - cbn [Repr] in Hr. destruct Hr as [Hr | (front & last & Hs & Hfront & Hkb & Hv & Hd & Hkids & Hfull & Hlast)].
      + apply (IH (S fuel)); try assumption. lia.
      + assert (Hsize : span = len (concat (map k_data (front ++ [last])))) by (rewrite <- Hd; exact Hs).
        assert (Hrecur : forall span' v' d' cur' off' boff' toRead',
          Repr m span' v' d' -> span' < 2 ^ 63 -> 0 <= off' - cur' <= span' -> 0 <= toRead' <= span' - (off' - cur') ->
          0 <= boff' -> boff' + toRead' <= bcap ->
          exists ws, read_at_offset get cs refLen fuel bcap v' cur' span' off' boff' toRead' = mkR ws toRead' []
                     /\ tiles boff' ws (slice d' (off' - cur') toRead')).
        { intros. apply (IH fuel); try assumption. lia. }
        pose proof (size_eq m fuel bcap v span front last Hfront Hfull Hsize Hrecur) as Hse.
        pose proof (vlen_eq m v front last Hv Hkids) as Hvl.
        cbn [read_at_offset].
        (* not a leaf: the span exceeds the payload length *)
        assert (Hnl : (span <=? v_len v) = false).
        { apply Z.leb_gt. rewrite Hvl. pose proof b_refLen_le_cs. pose proof (Bsz_ge_cs m).
          rewrite app_length in Hse, Hkb |- *. cbn [length] in *. nia. }
        rewrite Hnl.
        replace (refLen <=? 0) with false by (symmetry; apply Z.leb_gt; lia).
        rewrite Hvl, Z.div_mul by lia.
        destruct (loop_ok m fuel bcap v span front last Hfront Hv Hkids Hfull Hlast Hsize H63 Hrecur
                    (front ++ [last]) [] (S (Z.to_nat (len (front ++ [last]) + 1))) cur off boff toRead)
          as (ws & Hl & Htl); try reflexivity; try lia.
        cbn [length] in Hl. rewrite Z.mul_0_l in Hl. exists ws. split; [exact Hl|]. rewrite Hd. exact Htl.
  Qed.

  (** a stored tree below 2^63 bytes has fewer than 64 levels *)
  Lemma node_span_gt m (front : list kid) (last : kid) :
    (1 <= length front)%nat -> Forall (fun k => len (k_data k) = Bsz m) front -> 0 < len (k_data last) ->
    Bsz m < len (concat (map k_data (front ++ [last]))).
  Proof.
    intros Hf Hfull Hl. rewrite map_app, concat_app, app_length, Nat2Z.inj_add, (len_front (Bsz m) front Hfull).
    cbn [map concat]. rewrite app_nil_r. pose proof (Bsz_ge_cs m). pose proof Hcs. nia.
  Qed.

  Lemma Repr_bound m : forall span v d, Repr m span v d -> span < 2 ^ 63 -> Repr (Nat.min m 63) span v d.
  Proof.
    induction m as [|m IH]; intros span v d Hr H63; [exact Hr|].
    cbn [Repr] in Hr. destruct Hr as [Hr | (front & last & Hs & Hfront & Hkb & Hv & Hd & Hkids & Hfull & Hlast)].
    - specialize (IH _ _ _ Hr H63). destruct (Nat.le_gt_cases 63 m) as [Hm|Hm].
      + rewrite Nat.min_r in IH by lia. rewrite Nat.min_r by lia. exact IH.
      + rewrite Nat.min_l in IH by lia. rewrite Nat.min_l by lia. now apply Repr_mono.
    - assert (Hm : (m < 63)%nat).
      { apply Bsz_level_bound. pose proof (node_span_gt m front last Hfront Hfull ltac:(lia)) as Hgt.
        rewrite <- Hd, <- Hs in Hgt. lia. }
      rewrite Nat.min_l by lia. cbn [Repr]. right. exists front, last. tauto.
  Qed.

  (** ** ReadAt *)
  Definition content (ws : list (Z * bytes)) : bytes := concat (map snd ws).

  Lemma tiles_content ws : forall boff c, tiles boff ws c -> content ws = c.
  Proof.
    induction ws as [|[o bs] ws IH]; intros boff c Ht; cbn [tiles] in Ht.
    - now subst c.
    - destruct Ht as (_ & rest & -> & Ht). unfold content. cbn [map snd concat]. f_equal. exact (IH _ _ Ht).
  Qed.

  Section Stored.
    Variables (j : joiner) (data : bytes) (m : nat).
    Hypothesis Hrep : Repr m (j_span j) (j_root j) data.
    Hypothesis H63 : j_span j < 2 ^ 63.

    Lemma stored_size : j_span j = len data.
    Proof. exact (Repr_span m _ _ _ Hrep). Qed.

    Lemma read_at_spec blen bcap off : 0 <= off -> 0 <= blen <= bcap ->
      if off >=? len data then read_at get cs refLen j blen bcap off = (0, [], REOF)
      else exists ws, read_at get cs refLen j blen bcap off = (Z.min blen (len data - off), ws, RNil)
                      /\ tiles 0 ws (slice data off (Z.min blen (len data - off))).
    Proof.
      intros Ho Hb'. unfold read_at. pose proof stored_size as Hsz.
      assert (H63' : len data < 2 ^ 63) by (rewrite <- Hsz; exact H63).
      rewrite Hsz.
      destruct (off >=? len data) eqn:Eo; [reflexivity|].
      rewrite Z.geb_leb in Eo. apply Z.leb_gt in Eo.
      rewrite i64_small by lia.
      assert (Hrl0 : (if blen >? len data - off then len data - off else blen) = Z.min blen (len data - off)).
      { destruct (blen >? len data - off) eqn:Eg.
        - apply Z.gtb_lt in Eg. lia.
        - rewrite Z.gtb_ltb in Eg. apply Z.ltb_ge in Eg. lia. }
      rewrite Hrl0.
      pose proof (Repr_bound m _ _ _ Hrep H63) as Hrep'. rewrite Hsz in Hrep'.
      destruct (read_ok bcap (Nat.min m 63) 64 ltac:(lia) (len data) (j_root j) data 0 off 0
                        (Z.min blen (len data - off)) Hrep' H63') as (ws & Hr & Ht); try lia.
      rewrite Hr. cbn [rd_errs rd_n rd_writes]. exists ws. split; [reflexivity|].
      replace (off - 0) with off in Ht by lia. exact Ht.
    Qed.

    (** what the caller's buffer looks like afterwards *)
    Lemma read_at_buffer blen bcap off buf : 0 <= off -> 0 <= blen <= bcap -> len buf = bcap ->
      off < len data ->
      exists ws, read_at get cs refLen j blen bcap off = (Z.min blen (len data - off), ws, RNil)
        /\ apply_writes buf ws = slice data off (Z.min blen (len data - off))
                                  ++ skipn (Z.to_nat (Z.min blen (len data - off))) buf.
    Proof.
      intros Ho Hb' Hbuf Hlt. pose proof (read_at_spec blen bcap off Ho Hb') as Hs.
      replace (off >=? len data) with false in Hs by (symmetry; rewrite Z.geb_leb; apply Z.leb_gt; lia).
      destruct Hs as (ws & Hr & Ht). exists ws. split; [exact Hr|].
      assert (Hsl : len (slice data off (Z.min blen (len data - off))) = Z.min blen (len data - off))
        by (apply slice_length; lia).
      rewrite (apply_tiles ws 0 _ buf Ht) by lia. cbn [Z.to_nat firstn app]. rewrite Hsl. reflexivity.
    Qed.

    (** ** Read *)
    Lemma read_spec blen bcap : 0 <= j_off j <= len data -> 0 <= blen <= bcap ->
      if j_off j >=? len data
      then read get cs refLen j blen bcap = (j, (0, [], REOF))
      else exists ws, read get cs refLen j blen bcap =
                        (mkJ (j_span j) (j_root j) (j_off j + Z.min blen (len data - j_off j)),
                         (Z.min blen (len data - j_off j), ws, RNil))
                      /\ tiles 0 ws (slice data (j_off j) (Z.min blen (len data - j_off j))).
    Proof.
      intros Hoff Hb'. unfold read. pose proof (read_at_spec blen bcap (j_off j) ltac:(lia) Hb') as Hs.
      pose proof stored_size as Hsz.
      destruct (j_off j >=? len data) eqn:Eo.
      - rewrite Hs. rewrite Z.add_0_r, i64_small by lia. destruct j; reflexivity.
      - rewrite Z.geb_leb in Eo. apply Z.leb_gt in Eo.
        destruct Hs as (ws & Hr & Ht). rewrite Hr. rewrite i64_small by lia. exists ws. split; [reflexivity | exact Ht].
    Qed.

    (** ** Seek: the true (unbounded) requested position *)
    Definition requested (offset whence : Z) : Z :=
      if whence =? 0 then offset else if whence =? 1 then j_off j + offset else len data - offset.

    Lemma seek_spec offset whence : 0 <= j_off j <= len data -> - 2 ^ 63 <= offset < 2 ^ 63 ->
      let '(j', (p, e)) := seek j offset whence in
      (e <> SNil /\ j' = j /\ p = 0)
      \/ (e = SNil /\ 0 <= whence <= 2 /\ p = requested offset whence /\ 0 <= p <= len data
          /\ j' = mkJ (j_span j) (j_root j) p).
    Proof.
      intros Hoff Hofs. pose proof stored_size as Hsz. unfold seek, requested. rewrite <- Hsz.
      destruct (whence =? 0) eqn:E0.
      { apply Z.eqb_eq in E0. subst whence.
        destruct (offset <? 0) eqn:E1; [left; repeat split; discriminate|].
        destruct (offset >? j_span j) eqn:E2; [left; repeat split; discriminate|].
        apply Z.ltb_ge in E1. rewrite Z.gtb_ltb in E2. apply Z.ltb_ge in E2.
        right. repeat split; try lia. }
      destruct (whence =? 1) eqn:E1w.
      { apply Z.eqb_eq in E1w. subst whence.
        destruct (Z.lt_ge_cases (offset + j_off j) (2 ^ 63)) as [Hs|Hs].
        - rewrite i64_small by lia.
          destruct (offset + j_off j <? 0) eqn:E1; [left; repeat split; discriminate|].
          destruct (offset + j_off j >? j_span j) eqn:E2; [left; repeat split; discriminate|].
          apply Z.ltb_ge in E1. rewrite Z.gtb_ltb in E2. apply Z.ltb_ge in E2.
          right. repeat split; try lia.
        - assert (Hw : i64 (offset + j_off j) = offset + j_off j - 2 ^ 64).
          { unfold i64.
            replace ((-9223372036854775808 <=? offset + j_off j) && (offset + j_off j <? 9223372036854775808)) with false
              by (symmetry; apply andb_false_iff; right; apply Z.ltb_ge; lia).
            lia. }
          rewrite Hw.
          replace (offset + j_off j - 2 ^ 64 <? 0) with true by (symmetry; apply Z.ltb_lt; lia).
          left. repeat split; discriminate. }
      destruct (whence =? 2) eqn:E2w.
      { apply Z.eqb_eq in E2w. subst whence.
        destruct (Z.lt_ge_cases (j_span j - offset) (2 ^ 63)) as [Hs|Hs].
        - rewrite i64_small by lia.
          destruct (j_span j - offset <? 0) eqn:E1; [left; repeat split; discriminate|].
          rewrite E1.
          destruct (j_span j - offset >? j_span j) eqn:E2; [left; repeat split; discriminate|].
          apply Z.ltb_ge in E1. rewrite Z.gtb_ltb in E2. apply Z.ltb_ge in E2.
          right. repeat split; try lia.
        - assert (Hw : i64 (j_span j - offset) = j_span j - offset - 2 ^ 64).
          { unfold i64.
            replace ((-9223372036854775808 <=? j_span j - offset) && (j_span j - offset <? 9223372036854775808)) with false
              by (symmetry; apply andb_false_iff; right; apply Z.ltb_ge; lia).
            lia. }
          rewrite Hw.
          replace (j_span j - offset - 2 ^ 64 <? 0) with true by (symmetry; apply Z.ltb_lt; lia).
          left. repeat split; discriminate. }
      left. repeat split; discriminate.
    Qed.
  End Stored.

  (** ** sequences of Read calls neither skip nor repeat *)
  Fixpoint reads (j : joiner) (bufs : list (Z * Z)) : joiner * list (Z * list (Z * bytes) * rerr) :=
    match bufs with
    | [] => (j, [])
    | (blen, bcap) :: rest =>
        let '(j1, r) := read get cs refLen j blen bcap in
        let '(j2, rs) := reads j1 rest in (j2, r :: rs)
    end.

  Definition res_content (r : Z * list (Z * bytes) * rerr) : bytes := content (snd (fst r)).
  Definition res_ok (r : Z * list (Z * bytes) * rerr) : Prop :=
    fst (fst r) = len (res_content r) /\ (snd r = RNil \/ (snd r = REOF /\ fst (fst r) = 0)).

  Lemma reads_spec data m : forall bufs j,
    Repr m (j_span j) (j_root j) data -> j_span j < 2 ^ 63 -> 0 <= j_off j <= len data ->
    Forall (fun bc => 0 <= fst bc <= snd bc) bufs ->
    let '(j', rs) := reads j bufs in
    j_span j' = j_span j /\ j_root j' = j_root j
    /\ j_off j <= j_off j' <= len data
    /\ concat (map res_content rs) = slice data (j_off j) (j_off j' - j_off j)
    /\ Forall res_ok rs.
  Proof.
    induction bufs as [|[blen bcap] bufs IH]; intros j Hrep H63 Hoff Hbufs.
    - cbn [reads map concat]. rewrite Z.sub_diag. repeat split; try lia; constructor.
    - inversion Hbufs as [|? ? Hb1 Hbs]; subst. cbn [fst snd] in Hb1. cbn [reads].
      pose proof (read_spec j data m Hrep H63 blen bcap Hoff Hb1) as Hr.
      destruct (j_off j >=? len data) eqn:Eo.
      + rewrite Hr. specialize (IH j Hrep H63 Hoff Hbs). destruct (reads j bufs) as [j2 rs].
        destruct IH as (H1 & H2 & H3 & H4 & H5). repeat split; try assumption; try lia.
        all: lazymatch goal with
             | |- Forall _ _ => constructor; [|exact H5]; unfold res_ok, res_content; cbn; split; [reflexivity|]; right; now split
             | |- _ => cbn [map concat]; unfold res_content at 1; cbn; exact H4
             end.
      + rewrite Z.geb_leb in Eo. apply Z.leb_gt in Eo.
        destruct Hr as (ws & Hr & Ht). rewrite Hr.
        set (n := Z.min blen (len data - j_off j)) in *.
        set (j1 := mkJ (j_span j) (j_root j) (j_off j + n)).
        assert (Hn : 0 <= n <= len data - j_off j) by (unfold n; lia).
        specialize (IH j1 Hrep H63 ltac:(cbn; lia) Hbs). destruct (reads j1 bufs) as [j2 rs].
        cbn [j_span j_root j_off j1] in IH. destruct IH as (H1 & H2 & H3 & H4 & H5).
        pose proof (tiles_content ws 0 _ Ht) as Hc.
        repeat split; try assumption; try lia.
        all: lazymatch goal with
             | |- Forall _ _ => constructor; [|exact H5]; unfold res_ok, res_content; cbn [fst snd]; rewrite Hc;
                                split; [|now left]; symmetry; apply slice_length; lia
             | |- _ => cbn [map concat]; unfold res_content at 1; cbn [fst snd]; rewrite Hc, H4;
                       rewrite slice_slice_app by lia; f_equal; lia
             end.
  Qed.
End JoinerProofs.
