(** C07 — list slices with [Z] indices, and buffer writes that tile a range. *)
From Coq Require Import List NArith ZArith Bool Lia Arith.
From Coq Require Import ZifyBool ZifyNat ZifyN.
Import ListNotations.
Require Import Aurora.C02.Model Aurora.C07.Model.
Local Open Scope Z_scope.

Notation len l := (Z.of_nat (length l)).

Lemma slice_nat (l : bytes) (s n : nat) : slice l (Z.of_nat s) (Z.of_nat n) = firstn n (skipn s l).
Proof. unfold slice. now rewrite !Nat2Z.id. Qed.

Lemma slice_zero l s : slice l s 0 = [].
Proof. reflexivity. Qed.

Lemma slice_length l s n : 0 <= s -> 0 <= n -> s + n <= len l -> len (slice l s n) = n.
Proof.
  intros Hs Hn Hl. unfold slice. rewrite firstn_length, skipn_length. lia.
Qed.

Lemma slice_all l : slice l 0 (len l) = l.
Proof. unfold slice. rewrite Nat2Z.id. cbn [Z.to_nat skipn]. apply firstn_all. Qed.

Lemma slice_app_skip (A R : bytes) s n : len A <= s -> slice (A ++ R) s n = slice R (s - len A) n.
Proof.
  intros Hs. unfold slice. f_equal. rewrite skipn_app.
  rewrite skipn_all2 by lia. cbn [app]. f_equal. lia.
Qed.

Lemma slice_app_split (A R : bytes) s n : 0 <= s <= len A -> 0 <= n ->
  slice (A ++ R) s n = slice A s (Z.min (len A - s) n) ++ slice R 0 (n - Z.min (len A - s) n).
Proof.
  intros Hs Hn. unfold slice. rewrite skipn_app.
  replace (Z.to_nat s - length A)%nat with 0%nat by lia. cbn [Z.to_nat skipn].
  rewrite firstn_app, skipn_length. f_equal.
  - destruct (Z.le_gt_cases n (len A - s)) as [Hc|Hc].
    + rewrite Z.min_r by lia. reflexivity.
    + rewrite Z.min_l by lia. rewrite !firstn_all2; [reflexivity | rewrite skipn_length; lia | rewrite skipn_length; lia].
  - f_equal. lia.
Qed.

Lemma slice_prefix (A R : bytes) : slice (A ++ R) 0 (len A) = A.
Proof.
  unfold slice. cbn [Z.to_nat skipn]. rewrite Nat2Z.id, firstn_app, Nat.sub_diag, firstn_all. cbn. apply app_nil_r.
Qed.

Lemma skipn_skipn' {A} (x y : nat) (l : list A) : skipn x (skipn y l) = skipn (y + x) l.
Proof.
  revert l; induction y as [|y IH]; intros l; [reflexivity|].
  destruct l; [now rewrite !skipn_nil|]. cbn [skipn plus]. apply IH.
Qed.

Lemma firstn_add {A} (n1 n2 : nat) (l : list A) : firstn (n1 + n2) l = firstn n1 l ++ firstn n2 (skipn n1 l).
Proof.
  revert l; induction n1 as [|n1 IH]; intros l; [reflexivity|].
  destruct l; [now rewrite !firstn_nil|]. cbn [plus firstn skipn app]. now rewrite IH.
Qed.

Lemma slice_slice_app (l : bytes) p n1 n2 : 0 <= p -> 0 <= n1 -> 0 <= n2 ->
  slice l p n1 ++ slice l (p + n1) n2 = slice l p (n1 + n2).
Proof.
  intros Hp H1 H2. unfold slice.
  replace (Z.to_nat (n1 + n2)) with (Z.to_nat n1 + Z.to_nat n2)%nat by lia.
  rewrite firstn_add, skipn_skipn'. do 3 f_equal. lia.
Qed.

(** ** writes that tile [boff, boff + |content|) *)
Fixpoint tiles (boff : Z) (ws : list (Z * bytes)) (content : bytes) : Prop :=
  match ws with
  | [] => content = []
  | (o, bs) :: ws' => o = boff /\ exists rest, content = bs ++ rest /\ tiles (boff + len bs) ws' rest
  end.

Lemma tiles_app ws1 : forall boff c1 ws2 c2,
  tiles boff ws1 c1 -> tiles (boff + len c1) ws2 c2 -> tiles boff (ws1 ++ ws2) (c1 ++ c2).
Proof.
  induction ws1 as [|[o bs] ws1 IH]; intros boff c1 ws2 c2 H1 H2; cbn [tiles app] in *.
  - subst c1. cbn [length] in H2. replace (boff + Z.of_nat 0) with boff in H2 by lia. exact H2.
  - destruct H1 as (-> & rest & -> & H1). split; [reflexivity|]. exists (rest ++ c2).
    split; [now rewrite app_assoc|]. apply IH; [exact H1|].
    rewrite app_length in H2. replace (boff + len bs + len rest) with (boff + Z.of_nat (length bs + length rest)) by lia.
    exact H2.
Qed.

Lemma tiles_single boff bs : tiles boff [(boff, bs)] bs.
Proof. cbn. split; [reflexivity|]. exists []. now rewrite app_nil_r. Qed.

(** the effect of tiling writes on a buffer: the range is replaced by the content,
    everything else is untouched *)
Lemma apply_tiles ws : forall boff content buf,
  tiles boff ws content -> 0 <= boff -> boff + len content <= len buf ->
  apply_writes buf ws = firstn (Z.to_nat boff) buf ++ content ++ skipn (Z.to_nat (boff + len content)) buf.
Proof.
  induction ws as [|[o bs] ws IH]; intros boff content buf Ht Hb Hl; cbn [tiles] in Ht.
  - subst content. cbn [apply_writes fold_left length app]. rewrite Z.add_0_r. now rewrite firstn_skipn.
  - destruct Ht as (-> & rest & -> & Ht). unfold apply_writes. cbn [fold_left]. fold (apply_writes (write_at buf (boff, bs)) ws).
    rewrite app_length, Nat2Z.inj_add in Hl.
    set (buf1 := write_at buf (boff, bs)).
    assert (Hl1 : length buf1 = length buf).
    { unfold buf1, write_at. rewrite !app_length, firstn_length, skipn_length. lia. }
    rewrite (IH (boff + len bs) rest buf1 Ht) by lia.
    unfold buf1, write_at.
    assert (Hfl : length (firstn (Z.to_nat boff) buf) = Z.to_nat boff) by (rewrite firstn_length; lia).
    (* prefix *)
    replace (Z.to_nat (boff + len bs)) with (Z.to_nat boff + length bs)%nat by lia.
    rewrite firstn_app, Hfl, firstn_firstn, Nat.min_r by lia.
    replace (Z.to_nat boff + length bs - Z.to_nat boff)%nat with (length bs) by lia.
    rewrite firstn_app, firstn_all, Nat.sub_diag, firstn_O, app_nil_r.
    rewrite <- !app_assoc. f_equal. f_equal. f_equal.
    (* suffix *)
    rewrite app_length. rewrite Nat2Z.inj_add.
    replace (Z.to_nat (boff + len bs + len rest)) with (Z.to_nat boff + (length bs + length rest))%nat by lia.
    replace (Z.to_nat (boff + (len bs + len rest))) with (Z.to_nat boff + (length bs + length rest))%nat by lia.
    rewrite skipn_app, Hfl.
    rewrite (skipn_all2 (firstn (Z.to_nat boff) buf)) by lia. cbn [app].
    replace (Z.to_nat boff + (length bs + length rest) - Z.to_nat boff)%nat with (length bs + length rest)%nat by lia.
    rewrite skipn_app, (skipn_all2 bs) by lia. cbn [app].
    replace (length bs + length rest - length bs)%nat with (length rest) by lia.
    rewrite skipn_skipn'. f_equal. lia.
Qed.
