From Coq Require Import List NArith ZArith Bool.
Import ListNotations.
Require Import Aurora.Consts Aurora.C02.Model Aurora.C07.Model Aurora.C07.Proofs.
Theorem C07_wip : forall r, rd_app rd_empty r = r.
Proof. exact rd_app_empty_l. Qed.
Print Assumptions C07_wip.
