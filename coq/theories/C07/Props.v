(** C07 — property theorems about the model of the (repaired) joiner.
    [stored get cs refLen j data]: the joiner [j] sits on a well-formed stored
    tree (the Aurora format: leaves of at most [cs] bytes, intermediate chunks
    of 2..cs/refLen references whose non-last children cover cs*(cs/refLen)^m
    bytes) for the content [data], shorter than 2^63 bytes; every chunk is
    obtained through the getter [get].  All statements are for every getter,
    every chunk size and reference length with cs/refLen >= 2. *)
From Coq Require Import List NArith ZArith Bool Lia.
Import ListNotations.
Require Import Aurora.Consts Aurora.C02.Model Aurora.C07.Model Aurora.C07.Slices Aurora.C07.Proofs Aurora.C07.Main.
Local Open Scope Z_scope.

Lemma consts_ok_C07 : consts_ok_C07_b = true.
Proof. vm_compute. reflexivity. Qed.

(** Size() is the content length *)
Theorem C07_size : forall get cs refLen j data, params_ok cs refLen -> stored get cs refLen j data ->
  j_span j = len data.
Proof. exact size_is_length. Qed.
Print Assumptions C07_size.

(** ReadAt(buffer, off), len(buffer) = blen <= cap(buffer) = bcap, off >= 0, [buf] the
    buffer contents up to the capacity before the call:
    - at or past the end: (0, EOF), nothing written;
    - otherwise: returns exactly n = min(blen, size - off) <= blen with a nil error, the
      first n bytes of the buffer are content[off, off+n) and every other byte of the
      buffer — in particular everything at index >= len(buffer) — is unchanged. *)
Theorem C07_read_at_contract : forall get cs refLen j data, params_ok cs refLen -> stored get cs refLen j data ->
  forall blen bcap off (buf : bytes), 0 <= off -> 0 <= blen <= bcap -> len buf = bcap ->
  (len data <= off -> read_at get cs refLen j blen bcap off = (0, [], REOF))
  /\ (off < len data ->
      let n := Z.min blen (len data - off) in
      exists ws, read_at get cs refLen j blen bcap off = (n, ws, RNil)
        /\ 0 <= n <= blen
        /\ apply_writes buf ws = slice data off n ++ skipn (Z.to_nat n) buf).
Proof. exact read_at_contract. Qed.
Print Assumptions C07_read_at_contract.

(** any sequence of Read calls from a position inside the file: every call returns its
    byte count with nil or (0, EOF); the concatenation of what was returned is exactly
    the content between the first and the final position (nothing skipped or repeated) *)
Theorem C07_sequential : forall get cs refLen j data, params_ok cs refLen -> stored get cs refLen j data ->
  0 <= j_off j <= len data ->
  forall bufs, Forall (fun bc => 0 <= fst bc <= snd bc) bufs ->
  let '(j', rs) := reads get cs refLen j bufs in
  j_span j' = j_span j /\ j_root j' = j_root j
  /\ j_off j <= j_off j' <= len data
  /\ concat (map res_content rs) = slice data (j_off j) (j_off j' - j_off j)
  /\ Forall res_ok rs.
Proof. exact sequential_reads. Qed.
Print Assumptions C07_sequential.

(** Seek(offset, whence) for every int64 offset and every whence: either an error and the
    joiner is unchanged, or whence is 0, 1 or 2, the new position is the requested one
    computed without wrap-around (offset | position+offset | size-offset) and lies in [0, size] *)
Theorem C07_seek : forall get cs refLen j data, params_ok cs refLen -> stored get cs refLen j data ->
  0 <= j_off j <= len data ->
  forall offset whence, - 2 ^ 63 <= offset < 2 ^ 63 ->
  let '(j', (p, e)) := seek j offset whence in
  (e <> SNil /\ j' = j /\ p = 0)
  \/ (e = SNil /\ 0 <= whence <= 2 /\ p = requested j data offset whence /\ 0 <= p <= len data
      /\ j' = mkJ (j_span j) (j_root j) p).
Proof. exact seek_contract. Qed.
Print Assumptions C07_seek.

(** the parameters of the Go source (256 KiB chunks, 32-byte references) satisfy the hypotheses *)
Theorem C07_source_params : params_ok Consts.boson_ChunkSize Consts.boson_HashSize.
Proof. exact (source_params consts_ok_C07). Qed.
Print Assumptions C07_source_params.

(** non-vacuity: a concrete three-chunk file with a carried-over last leaf is [stored],
    and the model read on it crosses both chunk boundaries *)
Example C07_hyps_satisfiable : (params_ok 4 2 /\ stored ex_get 4 2 ex_j ex_data)
  /\ (let '(n, ws, e) := read_at ex_get 4 2 ex_j 5 8 3 in
      n = 5 /\ e = RNil /\ apply_writes (repeat 238%N 8) ws = [4;5;6;7;8;238;238;238]%N).
Proof. exact (conj ex_stored ex_read). Qed.
