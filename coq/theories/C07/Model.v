(** C07 — model of pkg/file/joiner/joiner.go (New, ReadAt, readAtOffset,
    subtrieSection, Read, Seek, Size), after the repair
    proposed/C07/fix-joiner-readat-len.patch ([readLen := int64(len(buffer))];
    the original used [cap(buffer)], finding F-joiner-cap).  Definitions only.

    Integers are [Z]; int64 wrap-around is written with [i64] where the code
    multiplies, adds or subtracts values that are not bounded by construction.
    A chunk payload is a *virtual slice* [vslice]: its length and a function
    giving any sub-range as bytes.  The code only ever takes the length of a
    payload and sub-slices of it ([data[cursor:cursor+refLength]],
    [data[start:end]]), so nothing else is needed, and a 256 KiB payload is
    never materialised when the model is evaluated.

    Concurrency: [readAtOffset] starts one goroutine per child ([errgroup]);
    each writes a sub-range of the caller's buffer and adds to an atomic
    counter.  The model returns the list of buffer writes in spawn order
    together with the counter total and the errors; Proofs.v shows that the
    writes tile a contiguous range (hence are disjoint, hence commute). *)
From Coq Require Import List NArith ZArith Bool.
Import ListNotations.
Require Import Aurora.C02.Model.
Local Open Scope Z_scope.

Record vslice := mkV { v_len : Z; v_get : Z -> Z -> bytes }.   (* v_get start n *)

(** result of [getter.Get] followed by [ch.Data()[8:]] / [chunkToSpan] *)
Inductive got :=
| GErr                       (* the getter returned an error *)
| GShort                     (* chunk data shorter than 8 bytes: slice panic *)
| GOk (span : Z) (payload : vslice).   (* span = int64(LittleEndian.Uint64(data[:8])) *)

Inductive jerr := JGet | JMalformed | JPanic | JDepth | JHang.

(** what one [readAtOffset] call tree did *)
Record rd := mkR { rd_writes : list (Z * bytes); rd_n : Z; rd_errs : list jerr }.
Definition rd_empty : rd := mkR [] 0 [].
Definition rd_err (e : jerr) : rd := mkR [] 0 [e].
Definition rd_app (a b : rd) : rd :=
  mkR (rd_writes a ++ rd_writes b) (rd_n a + rd_n b) (rd_errs a ++ rd_errs b).

Section Joiner.
  Variable get : bytes -> got.
  Variable cs : Z.                  (* boson.ChunkSize *)
  Variable refLen : Z.              (* j.refLength = len(address) *)

  (** the brute-force loop of [subtrieSection]; [None] = no exit within the fuel *)
  Fixpoint branch_loop (fuel : nat) (size refs branching branchSize : Z) : option Z :=
    match fuel with
    | O => None
    | S f =>
        let whatsLeft := i64 (size - i64 (branchSize * (refs - 1))) in
        if whatsLeft <=? branchSize then Some branchSize
        else branch_loop f size refs branching (i64 (branchSize * branching))
    end.

  (** [subtrieSection(data, startIdx, refLen, subtrieSize)] *)
  Definition subtrie_section (dlen startIdx size : Z) : Z + jerr :=
    if refLen =? 0 then inr JPanic                     (* integer divide by zero *)
    else
      let refs := dlen / refLen in
      let branching := cs / refLen in
      match branch_loop 70 size refs branching cs with
      | None => inr JHang
      | Some branchSize =>
          if startIdx =? (refs - 1) * refLen
          then inl (i64 (size - i64 ((refs - 1) * branchSize)))
          else inl branchSize
      end.

  (** the [for cursor := 0; cursor < len(data); cursor += j.refLength] loop of
      [readAtOffset] on an intermediate chunk; [rec] reads a child chunk
      (the body of the goroutine after a successful [Get]) *)
  Fixpoint ref_loop (rec : vslice -> Z -> Z -> Z -> Z -> Z -> rd) (data : vslice) (size : Z)
           (k : nat) (cursor cur off boff toRead : Z) {struct k} : rd :=
    match k with
    | O => rd_err JHang
    | S k' =>
        if v_len data <=? cursor then rd_empty
        else if toRead =? 0 then rd_empty
        else
          match subtrie_section (v_len data) cursor size with
          | inr e => rd_err e
          | inl sec =>
              if cur + sec <? off then ref_loop rec data size k' (cursor + refLen) (cur + sec) off boff toRead
              else if v_len data <? cursor + refLen then rd_err JPanic
              else
                let address := v_get data cursor refLen in
                let crs0 := sec - (off - cur) in
                let crs1 := if crs0 >? toRead then toRead else crs0 in
                let crs := if crs1 >? sec then sec else crs1 in
                let child :=
                  match get address with
                  | GErr => rd_err JGet
                  | GShort => rd_err JPanic
                  | GOk span payload =>
                      if span >? sec then rd_err JMalformed
                      else rec payload cur span off boff crs
                  end in
                rd_app child (ref_loop rec data size k' (cursor + refLen) (cur + sec) (cur + sec) (boff + crs) (toRead - crs))
          end
    end.

  (** [readAtOffset].  [bcap] = cap(b).  [fuel] bounds the depth of the chunk
      tree that is followed ([JDepth] beyond it: a limit of the model, not of
      the code; 64 levels cannot occur below 2^63 bytes). *)
  Fixpoint read_at_offset (fuel : nat) (bcap : Z) (data : vslice)
           (cur size off boff toRead : Z) {struct fuel} : rd :=
    match fuel with
    | O => rd_err JDepth
    | S fuel' =>
        if size <=? v_len data then
          (* leaf *)
          let dStart := off - cur in
          let dEnd := if toRead >? v_len data - dStart then dStart + (v_len data - dStart) else dStart + toRead in
          if (dStart <? 0) || (dEnd <? dStart) || (v_len data <? dEnd) then rd_err JPanic
          else
            let n := dEnd - dStart in
            if (boff <? 0) || (bcap <? boff + n) then rd_err JPanic
            else mkR [(boff, v_get data dStart n)] n []
        else
          ref_loop (read_at_offset fuel' bcap) data size
                   (S (Z.to_nat (v_len data / (if refLen <=? 0 then 1 else refLen) + 1))) 0 cur off boff toRead
    end.

  (** ** the joiner object *)
  Record joiner := mkJ { j_span : Z; j_root : vslice; j_off : Z }.

  (** [joiner.New]: [None] when the root chunk cannot be fetched (or is shorter than 8 bytes: panic) *)
  Definition joiner_new (addr : bytes) : option joiner :=
    match get addr with
    | GOk span payload => Some (mkJ span payload 0)
    | _ => None
    end.

  Inductive rerr := RNil | REOF | RFail.

  (** [ReadAt(buffer, off)] with [blen = len(buffer)], [bcap = cap(buffer)]:
      returned count, buffer writes, error *)
  Definition read_at (j : joiner) (blen bcap off : Z) : Z * list (Z * bytes) * rerr :=
    if off >=? j_span j then (0, [], REOF)
    else
      let readLen0 := blen in
      let readLen := if readLen0 >? i64 (j_span j - off) then i64 (j_span j - off) else readLen0 in
      let r := read_at_offset 64 bcap (j_root j) 0 (j_span j) off 0 readLen in
      match rd_errs r with
      | [] => (rd_n r, rd_writes r, RNil)
      | _ :: _ => (0, rd_writes r, RFail)
      end.

  (** [Read(b)] *)
  Definition read (j : joiner) (blen bcap : Z) : joiner * (Z * list (Z * bytes) * rerr) :=
    let '(n, ws, e) := read_at j blen bcap (j_off j) in
    match e with
    | RFail => (j, (n, ws, e))
    | _ => (mkJ (j_span j) (j_root j) (i64 (j_off j + n)), (n, ws, e))
    end.

  Inductive serr := SNil | SEOF | SWhence | SOffset.

  (** [Seek(offset, whence)] *)
  Definition seek (j : joiner) (offset whence : Z) : joiner * (Z * serr) :=
    let r : Z + serr :=
      if whence =? 0 then inl offset
      else if whence =? 1 then inl (i64 (offset + j_off j))
      else if whence =? 2 then
        let o := i64 (j_span j - offset) in
        if o <? 0 then inr SEOF else inl o
      else inr SWhence in
    match r with
    | inr e => (j, (0, e))
    | inl o =>
        if o <? 0 then (j, (0, SOffset))
        else if o >? j_span j then (j, (0, SEOF))
        else (mkJ (j_span j) (j_root j) o, (o, SNil))
    end.
End Joiner.

(** apply buffer writes, in order *)
Definition slice (l : bytes) (start n : Z) : bytes := firstn (Z.to_nat n) (skipn (Z.to_nat start) l).
Definition write_at (buf : bytes) (w : Z * bytes) : bytes :=
  let '(o, bs) := w in
  firstn (Z.to_nat o) buf ++ bs ++ skipn (Z.to_nat o + length bs) buf.
Definition apply_writes (buf : bytes) (ws : list (Z * bytes)) : bytes := fold_left write_at ws buf.

(** a list as a virtual slice *)
Definition of_list (l : bytes) : vslice := mkV (Z.of_nat (length l)) (slice l).
