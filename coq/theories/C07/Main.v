(** C07 — closed statements (restated in Props.v) and a concrete stored tree. *)
From Coq Require Import List NArith ZArith Bool Lia.
Import ListNotations.
Require Import Aurora.Consts Aurora.C02.Model Aurora.C07.Model Aurora.C07.Slices Aurora.C07.Proofs.
Local Open Scope Z_scope.

(** a joiner over a well-formed stored tree for [data] *)
Definition stored (get : bytes -> got) (cs refLen : Z) (j : joiner) (data : bytes) : Prop :=
  (exists m, Repr get cs refLen m (j_span j) (j_root j) data) /\ j_span j < 2 ^ 63.

Definition params_ok (cs refLen : Z) : Prop := 0 < refLen /\ 2 <= cs / refLen.

Lemma size_is_length get cs refLen j data : params_ok cs refLen -> stored get cs refLen j data ->
  j_span j = len data.
Proof. intros [H1 H2] [[m Hr] _]. exact (stored_size get cs refLen j data m Hr). Qed.

(** ReadAt: count, error, and the caller's buffer afterwards.  [buf] is the
    buffer up to its capacity before the call. *)
Lemma read_at_contract get cs refLen j data : params_ok cs refLen -> stored get cs refLen j data ->
  forall blen bcap off (buf : bytes), 0 <= off -> 0 <= blen <= bcap -> len buf = bcap ->
  (len data <= off -> read_at get cs refLen j blen bcap off = (0, [], REOF))
  /\ (off < len data ->
      let n := Z.min blen (len data - off) in
      exists ws, read_at get cs refLen j blen bcap off = (n, ws, RNil)
        /\ 0 <= n <= blen
        /\ apply_writes buf ws = slice data off n ++ skipn (Z.to_nat n) buf).
Proof.
  intros [H1 H2] [[m Hr] H63] blen bcap off buf Ho Hb Hbuf. split.
  - intros Hge. pose proof (read_at_spec get cs refLen H1 H2 j data m Hr H63 blen bcap off Ho Hb) as Hs.
    replace (off >=? len data) with true in Hs by (symmetry; rewrite Z.geb_leb; apply Z.leb_le; lia). exact Hs.
  - intros Hlt n.
    destruct (read_at_buffer get cs refLen H1 H2 j data m Hr H63 blen bcap off buf Ho Hb Hbuf Hlt) as (ws & Hra & Hbufs).
    exists ws. repeat split; try assumption; unfold n; lia.
Qed.

Lemma sequential_reads get cs refLen j data : params_ok cs refLen -> stored get cs refLen j data ->
  0 <= j_off j <= len data ->
  forall bufs, Forall (fun bc => 0 <= fst bc <= snd bc) bufs ->
  let '(j', rs) := reads get cs refLen j bufs in
  j_span j' = j_span j /\ j_root j' = j_root j
  /\ j_off j <= j_off j' <= len data
  /\ concat (map res_content rs) = slice data (j_off j) (j_off j' - j_off j)
  /\ Forall res_ok rs.
Proof.
  intros [H1 H2] [[m Hr] H63] Hoff bufs Hb. exact (reads_spec get cs refLen H1 H2 data m bufs j Hr H63 Hoff Hb).
Qed.

Lemma seek_contract get cs refLen j data : params_ok cs refLen -> stored get cs refLen j data ->
  0 <= j_off j <= len data ->
  forall offset whence, - 2 ^ 63 <= offset < 2 ^ 63 ->
  let '(j', (p, e)) := seek j offset whence in
  (e <> SNil /\ j' = j /\ p = 0)
  \/ (e = SNil /\ 0 <= whence <= 2 /\ p = requested j data offset whence /\ 0 <= p <= len data
      /\ j' = mkJ (j_span j) (j_root j) p).
Proof.
  intros [H1 H2] [[m Hr] H63] Hoff offset whence Ho.
  eapply seek_spec; eassumption.
Qed.

Definition consts_ok_C07_b : bool :=
  ((Consts.boson_ChunkSize =? 262144) && (Consts.boson_HashSize =? 32) && (Consts.boson_SpanSize =? 8))%Z.

Lemma source_params : consts_ok_C07_b = true -> params_ok Consts.boson_ChunkSize Consts.boson_HashSize.
Proof.
  unfold consts_ok_C07_b. rewrite !andb_true_iff. intros ((Ha & Hb) & _).
  apply Z.eqb_eq in Ha, Hb. rewrite Ha, Hb. split; [lia | vm_compute; discriminate].
Qed.

(** ** a concrete stored tree: chunk size 4, references of 2 bytes (branching 2),
    ten bytes of data: two full leaves under a node, and a carried-over third leaf *)
Definition ex_get (a : bytes) : got :=
  match a with
  | [0; 1]%N => GOk 4 (of_list [1;2;3;4]%N)
  | [0; 2]%N => GOk 4 (of_list [5;6;7;8]%N)
  | [0; 3]%N => GOk 2 (of_list [9;10]%N)
  | [1; 1]%N => GOk 8 (of_list [0;1;0;2]%N)
  | _ => GErr
  end.
Definition ex_data : bytes := [1;2;3;4;5;6;7;8;9;10]%N.
Definition ex_j : joiner := mkJ 10 (of_list [1;1;0;3]%N) 0.

Definition kL (a d : bytes) : kid := mkK a (len d) (of_list d) d.

Lemma ex_stored : params_ok 4 2 /\ stored ex_get 4 2 ex_j ex_data.
Proof.
  assert (Hp : params_ok 4 2) by (split; [lia | vm_compute; discriminate]).
  destruct Hp as [Hp1 Hp2]. split; [now split|].
  split; [|vm_compute; reflexivity]. exists 2%nat.
  assert (L : forall a d, ex_get a = GOk (len d) (of_list d) -> len d <= 4 -> len a = 2 ->
              kid_ok ex_get 2 (Repr ex_get 4 2 0) (kL a d)).
  { intros a d Hg Hl Ha. split; [exact Ha|]. split; [exact Hg|]. now apply Repr_leaf_intro. }
  (* the inner node over the first two leaves *)
  pose (f1 := [kL [0;1]%N [1;2;3;4]%N]). pose (l1 := kL [0;2]%N [5;6;7;8]%N).
  assert (N1 : Repr ex_get 4 2 1 8 (of_list [0;1;0;2]%N) [1;2;3;4;5;6;7;8]%N).
  { apply (Repr_node_intro ex_get 4 2 0 f1 l1).
    - cbn; lia.
    - vm_compute; discriminate.
    - repeat constructor; apply L; vm_compute; (reflexivity || discriminate).
    - repeat constructor.
    - vm_compute. split; [reflexivity | discriminate]. }
  pose (f2 := [mkK [1;1]%N 8 (of_list [0;1;0;2]%N) [1;2;3;4;5;6;7;8]%N]). pose (l2 := kL [0;3]%N [9;10]%N).
  apply (Repr_node_intro ex_get 4 2 1 f2 l2).
  - cbn; lia.
  - vm_compute; discriminate.
  - constructor; [|constructor; [|constructor]].
    + split; [reflexivity|]. split; [reflexivity|]. exact N1.
    + split; [reflexivity|]. split; [reflexivity|]. apply Repr_mono. apply Repr_leaf_intro. vm_compute; discriminate.
  - repeat constructor.
  - vm_compute. split; [reflexivity | discriminate].
Qed.

(** the model evaluated on it: 5 bytes from offset 3 into a buffer of length 5 and
    capacity 8, crossing both chunk boundaries; bytes 5..7 keep the canary *)
Lemma ex_read : let '(n, ws, e) := read_at ex_get 4 2 ex_j 5 8 3 in
  n = 5 /\ e = RNil /\ apply_writes (repeat 238%N 8) ws = [4;5;6;7;8;238;238;238]%N.
Proof. vm_compute. repeat split; reflexivity. Qed.
