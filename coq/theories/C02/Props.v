(** C02 — property theorems.  [upload] is the model of
    feeder.Write* ; feeder.Sum over the hash-trie writer (Model.v); [spec_hash]
    is the format written independently (Spec.v).  The chunk hash [H] is an
    arbitrary function with outputs of the reference length (no injectivity). *)
From Coq Require Import List NArith ZArith Bool Lia.
Import ListNotations.
Require Import Aurora.Consts Aurora.C02.Model Aurora.C02.Spec Aurora.C02.Cursor Aurora.C02.CursorPipe Aurora.C02.Main.

(** side conditions on the constants of the Go source, re-checked on every run:
    the values the property text names (256 KiB, 8192, 8-byte span, 32-byte
    reference), the literals the model hard-codes (span size 8, maxLevel 8), the
    room in the writer's shared level buffer for eight full levels
    (8 * (HashSize+SpanSize) * Branches <= ChunkWithSpanSize*9*2), and that the
    level capacity Branches^7 exceeds any int64 length. *)
Lemma consts_ok_C02 : consts_ok_C02_b = true.
Proof. vm_compute. reflexivity. Qed.

(** the reference is the format's tree hash of the bytes, for every split of the writes;
    every Write returns the length it was given *)
Theorem C02_equals_spec : forall (H : bytes -> bytes) (cs b refLen : nat),
  (0 < cs)%nat -> (2 <= b)%nat -> (forall x, length (H x) = refLen) ->
  forall segs : list bytes,
  (Z.of_nat (length (concat segs)) + Z.of_nat cs + 8 < 2 ^ 63)%Z ->
  (length (chunks_of cs (concat segs)) <= b ^ 7)%nat ->
  exists u, upload H cs b refLen segs = Ok u
            /\ spec_hash H cs b (concat segs) = Some (u_root u)
            /\ u_rets u = map (fun s => Z.of_nat (length s)) segs.
Proof. exact equals_spec. Qed.
Print Assumptions C02_equals_spec.

(** it does not depend on how the writes were split *)
Theorem C02_segmentation_independent : forall (H : bytes -> bytes) (cs b refLen : nat),
  (0 < cs)%nat -> (2 <= b)%nat -> (forall x, length (H x) = refLen) ->
  forall segs1 segs2 : list bytes, concat segs1 = concat segs2 ->
  (Z.of_nat (length (concat segs1)) + Z.of_nat cs + 8 < 2 ^ 63)%Z ->
  (length (chunks_of cs (concat segs1)) <= b ^ 7)%nat ->
  exists u1 u2, upload H cs b refLen segs1 = Ok u1 /\ upload H cs b refLen segs2 = Ok u2
                /\ u_root u1 = u_root u2.
Proof. exact segmentation_independent. Qed.
Print Assumptions C02_segmentation_independent.

(** at the constants of the Go source (256 KiB chunks, 8192 references of 32 bytes):
    every content shorter than 2^63 - 256 KiB - 8 bytes, no capacity hypothesis left *)
Theorem C02_at_source_constants : forall (H : bytes -> bytes),
  (forall x, length (H x) = HashSize) ->
  forall segs : list bytes,
  (Z.of_nat (length (concat segs)) < 2 ^ 63 - 262152)%Z ->
  exists u, upload H ChunkSize Branches HashSize segs = Ok u
            /\ spec_hash H ChunkSize Branches (concat segs) = Some (u_root u)
            /\ u_rets u = map (fun s => Z.of_nat (length s)) segs.
Proof. exact (at_source_constants consts_ok_C02). Qed.
Print Assumptions C02_at_source_constants.

(** the same for the pipeline over the code's own data structure — ONE byte buffer of
    [buflen] bytes shared by all levels and nine cursors, writes to level i+1 overwriting
    the consumed prefix of level i ([cupload], Cursor.v / CursorPipe.v; refinement in
    CursorProofs.v / CursorMain.v).  The buffer must hold eight full levels. *)
Theorem C02_equals_spec_code : forall (H : bytes -> bytes) (cs b refLen buflen : nat),
  (0 < cs)%nat -> (2 <= b)%nat -> (forall x, length (H x) = refLen) ->
  (8 * Z.of_nat b * (Z.of_nat refLen + 8) <= Z.of_nat buflen)%Z ->
  forall segs : list bytes,
  (Z.of_nat (length (concat segs)) + Z.of_nat cs + 8 < 2 ^ 63)%Z ->
  (length (chunks_of cs (concat segs)) <= b ^ 7)%nat ->
  exists u, cupload H cs b refLen buflen segs = Ok u
            /\ spec_hash H cs b (concat segs) = Some (u_root u)
            /\ u_rets u = map (fun s => Z.of_nat (length s)) segs.
Proof. exact equals_spec_code. Qed.
Print Assumptions C02_equals_spec_code.

(** at the constants of the Go source, with the buffer size of NewHashTrieWriter
    (ChunkWithSpanSize*9*2; the room for eight levels is a checked side condition) *)
Theorem C02_at_source_constants_code : forall (H : bytes -> bytes),
  (forall x, length (H x) = HashSize) ->
  forall segs : list bytes,
  (Z.of_nat (length (concat segs)) < 2 ^ 63 - 262152)%Z ->
  exists u, cupload H ChunkSize Branches HashSize BufLen segs = Ok u
            /\ spec_hash H ChunkSize Branches (concat segs) = Some (u_root u)
            /\ u_rets u = map (fun s => Z.of_nat (length s)) segs.
Proof. exact (at_source_constants_code consts_ok_C02). Qed.
Print Assumptions C02_at_source_constants_code.

(** non-vacuity: a concrete 2-byte "hash", chunk size 2, branching 2, a content of
    9 bytes (five chunks, four levels with a carried-over last chunk) written in
    three pieces *)
Definition ex_H (x : bytes) : bytes := [N.of_nat (length x) mod 256; fold_left N.lxor x 7]%N.
Example C02_hyps_satisfiable :
  let segs := [[1;2;3]; []; [4;5;6;7;8;9]]%N in
  (forall x, length (ex_H x) = 2%nat) /\
  (Z.of_nat (length (concat segs)) + Z.of_nat 2 + 8 < 2 ^ 63)%Z /\
  (length (chunks_of 2 (concat segs)) <= 2 ^ 7)%nat /\
  option_map u_root (match upload ex_H 2 2 2 segs with Ok u => Some u | Err _ => None end)
    = spec_hash ex_H 2 2 (concat segs) /\
  (exists r, spec_hash ex_H 2 2 (concat segs) = Some r) /\
  (8 * Z.of_nat 2 * (Z.of_nat 2 + 8) <= Z.of_nat 160)%Z /\
  option_map u_root (match cupload ex_H 2 2 2 160 segs with Ok u => Some u | Err _ => None end)
    = spec_hash ex_H 2 2 (concat segs).
Proof. vm_compute. repeat split; try reflexivity; try lia; try discriminate. eexists; reflexivity. Qed.
