From Coq Require Import List NArith ZArith Bool.
Import ListNotations.
Require Import Aurora.Consts Aurora.C02.Model Aurora.C02.Spec Aurora.C02.Proofs.

Theorem C02_le64_length : forall n, length (le64 n) = 8%nat.
Proof. exact le64_length. Qed.
Print Assumptions C02_le64_length.
