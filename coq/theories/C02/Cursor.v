(** C02 — the hash-trie writer as the code has it: ONE byte buffer shared by all
    levels and nine cursors (pkg/file/pipeline/hashtrie/hashtrie.go).  Level i
    (1..7) occupies buffer[cursors[i+1] : cursors[i]], level 8 occupies
    buffer[0 : cursors[8]]; a write to level i+1 during the wrap of level i
    overwrites the beginning of level i's (already consumed) data.
    Definitions only; CursorProofs.v shows that this writer refines the
    level-list writer of Model.v.

    Cursors are Go [int]s ([Z]); every slice expression is bounds-checked
    against the buffer ([EPanic]); [h.cursors[9]] is [EPanic]. *)
From Coq Require Import List NArith ZArith Bool Arith.
Import ListNotations.
Require Import Aurora.C02.Model.
Local Open Scope Z_scope.

Definition zlen {A} (l : list A) : Z := Z.of_nat (length l).

(** [copy(buf[c : c+len(d)], d)] *)
Definition bwrite (buf : bytes) (c : Z) (d : bytes) : option bytes :=
  if (0 <=? c) && (c + zlen d <=? zlen buf)
  then Some (firstn (Z.to_nat c) buf ++ d ++ skipn (Z.to_nat c + length d) buf)
  else None.
(** [buf[lo:hi]] *)
Definition bread (buf : bytes) (lo hi : Z) : option bytes :=
  if (0 <=? lo) && (lo <=? hi) && (hi <=? zlen buf)
  then Some (firstn (Z.to_nat (hi - lo)) (skipn (Z.to_nat lo) buf))
  else None.

Record ctrie := mkC { c_buf : bytes; c_cur : list Z; c_full : bool; c_log : list bytes }.

(** [NewHashTrieWriter]: [buflen] = boson.ChunkWithSpanSize*9*2 *)
Definition ctrie_init (buflen : nat) : ctrie := mkC (repeat 0%N buflen) (repeat 0 9) false [].

Definition cur (t : ctrie) (i : nat) : option Z := nth_error (c_cur t) i.
Fixpoint set_nth (l : list Z) (i : nat) (v : Z) : list Z :=
  match l, i with
  | [], _ => []
  | _ :: r, O => v :: r
  | x :: r, S i' => x :: set_nth r i' v
  end.
Definition set_cur (t : ctrie) (i : nat) (v : Z) : ctrie := mkC (c_buf t) (set_nth (c_cur t) i v) (c_full t) (c_log t).

Section Cursor.
  Variable H : bytes -> bytes.
  Variable b refLen : nat.
  Notation oneRef := (Z.of_nat refLen + 8).

  (** [levelSize] *)
  Definition level_size (t : ctrie) (level : nat) : option Z :=
    if Nat.eqb level 8 then cur t 8
    else match cur t level, cur t (S level) with
         | Some c, Some c' => Some (c - c')
         | _, _ => None
         end.

  (** the [for i := 0; i < len(data); i += refSize+8] loop of wrapFullLevel:
      [pos] = absolute position of data[i], [fin] = end of data; [k] iterations left.
      Slices of [data] may extend up to the capacity, i.e. the end of the buffer. *)
  Fixpoint wrap_read (k : nat) (buf : bytes) (pos fin : Z) (sp : N) (hashes : bytes) : option (N * bytes) :=
    match k with
    | O => Some (sp, hashes)
    | S k' =>
        if fin <=? pos then Some (sp, hashes)
        else match bread buf pos (pos + 8), bread buf (pos + 8) (pos + oneRef) with
             | Some s, Some r => wrap_read k' buf (pos + oneRef) fin (u64 (sp + le_decode s)) (hashes ++ r)
             | _, _ => None
             end
    end.

  (** [writeToLevel(level, span, ref, nil)] with [wrapFullLevel] inlined; [fuel] > 9 - level *)
  Fixpoint cwrite_to_level (fuel : nat) (t : ctrie) (level : nat) (span ref : bytes) {struct fuel} : res ctrie :=
    match fuel with
    | O => Err EPanic
    | S fuel' =>
        match cur t level with
        | None => Err EPanic
        | Some c =>
            match bwrite (c_buf t) c span with
            | None => Err EPanic
            | Some b1 =>
                match bwrite b1 (c + zlen span) ref with
                | None => Err EPanic
                | Some b2 =>
                    let c2 := c + zlen span + zlen ref in
                    let t1 := mkC b2 (set_nth (c_cur t) level c2) (c_full t) (c_log t) in
                    match level_size t1 level with
                    | None => Err EPanic
                    | Some ls =>
                        if ls =? oneRef * Z.of_nat b then
                          (* wrapFullLevel(level) *)
                          match cur t1 (S level), cur t1 level with
                          | Some lo, Some hi =>
                              match bread (c_buf t1) lo hi with
                              | None => Err EPanic
                              | Some data =>
                                  match wrap_read (S (length data)) (c_buf t1) lo hi 0%N [] with
                                  | None => Err EPanic
                                  | Some (sp, hashes) =>
                                      let payload := le64 sp ++ hashes in
                                      let t2 := mkC (c_buf t1) (c_cur t1) (c_full t1) (c_log t1 ++ [payload]) in
                                      match cwrite_to_level fuel' t2 (S level) (le64 sp) (H payload) with
                                      | Err x => Err x
                                      | Ok t3 =>
                                          match cur t3 (S level) with
                                          | None => Err EPanic
                                          | Some cn =>
                                              Ok (mkC (c_buf t3) (set_nth (c_cur t3) level cn)
                                                      (c_full t3 || Nat.eqb (S level) 8) (c_log t3))
                                          end
                                      end
                                  end
                              end
                          | _, _ => Err EPanic
                          end
                        else Ok t1
                    end
                end
            end
        end
    end.

  (** [wrapFullLevel(level)] as called from [Sum] *)
  Definition cwrap_full_level (t1 : ctrie) (level : nat) : res ctrie :=
    match cur t1 (S level), cur t1 level with
    | Some lo, Some hi =>
        match bread (c_buf t1) lo hi with
        | None => Err EPanic
        | Some data =>
            match wrap_read (S (length data)) (c_buf t1) lo hi 0%N [] with
            | None => Err EPanic
            | Some (sp, hashes) =>
                let payload := le64 sp ++ hashes in
                let t2 := mkC (c_buf t1) (c_cur t1) (c_full t1) (c_log t1 ++ [payload]) in
                match cwrite_to_level 10 t2 (S level) (le64 sp) (H payload) with
                | Err x => Err x
                | Ok t3 =>
                    match cur t3 (S level) with
                    | None => Err EPanic
                    | Some cn =>
                        Ok (mkC (c_buf t3) (set_nth (c_cur t3) level cn) (c_full t3 || Nat.eqb (S level) 8) (c_log t3))
                    end
                end
            end
        end
    | _, _ => Err EPanic
    end.

  (** [ChainWrite] *)
  Definition ctrie_chain_write (t : ctrie) (span ref : bytes) : res ctrie :=
    let l := (length span + length ref)%nat in
    if negb (Nat.eqb (l mod (refLen + 8)) 0) then Err EInconsistentRefs
    else if c_full t then Err ETrieFull
    else if negb (Nat.eqb l (refLen + 8)) then Err EUnmodelled
    else cwrite_to_level 10 t 1 span ref.

  (** the [for i := 1; i < maxLevel; i++] loop of [Sum]; [n] iterations left, at level [i] *)
  Fixpoint csum_loop (n : nat) (t : ctrie) (i : nat) {struct n} : res ctrie :=
    match n with
    | O => Ok t
    | S n' =>
        match level_size t i with
        | None => Err EPanic
        | Some l =>
            if negb (Z.rem l oneRef =? 0) then Err EInconsistentRefs
            else if l =? 0 then csum_loop n' t (S i)
            else if l =? oneRef * Z.of_nat b then
              match cwrap_full_level t i with Ok t' => csum_loop n' t' (S i) | Err x => Err x end
            else if l =? oneRef then
              match cur t i with
              | Some c => csum_loop n' (set_cur t (S i) c) (S i)       (* h.cursors[i+1] = h.cursors[i] *)
              | None => Err EPanic
              end
            else
              match cwrap_full_level t i with Ok t' => csum_loop n' t' (S i) | Err x => Err x end
        end
    end.

  (** [Sum] *)
  Definition ctrie_sum (t : ctrie) : res (bytes * list bytes) :=
    match csum_loop 7 t 1 with
    | Err x => Err x
    | Ok t' =>
        match level_size t' 8, cur t' 8 with
        | Some l, Some c8 =>
            if negb (l =? oneRef) then Err EInconsistentRefs
            else match bread (c_buf t') 0 c8 with
                 | Some data => Ok (skipn 8 data, c_log t')
                 | None => Err EPanic
                 end
        | _, _ => Err EPanic
        end
    end.
End Cursor.
