(** C02 — the Aurora file format, written independently of the streaming
    writer: a file is cut into chunks of [cs] bytes (the empty file is one empty
    chunk); a level of subtrees is grouped left-full by [b]; a group of two or
    more becomes an intermediate chunk whose span is the total data length
    below it and whose payload is the concatenation of the children's
    references; a lone trailing subtree is carried up unchanged; repeat until
    one subtree is left.  The reference of a chunk is [H (le64 span ++ payload)].
    Definitions only. *)
From Coq Require Import List NArith ZArith Bool Arith.
Import ListNotations.
Require Import Aurora.C02.Model.

(** cut a list into consecutive pieces of [k] elements (the last may be shorter) *)
Fixpoint group_fuel {A} (fuel k : nat) (l : list A) : list (list A) :=
  match fuel with
  | O => []
  | S f => match l with [] => [] | _ :: _ => firstn k l :: group_fuel f k (skipn k l) end
  end.
Definition group {A} (k : nat) (l : list A) : list (list A) := group_fuel (length l) k l.

Definition chunks_of (cs : nat) (data : bytes) : list bytes :=
  match data with [] => [[]] | _ :: _ => group cs data end.

Section Build.
  Context {E : Type}.
  Variable node : list E -> E.
  Variable b : nat.
  (** "a lone reference is carried up unchanged" *)
  Definition wrap_or_carry (g : list E) : E := match g with [e] => e | _ => node g end.
  Definition next_level (l : list E) : list E := map wrap_or_carry (group b l).
  Fixpoint build (fuel : nat) (l : list E) : option E :=
    match l with
    | [] => None
    | [e] => Some e
    | _ :: _ :: _ => match fuel with O => None | S f => build f (next_level l) end
    end.
End Build.

Inductive tree := Leaf (d : bytes) | Node (ts : list tree).

Fixpoint tree_data (t : tree) : bytes :=
  match t with Leaf d => d | Node ts => flat_map tree_data ts end.
Definition tree_span (t : tree) : N := N.of_nat (length (tree_data t)).

Section Hash.
  Variable H : bytes -> bytes.
  Fixpoint tree_ref (t : tree) : bytes :=
    match t with
    | Leaf d => H (le64 (N.of_nat (length d)) ++ d)
    | Node ts => H (le64 (tree_span (Node ts)) ++ flat_map tree_ref ts)
    end.
  (** the chunk stored for the root of [t] *)
  Definition tree_chunk (t : tree) : bytes :=
    match t with
    | Leaf d => le64 (N.of_nat (length d)) ++ d
    | Node ts => le64 (tree_span (Node ts)) ++ flat_map tree_ref ts
    end.

  Definition spec_tree (cs b : nat) (data : bytes) : option tree :=
    let leaves := map Leaf (chunks_of cs data) in
    build Node b (length leaves) leaves.
  Definition spec_hash (cs b : nat) (data : bytes) : option bytes :=
    option_map tree_ref (spec_tree cs b data).
End Hash.
