(** C02 — statements proved here, restated in Props.v. *)
From Coq Require Import List NArith ZArith Bool Lia Arith.
From Coq Require Import ZifyBool ZifyNat ZifyN.
Import ListNotations.
Require Import Aurora.Consts Aurora.C02.Model Aurora.C02.Spec Aurora.C02.Stream Aurora.C02.Proofs.
Require Import Aurora.C02.Cursor Aurora.C02.CursorPipe Aurora.C02.CursorMain.

Definition ChunkSize : nat := Z.to_nat Consts.boson_ChunkSize.
Definition Branches : nat := Z.to_nat Consts.boson_Branches.
Definition HashSize : nat := Z.to_nat Consts.boson_HashSize.

Definition consts_ok_C02_b : bool :=
  ((Consts.boson_ChunkSize =? 262144) && (Consts.boson_Branches =? 8192) && (Consts.boson_SpanSize =? 8)
   && (Consts.boson_HashSize =? 32) && (Consts.hashtrie_maxLevel =? 8)
   && (Consts.boson_ChunkWithSpanSize =? Consts.boson_ChunkSize + Consts.boson_SpanSize)
   && (8 * (Consts.boson_HashSize + Consts.boson_SpanSize) * Consts.boson_Branches <=? Consts.boson_ChunkWithSpanSize * 9 * 2)
   && (Consts.boson_Branches * Consts.boson_HashSize =? Consts.boson_ChunkSize)
   && (2 ^ 63 <? Consts.boson_Branches ^ 7))%Z.

Lemma equals_spec : forall (H : bytes -> bytes) (cs b refLen : nat),
  (0 < cs)%nat -> (2 <= b)%nat -> (forall x, length (H x) = refLen) ->
  forall segs : list bytes,
  (Z.of_nat (length (concat segs)) + Z.of_nat cs + 8 < 2 ^ 63)%Z ->
  (length (chunks_of cs (concat segs)) <= b ^ 7)%nat ->
  exists u, upload H cs b refLen segs = Ok u
            /\ spec_hash H cs b (concat segs) = Some (u_root u)
            /\ u_rets u = map (fun s => Z.of_nat (length s)) segs.
Proof.
  intros H cs b refLen Hcs Hb Hlen segs H63 Hcap.
  destruct (upload_spec H cs b refLen Hcs Hb Hlen segs H63 Hcap) as (u & t & Hu & Ht & Hr & Hrets & _).
  exists u. unfold spec_hash. rewrite Ht, Hr. auto.
Qed.

Lemma segmentation_independent : forall (H : bytes -> bytes) (cs b refLen : nat),
  (0 < cs)%nat -> (2 <= b)%nat -> (forall x, length (H x) = refLen) ->
  forall segs1 segs2 : list bytes, concat segs1 = concat segs2 ->
  (Z.of_nat (length (concat segs1)) + Z.of_nat cs + 8 < 2 ^ 63)%Z ->
  (length (chunks_of cs (concat segs1)) <= b ^ 7)%nat ->
  exists u1 u2, upload H cs b refLen segs1 = Ok u1 /\ upload H cs b refLen segs2 = Ok u2
                /\ u_root u1 = u_root u2.
Proof.
  intros H cs b refLen Hcs Hb Hlen segs1 segs2 Heq H63 Hcap.
  destruct (equals_spec H cs b refLen Hcs Hb Hlen segs1 H63 Hcap) as (u1 & Hu1 & Hs1 & _).
  rewrite Heq in H63, Hcap.
  destruct (equals_spec H cs b refLen Hcs Hb Hlen segs2 H63 Hcap) as (u2 & Hu2 & Hs2 & _).
  exists u1, u2. rewrite Heq in Hs1. rewrite Hs1 in Hs2. injection Hs2 as Hs2. auto.
Qed.

Lemma ChunkSize_val : consts_ok_C02_b = true -> Z.of_nat ChunkSize = 262144%Z /\ Z.of_nat Branches = 8192%Z.
Proof.
  unfold consts_ok_C02_b, ChunkSize, Branches. intros Hc.
  rewrite !andb_true_iff in Hc. destruct Hc as ((((((((H1 & H2) & _) & _) & _) & _) & _) & _) & _).
  apply Z.eqb_eq in H1, H2. rewrite H1, H2. split; reflexivity.
Qed.

Lemma source_capacity : consts_ok_C02_b = true -> forall data : bytes,
  (Z.of_nat (length data) < 2 ^ 63 - 262152)%Z ->
  (length (chunks_of ChunkSize data) <= Branches ^ 7)%nat.
Proof.
  intros Hc data Hsz. destruct (ChunkSize_val Hc) as [Hcs Hbr].
  pose proof (chunks_of_length_bounds ChunkSize ltac:(lia) data) as [_ Hub].
  etransitivity; [exact Hub|]. apply Nat2Z.inj_le. rewrite Nat2Z.inj_pow, Hbr.
  rewrite Nat2Z.inj_add, Nat2Z.inj_div, Hcs. change (Z.of_nat 7) with 7%Z. change (Z.of_nat 1) with 1%Z.
  clear Hub Hc Hcs Hbr.
  assert (Hd1 : (Z.of_nat (length data) / 262144 <= Z.of_nat (length data))%Z) by (apply Z.div_le_upper_bound; lia).
  assert (Hd2 : (2 ^ 63 < 8192 ^ 7)%Z) by (vm_compute; reflexivity).
  remember (Z.of_nat (length data) / 262144)%Z as q eqn:Eq. clear Eq. lia.
Qed.

Lemma at_source_constants : consts_ok_C02_b = true -> forall (H : bytes -> bytes),
  (forall x, length (H x) = HashSize) ->
  forall segs : list bytes,
  (Z.of_nat (length (concat segs)) < 2 ^ 63 - 262152)%Z ->
  exists u, upload H ChunkSize Branches HashSize segs = Ok u
            /\ spec_hash H ChunkSize Branches (concat segs) = Some (u_root u)
            /\ u_rets u = map (fun s => Z.of_nat (length s)) segs.
Proof.
  intros Hc H Hlen segs Hsz. destruct (ChunkSize_val Hc) as [Hcs Hbr].
  apply equals_spec; [lia | lia | exact Hlen | lia | exact (source_capacity Hc (concat segs) Hsz)].
Qed.

(** ** the same statements for the pipeline over the code's data structure: one shared
    buffer of [buflen] bytes and nine cursors (Cursor.v, CursorPipe.v) *)
Definition BufLen : nat := Z.to_nat (Consts.boson_ChunkWithSpanSize * 9 * 2).

Lemma equals_spec_code : forall (H : bytes -> bytes) (cs b refLen buflen : nat),
  (0 < cs)%nat -> (2 <= b)%nat -> (forall x, length (H x) = refLen) ->
  (8 * Z.of_nat b * (Z.of_nat refLen + 8) <= Z.of_nat buflen)%Z ->
  forall segs : list bytes,
  (Z.of_nat (length (concat segs)) + Z.of_nat cs + 8 < 2 ^ 63)%Z ->
  (length (chunks_of cs (concat segs)) <= b ^ 7)%nat ->
  exists u, cupload H cs b refLen buflen segs = Ok u
            /\ spec_hash H cs b (concat segs) = Some (u_root u)
            /\ u_rets u = map (fun s => Z.of_nat (length s)) segs.
Proof.
  intros H cs b refLen buflen Hcs Hb Hlen Hroom segs H63 Hcap.
  destruct (equals_spec H cs b refLen Hcs Hb Hlen segs H63 Hcap) as (u & Hu & Hs & Hr).
  exists u. split; [|now split]. apply cupload_refines; try assumption. lia.
Qed.

Lemma at_source_constants_code : consts_ok_C02_b = true -> forall (H : bytes -> bytes),
  (forall x, length (H x) = HashSize) ->
  forall segs : list bytes,
  (Z.of_nat (length (concat segs)) < 2 ^ 63 - 262152)%Z ->
  exists u, cupload H ChunkSize Branches HashSize BufLen segs = Ok u
            /\ spec_hash H ChunkSize Branches (concat segs) = Some (u_root u)
            /\ u_rets u = map (fun s => Z.of_nat (length s)) segs.
Proof.
  intros Hc H Hlen segs Hsz. destruct (ChunkSize_val Hc) as [Hcs Hbr].
  pose proof Hc as Hc'. unfold consts_ok_C02_b in Hc'. rewrite !andb_true_iff in Hc'.
  destruct Hc' as ((((((((C1 & C2) & C3) & C4) & C5) & C6) & C7) & C8) & C9).
  apply Z.eqb_eq in C1, C2, C3, C4, C6. apply Z.leb_le in C7.
  assert (Hbuf : Z.of_nat BufLen = (Consts.boson_ChunkWithSpanSize * 9 * 2)%Z) by (unfold BufLen; apply Z2Nat.id; lia).
  assert (Hhs : Z.of_nat HashSize = Consts.boson_HashSize) by (unfold HashSize; apply Z2Nat.id; lia).
  apply equals_spec_code; [lia | lia | exact Hlen | | lia | ].
  - rewrite Hbuf, Hhs, Hbr. rewrite C3, C2 in C7. lia.
  - exact (source_capacity Hc (concat segs) Hsz).
Qed.
