(** C02 — the upload pipeline over the buffer-and-cursor hash-trie writer:
    the feeder and the hash/store stage of Model.v, with the writer of Cursor.v
    behind them.  The feeder is written once, generically in the writer behind
    it ([gupload]); [cupload] is its instance for Cursor.v.  Definitions only. *)
From Coq Require Import List NArith ZArith Bool Arith.
Import ListNotations.
Require Import Aurora.C02.Model Aurora.C02.Cursor.

Section GFeed.
  Variable H : bytes -> bytes.
  Variable cs : nat.
  Variable T : Type.
  Variable put : T -> bytes -> T.                       (* storage.Putter.Put: record the chunk *)
  Variable cw : T -> bytes -> bytes -> res T.           (* hashTrieWriter.ChainWrite(span, ref) *)
  Variable sm : T -> res (bytes * list bytes).          (* hashTrieWriter.Sum: root, everything Put *)

  Definition gstage_write (t : T) (span data : bytes) : res T :=
    if Nat.ltb (length data) 8 then Err EInvalidData else cw (put t data) span (H data).

  Record gfeeder := mkG { g_buf : bytes; g_wrote : Z; g_next : T }.

  Fixpoint gfeed_loop (fuel : nat) (dpre buf rest : bytes) (w : Z) (t : T) {struct fuel}
    : res (bool * bytes * Z * T) :=
    match rest with
    | [] => Ok (false, buf, w, t)
    | _ :: _ =>
        match fuel with
        | O => Err EHang
        | S fuel' =>
            if Nat.ltb (length dpre + length rest) cs then
              Ok (true, rest, (w + Z.of_nat (length rest))%Z, t)
            else
              let n := Nat.min (cs - length buf) (length rest) in
              let payload := dpre ++ firstn n rest in
              let sp := N.of_nat (length payload) in
              match gstage_write t (le64 sp) (le64 sp ++ payload) with
              | Ok t' => gfeed_loop fuel' [] [] (skipn n rest) (w + Z.of_N sp)%Z t'
              | Err x => Err x
              end
        end
    end.

  Definition gfeeder_write (f : gfeeder) (bs : bytes) : res (gfeeder * Z) :=
    if Nat.ltb (length bs + length (g_buf f)) cs then
      Ok (mkG (g_buf f ++ bs) (g_wrote f) (g_next f), Z.of_nat (length bs))
    else
      let sp := Z.of_nat (length (g_buf f)) in
      let w := if (0 <? sp)%Z then (- sp)%Z else 0%Z in
      match gfeed_loop (S (length bs)) (g_buf f) (g_buf f) bs w (g_next f) with
      | Ok (true, buf, ret, t) => Ok (mkG buf (g_wrote f) t, ret)
      | Ok (false, buf, ret, t) => Ok (mkG buf (i64 (g_wrote f + ret)) t, ret)
      | Err x => Err x
      end.

  Definition gfeeder_sum (f : gfeeder) : res (bytes * list bytes) :=
    let r1 :=
      if Nat.ltb 0 (length (g_buf f)) then
        let sp := N.of_nat (length (g_buf f)) in
        match gstage_write (g_next f) (le64 sp) (le64 sp ++ g_buf f) with
        | Ok t => Ok (t, i64 (g_wrote f + Z.of_nat (length (g_buf f) + 8)))
        | Err x => Err x
        end
      else Ok (g_next f, g_wrote f) in
    match r1 with
    | Err x => Err x
    | Ok (t1, wrote1) =>
        let r2 := if (wrote1 =? 0)%Z then gstage_write t1 (le64 0) (le64 0) else Ok t1 in
        match r2 with
        | Ok t2 => sm t2
        | Err x => Err x
        end
    end.

  Fixpoint gfeed_all (f : gfeeder) (segs : list bytes) (rets : list Z) : res (gfeeder * list Z) :=
    match segs with
    | [] => Ok (f, rets)
    | s :: segs' =>
        match gfeeder_write f s with
        | Ok (f', r) => gfeed_all f' segs' (rets ++ [r])
        | Err x => Err x
        end
    end.

  Definition gupload (t0 : T) (segs : list bytes) : res upload_result :=
    match gfeed_all (mkG [] 0%Z t0) segs [] with
    | Ok (f, rets) =>
        match gfeeder_sum f with
        | Ok (root, lg) => Ok (mkU root rets lg)
        | Err x => Err x
        end
    | Err x => Err x
    end.
End GFeed.

(** the pipeline of the code: feeder, hash + Put, buffer-and-cursor writer with a
    buffer of [buflen] bytes (boson.ChunkWithSpanSize*9*2 in the code) *)
Definition cput (t : ctrie) (d : bytes) : ctrie := mkC (c_buf t) (c_cur t) (c_full t) (c_log t ++ [d]).
Definition cupload (H : bytes -> bytes) (cs b refLen buflen : nat) (segs : list bytes) : res upload_result :=
  gupload H cs ctrie cput (ctrie_chain_write H b refLen) (ctrie_sum H b refLen) (ctrie_init buflen) segs.
