(** C02 — correspondence.  The harness drives the REAL [feeder.NewChunkFeederWriter]
    and [hashtrie.NewHashTrieWriter] (both parametric in chunk size, branching and
    reference length) with small parameters, the real [store.NewStoreWriter]
    stage into a recording Putter, and — in place of the Keccak BMT stage — the
    toy hash below (defined identically in Go).  Observed per segmentation of a
    content: the value returned by every [Write], the root returned by [Sum] or
    the error class, and the data of every chunk handed to [Put], in order
    (as count + two 32-bit rolling digests; in full for small cases).
    [check_case] recomputes all of it with the model.

    Contents are generated from a seed by the same LCG on both sides, so that a
    case stays small (Coq parses long list literals slowly). *)
From Coq Require Import List NArith ZArith Bool.
Import ListNotations.
Require Import Aurora.Base.Corr Aurora.C02.Model Aurora.C02.Spec Aurora.C02.Cursor Aurora.C02.CursorPipe.
Local Open Scope N_scope.

Definition m32 (n : N) : N := N.land n 4294967295.

(** toy chunk hash, [refLen] output bytes; uint32 arithmetic *)
Definition toy_state (data : bytes) : N :=
  fold_left (fun s x => m32 (s * 16777619 + x + 1)) data 2166136261.
Fixpoint toy_out (k : nat) (s : N) : bytes :=
  match k with
  | O => []
  | S k' => let s' := m32 (s * 1103515245 + 12345) in (N.shiftr s' 16 mod 256) :: toy_out k' s'
  end.
Definition toy_hash (refLen : nat) (data : bytes) : bytes := toy_out refLen (toy_state data).

(** content generator *)
Fixpoint gen_data (n : nat) (x : N) : bytes :=
  match n with
  | O => []
  | S n' => let x' := m32 (x * 1664525 + 1013904223) in N.shiftr x' 24 :: gen_data n' x'
  end.

(** digest of a chunk log *)
Definition dig_step (mul : N) (s : N) (chunk : bytes) : N :=
  fold_left (fun s x => m32 (s * mul + x + 1)) chunk (m32 (s * 31 + N.of_nat (length chunk) + 7)).
Definition digest (lg : list bytes) : N * N * N :=
  (N.of_nat (length lg), fold_left (dig_step 16777619) lg 1, fold_left (dig_step 2654435761) lg 2).

Fixpoint split_at (data : bytes) (cuts : list nat) : list bytes :=
  match cuts with
  | [] => []
  | c :: cuts' => firstn c data :: split_at (skipn c data) cuts'
  end.

(** error classes as reported by the harness *)
Definition err_code (e : err) : N :=
  match e with
  | EInconsistentRefs => 1 | ETrieFull => 2 | EInvalidData => 3
  | EUnmodelled => 90 | EPanic => 91 | EHang => 92
  end.

(** one segmentation of the content and what was observed *)
Record seg_obs := mkSO {
  so_cuts : list N;                         (* lengths of the successive Write calls *)
  so_rets : option (list Z);                (* return value of every successful Write; None = "equal to so_cuts" *)
  so_dig : N * N * N;                       (* digest of the chunks Put *)
  so_log : option (list bytes);             (* the chunks Put, in full (small cases only) *)
  so_res : N + bytes                        (* inl error class | inr root *)
}.

Inductive case :=
| CContent (cs b refLen : nat) (dseed : N) (n : nat) (obs : list seg_obs).

Definition model_seg (cs b refLen : nat) (data : bytes) (cuts : list N) : (list Z * list bytes * (N + bytes)) :=
  match upload (toy_hash refLen) cs b refLen (split_at data (map N.to_nat cuts)) with
  | Ok u => (u_rets u, u_log u, inr (u_root u))
  | Err e => ([], [], inl (err_code e))
  end.

(** the same through the buffer-and-cursor writer (Cursor.v), with a buffer that holds
    eight full levels at these parameters *)
Definition model_seg_c (cs b refLen : nat) (data : bytes) (cuts : list N) : (list Z * list bytes * (N + bytes)) :=
  match cupload (toy_hash refLen) cs b refLen (8 * b * (refLen + 8)) (split_at data (map N.to_nat cuts)) with
  | Ok u => (u_rets u, u_log u, inr (u_root u))
  | Err e => ([], [], inl (err_code e))
  end.

Definition sum_eqb (a b : N + bytes) : bool :=
  match a, b with
  | inl x, inl y => N.eqb x y
  | inr x, inr y => bytes_eqb x y
  | _, _ => false
  end.
Definition dig_eqb (a b : N * N * N) : bool :=
  let '(a1, a2, a3) := a in let '(b1, b2, b3) := b in N.eqb a1 b1 && N.eqb a2 b2 && N.eqb a3 b3.

(** on an error only the class is compared (the Go side stops at the failing call) *)
Definition check_seg_with (m : list Z * list bytes * (N + bytes)) (o : seg_obs) : bool :=
  let '(rets, lg, r) := m in
  match r with
  | inl _ => sum_eqb r (so_res o)
  | inr _ => sum_eqb r (so_res o) && list_eqb Z.eqb rets (match so_rets o with Some l => l | None => map Z.of_N (so_cuts o) end) && dig_eqb (digest lg) (so_dig o)
             && match so_log o with Some l => list_eqb bytes_eqb lg l | None => true end
  end.

(** both models — the level-list writer and the buffer-and-cursor writer — must reproduce
    the observation *)
Definition check_seg (cs b refLen : nat) (data : bytes) (o : seg_obs) : bool :=
  check_seg_with (model_seg cs b refLen data (so_cuts o)) o
  && check_seg_with (model_seg_c cs b refLen data (so_cuts o)) o.

Definition check_case (c : case) : bool :=
  match c with
  | CContent cs b refLen dseed n obs => forallb (check_seg cs b refLen (gen_data n dseed)) obs
  end.

Definition explain_case (c : case) :=
  match c with
  | CContent cs b refLen dseed n obs =>
      let data := gen_data n dseed in
      match filter (fun o => negb (check_seg cs b refLen data o)) obs with
      | o :: _ => let '(rets, lg, r) := model_seg cs b refLen data (so_cuts o) in
                  let '(retsc, lgc, rc) := model_seg_c cs b refLen data (so_cuts o) in
                  Some (so_cuts o, (rets, digest lg, r), (retsc, digest lgc, rc), (so_rets o, so_dig o, so_res o), (lg, so_log o))
      | [] => None
      end
  end.
